/-
  Property C07b (tokenizer side) — SINGLE-PULL lemmas for html5lib's own tokenizer model (`H5.Model.Tokenizer.next`,
  the function the parser model pulls tokens with) on the output language of the serializer model with the DEFAULT
  options `({} : Opts)`.

  Every lemma starts from `DataAt ts inp` (data state, input `inp`, empty queue; `currentToken`, `temporaryBuffer`
  and `cdataAllowed` are arbitrary, so the lemmas survive whatever the parser changes between two pulls), returns
  exactly ONE token — the first and only one queued, so no `ParseError` token is emitted — and ends in `DataAt ts' rest`.

    H5.Props.C07bTokCore     runs of state-method calls (`Steps`), `next_of_steps`, `loop_generic`, `span_flatMap`
    H5.Props.C07bTokTag      `next_eof`, `next_doctype_html`, `next_endTag`
    H5.Props.C07bTokText     `next_text` (+ `_frame`), `text_pull` (data state and RCDATA state)
    H5.Props.C07bTokComment  `commentOKm`, `next_comment`
    H5.Props.C07bTokAttr     the attribute states, one call at a time, and the three value loops
    H5.Props.C07bTokStart    `next_startTag` (+ `_frame`): minimised, unquoted and quoted attributes
    H5.Props.C07bTokRcdata   `next_rcdata_text`, `next_rcdata_endTitle`, `next_rcdata_endTextarea`
    here                     non-vacuity examples and the finding about comments

  FINDING (comments).  html5lib's `commentEndState` reports a third `-` after `--`
  ("unexpected-dash-after-double-dash-in-comment"), the current standard does not.  So for comment data ending in
  `-` — accepted by C08c's `commentOK`, the serializer writes `<!--a--->` without complaint — the token read back is
  right but a `ParseError` token comes first: `next_comment` is false with `commentOK`, and is proved with
  `commentOKm d = commentOK d && !(d.getLast? == some 45)`.
-/
import H5.Props.C07bTokRcdata
namespace H5.Props.C07b
open H5 H5.Gen H5.Model H5.Model.Tokenizer
open H5.Model.Serializer (escape Opts attrOut)
open H5.Props.C08c

/-! ### Non-vacuity: each lemma on a concrete input (the hypotheses hold, and `next` returns what the lemma says) -/

/-- a fresh tokenizer on `inp` -/
def start (inp : Str) : St := St.init .dataState none false inp

theorem dataAt_start (inp : Str) : DataAt (start inp) inp := ⟨rfl, rfl, rfl⟩

-- next_eof
example : next (start []) = .ok none := by decide +kernel

-- next_doctype_html: `<!DOCTYPE html>x`
example : (next (start (lit "<!DOCTYPE html>" ++ [120]))).map (Option.map fun r => (r.1, r.2.state, r.2.input, r.2.tokenQueue))
    = .ok (some (.doctype (some (lit "html")) none none true, .dataState, [120], [])) := by decide +kernel

-- next_endTag: `</h1>x`
example : tagNameOK [104, 49] = true := by decide
example : (next (start (endTagText [104, 49] ++ [120]))).map (Option.map fun r => (r.1, r.2.state, r.2.input, r.2.tokenQueue))
    = .ok (some (.endTag [104, 49] [] false, .dataState, [120], [])) := by decide +kernel

/-- `<input disabled value=a&amp;b title="x y" alt="&quot;'">`: a minimised boolean attribute, an unquoted value with `&`,
a quoted value, a quoted value with both quote characters -/
def exAttrs2 : List Attr :=
  [⟨none, lit "disabled", []⟩, ⟨none, lit "value", [97, 38, 98]⟩, ⟨none, lit "title", [120, 32, 121]⟩,
   ⟨none, lit "alt", [34, 39]⟩]

-- next_startTag
example : startTagOK {} (lit "input") exAttrs2 = true := by decide
example : startTagText {} (lit "input") exAttrs2 = lit "<input disabled value=a&amp;b title=\"x y\" alt=\"&quot;'\">" := by
  decide
example : (next (start (startTagText {} (lit "input") exAttrs2 ++ [120]))).map
      (Option.map fun r => (r.1, r.2.state, r.2.input, r.2.tokenQueue))
    = .ok (some (.startTag (lit "input") (exAttrs2.map fun a => (a.name, a.value)) false, .dataState, [120], [])) := by
  decide +kernel
-- a value the serializer quotes with `'`
example : startTagOK {} [97] [⟨none, [98], [34]⟩] = true ∧ startTagText {} [97] [⟨none, [98], [34]⟩] = lit "<a b='\"'>" := by
  decide
example : (next (start (startTagText {} [97] [⟨none, [98], [34]⟩]))).map (Option.map fun r => (r.1, r.2.state, r.2.input, r.2.tokenQueue))
    = .ok (some (.startTag [97] [([98], [34])] false, .dataState, [], [])) := by decide +kernel

-- next_text: `a b&lt;c d` + `<`: three pulls (`a b`, `<`, `c d`)
example : valueOK [97, 32, 98, 60, 99, 32, 100] = true := by decide
example : (next (start (escape [97, 32, 98, 60, 99, 32, 100] ++ [60]))).map (Option.map fun r => (r.1, r.2.state, r.2.input, r.2.tokenQueue))
    = .ok (some (.chars [97, 32, 98], .dataState, escape [60, 99, 32, 100] ++ [60], [])) := by decide +kernel
example : (next (start (escape [60, 99, 32, 100] ++ [60]))).map (Option.map fun r => (r.1, r.2.state, r.2.input, r.2.tokenQueue))
    = .ok (some (.chars [60], .dataState, escape [99, 32, 100] ++ [60], [])) := by decide +kernel
-- a run of space characters is a `SpaceCharacters` token
example : (next (start (escape [32, 10, 97] ++ [60]))).map (Option.map fun r => (r.1, r.2.state, r.2.input, r.2.tokenQueue))
    = .ok (some (.space [32, 10], .dataState, escape [97] ++ [60], [])) := by decide +kernel
-- (`hrest` is needed: text followed by more text is read as one run)
example : (next (start (escape [97] ++ [98]))).map (Option.map fun r => (r.1, r.2.input))
    = .ok (some (.chars [97, 98], [])) := by decide +kernel

-- next_comment: `<!---a-<!-b-->x`
example : commentOKm [45, 97, 45, 60, 33, 45, 98] = true := by decide
example : (next (start (commentText [45, 97, 45, 60, 33, 45, 98] ++ [120]))).map
      (Option.map fun r => (r.1, r.2.state, r.2.input, r.2.tokenQueue))
    = .ok (some (.comment [45, 97, 45, 60, 33, 45, 98], .dataState, [120], [])) := by decide +kernel
example : commentOKm [] = true ∧ (next (start (commentText []))).map (Option.map fun r => (r.1, r.2.input, r.2.tokenQueue))
    = .ok (some (.comment [], [], [])) := by decide +kernel

/-! ### The finding: `commentOK` is not enough for html5lib's tokenizer -/

-- `a-` is `commentOK` (and the standard's tokenizer reads `<!--a--->` back silently, C08c), but html5lib's tokenizer
-- model yields a parse error first, then the comment
example : commentOK [97, 45] = true ∧ commentOKm [97, 45] = false := by decide
example : tokenizeAll .dataState none (commentText [97, 45])
    = .ok [perr "unexpected-dash-after-double-dash-in-comment", .comment [97, 45]] := by decide +kernel
example : (next (start (commentText [97, 45]))).map (Option.map fun r => (r.1, r.2.tokenQueue))
    = .ok (some (perr "unexpected-dash-after-double-dash-in-comment", [])) := by decide +kernel

/-! ### Stage 4: text in `<title>` -/

/-- the tokenizer after `<title>` has been pulled and the tree builder has switched it to the RCDATA state -/
def inTitle (inp : Str) : St :=
  ⟨.rcdataState, inp, some (.emittedStartTag (lit "title")), none, [], false⟩

example (inp : Str) : RcAt (lit "title") (inTitle inp) inp := ⟨rfl, rfl, rfl, rfl⟩
-- the state `inTitle` is what `next_startTag_frame` + `setState` give
example : (next (start (startTagText {} (lit "title") [] ++ [120]))).map (Option.map fun r => setState r.2 .rcdataState)
    = .ok (some (inTitle [120])) := by decide +kernel
example : (next (inTitle (escape [97, 38, 98] ++ lit "</title>" ++ [120]))).map
      (Option.map fun r => (r.1, r.2.state, r.2.currentToken, r.2.input))
    = .ok (some (.chars [97], .rcdataState, some (.emittedStartTag (lit "title")), escape [38, 98] ++ lit "</title>" ++ [120])) := by
  decide +kernel
example : (next (inTitle (lit "</title>" ++ [120]))).map (Option.map fun r => (r.1, r.2.state, r.2.input, r.2.tokenQueue))
    = .ok (some (.endTag (lit "title") [] false, .dataState, [120], [])) := by decide +kernel

end H5.Props.C07b
