/-
  C01b — step lemmas of the "in body" insertion mode of the SPECIFICATION: start tags.
-/
import H5.Props.C01bStep
import H5.Props.C01bNames
set_option linter.unusedSimpArgs false
set_option linter.unusedVariables false
namespace H5.Props.C01b
open H5 H5.Spec.TC
open H5.Props.C07b (fmtName fmtNames)

theorem SInv.insertHtmlElement_run {m s fs f} (h : SInv m s fs f) (nm : Str) (pairs : List (Str × Str))
    (hnt : (nm == lit "template") = false) :
    (insertHtmlElement nm pairs).run s =
      .ok (s.arena.size, { s with arena := addChild s.arena f.id (.element .html nm (plainAttrs pairs)),
                                  stack := s.arena.size :: s.stack }) :=
  H5.Props.C01b.insertHtmlElement_run s f.id _ f.node nm pairs h.stackCons h.foster h.topNode h.topContent h.topk hnt

theorem fmtName_false_of_ordinary {nm : Str} (h : among nm specStartNames = false) : fmtName nm = false := by
  have := among_notin (L := fmtNames) h (by decide +kernel)
  simpa [fmtName, among] using this

/-- "any other start tag" -/
theorem step_start_ordinary {s fs f} (h : SInv .inBody s fs f) (nm : Str) (pairs : List (Str × Str))
    (ho : among nm specStartNames = false) :
    ∃ s', (processToken (.startTag nm pairs false)).run s = .ok ((), s') ∧
      SInv .inBody s' (fs ++ [f.withChild s.arena.size]) (newFrame s.arena.size f.id nm (plainAttrs pairs)) := by
  have hnt : (nm == lit "template") = false := beq_notin _ ho (by decide +kernel)
  have hsc : s.dev = {} := h.dev
  refine ⟨{ s with arena := addChild s.arena f.id (.element .html nm (plainAttrs pairs)), stack := s.arena.size :: s.stack },
    processToken_of_mode h _ (fun r => ?_), ?_⟩
  · show (bodyStartTag r (.startTag nm pairs false) nm pairs false).run s = _
    unfold bodyStartTag
    simp (disch := decide +kernel) only [hsc, run_bind, get_run, ok_bind, among_notin ho, beq_notin _ ho, Bool.false_eq_true, ↓reduceIte,
      Bool.or_false, Bool.false_and, Bool.and_false, Bool.false_or, h.reconstruct, h.insertHtmlElement_run nm pairs hnt,
      run_pure]
  · refine h.pushed nm (plainAttrs pairs) ⟨rfl, rfl, rfl, rfl, rfl, rfl, rfl⟩ h.mode rfl ?_ rfl
    rw [fmtName_false_of_ordinary ho]; simp

theorem SInv.closePIfInButtonScope_run {m s fs f} (h : SInv m s fs f) (hnp : NoneNamed fs f (lit "p")) :
    closePIfInButtonScope.run s = .ok ((), s) := by
  unfold closePIfInButtonScope
  simp only [run_bind, h.hasInScope_false .button _ hnp, ok_bind, Bool.false_eq_true, ↓reduceIte, run_pure]

def specBlockP : List Str := specBlock ++ [lit "p"]

/-- a start tag of the "close a p element" block list (incl. `p`), no `p` element open -/
theorem step_start_block {s fs f} (h : SInv .inBody s fs f) (nm : Str) (pairs : List (Str × Str))
    (hK : among nm specBlockP = true) (hnp : NoneNamed fs f (lit "p")) :
    ∃ s', (processToken (.startTag nm pairs false)).run s = .ok ((), s') ∧
      SInv .inBody s' (fs ++ [f.withChild s.arena.size]) (newFrame s.arena.size f.id nm (plainAttrs pairs)) := by
  have hnt : (nm == lit "template") = false := beq_disjoint _ hK (by decide +kernel)
  have hsc : s.dev = {} := h.dev
  refine ⟨{ s with arena := addChild s.arena f.id (.element .html nm (plainAttrs pairs)), stack := s.arena.size :: s.stack },
    processToken_of_mode h _ (fun r => ?_), ?_⟩
  · show (bodyStartTag r (.startTag nm pairs false) nm pairs false).run s = _
    unfold bodyStartTag
    simp (disch := decide +kernel) only [hsc, run_bind, get_run, ok_bind, among_disjoint hK, among_sub hK, beq_disjoint _ hK,
      Bool.false_eq_true, ↓reduceIte, Bool.or_false, Bool.false_and, Bool.and_false, Bool.false_or, Bool.not_false,
      Bool.and_true, h.closePIfInButtonScope_run hnp, h.insertHtmlElement_run nm pairs hnt, run_pure]
  · refine h.pushed nm (plainAttrs pairs) ⟨rfl, rfl, rfl, rfl, rfl, rfl, rfl⟩ h.mode rfl ?_ rfl
    have : fmtName nm = false := by
      have := among_disjoint (L := fmtNames) hK (by decide +kernel)
      simpa [fmtName, among] using this
    rw [this]; simp

/-- a heading start tag: no `p` element open, the current node is not a heading -/
theorem step_start_heading {s fs f} (h : SInv .inBody s fs f) (nm : Str) (pairs : List (Str × Str))
    (hK : among nm specHeadings = true) (hnp : NoneNamed fs f (lit "p")) (pn : Str) (pattrs : List Attr)
    (hpk : f.node.kind = .element .html pn pattrs) (hph : among pn specHeadings = false) :
    ∃ s', (processToken (.startTag nm pairs false)).run s = .ok ((), s') ∧
      SInv .inBody s' (fs ++ [f.withChild s.arena.size]) (newFrame s.arena.size f.id nm (plainAttrs pairs)) := by
  have hnt : (nm == lit "template") = false := beq_disjoint _ hK (by decide +kernel)
  have hsc : s.dev = {} := h.dev
  have hcur : (currentIsAmong headingNames).run s = .ok (false, s) := by
    rw [currentIsAmong_run s f.id _ f.node pn pattrs _ h.stackCons h.topNode hpk]
    congr 2
  refine ⟨{ s with arena := addChild s.arena f.id (.element .html nm (plainAttrs pairs)), stack := s.arena.size :: s.stack },
    processToken_of_mode h _ (fun r => ?_), ?_⟩
  · show (bodyStartTag r (.startTag nm pairs false) nm pairs false).run s = _
    unfold bodyStartTag
    simp (disch := decide +kernel) only [hsc, run_bind, get_run, ok_bind, among_disjoint hK, among_sub hK, beq_disjoint _ hK,
      Bool.false_eq_true, ↓reduceIte, Bool.or_false, Bool.false_and, Bool.and_false, Bool.false_or, Bool.not_false,
      Bool.and_true, h.closePIfInButtonScope_run hnp, hcur, h.insertHtmlElement_run nm pairs hnt, run_pure]
  · refine h.pushed nm (plainAttrs pairs) ⟨rfl, rfl, rfl, rfl, rfl, rfl, rfl⟩ h.mode rfl ?_ rfl
    have : fmtName nm = false := by
      have := among_disjoint (L := fmtNames) hK (by decide +kernel)
      simpa [fmtName, among] using this
    rw [this]; simp

theorem pushFormatting_run (s : St) (node : NodeId) (name : Str) (attrs : List (Str × Str)) :
    (pushFormatting node name attrs).run s = .ok ((), { s with afe := noahPush s.afe node name attrs }) := rfl

theorem sameEntry_false_of_name {nm : Str} {pairs : List (Str × Str)} {e : AfeEntry}
    (h : ∀ i n a, e = .elem i n a → n ≠ nm) : sameEntry nm pairs e = false := by
  cases e with
  | marker => rfl
  | elem i n a =>
    have := h i n a rfl
    simp [sameEntry, this]

/-- a formatting start tag other than `a`, `nobr`: no open formatting element has the name -/
theorem step_start_fmt {s fs f} (h : SInv .inBody s fs f) (nm : Str) (pairs : List (Str × Str))
    (hK : among nm specFmtB = true) (hno : ∀ e ∈ s.afe, ∀ i n a, e = .elem i n a → n ≠ nm) :
    ∃ s', (processToken (.startTag nm pairs false)).run s = .ok ((), s') ∧
      SInv .inBody s' (fs ++ [f.withChild s.arena.size]) (newFrame s.arena.size f.id nm (plainAttrs pairs)) := by
  have hnt : (nm == lit "template") = false := beq_disjoint _ hK (by decide +kernel)
  have hsc : s.dev = {} := h.dev
  have hpush : noahPush s.afe s.arena.size nm pairs = s.afe ++ [.elem s.arena.size nm pairs] :=
    noahPush_fresh _ _ _ _ h.afe_noMarker (fun e he => sameEntry_false_of_name (hno e he))
  refine ⟨{ s with arena := addChild s.arena f.id (.element .html nm (plainAttrs pairs)), stack := s.arena.size :: s.stack,
                   afe := s.afe ++ [.elem s.arena.size nm pairs] },
    processToken_of_mode h _ (fun r => ?_), ?_⟩
  · show (bodyStartTag r (.startTag nm pairs false) nm pairs false).run s = _
    unfold bodyStartTag
    simp (disch := decide +kernel) only [hsc, run_bind, get_run, ok_bind, among_disjoint hK, among_sub hK, beq_disjoint _ hK,
      Bool.false_eq_true, ↓reduceIte, Bool.or_false, Bool.false_and, Bool.and_false, Bool.false_or, Bool.not_false,
      Bool.and_true, h.reconstruct, h.insertHtmlElement_run nm pairs hnt, run_pure, pushFormatting_run, hpush]
  · refine h.pushed nm (plainAttrs pairs) ⟨rfl, rfl, rfl, rfl, rfl, rfl, rfl⟩ h.mode rfl ?_ rfl
    have : fmtName nm = true := by
      have := among_sub (L := fmtNames) hK (by decide +kernel)
      simpa [fmtName, among] using this
    rw [this, pairsOf_plainAttrs]; rfl

theorem find?_none_of {α : Type} (p : α → Bool) : ∀ (l : List α), (∀ x ∈ l, p x = false) → l.find? p = none
  | [], _ => rfl
  | x :: rest, h => by
    rw [List.find?_cons, h x (List.mem_cons_self ..)]
    exact find?_none_of p rest (fun y hy => h y (List.mem_cons_of_mem _ hy))

/-- an `a` start tag: no `a` element in the list of active formatting elements -/
theorem step_start_a {s fs f} (h : SInv .inBody s fs f) (pairs : List (Str × Str))
    (hno : ∀ e ∈ s.afe, ∀ i n a, e = .elem i n a → n ≠ lit "a") :
    ∃ s', (processToken (.startTag (lit "a") pairs false)).run s = .ok ((), s') ∧
      SInv .inBody s' (fs ++ [f.withChild s.arena.size]) (newFrame s.arena.size f.id (lit "a") (plainAttrs pairs)) := by
  have hK : among (lit "a") [lit "a"] = true := among_singleton _
  have hnt : (lit "a" == lit "template") = false := by decide +kernel
  have hsc : s.dev = {} := h.dev
  have hpush : noahPush s.afe s.arena.size (lit "a") pairs = s.afe ++ [.elem s.arena.size (lit "a") pairs] :=
    noahPush_fresh _ _ _ _ h.afe_noMarker (fun e he => sameEntry_false_of_name (hno e he))
  refine ⟨{ s with arena := addChild s.arena f.id (.element .html (lit "a") (plainAttrs pairs)),
                   stack := s.arena.size :: s.stack, afe := s.afe ++ [.elem s.arena.size (lit "a") pairs] },
    processToken_of_mode h _ (fun r => ?_), ?_⟩
  · show (bodyStartTag r (.startTag (lit "a") pairs false) (lit "a") pairs false).run s = _
    unfold bodyStartTag
    simp (disch := decide +kernel) only [hsc, run_bind, get_run, ok_bind, among_disjoint hK, among_sub hK, beq_disjoint _ hK,
      beq_self_eq_true, Bool.false_eq_true, ↓reduceIte, Bool.or_false, Bool.false_and, Bool.and_false, Bool.false_or,
      Bool.not_false, Bool.and_true, afterLastMarker_noMarker_eq _ h.afe_noMarker]
    rw [find?_none_of]
    · simp only [hsc, run_bind, ok_bind, run_pure, h.reconstruct, h.insertHtmlElement_run (lit "a") pairs hnt,
        pushFormatting_run, hpush]
    · intro e he
      have he' : e ∈ s.afe := List.mem_reverse.1 he
      cases e with
      | marker => rfl
      | elem i n a_ =>
        have := hno _ he' i n a_ rfl
        simpa using this
  · refine h.pushed (lit "a") (plainAttrs pairs) ⟨rfl, rfl, rfl, rfl, rfl, rfl, rfl⟩ h.mode rfl ?_ rfl
    have : fmtName (lit "a") = true := by decide +kernel
    rw [this, pairsOf_plainAttrs]; rfl

end H5.Props.C01b
