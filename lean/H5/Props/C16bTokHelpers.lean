/-
  Property C16b, tokenizer part — `PP` instances (never `ParseError`) for the helpers the state methods are built from:
  `CurTok` mutators, `St` helpers, `emitCurrentToken`, `consumeEntity`, `cdataLoop`, …
-/
import H5.Props.C16bTokCore
set_option linter.unusedSimpArgs false
set_option linter.unusedVariables false
namespace H5.Props.C16b
open H5 H5.Gen H5.Model H5.Model.Tokenizer

instance PP_tokOk (s : St) : PP (Tokenizer.ok s) := by unfold Tokenizer.ok; pp_auto
instance PP_nameE (t : CurTok) : PP (t.nameE) := by unfold CurTok.nameE; pp_auto
instance PP_modName (f) (t : CurTok) : PP (CurTok.modName f t) := by unfold CurTok.modName; pp_auto
instance PP_attrsE (t : CurTok) : PP (t.attrsE) := by unfold CurTok.attrsE; pp_auto
instance PP_setAttrs (d) (t : CurTok) : PP (CurTok.setAttrs d t) := by unfold CurTok.setAttrs; pp_auto
instance PP_appendAttr (n) (t : CurTok) : PP (CurTok.appendAttr n t) := by unfold CurTok.appendAttr; pp_auto
instance PP_modLastAttr (f) (t : CurTok) : PP (CurTok.modLastAttr f t) := by unfold CurTok.modLastAttr; pp_auto
instance PP_addAttrName (x) (t : CurTok) : PP (CurTok.addAttrName x t) := by unfold CurTok.addAttrName; pp_auto
instance PP_addAttrValue (x) (t : CurTok) : PP (CurTok.addAttrValue x t) := by unfold CurTok.addAttrValue; pp_auto
instance PP_addData (x) (t : CurTok) : PP (CurTok.addData x t) := by unfold CurTok.addData; pp_auto
instance PP_setSelfClosing (t : CurTok) : PP (CurTok.setSelfClosing t) := by unfold CurTok.setSelfClosing; pp_auto
instance PP_setIncorrect (t : CurTok) : PP (CurTok.setIncorrect t) := by unfold CurTok.setIncorrect; pp_auto
instance PP_initPublicId (t : CurTok) : PP (CurTok.initPublicId t) := by unfold CurTok.initPublicId; pp_auto
instance PP_initSystemId (t : CurTok) : PP (CurTok.initSystemId t) := by unfold CurTok.initSystemId; pp_auto
instance PP_addPublicId (x) (t : CurTok) : PP (CurTok.addPublicId x t) := by unfold CurTok.addPublicId; pp_auto
instance PP_addSystemId (x) (t : CurTok) : PP (CurTok.addSystemId x t) := by unfold CurTok.addSystemId; pp_auto
instance PP_toTTok (t : CurTok) : PP (CurTok.toTTok t) := by unfold CurTok.toTTok; pp_auto
instance PP_cur (s : St) : PP (s.cur) := by unfold St.cur; pp_auto
instance PP_modCur (s : St) (f : CurTok → Except PyErr CurTok) [∀ t, PP (f t)] : PP (s.modCur f) := by unfold St.modCur; pp_auto
instance PP_emitCur (s : St) : PP (s.emitCur) := by unfold St.emitCur; pp_auto
instance PP_tempBuf (s : St) : PP (s.tempBuf) := by unfold St.tempBuf; pp_auto
instance PP_addTempBuf (s : St) (x) : PP (s.addTempBuf x) := by unfold St.addTempBuf; pp_auto
instance PP_emitCurrentToken (s : St) : PP (emitCurrentToken s) := by unfold emitCurrentToken; pp_auto
instance PP_consumeEntity (s : St) (ac fa) : PP (consumeEntity s ac fa) := by unfold consumeEntity; pp_auto
instance PP_processEntityInAttribute (s : St) (c) : PP (processEntityInAttribute s c) := by unfold processEntityInAttribute; pp_auto
instance PP_appropriate (s : St) : PP (appropriate s) := by unfold appropriate; pp_auto
instance PP_newEndTagFromBuffer (s : St) : PP (s.newEndTagFromBuffer) := by unfold St.newEndTagFromBuffer; pp_auto
instance PP_endTagNameBody (fb) (s : St) : PP (endTagNameBody fb s) := by unfold endTagNameBody; pp_auto
instance PP_bufferIsScript (s : St) : PP (s.bufferIsScript) := by unfold St.bufferIsScript; pp_auto
instance PP_leaveAttributeName (s : St) : PP (leaveAttributeName s) := by unfold leaveAttributeName; pp_auto
instance PP_markupDeclarationOpenFail (s : St) (cs) : PP (markupDeclarationOpenFail s cs) := by unfold markupDeclarationOpenFail; pp_auto
instance PP_emitCurToData (s : St) : PP (s.emitCurToData) := by unfold St.emitCurToData; pp_auto
instance PP_failDoctype (s : St) (c) : PP (s.failDoctype c) := by unfold St.failDoctype; pp_auto
instance PP_afterDoctypeNameFail (s : St) (d) : PP (afterDoctypeNameFail s d) := by unfold afterDoctypeNameFail; pp_auto
instance PP_doctypePublicIdentifierQuoted (q) (s : St) : PP (doctypePublicIdentifierQuoted q s) := by unfold doctypePublicIdentifierQuoted; pp_auto
instance PP_doctypeSystemIdentifierQuoted (q) (s : St) : PP (doctypeSystemIdentifierQuoted q s) := by unfold doctypeSystemIdentifierQuoted; pp_auto

instance PP_cdataLoop (fuel data i) : PP (cdataLoop fuel data i) := by
  induction fuel generalizing data i with
  | zero => unfold cdataLoop; pp_auto
  | succ n ih => unfold cdataLoop; pp_auto

end H5.Props.C16b
