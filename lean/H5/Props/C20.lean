/-
  Property C20 — XML-name coercion always yields legal names (and is the identity on legal ones);
  coerced comments / public identifiers are legal.
  Model: H5.Model.Infoset (hand model tied by ops xml:*); classes extracted from the compiled regexps and,
  for the XML side, from the production text the module itself quotes (H5.Gen.Infoset).
-/
import H5.Model.Infoset
import H5.Proofs.Ranges
namespace H5.Props.C20
open H5 H5.Gen H5.Model.Infoset

/-! ### the two regular-expression classes are exactly the complements of the XML productions (BMP) -/

theorem C20_classes_first (c : Nat) (h : c ≤ 65535) : illegalFirst c = !inRanges xmlNameStart c := by
  have e : compl 65535 0 xmlNameStart = nonXmlNameFirst := by decide +kernel
  have s : sortedFrom 0 xmlNameStart = true := by decide +kernel
  rw [illegalFirst, ← e]
  exact inRanges_compl 65535 0 xmlNameStart c s (Nat.zero_le _) h

theorem C20_classes_rest (c : Nat) (h : c ≤ 65535) : illegalRest c = !inRanges xmlNameChar c := by
  have e : compl 65535 0 xmlNameChar = nonXmlName := by decide +kernel
  have s : sortedFrom 0 xmlNameChar = true := by decide +kernel
  rw [illegalRest, ← e]
  exact inRanges_compl 65535 0 xmlNameChar c s (Nat.zero_le _) h

/-! ### the escape `U%05X` -/

def isHexU (d : Nat) : Prop := (48 ≤ d ∧ d ≤ 57) ∨ (65 ≤ d ∧ d ≤ 70)

theorem hexDigitCharU_ok (m : Nat) (h : m < 16) : isHexU (hexDigitCharU m) := by
  unfold hexDigitCharU isHexU; split <;> omega

theorem toHexAux_ok (fuel n : Nat) (acc : Str) (hacc : ∀ d ∈ acc, isHexU d) :
    ∀ d ∈ toHexAux hexDigitCharU fuel n acc, isHexU d := by
  induction fuel generalizing n acc with
  | zero => simpa [toHexAux] using hacc
  | succ k ih =>
    simp only [toHexAux]
    split
    · intro d hd
      simp at hd
      rcases hd with rfl | hd
      · exact hexDigitCharU_ok _ (by omega)
      · exact hacc d hd
    · apply ih
      intro d hd
      simp at hd
      rcases hd with rfl | hd
      · exact hexDigitCharU_ok _ (Nat.mod_lt _ (by omega))
      · exact hacc d hd

theorem escapeChar_shape (c : Nat) : ∃ ds, escapeChar c = 85 :: ds ∧ ∀ d ∈ ds, isHexU d := by
  refine ⟨padZero 5 (toHexUpper c), rfl, ?_⟩
  intro d hd
  simp only [padZero, List.mem_append, List.mem_replicate] at hd
  rcases hd with ⟨_, rfl⟩ | hd
  · left; omega
  · exact toHexAux_ok _ _ [] (by simp) d hd

/-- TableOK: the characters an escape consists of are legal XML name characters, `U` may start a name,
and neither is matched by the two regular expressions nor by the pubid expression. -/
theorem escape_chars_ok : ∀ d, (d = 85 ∨ isHexU d) →
    inRanges xmlNameChar d = true ∧ illegalRest d = false ∧ inRanges nonPubidChar d = false := by
  intro d hd
  have hm : d ∈ [85, 48, 49, 50, 51, 52, 53, 54, 55, 56, 57, 65, 66, 67, 68, 69, 70] := by
    simp only [List.mem_cons, List.not_mem_nil, or_false]
    rcases hd with rfl | hd
    · simp
    · unfold isHexU at hd; omega
  have key : ∀ d ∈ [85, 48, 49, 50, 51, 52, 53, 54, 55, 56, 57, 65, 66, 67, 68, 69, 70],
      inRanges xmlNameChar d = true ∧ illegalRest d = false ∧ inRanges nonPubidChar d = false := by
    decide +kernel
  exact key d hm

theorem U_starts_name : inRanges xmlNameStart 85 = true := by decide +kernel

/-! ### sequential `str.replace` over a set of characters = simultaneous substitution, for ANY iteration order -/

theorem replaceChar_flatMap (l : Str) (f : Nat → Str) (o : Nat) (n : Str) :
    Str.replaceChar (l.flatMap f) o n = l.flatMap (fun c => Str.replaceChar (f c) o n) := by
  simp only [Str.replaceChar, List.flatMap_assoc]

theorem replaceChar_noop (s : Str) (o : Nat) (n : Str) (h : o ∉ s) : Str.replaceChar s o n = s := by
  induction s with
  | nil => rfl
  | cons c r ih =>
    simp only [List.mem_cons, not_or] at h
    have hc : ¬ c = o := fun e => h.1 e.symm
    have := ih h.2
    simp only [Str.replaceChar, List.flatMap_cons, hc, if_false] at this ⊢
    simp [this]

/-- substitution state after the characters in `done` have been processed -/
def gDone (done : Str) (c : Nat) : Str := if c ∈ done then escapeChar c else [c]

theorem escape_no_bad (bad : Nat → Bool) (hbad : ∀ d, (d = 85 ∨ isHexU d) → bad d = false)
    (c ch : Nat) (hch : bad ch = true) : ch ∉ escapeChar c := by
  obtain ⟨ds, e, hds⟩ := escapeChar_shape c
  rw [e]
  intro hm
  simp at hm
  rcases hm with rfl | hm
  · have := hbad 85 (Or.inl rfl); rw [this] at hch; exact absurd hch (by simp)
  · have := hbad ch (Or.inr (hds ch hm)); rw [this] at hch; exact absurd hch (by simp)

theorem replaceAll_gen (bad : Nat → Bool) (hbad : ∀ d, (d = 85 ∨ isHexU d) → bad d = false)
    (order done s : Str) (hord : ∀ c ∈ order, bad c = true) :
    replaceAll order (s.flatMap (gDone done)) = s.flatMap (gDone (order.reverse ++ done)) := by
  induction order generalizing done with
  | nil => simp [replaceAll]
  | cons ch rest ih =>
    have hch : bad ch = true := hord ch (List.mem_cons_self)
    have step : Str.replaceChar (s.flatMap (gDone done)) ch (escapeChar ch) = s.flatMap (gDone (ch :: done)) := by
      rw [replaceChar_flatMap]
      congr 1
      funext c
      unfold gDone
      by_cases hc : c ∈ done
      · simp only [hc, if_true, List.mem_cons, or_true]
        exact replaceChar_noop _ _ _ (escape_no_bad bad hbad c ch hch)
      · by_cases hcc : c = ch
        · subst hcc
          simp [hc, Str.replaceChar]
        · have : ¬ ch = c := fun e => hcc e.symm
          simp [hc, hcc, Str.replaceChar]
    have := ih (ch :: done) (fun c hc => hord c (List.mem_cons_of_mem _ hc))
    simp only [replaceAll, List.foldl_cons] at this ⊢
    rw [step, this]
    simp

theorem flatMap_congr2 (s : Str) (f g : Nat → Str) (h : ∀ c ∈ s, f c = g c) : s.flatMap f = s.flatMap g := by
  induction s with
  | nil => rfl
  | cons c r ih =>
    simp only [List.flatMap_cons]
    rw [h c List.mem_cons_self, ih (fun x hx => h x (List.mem_cons_of_mem _ hx))]

theorem flatMap_gDone_nil (s : Str) : s.flatMap (gDone []) = s := by
  induction s with
  | nil => rfl
  | cons c r ih => simp [gDone] at ih ⊢; exact ih

/-- **order independence**: whatever order the characters to replace are visited in (and with or without
repetitions), the loop computes the simultaneous substitution. -/
theorem replaceAll_eq (bad : Nat → Bool) (hbad : ∀ d, (d = 85 ∨ isHexU d) → bad d = false)
    (order s : Str) (hord : ∀ c ∈ order, bad c = true) (hall : ∀ c ∈ s, bad c = true → c ∈ order) :
    replaceAll order s = s.flatMap (fun c => if bad c then escapeChar c else [c]) := by
  have := replaceAll_gen bad hbad order [] s hord
  rw [flatMap_gDone_nil] at this
  rw [this]
  apply flatMap_congr2
  intro c hc
  unfold gDone
  by_cases hb : bad c = true
  · simp [hb, hall c hc hb]
  · have : c ∉ order := fun h => hb (hord c h)
    simp [hb, this]

theorem mem_distinct (l : Str) (c : Nat) : c ∈ distinct l ↔ c ∈ l := by
  induction l with
  | nil => simp [distinct]
  | cons a r ih =>
    simp only [distinct, List.mem_cons, List.mem_filter, ih]
    by_cases h : c = a <;> simp [h]

def escMap (c : Nat) : Str := if illegalRest c then escapeChar c else [c]

/-- closed form of `toXmlName` -/
theorem toXmlName_spec (f : Nat) (rest : Str) :
    toXmlName (f :: rest) = .ok ((if illegalFirst f then escapeChar f else [f]) ++ rest.flatMap escMap) := by
  simp only [toXmlName]
  congr 2
  apply replaceAll_eq illegalRest (fun d hd => (escape_chars_ok d hd).2.1)
  · intro c hc
    rw [mem_distinct] at hc
    simp at hc
    exact hc.2
  · intro c hc hb
    rw [mem_distinct]
    simp [hc, hb]

/-- `toXmlName` raises only on the empty name (`name[0]`); the tokenizer never emits one. -/
theorem C20_total (name : Str) (h : name ≠ []) : ∃ out, toXmlName name = .ok out := by
  cases name with
  | nil => exact absurd rfl h
  | cons f rest => exact ⟨_, toXmlName_spec f rest⟩

/-- legal XML 1.0 (4th ed.) name without colon, per the productions quoted in the module -/
def XmlNameOk : Str → Prop
  | [] => False
  | c :: r => inRanges xmlNameStart c = true ∧ ∀ d ∈ r, inRanges xmlNameChar d = true

/-- **C20 (legal).** every non-empty BMP name is coerced into a legal XML name. -/
theorem C20_legal (name out : Str) (hbmp : ∀ c ∈ name, c ≤ 65535) (h : toXmlName name = .ok out) :
    XmlNameOk out := by
  cases name with
  | nil => simp [toXmlName] at h
  | cons f rest =>
    rw [toXmlName_spec] at h
    injection h with h
    subst h
    have hrest : ∀ d ∈ rest.flatMap escMap, inRanges xmlNameChar d = true := by
      intro d hd
      simp only [List.mem_flatMap] at hd
      obtain ⟨c, hc, hd⟩ := hd
      unfold escMap at hd
      by_cases hi : illegalRest c = true
      · simp only [hi, if_true] at hd
        obtain ⟨ds, e, hds⟩ := escapeChar_shape c
        rw [e] at hd
        simp at hd
        rcases hd with rfl | hd
        · exact (escape_chars_ok 85 (Or.inl rfl)).1
        · exact (escape_chars_ok d (Or.inr (hds d hd))).1
      · simp only [hi] at hd
        simp at hd
        subst hd
        have := C20_classes_rest d (hbmp d (List.mem_cons_of_mem _ hc))
        simp only [Bool.not_eq_true] at hi
        rw [hi] at this
        simpa using this.symm
    by_cases hf : illegalFirst f = true
    · obtain ⟨ds, e, hds⟩ := escapeChar_shape f
      simp only [hf, if_true, e, List.cons_append]
      refine ⟨U_starts_name, ?_⟩
      intro d hd
      simp at hd
      rcases hd with hd | hd
      · exact (escape_chars_ok d (Or.inr (hds d hd))).1
      · exact hrest d (by simpa using hd)
    · simp only [hf, List.cons_append, List.nil_append]
      refine ⟨?_, hrest⟩
      have := C20_classes_first f (hbmp f List.mem_cons_self)
      simp only [Bool.not_eq_true] at hf
      rw [hf] at this
      simpa using this.symm

/-- **C20 (identity on legal names).** a legal colon-free BMP name is left unchanged. -/
theorem C20_id (name : Str) (hbmp : ∀ c ∈ name, c ≤ 65535) (h : XmlNameOk name) : toXmlName name = .ok name := by
  cases name with
  | nil => exact absurd h (by simp [XmlNameOk])
  | cons f rest =>
    rw [toXmlName_spec]
    obtain ⟨h1, h2⟩ := h
    have hf : illegalFirst f = false := by
      rw [C20_classes_first f (hbmp f List.mem_cons_self), h1]; rfl
    have hr : rest.flatMap escMap = rest := by
      clear hf h1
      induction rest with
      | nil => rfl
      | cons c r ih =>
        have hc : illegalRest c = false := by
          rw [C20_classes_rest c (hbmp c (by simp)), h2 c List.mem_cons_self]; rfl
        simp only [List.flatMap_cons, escMap, hc]
        have := ih (fun x hx => hbmp x (by simp at hx ⊢; rcases hx with rfl | hx <;> simp [*]))
          (fun d hd => h2 d (List.mem_cons_of_mem _ hd))
        simp [escMap] at this ⊢
        exact this
    simp [hf, hr]

/-! ### comments and public identifiers -/

theorem loop_no_ddash (fuel : Nat) (d r : Str) : coerceCommentLoop fuel d = .ok r → r.contains ddash = false := by
  induction fuel generalizing d with
  | zero => simp [coerceCommentLoop]
  | succ k ih =>
    simp only [coerceCommentLoop]
    split
    · exact ih _
    · rename_i h
      intro e
      injection e with e
      subst e
      simpa using h

theorem no_ddash_append_space (d : Str) (h : Str.isInfix ddash d = false) : Str.isInfix ddash (d ++ [32]) = false := by
  induction d with
  | nil => decide
  | cons c r ih =>
    simp only [Str.isInfix, Bool.or_eq_false_iff] at h
    simp only [List.cons_append, Str.isInfix, Bool.or_eq_false_iff]
    refine ⟨?_, ?_⟩
    · cases r with
      | nil => simp [ddash, List.isPrefixOf]
      | cons e r' => simpa [ddash, List.isPrefixOf] using h.1
    · cases r with
      | nil => decide
      | cons e r' => exact ih h.2

/-- **C20 (comments).** with `preventDoubleDashComments` a coerced comment never contains `--` nor ends in `-`. -/
theorem C20_comment (f : Flags) (data r : Str) (hf : f.preventDoubleDashComments = true)
    (h : coerceComment f data = .ok r) : r.contains ddash = false ∧ endsWithDash r = false := by
  simp only [coerceComment, hf, if_true, Bool.true_or, Bool.true_and] at h
  cases hl : coerceCommentLoop (data.length + 2) data with
  | error e => rw [hl] at h; simp [bind, Except.bind] at h
  | ok d =>
    rw [hl] at h
    simp only [bind, Except.bind, pure, Except.pure] at h
    injection h with h
    have nd := loop_no_ddash _ _ _ hl
    by_cases he : endsWithDash d = true
    · simp only [he, if_true] at h
      subst h
      refine ⟨no_ddash_append_space d nd, ?_⟩
      simp [endsWithDash]
    · simp only [he] at h
      subst h
      exact ⟨nd, by simpa using he⟩

/-- **C20 (comments, trailing dash).** with `preventDashAtCommentEnd` alone (fix c900095: the flag used to be stored and
never read) a coerced comment never ends in `-`, and nothing but one trailing space is added. -/
theorem C20_comment_dash_end (f : Flags) (data r : Str) (hf : f.preventDashAtCommentEnd = true)
    (hd : f.preventDoubleDashComments = false) (h : coerceComment f data = .ok r) :
    endsWithDash r = false ∧ (r = data ∨ r = data ++ [32]) := by
  simp only [coerceComment, hf, hd, Bool.false_or, Bool.true_and, Bool.false_eq_true, if_false, bind, Except.bind,
    pure, Except.pure] at h
  injection h with h
  by_cases he : endsWithDash data = true
  · simp only [he, if_true] at h
    subst h
    exact ⟨by simp [endsWithDash], Or.inr rfl⟩
  · simp only [he] at h
    subst h
    exact ⟨by simpa using he, Or.inl rfl⟩

/-- without either flag comments pass through unchanged -/
theorem C20_comment_off (f : Flags) (data : Str) (h1 : f.preventDoubleDashComments = false)
    (h2 : f.preventDashAtCommentEnd = false) : coerceComment f data = .ok data := by
  simp [coerceComment, h1, h2, bind, Except.bind, pure, Except.pure]

def isBadPubid (c : Nat) : Bool := inRanges nonPubidChar c

/-- **C20 (public identifiers).** a coerced public identifier contains only XML PubidChars, and no `'` when
`preventSingleQuotePubid` is set. -/
theorem C20_pubid (f : Flags) (data : Str) :
    (∀ c ∈ coercePubid f data, isBadPubid c = false) ∧
    (f.preventSingleQuotePubid = true → 39 ∉ coercePubid f data) := by
  have hbad : ∀ d, (d = 85 ∨ isHexU d) → isBadPubid d = false := fun d hd => (escape_chars_ok d hd).2.2
  have e : replaceAll (data.filter isBadPubid) data = data.flatMap (fun c => if isBadPubid c then escapeChar c else [c]) :=
    replaceAll_eq isBadPubid hbad _ _ (by intro c hc; simp at hc; exact hc.2) (by intro c hc hb; simp [hc, hb])
  have hout : ∀ c ∈ replaceAll (data.filter isBadPubid) data, isBadPubid c = false := by
    rw [e]
    intro c hc
    simp only [List.mem_flatMap] at hc
    obtain ⟨x, _, hc⟩ := hc
    by_cases hx : isBadPubid x = true
    · simp only [hx, if_true] at hc
      obtain ⟨ds, e2, hds⟩ := escapeChar_shape x
      rw [e2] at hc
      simp at hc
      rcases hc with rfl | hc
      · exact hbad 85 (Or.inl rfl)
      · exact hbad c (Or.inr (hds c hc))
    · simp only [hx] at hc
      simp at hc
      subst hc
      simpa using hx
  have hrep : ∀ c ∈ Str.replaceChar (replaceAll (data.filter isBadPubid) data) 39 (escapeChar 39),
      isBadPubid c = false ∧ c ≠ 39 := by
    intro c hc
    simp only [Str.replaceChar, List.mem_flatMap] at hc
    obtain ⟨x, hx, hc⟩ := hc
    by_cases h39 : x = 39
    · subst h39
      simp only [if_true] at hc
      obtain ⟨ds, e2, hds⟩ := escapeChar_shape 39
      rw [e2] at hc
      simp at hc
      rcases hc with rfl | hc
      · exact ⟨hbad 85 (Or.inl rfl), by decide⟩
      · have := hds c hc
        exact ⟨hbad c (Or.inr this), by unfold isHexU at this; omega⟩
    · simp only [h39, if_false] at hc
      simp at hc
      subst hc
      exact ⟨hout c hx, h39⟩
  unfold coercePubid
  simp only [isBadPubid] at *
  constructor
  · intro c hc
    split at hc
    · exact (hrep c hc).1
    · exact hout c hc
  · intro hq hm
    split at hm
    · exact (hrep 39 hm).2 rfl
    · rename_i hn
      apply hn
      exact ⟨hq, by simpa using hm⟩

end H5.Props.C20
