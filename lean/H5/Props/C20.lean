import H5.Model.Infoset
namespace H5.Props.C20
end H5.Props.C20
