/-
  Property C02 "total", clean corollary — the tactic `state_ok` (case split on the token shape allowed by the
  invariant, evaluation of the state method, closing of the invariant goals).
-/
import H5.Props.C02cOkHelpers
set_option linter.unusedSimpArgs false
namespace H5.Props.C02c
open H5 H5.Gen H5.Model H5.Model.Tokenizer

macro "ok_pre" : tactic => `(tactic| first
  | rfl
  | (simp [emittable, isTagA, isTag, isDoctype, isComment]; done)
  | (simp_all [emittable, isTagA, isTag, isDoctype, isComment]; done))

macro_rules | `(tactic| opost_helper) => `(tactic| (with_reducible apply OPost_mono (emitCurrentToken_ok _ ?pre); case pre => ok_pre))
macro_rules | `(tactic| opost_helper) => `(tactic| (with_reducible apply OPost_mono (emitCurToData_ok _ ?pre); case pre => ok_pre))
macro_rules | `(tactic| opost_helper) => `(tactic| (with_reducible apply OPost_mono (failDoctype_ok _ _ ?pre); case pre => ok_pre))
macro_rules | `(tactic| opost_helper) => `(tactic| (with_reducible apply OPost_mono (leaveAttributeName_ok _ ?pre); case pre => ok_pre))
macro_rules | `(tactic| opost_helper) => `(tactic| (with_reducible apply OPost_mono (consumeEntity_attr_ok _ _ ?pre); case pre => ok_pre))
macro_rules | `(tactic| opost_helper) => `(tactic| (with_reducible apply OPost_mono (afterDoctypeNameFail_ok _ _ ?pre); case pre => ok_pre))
macro_rules | `(tactic| opost_helper) => `(tactic| with_reducible apply OPost_mono (consumeEntity_plain_ok _ _))
macro_rules | `(tactic| opost_helper) => `(tactic| with_reducible apply OPost_mono (markupDeclarationOpenFail_ok _ _))

macro "ok_simp" : tactic => `(tactic| simp only [OPost_bind, OPost_pure, OPost_ok, OPost_error, OPost_throw,
  OPost_ite, ok_bind, VE_typeError, VE_keyError, VE_indexError, VE_assertFail, VE_lookupError, VE_outOfFuel,
  St.parseError, St.emit, St.emitChars, St.to, St.unget, St.setTempBuf, Stream.unget,
  modCur_some, modLastAttr_startTag, modLastAttr_endTag, appendAttr_startTag, appendAttr_endTag,
  CurTok.addAttrName, CurTok.addAttrValue, CurTok.modName, CurTok.addData, CurTok.setSelfClosing,
  CurTok.setIncorrect, CurTok.initPublicId, CurTok.initSystemId, CurTok.addPublicId, CurTok.addSystemId,
  tempBuf_some, addTempBuf_some, newEndTagFromBuffer_some, bufferIsScript_some, appropriate_none,
  appropriate_emitted, List.concat_eq_append])

macro "ok_loop" : tactic => `(tactic| repeat' (first
   | ok_simp
   | (opost_helper; intro _ _)
   | split ))

macro "ok_finish" : tactic => `(tactic| first
  | trivial
  | (simp_all [Inv, invB, plain, isTag, isTagA, isComment, isDoctype, isDoctypeP, isDoctypeS, St.to]; done))

theorem curtok_shapes (cur : Option CurTok) :
    cur = none ∨ (∃ n sc, cur = some (.startTag n [] sc)) ∨ (∃ n init a sc, cur = some (.startTag n (init ++ [a]) sc))
    ∨ (∃ n sc, cur = some (.endTag n [] sc)) ∨ (∃ n init a sc, cur = some (.endTag n (init ++ [a]) sc))
    ∨ (∃ n, cur = some (.emittedStartTag n)) ∨ (∃ d, cur = some (.comment d))
    ∨ (∃ n c, cur = some (.doctype n none none c)) ∨ (∃ n p c, cur = some (.doctype n (some p) none c))
    ∨ (∃ n sy c, cur = some (.doctype n none (some sy) c))
    ∨ (∃ n p sy c, cur = some (.doctype n (some p) (some sy) c)) := by
  rcases cur with _ | (⟨n, d, sc⟩ | ⟨n, d, sc⟩ | ⟨n⟩ | ⟨cdata⟩ | ⟨n, p, sy, c⟩)
  · simp
  · rcases List.eq_nil_or_concat d with rfl | ⟨init, a, rfl⟩ <;> simp
  · rcases List.eq_nil_or_concat d with rfl | ⟨init, a, rfl⟩ <;> simp
  · simp
  · simp
  · cases p <;> cases sy <;> simp

/-- kill the token shapes excluded by the invariant -/
macro "ok_kill" : tactic => `(tactic|
  all_goals try (simp [plain, isTag, isTagA, isComment, isDoctype, isDoctypeP, isDoctypeS] at *; done))

/-- for the states whose invariant is `True` -/
macro "state_ok_plain" f:ident : tactic => `(tactic| (
  rename_i s hs hi
  obtain ⟨st, input, cur, tb, q, cd⟩ := s
  simp only at hs
  subst hs
  cases input
  all_goals state_unfold $f
  all_goals ok_loop
  all_goals ok_finish))

macro "state_ok" f:ident : tactic => `(tactic| (
  rename_i s hs hi
  obtain ⟨st, input, cur, tb, q, cd⟩ := s
  simp only at hs
  subst hs
  simp only [Inv, invB, Bool.and_eq_true] at hi
  rcases curtok_shapes cur with h | ⟨n, sc, h⟩ | ⟨n, init, a, sc, h⟩ | ⟨n, sc, h⟩ | ⟨n, init, a, sc, h⟩
    | ⟨n, h⟩ | ⟨d, h⟩ | ⟨n, c, h⟩ | ⟨n, p, c, h⟩ | ⟨n, sy, c, h⟩ | ⟨n, p, sy, c, h⟩
  all_goals subst h
  ok_kill
  all_goals cases input
  all_goals state_unfold $f
  all_goals ok_loop
  all_goals ok_finish))

macro "state_ok_tb" f:ident : tactic => `(tactic| (
  rename_i s hs hi
  obtain ⟨st, input, cur, tb, q, cd⟩ := s
  simp only at hs
  subst hs
  simp only [Inv, invB, Bool.and_eq_true] at hi
  rcases curtok_shapes cur with h | ⟨n, sc, h⟩ | ⟨n, init, a, sc, h⟩ | ⟨n, sc, h⟩ | ⟨n, init, a, sc, h⟩
    | ⟨n, h⟩ | ⟨d, h⟩ | ⟨n, c, h⟩ | ⟨n, p, c, h⟩ | ⟨n, sy, c, h⟩ | ⟨n, p, sy, c, h⟩
  all_goals subst h
  ok_kill
  all_goals cases tb
  ok_kill
  all_goals cases input
  all_goals state_unfold $f
  all_goals ok_loop
  all_goals ok_finish))


end H5.Props.C02c
