/-
  Property C10 (token level), part 1 — what the sanitizer (H5.Model.Sanitizer) does to the CHARACTERS of the values
  it rewrites: `unescape`, `re.sub` (any pattern), `sanitize_css` and `disallowed_token` never introduce a NUL or a
  CR, and map the empty value to the empty value.  These are the facts that make the well-formedness hypotheses of
  `C08_stream_roundtrip` (H5.Props.C08c) hold AUTOMATICALLY for sanitizer output (H5.Props.C10b).
-/
import H5.Props.C09
import H5.Props.C08c
namespace H5.Props.C10b
set_option linter.unusedSimpArgs false
open H5 H5.Gen H5.Model.Sanitizer H5.Model.Regex
open H5.Props.C09 (filterE_mem mapE_mem filterE_sublist mapE_keys stepSvgRef_key stepStyle_key stepLocalHref_mem
  stepLocalHref_sublist findall2_decls)
open H5.Props.C08c (valueOK)

/-! ### `valueOK` as a property of each character -/

/-- neither NUL nor CR -/
def good (c : Nat) : Prop := c ≠ 0 ∧ c ≠ 13

theorem valueOK_iff (s : Str) : valueOK s = true ↔ ∀ c ∈ s, good c := by
  simp [valueOK, good, List.all_eq_true]

theorem valueOK_append (a b : Str) : valueOK (a ++ b) = (valueOK a && valueOK b) := by
  simp [valueOK, List.all_append]

theorem valueOK_nil : valueOK [] = true := rfl

theorem valueOK_cons (c : Nat) (s : Str) : valueOK (c :: s) = ((c != 0 && c != 13) && valueOK s) := by
  simp [valueOK]

/-! ### `str.replace`, `escape`, `unescape` -/

theorem replaceSub_go_mem (old new : Str) : ∀ (fuel : Nat) (s : Str) (c : Nat),
    c ∈ Str.replaceSub.go old new s fuel → c ∈ s ∨ c ∈ new := by
  intro fuel
  induction fuel with
  | zero => intro s c h; exact Or.inl h
  | succ f ih =>
    intro s c h
    cases s with
    | nil => simp [Str.replaceSub.go] at h
    | cons x rest =>
      simp only [Str.replaceSub.go] at h
      split at h
      · rcases List.mem_append.1 h with h | h
        · exact Or.inr h
        · rcases ih _ c h with h | h
          · exact Or.inl (List.mem_of_mem_drop h)
          · exact Or.inr h
      · rcases List.mem_cons.1 h with h | h
        · exact Or.inl (by rw [h]; exact List.mem_cons_self)
        · rcases ih _ c h with h | h
          · exact Or.inl (List.mem_cons_of_mem _ h)
          · exact Or.inr h

theorem replaceSub_mem (s old new : Str) (c : Nat) (h : c ∈ s.replaceSub old new) : c ∈ s ∨ c ∈ new :=
  replaceSub_go_mem old new _ s c h

theorem unescape_ok (v : Str) (h : valueOK v = true) : valueOK (unescape v) = true := by
  rw [valueOK_iff] at h ⊢
  intro c hc
  unfold unescape at hc
  rcases replaceSub_mem _ _ _ c hc with hc | hc
  · rcases replaceSub_mem _ _ _ c hc with hc | hc
    · rcases replaceSub_mem _ _ _ c hc with hc | hc
      · exact h c hc
      · simp at hc; subst hc; exact ⟨by decide, by decide⟩
    · simp at hc; subst hc; exact ⟨by decide, by decide⟩
  · simp at hc; subst hc; exact ⟨by decide, by decide⟩

theorem unescape_nil : unescape [] = [] := by decide

theorem replaceChar_ok (s : Str) (o : Nat) (n : Str) (hs : valueOK s = true) (hn : valueOK n = true) :
    valueOK (s.replaceChar o n) = true := by
  rw [valueOK_iff] at hs hn ⊢
  intro c hc
  rw [H5.Props.C08.mem_replaceChar] at hc
  rcases hc with ⟨h, _⟩ | ⟨_, h⟩
  · exact hs c h
  · exact hn c h

theorem escape_ok (v : Str) (h : valueOK v = true) : valueOK (H5.Model.Sanitizer.escape v) = true := by
  unfold H5.Model.Sanitizer.escape
  exact replaceChar_ok _ _ _ (replaceChar_ok _ _ _ (replaceChar_ok _ _ _ h (by decide)) (by decide)) (by decide)

/-! ### `re.sub`: every character of the result is a character of the subject or of the replacement -/

theorem chain_sub_mem (cl : Classes) (total fuel : Nat) (r : Re) (repl : Str) : ∀ (ms : List (Str × Match)) (s tail : Str),
    Chain cl total fuel r s ms tail → ∀ c ∈ ms.foldr (fun pm acc => pm.1 ++ repl ++ acc) tail, c ∈ s ∨ c ∈ repl := by
  intro ms
  induction ms with
  | nil =>
    intro s tail h c hc
    simp only [Chain] at h
    simp only [List.foldr_nil] at hc
    rw [h.1]; exact Or.inl hc
  | cons pm rest ih =>
    intro s tail h c hc
    simp only [Chain] at h
    obtain ⟨e, _, _, hch⟩ := h
    simp only [List.foldr_cons, List.mem_append] at hc
    rcases hc with (hc | hc) | hc
    · rw [e]; exact Or.inl (List.mem_append_left _ hc)
    · exact Or.inr hc
    · rcases ih _ _ hch c hc with h | h
      · rw [e]; exact Or.inl (List.mem_append_right _ (List.mem_append_right _ h))
      · exact Or.inr h

/-- **`re.sub(r, repl, s)`** (any pattern): the result consists of characters of `s` and of `repl` -/
theorem sub_mem (r : Re) (repl s out : Str) (h : sub cl r repl s = .ok out) : ∀ c ∈ out, c ∈ s ∨ c ∈ repl := by
  simp only [sub, bind_eq_ok, pure, Except.pure, Except.ok.injEq] at h
  obtain ⟨⟨ms, tail⟩, hm, rfl⟩ := h
  exact chain_sub_mem cl _ _ r repl ms s tail (allMatches_chain cl r s ms tail hm)

theorem sub_space_ok (r : Re) (s out : Str) (h : sub cl r [32] s = .ok out) (hs : valueOK s = true) :
    valueOK out = true := by
  rw [valueOK_iff] at hs ⊢
  intro c hc
  rcases sub_mem r [32] s out h c hc with h | h
  · exact hs c h
  · simp at h; subst h; exact ⟨by decide, by decide⟩

theorem sub_svgUrl_nil : sub cl H5.Gen.San.reSvgUrl [32] [] = .ok [] := by decide +kernel

/-! ### `sanitize_css` -/

/-- every capture of a successful anchored attempt was made by a group of the pattern -/
theorem attempt_caps (total fuel : Nat) (r : Re) (adv : Bool) (sk : Nat) (t : Str) (m : Match)
    (h : attempt cl total fuel r adv sk t = .ok (some m)) : ∀ e ∈ m.caps, GroupIn cl r e.1 e.2 := by
  obtain ⟨_, hr⟩ := attempt_sound cl total fuel r adv sk t m h
  obtain ⟨w, s', caps', _, _, hk, hc⟩ := run_sound cl total fuel r t [] _ _ hr
  split at hk
  · cases hk
  · simp only [Except.ok.injEq, Option.some.injEq, Prod.mk.injEq] at hk
    intro e he
    rw [← hk.2] at he
    rcases hc e he with h | h
    · simp at h
    · exact h

theorem declW_good (c : Nat) (h : declW c = true) : good c := by
  refine ⟨?_, ?_⟩ <;> intro e <;> subst e <;> revert h <;> decide +kernel

/-- the property name captured by the declaration pattern `([-\w]+)\s*:\s*([^:;]*)` consists of `[-\w]` characters -/
theorem findall2_decl_names (s : Str) (decls : List (Str × Str)) (h : findall2 cl H5.Gen.San.reDecl s = .ok decls) :
    ∀ pv ∈ decls, ∀ c ∈ pv.1, declW c = true := by
  simp only [findall2, bind_eq_ok, pure, Except.pure, Except.ok.injEq] at h
  obtain ⟨⟨ms, tail⟩, hm, rfl⟩ := h
  intro pv hpv
  obtain ⟨pm, hpm, rfl⟩ := List.mem_map.1 hpv
  obtain ⟨a, t, adv, sk, _, hatt⟩ := allMatches_sound cl _ s ms tail hm pm hpm
  have hcaps := attempt_caps _ _ _ adv sk t pm.2 hatt
  simp only
  cases hl : pm.2.group 1 with
  | none => simp
  | some p =>
    simp only [Option.getD_some]
    have hmem := lookup_mem 1 p pm.2.caps hl
    have hg := hcaps _ hmem
    rw [reDecl_shape] at hg
    simp only [GroupIn, Lang, true_and, or_false, false_or, and_false, false_and] at hg
    rcases hg with ⟨rest, hst⟩ | ⟨h12, _⟩
    · exact star_cls_all (fun c => declW c = true) _ _ hst
    · exact absurd h12 (by decide)

theorem joinSp_mem (l : List Str) (c : Nat) (h : c ∈ joinSp l) : c = 32 ∨ ∃ x ∈ l, c ∈ x := by
  induction l with
  | nil => simp [joinSp] at h
  | cons x xs ih =>
    cases xs with
    | nil => exact Or.inr ⟨x, List.mem_cons_self, by simpa [joinSp] using h⟩
    | cons y ys =>
      simp only [joinSp, List.mem_append, List.mem_singleton] at h
      rcases h with (h | h) | h
      · exact Or.inr ⟨x, List.mem_cons_self, h⟩
      · exact Or.inl h
      · rcases ih h with h | ⟨z, hz, hc⟩
        · exact Or.inl h
        · exact Or.inr ⟨z, List.mem_cons_of_mem _ hz, hc⟩

/-- **`sanitize_css`** never introduces NUL or CR: its result consists of characters of the style, of `[-\w]`
characters, and of `:`, space, `;` -/
theorem sanitizeCss_ok (L : Lists) (style out : Str) (h : sanitizeCss L style = .ok out) (hs : valueOK style = true) :
    valueOK out = true := by
  simp only [sanitizeCss, bind_eq_ok] at h
  obtain ⟨style', hsub, h⟩ := h
  have hs' := sub_space_ok _ _ _ hsub hs
  obtain ⟨g, _, h⟩ := h
  cases g with
  | some _ => simp only [pure, Except.pure, Except.ok.injEq] at h; rw [← h]; rfl
  | none =>
  simp only [bind_eq_ok] at h
  obtain ⟨m1, _, h⟩ := h
  cases m1 with
  | none => simp only [pure, Except.pure, Except.ok.injEq] at h; rw [← h]; rfl
  | some _ =>
    simp only [bind_eq_ok] at h
    obtain ⟨m2, _, h⟩ := h
    cases m2 with
    | none => simp only [pure, Except.pure, Except.ok.injEq] at h; rw [← h]; rfl
    | some _ =>
      simp only [bind_eq_ok, pure, Except.pure, Except.ok.injEq] at h
      obtain ⟨decls, hd, kept, hk, rfl⟩ := h
      rw [valueOK_iff] at hs' ⊢
      intro c hc
      rcases joinSp_mem _ c hc with rfl | ⟨x, hx, hcx⟩
      · exact ⟨by decide, by decide⟩
      · obtain ⟨pv, hpv, rfl⟩ := List.mem_map.1 hx
        have hpd : pv ∈ decls := (filterE_mem _ _ _ hk pv hpv).1
        simp only [fmtDecl, List.mem_append, List.mem_cons, List.mem_nil_iff, or_false] at hcx
        rcases hcx with ((h1 | h2) | h3) | h4
        · exact declW_good c (findall2_decl_names _ _ hd pv hpd c h1)
        · rcases h2 with rfl | rfl <;> exact ⟨by decide, by decide⟩
        · obtain ⟨_, a, rest, e, _⟩ := findall2_decls _ _ hd pv hpd
          apply hs' c
          rw [e]; simp [h3]
        · subst h4; exact ⟨by decide, by decide⟩

theorem sanitizeCss_nil (L : Lists) : sanitizeCss L [] = .ok [] := by
  have e1 : sub cl H5.Gen.San.reCssUrl [32] [] = .ok [] := by decide +kernel
  have e2' : (search cl H5.Gen.San.reCssUrlGuard []).map Option.isSome = .ok false := by decide +kernel
  have e2 : search cl H5.Gen.San.reCssUrlGuard [] = .ok none := by
    cases h2 : search cl H5.Gen.San.reCssUrlGuard [] with
    | error e => rw [h2] at e2'; cases e2'
    | ok o2 =>
      cases o2 with
      | none => rfl
      | some _ => rw [h2] at e2'; cases e2'
  have e5 : findall2 cl H5.Gen.San.reDecl [] = .ok [] := by decide +kernel
  have e3 : (matchAt cl H5.Gen.San.reGauntlet1 []).map Option.isSome = .ok true := by decide +kernel
  have e4 : (matchAt cl H5.Gen.San.reGauntlet2 []).map Option.isSome = .ok true := by decide +kernel
  cases h3 : matchAt cl H5.Gen.San.reGauntlet1 [] with
  | error e => rw [h3] at e3; cases e3
  | ok o3 =>
    cases o3 with
    | none => rw [h3] at e3; cases e3
    | some m3 =>
      cases h4 : matchAt cl H5.Gen.San.reGauntlet2 [] with
      | error e => rw [h4] at e4; cases e4
      | ok o4 =>
        cases o4 with
        | none => rw [h4] at e4; cases e4
        | some m4 =>
          simp [sanitizeCss, e1, e2, h3, h4, e5, keptDecls, filterE, joinSp, bind, Except.bind, pure, Except.pure]

end H5.Props.C10b
