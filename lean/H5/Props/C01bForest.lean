/-
  C01b — the SPECIFICATION builds the covered body content: mutual induction over nodes and forests.
-/
import H5.Props.C01bBody
set_option linter.unusedSimpArgs false
set_option linter.unusedVariables false
namespace H5.Props.C01b
open H5 H5.Spec.TC
open H5.Props.C07b (fmtName fmtNames catOf voidName Cat okNode okForest G0 headOK docTree commentOKm htmlNs sHtml sHead
  sBody sTitle isText Ctx attrsPlain)
open H5.Props.C08c (valueOK startTagOK)

theorem uri_html : NS.html.uri = htmlNs := by decide +kernel

/-- a forest without adjacent text nodes is not changed by the text merge of the comparison format -/
theorem mergeText_okForest {cOK : Str → Bool} {x : Ctx} : ∀ (cs : List Tree), okForest cOK x cs = true → mergeText cs = cs
  | [], _ => rfl
  | t :: rest, h => by
    simp only [okForest, Bool.and_eq_true, Bool.not_eq_true'] at h
    obtain ⟨⟨_, hadj⟩, hrest⟩ := h
    have ih := mergeText_okForest rest hrest
    unfold mergeText
    rw [ih]
    cases t with
    | text a =>
      cases rest with
      | nil => rfl
      | cons v r =>
        cases v with
        | text b => simp [isText] at hadj
        | _ => rfl
    | _ => rfl

theorem sealed_kids_none {f : SFrame} (h : f.txt = none) : f.sealed.kids = f.kids := by
  unfold SFrame.sealed; rw [h]

theorem sealed_kids_some {f : SFrame} {d : Str} (h : f.txt = some d) : f.sealed.kids = f.kids ++ [.text d] := by
  unfold SFrame.sealed; rw [h]

theorem ofTTok_start (nm : Str) (pairs : List (Str × Str)) : ofTTok false (.startTag nm pairs false) = [.startTag nm pairs false] := rfl
theorem ofTTok_end (nm : Str) : ofTTok false (.endTag nm [] false) = [.endTag nm] := rfl
theorem ofTTok_comment (d : Str) : ofTTok false (.comment d) = [.comment d] := rfl

mutual
theorem node_spec (x : Ctx) : ∀ (u : Tree), okNode commentOKm x u = true → specNode u = true →
    ∀ (s : St) (fs : List SFrame) (f : SFrame) (ts : List TTok), SInv .inBody s fs f → CtxS x fs f → NodeToks u ts →
    (isText u = true → f.txt = none) →
    ∃ s' f', Reach s ts s' ∧ SInv .inBody s' fs f' ∧ Same f f' ∧ f'.sealed.kids = f.sealed.kids ++ [u] ∧
      (isText u = false → f'.txt = none)
  | .text d, hu, _, s, fs, f, ts, h, hctx, htoks, htxt => by
    simp only [okNode, Bool.and_eq_true, Bool.not_eq_true', List.isEmpty_eq_false_iff] at hu
    have ht := htxt rfl
    obtain ⟨s', f', hr, hi, hs, hk, htx⟩ := textToks_body (by simpa [NodeToks] using htoks) hu.2 h
    refine ⟨s', f', hr, hi, hs, ?_, by intro hh; cases hh⟩
    rw [ht] at htx
    rw [sealed_kids_some htx, hk, sealed_kids_none ht]
    rfl
  | .comment d, hu, _, s, fs, f, ts, h, hctx, htoks, _ => by
    have hts : ts = [.comment d] := by simpa [NodeToks] using htoks
    subst hts
    obtain ⟨s1, hs1, hi1⟩ := step_body_comment h.resetSwitch d
    exact ⟨s1, _, Reach.single (tokRun_one _ _ (ofTTok_comment d) _ _ hs1), hi1, ⟨rfl, rfl⟩, rfl, fun _ => rfl⟩
  | .elem ns nm attrs cs, hu, hsp, s, fs, f, ts, h, hctx, htoks, _ => by
    simp only [okNode, Bool.and_eq_true, beq_iff_eq] at hu
    obtain ⟨⟨⟨hns, hplain⟩, hst⟩, hbody⟩ := hu
    simp only [specNode, Bool.and_eq_true] at hsp
    obtain ⟨hag, hspf⟩ := hsp
    have hattrs : plainAttrs (pairsOf attrs) = attrs := plainAttrs_pairsOf attrs hplain
    by_cases hv : voidName nm = true
    · -- a void element
      simp only [hv, if_true, List.isEmpty_iff, Bool.and_eq_true] at hbody
      obtain ⟨hcs, hval⟩ := hbody
      subst hcs
      have hts : ts = [.startTag nm (pairsOf attrs) false] := by simpa [NodeToks, hv] using htoks
      subst hts
      have hK : among nm specVoid = true := by
        unfold specAgrees at hag
        rw [hv] at hag
        simp only [if_true, Bool.or_eq_true, beq_iff_eq] at hag
        simp only [specVoid, among, List.contains_eq_mem, List.mem_append, List.mem_cons, List.not_mem_nil, or_false,
          decide_eq_true_eq]
        rcases hag with (h1 | h1) | h1
        · exact Or.inl (Or.inl (by simpa [among] using h1))
        · exact Or.inl (Or.inr (by simpa [among] using h1))
        · exact Or.inr h1
      have hnp : nm = lit "hr" → NoneNamed fs f (lit "p") := by
        intro hh
        have : x.inP = false := by simpa [Ctx.voidAllowed, hh] using hval
        exact hctx.noP this
      obtain ⟨s1, hs1, hi1⟩ := step_start_void h.resetSwitch nm (pairsOf attrs) hK hnp
      refine ⟨s1, _, Reach.single (tokRun_one _ _ (ofTTok_start nm _) _ _ hs1), hi1, ⟨rfl, rfl⟩, ?_, fun _ => rfl⟩
      show f.sealed.kids ++ [voidTree nm (pairsOf attrs)] = _
      rw [voidTree, hattrs, uri_html, hns]
    · -- a container
      have hv' : voidName nm = false := by simpa using hv
      simp only [hv', Bool.false_eq_true, if_false] at hbody
      cases hc : catOf nm with
      | none => simp [hc] at hbody
      | some c =>
        simp only [hc, Bool.and_eq_true] at hbody
        obtain ⟨hal, hcs⟩ := hbody
        have hcat := cat_spec hc hv' hag
        obtain ⟨mid, hmid, hts⟩ : ∃ mid, ForestToks cs mid ∧
            ts = .startTag nm (pairsOf attrs) false :: (mid ++ [.endTag nm [] false]) := by
          simpa [NodeToks, hv'] using htoks
        subst hts
        -- the start tag
        obtain ⟨s1, hs1, hi1⟩ := cat_start hcat hal h.resetSwitch hctx (pairsOf attrs)
        have hr1 : Reach s [.startTag nm (pairsOf attrs) false] s1 :=
          Reach.single (tokRun_one _ _ (ofTTok_start nm _) _ _ hs1)
        -- the children
        have hctx1 := CtxS.inner hcat hal hctx h.fsne s.arena.size (plainAttrs (pairsOf attrs))
        obtain ⟨s2, g, hr2, hi2, hsame2, hkids2⟩ :=
          forest_spec (x.inner c nm) cs hcs hspf s1 _ _ mid hi1 hctx1 hmid (fun _ _ _ _ => rfl)
        -- the end tag
        have hgk : g.node.kind = .element .html nm (plainAttrs (pairsOf attrs)) := hsame2.2
        obtain ⟨s3, hs3, hi3⟩ := cat_end hcat hi2.resetSwitch h.fsne _ hgk
        have hr3 : Reach s2 [.endTag nm [] false] s3 := Reach.single (tokRun_one _ _ (ofTTok_end nm) _ _ hs3)
        refine ⟨s3, _, ?_, hi3, ⟨rfl, rfl⟩, ?_, fun _ => rfl⟩
        · have := hr1.trans (hr2.trans hr3)
          simpa using this
        · show f.sealed.kids ++ [g.sealed.tree] = _
          have : g.sealed.tree = .elem ns nm attrs cs := by
            unfold SFrame.tree
            rw [g.sealed_node, hgk, hkids2]
            show Tree.elem (some NS.html.uri) nm (plainAttrs (pairsOf attrs)) (mergeText ([] ++ cs)) = _
            rw [hattrs, uri_html, hns, List.nil_append, mergeText_okForest cs hcs]
          rw [this]
  | .doc _, hu, _, _, _, _, _, _, _, _, _ => by simp [okNode] at hu
  | .frag _, hu, _, _, _, _, _, _, _, _, _ => by simp [okNode] at hu
  | .doctype _ _ _, hu, _, _, _, _, _, _, _, _, _ => by simp [okNode] at hu
theorem forest_spec (x : Ctx) : ∀ (cs : List Tree), okForest commentOKm x cs = true → specForest cs = true →
    ∀ (s : St) (fs : List SFrame) (f : SFrame) (ts : List TTok), SInv .inBody s fs f → CtxS x fs f → ForestToks cs ts →
    (∀ t rest, cs = t :: rest → isText t = true → f.txt = none) →
    ∃ s' f', Reach s ts s' ∧ SInv .inBody s' fs f' ∧ Same f f' ∧ f'.sealed.kids = f.sealed.kids ++ cs
  | [], _, _, s, fs, f, ts, h, _, htoks, _ => by
    have : ts = [] := by simpa [ForestToks] using htoks
    subst this
    exact ⟨s, f, Reach.nil s, h, Same.refl f, by simp⟩
  | u :: rest, hu, hsp, s, fs, f, ts, h, hctx, htoks, htxt => by
    simp only [okForest, Bool.and_eq_true, Bool.not_eq_true'] at hu
    obtain ⟨⟨hu1, hadj⟩, hrest⟩ := hu
    simp only [specForest, Bool.and_eq_true] at hsp
    obtain ⟨a, b, ha, hb, rfl⟩ : ∃ a b, NodeToks u a ∧ ForestToks rest b ∧ ts = a ++ b := by
      simpa [ForestToks] using htoks
    obtain ⟨s1, f1, hr1, hi1, hs1, hk1, ht1⟩ := node_spec x u hu1 hsp.1 s fs f a h hctx ha (htxt u rest rfl)
    have hnext : ∀ t r, rest = t :: r → isText t = true → f1.txt = none := by
      intro t r hr ht
      subst hr
      have : isText u = false := by
        cases hiu : isText u with
        | false => rfl
        | true => simp [hiu, ht] at hadj
      exact ht1 this
    obtain ⟨s2, f2, hr2, hi2, hs2, hk2⟩ := forest_spec x rest hrest hsp.2 s1 fs f1 b hi1 (hctx.same hs1) hb hnext
    refine ⟨s2, f2, hr1.trans hr2, hi2, hs1.trans hs2, ?_⟩
    rw [hk2, hk1]
    simp
end

end H5.Props.C01b
