/-
  Property C10 — sanitized markup stays safe when it is parsed again: the TOKEN-LEVEL composition
      walker tokens ─ sanitizer ─▶ tokens ─ serializer ─▶ text ─ WHATWG tokenizer ─▶ tokens
  for EVERY list configuration `L` (H5.Model.Sanitizer.Lists), EVERY serializer option set `o` with `quote_char` one
  of `"` / `'` (so `quote_attr_values` legacy / spec / always, both quote characters, `escape_lt_in_attrs`,
  `minimize_boolean_attributes`, `use_trailing_solidus` … are all covered), and every walker token stream satisfying
  the decidable predicate `parsedOK L o`.  `omit_optional_tags` is off (the sanitizer output goes straight to the
  serializer loop: `renderSanitized`; pipeline position: `C10_sanitizer_position`, H5.Props.C10).

    `C10_sanitized_tokOK`           `parsedOK L o ts` ⇒ every token of the sanitizer's output satisfies `tokOK o`, the
                                    hypothesis of `C08_stream_roundtrip` (H5.Props.C08c)
    `C10_retokenised_is_sanitized`  the serializer reports no error and the standard's tokenizer reads its output back
                                    as exactly the sanitized stream
    `C10_retokenised_allowlisted`   hence every re-read tag name / attribute / URI scheme is allow-listed, there is no
                                    comment and no parse error, and every character token stems from input text or
                                    from an escaped disallowed tag (from the theorems of H5.Props.C09)

  AUTOMATIC for sanitizer output (nothing assumed): comments (dropped: no `commentOK` needed); attributes not on
  `allowedAttributes` (dropped before anything is checked); the values the sanitizer REWRITES (`style` through
  `sanitize_css`, `svgAttrValAllowsRef` through `unescape` + `re.sub`) stay free of NUL/CR and stay empty when empty
  (H5.Props.C10bSan); disallowed tags (they become text: only "no NUL/CR" is needed of their names and attributes).
  ASSUMED of the input (`inTokOK`): allowed tags have names the tokenizer keeps as they are (`tagNameOK`) and are not
  an HTML (or namespace-less) raw-text / RCDATA / script / plaintext element (`C08c.specialElements`: stated on the
  TOKENS, not on `L` — the default `L` allows `textarea`; a FOREIGN element of such a name, e.g. the allow-listed SVG
  `title`, is covered since the serializer fix COMMIT_A); their allow-listed attributes have well-formed names, pairwise
  distinct BARE names (the serializer drops the namespace prefix), values without NUL/CR, and an empty value when the
  serializer minimises them; text has no NUL/CR; DOCTYPEs are `doctypeOK`; no Entity / SerializeError tokens.

  NOT covered (said here because the theorems are about tokens): what TREE CONSTRUCTION makes of the re-read tokens.
  The re-tokeniser knows names only; namespaces are assigned by the tree builder from the context, so an allowed
  element can be re-parsed in another namespace (recorded finding `element-reparsed-in-another-namespace`,
  C10-ns-confusion), a namespaced attribute is re-read under its bare name (C08-ns-attr), and text inside
  raw-text / RCDATA / foreign contexts is interpreted by the tree builder's tokenizer-state switches, which the
  data-state tokenizer of these theorems does not perform (hence the exclusion of `specialElements`).
-/
import H5.Props.C10bSan
namespace H5.Props.C10b
set_option linter.unusedSimpArgs false
open H5 H5.Model.Sanitizer H5.Model.Regex H5.Spec
open H5.Model.Serializer (Opts serialize htmlOrNone)
open H5.Props.C09 (filterE_mem mapE_mem filterE_sublist mapE_keys stepSvgRef_key stepStyle_key stepLocalHref_mem
  stepLocalHref_sublist tagKey tokAttrs isComment tagAllowed allowedToken_spec sanitizeToken_cases filterSC_mem
  C09_elements C09_attrs C09_uri C09_no_comments UriClause)
open H5.Props.C08c (valueOK attrOK attrNameOK minimized startTagOK namesDistinct tagNameOK tokOK doctypeOK quoteCharOK
  expected toTTok chars1 C08_stream_roundtrip cerr)

/-! ### The attributes of an allowed tag -/

/-- one pass of the `svg_attr_val_allows_ref` loop on one attribute -/
theorem svgRef_step (L : Lists) (a b : Attr)
    (h : (if L.svgAttrValAllowsRef.elem (akey a) then (do
            let v ← sub cl H5.Gen.San.reSvgUrl [32] (unescape a.value)
            pure { a with value := v } : Except PyErr Attr) else pure a) = .ok b) :
    akey b = akey a ∧ (valueOK a.value = true → valueOK b.value = true) ∧ (a.value = [] → b.value = []) := by
  split at h
  · simp only [bind_eq_ok, pure, Except.pure, Except.ok.injEq] at h
    obtain ⟨v, hv, rfl⟩ := h
    refine ⟨rfl, fun ha => sub_space_ok _ _ _ hv (unescape_ok _ ha), fun ha => ?_⟩
    rw [ha, unescape_nil, sub_svgUrl_nil] at hv
    exact (Except.ok.inj hv).symm
  · simp only [pure, Except.pure, Except.ok.injEq] at h
    subst h
    exact ⟨rfl, id, id⟩

theorem style_step (L : Lists) (a b : Attr)
    (h : (if akey a = styleKey then (do
            let v ← sanitizeCss L a.value
            pure { a with value := v } : Except PyErr Attr) else pure a) = .ok b) :
    akey b = akey a ∧ (valueOK a.value = true → valueOK b.value = true) ∧ (a.value = [] → b.value = []) := by
  split at h
  · simp only [bind_eq_ok, pure, Except.pure, Except.ok.injEq] at h
    obtain ⟨v, hv, rfl⟩ := h
    refine ⟨rfl, fun ha => sanitizeCss_ok L _ _ hv ha, fun ha => ?_⟩
    rw [ha, sanitizeCss_nil] at hv
    exact (Except.ok.inj hv).symm
  · simp only [pure, Except.pure, Except.ok.injEq] at h
    subst h
    exact ⟨rfl, id, id⟩

/-- **an attribute of the output** of `allowed_token` stems from an input attribute that is on `allowedAttributes`,
has the same key, and its value is still free of NUL/CR (empty) if the input value was -/
theorem allowedAttrs_out (L : Lists) (name : Str) (attrs out : List Attr) (h : allowedAttrs L name attrs = .ok out)
    (b : Attr) (hb : b ∈ out) :
    ∃ a ∈ stepAllowed L attrs, akey a = akey b ∧ (valueOK a.value = true → valueOK b.value = true) ∧
      (a.value = [] → b.value = []) := by
  simp only [allowedAttrs, bind_eq_ok] at h
  obtain ⟨l1, h1, l2, h2, l3, h3, h4⟩ := h
  obtain ⟨a3, ha3, hf3⟩ := mapE_mem _ _ _ h4 b hb
  obtain ⟨k3, v3, e3⟩ := style_step L a3 b hf3
  have ha3 : a3 ∈ l2 := stepLocalHref_mem L name l2 l3 h3 a3 ha3
  obtain ⟨a2, ha2, hf2⟩ := mapE_mem _ _ _ h2 a3 ha3
  obtain ⟨k2, v2, e2⟩ := svgRef_step L a2 a3 hf2
  obtain ⟨ha1, _⟩ := filterE_mem _ _ _ h1 a2 ha2
  exact ⟨a2, ha1, by rw [k3, k2], fun hv => v3 (v2 hv), fun hv => e3 (e2 hv)⟩

/-- the keys of the output are a sub-sequence of the keys of the allow-listed input attributes -/
theorem allowedAttrs_keys2 (L : Lists) (name : Str) (attrs out : List Attr) (h : allowedAttrs L name attrs = .ok out) :
    (out.map akey).Sublist ((stepAllowed L attrs).map akey) := by
  simp only [allowedAttrs, bind_eq_ok] at h
  obtain ⟨l1, h1, l2, h2, l3, h3, h4⟩ := h
  have e4 := mapE_keys l3 out h4 (fun a b hab => (stepStyle_key L a b hab).1)
  have e2 := mapE_keys l1 l2 h2 (fun a b hab => (stepSvgRef_key L a b hab).1)
  have s3 := (stepLocalHref_sublist L name l2 l3 h3).map akey
  have s1 := (filterE_sublist _ _ _ h1).map akey
  rw [e4]
  rw [e2] at s3
  exact s3.trans s1

theorem akey_name {a b : Attr} (h : akey a = akey b) : a.name = b.name := by
  simp only [akey, Prod.mk.injEq] at h; exact h.2

/-- `startTagOK` is inherited by the output of `allowed_token` from the allow-listed input attributes -/
theorem allowedAttrs_startTagOK (L : Lists) (o : Opts) (name : Str) (attrs out : List Attr)
    (h : allowedAttrs L name attrs = .ok out) (hok : startTagOK o name (stepAllowed L attrs) = true) :
    startTagOK o name out = true := by
  simp only [startTagOK, Bool.and_eq_true, List.all_eq_true, namesDistinct, decide_eq_true_eq] at hok ⊢
  obtain ⟨⟨hn, hattrs⟩, hnd⟩ := hok
  refine ⟨⟨hn, ?_⟩, ?_⟩
  · intro b hb
    obtain ⟨a, ha, hk, hv, he⟩ := allowedAttrs_out L name attrs out h b hb
    have hname := akey_name hk
    have hao := hattrs a ha
    simp only [attrOK, Bool.and_eq_true, Bool.or_eq_true, Bool.not_eq_true', List.isEmpty_iff] at hao ⊢
    refine ⟨⟨by rw [← hname]; exact hao.1.1, hv hao.1.2⟩, ?_⟩
    have hmin : minimized o name b = minimized o name a := by simp [minimized, hname]
    rcases hao.2 with h2 | h2
    · left; rw [hmin]; exact h2
    · right; exact he h2
  · have hs := (allowedAttrs_keys2 L name attrs out h).map Prod.snd
    simp only [List.map_map] at hs
    have e : ∀ l : List Attr, List.map (Prod.snd ∘ akey) l = l.map (·.name) := fun l => by
      apply List.map_congr_left; intro a _; rfl
    rw [e, e] at hs
    exact hs.nodup hnd

/-! ### The text a disallowed tag becomes -/

theorem lookup_some_mem {β : Type} (k : Str) (v : β) : ∀ (l : List (Str × β)), l.lookup k = some v → (k, v) ∈ l := by
  intro l
  induction l with
  | nil => simp [List.lookup]
  | cons e r ih =>
    obtain ⟨j, u⟩ := e
    intro h
    simp only [List.lookup] at h
    split at h
    · rename_i heq
      have : k = j := by simpa using heq
      simp only [Option.some.injEq] at h
      subst h; subst this
      exact List.mem_cons_self
    · exact List.mem_cons_of_mem _ (ih h)

theorem prefixes_ok : ∀ e ∈ H5.Gen.prefixes, valueOK e.2 = true := by decide

/-- name and value of an attribute of a disallowed tag: no NUL/CR -/
def plainAttr (a : Attr) : Bool := valueOK a.name && valueOK a.value

theorem fmtAttr_ok (a : Attr) (p : Str) (h : fmtAttr a = .ok p) (ha : plainAttr a = true) : valueOK p = true := by
  simp only [plainAttr, Bool.and_eq_true] at ha
  have hesc := escape_ok a.value ha.2
  unfold fmtAttr at h
  cases hns : a.ns with
  | none =>
    simp only [hns, Except.ok.injEq] at h
    subst h
    simp [valueOK_cons, valueOK_append, valueOK_nil, ha.1, hesc]
  | some ns =>
    simp only [hns] at h
    cases hl : H5.Gen.prefixes.lookup ns with
    | none => simp [hl] at h
    | some pre =>
      simp only [hl, Except.ok.injEq] at h
      subst h
      have hpre := prefixes_ok _ (lookup_some_mem ns pre _ hl)
      simp [valueOK_cons, valueOK_append, valueOK_nil, ha.1, hesc, hpre]

theorem flatten_ok (parts : List Str) (h : ∀ p ∈ parts, valueOK p = true) : valueOK parts.flatten = true := by
  induction parts with
  | nil => rfl
  | cons p r ih =>
    simp only [List.flatten_cons, valueOK_append, Bool.and_eq_true]
    exact ⟨h p List.mem_cons_self, ih (fun q hq => h q (List.mem_cons_of_mem _ hq))⟩

theorem disallowed_tag_ok (name : Str) (attrs : List Attr) (parts : List Str) (hp : mapE fmtAttr attrs = .ok parts)
    (hn : valueOK name = true) (ha : attrs.all plainAttr = true) :
    valueOK (closeSelf false ([60] ++ name ++ parts.flatten ++ [62])) = true := by
  have hparts : valueOK parts.flatten = true := by
    apply flatten_ok
    intro p hpm
    obtain ⟨a, ham, hf⟩ := mapE_mem _ _ _ hp p hpm
    exact fmtAttr_ok a p hf (List.all_eq_true.1 ha a ham)
  simp [closeSelf, valueOK_cons, valueOK_append, valueOK_nil, hn, hparts]

/-! ### Theorem 1: the hypotheses of `C08_stream_roundtrip` hold for sanitizer output -/

/-- what is assumed of one INPUT token (see the file header) -/
def inTokOK (L : Lists) (o : Opts) : Tok → Bool
  | .startTag ns name attrs =>
    if elementAllowed L ns name then
      startTagOK o name (stepAllowed L attrs) && (!H5.Props.C08c.specialElements.elem name || !htmlOrNone ns)
    else valueOK name && attrs.all plainAttr
  | .emptyTag ns name attrs =>
    if elementAllowed L ns name then
      startTagOK o name (stepAllowed L attrs) && (!H5.Props.C08c.specialElements.elem name || !htmlOrNone ns)
    else valueOK name && attrs.all plainAttr
  | .endTag ns name => if elementAllowed L ns name then tagNameOK name else valueOK name
  | .chars s => valueOK s
  | .space s => s.all Tokenizer.isWhitespace
  | .comment _ => true
  | .doctype name pub sys => doctypeOK name pub sys
  | .entity _ => false
  | .serr _ => false

/-- the walker token streams the composition covers -/
def parsedOK (L : Lists) (o : Opts) (ts : List Tok) : Bool := ts.all (inTokOK L o)

/-- one token through `sanitize_token` (walker tokens carry no `selfClosing` flag) -/
theorem sanitizeToken_tokOK (L : Lists) (o : Opts) (t t' : Tok) (h : sanitizeToken L false t = .ok (some t'))
    (hin : inTokOK L o t = true) : tokOK o t' = true := by
  have startCase : ∀ (ns : Option Str) (name : Str) (attrs : List Attr) (mk : Option Str → Str → List Attr → Tok),
      (∀ a b c, tokOK o (mk a b c) = (startTagOK o b c && (!H5.Props.C08c.specialElements.elem b || !htmlOrNone a))) →
      (if elementAllowed L ns name then
        (do let x ← allowedAttrs L name attrs; pure (mk ns name x) : Except PyErr Tok).map some
       else (do let parts ← mapE fmtAttr attrs
                pure (Tok.chars (closeSelf false ([60] ++ name ++ parts.flatten ++ [62]))) : Except PyErr Tok).map some)
        = .ok (some t') →
      (if elementAllowed L ns name then
          startTagOK o name (stepAllowed L attrs) && (!H5.Props.C08c.specialElements.elem name || !htmlOrNone ns)
        else valueOK name && attrs.all plainAttr) = true → tokOK o t' = true := by
    intro ns name attrs mk hmk h hin
    by_cases he : elementAllowed L ns name = true
    · rw [if_pos he] at h hin
      simp only [Bool.and_eq_true] at hin
      cases ha : allowedAttrs L name attrs with
      | error e => simp [ha, Except.map, bind, Except.bind] at h
      | ok out =>
        simp only [ha, Except.map, bind, Except.bind, pure, Except.pure, Except.ok.injEq, Option.some.injEq] at h
        subst h
        rw [hmk]
        simp only [Bool.and_eq_true]
        exact ⟨allowedAttrs_startTagOK L o name attrs out ha hin.1, hin.2⟩
    · rw [if_neg he] at h hin
      simp only [Bool.and_eq_true] at hin
      cases hp : mapE fmtAttr attrs with
      | error e => simp [hp, Except.map, bind, Except.bind] at h
      | ok parts =>
        simp only [hp, Except.map, bind, Except.bind, pure, Except.pure, Except.ok.injEq, Option.some.injEq] at h
        subst h
        exact disallowed_tag_ok name attrs parts hp hin.1 hin.2
  cases t with
  | startTag ns name attrs =>
    exact startCase ns name attrs Tok.startTag (fun _ _ _ => rfl) (by simpa [sanitizeToken, allowedToken, disallowedToken] using h) hin
  | emptyTag ns name attrs =>
    exact startCase ns name attrs Tok.emptyTag (fun _ _ _ => rfl) (by simpa [sanitizeToken, allowedToken, disallowedToken] using h) hin
  | endTag ns name =>
    simp only [sanitizeToken, allowedToken, disallowedToken] at h
    simp only [inTokOK] at hin
    by_cases he : elementAllowed L ns name = true
    · rw [if_pos he] at h hin
      simp only [Except.map, Except.ok.injEq, Option.some.injEq] at h
      subst h
      exact hin
    · rw [if_neg he] at h hin
      simp only [Except.map, Except.ok.injEq, Option.some.injEq] at h
      subst h
      simp [tokOK, closeSelf, valueOK_cons, valueOK_append, valueOK_nil, hin]
  | comment d => simp [sanitizeToken] at h
  | chars d => simp only [sanitizeToken, Except.ok.injEq, Option.some.injEq] at h; subst h; exact hin
  | space d => simp only [sanitizeToken, Except.ok.injEq, Option.some.injEq] at h; subst h; exact hin
  | doctype n p s => simp only [sanitizeToken, Except.ok.injEq, Option.some.injEq] at h; subst h; exact hin
  | entity n => simp [inTokOK] at hin
  | serr m => simp [inTokOK] at hin

theorem filter_mem (L : Lists) (ts out : List Tok) (h : filter L ts = .ok out) (t : Tok) (ht : t ∈ out) :
    ∃ p ∈ ts, sanitizeToken L false p = .ok (some t) := by
  obtain ⟨p, hp, hs⟩ := filterSC_mem L _ out h t ht
  obtain ⟨q, hq, rfl⟩ := List.mem_map.1 hp
  exact ⟨q, hq, hs⟩

/-- **C10 (1) — sanitizer output satisfies the hypotheses of the serializer round trip.**  For every list
configuration, every option set and every walker token stream with `parsedOK L o ts`: every token the sanitizer
emits satisfies `tokOK o`. -/
theorem C10_sanitized_tokOK (L : Lists) (o : Opts) (ts out : List Tok) (hf : filter L ts = .ok out)
    (hp : parsedOK L o ts = true) : out.all (tokOK o) = true := by
  rw [List.all_eq_true]
  intro t ht
  obtain ⟨p, hpm, hs⟩ := filter_mem L ts out hf t ht
  exact sanitizeToken_tokOK L o p t hs (List.all_eq_true.1 hp p hpm)

/-! ### Theorem 2: the re-tokenised output is the sanitized stream -/

/-- `HTMLSerializer(sanitize=True, omit_optional_tags=False, **o).serialize(walker)`: sanitizer, then the serializer loop -/
def renderSanitized (L : Lists) (o : Opts) (ts : List Tok) : Except PyErr (Str × List Str) := do
  let out ← filter L ts
  serialize o out

/-- **C10 (2) — what is read back is the sanitized stream.**  If the sanitizer does not raise, then for every
`parsedOK` input the serializer reports no error, and the standard's tokenizer, started in the data state on the
serializer's output, emits exactly the sanitized tokens (`expected`: tags as given, one character token per character
of text) — modulo `canon` (adjacent character tokens merged) exactly the sanitizer's output stream. -/
theorem C10_retokenised_is_sanitized (L : Lists) (o : Opts) (ts out : List Tok) (hqc : quoteCharOK o = true)
    (hf : filter L ts = .ok out) (hp : parsedOK L o ts = true) :
    ∃ text, renderSanitized L o ts = .ok (text, []) ∧
      Spec.tokenize .data none false text = .ok (out.flatMap (expected o)) ∧
      (Spec.tokenize .data none false text).map canon = .ok (canon (out.map (toTTok o))) := by
  obtain ⟨text, h1, _, h2, h3⟩ := C08_stream_roundtrip o out hqc (C10_sanitized_tokOK L o ts out hf hp)
  exact ⟨text, by simp [renderSanitized, hf, h1, bind, Except.bind], h2, h3⟩

/-! ### Theorem 3: every re-read token is allow-listed -/

/-- where the text `d` of the sanitized stream comes from: a text token of the input, or an escaped disallowed tag -/
def TextOrigin (L : Lists) (ts : List Tok) (d : Str) : Prop :=
  (Tok.chars d ∈ ts ∨ Tok.space d ∈ ts) ∨
  ∃ p ∈ ts, p.isTag = true ∧ tagAllowed L p = false ∧ sanitizeToken L false p = .ok (some (.chars d)) ∧ d.head? = some 60

/-- what holds of a token the standard's tokenizer emits on sanitized, serialized markup.  The tokenizer knows names
only (namespaces are assigned by tree construction): "allow-listed" means allow-listed under SOME namespace, namely
the one the sanitizer saw. -/
def SafeTok (L : Lists) (ts : List Tok) : TTok → Prop
  | .startTag name attrs _ =>
    (∃ ns, elementAllowed L ns name = true ∧ (H5.Props.C08c.specialElements.elem name = true → htmlOrNone ns = false)) ∧
    ∀ av ∈ attrs, ∃ ans, (ans, av.1) ∈ L.allowedAttributes ∧
      (L.attrValIsUri.elem (ans, av.1) = true → L.svgAttrValAllowsRef.elem (ans, av.1) = false →
        (ans, av.1) ≠ styleKey → UriClause L av.2)
  | .endTag name _ _ => ∃ ns, elementAllowed L ns name = true
  | .chars s => ∃ c d, s = [c] ∧ c ∈ d ∧ TextOrigin L ts d
  | .doctype n p s c => Tok.doctype n p s ∈ ts ∧ c = true
  | .comment _ => False
  | .space _ => False
  | .parseError _ _ => False

theorem chars1_mem (d : Str) (tt : TTok) (h : tt ∈ chars1 d) : ∃ c, tt = .chars [c] ∧ c ∈ d := by
  simp only [chars1, List.mem_map] at h
  obtain ⟨c, hc, rfl⟩ := h
  exact ⟨c, rfl, hc⟩

/-- a text token of the sanitized stream is input text or an escaped disallowed tag -/
theorem text_origin (L : Lists) (ts out : List Tok) (hf : filter L ts = .ok out) (d : Str)
    (h : Tok.chars d ∈ out ∨ Tok.space d ∈ out) : TextOrigin L ts d := by
  have key : ∀ t, (t = Tok.chars d ∨ t = Tok.space d) → t ∈ out → TextOrigin L ts d := by
    intro t htd ht
    obtain ⟨p, hpm, hs⟩ := filter_mem L ts out hf t ht
    rcases sanitizeToken_cases L false p _ hs with ⟨hti, _, t', e, hat⟩ | ⟨hti, hna, d', e⟩ | ⟨_, e⟩ | ⟨_, _, e⟩
    · cases e
      obtain ⟨htag, _⟩ := allowedToken_spec L p t hat hti
      rcases htd with rfl | rfl <;> simp [Tok.isTag] at htag
    · cases e
      rcases htd with htd | htd
      · cases htd
        exact Or.inr ⟨p, hpm, hti, hna, hs, rfl⟩
      · cases htd
    · cases e
    · cases e
      rcases htd with rfl | rfl
      · exact Or.inl (Or.inl hpm)
      · exact Or.inl (Or.inr hpm)
  rcases h with h | h
  · exact key _ (Or.inl rfl) h
  · exact key _ (Or.inr rfl) h

/-- **C10 (3) — the token-level core.**  Under the hypotheses of (2), every token the standard's tokenizer emits on
the sanitized, serialized markup is safe with respect to the allow-lists `L`:
* a start tag has a name that is allow-listed under the namespace the sanitizer saw — a foreign namespace if the name
  is that of a raw-text / RCDATA element; each of its attributes is on `allowedAttributes` (under the namespace the sanitizer saw), and if that key is
  URI-valued (and not rewritten after the check) a browser resolves in its value no scheme or an allowed protocol
  (`UriClause`, H5.Props.C09);
* an end tag has an allow-listed name;
* there is no comment token and no parse error;
* a character token carries one character of an input text token or of the text an escaped disallowed tag became;
* a DOCTYPE token is a DOCTYPE token of the input. -/
theorem C10_retokenised_allowlisted (L : Lists) (o : Opts) (ts out : List Tok) (hqc : quoteCharOK o = true)
    (hf : filter L ts = .ok out) (hp : parsedOK L o ts = true) :
    ∃ text toks, renderSanitized L o ts = .ok (text, []) ∧ Spec.tokenize .data none false text = .ok toks ∧
      ∀ tt ∈ toks, SafeTok L ts tt := by
  obtain ⟨text, h1, h2, _⟩ := C10_retokenised_is_sanitized L o ts out hqc hf hp
  refine ⟨text, _, h1, h2, ?_⟩
  have hok := C10_sanitized_tokOK L o ts out hf hp
  intro tt htt
  obtain ⟨t, ht, hte⟩ := List.mem_flatMap.1 htt
  have htok : tokOK o t = true := List.all_eq_true.1 hok t ht
  have startCase : ∀ (ns : Option Str) (name : Str) (attrs : List Attr) (t0 : Tok), t0 ∈ out →
      tagKey t0 = some (ns, name) → tokAttrs t0 = attrs → t0.isTag = true →
      (H5.Props.C08c.specialElements.elem name = false ∨ htmlOrNone ns = false) →
      SafeTok L ts (.startTag name (attrs.map fun a => (a.name, a.value))
        (H5.Gen.voidElements.elem name && o.useTrailingSolidus)) := by
    intro ns name attrs t0 ht0 hk ha htag hsp
    have hel := C09_elements L _ out hf t0 ht0 htag
    simp only [tagAllowed, hk] at hel
    refine ⟨⟨ns, hel, fun h => ?_⟩, ?_⟩
    · rcases hsp with h2 | h2
      · rw [h] at h2; cases h2
      · exact h2
    intro av hav
    obtain ⟨b, hb, rfl⟩ := List.mem_map.1 hav
    have hbt : b ∈ tokAttrs t0 := by rw [ha]; exact hb
    refine ⟨b.ns, C09_attrs L _ out hf t0 ht0 b hbt, ?_⟩
    intro huri hnr hns
    exact C09_uri L _ out hf t0 ht0 b hbt huri hnr hns
  cases t with
  | startTag ns name attrs =>
    simp only [expected, List.mem_singleton] at hte
    subst hte
    simp only [tokOK, Bool.and_eq_true, Bool.or_eq_true, Bool.not_eq_true'] at htok
    exact startCase ns name attrs _ ht rfl rfl rfl htok.2
  | emptyTag ns name attrs =>
    simp only [expected, List.mem_singleton] at hte
    subst hte
    simp only [tokOK, Bool.and_eq_true, Bool.or_eq_true, Bool.not_eq_true'] at htok
    exact startCase ns name attrs _ ht rfl rfl rfl htok.2
  | endTag ns name =>
    simp only [expected, List.mem_singleton] at hte
    subst hte
    have hel := C09_elements L _ out hf _ ht rfl
    exact ⟨ns, by simpa [tagAllowed, tagKey] using hel⟩
  | chars d =>
    obtain ⟨c, rfl, hc⟩ := chars1_mem d tt hte
    exact ⟨c, d, rfl, hc, text_origin L ts out hf d (Or.inl ht)⟩
  | space d =>
    obtain ⟨c, rfl, hc⟩ := chars1_mem d tt hte
    exact ⟨c, d, rfl, hc, text_origin L ts out hf d (Or.inr ht)⟩
  | comment d =>
    have := C09_no_comments L _ out hf _ ht
    simp [isComment] at this
  | doctype n p s =>
    cases n with
    | none => simp [tokOK, doctypeOK] at htok
    | some n =>
      simp only [expected, List.mem_singleton] at hte
      subst hte
      obtain ⟨q, hqm, hs⟩ := filter_mem L ts out hf _ ht
      rcases sanitizeToken_cases L false q _ hs with ⟨hti, _, t', e, hat⟩ | ⟨_, _, d', e⟩ | ⟨_, e⟩ | ⟨_, _, e⟩
      · cases e
        obtain ⟨htag, _⟩ := allowedToken_spec L q _ hat hti
        simp [Tok.isTag] at htag
      · cases e
      · cases e
      · cases e
        exact ⟨hqm, rfl⟩
  | entity _ => simp [tokOK] at htok
  | serr _ => simp [tokOK] at htok

/-! ### Non-vacuity: a `javascript:` href, an event handler, a `url()` style, a `<script>` element and a comment through
the whole chain (default lists, default options) -/

def hns : Option Str := some H5.Gen.San.htmlNs
def svgns : Option Str := some (lit "http://www.w3.org/2000/svg")

/-- `<a href="javascript:alert(1)" title="a&b" onclick="x()" style="color: red; background: url(x)">hi<</a>
<script src='x"y'>alert(1)</script><!---->c--><br>` as walker tokens -/
def exIn : List Tok :=
  [.startTag hns [97] [⟨none, lit "href", lit "javascript:alert(1)"⟩, ⟨none, lit "title", lit "a&b"⟩,
      ⟨none, lit "onclick", lit "x()"⟩, ⟨none, lit "style", lit "color: red; background: url(x)"⟩],
   .chars (lit "hi<"), .endTag hns [97],
   .startTag hns (lit "script") [⟨none, lit "src", lit "x\"y"⟩], .chars (lit "alert(1)"), .endTag hns (lit "script"),
   .comment (lit "-->c"), .emptyTag hns (lit "br") []]

example : quoteCharOK {} = true ∧ parsedOK defaultLists {} exIn = true := by decide +kernel

-- the sanitizer drops `href`, `onclick`, the `url()` declaration and the comment, and turns the script tags into text
example : filter defaultLists exIn = .ok
    [.startTag hns [97] [⟨none, lit "title", lit "a&b"⟩, ⟨none, lit "style", lit "color: red;"⟩],
     .chars (lit "hi<"), .endTag hns [97],
     .chars (lit "<script src=\"x\"y\">"), .chars (lit "alert(1)"), .chars (lit "</script>"),
     .emptyTag hns (lit "br") []] := by decide +kernel

-- the serializer writes it without an error …
example : renderSanitized defaultLists {} exIn = .ok
    (lit "<a title=a&amp;b style=\"color: red;\">hi&lt;</a>&lt;script src=\"x\"y\"&gt;alert(1)&lt;/script&gt;<br>", []) := by
  decide +kernel

-- … and the standard's tokenizer reads back the sanitized stream: no `script` tag, no `href`, no comment
example : (renderSanitized defaultLists {} exIn).bind (fun r => (Spec.tokenize .data none false r.1).map canon) = .ok
    [.startTag [97] [(lit "title", lit "a&b"), (lit "style", lit "color: red;")] false,
     .chars (lit "hi<"), .endTag [97] [] false,
     .chars (lit "<script src=\"x\"y\">alert(1)</script>"),
     .startTag (lit "br") [] false] := by decide +kernel

/-! ### Necessity of the hypotheses (kernel-checked counter-examples) -/

-- "bare attribute names pairwise distinct": `href` and `xlink:href` (both allow-listed) are both written `href`;
-- the second is dropped by the reader (finding C08-ns-attr) — still safe, but not the sanitized stream
example : parsedOK defaultLists {} [.startTag svgns [97] [⟨none, lit "href", [120]⟩, ⟨some H5.Gen.San.xlinkNs, lit "href", lit "#y"⟩]] = false ∧
    (renderSanitized defaultLists {} [.startTag svgns [97] [⟨none, lit "href", [120]⟩, ⟨some H5.Gen.San.xlinkNs, lit "href", lit "#y"⟩]]).bind
      (fun r => Spec.tokenize .data none false r.1)
      = .ok [.parseError (lit "duplicate-attribute") [], .startTag [97] [(lit "href", [120])] false] := by decide +kernel

-- "`tagNameOK` for allowed tags": the allow-listed SVG element `linearGradient` is read back by the TOKENIZER as
-- `lineargradient`, a name that is on no allow-list (tree construction restores the case in SVG content: not a defect
-- of the library, a limit of what a token-level statement can say)
example : parsedOK defaultLists {} [.startTag svgns (lit "linearGradient") []] = false ∧
    (renderSanitized defaultLists {} [.startTag svgns (lit "linearGradient") []]).bind
      (fun r => Spec.tokenize .data none false r.1) = .ok [.startTag (lit "lineargradient") [] false] ∧
    defaultLists.allowedElements.all (fun k => k.2 != lit "lineargradient") = true := by decide +kernel
-- the default lists contain exactly six such element names and 22 such attribute names (camelCase SVG)
example : (defaultLists.allowedElements.filter (fun k => !tagNameOK k.2)).map (·.2)
    = [lit "animateColor", lit "animateMotion", lit "animateTransform", lit "clipPath", lit "linearGradient",
       lit "radialGradient"] ∧
    (defaultLists.allowedAttributes.filter (fun k => !attrNameOK k.2)).length = 22 := by decide +kernel

/-- a configuration that allows `script` only -/
def scriptLists : Lists := { defaultLists with allowedElements := [(some H5.Gen.San.htmlNs, lit "script")] }

-- "not a raw-text element": with `script` allow-listed its text is written unescaped (the serializer's raw-text mode):
-- a tokenizer that stays in the data state reads `<script><img>` as two start tags, the second not allow-listed
example : parsedOK scriptLists {} [.startTag hns (lit "script") [], .chars (lit "<img>")] = false ∧
    (renderSanitized scriptLists {} [.startTag hns (lit "script") [], .chars (lit "<img>")]).bind
      (fun r => Spec.tokenize .data none false r.1)
      = .ok [.startTag (lit "script") [] false, .startTag (lit "img") [] false] ∧
    elementAllowed scriptLists none (lit "img") = false := by decide +kernel
-- no raw-text element is on the DEFAULT allow-list (of `specialElements`, only `textarea` and SVG `title` are; the
-- latter is covered: see below)
example : defaultLists.allowedElements.all (fun k => !H5.Gen.rcdataElements.elem k.2) = true ∧
    (defaultLists.allowedElements.filter (fun k => H5.Props.C08c.specialElements.elem k.2)).map (·.2)
      = [lit "textarea", lit "title"] := by decide +kernel

-- SVG `title` (default lists) with a disallowed `<script>` inside: covered since fix COMMIT_A, the text is escaped
def exSvg : List Tok :=
  [.startTag svgns (lit "title") [], .startTag hns (lit "script") [], .chars (lit "x<y"), .endTag hns (lit "script"),
   .endTag svgns (lit "title")]
example : parsedOK defaultLists {} exSvg = true ∧ renderSanitized defaultLists {} exSvg
    = .ok (lit "<title>&lt;script&gt;x&lt;y&lt;/script&gt;</title>", []) := by decide +kernel
example : (renderSanitized defaultLists {} exSvg).bind (fun r => (Spec.tokenize .data none false r.1).map canon)
    = .ok [.startTag (lit "title") [] false, .chars (lit "<script>x<y</script>"), .endTag (lit "title") [] false] := by
  decide +kernel

-- "no SerializeError / Entity tokens": the first is reported as an error, the second raises for an unknown name
example : parsedOK defaultLists {} [.serr [101]] = false ∧ renderSanitized defaultLists {} [.serr [101]] = .ok ([], [[101]]) := by
  decide +kernel
example : parsedOK defaultLists {} [.entity [102]] = false ∧
    renderSanitized defaultLists {} [.entity [102]] = .error (.keyError "entities[key]") := by decide +kernel

-- "text without NUL": reported by the tokenizer
example : parsedOK defaultLists {} [.chars [0]] = false ∧
    (renderSanitized defaultLists {} [.chars [0]]).bind (fun r => Spec.tokenize .data none false r.1)
      = .ok [.parseError (lit "unexpected-null-character") [], .chars [0]] := by decide +kernel

-- "minimised ⇒ empty value" (finding C08-bool-min): the value of an allow-listed boolean attribute is dropped
example : parsedOK defaultLists {} [.startTag hns (lit "input") [⟨none, lit "disabled", lit "x"⟩]] = false ∧
    (renderSanitized defaultLists {} [.startTag hns (lit "input") [⟨none, lit "disabled", lit "x"⟩]]).bind
      (fun r => Spec.tokenize .data none false r.1) = .ok [.startTag (lit "input") [(lit "disabled", [])] false] := by
  decide +kernel

-- "the sanitizer does not raise" (`filter L ts = .ok out`): a disallowed tag with an attribute in a namespace that has no
-- prefix makes `disallowed_token` raise `KeyError` (no html5lib walker produces such a namespace)
example : parsedOK defaultLists {} [.startTag none [120] [⟨some [49], [97], [98]⟩]] = true ∧
    filter defaultLists [.startTag none [120] [⟨some [49], [97], [98]⟩]] = .error (.keyError "prefixes[ns]") := by
  decide +kernel

-- `quote_attr_values="always"`, `quote_char="'"`: the same chain, other quoting
example : (renderSanitized defaultLists { quoteAttrValues := .always, quoteChar := 39 } exIn).map (·.1)
    = .ok (lit "<a title='a&amp;b' style='color: red;'>hi&lt;</a>&lt;script src=\"x\"y\"&gt;alert(1)&lt;/script&gt;<br>") ∧
    quoteCharOK { quoteAttrValues := .always, quoteChar := 39 } = true ∧
    parsedOK defaultLists { quoteAttrValues := .always, quoteChar := 39 } exIn = true := by decide +kernel

end H5.Props.C10b
