/-
  C07 identity, tree-construction side — the stack of open nodes as frames: every open node with the trees of its
  completed children; effect of the three arena events (open a new element, add a leaf, close the current element).
-/
import H5.Props.C07bArena
set_option linter.unusedSimpArgs false
set_option linter.unusedVariables false
namespace H5.Props.C07b
open H5 H5.Model.Dom

/-- an open node: its index, its arena record, and the trees of its completed children -/
structure Frame where
  id : Nat
  node : Node
  kids : List Tree

/-- the frames below the top one; `nxt` is the index of the open node that follows the last of them -/
def PrefixOK (a : Arena) : List Frame → Nat → Prop
  | [], _ => True
  | f :: rest, nxt =>
    a.nodes[f.id]? = some f.node ∧ (∀ c ∈ f.node.children, f.id < c) ∧
    (∃ done, f.node.children = done ++ [((rest.head?.map (·.id)).getD nxt)] ∧
      ShapeList a ((rest.head?.map (·.id)).getD nxt) done f.kids) ∧
    PrefixOK a rest nxt

/-- the top frame: all its children are complete -/
def TopOK (a : Arena) (f : Frame) : Prop :=
  a.nodes[f.id]? = some f.node ∧ (∀ c ∈ f.node.children, f.id < c) ∧ ShapeList a a.nodes.size f.node.children f.kids

def FramesOK (a : Arena) (fs : List Frame) (f : Frame) : Prop := PrefixOK a fs f.id ∧ TopOK a f

theorem lt_of_mem_append_singleton {l : List NodeId} {x i : Nat} {cs : List NodeId}
    (h : ∀ c ∈ cs, i < c) (he : cs = l ++ [x]) : i < x := h x (by rw [he]; simp)

theorem PrefixOK.head_lt {a : Arena} : ∀ {fs : List Frame} {f : Frame} {nxt : Nat}, PrefixOK a (f :: fs) nxt → f.id < nxt
  | [], f, nxt, ⟨_, h2, ⟨done, h3, _⟩, _⟩ => lt_of_mem_append_singleton h2 h3
  | g :: rest, f, nxt, ⟨_, h2, ⟨done, h3, _⟩, h4⟩ =>
    Nat.lt_trans (lt_of_mem_append_singleton h2 h3) (PrefixOK.head_lt h4)

/-- the frames below the top only depend on the arena below the top node -/
theorem PrefixOK.local {a a' : Arena} : ∀ {fs : List Frame} {nxt : Nat}, PrefixOK a fs nxt →
    (∀ j, j < nxt → a'.nodes[j]? = a.nodes[j]?) → PrefixOK a' fs nxt
  | [], _, _, _ => trivial
  | f :: rest, nxt, h, hl => by
    obtain ⟨h1, h2, ⟨done, h3, h4⟩, h5⟩ := h
    have hlt : f.id < nxt := PrefixOK.head_lt ⟨h1, h2, ⟨done, h3, h4⟩, h5⟩
    have hg : (rest.head?.map (·.id)).getD nxt ≤ nxt := by
      cases rest with
      | nil => exact Nat.le_refl _
      | cons g r => exact Nat.le_of_lt (PrefixOK.head_lt h5)
    refine ⟨by rw [hl _ hlt]; exact h1, h2, ⟨done, h3, ?_⟩, PrefixOK.local h5 hl⟩
    exact ShapeList.local h4 (fun c _ j _ hj => hl j (Nat.lt_of_lt_of_le hj hg))

theorem PrefixOK.snoc {a : Arena} : ∀ {fs : List Frame} {f : Frame} {nxt : Nat}, PrefixOK a fs f.id →
    a.nodes[f.id]? = some f.node → (∀ c ∈ f.node.children, f.id < c) →
    (∃ done, f.node.children = done ++ [nxt] ∧ ShapeList a nxt done f.kids) → PrefixOK a (fs ++ [f]) nxt
  | [], f, nxt, _, h1, h2, h3 => ⟨h1, h2, h3, trivial⟩
  | e :: rest, f, nxt, ⟨e1, e2, ⟨done, e3, e4⟩, e5⟩, h1, h2, h3 => by
    refine ⟨e1, e2, ⟨done, ?_, ?_⟩, PrefixOK.snoc e5 h1 h2 h3⟩
    · cases rest <;> simpa using e3
    · cases rest <;> simpa using e4

theorem PrefixOK.unsnoc {a : Arena} : ∀ {fs : List Frame} {f : Frame} {nxt : Nat}, PrefixOK a (fs ++ [f]) nxt →
    PrefixOK a fs f.id ∧ a.nodes[f.id]? = some f.node ∧ (∀ c ∈ f.node.children, f.id < c) ∧
      (∃ done, f.node.children = done ++ [nxt] ∧ ShapeList a nxt done f.kids)
  | [], f, nxt, ⟨h1, h2, h3, _⟩ => ⟨trivial, h1, h2, h3⟩
  | e :: rest, f, nxt, ⟨e1, e2, ⟨done, e3, e4⟩, e5⟩ => by
    obtain ⟨p1, p2, p3, p4⟩ := PrefixOK.unsnoc e5
    refine ⟨⟨e1, e2, ⟨done, ?_, ?_⟩, p1⟩, p2, p3, p4⟩
    · cases rest <;> simpa using e3
    · cases rest <;> simpa using e4

/-- the top frame after a fresh child `size` was appended to its node -/
theorem addChild_top_get (a : Arena) (f : Frame) (k attrs) (h : a.nodes[f.id]? = some f.node) :
    (addChild a f.id f.node k attrs).nodes[f.id]? = some { f.node with children := f.node.children ++ [a.nodes.size] } := by
  have hlt : f.id < a.nodes.size := (Array.getElem?_eq_some_iff.1 h).1
  rw [addChild_get a f.id f.node k attrs hlt]
  have : f.id ≠ a.nodes.size := Nat.ne_of_lt hlt
  simp [this]

theorem addChild_new_get (a : Arena) (p : Nat) (pn : Node) (k attrs) (h : p < a.nodes.size) :
    (addChild a p pn k attrs).nodes[a.nodes.size]? = some { kind := k, attrs := attrs, parent := some p } := by
  rw [addChild_get a p pn k attrs h]; simp

theorem addChild_other_get (a : Arena) (p : Nat) (pn : Node) (k attrs) (h : p < a.nodes.size) (j : Nat)
    (h1 : j ≠ p) (h2 : j ≠ a.nodes.size) : (addChild a p pn k attrs).nodes[j]? = a.nodes[j]? := by
  rw [addChild_get a p pn k attrs h]; simp [h1, h2]

theorem ne_of_lt_aux (a b : Nat) (h : a < b) : b ≠ a := by omega
theorem ne_of_le_lt_aux (c j n : Nat) (h1 : c ≤ j) (h2 : j < n) (p : Nat) (h3 : p < c) : j ≠ p ∧ j ≠ n := by omega

/-- **open a new element** under the top node -/
theorem FramesOK.push {a : Arena} {fs : List Frame} {f : Frame} (h : FramesOK a fs f) (k : Kind) (attrs : Attrs) :
    FramesOK (addChild a f.id f.node k attrs)
      (fs ++ [{ f with node := { f.node with children := f.node.children ++ [a.nodes.size] } }])
      { id := a.nodes.size, node := { kind := k, attrs := attrs, parent := some f.id }, kids := [] } := by
  obtain ⟨hp, h1, h2, h3⟩ := h
  have hlt : f.id < a.nodes.size := (Array.getElem?_eq_some_iff.1 h1).1
  refine ⟨?_, ?_, ?_, ?_⟩
  · refine PrefixOK.snoc (f := { f with node := { f.node with children := f.node.children ++ [a.nodes.size] } }) ?_ ?_ ?_ ?_
    · exact PrefixOK.local hp (fun j hj => addChild_other_get a f.id f.node k attrs hlt j (Nat.ne_of_lt hj)
        (Nat.ne_of_lt (Nat.lt_trans hj hlt)))
    · exact addChild_top_get a f k attrs h1
    · intro c hc
      rcases List.mem_append.1 hc with hc | hc
      · exact h2 c hc
      · simp at hc; rw [hc]; exact hlt
    · refine ⟨f.node.children, rfl, ?_⟩
      exact ShapeList.local h3 (fun c hc j hj hj' => by
        have := ne_of_le_lt_aux c j a.nodes.size hj hj' f.id (h2 c hc)
        exact addChild_other_get a f.id f.node k attrs hlt j this.1 this.2)
  · exact addChild_new_get a f.id f.node k attrs hlt
  · intro c hc; cases hc
  · exact .nil

/-- **add a leaf** (text / comment) under the top node -/
theorem FramesOK.leaf {a : Arena} {fs : List Frame} {f : Frame} (h : FramesOK a fs f) (k : Kind) (t : Tree)
    (hk : Shape (addChild a f.id f.node k []) (a.nodes.size + 1) a.nodes.size t) :
    FramesOK (addChild a f.id f.node k []) fs
      { f with node := { f.node with children := f.node.children ++ [a.nodes.size] }, kids := f.kids ++ [t] } := by
  obtain ⟨hp, h1, h2, h3⟩ := h
  have hlt : f.id < a.nodes.size := (Array.getElem?_eq_some_iff.1 h1).1
  refine ⟨?_, ?_, ?_, ?_⟩
  · exact PrefixOK.local hp (fun j hj => addChild_other_get a f.id f.node k [] hlt j (Nat.ne_of_lt hj)
      (Nat.ne_of_lt (Nat.lt_trans hj hlt)))
  · exact addChild_top_get a f k [] h1
  · intro c hc
    rcases List.mem_append.1 hc with hc | hc
    · exact h2 c hc
    · simp at hc; rw [hc]; exact hlt
  · rw [addChild_size]
    refine ShapeList.append (ShapeList.mono (Nat.le_succ _) ?_) hk
    exact ShapeList.local h3 (fun c hc j hj hj' => by
      have := ne_of_le_lt_aux c j a.nodes.size hj hj' f.id (h2 c hc)
      exact addChild_other_get a f.id f.node k [] hlt j this.1 this.2)

/-- the tree of a completed element frame -/
def Frame.tree (g : Frame) : Tree :=
  match g.node.kind with
  | .element ns nm => .elem ns nm (g.node.attrs.map attrToTree) (mergeText g.kids)
  | .document => .doc (mergeText g.kids)
  | _ => .doc []

theorem TopOK.shape {a : Arena} {g : Frame} (h : TopOK a g)
    (hk : (∃ ns nm, g.node.kind = .element ns nm) ∨ g.node.kind = .document) :
    Shape a a.nodes.size g.id g.tree := by
  obtain ⟨h1, h2, h3⟩ := h
  have hlt : g.id < a.nodes.size := (Array.getElem?_eq_some_iff.1 h1).1
  rcases hk with ⟨ns, nm, hk⟩ | hk
  · unfold Frame.tree; rw [hk]; exact .elem h1 hk hlt h2 h3
  · unfold Frame.tree; rw [hk]; exact .doc h1 hk hlt h2 h3

/-- **close the current element**: its tree becomes the last completed child of the frame below -/
theorem FramesOK.pop {a : Arena} {fs : List Frame} {f g : Frame} (h : FramesOK a (fs ++ [f]) g)
    (hk : (∃ ns nm, g.node.kind = .element ns nm) ∨ g.node.kind = .document) :
    FramesOK a fs { f with kids := f.kids ++ [g.tree] } := by
  obtain ⟨hp, ht⟩ := h
  obtain ⟨p1, p2, p3, ⟨done, p4, p5⟩⟩ := PrefixOK.unsnoc hp
  refine ⟨p1, p2, p3, ?_⟩
  show ShapeList a a.nodes.size f.node.children (f.kids ++ [g.tree])
  rw [p4]
  have hlt : g.id < a.nodes.size := (Array.getElem?_eq_some_iff.1 ht.1).1
  exact ShapeList.append (ShapeList.mono (Nat.le_of_lt hlt) p5) (ht.shape hk)

/-- the result tree of the document frame -/
theorem FramesOK.result {a : Arena} {f : Frame} (h : FramesOK a [] f)
    (hk : (∃ ns nm, f.node.kind = .element ns nm) ∨ f.node.kind = .document) : toTreeE a f.id = .ok f.tree := by
  unfold toTreeE
  exact (h.2.shape hk).toTree _ (by omega)

end H5.Props.C07b
