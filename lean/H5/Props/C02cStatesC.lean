/-
  Property C02 "total" — per-state decrease lemmas (comment and DOCTYPE states).
  Each lemma: a call of the state method from a state of weight `w` with `n` characters left either stops,
  fails with an error that is not `outOfFuel`, or leaves a state of potential `< 8·n + w`.
-/
import H5.Props.C02cHelpers
set_option linter.unusedSimpArgs false
namespace H5.Props.C02c
open H5 H5.Gen H5.Model H5.Model.Tokenizer

theorem commentStartDashState_dec (s : St) (hs : s.state = .commentStartDashState) :
    Post (commentStartDashState s) (Dec s.input.length (w s.state)) := by
  state_dec commentStartDashState

theorem commentState_dec (s : St) (hs : s.state = .commentState) :
    Post (commentState s) (Dec s.input.length (w s.state)) := by
  state_dec commentState

theorem commentEndDashState_dec (s : St) (hs : s.state = .commentEndDashState) :
    Post (commentEndDashState s) (Dec s.input.length (w s.state)) := by
  state_dec commentEndDashState

theorem commentEndState_dec (s : St) (hs : s.state = .commentEndState) :
    Post (commentEndState s) (Dec s.input.length (w s.state)) := by
  state_dec commentEndState

theorem commentEndBangState_dec (s : St) (hs : s.state = .commentEndBangState) :
    Post (commentEndBangState s) (Dec s.input.length (w s.state)) := by
  state_dec commentEndBangState

theorem doctypeState_dec (s : St) (hs : s.state = .doctypeState) :
    Post (doctypeState s) (Dec s.input.length (w s.state)) := by
  state_dec doctypeState

theorem beforeDoctypeNameState_dec (s : St) (hs : s.state = .beforeDoctypeNameState) :
    Post (beforeDoctypeNameState s) (Dec s.input.length (w s.state)) := by
  state_dec beforeDoctypeNameState

theorem doctypeNameState_dec (s : St) (hs : s.state = .doctypeNameState) :
    Post (doctypeNameState s) (Dec s.input.length (w s.state)) := by
  state_dec doctypeNameState

theorem afterDoctypePublicKeywordState_dec (s : St) (hs : s.state = .afterDoctypePublicKeywordState) :
    Post (afterDoctypePublicKeywordState s) (Dec s.input.length (w s.state)) := by
  state_dec afterDoctypePublicKeywordState

theorem beforeDoctypePublicIdentifierState_dec (s : St) (hs : s.state = .beforeDoctypePublicIdentifierState) :
    Post (beforeDoctypePublicIdentifierState s) (Dec s.input.length (w s.state)) := by
  state_dec beforeDoctypePublicIdentifierState

theorem doctypePublicIdentifierDoubleQuotedState_dec (s : St) (hs : s.state = .doctypePublicIdentifierDoubleQuotedState) :
    Post (doctypePublicIdentifierDoubleQuotedState s) (Dec s.input.length (w s.state)) := by
  state_dec doctypePublicIdentifierDoubleQuotedState

theorem doctypePublicIdentifierSingleQuotedState_dec (s : St) (hs : s.state = .doctypePublicIdentifierSingleQuotedState) :
    Post (doctypePublicIdentifierSingleQuotedState s) (Dec s.input.length (w s.state)) := by
  state_dec doctypePublicIdentifierSingleQuotedState

theorem afterDoctypePublicIdentifierState_dec (s : St) (hs : s.state = .afterDoctypePublicIdentifierState) :
    Post (afterDoctypePublicIdentifierState s) (Dec s.input.length (w s.state)) := by
  state_dec afterDoctypePublicIdentifierState

theorem betweenDoctypePublicAndSystemIdentifiersState_dec (s : St) (hs : s.state = .betweenDoctypePublicAndSystemIdentifiersState) :
    Post (betweenDoctypePublicAndSystemIdentifiersState s) (Dec s.input.length (w s.state)) := by
  state_dec betweenDoctypePublicAndSystemIdentifiersState

theorem afterDoctypeSystemKeywordState_dec (s : St) (hs : s.state = .afterDoctypeSystemKeywordState) :
    Post (afterDoctypeSystemKeywordState s) (Dec s.input.length (w s.state)) := by
  state_dec afterDoctypeSystemKeywordState

theorem beforeDoctypeSystemIdentifierState_dec (s : St) (hs : s.state = .beforeDoctypeSystemIdentifierState) :
    Post (beforeDoctypeSystemIdentifierState s) (Dec s.input.length (w s.state)) := by
  state_dec beforeDoctypeSystemIdentifierState

theorem doctypeSystemIdentifierDoubleQuotedState_dec (s : St) (hs : s.state = .doctypeSystemIdentifierDoubleQuotedState) :
    Post (doctypeSystemIdentifierDoubleQuotedState s) (Dec s.input.length (w s.state)) := by
  state_dec doctypeSystemIdentifierDoubleQuotedState

theorem doctypeSystemIdentifierSingleQuotedState_dec (s : St) (hs : s.state = .doctypeSystemIdentifierSingleQuotedState) :
    Post (doctypeSystemIdentifierSingleQuotedState s) (Dec s.input.length (w s.state)) := by
  state_dec doctypeSystemIdentifierSingleQuotedState

theorem afterDoctypeSystemIdentifierState_dec (s : St) (hs : s.state = .afterDoctypeSystemIdentifierState) :
    Post (afterDoctypeSystemIdentifierState s) (Dec s.input.length (w s.state)) := by
  state_dec afterDoctypeSystemIdentifierState

theorem bogusDoctypeState_dec (s : St) (hs : s.state = .bogusDoctypeState) :
    Post (bogusDoctypeState s) (Dec s.input.length (w s.state)) := by
  state_dec bogusDoctypeState

end H5.Props.C02c
