/-
  Property C02 "total", clean corollary — per-state preservation of the invariant `Inv`
  (each state method, started in its state with the token shape it expects, succeeds or raises `ValueError`,
  and leaves a state whose expectations are met).
-/
import H5.Props.C02cOkTactics
set_option linter.unusedSimpArgs false
namespace H5.Props.C02c
open H5 H5.Gen H5.Model H5.Model.Tokenizer

theorem scriptDataEscapedDashState_ok (s : St) (hs : s.state = .scriptDataEscapedDashState) (hi : Inv s) :
    OPost (scriptDataEscapedDashState s) (fun r => r.1 = true → Inv r.2) := by
  state_ok scriptDataEscapedDashState

theorem scriptDataEscapedDashDashState_ok (s : St) (hs : s.state = .scriptDataEscapedDashDashState) (hi : Inv s) :
    OPost (scriptDataEscapedDashDashState s) (fun r => r.1 = true → Inv r.2) := by
  state_ok scriptDataEscapedDashDashState

theorem scriptDataEscapedLessThanSignState_ok (s : St) (hs : s.state = .scriptDataEscapedLessThanSignState) (hi : Inv s) :
    OPost (scriptDataEscapedLessThanSignState s) (fun r => r.1 = true → Inv r.2) := by
  state_ok scriptDataEscapedLessThanSignState

theorem scriptDataEscapedEndTagOpenState_ok (s : St) (hs : s.state = .scriptDataEscapedEndTagOpenState) (hi : Inv s) :
    OPost (scriptDataEscapedEndTagOpenState s) (fun r => r.1 = true → Inv r.2) := by
  state_ok scriptDataEscapedEndTagOpenState

theorem scriptDataEscapedEndTagNameState_ok (s : St) (hs : s.state = .scriptDataEscapedEndTagNameState) (hi : Inv s) :
    OPost (scriptDataEscapedEndTagNameState s) (fun r => r.1 = true → Inv r.2) := by
  state_ok_tb scriptDataEscapedEndTagNameState

theorem scriptDataDoubleEscapeStartState_ok (s : St) (hs : s.state = .scriptDataDoubleEscapeStartState) (hi : Inv s) :
    OPost (scriptDataDoubleEscapeStartState s) (fun r => r.1 = true → Inv r.2) := by
  state_ok_tb scriptDataDoubleEscapeStartState

theorem scriptDataDoubleEscapedState_ok (s : St) (hs : s.state = .scriptDataDoubleEscapedState) (hi : Inv s) :
    OPost (scriptDataDoubleEscapedState s) (fun r => r.1 = true → Inv r.2) := by
  state_ok scriptDataDoubleEscapedState

theorem scriptDataDoubleEscapedDashState_ok (s : St) (hs : s.state = .scriptDataDoubleEscapedDashState) (hi : Inv s) :
    OPost (scriptDataDoubleEscapedDashState s) (fun r => r.1 = true → Inv r.2) := by
  state_ok scriptDataDoubleEscapedDashState

theorem scriptDataDoubleEscapedDashDashState_ok (s : St) (hs : s.state = .scriptDataDoubleEscapedDashDashState) (hi : Inv s) :
    OPost (scriptDataDoubleEscapedDashDashState s) (fun r => r.1 = true → Inv r.2) := by
  state_ok scriptDataDoubleEscapedDashDashState

theorem scriptDataDoubleEscapedLessThanSignState_ok (s : St) (hs : s.state = .scriptDataDoubleEscapedLessThanSignState) (hi : Inv s) :
    OPost (scriptDataDoubleEscapedLessThanSignState s) (fun r => r.1 = true → Inv r.2) := by
  state_ok scriptDataDoubleEscapedLessThanSignState

theorem scriptDataDoubleEscapeEndState_ok (s : St) (hs : s.state = .scriptDataDoubleEscapeEndState) (hi : Inv s) :
    OPost (scriptDataDoubleEscapeEndState s) (fun r => r.1 = true → Inv r.2) := by
  state_ok_tb scriptDataDoubleEscapeEndState

theorem beforeAttributeNameState_ok (s : St) (hs : s.state = .beforeAttributeNameState) (hi : Inv s) :
    OPost (beforeAttributeNameState s) (fun r => r.1 = true → Inv r.2) := by
  state_ok beforeAttributeNameState

theorem afterAttributeNameState_ok (s : St) (hs : s.state = .afterAttributeNameState) (hi : Inv s) :
    OPost (afterAttributeNameState s) (fun r => r.1 = true → Inv r.2) := by
  state_ok afterAttributeNameState

theorem beforeAttributeValueState_ok (s : St) (hs : s.state = .beforeAttributeValueState) (hi : Inv s) :
    OPost (beforeAttributeValueState s) (fun r => r.1 = true → Inv r.2) := by
  state_ok beforeAttributeValueState

theorem attributeValueDoubleQuotedState_ok (s : St) (hs : s.state = .attributeValueDoubleQuotedState) (hi : Inv s) :
    OPost (attributeValueDoubleQuotedState s) (fun r => r.1 = true → Inv r.2) := by
  state_ok attributeValueDoubleQuotedState

theorem attributeValueSingleQuotedState_ok (s : St) (hs : s.state = .attributeValueSingleQuotedState) (hi : Inv s) :
    OPost (attributeValueSingleQuotedState s) (fun r => r.1 = true → Inv r.2) := by
  state_ok attributeValueSingleQuotedState

theorem attributeValueUnQuotedState_ok (s : St) (hs : s.state = .attributeValueUnQuotedState) (hi : Inv s) :
    OPost (attributeValueUnQuotedState s) (fun r => r.1 = true → Inv r.2) := by
  state_ok attributeValueUnQuotedState

theorem afterAttributeValueState_ok (s : St) (hs : s.state = .afterAttributeValueState) (hi : Inv s) :
    OPost (afterAttributeValueState s) (fun r => r.1 = true → Inv r.2) := by
  state_ok afterAttributeValueState

theorem selfClosingStartTagState_ok (s : St) (hs : s.state = .selfClosingStartTagState) (hi : Inv s) :
    OPost (selfClosingStartTagState s) (fun r => r.1 = true → Inv r.2) := by
  state_ok selfClosingStartTagState

theorem commentStartState_ok (s : St) (hs : s.state = .commentStartState) (hi : Inv s) :
    OPost (commentStartState s) (fun r => r.1 = true → Inv r.2) := by
  state_ok commentStartState

end H5.Props.C02c
