/-
  Property C02 "total" (also needed by C03): the tokenizer model never runs out of fuel.

  `H5.Model.Tokenizer.tokenize fuel s` spends one unit of fuel per `self.state()` call.  With the potential
  `μ s = 8·|s.input| + w s.state` (`w ≤ 2`, `C02cCore`) every state call that returns `True` strictly
  decreases `μ` (`step_post`, from the 67 per-state lemmas in `C02cStatesA…D`), the inner loop of
  `cdataSectionState` never exhausts its own fuel (`cdataLoop_post`), and no helper produces an `outOfFuel`
  error.  Hence `μ s < fuel` suffices (`tokenize_fuel`), and `μ (St.init …) ≤ 8·n + 2 < fuelFor input`.

  The theorem is about fuel only: from malformed preset states the model may still return other errors
  (`TypeError` for `currentToken = None` in a tag state, …), and from every state the `ValueError` of
  `int()` on > 4300 digits (NOTES, bug 1).
-/
import H5.Props.C02cStatesA
import H5.Props.C02cStatesB
import H5.Props.C02cStatesC
import H5.Props.C02cStatesD
namespace H5.Props.C02c
open H5 H5.Gen H5.Model H5.Model.Tokenizer

/-- every `self.state()` call: stops, fails with a non-fuel error, or strictly decreases the potential -/
theorem step_post (s : St) : Post (step s) (Dec s.input.length (w s.state)) := by
  unfold step
  split
  · exact dataState_dec s ‹_›
  · exact entityDataState_dec s ‹_›
  · exact rcdataState_dec s ‹_›
  · exact characterReferenceInRcdata_dec s ‹_›
  · exact rawtextState_dec s ‹_›
  · exact scriptDataState_dec s ‹_›
  · exact plaintextState_dec s ‹_›
  · exact tagOpenState_dec s ‹_›
  · exact closeTagOpenState_dec s ‹_›
  · exact tagNameState_dec s ‹_›
  · exact rcdataLessThanSignState_dec s ‹_›
  · exact rcdataEndTagOpenState_dec s ‹_›
  · exact rcdataEndTagNameState_dec s ‹_›
  · exact rawtextLessThanSignState_dec s ‹_›
  · exact rawtextEndTagOpenState_dec s ‹_›
  · exact rawtextEndTagNameState_dec s ‹_›
  · exact scriptDataLessThanSignState_dec s ‹_›
  · exact scriptDataEndTagOpenState_dec s ‹_›
  · exact scriptDataEndTagNameState_dec s ‹_›
  · exact scriptDataEscapeStartState_dec s ‹_›
  · exact scriptDataEscapeStartDashState_dec s ‹_›
  · exact scriptDataEscapedState_dec s ‹_›
  · exact scriptDataEscapedDashState_dec s ‹_›
  · exact scriptDataEscapedDashDashState_dec s ‹_›
  · exact scriptDataEscapedLessThanSignState_dec s ‹_›
  · exact scriptDataEscapedEndTagOpenState_dec s ‹_›
  · exact scriptDataEscapedEndTagNameState_dec s ‹_›
  · exact scriptDataDoubleEscapeStartState_dec s ‹_›
  · exact scriptDataDoubleEscapedState_dec s ‹_›
  · exact scriptDataDoubleEscapedDashState_dec s ‹_›
  · exact scriptDataDoubleEscapedDashDashState_dec s ‹_›
  · exact scriptDataDoubleEscapedLessThanSignState_dec s ‹_›
  · exact scriptDataDoubleEscapeEndState_dec s ‹_›
  · exact beforeAttributeNameState_dec s ‹_›
  · exact attributeNameState_dec s ‹_›
  · exact afterAttributeNameState_dec s ‹_›
  · exact beforeAttributeValueState_dec s ‹_›
  · exact attributeValueDoubleQuotedState_dec s ‹_›
  · exact attributeValueSingleQuotedState_dec s ‹_›
  · exact attributeValueUnQuotedState_dec s ‹_›
  · exact afterAttributeValueState_dec s ‹_›
  · exact selfClosingStartTagState_dec s ‹_›
  · exact bogusCommentState_dec s ‹_›
  · exact markupDeclarationOpenState_dec s ‹_›
  · exact commentStartState_dec s ‹_›
  · exact commentStartDashState_dec s ‹_›
  · exact commentState_dec s ‹_›
  · exact commentEndDashState_dec s ‹_›
  · exact commentEndState_dec s ‹_›
  · exact commentEndBangState_dec s ‹_›
  · exact doctypeState_dec s ‹_›
  · exact beforeDoctypeNameState_dec s ‹_›
  · exact doctypeNameState_dec s ‹_›
  · exact afterDoctypeNameState_dec s ‹_›
  · exact afterDoctypePublicKeywordState_dec s ‹_›
  · exact beforeDoctypePublicIdentifierState_dec s ‹_›
  · exact doctypePublicIdentifierDoubleQuotedState_dec s ‹_›
  · exact doctypePublicIdentifierSingleQuotedState_dec s ‹_›
  · exact afterDoctypePublicIdentifierState_dec s ‹_›
  · exact betweenDoctypePublicAndSystemIdentifiersState_dec s ‹_›
  · exact afterDoctypeSystemKeywordState_dec s ‹_›
  · exact beforeDoctypeSystemIdentifierState_dec s ‹_›
  · exact doctypeSystemIdentifierDoubleQuotedState_dec s ‹_›
  · exact doctypeSystemIdentifierSingleQuotedState_dec s ‹_›
  · exact afterDoctypeSystemIdentifierState_dec s ‹_›
  · exact bogusDoctypeState_dec s ‹_›
  · exact cdataSectionState_dec s ‹_›

/-- the per-step decrease, in terms of `μ` -/
theorem step_decreases (s s' : St) (h : step s = .ok (true, s')) : μ s' < μ s := by
  have := step_post s
  rw [h] at this
  exact this rfl

/-- a state call never fails with `outOfFuel` (in particular the inner loop of `cdataSectionState` does not) -/
theorem step_no_fuel_error (s : St) (site : String) : step s ≠ .error (.outOfFuel site) := by
  intro h
  have := step_post s
  rw [h] at this
  exact this site rfl

/-- `μ s < fuel` units of fuel suffice; `μ` does not depend on the token queue -/
theorem tokenize_post (fuel : Nat) (s : St) (h : μ s < fuel) : Post (tokenize fuel s) (fun _ => True) := by
  induction fuel generalizing s with
  | zero => omega
  | succ fuel ih =>
    simp only [tokenize, Post_bind]
    refine Post_mono (step_post s) ?_
    rintro ⟨cont, s'⟩ hd
    cases cont with
    | false => trivial
    | true =>
      have hd := hd rfl
      simp only at hd
      simp only [Bool.not_true, Bool.false_eq_true, ↓reduceIte, Post_bind]
      refine Post_mono (ih { s' with tokenQueue := [] } ?_) ?_
      · simp only [μ] at h ⊢; omega
      · intro _ _; trivial

theorem tokenize_fuel (fuel : Nat) (s : St) (h : μ s < fuel) :
    ∀ site, tokenize fuel s ≠ .error (.outOfFuel site) := by
  intro site he
  have := tokenize_post fuel s h
  rw [he] at this
  exact this site rfl

theorem mu_init_lt (st : State) (last : Option Str) (cd : Bool) (input : Str) :
    μ (St.init st last cd input) < fuelFor input := by
  have := w_le st
  simp only [μ, St.init, fuelFor]; omega

/-- **C02 (total).** From every start state, with any `lastStartTag` / `cdataAllowed` preset, the tokenizer
model terminates within `fuelFor input`: it never returns an `outOfFuel` error, neither from the main loop
(site `"tokenize"`) nor from the inner loop of `cdataSectionState`. -/
theorem C02_total (st : State) (last : Option Str) (cd : Bool) (input : Str) :
    ∀ site, tokenize (fuelFor input) (St.init st last cd input) ≠ .error (.outOfFuel site) :=
  tokenize_fuel _ _ (mu_init_lt st last cd input)

/-- from an arbitrary (not only initial) tokenizer state: NOTES states that `2·n + 3` state calls are enough — here in the weaker, proved
form `8·n + 3` (the potential charges 8 per character; sharpening the constant is not needed for C02/C03). -/
theorem C02_total_anystate (s : St) : ∀ site, tokenize (8 * s.input.length + 3) s ≠ .error (.outOfFuel site) := by
  apply tokenize_fuel
  have := w_le s.state
  simp only [μ]; omega

theorem tokenizeAll_total (st : State) (last : Option Str) (input : Str) (cd : Bool) :
    ∀ site, tokenizeAll st last input cd ≠ .error (.outOfFuel site) :=
  C02_total st last cd input

/-! ### the pull interface `next` (used by `H5.Model.Parser.loop`, property C03) -/

/-- one `next()` from an arbitrary tokenizer state (any queue, any preset) within `μ s < fuel`: never out of
fuel, and the state handed back has no larger potential (so the potential also bounds all later pulls;
`setState` to one of the five entry states, which have weight 0, cannot increase it either). -/
theorem nextFuel_post (fuel : Nat) (s : St) (h : μ s < fuel) :
    Post (nextFuel fuel s) (fun r => ∀ t s', r = some (t, s') → μ s' ≤ μ s) := by
  induction fuel generalizing s with
  | zero => omega
  | succ fuel ih =>
    simp only [nextFuel]
    split
    · rename_i t q hq
      intro t' s' he
      simp only [Option.some.injEq, Prod.mk.injEq] at he
      obtain ⟨_, rfl⟩ := he
      exact Nat.le_refl _
    · simp only [Post_bind]
      refine Post_mono (step_post s) ?_
      rintro ⟨cont, s1⟩ hd
      cases cont with
      | false =>
        simp only [Bool.not_false, ↓reduceIte, Post_pure]
        intro t s' he; cases he
      | true =>
        have hd := hd rfl
        simp only at hd
        simp only [Bool.not_true, Bool.false_eq_true, ↓reduceIte]
        refine Post_mono (ih s1 ?_) ?_
        · simp only [μ] at h ⊢; omega
        · intro r hr t s' he
          have := hr t s' he
          simp only [μ] at this ⊢; omega

theorem next_total (s : St) : ∀ site, next s ≠ .error (.outOfFuel site) := by
  intro site he
  have h : μ s < fuelFor s.input + 1 := by
    have := w_le s.state
    simp only [μ, fuelFor]; omega
  have := nextFuel_post _ s h
  unfold next at he
  rw [he] at this
  exact this site rfl

theorem next_mu_le (s s' : St) (t : TTok) (h : next s = .ok (some (t, s'))) : μ s' ≤ μ s := by
  have hμ : μ s < fuelFor s.input + 1 := by
    have := w_le s.state
    simp only [μ, fuelFor]; omega
  have := nextFuel_post _ s hμ
  unfold next at h
  rw [h] at this
  exact this t s' rfl

/-- switching to an entry state between two pulls (what the tree builder orders) does not increase the potential -/
theorem mu_setState_entry (s : St) (st : State) (b : Bool)
    (hst : st = .dataState ∨ st = .rcdataState ∨ st = .rawtextState ∨ st = .scriptDataState ∨ st = .plaintextState) :
    μ (setCdataAllowed (setState s st) b) ≤ μ s := by
  rcases hst with h | h | h | h | h <;> subst h <;> simp [μ, setState, setCdataAllowed, w]

/-- non-vacuity: the bound is not trivially met by an early error — a run that uses the potential -/
example : (match tokenize (fuelFor [60, 97, 62, 120]) (St.init .dataState none false [60, 97, 62, 120]) with
    | .ok toks => toks == [.startTag [97] [] false, .chars [120]]
    | .error _ => false) = true := by decide +kernel

end H5.Props.C02c
