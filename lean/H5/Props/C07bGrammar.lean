/-
  C07 identity — THE GRAMMAR.  `G0 : Tree → Bool`, the explicit, decidable class of documents for which
  H5.Props.C07b proves that serialize-then-parse is the identity (and that neither side reports anything).
  Only definitions here (no proofs): the line-protocol driver evaluates `G0` for the harness (op `g0`).

    document := DOCTYPE html, html > (head > [title > [text]], body > forest)
    forest   := nodes, no two text nodes adjacent
    node     := text (non-empty, no NUL / CR)
              | comment (no NUL / CR, no `--`, not starting with `>` / `->`, not ending in `-`)
              | void element (area br embed img wbr param source track; hr not below an open `p`), no children
              | container element > forest:
                  ordinary  (InBodyPhase.startTagOther / endTagOther: span, abbr, cite, dfn, q, sub, sup, custom names ...)
                  block     (startTagCloseP / endTagBlock: div section article aside nav header footer main address
                             blockquote center details dialog? dir dl fieldset figcaption figure hgroup menu ol summary ul)
                            — not below an open `p`
                  `p`       — not below an open `p`; inside it no block and no `p` at any depth
                  formatting (a b big code em font i s small strike strong tt u: startTagFormatting / startTagA,
                             endTagFormatting) — not below a formatting element of the same name
                  heading   (h1 … h6) — not below an open `p`, not the child of a heading
                  list item (li as a child of ul / ol; dt, dd as children of dl) — not below an open `p`
    every element: HTML namespace, attributes without namespace, names / values per `C08c.startTagOK {}`.
-/
import H5.Props.C08c
import H5.Model.TreeBuilder
import H5.Model.Serializer
namespace H5.Props.C07b
open H5 H5.Model H5.Model.TB
open H5.Props.C08c (tagNameOK startTagOK valueOK commentOK)

def htmlNs : Str :=
  [104, 116, 116, 112, 58, 47, 47, 119, 119, 119, 46, 119, 51, 46, 111, 114, 103, 47, 49, 57, 57, 57, 47, 120, 104, 116, 109, 108]

def sHtml : Str := [104, 116, 109, 108]
def sHead : Str := [104, 101, 97, 100]
def sBody : Str := [98, 111, 100, 121]
def sP : Str := lit "p"

/-! ### how `InBodyPhase` dispatches a tag name (the dispatch tables extracted from the source, H5.Gen.Dispatch) -/

/-- a start tag that `InBodyPhase` handles with `startTagOther` -/
def ordinaryStart (nm : Str) : Prop :=
  lookupHandler Gen.startTagHandlers "startTagHandler" .inBody nm = .ok "InBodyPhase.startTagOther"
instance (nm : Str) : Decidable (ordinaryStart nm) := by unfold ordinaryStart; infer_instance

def ordinaryEnd (nm : Str) : Prop :=
  lookupHandler Gen.endTagHandlers "endTagHandler" .inBody nm = .ok "InBodyPhase.endTagOther"
instance (nm : Str) : Decidable (ordinaryEnd nm) := by unfold ordinaryEnd; infer_instance

def closePStart (nm : Str) : Prop :=
  lookupHandler Gen.startTagHandlers "startTagHandler" .inBody nm = .ok "InBodyPhase.startTagCloseP"
instance (nm : Str) : Decidable (closePStart nm) := by unfold closePStart; infer_instance

def blockEnd (nm : Str) : Prop :=
  lookupHandler Gen.endTagHandlers "endTagHandler" .inBody nm = .ok "InBodyPhase.endTagBlock"
instance (nm : Str) : Decidable (blockEnd nm) := by unfold blockEnd; infer_instance

def voidFmtStart (nm : Str) : Prop :=
  lookupHandler Gen.startTagHandlers "startTagHandler" .inBody nm = .ok "InBodyPhase.startTagVoidFormatting"
instance (nm : Str) : Decidable (voidFmtStart nm) := by unfold voidFmtStart; infer_instance

def paramSourceStart (nm : Str) : Prop :=
  lookupHandler Gen.startTagHandlers "startTagHandler" .inBody nm = .ok "InBodyPhase.startTagParamSource"
instance (nm : Str) : Decidable (paramSourceStart nm) := by unfold paramSourceStart; infer_instance

/-- the formatting elements covered (`startTagFormatting` / `startTagA`, `endTagFormatting`; `nobr` is not) -/
def fmtNames : List Str :=
  [lit "a", lit "b", lit "big", lit "code", lit "em", lit "font", lit "i", lit "s", lit "small", lit "strike", lit "strong",
   lit "tt", lit "u"]

def fmtName (nm : Str) : Bool := fmtNames.contains nm

/-- comment data that html5lib's tokenizer reads back from `<!--data-->` as exactly one comment token, without a
parse error: no NUL/CR, no `--`, not starting with `>` or `->` (C08c's `commentOK`), and not ending in `-` -/
def commentOKm (d : Str) : Bool := commentOK d && !(d.getLast? == some 45)

/-! ### the grammar of covered body content and its serialization -/

def isText : Tree → Bool
  | .text _ => true
  | _ => false

/-- an element name that `InBodyPhase` handles with `startTagOther` / `endTagOther`, that is not void, and after
whose start tag the tokenizer stays in the data state -/
def ordinaryName (nm : Str) : Bool :=
  decide (ordinaryStart nm) && decide (ordinaryEnd nm) && !C08c.specialElements.elem nm && !Gen.voidElements.elem nm

/-- a void element the tree builder appends and pops at once (`startTagVoidFormatting`, `startTagParamSource`,
`startTagHr`), that the serializer also treats as void -/
def voidName (nm : Str) : Bool :=
  (decide (voidFmtStart nm) || decide (paramSourceStart nm) || nm == lit "hr") && Gen.voidElements.elem nm &&
    !C08c.specialElements.elem nm

/-- a block element: `startTagCloseP` / `endTagBlock`, not `pre`, not closed by implied end tags -/
def blockName (nm : Str) : Bool :=
  decide (closePStart nm) && decide (blockEnd nm) && !(nm == lit "pre") &&
  !Gen.Lit.TB_TreeBuilder_generateImpliedEndTags_0.contains nm && !C08c.specialElements.elem nm &&
  !Gen.voidElements.elem nm && !(nm == sP)

/-- headings `h1` … `h6` (`startTagHeading` / `endTagHeading`) -/
def headingName (nm : Str) : Bool := Gen.headingElements.contains nm

/-- list items (`startTagListItem` / `endTagListItem`) -/
def itemName (nm : Str) : Bool := nm == lit "li" || nm == lit "dt" || nm == lit "dd"

/-- the kinds of container elements covered -/
inductive Cat where
  | ordinary | block | para | fmt | heading | item
  deriving DecidableEq

def catOf (nm : Str) : Option Cat :=
  if ordinaryName nm then some .ordinary else if blockName nm then some .block else if nm == sP then some .para
  else if fmtName nm then some .fmt else if headingName nm then some .heading else if itemName nm then some .item
  else none

/-- what the grammar remembers about the ancestors of a node: is a `p` open (then no block element, heading, list item,
`hr` and no `p`), the names of the open formatting elements (a formatting element is not nested in one of the same name:
no implied `</a>`, no Noah's-ark removal from the list of active formatting elements), and the name of the parent
(a heading is not the child of a heading; `li` is the child of `ul` / `ol`, `dt` / `dd` the child of `dl`) -/
structure Ctx where
  inP : Bool := false
  fm : List Str := []
  parent : Str := sBody

/-- where a container of kind `c` named `nm` may stand -/
def Ctx.allowed (x : Ctx) : Cat → Str → Bool
  | .ordinary, _ => true
  | .block, _ => !x.inP
  | .para, _ => !x.inP
  | .fmt, nm => !x.fm.contains nm
  | .heading, _ => !x.inP && !Gen.headingElements.contains x.parent
  | .item, nm => !x.inP && (if nm == lit "li" then x.parent == lit "ul" || x.parent == lit "ol" else x.parent == lit "dl")

/-- where a void element may stand -/
def Ctx.voidAllowed (x : Ctx) (nm : Str) : Bool := !(nm == lit "hr") || !x.inP

/-- the context of its children -/
def Ctx.inner (x : Ctx) : Cat → Str → Ctx
  | .ordinary, nm => { x with parent := nm }
  | .block, nm => { x with inP := false, parent := nm }
  | .para, nm => { x with inP := true, parent := nm }
  | .fmt, nm => { x with fm := nm :: x.fm, parent := nm }
  | .heading, nm => { x with parent := nm }
  | .item, nm => { x with inP := false, parent := nm }

/-- attributes that survive the round trip: no namespace (the tokenizer produces plain names), serializable -/
def attrsPlain (attrs : List Attr) : Bool := attrs.all fun a => a.ns == none

mutual
/-- covered body content: container elements (ordinary / block / `p` / formatting, any depth, placed as `Ctx.allowed`
says), void elements without children, non-empty text without NUL / CR, comments -/
def okNode (cOK : Str → Bool) (x : Ctx) : Tree → Bool
  | .text d => !d.isEmpty && valueOK d
  | .comment d => cOK d
  | .elem ns nm attrs cs =>
    ns == some htmlNs && attrsPlain attrs && startTagOK {} nm attrs &&
      (if voidName nm then cs.isEmpty && x.voidAllowed nm
       else match catOf nm with
        | some c => x.allowed c nm && okForest cOK (x.inner c nm) cs
        | none => false)
  | _ => false
/-- a forest of covered nodes without two adjacent text nodes -/
def okForest (cOK : Str → Bool) (x : Ctx) : List Tree → Bool
  | [] => true
  | t :: rest => okNode cOK x t && !(isText t && (rest.head?.map isText).getD false) && okForest cOK x rest
end


def sTitle : Str := lit "title"

/-- the covered content of `head`: nothing, or one `title` (no attributes) with no or one text node (non-empty, no NUL / CR) -/
def headOK : List Tree → Bool
  | [] => true
  | [.elem ns nm attrs cs] =>
    ns == some htmlNs && nm == sTitle && attrs.isEmpty &&
      (match cs with
       | [] => true
       | [.text d] => !d.isEmpty && valueOK d
       | _ => false)
  | _ => false

/-- the covered documents: DOCTYPE html, `<html>`, `<head>` with covered content `hd`, `<body>` with covered content `cs` -/
def docTree (hd cs : List Tree) : Tree :=
  .doc [.doctype (some sHtml) none none,
        .elem (some htmlNs) sHtml [] [.elem (some htmlNs) sHead [] hd, .elem (some htmlNs) sBody [] cs]]

/-- **the grammar.** `<!DOCTYPE html>`, `html` > (`head` > optional `title`, `body` > covered content) — see `okNode` -/
def G0 : Tree → Bool
  | .doc [.doctype (some n) none none, .elem ns1 h [] [.elem ns2 hdn [] hd, .elem ns3 b [] cs]] =>
    n == sHtml && ns1 == some htmlNs && h == sHtml && ns2 == some htmlNs && hdn == sHead && ns3 == some htmlNs &&
      b == sBody && headOK hd && okForest commentOKm {} cs
  | _ => false

end H5.Props.C07b
