/-
  C03 fuel part — specifications (`RO` / `Fr` / `Pv` instances) of the primitives of
  `H5.Model.TreeBuilder.State` and of the arena operations, and the tactic `tb_auto` that derives the
  specification of a `do` block from the specifications of its parts.
-/
import H5.Props.C03bCore
set_option linter.unusedSimpArgs false
set_option linter.unusedVariables false
namespace H5.Props.C03b
open H5 H5.Model H5.Model.TB H5.Model.Dom
open H5.Props.C02c (NF Post Post_bind Post_mono Post_pure Post_ok Post_error Post_throw Post_ite
  NF_typeError NF_keyError NF_indexError NF_assertFail NF_valueError NF_lookupError)

/-- one structural step: use a known specification, or decompose a bind / `if` / `match` -/
macro "tb_step" : tactic => `(tactic| first
  | assumption
  | (with_reducible refine @RO_bind _ _ _ _ ?_ ?_)
  | (with_reducible refine @Fr_bind _ _ _ _ ?_ ?_)
  | (with_reducible refine @Pv_bind _ _ _ _ ?_ ?_)
  | (intro _)
  | exact Fr_modify _ (fun _ => rfl)
  | (dsimp only)
  | infer_instance
  | split)

macro "tb_auto" : tactic => `(tactic| repeat' tb_step)

/-- evaluation of `Tr` on the basic monad operations -/
macro "tr_simp" : tactic => `(tactic| simp only [Tr_bind, Tr_map, Tr_pure, Tr_throw, Tr_fail, Tr_get, Tr_set, Tr_modify,
  Tr_lift, Tr_monadLift, Tr_ite, Post_bind, Post_pure, Post_ok, Post_error, Post_throw, Post_ite])

/-! ### pure `Except` computations that never run out of fuel -/

/-- `x : Except PyErr α` is `.ok _` or an error other than `outOfFuel` -/
class ENF {α : Type} (x : Except PyErr α) : Prop where
  out : Post x (fun _ => True)

instance RO_monadLift_inst {α : Type} (x : Except PyErr α) [h : ENF x] : RO (monadLift x : M α) :=
  RO_monadLift x h.out
instance RO_liftM_inst {α : Type} (x : Except PyErr α) [h : ENF x] : RO (liftM x : M α) :=
  RO_lift x h.out

instance ENF_ok {α : Type} (a : α) : ENF (Except.ok a : Except PyErr α) := ⟨trivial⟩
instance ENF_pure {α : Type} (a : α) : ENF (pure a : Except PyErr α) := ⟨trivial⟩
instance ENF_bind {α β : Type} (x : Except PyErr α) (f : α → Except PyErr β) [h1 : ENF x] [h2 : ∀ a, ENF (f a)] :
    ENF (x >>= f) := ⟨(Post_bind ..).2 (Post_mono h1.out (fun a _ => (h2 a).out))⟩
instance ENF_ite {α : Type} (c : Prop) [Decidable c] (a b : Except PyErr α) [h1 : ENF a] [h2 : ENF b] :
    ENF (if c then a else b) := by split <;> assumption
instance ENF_typeError {α : Type} (s) : ENF (Except.error (.typeError s) : Except PyErr α) := ⟨NF_typeError _⟩
instance ENF_keyError {α : Type} (s) : ENF (Except.error (.keyError s) : Except PyErr α) := ⟨NF_keyError _⟩
instance ENF_indexError {α : Type} (s) : ENF (Except.error (.indexError s) : Except PyErr α) := ⟨NF_indexError _⟩
instance ENF_valueError {α : Type} (s) : ENF (Except.error (.valueError s) : Except PyErr α) := ⟨NF_valueError _⟩
instance ENF_lookupError {α : Type} (s) : ENF (Except.error (.lookupError s) : Except PyErr α) := ⟨NF_lookupError _⟩
instance ENF_attributeError {α : Type} (s) : ENF (Except.error (.attributeError s) : Except PyErr α) :=
  ⟨NF_attributeError _⟩
instance ENF_assertFail {α : Type} (s) : ENF (Except.error (.assertFail s) : Except PyErr α) := ⟨NF_assertFail _⟩

macro "enf_step" : tactic => `(tactic| first
  | infer_instance
  | assumption
  | (refine @ENF_bind _ _ _ _ ?_ ?_)
  | (intro _)
  | split
  | (dsimp only))
macro "enf_auto" : tactic => `(tactic| repeat' enf_step)

instance ENF_nsE (k) : ENF (nsE k) := by unfold nsE; enf_auto
instance ENF_listElements (v) : ENF (listElements v) := by unfold listElements; enf_auto
instance ENF_tag (t : Token) (s) : ENF (t.tag s) := by unfold Token.tag; enf_auto
instance ENF_text (t : Token) (s) : ENF (t.text s) := by unfold Token.text; enf_auto
instance ENF_ofKey (s k) : ENF (Phase.ofKey s k) := by unfold Phase.ofKey; enf_auto
instance ENF_className (p : Phase) : ENF p.className := by unfold Phase.className; enf_auto

/-! ### arena operations -/

instance ENF_arena_get (a : Arena) (i) : ENF (a.get i) := by unfold Arena.get; enf_auto
instance ENF_arena_modify (a : Arena) (i f) : ENF (a.modify i f) := by unfold Arena.modify; enf_auto
instance ENF_arena_parentOf (a : Arena) (i) : ENF (a.parentOf i) := by unfold Arena.parentOf; enf_auto
instance ENF_arena_childrenOf (a : Arena) (i) : ENF (a.childrenOf i) := by unfold Arena.childrenOf; enf_auto
instance ENF_arena_detach (a : Arena) (i) : ENF (a.detach i) := by unfold Arena.detach; enf_auto
instance ENF_arena_appendChild (a : Arena) (p c) : ENF (a.appendChild p c) := by
  unfold Arena.appendChild; enf_auto
instance ENF_arena_insertBefore (a : Arena) (p n r) : ENF (a.insertBefore p n r) := by
  unfold Arena.insertBefore; enf_auto
instance ENF_arena_insertText (a : Arena) (p d b) : ENF (a.insertText p d b) := by
  unfold Arena.insertText; enf_auto
instance ENF_arena_removeChild (a : Arena) (p n) : ENF (a.removeChild p n) := by
  unfold Arena.removeChild; enf_auto
instance ENF_arena_cloneNode (a : Arena) (n) : ENF (a.cloneNode n) := by unfold Arena.cloneNode; enf_auto
instance ENF_arena_hasContent (a : Arena) (n) : ENF (a.hasContent n) := by unfold Arena.hasContent; enf_auto
instance ENF_arena_attrsOf (a : Arena) (n) : ENF (a.attrsOf n) := by unfold Arena.attrsOf; enf_auto
instance ENF_arena_setAttr (a : Arena) (n k v) : ENF (a.setAttr n k v) := by unfold Arena.setAttr; enf_auto

theorem ENF_foldlM {α β : Type} (f : β → α → Except PyErr β) (h : ∀ b a, ENF (f b a)) (l : List α) (b : β) :
    ENF (l.foldlM f b) := by
  induction l generalizing b with
  | nil => exact ⟨trivial⟩
  | cons x r ih =>
    simp only [List.foldlM_cons]
    haveI := h b x
    haveI : ∀ b', ENF (List.foldlM f b' r) := ih
    infer_instance

instance ENF_arena_reparentChildren (a : Arena) (n p) : ENF (a.reparentChildren n p) := by
  unfold Arena.reparentChildren
  haveI : ∀ (l : List NodeId) (b : Arena),
      ENF (l.foldlM (fun a c => a.modify c fun cn => { cn with parent := some p }) b) :=
    fun l b => ENF_foldlM _ (fun _ _ => inferInstance) l b
  enf_auto

/-! ### `H5.Model.TB` primitives (State.lean) -/

instance RO_fail_typeError {α : Type} (s) : RO (fail (.typeError s) : M α) := RO_throw _ (NF_typeError _)

instance RO_pyAssert (c s) : RO (pyAssert c s) := by unfold pyAssert; tb_auto
instance RO_getCfg : RO getCfg := by unfold getCfg; tb_auto

instance RO_getNode (i) : RO (getNode i) := ⟨fun st => by
  unfold getNode
  tr_simp
  have := (ENF_arena_get st.arena i).out
  split
  · rfl
  · rename_i e he; rw [he] at this; exact this⟩

instance Fr_modifyArena (f : Arena → Except PyErr Arena) [h : ∀ a, ENF (f a)] : Fr (modifyArena f) := ⟨fun st => by
  unfold modifyArena
  tr_simp
  have := (h st.arena).out
  split
  · rfl
  · rename_i e he; rw [he] at this; exact this⟩

instance Fr_allocNode (k a) : Fr (allocNode k a) := ⟨fun st => by
  unfold allocNode
  tr_simp
  rfl⟩

instance RO_elemInfo (i) : RO (elemInfo i) := by unfold elemInfo; tb_auto
instance RO_nodeName (i) : RO (nodeName i) := by unfold nodeName; tb_auto
instance RO_nodeNs (i) : RO (nodeNs i) := by unfold nodeNs; tb_auto
instance RO_nameTuple (i) : RO (nameTuple i) := by unfold nameTuple; tb_auto
instance RO_nodeAttrs (i) : RO (nodeAttrs i) := by unfold nodeAttrs; tb_auto
instance RO_nodeParent (i) : RO (nodeParent i) := by unfold nodeParent; tb_auto
instance RO_nameIs (i s) : RO (nameIs i s) := by unfold nameIs; tb_auto

instance RO_openElems : RO openElems := by unfold openElems; tb_auto
instance Fr_setOpen (l) : Fr (setOpen l) := Fr_modify _ (fun _ => rfl)
instance RO_openLast (s) : RO (openLast s) := by unfold openLast; tb_auto
instance RO_openAt (i s) : RO (openAt i s) := by unfold openAt; tb_auto
instance Fr_openPop (s) : Fr (openPop s) := by unfold openPop; tb_auto
instance Fr_openPush (x) : Fr (openPush x) := Fr_modify _ (fun _ => rfl)
instance RO_inOpen (x) : RO (inOpen x) := by unfold inOpen; tb_auto
instance Fr_openRemove (x s) : Fr (openRemove x s) := by unfold openRemove; tb_auto
instance RO_openIndex (x s) : RO (openIndex x s) := by unfold openIndex; tb_auto

instance RO_afe : RO afe := by unfold afe; tb_auto
instance Fr_setAfe (l) : Fr (setAfe l) := Fr_modify _ (fun _ => rfl)
instance RO_inAfe (x) : RO (inAfe x) := by unfold inAfe; tb_auto
instance Fr_afeRemove (x s) : Fr (afeRemove x s) := by unfold afeRemove; tb_auto
instance RO_afeIndex (x s) : RO (afeIndex x s) := by unfold afeIndex; tb_auto

instance RO_getPhase : RO getPhase := by unfold getPhase; tb_auto
instance RO_curPhase (s) : RO (curPhase s) := by unfold curPhase; tb_auto
instance Fr_setFramesetOK (b) : Fr (setFramesetOK b) := Fr_modify _ (fun _ => rfl)
instance Fr_setTokState (s) : Fr (setTokState s) := Fr_modify _ (fun _ => rfl)
instance Fr_setInsertFromTable (b) : Fr (setInsertFromTable b) := Fr_modify _ (fun _ => rfl)
instance RO_innerHTMLTruthy : RO innerHTMLTruthy := by unfold innerHTMLTruthy; tb_auto
instance RO_raiseIfStrict (c) : RO (raiseIfStrict c) := by unfold raiseIfStrict; tb_auto
instance Fr_parseError (c v) : Fr (parseError c v) := by unfold parseError; tb_auto
instance Fr_parseErrorDefault : Fr parseErrorDefault := by unfold parseErrorDefault; tb_auto
instance Fr_parseErrorS (c v) : Fr (parseErrorS c v) := by unfold parseErrorS; tb_auto
instance Fr_acknowledgeSelfClosing (d) : Fr (acknowledgeSelfClosing d) := by
  unfold acknowledgeSelfClosing
  haveI : Fr (modify fun st => { st with selfClosingAcknowledged := true } : M PUnit) := Fr_modify _ (fun _ => rfl)
  tb_auto

/-- `setPhase p` preserves `PhInv` when `p` is not `inForeignContent` -/
theorem Pv_setPhase (p : Phase) (h : p ≠ .inForeignContent) : Pv (setPhase p) :=
  ⟨fun st hi => by
    unfold setPhase
    tr_simp
    exact ⟨by simpa using h, hi.2.1, hi.2.2⟩⟩

theorem Pv_setPhaseO (p : Option Phase) (h : p ≠ some .inForeignContent) : Pv (setPhaseO p) :=
  ⟨fun st hi => by
    unfold setPhaseO
    tr_simp
    exact ⟨h, hi.2.1, hi.2.2⟩⟩

end H5.Props.C03b
