/-
  C16 simulation — the dispatcher is oblivious: `mkRec_ob : RecOb (mkRec n)`.
-/
import H5.Props.C16bClose
set_option linter.unusedSimpArgs false
set_option linter.unusedVariables false
namespace H5.Props.C16b
open H5 H5.Model H5.Model.TB H5.Model.Dom

theorem Ob_dite {α : Type} {c : Prop} [Decidable c] (t : c → M α) (e : ¬c → M α) (ht : ∀ h, Ob (t h))
    (he : ∀ h, Ob (e h)) : Ob (dite c t e) := by
  by_cases hc : c
  · rw [dif_pos hc]; exact ht _
  · rw [dif_neg hc]; exact he _

set_option maxHeartbeats 4000000 in
theorem runTagHandler_ob {r : Rec} (hr : RecOb r) (tok : Token) (h : String) : Ob (runTagHandler r h tok) := by
  delta runTagHandler
  delta runTagHandler.match_1
  repeat (refine Ob_dite _ _ (fun heq => ?_) (fun _ => ?_); (· subst heq; dsimp only [Eq.ndrec_symm]; ob_close))
  ob_close

set_option maxHeartbeats 4000000 in
theorem runProcessPlain_ob {r : Rec} (hr : RecOb r) (tok : Token) (h : String) : Ob (runProcessPlain r h tok) := by
  delta runProcessPlain
  delta runProcessPlain.match_1
  repeat (refine Ob_dite _ _ (fun heq => ?_) (fun _ => ?_); (· subst heq; dsimp only [Eq.ndrec_symm]; ob_close))
  ob_close

set_option maxHeartbeats 4000000 in
theorem runEOF_ob {r : Rec} (hr : RecOb r) (h : String) : Ob (runEOF r h) := by
  delta runEOF
  delta runEOF.match_1
  repeat (refine Ob_dite _ _ (fun heq => ?_) (fun _ => ?_); (· subst heq; dsimp only [Eq.ndrec_symm]; ob_close))
  ob_close

instance PP_resolveMethod (ph m) : PP (resolveMethod ph m) := by unfold resolveMethod; pp_auto
instance PP_lookupHandler (tbl attr ph nm) : PP (lookupHandler tbl attr ph nm) := by unfold lookupHandler; pp_auto

theorem Phase_processStartTag_ob {r : Rec} (hr : RecOb r) (ph : Phase) (tok : Token) :
    Ob (Phase_processStartTag r ph tok) := by
  unfold Phase_processStartTag
  haveI := fun h => runTagHandler_ob hr tok h
  ob_auto

theorem Phase_processEndTag_ob {r : Rec} (hr : RecOb r) (ph : Phase) (tok : Token) :
    Ob (Phase_processEndTag r ph tok) := by
  unfold Phase_processEndTag
  haveI := fun h => runTagHandler_ob hr tok h
  ob_auto

theorem runProcess_ob {r : Rec} (hr : RecOb r) (ph : Phase) (m : String) (tok : Token) :
    Ob (runProcess r ph m tok) := by
  unfold runProcess
  haveI := Phase_processStartTag_ob hr ph tok
  haveI := Phase_processEndTag_ob hr ph tok
  haveI := fun h => runProcessPlain_ob hr tok h
  ob_auto

theorem runProcessEOF_ob {r : Rec} (hr : RecOb r) (ph : Phase) : Ob (runProcessEOF r ph) := by
  unfold runProcessEOF
  haveI := fun h => runEOF_ob hr h
  ob_auto

/-- **the dispatcher is oblivious at every depth** (no rank argument is needed: `Rec.bottom` raises `outOfFuel` in
both runs) -/
theorem mkRec_ob : ∀ n, RecOb (mkRec n)
  | 0 =>
    { S := fun _ _ => Ob_throw _ (NPC_outOfFuel _).out
      E := fun _ _ => Ob_throw _ (NPC_outOfFuel _).out
      Ch := fun _ _ => Ob_throw _ (NPC_outOfFuel _).out
      Sp := fun _ _ => Ob_throw _ (NPC_outOfFuel _).out
      Cm := fun _ _ => Ob_throw _ (NPC_outOfFuel _).out
      D := fun _ _ => Ob_throw _ (NPC_outOfFuel _).out
      EOF := fun _ => Ob_throw _ (NPC_outOfFuel _).out }
  | n + 1 =>
    have hr := mkRec_ob n
    { S := fun ph tok => runProcess_ob hr ph _ tok
      E := fun ph tok => runProcess_ob hr ph _ tok
      Ch := fun ph tok => runProcess_ob hr ph _ tok
      Sp := fun ph tok => runProcess_ob hr ph _ tok
      Cm := fun ph tok => runProcess_ob hr ph _ tok
      D := fun ph tok => runProcess_ob hr ph _ tok
      EOF := fun ph => runProcessEOF_ob hr ph }

end H5.Props.C16b
