/-
  C07 identity, tree-construction side — one token through `TB.step` in the `inBody` phase, on the states of the
  covered documents (`BodyInv`): ordinary start tag, ordinary end tag, character / space tokens, comments.
-/
import H5.Props.C07bRun
set_option linter.unusedSimpArgs false
set_option linter.unusedVariables false
namespace H5.Props.C07b
open H5 H5.Model H5.Model.TB H5.Model.Dom

/-! ### the list of active formatting elements seen through the frames -/

/-- the open node is a formatting element -/
def isFmt (g : Frame) : Bool :=
  match g.node.kind with
  | .element _ nm => fmtName nm
  | _ => false

/-- the list of active formatting elements of a covered document: the open formatting elements, in order -/
def fmtList (fs : List Frame) (f : Frame) : List (Option NodeId) :=
  ((fs.drop 1 ++ [f]).filter isFmt).map fun g => some g.id

theorem isFmt_congr {f f1 : Frame} (hk : f1.node.kind = f.node.kind) : isFmt f1 = isFmt f := by
  unfold isFmt; rw [hk]

theorem fmtList_same {fs : List Frame} {f f1 : Frame} (hk : f1.node.kind = f.node.kind) (hid : f1.id = f.id) :
    fmtList fs f1 = fmtList fs f := by
  unfold fmtList
  simp only [List.filter_append, List.map_append, List.filter_cons, List.filter_nil, isFmt_congr hk]
  split <;> simp [hid]

theorem fmtList_push {fs : List Frame} {f f1 : Frame} (g : Frame) (hfs : fs ≠ []) (hk : f1.node.kind = f.node.kind)
    (hid : f1.id = f.id) :
    fmtList (fs ++ [f1]) g = fmtList fs f ++ (if isFmt g then [some g.id] else []) := by
  have hd : (fs ++ [f1]).drop 1 = fs.drop 1 ++ [f1] := by
    cases fs with
    | nil => exact absurd rfl hfs
    | cons e rest => simp
  unfold fmtList
  rw [hd]
  simp only [List.filter_append, List.map_append, List.filter_cons, List.filter_nil, isFmt_congr hk, List.append_assoc]
  congr 1
  by_cases h1 : isFmt f = true <;> by_cases h2 : isFmt g = true <;> simp [h1, h2, hid]

/-- how the tree builder dispatches the formatting names, and the tables they are not in -/
theorem fmtNames_facts : fmtNames.all (fun nm =>
    (decide (lookupHandler Gen.startTagHandlers "startTagHandler" .inBody nm = .ok "InBodyPhase.startTagFormatting") ||
      (nm == lit "a" &&
        decide (lookupHandler Gen.startTagHandlers "startTagHandler" .inBody nm = .ok "InBodyPhase.startTagA"))) &&
    decide (lookupHandler Gen.endTagHandlers "endTagHandler" .inBody nm = .ok "InBodyPhase.endTagFormatting") &&
    !Gen.specialElements.contains (htmlNs, nm) && !C08c.specialElements.elem nm && !Gen.voidElements.elem nm &&
    !(nm == sP)) = true := by decide +kernel

theorem fmtName_facts {nm : Str} (h : fmtName nm = true) :
    (lookupHandler Gen.startTagHandlers "startTagHandler" .inBody nm = .ok "InBodyPhase.startTagFormatting" ∨
      (nm = lit "a" ∧ lookupHandler Gen.startTagHandlers "startTagHandler" .inBody nm = .ok "InBodyPhase.startTagA")) ∧
    lookupHandler Gen.endTagHandlers "endTagHandler" .inBody nm = .ok "InBodyPhase.endTagFormatting" ∧
    Gen.specialElements.contains (htmlNs, nm) = false ∧ C08c.specialElements.elem nm = false ∧
    Gen.voidElements.elem nm = false ∧ nm ≠ sP := by
  have hm : nm ∈ fmtNames := by simpa [fmtName] using h
  have := List.all_eq_true.1 fmtNames_facts nm hm
  simp only [Bool.and_eq_true, Bool.or_eq_true, decide_eq_true_eq, Bool.not_eq_true', beq_iff_eq, beq_eq_false_iff_ne,
    ne_eq] at this
  obtain ⟨⟨⟨⟨⟨h1, h2⟩, h3⟩, h4⟩, h5⟩, h6⟩ := this
  exact ⟨h1, h2, h3, h4, h5, h6⟩

/-- a name dispatched to another start-tag handler is not a formatting name -/
theorem not_fmt_of_start {nm : Str} {hd : String}
    (hs : lookupHandler Gen.startTagHandlers "startTagHandler" .inBody nm = .ok hd)
    (h1 : hd ≠ "InBodyPhase.startTagFormatting") (h2 : hd ≠ "InBodyPhase.startTagA") : fmtName nm = false := by
  cases hf : fmtName nm with
  | false => rfl
  | true =>
    rcases (fmtName_facts hf).1 with h | ⟨_, h⟩
    · rw [hs] at h; exact absurd (Except.ok.inj h) h1
    · rw [hs] at h; exact absurd (Except.ok.inj h) h2

theorem not_fmt_of_end {nm : Str} {hd : String}
    (hs : lookupHandler Gen.endTagHandlers "endTagHandler" .inBody nm = .ok hd)
    (h1 : hd ≠ "InBodyPhase.endTagFormatting") : fmtName nm = false := by
  cases hf : fmtName nm with
  | false => rfl
  | true =>
    have h := (fmtName_facts hf).2.1
    rw [hs] at h; exact absurd (Except.ok.inj h) h1

/-- the parser state while the body of a covered document is being built: `fs` are the open nodes below the current
one (the first is the document node), `f` the current node -/
structure PhInv (ph : Phase) (ps : PState) (fs : List Frame) (f : Frame) : Prop where
  phase : ps.phase = some ph
  opens : ps.openElements = (fs.drop 1 ++ [f]).map (·.id)
  afe : ps.activeFormattingElements = fmtList fs f
  ift : ps.insertFromTable = false
  errs : ps.errors = #[]
  dropNl : ps.inBodyDropNewline = false
  docId : ps.document = 0
  frames : FramesOK ps.arena fs f
  topk : ∃ nm, f.node.kind = .element (some htmlNs) nm
  fsne : fs ≠ []

/-- ... in the `inBody` phase -/
abbrev BodyInv (ps : PState) (fs : List Frame) (f : Frame) : Prop := PhInv .inBody ps fs f

theorem PhInv.last {ph ps fs f} (h : PhInv ph ps fs f) : ps.openElements.getLast? = some f.id := by
  rw [h.opens]; simp

theorem PhInv.topNode {ph ps fs f} (h : PhInv ph ps fs f) : ps.arena.nodes[f.id]? = some f.node := h.frames.2.1

/-! ### more primitives -/

theorem reconstruct_run_nil (st : PState) (h : st.activeFormattingElements = []) :
    reconstructActiveFormattingElements.run st = .ok ((), st) := by
  unfold reconstructActiveFormattingElements
  simp only [run_bind, afe_run, ok_bind, h]
  rfl

/-- the last active formatting element is open: nothing to reconstruct -/
theorem reconstruct_run_open (st : PState) (e : NodeId) (l : List (Option NodeId))
    (h : st.activeFormattingElements = l ++ [some e]) (ho : st.openElements.contains e = true) :
    reconstructActiveFormattingElements.run st = .ok ((), st) := by
  unfold reconstructActiveFormattingElements
  have hi : (l ++ [some e])[(l ++ [some e]).length - 1]? = some (some e) := by simp
  have hne : (l ++ [some e]).isEmpty = false := by simp
  simp only [run_bind, afe_run, ok_bind, h, hne, Bool.false_eq_true, ↓reduceIte, hi]
  have : (inOpen e).run st = .ok (true, st) := by
    unfold inOpen
    simp only [run_bind, openElems_run, ok_bind, ho]
    rfl
  simp only [run_bind, this, ok_bind, ↓reduceIte]
  rfl

theorem PhInv.reconstruct {ph ps fs f} (h : PhInv ph ps fs f) :
    reconstructActiveFormattingElements.run ps = .ok ((), ps) := by
  rcases List.eq_nil_or_concat ((fs.drop 1 ++ [f]).filter isFmt) with hl | ⟨l, a, hl⟩
  · exact reconstruct_run_nil ps (by rw [h.afe, fmtList, hl]; rfl)
  · have ha : a ∈ (fs.drop 1 ++ [f]).filter isFmt := by rw [hl]; simp
    have ha2 : a ∈ fs.drop 1 ++ [f] := (List.mem_filter.1 ha).1
    refine reconstruct_run_open ps a.id (l.map fun g => some g.id) (by rw [h.afe, fmtList, hl]; simp) ?_
    rw [h.opens]
    simp only [List.contains_eq_mem, List.mem_map, decide_eq_true_eq]
    exact ⟨a, ha2, rfl⟩

theorem allocNode_run (st : PState) (k : Kind) (attrs : Attrs) :
    (allocNode k attrs).run st = .ok (st.arena.nodes.size, { st with arena := (st.arena.alloc k attrs).1 }) := rfl

theorem modifyArena_run (st : PState) (f : Arena → Except PyErr Arena) (a : Arena) (h : f st.arena = .ok a) :
    (modifyArena f).run st = .ok ((), { st with arena := a }) := by
  show (match f st.arena with | .ok a => set { st with arena := a } | .error e => throw e : M Unit).run st = _
  rw [h]; rfl

theorem openPush_run (st : PState) (x : Nat) :
    (openPush x).run st = .ok ((), { st with openElements := st.openElements ++ [x] }) := rfl

/-- `insertElement` of an HTML element under the current node (no foster parenting) -/
theorem insertElement_run (st : PState) (d : TagData) (cur : Nat) (pn : Node) (hcfg : st.cfg = cfg0)
    (hns : d.ns = none) (hift : st.insertFromTable = false) (hl : st.openElements.getLast? = some cur)
    (hp : st.arena.nodes[cur]? = some pn) :
    (insertElement d).run st = .ok (st.arena.nodes.size,
      { st with arena := addChild st.arena cur pn (.element (some htmlNs) d.name) d.attrs,
                openElements := st.openElements ++ [st.arena.nodes.size] }) := by
  have ha := alloc_appendChild st.arena cur pn (.element (some htmlNs) d.name) d.attrs hp
  have hdn : cfg0.defaultNamespace = some htmlNs := rfl
  unfold insertElement insertElementNormal createElement
  simp only [run_bind, get_run, ok_bind, hift, Bool.false_eq_true, ↓reduceIte, getCfg_run, hns, allocNode_run]
  rw [hcfg, hdn]
  rw [openLast_run _ _ cur (by exact hl)]
  simp only [ok_bind]
  rw [modifyArena_run _ _ _ (by exact ha)]
  simp only [ok_bind, openPush_run, run_pure]

/-! ### `mainLoop` for one token that the `inBody` phase consumes -/

/-- the token as `mainLoop` sees it -/
def tokOf (t : TTok) : Token := (Token.ofTTok t).getD (.comment [])

/-- which dispatcher entry `mainLoop` calls for a token -/
def callOf (r : Rec) (ph : Phase) (tok : Token) : M (Option Token) :=
  match tok with
  | .chars _ => r.processCharacters ph tok
  | .space _ => r.processSpaceCharacters ph tok
  | .startTag _ => r.processStartTag ph tok
  | .endTag _ => r.processEndTag ph tok
  | .comment _ => r.processComment ph tok
  | .doctype .. => r.processDoctype ph tok

theorem callOf_eq (r : Rec) (ph : Phase) (tok : Token) :
    (match tok with
      | .chars _ => r.processCharacters ph tok
      | .space _ => r.processSpaceCharacters ph tok
      | .startTag _ => r.processStartTag ph tok
      | .endTag _ => r.processEndTag ph tok
      | .comment _ => r.processComment ph tok
      | .doctype .. => r.processDoctype ph tok : M (Option Token)) = callOf r ph tok := by
  cases tok <;> rfl

theorem reprocess_once (st st' : PState) (tok : Token) (cur : Nat) (n : Node) (nm : Str) (ph : Phase)
    (hcfg : st.cfg = cfg0) (hph : st.phase = some ph) (hl : st.openElements.getLast? = some cur)
    (h : st.arena.nodes[cur]? = some n) (hk : n.kind = .element (some htmlNs) nm) (fuel : Nat)
    (hcall : (callOf (mkRec 48) ph tok).run st = .ok (none, st')) :
    (reprocessLoop (mkRec 48) (fuel + 1) tok).run st = .ok ((), st') := by
  unfold reprocessLoop
  simp only [run_bind, useCurrentPhase_run st tok cur n nm hcfg hl h hk, ok_bind, ↓reduceIte,
    curPhase_run st _ ph hph]
  cases tok <;> simp only [callOf] at hcall <;> simp only [hcall, ok_bind] <;> rfl

/-- the state `stepM` starts the handlers from -/
def resetFor (ps : PState) : PState :=
  { ps with cfg := cfg0, tokSwitch := none, selfClosingAcknowledged := false }

/-- `TB.step` for a token that the current phase consumes in one round without acknowledging / needing a
self-closing flag -/
theorem step_of_call (ps st' : PState) (t : TTok) (tok : Token) (cur : Nat) (n : Node) (nm : Str) (ph : Phase)
    (hof : Token.ofTTok t = some tok) (hsc : ∀ d, tok = .startTag d → d.selfClosing = false)
    (hph : ps.phase = some ph) (hl : ps.openElements.getLast? = some cur)
    (h : ps.arena.nodes[cur]? = some n) (hk : n.kind = .element (some htmlNs) nm)
    (hcall : (callOf (mkRec 48) ph tok).run (resetFor ps) = .ok (none, st')) :
    TB.step cfg0 ps t = .ok (st', st'.tokSwitch) := by
  have hloop := reprocess_once (resetFor ps) st' tok cur n nm ph rfl hph hl h hk 511 hcall
  have hm : (modify fun st => { st with tokSwitch := none, selfClosingAcknowledged := false } : M PUnit).run
      { ps with cfg := cfg0 } = .ok (⟨⟩, resetFor ps) := rfl
  have hc : (resetFor ps).cfg = cfg0 := rfl
  have hd : cfg0.dispatchDepth = 48 := rfl
  have hf : cfg0.reprocessFuel = 511 + 1 := rfl
  have hstep : (stepM t).run { ps with cfg := cfg0 } = .ok ((), st') := by
    unfold stepM
    simp only [run_bind, hm, ok_bind]
    cases t with
    | parseError c v => simp [Token.ofTTok] at hof
    | startTag a b c =>
      simp only [hof, run_bind, getCfg_run, ok_bind, hc, hd, hf, hloop]
      cases tok with
      | startTag d =>
        have := hsc d rfl
        simp only [ok_bind, run_bind, get_run, this, Bool.false_and, Bool.false_eq_true, ↓reduceIte]
        rfl
      | _ => simp [Token.ofTTok] at hof
    | _ =>
      simp only [hof, run_bind, getCfg_run, ok_bind, hc, hd, hf, hloop]
      cases tok <;> simp [Token.ofTTok] at hof <;> rfl
  unfold TB.step
  rw [hstep]

theorem liftExcept_run {α : Type} (x : Except PyErr α) (a : α) (st : PState) (h : x = .ok a) :
    (liftM x : M α).run st = .ok (a, st) := by subst h; rfl
theorem monadLift_run {α : Type} (x : Except PyErr α) (a : α) (st : PState) (h : x = .ok a) :
    (monadLift x : M α).run st = .ok (a, st) := by subst h; rfl

theorem resetFor_BodyInv {ph ps fs f} (h : PhInv ph ps fs f) : PhInv ph (resetFor ps) fs f :=
  ⟨h.phase, h.opens, h.afe, h.ift, h.errs, h.dropNl, h.docId, h.frames, h.topk, h.fsne⟩

/-! ### an ordinary start tag -/


/-- the frame of a freshly opened element -/
def newFrame (id parent : Nat) (nm : Str) (attrs : Attrs) : Frame :=
  { id := id, node := { kind := .element (some htmlNs) nm, attrs := attrs, parent := some parent }, kids := [] }

def withChild (f : Frame) (c : Nat) : Frame :=
  { f with node := { f.node with children := f.node.children ++ [c] } }

/-- the list of active formatting elements after a start tag has pushed a frame -/
theorem PhInv.afe_push {ph ps fs f} (h : PhInv ph ps fs f) (c : Nat) (nm : Str) (attrs : Attrs) :
    fmtList (fs ++ [withChild f c]) (newFrame c f.id nm attrs) =
      ps.activeFormattingElements ++ (if fmtName nm then [some c] else []) := by
  rw [fmtList_push (f := f) (f1 := withChild f c) _ h.fsne rfl rfl, h.afe]
  rfl

/-- ... and after an end tag has popped the current node `g` -/
theorem PhInv.afe_pop {ph ps fs p g} (h : PhInv ph ps (fs ++ [p]) g) (hfs : fs ≠ []) (kids : List Tree) :
    ps.activeFormattingElements = fmtList fs { p with kids := kids } ++ (if isFmt g then [some g.id] else []) := by
  rw [h.afe, fmtList_push g hfs (f := { p with kids := kids }) (f1 := p) rfl rfl]

theorem isFmt_of_kind {g : Frame} {ns : Option Str} {nm : Str} (hg : g.node.kind = .element ns nm) :
    isFmt g = fmtName nm := by
  unfold isFmt; rw [hg]

theorem step_startTagOther {ps fs f} (h : BodyInv ps fs f) (nm : Str) (attrs : List (Str × Str))
    (ho : ordinaryStart nm) :
    ∃ ps', TB.step cfg0 ps (.startTag nm attrs false) = .ok (ps', none) ∧
      BodyInv ps' (fs ++ [withChild f ps.arena.nodes.size])
        (newFrame ps.arena.nodes.size f.id nm (attrsOfPairs attrs)) := by
  obtain ⟨fnm, hfk⟩ := h.topk
  have hr := resetFor_BodyInv h
  let d : TagData := { name := nm, attrs := attrsOfPairs attrs, selfClosing := false, orig := true }
  let st' : PState := { resetFor ps with
    arena := addChild ps.arena f.id f.node (.element (some htmlNs) nm) (attrsOfPairs attrs),
    openElements := ps.openElements ++ [ps.arena.nodes.size] }
  have hcall : (callOf (mkRec 48) .inBody (.startTag d)).run (resetFor ps) = .ok (none, st') := by
    show (runProcess (mkRec 47) .inBody "processStartTag" (.startTag d)).run (resetFor ps) = _
    rw [runProcess_inBody_S]
    unfold Phase_processStartTag
    have e1 : (Token.startTag d).tag "Phase.processStartTag" = .ok d := rfl
    simp only [run_bind, liftExcept_run _ _ _ e1, monadLift_run _ _ _ e1, ok_bind]
    have e2 : lookupHandler Gen.startTagHandlers "startTagHandler" .inBody d.name = .ok "InBodyPhase.startTagOther" := ho
    simp only [liftExcept_run _ _ _ e2, monadLift_run _ _ _ e2, ok_bind, runTag_InBody_startTagOther]
    unfold InBody_startTagOther insertElementTok
    have e3 : (Token.startTag d).tag "InBodyPhase.startTagOther" = .ok d := rfl
    simp only [run_bind, hr.reconstruct, ok_bind, liftExcept_run _ _ _ e3, monadLift_run _ _ _ e3]
    rw [insertElement_run (resetFor ps) d f.id f.node rfl rfl hr.ift hr.last hr.topNode]
    rfl
  refine ⟨st', ?_, ?_⟩
  · have := step_of_call ps st' (.startTag nm attrs false) (.startTag d) f.id f.node fnm .inBody rfl
      (fun d' hd' => by cases hd'; rfl) h.phase h.last h.topNode hfk hcall
    exact this
  · refine ⟨h.phase, ?_, ?_, h.ift, h.errs, h.dropNl, h.docId, ?_, ⟨nm, rfl⟩, by simp⟩
    rotate_left 1
    · rw [h.afe_push, not_fmt_of_start ho (by decide) (by decide)]
      simp; rfl
    rotate_left 1
    · show ps.openElements ++ [ps.arena.nodes.size] = _
      rw [h.opens]
      cases fs with
      | nil => exact absurd rfl h.fsne
      | cons e rest => simp [withChild, newFrame]
    · exact h.frames.push (.element (some htmlNs) nm) (attrsOfPairs attrs)

/-! ### an ordinary end tag closing the current node -/


theorem openPop_run (st : PState) (site : String) (x : Nat) (hl : st.openElements.getLast? = some x) :
    (openPop site).run st = .ok (x, { st with openElements := st.openElements.dropLast }) := by
  unfold openPop
  simp only [run_bind, openElems_run, ok_bind, hl]
  rfl

theorem generateImplied_run_excluded (st : PState) (cur : Nat) (n : Node) (ns : Option Str) (nm : Str)
    (hl : st.openElements.getLast? = some cur) (h : st.arena.nodes[cur]? = some n) (hk : n.kind = .element ns nm) :
    (generateImpliedEndTags (some nm)).run st = .ok ((), st) := by
  unfold generateImpliedEndTags
  simp only [run_bind, openElems_run, ok_bind]
  unfold generateImpliedEndTagsAux
  simp only [run_bind, openLast_run st _ cur hl, ok_bind, nodeName_run st cur n ns nm h hk, bne_self_eq_false,
    Bool.and_false, Bool.false_eq_true, ↓reduceIte]
  rfl

theorem step_endTagOther {ps fs p g} (h : BodyInv ps (fs ++ [p]) g) (nm : Str) (hfs : fs ≠ [])
    (hg : g.node.kind = .element (some htmlNs) nm) (hpk : ∃ pn, p.node.kind = .element (some htmlNs) pn)
    (ho : ordinaryEnd nm) :
    ∃ ps', TB.step cfg0 ps (.endTag nm [] false) = .ok (ps', none) ∧
      BodyInv ps' fs { p with kids := p.kids ++ [g.tree] } := by
  have hr := resetFor_BodyInv h
  let d : TagData := { name := nm, attrs := attrsOfPairs [], selfClosing := false, orig := true }
  let st' : PState := { resetFor ps with openElements := ps.openElements.dropLast }
  have hopen : (resetFor ps).openElements.reverse = g.id :: ((fs ++ [p]).drop 1).reverse.map (·.id) := by
    show ps.openElements.reverse = _
    rw [h.opens]; simp
  have hcall : (callOf (mkRec 48) .inBody (.endTag d)).run (resetFor ps) = .ok (none, st') := by
    show (runProcess (mkRec 47) .inBody "processEndTag" (.endTag d)).run (resetFor ps) = _
    rw [runProcess_inBody_E]
    unfold Phase_processEndTag
    have e1 : (Token.endTag d).tag "Phase.processEndTag" = .ok d := rfl
    simp only [run_bind, liftExcept_run _ _ _ e1, monadLift_run _ _ _ e1, ok_bind]
    have e2 : lookupHandler Gen.endTagHandlers "endTagHandler" .inBody d.name = .ok "InBodyPhase.endTagOther" := ho
    simp only [liftExcept_run _ _ _ e2, monadLift_run _ _ _ e2, ok_bind, runTag_InBody_endTagOther]
    unfold InBody_endTagOther
    have e3 : (Token.endTag d).tag "InBodyPhase.endTagOther" = .ok d := rfl
    simp only [run_bind, ok_bind, liftExcept_run _ _ _ e3, monadLift_run _ _ _ e3, openElems_run, hopen]
    unfold InBody_endTagOther.loop
    have hdn : d.name = nm := rfl
    simp only [hdn, run_bind, nodeName_run (resetFor ps) g.id g.node _ nm hr.topNode hg, ok_bind, beq_self_eq_true,
      ↓reduceIte, generateImplied_run_excluded (resetFor ps) g.id g.node _ nm hr.last hr.topNode hg,
      openLast_run (resetFor ps) _ g.id hr.last, bne_self_eq_false, Bool.false_eq_true]
    unfold popUntil
    simp only [run_bind, openElems_run, ok_bind]
    unfold popUntilLoop
    simp only [run_bind, openPop_run (resetFor ps) _ g.id hr.last, ok_bind, run_pure, beq_self_eq_true, ↓reduceIte]
    rfl
  refine ⟨st', ?_, ?_⟩
  · exact step_of_call ps st' (.endTag nm [] false) (.endTag d) g.id g.node nm .inBody rfl
      (fun d' hd' => by cases hd') h.phase h.last h.topNode hg hcall
  · refine ⟨h.phase, ?_, ?_, h.ift, h.errs, h.dropNl, h.docId, h.frames.pop (Or.inl ⟨_, _, hg⟩), hpk, hfs⟩
    rotate_left 1
    · have := h.afe_pop hfs (p.kids ++ [g.tree])
      rw [isFmt_of_kind hg, not_fmt_of_end ho (by decide)] at this
      show ps.activeFormattingElements = _
      simpa using this
    show ps.openElements.dropLast = _
    rw [h.opens]
    cases fs with
    | nil => exact absurd rfl hfs
    | cons e rest => simp [List.dropLast_append_of_ne_nil]

/-! ### text and comments under the current node -/

theorem insertText_run (st : PState) (data : Str) (cur : Nat) (pn : Node) (hift : st.insertFromTable = false)
    (hl : st.openElements.getLast? = some cur) (hp : st.arena.nodes[cur]? = some pn) :
    (insertText data).run st = .ok ((), { st with arena := addChild st.arena cur pn (.text data) [] }) := by
  have ha : st.arena.insertText cur data none = .ok (addChild st.arena cur pn (.text data) []) := by
    unfold Arena.insertText
    exact alloc_appendChild st.arena cur pn (.text data) [] hp
  unfold insertText
  simp only [run_bind, openLast_run st _ cur hl, ok_bind, get_run, hift, Bool.not_false, ↓reduceIte, run_pure]
  rw [modifyArena_run _ _ _ ha]
  simp [hift]

/-- the leaf frame update -/
def withLeaf (f : Frame) (c : Nat) (t : Tree) : Frame :=
  { f with node := { f.node with children := f.node.children ++ [c] }, kids := f.kids ++ [t] }

theorem PhInv.addLeaf {ph : Phase} {ps ps' : PState} {fs f} (h : PhInv ph ps fs f) (k : Kind) (t : Tree)
    (hk : ∀ n, n.kind = k → ∀ a i hi, a.nodes[i]? = some n → i < hi → Shape a hi i t)
    (h1 : ps'.phase = ps.phase) (h2 : ps'.openElements = ps.openElements)
    (h3 : ps'.activeFormattingElements = ps.activeFormattingElements) (h4 : ps'.insertFromTable = ps.insertFromTable)
    (h5 : ps'.errors = ps.errors) (h6 : ps'.inBodyDropNewline = ps.inBodyDropNewline)
    (h7 : ps'.arena = addChild ps.arena f.id f.node k []) (h8 : ps'.document = ps.document) :
    PhInv ph ps' fs (withLeaf f ps.arena.nodes.size t) := by
  have hlt : f.id < ps.arena.nodes.size := (Array.getElem?_eq_some_iff.1 h.topNode).1
  refine ⟨h1.trans h.phase, ?_, (h3.trans h.afe).trans (fmtList_same (f1 := withLeaf f ps.arena.nodes.size t) (f := f) rfl rfl).symm, h4.trans h.ift, h5.trans h.errs, h6.trans h.dropNl, h8.trans h.docId, ?_, h.topk, h.fsne⟩
  · rw [h2, h.opens]; simp [withLeaf]
  · rw [h7]
    exact h.frames.leaf k t (hk _ rfl _ _ _ (addChild_new_get ps.arena f.id f.node k [] hlt) (Nat.lt_succ_self _))

theorem step_chars {ps fs f} (h : BodyInv ps fs f) (data : Str) (h0 : data ≠ [0]) :
    ∃ ps', TB.step cfg0 ps (.chars data) = .ok (ps', none) ∧
      BodyInv ps' fs (withLeaf f ps.arena.nodes.size (.text data)) := by
  obtain ⟨fnm, hfk⟩ := h.topk
  have hr := resetFor_BodyInv h
  have hne : (data == [0]) = false := by simpa using h0
  have hcall : ∃ st', (callOf (mkRec 48) .inBody (.chars data)).run (resetFor ps) = .ok (none, st') ∧
      st'.phase = ps.phase ∧ st'.openElements = ps.openElements ∧
      st'.activeFormattingElements = ps.activeFormattingElements ∧ st'.insertFromTable = ps.insertFromTable ∧
      st'.errors = ps.errors ∧ st'.inBodyDropNewline = ps.inBodyDropNewline ∧
      st'.arena = addChild ps.arena f.id f.node (.text data) [] ∧ st'.tokSwitch = none ∧ st'.document = ps.document := by
    show ∃ st', (runProcess (mkRec 47) .inBody "processCharacters" (.chars data)).run (resetFor ps) = _ ∧ _
    rw [runProcess_inBody_Ch]
    unfold InBody_processCharacters
    have e1 : (Token.chars data).text "InBodyPhase.processCharacters" = .ok data := rfl
    simp only [run_bind, liftExcept_run _ _ _ e1, monadLift_run _ _ _ e1, ok_bind, hne, Bool.false_eq_true, ↓reduceIte,
      hr.reconstruct, insertText_run (resetFor ps) data f.id f.node hr.ift hr.last hr.topNode, get_run]
    cases hfo : (ps.framesetOK && hasNonSpace data) with
    | true =>
      refine ⟨{ resetFor ps with arena := addChild ps.arena f.id f.node (.text data) [], framesetOK := false }, ?_,
        rfl, rfl, rfl, rfl, rfl, rfl, rfl, rfl, rfl⟩
      have : (ps.framesetOK && hasNonSpace data) = true := hfo
      simp only [resetFor, this, ↓reduceIte]
      rfl
    | false =>
      refine ⟨{ resetFor ps with arena := addChild ps.arena f.id f.node (.text data) [] }, ?_,
        rfl, rfl, rfl, rfl, rfl, rfl, rfl, rfl, rfl⟩
      have : (ps.framesetOK && hasNonSpace data) = false := hfo
      simp only [resetFor, this, Bool.false_eq_true, ↓reduceIte]
      rfl
  obtain ⟨st', hc, e1, e2, e3, e4, e5, e6, e7, e8, e9⟩ := hcall
  refine ⟨st', ?_, ?_⟩
  · have := step_of_call ps st' (.chars data) (.chars data) f.id f.node fnm .inBody rfl
      (fun d' hd' => by cases hd') h.phase h.last h.topNode hfk hc
    rw [e8] at this; exact this
  · exact h.addLeaf (.text data) (.text data) (fun n hn a i hi hg hlt => .text hg hn hlt) e1 e2 e3 e4 e5 e6 e7 e9

theorem step_space {ps fs f} (h : BodyInv ps fs f) (data : Str) :
    ∃ ps', TB.step cfg0 ps (.space data) = .ok (ps', none) ∧
      BodyInv ps' fs (withLeaf f ps.arena.nodes.size (.text data)) := by
  obtain ⟨fnm, hfk⟩ := h.topk
  have hr := resetFor_BodyInv h
  let st' : PState := { resetFor ps with arena := addChild ps.arena f.id f.node (.text data) [] }
  have hcall : (callOf (mkRec 48) .inBody (.space data)).run (resetFor ps) = .ok (none, st') := by
    show (runProcess (mkRec 47) .inBody "processSpaceCharacters" (.space data)).run (resetFor ps) = _
    rw [runProcess_inBody_Sp]
    unfold InBody_processSpaceCharacters
    have hd : (resetFor ps).inBodyDropNewline = false := hr.dropNl
    simp only [run_bind, get_run, ok_bind, hd, Bool.false_eq_true, ↓reduceIte]
    unfold InBody_processSpaceCharactersNonPre
    have e1 : (Token.space data).text "InBodyPhase.processSpaceCharactersNonPre" = .ok data := rfl
    simp only [run_bind, liftExcept_run _ _ _ e1, monadLift_run _ _ _ e1, ok_bind,
      hr.reconstruct, insertText_run (resetFor ps) data f.id f.node hr.ift hr.last hr.topNode]
    rfl
  refine ⟨st', ?_, ?_⟩
  · exact step_of_call ps st' (.space data) (.space data) f.id f.node fnm .inBody rfl
      (fun d' hd' => by cases hd') h.phase h.last h.topNode hfk hcall
  · exact h.addLeaf (.text data) (.text data) (fun n hn a i hi hg hlt => .text hg hn hlt) rfl rfl rfl rfl rfl rfl rfl rfl

theorem insertComment_run (st : PState) (data : Str) (cur : Nat) (pn : Node)
    (hp : st.arena.nodes[cur]? = some pn) :
    (insertComment data (some cur)).run st = .ok ((), { st with arena := addChild st.arena cur pn (.comment data) [] }) := by
  have ha := alloc_appendChild st.arena cur pn (.comment data) [] hp
  unfold insertComment
  simp only [run_bind, run_pure, ok_bind, allocNode_run]
  rw [modifyArena_run _ _ _ (by exact ha)]

theorem step_comment {ps fs f} (h : BodyInv ps fs f) (data : Str) :
    ∃ ps', TB.step cfg0 ps (.comment data) = .ok (ps', none) ∧
      BodyInv ps' fs (withLeaf f ps.arena.nodes.size (.comment data)) := by
  obtain ⟨fnm, hfk⟩ := h.topk
  have hr := resetFor_BodyInv h
  let st' : PState := { resetFor ps with arena := addChild ps.arena f.id f.node (.comment data) [] }
  have hcall : (callOf (mkRec 48) .inBody (.comment data)).run (resetFor ps) = .ok (none, st') := by
    show (runProcess (mkRec 47) .inBody "processComment" (.comment data)).run (resetFor ps) = _
    rw [runProcess_inBody_Cm]
    unfold Phase_processComment
    have e1 : (Token.comment data).text "Phase.processComment" = .ok data := rfl
    simp only [run_bind, openLast_run (resetFor ps) _ f.id hr.last, ok_bind, liftExcept_run _ _ _ e1,
      monadLift_run _ _ _ e1, insertComment_run (resetFor ps) data f.id f.node hr.topNode]
    rfl
  refine ⟨st', ?_, ?_⟩
  · exact step_of_call ps st' (.comment data) (.comment data) f.id f.node fnm .inBody rfl
      (fun d' hd' => by cases hd') h.phase h.last h.topNode hfk hcall
  · exact h.addLeaf (.comment data) (.comment data) (fun n hn a i hi hg hlt => .comment hg hn hlt)
      rfl rfl rfl rfl rfl rfl rfl rfl

end H5.Props.C07b
