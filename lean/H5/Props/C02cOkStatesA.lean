/-
  Property C02 "total", clean corollary — per-state preservation of the invariant `Inv`
  (each state method, started in its state with the token shape it expects, succeeds or raises `ValueError`,
  and leaves a state whose expectations are met).
-/
import H5.Props.C02cOkTactics
set_option linter.unusedSimpArgs false
namespace H5.Props.C02c
open H5 H5.Gen H5.Model H5.Model.Tokenizer

theorem dataState_ok (s : St) (hs : s.state = .dataState) (hi : Inv s) :
    OPost (dataState s) (fun r => r.1 = true → Inv r.2) := by
  state_ok_plain dataState

theorem entityDataState_ok (s : St) (hs : s.state = .entityDataState) (hi : Inv s) :
    OPost (entityDataState s) (fun r => r.1 = true → Inv r.2) := by
  state_ok_plain entityDataState

theorem rcdataState_ok (s : St) (hs : s.state = .rcdataState) (hi : Inv s) :
    OPost (rcdataState s) (fun r => r.1 = true → Inv r.2) := by
  state_ok rcdataState

theorem characterReferenceInRcdata_ok (s : St) (hs : s.state = .characterReferenceInRcdata) (hi : Inv s) :
    OPost (characterReferenceInRcdata s) (fun r => r.1 = true → Inv r.2) := by
  state_ok characterReferenceInRcdata

theorem rawtextState_ok (s : St) (hs : s.state = .rawtextState) (hi : Inv s) :
    OPost (rawtextState s) (fun r => r.1 = true → Inv r.2) := by
  state_ok rawtextState

theorem scriptDataState_ok (s : St) (hs : s.state = .scriptDataState) (hi : Inv s) :
    OPost (scriptDataState s) (fun r => r.1 = true → Inv r.2) := by
  state_ok scriptDataState

theorem plaintextState_ok (s : St) (hs : s.state = .plaintextState) (hi : Inv s) :
    OPost (plaintextState s) (fun r => r.1 = true → Inv r.2) := by
  state_ok plaintextState

theorem tagOpenState_ok (s : St) (hs : s.state = .tagOpenState) (hi : Inv s) :
    OPost (tagOpenState s) (fun r => r.1 = true → Inv r.2) := by
  state_ok_plain tagOpenState

theorem closeTagOpenState_ok (s : St) (hs : s.state = .closeTagOpenState) (hi : Inv s) :
    OPost (closeTagOpenState s) (fun r => r.1 = true → Inv r.2) := by
  state_ok_plain closeTagOpenState

theorem tagNameState_ok (s : St) (hs : s.state = .tagNameState) (hi : Inv s) :
    OPost (tagNameState s) (fun r => r.1 = true → Inv r.2) := by
  state_ok tagNameState

theorem rcdataLessThanSignState_ok (s : St) (hs : s.state = .rcdataLessThanSignState) (hi : Inv s) :
    OPost (rcdataLessThanSignState s) (fun r => r.1 = true → Inv r.2) := by
  state_ok rcdataLessThanSignState

theorem rcdataEndTagOpenState_ok (s : St) (hs : s.state = .rcdataEndTagOpenState) (hi : Inv s) :
    OPost (rcdataEndTagOpenState s) (fun r => r.1 = true → Inv r.2) := by
  state_ok_tb rcdataEndTagOpenState

theorem rcdataEndTagNameState_ok (s : St) (hs : s.state = .rcdataEndTagNameState) (hi : Inv s) :
    OPost (rcdataEndTagNameState s) (fun r => r.1 = true → Inv r.2) := by
  state_ok_tb rcdataEndTagNameState

theorem rawtextLessThanSignState_ok (s : St) (hs : s.state = .rawtextLessThanSignState) (hi : Inv s) :
    OPost (rawtextLessThanSignState s) (fun r => r.1 = true → Inv r.2) := by
  state_ok rawtextLessThanSignState

theorem rawtextEndTagOpenState_ok (s : St) (hs : s.state = .rawtextEndTagOpenState) (hi : Inv s) :
    OPost (rawtextEndTagOpenState s) (fun r => r.1 = true → Inv r.2) := by
  state_ok_tb rawtextEndTagOpenState

theorem rawtextEndTagNameState_ok (s : St) (hs : s.state = .rawtextEndTagNameState) (hi : Inv s) :
    OPost (rawtextEndTagNameState s) (fun r => r.1 = true → Inv r.2) := by
  state_ok_tb rawtextEndTagNameState

theorem scriptDataLessThanSignState_ok (s : St) (hs : s.state = .scriptDataLessThanSignState) (hi : Inv s) :
    OPost (scriptDataLessThanSignState s) (fun r => r.1 = true → Inv r.2) := by
  state_ok scriptDataLessThanSignState

theorem scriptDataEndTagOpenState_ok (s : St) (hs : s.state = .scriptDataEndTagOpenState) (hi : Inv s) :
    OPost (scriptDataEndTagOpenState s) (fun r => r.1 = true → Inv r.2) := by
  state_ok_tb scriptDataEndTagOpenState

theorem scriptDataEndTagNameState_ok (s : St) (hs : s.state = .scriptDataEndTagNameState) (hi : Inv s) :
    OPost (scriptDataEndTagNameState s) (fun r => r.1 = true → Inv r.2) := by
  state_ok_tb scriptDataEndTagNameState

theorem scriptDataEscapeStartState_ok (s : St) (hs : s.state = .scriptDataEscapeStartState) (hi : Inv s) :
    OPost (scriptDataEscapeStartState s) (fun r => r.1 = true → Inv r.2) := by
  state_ok scriptDataEscapeStartState

theorem scriptDataEscapeStartDashState_ok (s : St) (hs : s.state = .scriptDataEscapeStartDashState) (hi : Inv s) :
    OPost (scriptDataEscapeStartDashState s) (fun r => r.1 = true → Inv r.2) := by
  state_ok scriptDataEscapeStartDashState

theorem scriptDataEscapedState_ok (s : St) (hs : s.state = .scriptDataEscapedState) (hi : Inv s) :
    OPost (scriptDataEscapedState s) (fun r => r.1 = true → Inv r.2) := by
  state_ok scriptDataEscapedState

end H5.Props.C02c
