/-
  Property C17 — the whitespace filter changes nothing but whitespace.
  Model: H5.Model.Whitespace (hand model tied by correspondence op `ws`; the character class and the
  preserve set are extracted from /repo on every run).
-/
import H5.Model.Whitespace
namespace H5.Props.C17
open H5 H5.Gen H5.Model.Whitespace

/-- TableOK: the class of SPACES_REGEX is exactly the five HTML whitespace characters. -/
theorem C17_class : ∀ c, isWs c = true ↔ c ∈ [9, 10, 12, 13, 32] := by
  intro c
  simp only [isWs, inRanges, wsSpaceClass, List.any_cons, List.any_nil, Bool.or_false, Bool.or_eq_true,
    Bool.and_eq_true, decide_eq_true_eq, List.mem_cons, List.not_mem_nil, or_false]
  omega

/-- TableOK: the preserve set is exactly pre, textarea and the raw-text elements
(iframe noembed noframes noscript pre script style textarea xmp). -/
theorem C17_preserve_set : spacePreserveElements =
    [[105, 102, 114, 97, 109, 101], [110, 111, 101, 109, 98, 101, 100], [110, 111, 102, 114, 97, 109, 101, 115],
     [110, 111, 115, 99, 114, 105, 112, 116], [112, 114, 101], [115, 99, 114, 105, 112, 116], [115, 116, 121, 108, 101],
     [116, 101, 120, 116, 97, 114, 101, 97], [120, 109, 112]] := by decide

/-- characters outside the five (e.g. U+00A0, U+2003) are not whitespace for the filter -/
theorem C17_nonascii (c : Nat) (h : 32 < c) : isWs c = false := by
  cases hc : isWs c with
  | false => rfl
  | true => have := (C17_class c).mp hc; simp at this; omega

theorem isWs_space : isWs 32 = true := by decide

theorem length_dropWhile_le (p : Nat → Bool) (l : List Nat) : (l.dropWhile p).length ≤ l.length := by
  induction l with
  | nil => simp
  | cons a l ih => simp only [List.dropWhile]; split <;> simp <;> omega

/-- reference: drop the whole maximal run, emit one U+0020 -/
def specCollapse (s : Str) : Str :=
  match s with
  | [] => []
  | c :: r =>
    if isWs c then 32 :: specCollapse (r.dropWhile isWs) else c :: specCollapse r
termination_by s.length
decreasing_by
  · have := length_dropWhile_le isWs r
    simp; omega
  · simp

theorem collapse_run (c : Nat) (r : Str) (hc : isWs c = true) :
    collapse (c :: r) = 32 :: collapse (r.dropWhile isWs) := by
  induction r generalizing c with
  | nil => simp [collapse, hc]
  | cons d r ih =>
    by_cases hd : isWs d = true
    · have : collapse (c :: d :: r) = collapse (d :: r) := by simp [collapse, hc, hd]
      rw [this, ih d hd]
      simp [List.dropWhile, hd]
    · simp only [Bool.not_eq_true] at hd
      simp [collapse, hc, hd, List.dropWhile]

/-- **C17 (runs).** within one text token every maximal run of whitespace becomes a single space. -/
theorem C17_collapse_spec (s : Str) : collapse s = specCollapse s := by
  induction h : s.length using Nat.strongRecOn generalizing s with
  | _ n ih =>
    cases s with
    | nil => simp [collapse, specCollapse]
    | cons c r =>
      rw [specCollapse]
      by_cases hc : isWs c = true
      · rw [collapse_run c r hc]
        simp only [hc, if_true]
        congr 1
        have hl := length_dropWhile_le isWs r
        exact ih _ (by simp at h; omega) _ rfl
      · simp only [Bool.not_eq_true] at hc
        simp only [hc]
        have : collapse (c :: r) = c :: collapse r := by simp [collapse, hc]
        rw [this]
        simp
        exact ih _ (by simp at h; omega) _ rfl

/-- non-whitespace characters pass through unchanged and in order -/
theorem C17_collapse_nonws (s : Str) : (collapse s).filter (fun c => !isWs c) = s.filter (fun c => !isWs c) := by
  induction h : s.length using Nat.strongRecOn generalizing s with
  | _ n ih =>
    cases s with
    | nil => simp [collapse]
    | cons c r =>
      by_cases hc : isWs c = true
      · rw [collapse_run c r hc]
        have hl := length_dropWhile_le isWs r
        have := ih _ (by simp at h; omega) (r.dropWhile isWs) rfl
        simp only [List.filter_cons, isWs_space, hc, Bool.not_true, Bool.false_eq_true, if_false]
        rw [this]
        clear this ih h hl
        induction r with
        | nil => simp
        | cons d r ihr =>
          by_cases hd : isWs d = true
          · simp [List.dropWhile, hd, ihr]
          · simp only [Bool.not_eq_true] at hd; simp [List.dropWhile, hd]
      · simp only [Bool.not_eq_true] at hc
        have e : collapse (c :: r) = c :: collapse r := by simp [collapse, hc]
        rw [e]
        simp only [List.filter_cons, hc, Bool.not_false, if_true]
        congr 1
        exact ih _ (by simp at h; omega) r rfl

/-- no two adjacent whitespace characters -/
def NoAdjWs : Str → Prop
  | [] => True
  | [_] => True
  | a :: b :: r => ¬ (isWs a = true ∧ isWs b = true) ∧ NoAdjWs (b :: r)

theorem collapse_fixed (t : Str) (h1 : NoAdjWs t) (h2 : ∀ c ∈ t, isWs c = true → c = 32) : collapse t = t := by
  induction t with
  | nil => rfl
  | cons c r ih =>
    have ihr : collapse r = r := by
      apply ih
      · cases r with
        | nil => trivial
        | cons d r => exact h1.2
      · intro x hx; exact h2 x (List.mem_cons_of_mem _ hx)
    by_cases hc : isWs c = true
    · have c32 := h2 c (List.mem_cons_self) hc
      cases r with
      | nil => simp [collapse, hc, c32]
      | cons d r =>
        have hd : isWs d = false := by
          have := h1.1
          cases hd : isWs d with
          | false => rfl
          | true => exact absurd ⟨hc, hd⟩ this
        simp only [collapse, hc, hd, if_true]
        simp only [collapse, hd] at ihr
        simp [c32]
        simpa using ihr
    · simp only [Bool.not_eq_true] at hc
      have e : collapse (c :: r) = c :: collapse r := by simp [collapse, hc]
      rw [e, ihr]

theorem collapse_ws_is_space (s : Str) : ∀ c ∈ collapse s, isWs c = true → c = 32 := by
  induction h : s.length using Nat.strongRecOn generalizing s with
  | _ n ih =>
    cases s with
    | nil => simp [collapse]
    | cons c r =>
      by_cases hc : isWs c = true
      · rw [collapse_run c r hc]
        have hl := length_dropWhile_le isWs r
        intro x hx hw
        simp at hx
        rcases hx with rfl | hx
        · rfl
        · exact ih _ (by simp at h; omega) _ rfl x hx hw
      · simp only [Bool.not_eq_true] at hc
        have e : collapse (c :: r) = c :: collapse r := by simp [collapse, hc]
        rw [e]
        intro x hx hw
        simp at hx
        rcases hx with rfl | hx
        · rw [hc] at hw; exact absurd hw (by simp)
        · exact ih _ (by simp at h; omega) r rfl x hx hw

theorem head_dropWhile_not (r : Str) : ∀ d r', r.dropWhile isWs = d :: r' → isWs d = false := by
  induction r with
  | nil => simp
  | cons a r ih =>
    intro d r' h
    by_cases ha : isWs a = true
    · simp [List.dropWhile, ha] at h; exact ih d r' h
    · simp only [Bool.not_eq_true] at ha
      simp [List.dropWhile, ha] at h
      rw [← h.1]; exact ha

theorem collapse_head (s : Str) : ∀ d s', s = d :: s' → isWs d = false → ∃ t, collapse s = d :: t := by
  intro d s' h hd
  subst h
  exact ⟨collapse s', by simp [collapse, hd]⟩

theorem collapse_noAdj (s : Str) : NoAdjWs (collapse s) := by
  induction h : s.length using Nat.strongRecOn generalizing s with
  | _ n ih =>
    cases s with
    | nil => simp [collapse, NoAdjWs]
    | cons c r =>
      by_cases hc : isWs c = true
      · rw [collapse_run c r hc]
        have hl := length_dropWhile_le isWs r
        have ihr := ih _ (by simp at h; omega) (r.dropWhile isWs) rfl
        cases hdw : r.dropWhile isWs with
        | nil => simp [collapse, NoAdjWs]
        | cons d r' =>
          have hd := head_dropWhile_not r d r' hdw
          obtain ⟨t, ht⟩ := collapse_head (d :: r') d r' rfl hd
          rw [hdw] at ihr
          rw [ht] at ihr ⊢
          exact ⟨fun ⟨_, h2⟩ => by rw [hd] at h2; exact absurd h2 (by simp), ihr⟩
      · simp only [Bool.not_eq_true] at hc
        have e : collapse (c :: r) = c :: collapse r := by simp [collapse, hc]
        rw [e]
        have ihr := ih _ (by simp at h; omega) r rfl
        cases hcr : collapse r with
        | nil => trivial
        | cons d t =>
          rw [hcr] at ihr
          exact ⟨fun ⟨h1, _⟩ => by rw [hc] at h1; exact absurd h1 (by simp), ihr⟩

theorem C17_collapse_idem (s : Str) : collapse (collapse s) = collapse s :=
  collapse_fixed _ (collapse_noAdj s) (collapse_ws_is_space s)

/-! ### the token loop -/

def eraseText : Tok → Tok
  | .chars _ => .chars []
  | .space _ => .space []
  | t => t

def tokText : Tok → Str
  | .chars s => s
  | .space s => s
  | _ => []

theorem step_shape (p : Nat) (t : Tok) : eraseText (step p t).2 = eraseText t := by
  cases t with
  | startTag ns n a => simp only [step]; split <;> rfl
  | endTag ns n => simp only [step]; split <;> rfl
  | space s => simp only [step]; split <;> rfl
  | chars s => simp only [step]; split <;> rfl
  | _ => rfl

/-- **C17 (shape).** all non-text tokens, the token count and the order are unchanged. -/
theorem C17_shape (ts : List Tok) : (filter ts).map eraseText = ts.map eraseText := by
  unfold filter
  generalize 0 = p
  induction ts generalizing p with
  | nil => rfl
  | cons t rest ih => simp [filterFrom, step_shape, ih]

/-- a `SpaceCharacters` token holds only whitespace (what the walkers emit and `lint` asserts) -/
def SpaceOk : Tok → Prop
  | .space s => ∀ c ∈ s, isWs c = true
  | _ => True

/-- **C17 (non-whitespace untouched).** -/
theorem C17_nonspace (p : Nat) (t : Tok) (hw : SpaceOk t) :
    (tokText (step p t).2).filter (fun c => !isWs c) = (tokText t).filter (fun c => !isWs c) := by
  cases t with
  | startTag ns n a => simp only [step]; split <;> rfl
  | endTag ns n => simp only [step]; split <;> rfl
  | chars s => simp only [step]; split <;> simp [tokText, C17_collapse_nonws]
  | space s =>
    simp only [step]; split
    · simp only [tokText, List.filter_cons, isWs_space, Bool.not_true, Bool.false_eq_true, if_false, List.filter_nil]
      symm
      rw [List.filter_eq_nil_iff]
      intro c hc
      simp [hw c hc]
    · rfl
  | _ => rfl

/-- **C17 (preserve regions).** inside pre/textarea/raw-text elements every token is identical. -/
theorem C17_preserved (p : Nat) (t : Tok) (hp : p ≠ 0) : (step p t).2 = t := by
  cases t with
  | startTag ns n a => simp only [step]; split <;> rfl
  | endTag ns n => simp only [step]; split <;> rfl
  | chars s => simp [step, hp]
  | space s => simp [step, hp]
  | _ => rfl

theorem step_idem (p : Nat) (t : Tok) : step p (step p t).2 = step p t := by
  cases t with
  | startTag ns n a =>
    by_cases h : (¬p = 0 ∨ n ∈ spacePreserveElements) <;> simp [step, h]
  | endTag ns n => by_cases h : p = 0 <;> simp [step, h]
  | chars s => by_cases h : p = 0 <;> simp [step, h, C17_collapse_idem]
  | space s =>
    by_cases h : p = 0
    · by_cases h2 : s = [] <;> simp [step, h, h2]
    · simp [step, h]
  | _ => rfl

/-- **C17 (idempotent).** applying the filter twice equals applying it once. -/
theorem C17_idem (ts : List Tok) : filter (filter ts) = filter ts := by
  unfold filter
  generalize 0 = p
  induction ts generalizing p with
  | nil => rfl
  | cons t rest ih =>
    simp only [filterFrom]
    rw [step_idem]
    simp [ih]

/-- non-vacuity -/
example : collapse [97, 32, 10, 9, 98, 160, 32] = [97, 32, 98, 160, 32] := by decide
example : filter [.startTag none [112] [], .chars [97, 32, 32, 98], .startTag none [112,114,101] [],
                  .chars [32, 32], .endTag none [112,114,101], .space [10, 10]]
        = [.startTag none [112] [], .chars [97, 32, 98], .startTag none [112,114,101] [],
           .chars [32, 32], .endTag none [112,114,101], .space [32]] := by decide

end H5.Props.C17
