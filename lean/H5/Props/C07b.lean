/-
  C07b — serialize then parse is the identity on the documents of the explicit grammar `G0`
  (models: H5.Model.Walker, H5.Model.Serializer, H5.Model.Tokenizer, H5.Model.TreeBuilder, H5.Model.Parser; composed in
  H5.Model.Pipeline).  Optional-tag omission off, default quoting, no sanitizer, no whitespace stripping.
-/
import H5.Props.C07bNoCR
set_option linter.unusedSimpArgs false
set_option linter.unusedVariables false
namespace H5.Props.C07b
open H5 H5.Model H5.Model.Dom H5.Spec
open H5.Props.C08c (tagNameOK startTagOK valueOK startTagText endTagText commentText)

/-- the serializer flags of the statement: `omit_optional_tags=False`, everything else default -/
def noOmit : Pipeline.Flags := { omitOptionalTags := false }

theorem G0_docTree (hd cs : List Tree) : G0 (docTree hd cs) = (headOK hd && okForest commentOKm {} cs) := by
  simp [G0, docTree]

theorem G0_elim {t : Tree} (h : G0 t = true) :
    ∃ hd cs, t = docTree hd cs ∧ headOK hd = true ∧ okForest commentOKm {} cs = true := by
  unfold G0 at h
  split at h
  · simp only [Bool.and_eq_true, beq_iff_eq] at h
    obtain ⟨⟨⟨⟨⟨⟨⟨⟨h1, h2⟩, h3⟩, h4⟩, h5⟩, h6⟩, h7⟩, h8⟩, h9⟩ := h
    subst h1 h2 h3 h4 h5 h6 h7
    exact ⟨_, _, rfl, h8, h9⟩
  · exact absurd h (by simp)

/-- the round trip on a covered document, in full: the serializer writes `serDoc hd cs` and reports nothing; the parser
returns the document and reports nothing -/
theorem roundTrip_doc (hd cs : List Tree) (hhd : headOK hd = true) (hcs : okForest commentOKm {} cs = true) :
    Pipeline.render {} noOmit (docTree hd cs) = .ok (serDoc hd cs, []) ∧
    Parser.parse { namespaceHTMLElements := true }
      (((serDoc hd cs).replaceSub [13, 10] [10]).replaceChar 13 [10]) = .ok (docTree hd cs, []) ∧
    Pipeline.roundTrip {} noOmit (docTree hd cs) = .ok (docTree hd cs, serDoc hd cs, []) := by
  have h1 := render_doc hd cs hhd hcs
  have h2 : Parser.parse { namespaceHTMLElements := true }
      (((serDoc hd cs).replaceSub [13, 10] [10]).replaceChar 13 [10]) = .ok (docTree hd cs, []) := by
    rw [normalise_noCR _ (noCR_doc hd cs hhd hcs)]
    exact parse_doc hd cs hhd hcs
  refine ⟨h1, h2, ?_⟩
  unfold Pipeline.roundTrip
  rw [show Pipeline.render {} noOmit (docTree hd cs) = .ok (serDoc hd cs, []) from h1]
  simp only [ok_bind]
  rw [h2]
  rfl

/-- **C07 (identity).** serialize (optional tags kept), then parse: the document comes back, for every document of `G0` -/
theorem C07_identity (t : Tree) (h : G0 t = true) :
    ∃ out, Pipeline.roundTrip {} noOmit t = .ok (t, out, []) := by
  obtain ⟨hd, cs, rfl, hhd, hcs⟩ := G0_elim h
  exact ⟨serDoc hd cs, (roundTrip_doc hd cs hhd hcs).2.2⟩

/-- **C07 (no errors).** on a document of `G0` neither side reports anything: the serializer's error list is empty and
so is the parser's (`parser.errors`) on the text the serializer wrote -/
theorem C07_no_errors (t : Tree) (h : G0 t = true) :
    ∃ out, Pipeline.render {} noOmit t = .ok (out, []) ∧
      Parser.parse { namespaceHTMLElements := true } ((out.replaceSub [13, 10] [10]).replaceChar 13 [10]) = .ok (t, []) := by
  obtain ⟨hd, cs, rfl, hhd, hcs⟩ := G0_elim h
  exact ⟨serDoc hd cs, (roundTrip_doc hd cs hhd hcs).1, (roundTrip_doc hd cs hhd hcs).2.1⟩

/-! ### non-vacuity: a concrete non-trivial document of `G0` and its computed round trip -/

def el (nm : String) (attrs : List Attr) (cs : List Tree) : Tree := .elem (some htmlNs) (lit nm) attrs cs
def at_ (n v : String) : Attr := { ns := none, name := lit n, value := lit v }

/-- `div` with attributes (one needing quotes and escaping), escaped text, `p` with phrasing content, a void element,
comments, a link with nested formatting elements, a nested block with an empty `p` and an `img`, a heading, nested
lists, `hr`, a definition list, a custom element -/
def exBody : List Tree := [
  el "div" [at_ "class" "a b", at_ "title" "x<y & \"q\""] [
    .text (lit "1 < 2 & 3 > 2 "),
    el "p" [] [.text (lit "para "), el "span" [at_ "id" "s"] [.text (lit "in"), el "br" [] []], .comment (lit " c "),
      el "a" [at_ "href" "http://e/?a=1&b=2"] [el "b" [] [.text (lit "bold "), el "i" [] [.text (lit "it")]]]],
    el "section" [] [el "p" [] [], el "img" [at_ "src" "a.png", at_ "alt" ""] []]],
  .comment (lit "x-y"),
  el "h2" [at_ "id" "h"] [.text (lit "Head "), el "em" [] [.text (lit "ing")]],
  el "ul" [] [el "li" [] [.text (lit "one")], el "li" [] [el "p" [] [.text (lit "two")], el "ol" [] [el "li" [] []]]],
  el "hr" [] [],
  el "dl" [] [el "dt" [] [.text (lit "t")], el "dd" [] [.text (lit "d")]],
  el "x-foo" [] [.text (lit "\n tail")]]

/-- the head of the example: a title whose text needs escaping -/
def exHead : List Tree := [el "title" [] [.text (lit "T & <t>")]]

def exText : Str := lit ("<!DOCTYPE html><html><head><title>T &amp; &lt;t&gt;</title></head><body><div class=\"a b\" title='x<y &amp; \"q\"'>1 &lt; 2 &amp; 3 &gt; 2 " ++
  "<p>para <span id=s>in<br></span><!-- c --><a href=\"http://e/?a=1&amp;b=2\"><b>bold <i>it</i></b></a></p><section><p></p><img src=a.png alt=\"\"></section></div><!--x-y-->" ++
  "<h2 id=h>Head <em>ing</em></h2><ul><li>one</li><li><p>two</p><ol><li></li></ol></li></ul><hr><dl><dt>t</dt><dd>d</dd></dl>" ++
  "<x-foo>\n tail</x-foo></body></html>")

theorem ex_in_G0 : G0 (docTree exHead exBody) = true := by decide +kernel

/-- the text the serializer writes, computed -/
theorem ex_text : serDoc exHead exBody = exText := by decide +kernel

/-- the serializer model evaluated by the kernel on the example (independently of the theorem) -/
theorem ex_render_computed :
    (match Pipeline.render {} noOmit (docTree exHead exBody) with
     | .ok (out, errs) => out == exText && errs.isEmpty
     | .error _ => false) = true := by decide +kernel

/-- the parser model evaluated by the kernel on that text (independently of the theorem): no parse error -/
theorem ex_parse_computed :
    (match Parser.parse { namespaceHTMLElements := true } exText with
     | .ok (_, errs) => errs.isEmpty
     | .error _ => false) = true := by decide +kernel

/-- the round trip of the example, by the theorem: the document comes back, from the text above, with no error -/
theorem ex_roundTrip : Pipeline.roundTrip {} noOmit (docTree exHead exBody) = .ok (docTree exHead exBody, exText, []) := by
  have hg := ex_in_G0
  rw [G0_docTree, Bool.and_eq_true] at hg
  have h := (roundTrip_doc exHead exBody hg.1 hg.2).2.2
  rw [ex_text] at h
  exact h

/-! ### necessity of the hypotheses of `G0` (kernel counter-examples)

Two kinds.  (a) *Same text*: a tree outside `G0` whose serialization is (after the parser's newline normalisation) the text
of a document of `G0`; by the theorem the round trip then returns that other document.  (b) *Reported*: a tree outside
`G0` on which the serializer or the parser (evaluated by the kernel) reports an error. -/

/-- a tree whose text is that of a `G0` document re-parses to that document -/
theorem roundTrip_same_text (t : Tree) (hd cs : List Tree) (hcs : G0 (docTree hd cs) = true) (out : Str)
    (errs : List Str) (hr : Pipeline.render {} noOmit t = .ok (out, errs))
    (hn : (out.replaceSub [13, 10] [10]).replaceChar 13 [10] = serDoc hd cs) :
    Pipeline.roundTrip {} noOmit t = .ok (docTree hd cs, out, errs) := by
  rw [G0_docTree, Bool.and_eq_true] at hcs
  have h2 := (roundTrip_doc hd cs hcs.1 hcs.2).2.1
  rw [normalise_noCR _ (noCR_doc hd cs hcs.1 hcs.2)] at h2
  unfold Pipeline.roundTrip
  rw [hr]
  simp only [ok_bind]
  rw [hn, h2]
  rfl

/-- the serializer's output and errors on a tree, if it is exactly this -/
def rendersTo (t : Tree) (out : Str) (errs : List Str) : Bool :=
  match Pipeline.render {} noOmit t with
  | .ok (o, e) => o == out && e == errs
  | .error _ => false

theorem render_of_rendersTo {t : Tree} {out : Str} {errs : List Str} (h : rendersTo t out errs = true) :
    Pipeline.render {} noOmit t = .ok (out, errs) := by
  unfold rendersTo at h
  split at h
  · rename_i o e heq
    simp only [Bool.and_eq_true, beq_iff_eq] at h
    rw [heq, h.1, h.2]
  · cases h

/-- (a) an EMPTY TEXT node disappears -/
theorem cex_empty_text :
    Pipeline.roundTrip {} noOmit (docTree [] [el "div" [] [.text []]]) = .ok (docTree [] [el "div" [] []], serDoc [] [el "div" [] []], []) ∧
    docTree [] [el "div" [] []] ≠ docTree [] [el "div" [] [.text []]] :=
  ⟨roundTrip_same_text _ [] [el "div" [] []] (by decide +kernel) _ [] (render_of_rendersTo (by decide +kernel)) (by decide +kernel),
   by simp [docTree, el]⟩

/-- (a) ADJACENT TEXT nodes are merged -/
theorem cex_adjacent_text :
    Pipeline.roundTrip {} noOmit (docTree [] [.text (lit "a"), .text (lit "b")]) =
      .ok (docTree [] [.text (lit "ab")], serDoc [] [.text (lit "ab")], []) ∧
    docTree [] [.text (lit "ab")] ≠ docTree [] [.text (lit "a"), .text (lit "b")] :=
  ⟨roundTrip_same_text _ [] [.text (lit "ab")] (by decide +kernel) _ [] (render_of_rendersTo (by decide +kernel)) (by decide +kernel),
   by simp [docTree]⟩

/-- (a) a CR in a text node comes back as LF (it is written as it is, and the input stream normalises newlines) -/
theorem cex_cr_text :
    Pipeline.roundTrip {} noOmit (docTree [] [.text [97, 13, 98]]) =
      .ok (docTree [] [.text [97, 10, 98]], serDoc [] [.text [97, 13, 98]], []) ∧
    docTree [] [.text [97, 10, 98]] ≠ docTree [] [.text [97, 13, 98]] :=
  ⟨roundTrip_same_text _ [] [.text [97, 10, 98]] (by decide +kernel) _ [] (render_of_rendersTo (by decide +kernel)) (by decide +kernel),
   by simp [docTree]⟩

/-- (a) a CR in a comment likewise -/
theorem cex_cr_comment :
    Pipeline.roundTrip {} noOmit (docTree [] [.comment [97, 13, 98]]) =
      .ok (docTree [] [.comment [97, 10, 98]], serDoc [] [.comment [97, 13, 98]], []) ∧
    docTree [] [.comment [97, 10, 98]] ≠ docTree [] [.comment [97, 13, 98]] :=
  ⟨roundTrip_same_text _ [] [.comment [97, 10, 98]] (by decide +kernel) _ [] (render_of_rendersTo (by decide +kernel)) (by decide +kernel),
   by simp [docTree]⟩

/-- (a) the value of a MINIMISED BOOLEAN ATTRIBUTE is dropped (`minimize_boolean_attributes`, default on):
`startTagOK`'s clause "minimised → empty value" -/
theorem cex_boolean_attribute :
    Pipeline.roundTrip {} noOmit (docTree [] [el "div" [at_ "itemscope" "x"] []]) =
      .ok (docTree [] [el "div" [at_ "itemscope" ""] []], serDoc [] [el "div" [at_ "itemscope" ""] []], []) ∧
    docTree [] [el "div" [at_ "itemscope" ""] []] ≠ docTree [] [el "div" [at_ "itemscope" "x"] []] :=
  ⟨roundTrip_same_text _ [] [el "div" [at_ "itemscope" ""] []] (by decide +kernel) _ [] (render_of_rendersTo (by decide +kernel))
     (by decide +kernel),
   by simp [docTree, el, at_, lit]⟩

/-- (a) an element in ANOTHER NAMESPACE (here SVG) with an HTML name is written like the HTML element -/
theorem cex_namespace :
    Pipeline.roundTrip {} noOmit (docTree [] [.elem (some (lit "http://www.w3.org/2000/svg")) (lit "span") [] []]) =
      .ok (docTree [] [el "span" [] []], serDoc [] [el "span" [] []], []) ∧
    docTree [] [el "span" [] []] ≠ docTree [] [.elem (some (lit "http://www.w3.org/2000/svg")) (lit "span") [] []] :=
  ⟨roundTrip_same_text _ [] [el "span" [] []] (by decide +kernel) _ [] (render_of_rendersTo (by decide +kernel)) (by decide +kernel),
   by simp [docTree, el, htmlNs, lit]⟩

/-- (a) an element WITHOUT NAMESPACE comes back in the HTML namespace -/
theorem cex_no_namespace :
    Pipeline.roundTrip {} noOmit (docTree [] [.elem none (lit "span") [] []]) =
      .ok (docTree [] [el "span" [] []], serDoc [] [el "span" [] []], []) ∧
    docTree [] [el "span" [] []] ≠ docTree [] [.elem none (lit "span") [] []] :=
  ⟨roundTrip_same_text _ [] [el "span" [] []] (by decide +kernel) _ [] (render_of_rendersTo (by decide +kernel)) (by decide +kernel),
   by simp [docTree, el]⟩

/-- (a) a NAMESPACED ATTRIBUTE is written with its local name only (`attrsPlain`) -/
theorem cex_attribute_namespace :
    Pipeline.roundTrip {} noOmit
        (docTree [] [el "span" [{ ns := some (lit "http://www.w3.org/1999/xlink"), name := lit "href", value := lit "u" }] []]) =
      .ok (docTree [] [el "span" [at_ "href" "u"] []], serDoc [] [el "span" [at_ "href" "u"] []], []) ∧
    docTree [] [el "span" [at_ "href" "u"] []] ≠
      docTree [] [el "span" [{ ns := some (lit "http://www.w3.org/1999/xlink"), name := lit "href", value := lit "u" }] []] :=
  ⟨roundTrip_same_text _ [] [el "span" [at_ "href" "u"] []] (by decide +kernel) _ [] (render_of_rendersTo (by decide +kernel))
     (by decide +kernel),
   by simp [docTree, el, at_]⟩

/-- (a) the children of a VOID element are not written (and the serializer reports it) -/
theorem cex_void_children :
    Pipeline.roundTrip {} noOmit (docTree [] [el "br" [] [.text (lit "x")]]) =
      .ok (docTree [] [el "br" [] []], serDoc [] [el "br" [] []], [Walker.voidHasChildren]) ∧
    docTree [] [el "br" [] []] ≠ docTree [] [el "br" [] [.text (lit "x")]] :=
  ⟨roundTrip_same_text _ [] [el "br" [] []] (by decide +kernel) _ _ (render_of_rendersTo (by decide +kernel)) (by decide +kernel),
   by simp [docTree, el]⟩

/-- what the serializer and then the parser report on a tree: (serializer errors, parser error codes) are not both empty -/
def reportsSomething (t : Tree) : Bool :=
  match Pipeline.render {} noOmit t with
  | .ok (out, serrs) =>
    !serrs.isEmpty ||
    (match Parser.parse { namespaceHTMLElements := true } ((out.replaceSub [13, 10] [10]).replaceChar 13 [10]) with
     | .ok (_, perrs) => !perrs.isEmpty
     | .error _ => true)
  | .error _ => true

/-- a tree on which something is reported does not satisfy the conclusion of `C07_no_errors` -/
theorem not_no_errors_of_reports {t : Tree} (h : reportsSomething t = true) :
    ¬ ∃ out, Pipeline.render {} noOmit t = .ok (out, []) ∧
      Parser.parse { namespaceHTMLElements := true } ((out.replaceSub [13, 10] [10]).replaceChar 13 [10]) = .ok (t, []) := by
  rintro ⟨out, h1, h2⟩
  unfold reportsSomething at h
  rw [h1] at h
  simp only [List.isEmpty_nil, Bool.not_true, Bool.false_or] at h
  rw [h2] at h
  simp at h

/-- (b) `p` IN `p`: the inner start tag closes the outer `p`, the second `</p>` is an error (`Cat.allowed`) -/
theorem cex_p_in_p : reportsSomething (docTree [] [el "p" [] [el "p" [] []]]) = true := by decide +kernel

/-- (b) a BLOCK element below an open `p`, at any depth (the `inP` flag is inherited through ordinary elements) -/
theorem cex_block_in_p : reportsSomething (docTree [] [el "p" [] [el "span" [] [el "div" [] []]]]) = true := by decide +kernel

/-- (b) `a` IN `a` (`Ctx.allowed` for formatting elements; for `a` the restriction is necessary: the inner start tag
implies `</a>`.  For the other formatting names it is a limit of the proof: html5lib round-trips `<b><b>x</b></b>`) -/
theorem cex_a_in_a : reportsSomething (docTree [] [el "a" [] [el "span" [] [el "a" [] []]]]) = true := by decide +kernel

/-- (b) a HEADING that is the child of a heading (`Ctx.allowed`: the start tag closes the open heading) -/
theorem cex_heading_in_heading : reportsSomething (docTree [] [el "h1" [] [el "h2" [] []]]) = true := by decide +kernel

/-- (b) `hr` below an open `p` (`Ctx.voidAllowed`) -/
theorem cex_hr_in_p : reportsSomething (docTree [] [el "p" [] [el "hr" [] []]]) = true := by decide +kernel

/-- (b) a comment ENDING IN A DASH: `<!--a--->` is a parse error for html5lib's tokenizer (`commentOKm` vs C08c's `commentOK`) -/
theorem cex_comment_dash : reportsSomething (docTree [] [.comment (lit "a-")]) = true := by decide +kernel

/-- (b) a comment containing `--` (serializer: "Comment contains --") -/
theorem cex_comment_dashdash : reportsSomething (docTree [] [.comment (lit "a--b")]) = true := by decide +kernel

/-- (b) a comment starting with `>` -/
theorem cex_comment_gt : reportsSomething (docTree [] [.comment (lit ">x")]) = true := by decide +kernel

/-- (b) NUL in a text node -/
theorem cex_nul_text : reportsSomething (docTree [] [.text [97, 0, 98]]) = true := by decide +kernel

/-- (b) two attributes with the same name (`namesDistinct`) -/
theorem cex_duplicate_attribute :
    reportsSomething (docTree [] [el "span" [at_ "id" "a", at_ "id" "b"] []]) = true := by decide +kernel

/-- the seven trees above are outside `G0` (as they must be) -/
theorem cex_outside_G0 :
    G0 (docTree [] [el "p" [] [el "p" [] []]]) = false ∧ G0 (docTree [] [el "p" [] [el "span" [] [el "div" [] []]]]) = false ∧
    G0 (docTree [] [.comment (lit "a-")]) = false ∧ G0 (docTree [] [.comment (lit "a--b")]) = false ∧
    G0 (docTree [] [.comment (lit ">x")]) = false ∧ G0 (docTree [] [.text [97, 0, 98]]) = false ∧
    G0 (docTree [] [el "span" [at_ "id" "a", at_ "id" "b"] []]) = false ∧
    G0 (docTree [] [el "div" [] [.text []]]) = false ∧ G0 (docTree [] [.text (lit "a"), .text (lit "b")]) = false ∧
    G0 (docTree [] [.text [97, 13, 98]]) = false ∧ G0 (docTree [] [el "div" [at_ "itemscope" "x"] []]) = false ∧
    G0 (docTree [] [el "br" [] [.text (lit "x")]]) = false ∧
    G0 (docTree [] [el "a" [] [el "span" [] [el "a" [] []]]]) = false ∧
    G0 (docTree [] [el "h1" [] [el "h2" [] []]]) = false ∧ G0 (docTree [] [el "p" [] [el "hr" [] []]]) = false := by
  decide +kernel

end H5.Props.C07b
