/-
  Property C13 (part b) — what the optional-tags filter does on the windows where omission is allowed.
  `H5.Props.C13` proves the soundness direction (only allowed tags are removed).  Here:
   1. the translated if-chains `isOptionalEnd` / `isOptionalStart` EQUAL readable closed-form predicates
      `omitsEnd` / `omitsStart` (written from the comments of `filters/optionaltags.py`), for all arguments;
   2. the output of the filter is, index by index, the input without exactly the tokens whose window satisfies them;
   3. the filter is NOT idempotent (removing a start tag can expose a new neighbour to a kept end tag).
  The proofs only unfold the generated definitions, so they survive a regeneration with identical text.
-/
import H5.Props.C13
namespace H5.Props.C13b
open H5 H5.Gen H5.Model.OptionalTags H5.Props.C13

/-! ### element names (code points) -/
namespace N
def html : Str := [104, 116, 109, 108]
def head : Str := [104, 101, 97, 100]
def body : Str := [98, 111, 100, 121]
def li : Str := [108, 105]
def optgroup : Str := [111, 112, 116, 103, 114, 111, 117, 112]
def option : Str := [111, 112, 116, 105, 111, 110]
def tr : Str := [116, 114]
def dt : Str := [100, 116]
def dd : Str := [100, 100]
def p : Str := [112]
def rt : Str := [114, 116]
def rp : Str := [114, 112]
def colgroup : Str := [99, 111, 108, 103, 114, 111, 117, 112]
def col : Str := [99, 111, 108]
def thead : Str := [116, 104, 101, 97, 100]
def tbody : Str := [116, 98, 111, 100, 121]
def tfoot : Str := [116, 102, 111, 111, 116]
def td : Str := [116, 100]
def th : Str := [116, 104]
def script : Str := [115, 99, 114, 105, 112, 116]
def style : Str := [115, 116, 121, 108, 101]
def metaE : Str := [109, 101, 116, 97]
def link : Str := [108, 105, 110, 107]
def template : Str := [116, 101, 109, 112, 108, 97, 116, 101]
end N

/-- parents at whose end `</p>` must stay (a, audio, del, ins, map, noscript, video) -/
def pParents : List Str := [[97], [97, 117, 100, 105, 111], [100, 101, 108], [105, 110, 115], [109, 97, 112],
  [110, 111, 115, 99, 114, 105, 112, 116], [118, 105, 100, 101, 111]]

/-- the block-level names after which html5lib omits `</p>` (optionaltags.py lines 132-137; note the obsolete
`datagrid`, `dialog`, `dir`, and no `details`/`figure`/`main`…: the recorded deviations of C13) -/
def pFollowers : List Str := [
  [97, 100, 100, 114, 101, 115, 115] /- address -/, [97, 114, 116, 105, 99, 108, 101] /- article -/,
  [97, 115, 105, 100, 101] /- aside -/, [98, 108, 111, 99, 107, 113, 117, 111, 116, 101] /- blockquote -/,
  [100, 97, 116, 97, 103, 114, 105, 100] /- datagrid -/, [100, 105, 97, 108, 111, 103] /- dialog -/,
  [100, 105, 114] /- dir -/, [100, 105, 118] /- div -/, [100, 108] /- dl -/,
  [102, 105, 101, 108, 100, 115, 101, 116] /- fieldset -/, [102, 111, 111, 116, 101, 114] /- footer -/,
  [102, 111, 114, 109] /- form -/, [104, 49], [104, 50], [104, 51], [104, 52], [104, 53], [104, 54] /- h1-h6 -/,
  [104, 101, 97, 100, 101, 114] /- header -/, [104, 114] /- hr -/, [109, 101, 110, 117] /- menu -/,
  [110, 97, 118] /- nav -/, [111, 108] /- ol -/, [112] /- p -/, [112, 114, 101] /- pre -/,
  [115, 101, 99, 116, 105, 111, 110] /- section -/, [116, 97, 98, 108, 101] /- table -/, [117, 108] /- ul -/]

/-! ### what the next / previous token is -/

/-- the next token is a `StartTag` (NOT an `EmptyTag`) whose name is in `names` -/
def nextStart (x : Option Tok) (names : List Str) : Bool :=
  match x with | some (.startTag _ m _) => names.elem m | _ => false

/-- the next token is a `StartTag` or an `EmptyTag` whose name is in `names` -/
def nextStartOrEmpty (x : Option Tok) (names : List Str) : Bool :=
  match x with | some (.startTag _ m _) | some (.emptyTag _ m _) => names.elem m | _ => false

/-- the next token is a `StartTag` or an `EmptyTag` -/
def nextIsElement (x : Option Tok) : Bool :=
  match x with | some (.startTag ..) | some (.emptyTag ..) => true | _ => false

/-- the next token is an `EndTag` whose name is in `names` -/
def nextEnd (x : Option Tok) (names : List Str) : Bool :=
  match x with | some (.endTag _ m) => names.elem m | _ => false

/-- the next token is a `Comment` or a `SpaceCharacters` token -/
def nextSpaceOrComment (x : Option Tok) : Bool :=
  match x with | some (.comment _) | some (.space _) => true | _ => false

/-- "there is no more content in the parent element": the next token is an `EndTag` or the stream ends -/
def noMore (x : Option Tok) : Bool :=
  match x with | none => true | some (.endTag ..) => true | _ => false

/-- the previous token is an `EndTag` whose name is in `names` -/
def prevEnd (p : Option Tok) (names : List Str) : Bool :=
  match p with | some (.endTag _ m) => names.elem m | _ => false

/-! ### 1. the rules html5lib implements, in closed form -/

/-- `is_optional_end(tagname, next)` read off the comments of optionaltags.py lines 90-206 -/
def omitsEnd (n : Str) (x : Option Tok) : Bool :=
  -- html, head, body: not immediately followed by a space character or a comment
  if n = N.html ∨ n = N.head ∨ n = N.body then !nextSpaceOrComment x
  -- li, optgroup, tr: followed by another element of the same name, or no more content in the parent
  else if n = N.li ∨ n = N.optgroup ∨ n = N.tr then nextStart x [n] || noMore x
  -- dt: followed by a dt or dd element
  else if n = N.dt then nextStart x [N.dt, N.dd]
  -- dd: followed by a dd or dt element, or no more content
  else if n = N.dd then nextStart x [N.dt, N.dd] || noMore x
  -- p: followed by one of the block elements (start OR empty tag, e.g. <hr>), or no more content in a parent that is
  -- not an a, audio, del, ins, map, noscript or video element (the end tag that follows names the parent)
  else if n = N.p then nextStartOrEmpty x pFollowers || (noMore x && !nextEnd x pParents)
  -- option: followed by an option or optgroup element, or no more content
  else if n = N.option then nextStart x [N.option, N.optgroup] || noMore x
  -- rt, rp: followed by an rt or rp element, or no more content
  else if n = N.rt ∨ n = N.rp then nextStart x [N.rt, N.rp] || noMore x
  -- colgroup: not followed by a space character or a comment — XXX and not by another colgroup start tag
  else if n = N.colgroup then !nextSpaceOrComment x && !nextStart x [N.colgroup]
  -- thead: followed by a tbody or tfoot element
  else if n = N.thead then nextStart x [N.tbody, N.tfoot]
  -- tbody: followed by a tbody or tfoot element, or no more content
  else if n = N.tbody then nextStart x [N.tbody, N.tfoot] || noMore x
  -- tfoot: followed by a tbody element, or no more content
  else if n = N.tfoot then nextStart x [N.tbody] || noMore x
  -- td, th: followed by a td or th element, or no more content
  else if n = N.td ∨ n = N.th then nextStart x [N.td, N.th] || noMore x
  else false

/-- `is_optional_start(tagname, previous, next)` read off the comments of optionaltags.py lines 31-88 -/
def omitsStart (n : Str) (p x : Option Tok) : Bool :=
  -- html: the first thing inside is not a space character or a comment
  if n = N.html then !nextSpaceOrComment x
  -- head: the first thing inside is an element — XXX or the head element is empty (`</head>` follows)
  else if n = N.head then nextIsElement x || nextEnd x [N.head]
  -- body: the first thing inside is not a space character or a comment — XXX and never an element that would be put
  -- into head (meta, link, script, style, template; start or empty tag)
  else if n = N.body then !nextSpaceOrComment x && !nextStartOrEmpty x [N.metaE, N.link, N.script, N.style, N.template]
  -- colgroup: the first thing inside is a col element (the "not preceded by a colgroup whose end tag was omitted"
  -- side condition is handled in `omitsEnd colgroup`)
  else if n = N.colgroup then nextStartOrEmpty x [N.col]
  -- tbody: the first thing inside is a tr START tag, and the previous token is not a tbody/thead/tfoot end tag
  else if n = N.tbody then nextStart x [N.tr] && !prevEnd p [N.tbody, N.thead, N.tfoot]
  else false

theorem names_eq : N.html = [104, 116, 109, 108] ∧ N.head = [104, 101, 97, 100] ∧ N.body = [98, 111, 100, 121] ∧
    N.li = [108, 105] ∧ N.optgroup = [111, 112, 116, 103, 114, 111, 117, 112] ∧ N.option = [111, 112, 116, 105, 111, 110] ∧
    N.tr = [116, 114] ∧ N.dt = [100, 116] ∧ N.dd = [100, 100] ∧ N.p = [112] ∧ N.rt = [114, 116] ∧ N.rp = [114, 112] ∧
    N.colgroup = [99, 111, 108, 103, 114, 111, 117, 112] ∧ N.col = [99, 111, 108] ∧ N.thead = [116, 104, 101, 97, 100] ∧
    N.tbody = [116, 98, 111, 100, 121] ∧ N.tfoot = [116, 102, 111, 111, 116] ∧ N.td = [116, 100] ∧ N.th = [116, 104] ∧
    N.script = [115, 99, 114, 105, 112, 116] ∧ N.style = [115, 116, 121, 108, 101] := by
  refine ⟨rfl, rfl, rfl, rfl, rfl, rfl, rfl, rfl, rfl, rfl, rfl, rfl, rfl, rfl, rfl, rfl, rfl, rfl, rfl, rfl, rfl⟩


theorem beq_dec (a b : Str) : (a == b) = decide (a = b) := by by_cases h : a = b <;> simp [h]

/-- **C13 (completeness, end tags).** the translated if-chain IS the readable rule table: for every tag name and
every next token (or none), `is_optional_end` returns — never raises — exactly `omitsEnd`.  So the windows in which
each of the 18 end tags is removed are exactly those listed in `omitsEnd`, and no other end tag is ever removed. -/
theorem C13_completeness_end (n : Str) (x : Option Tok) : isOptionalEnd n x = .ok (omitsEnd n x) := by
  by_cases hn : n ∈ endNames
  · simp only [endNames, List.mem_cons, List.not_mem_nil, or_false] at hn
    rcases hn with rfl | rfl | rfl | rfl | rfl | rfl | rfl | rfl | rfl | rfl | rfl | rfl | rfl | rfl | rfl | rfl | rfl | rfl <;>
      (rcases x with _ | x
       · decide
       · cases x <;>
          simp [isOptionalEnd, omitsEnd, N.html, N.head, N.body, N.li, N.optgroup, N.option, N.tr, N.dt, N.dd, N.p, N.rt,
            N.rp, N.colgroup, N.thead, N.tbody, N.tfoot, N.td, N.th, otokType, otokName, Tok.typeName, Tok.nameE,
            nextStart, nextStartOrEmpty, nextSpaceOrComment, noMore, nextEnd, pParents, pFollowers] <;>
          (first | exact beq_dec _ _ | simp [beq_dec] | grind))
  · simp [endNames] at hn
    simp [isOptionalEnd, omitsEnd, N.html, N.head, N.body, N.li, N.optgroup, N.option, N.tr, N.dt, N.dd, N.p, N.rt, N.rp,
      N.colgroup, N.thead, N.tbody, N.tfoot, N.td, N.th, hn]

/-- **C13 (completeness, start tags).** `is_optional_start` returns exactly `omitsStart`, for every name, previous
and next token. -/
theorem C13_completeness_start (n : Str) (p x : Option Tok) : isOptionalStart n p x = .ok (omitsStart n p x) := by
  by_cases hn : n ∈ startNames
  · simp only [startNames, List.mem_cons, List.not_mem_nil, or_false] at hn
    rcases hn with rfl | rfl | rfl | rfl | rfl <;>
      (rcases x with _ | x
       · simp [isOptionalStart, omitsStart, N.html, N.head, N.body, N.colgroup, N.tbody, otokType,
            nextStart, nextStartOrEmpty, nextSpaceOrComment, nextIsElement, nextEnd]
       · cases x <;>
          simp [isOptionalStart, omitsStart, N.html, N.head, N.body, N.colgroup, N.col, N.tbody, N.thead, N.tfoot, N.tr,
            N.script, N.style, N.metaE, N.link, N.template, otokType, otokName, Tok.typeName, Tok.nameE,
            nextStart, nextStartOrEmpty, nextSpaceOrComment, nextIsElement, nextEnd, prevEnd] <;>
          (try exact beq_dec _ _) <;> (try (simp [beq_dec]; done)) <;>
          (rcases p with _ | pt
           · simp [beq_dec]
           · cases pt <;> simp [otokTypeE, Tok.typeName, beq_dec] <;> split <;> simp_all <;> grind))
  · simp [startNames] at hn
    simp [isOptionalStart, omitsStart, N.html, N.head, N.body, N.colgroup, N.tbody, hn]

/-- the iff forms: the converse of `C13_position_end/start` for the rules html5lib implements -/
theorem C13_completeness_end_iff (n : Str) (x : Option Tok) : isOptionalEnd n x = .ok true ↔ omitsEnd n x = true := by
  rw [C13_completeness_end]; simp
theorem C13_completeness_start_iff (n : Str) (p x : Option Tok) :
    isOptionalStart n p x = .ok true ↔ omitsStart n p x = true := by
  rw [C13_completeness_start]; simp

/-- the closed forms mention only the names of `endNames` / `startNames` -/
theorem omitsEnd_names (n : Str) (x : Option Tok) (h : omitsEnd n x = true) : n ∈ endNames :=
  C13_end_names n x ((C13_completeness_end_iff n x).mpr h)
theorem omitsStart_names (n : Str) (p x : Option Tok) (h : omitsStart n p x = true) : n ∈ startNames :=
  C13_start_names n p x ((C13_completeness_start_iff n p x).mpr h)

/-! ### 2. the filter, window by window -/

/-- is the token `t` with neighbours `p` (previous) and `x` (next) removed?  `Filter.__iter__` lines 19-29: a start
tag only when it has no attributes (`token["data"]` is falsy) -/
def omitsTok (p : Option Tok) (t : Tok) (x : Option Tok) : Bool :=
  match t with
  | .startTag _ n [] => omitsStart n p x
  | .endTag _ n => omitsEnd n x
  | _ => false

theorem keep_eq (p : Option Tok) (t : Tok) (x : Option Tok) : keep p t x = .ok (!omitsTok p t x) := by
  cases t with
  | startTag ns n attrs =>
    cases attrs with
    | nil => simp [keep, omitsTok, C13_completeness_start]
    | cons a as => simp [keep, omitsTok]
  | endTag ns n => simp [keep, omitsTok, C13_completeness_end]
  | _ => simp [keep, omitsTok]

theorem filterW_eq (ws : List (Option Tok × Tok × Option Tok)) :
    filterW ws = .ok (ws.filterMap fun w => if omitsTok w.1 w.2.1 w.2.2 then none else some w.2.1) := by
  induction ws with
  | nil => rfl
  | cons w rest ih =>
    obtain ⟨p, t, x⟩ := w
    simp only [filterW, keep_eq, ih]
    cases h : omitsTok p t x <;> simp [h]

/-- the previous token of position `i` (`None` for the first token) -/
def prevTok (ts : List Tok) (i : Nat) : Option Tok := if i = 0 then none else ts[i - 1]?

/-- `slider` yields at position `i` the window `(t_{i-1}, t_i, t_{i+1})`, with `None` beyond both ends -/
theorem sliderFrom_getElem? (prev : Option Tok) (ts : List Tok) (i : Nat) :
    (sliderFrom prev ts)[i]? = ts[i]?.map fun t => (if i = 0 then prev else ts[i - 1]?, t, ts[i + 1]?) := by
  induction ts generalizing prev i with
  | nil => simp [sliderFrom]
  | cons t rest ih =>
    cases rest with
    | nil => cases i <;> simp [sliderFrom]
    | cons u rest =>
      cases i with
      | zero => simp [sliderFrom]
      | succ j =>
        simp only [sliderFrom, List.getElem?_cons_succ, ih]
        cases j with
        | zero => simp
        | succ k => simp

theorem slider_eq (ts : List Tok) :
    slider ts = ts.zipIdx.map fun ti => (prevTok ts ti.2, ti.1, ts[ti.2 + 1]?) := by
  apply List.ext_getElem?
  intro i
  rw [slider, sliderFrom_getElem?]
  simp [List.getElem?_zipIdx, prevTok]
  cases ts[i]? <;> simp

/-- **C13 (filter characterisation).** the filter never raises, and its output is the input from which exactly the
tokens `t_i` are removed whose window `(t_{i-1}, t_i, t_{i+1})` satisfies the closed-form rules
(`omitsStart` for an attribute-less start tag, `omitsEnd` for an end tag); all other tokens stay, in order. -/
theorem C13_filter_characterisation (ts : List Tok) :
    filter ts = .ok (ts.zipIdx.filterMap fun ti =>
      if omitsTok (prevTok ts ti.2) ti.1 ts[ti.2 + 1]? then none else some ti.1) := by
  rw [filter, filterW_eq, slider_eq, List.filterMap_map]
  rfl

/-- membership form: a token is in the output iff it sits at some position of the input whose window does not
satisfy the omission rules -/
theorem C13_filter_mem (ts out : List Tok) (h : filter ts = .ok out) (t : Tok) :
    t ∈ out ↔ ∃ i, ts[i]? = some t ∧ omitsTok (prevTok ts i) t ts[i + 1]? = false := by
  rw [C13_filter_characterisation] at h
  injection h with h
  subst h
  simp only [List.mem_filterMap]
  constructor
  · rintro ⟨⟨t', i⟩, hm, hk⟩
    have := List.mem_zipIdx hm
    simp only [Nat.zero_add] at this
    by_cases ho : omitsTok (prevTok ts i) t' ts[i + 1]? = true
    · simp [ho] at hk
    · simp only [Bool.not_eq_true] at ho
      simp [ho] at hk
      subst hk
      refine ⟨i, ?_, ho⟩
      obtain ⟨-, hlt, heq⟩ := this
      simp at heq
      rw [List.getElem?_eq_getElem hlt, heq]
  · rintro ⟨i, hi, ho⟩
    refine ⟨(t, i), ?_, by simp [ho]⟩
    rw [List.mem_iff_getElem?]
    exact ⟨i, by simp [List.getElem?_zipIdx, hi]⟩

/-- number of removed tokens = number of windows satisfying the rules -/
theorem C13_filter_length (ts out : List Tok) (h : filter ts = .ok out) :
    out.length + (ts.zipIdx.countP fun ti => omitsTok (prevTok ts ti.2) ti.1 ts[ti.2 + 1]?) = ts.length := by
  rw [C13_filter_characterisation] at h
  injection h with h
  subst h
  have : ∀ (l : List (Tok × Nat)) (f : Tok × Nat → Bool),
      (l.filterMap fun ti => if f ti then none else some ti.1).length + l.countP f = l.length := by
    intro l f
    induction l with
    | nil => rfl
    | cons a l ih =>
      cases hf : f a <;> simp [hf] <;> omega
  have := this ts.zipIdx (fun ti => omitsTok (prevTok ts ti.2) ti.1 ts[ti.2 + 1]?)
  simpa using this

/-! ### 3. idempotence fails -/

/-- **C13 (idempotence): FALSE.**  `filter (filter ts) ≠ filter ts` in general: a kept end tag can get a new next
neighbour when the start tag after it is removed.  Realistic witness, two column groups
`<colgroup><col></colgroup><colgroup><col></colgroup></table>` (walker tokens, `col` is an EmptyTag):
 pass 1 keeps the first `</colgroup>` (a `colgroup` start tag follows: the "XXX" rule) and removes the second
 `<colgroup>` (a `col` follows);  pass 2 now sees `</colgroup>` followed by `<col>` and removes it too — the two
 column groups have become one (the serialisation after pass 1 still parses to two groups, after pass 2 to one).
 Minimal witness: `</li><html></ul>` → `</li></ul>` → `</ul>`. -/
theorem C13_idempotent_witness :
    (filter [.startTag none N.colgroup [], .emptyTag none N.col [], .endTag none N.colgroup,
             .startTag none N.colgroup [], .emptyTag none N.col [], .endTag none N.colgroup,
             .endTag none [116, 97, 98, 108, 101]]
      = .ok [.emptyTag none N.col [], .endTag none N.colgroup, .emptyTag none N.col [],
             .endTag none [116, 97, 98, 108, 101]]) ∧
    (filter [.emptyTag none N.col [], .endTag none N.colgroup, .emptyTag none N.col [],
             .endTag none [116, 97, 98, 108, 101]]
      = .ok [.emptyTag none N.col [], .emptyTag none N.col [], .endTag none [116, 97, 98, 108, 101]]) ∧
    (filter [.endTag none N.li, .startTag none N.html [], .endTag none [117, 108]]
      = .ok [.endTag none N.li, .endTag none [117, 108]]) ∧
    (filter [.endTag none N.li, .endTag none [117, 108]] = .ok [.endTag none [117, 108]]) := by decide

/-- … hence no idempotence law: there is a stream on which a second pass removes more -/
theorem C13_not_idempotent : ∃ ts o1 o2, filter ts = .ok o1 ∧ filter o1 = .ok o2 ∧ o2 ≠ o1 :=
  ⟨_, _, _, C13_idempotent_witness.2.2.1, C13_idempotent_witness.2.2.2, by decide⟩

/-- what does hold: a second pass can only remove further `Removable` tokens (from `C13_only_removes`) -/
theorem C13_second_pass (ts o1 o2 : List Tok) (h1 : filter ts = .ok o1) (h2 : filter o1 = .ok o2) :
    o2.Sublist o1 ∧ o1.Sublist ts := ⟨C13_sublist o1 o2 h2, C13_sublist ts o1 h1⟩

/-! ### sanity / non-vacuity -/

example : omitsEnd N.p (some (.emptyTag none [104, 114] [])) = true := by decide          -- </p><hr>
example : omitsEnd N.li (some (.emptyTag none N.li [])) = false := by decide               -- only a START tag counts
example : omitsEnd N.colgroup (some (.startTag none N.colgroup [])) = false := by decide   -- the XXX rule
example : omitsEnd N.thead none = false := by decide
example : omitsEnd [120] none = false := by decide
example : omitsStart N.tbody (some (.endTag none N.thead)) (some (.startTag none N.tr [])) = false := by decide
example : omitsStart N.tbody none (some (.startTag none N.tr [])) = true := by decide
example : omitsStart N.head none (some (.endTag none N.head)) = true := by decide           -- empty head
example : omitsStart N.body none (some (.startTag none N.script [])) = false := by decide
example : omitsStart N.body none (some (.emptyTag none N.metaE [])) = false := by decide

end H5.Props.C13b
