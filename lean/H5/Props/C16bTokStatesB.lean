/-
  Property C16b, tokenizer part — the state methods never fail with `ParseError` (part B; one instance per state method,
  all by `unfold f; pp_auto`).
-/
import H5.Props.C16bTokHelpers
set_option linter.unusedSimpArgs false
set_option linter.unusedVariables false
namespace H5.Props.C16b
open H5 H5.Gen H5.Model H5.Model.Tokenizer

instance PP_attributeNameState (s : St) : PP (attributeNameState s) := by unfold attributeNameState; pp_auto
instance PP_afterAttributeNameState (s : St) : PP (afterAttributeNameState s) := by unfold afterAttributeNameState; pp_auto
instance PP_beforeAttributeValueState (s : St) : PP (beforeAttributeValueState s) := by unfold beforeAttributeValueState; pp_auto
instance PP_attributeValueDoubleQuotedState (s : St) : PP (attributeValueDoubleQuotedState s) := by unfold attributeValueDoubleQuotedState; pp_auto
instance PP_attributeValueSingleQuotedState (s : St) : PP (attributeValueSingleQuotedState s) := by unfold attributeValueSingleQuotedState; pp_auto
instance PP_attributeValueUnQuotedState (s : St) : PP (attributeValueUnQuotedState s) := by unfold attributeValueUnQuotedState; pp_auto
instance PP_afterAttributeValueState (s : St) : PP (afterAttributeValueState s) := by unfold afterAttributeValueState; pp_auto
instance PP_selfClosingStartTagState (s : St) : PP (selfClosingStartTagState s) := by unfold selfClosingStartTagState; pp_auto
instance PP_bogusCommentState (s : St) : PP (bogusCommentState s) := by unfold bogusCommentState; pp_auto
instance PP_markupDeclarationOpenState (s : St) : PP (markupDeclarationOpenState s) := by unfold markupDeclarationOpenState; pp_auto
instance PP_commentStartState (s : St) : PP (commentStartState s) := by unfold commentStartState; pp_auto
instance PP_commentStartDashState (s : St) : PP (commentStartDashState s) := by unfold commentStartDashState; pp_auto
instance PP_commentState (s : St) : PP (commentState s) := by unfold commentState; pp_auto
instance PP_commentEndDashState (s : St) : PP (commentEndDashState s) := by unfold commentEndDashState; pp_auto
instance PP_commentEndState (s : St) : PP (commentEndState s) := by unfold commentEndState; pp_auto
instance PP_commentEndBangState (s : St) : PP (commentEndBangState s) := by unfold commentEndBangState; pp_auto
instance PP_doctypeState (s : St) : PP (doctypeState s) := by unfold doctypeState; pp_auto
instance PP_beforeDoctypeNameState (s : St) : PP (beforeDoctypeNameState s) := by unfold beforeDoctypeNameState; pp_auto
instance PP_doctypeNameState (s : St) : PP (doctypeNameState s) := by unfold doctypeNameState; pp_auto
instance PP_afterDoctypeNameState (s : St) : PP (afterDoctypeNameState s) := by unfold afterDoctypeNameState; pp_auto
instance PP_afterDoctypePublicKeywordState (s : St) : PP (afterDoctypePublicKeywordState s) := by unfold afterDoctypePublicKeywordState; pp_auto
instance PP_beforeDoctypePublicIdentifierState (s : St) : PP (beforeDoctypePublicIdentifierState s) := by unfold beforeDoctypePublicIdentifierState; pp_auto
instance PP_doctypePublicIdentifierDoubleQuotedState (s : St) : PP (doctypePublicIdentifierDoubleQuotedState s) := by unfold doctypePublicIdentifierDoubleQuotedState; pp_auto
instance PP_doctypePublicIdentifierSingleQuotedState (s : St) : PP (doctypePublicIdentifierSingleQuotedState s) := by unfold doctypePublicIdentifierSingleQuotedState; pp_auto
instance PP_afterDoctypePublicIdentifierState (s : St) : PP (afterDoctypePublicIdentifierState s) := by unfold afterDoctypePublicIdentifierState; pp_auto
instance PP_betweenDoctypePublicAndSystemIdentifiersState (s : St) : PP (betweenDoctypePublicAndSystemIdentifiersState s) := by unfold betweenDoctypePublicAndSystemIdentifiersState; pp_auto
instance PP_afterDoctypeSystemKeywordState (s : St) : PP (afterDoctypeSystemKeywordState s) := by unfold afterDoctypeSystemKeywordState; pp_auto
instance PP_beforeDoctypeSystemIdentifierState (s : St) : PP (beforeDoctypeSystemIdentifierState s) := by unfold beforeDoctypeSystemIdentifierState; pp_auto
instance PP_doctypeSystemIdentifierDoubleQuotedState (s : St) : PP (doctypeSystemIdentifierDoubleQuotedState s) := by unfold doctypeSystemIdentifierDoubleQuotedState; pp_auto
instance PP_doctypeSystemIdentifierSingleQuotedState (s : St) : PP (doctypeSystemIdentifierSingleQuotedState s) := by unfold doctypeSystemIdentifierSingleQuotedState; pp_auto
instance PP_afterDoctypeSystemIdentifierState (s : St) : PP (afterDoctypeSystemIdentifierState s) := by unfold afterDoctypeSystemIdentifierState; pp_auto
instance PP_bogusDoctypeState (s : St) : PP (bogusDoctypeState s) := by unfold bogusDoctypeState; pp_auto
instance PP_cdataSectionState (s : St) : PP (cdataSectionState s) := by unfold cdataSectionState; pp_auto

end H5.Props.C16b
