/-
  C01b — one token through the SPECIFICATION's dispatcher, and the step lemmas of the "in body" insertion mode:
  characters, comments, "any other" start / end tags.
-/
import H5.Props.C01bEvents
set_option linter.unusedSimpArgs false
set_option linter.unusedVariables false
namespace H5.Props.C01b
open H5 H5.Spec.TC
open H5.Props.C07b (fmtName fmtNames)

theorem adjustedCurrentNode_run (s : St) (c : Nat) (rest : List Nat) (hc : s.context = none) (hs : s.stack = c :: rest) :
    adjustedCurrentNode.run s = .ok (some c, s) := by
  unfold adjustedCurrentNode
  simp only [run_bind, get_run, ok_bind, hc, hs]
  rfl

theorem useHtmlRules_run (s : St) (t : Token) (c : Nat) (rest : List Nat) (n : Node) (nm attrs)
    (hc : s.context = none) (hs : s.stack = c :: rest) (hn : s.arena[c]? = some n)
    (hk : n.kind = .element .html nm attrs) : (useHtmlRules t).run s = .ok (true, s) := by
  unfold useHtmlRules
  simp only [run_bind, adjustedCurrentNode_run s c rest hc hs, ok_bind, etypeOf_run s c n _ nm attrs hn hk]
  rfl

/-- one token through `processToken`: the current node is an HTML element, so the token is processed by the rules
of the current insertion mode; the late-bound entry points are not used -/
theorem processToken_of_mode {m : Mode} {s s' : St} {fs : List SFrame} {f : SFrame} (h : SInv m s fs f) (t : Token)
    (hrun : ∀ r : Rec, (runMode r m t).run s = .ok ((), s')) : (processToken t).run s = .ok ((), s') := by
  obtain ⟨nm, attrs, hk⟩ := h.topk
  have hd : s.dev.dropNewlineHtml5lib = false := by rw [h.dev]
  unfold processToken
  simp only [run_bind, get_run, ok_bind, h.stopped, h.skip, Bool.false_eq_true, ↓reduceIte, Bool.false_and]
  unfold dispatchN
  have hf : dispatchFuel s = (63 + 2 * s.stack.length) + 1 := by unfold dispatchFuel; omega
  rw [hf]
  show (do if ← useHtmlRules t then runMode (knot (63 + 2 * s.stack.length)) (← get).mode t
           else foreignContent (knot (63 + 2 * s.stack.length)) t : M Unit).run s = _
  simp only [run_bind, useHtmlRules_run s t f.id _ f.node nm attrs h.ctx h.stackCons h.topNode hk, ok_bind, ↓reduceIte,
    get_run, h.mode, hrun]

theorem SShapeList.getLast {a : Arena} {hi : Nat} : ∀ {cs : List Nat} {ts : List Tree}, SShapeList a hi cs ts →
    ∀ t, cs.getLast? = some t → ∃ tr, ts.getLast? = some tr ∧ SShape a hi t tr
  | _, _, .nil, t, h => by cases h
  | [c], [tr], .cons h1 .nil, t, h => by
    simp at h; subst h; exact ⟨tr, rfl, h1⟩
  | c :: c2 :: cs, _ :: _, .cons h1 (.cons h2 h3), t, h => by
    have h' : (c2 :: cs).getLast? = some t := by simpa [List.getLast?_cons_cons] using h
    obtain ⟨tr, e1, e2⟩ := SShapeList.getLast (.cons h2 h3) t h'
    exact ⟨tr, by simpa [List.getLast?_cons_cons] using e1, e2⟩

theorem SShape.text_of_kind {a : Arena} {hi i : Nat} {tr : Tree} (h : SShape a hi i tr) {n : Node} {d : Str}
    (hn : a[i]? = some n) (hk : n.kind = .text d) : tr = .text d := by
  cases h with
  | text h1 h2 _ => rw [hn] at h1; cases h1; rw [hk] at h2; cases h2; rfl
  | comment h1 h2 _ => rw [hn] at h1; cases h1; rw [hk] at h2; cases h2
  | doctype h1 h2 _ => rw [hn] at h1; cases h1; rw [hk] at h2; cases h2
  | elem h1 h2 _ _ _ _ => rw [hn] at h1; cases h1; rw [hk] at h2; cases h2
  | doc h1 h2 _ _ _ _ => rw [hn] at h1; cases h1; rw [hk] at h2; cases h2

theorem SShape.node {a : Arena} {hi i : Nat} {tr : Tree} (h : SShape a hi i tr) : ∃ n, a[i]? = some n := by
  cases h <;> exact ⟨_, ‹_›⟩

/-- "insert a character" under the invariant -/
theorem SInv.insertChar_run {m s fs f} (h : SInv m s fs f) (c : Nat) :
    (insertChar c).run s = .ok ((), { s with arena := charArena s.arena f c }) := by
  obtain ⟨h1, h2, h3⟩ := h.frames.2
  unfold charArena
  cases ht : f.txt with
  | none =>
    rw [ht] at h3
    refine insertChar_run_new s f.id _ f.node c h.dev h.stackCons h.foster h.topNode h.topContent h.topk ?_
    intro t hl
    obtain ⟨tr, e1, e2⟩ := SShapeList.getLast h3 t hl
    obtain ⟨tn, htn⟩ := e2.node
    refine ⟨tn, htn, ?_⟩
    intro d hk
    have := e2.text_of_kind htn hk
    rw [this] at e1
    exact h.noTextLast ht d e1
  | some d =>
    rw [ht] at h3
    obtain ⟨done, tn, e1, e2, e3, e4⟩ := h3
    exact insertChar_run_append s f.id _ f.node c (s.arena.size - 1) tn d h.dev h.stackCons h.foster h.topNode
      h.topContent h.topk (by rw [e1]; simp) e3 e4

/-- a character token in the "in body" insertion mode -/
theorem step_body_char {s fs f} (h : SInv .inBody s fs f) (c : Nat) (h0 : c ≠ 0) :
    ∃ s', (processToken (.char c)).run s = .ok ((), s') ∧ SInv .inBody s' fs (f.withChar s.arena.size c) := by
  have hdn : s.dev.dropNewlineHtml5lib = false := by rw [h.dev]
  have hc0 : (c == 0) = false := by simpa using h0
  by_cases hw : isWs c = true
  · refine ⟨{ s with arena := charArena s.arena f c }, processToken_of_mode h _ (fun r => ?_), h.addChar c ⟨rfl, rfl, rfl, rfl, rfl, rfl, rfl⟩
      h.mode rfl rfl rfl⟩
    show (modeInBody r (.char c)).run s = _
    unfold modeInBody
    simp only [hc0, Bool.false_eq_true, ↓reduceIte, hw, run_bind, get_run, ok_bind, hdn, Bool.false_and, h.reconstruct,
      h.insertChar_run c]
  · refine ⟨{ s with arena := charArena s.arena f c, framesetOk := false }, processToken_of_mode h _ (fun r => ?_),
      h.addChar c ⟨rfl, rfl, rfl, rfl, rfl, rfl, rfl⟩ h.mode rfl rfl rfl⟩
    show (modeInBody r (.char c)).run s = _
    unfold modeInBody
    simp only [hc0, Bool.false_eq_true, ↓reduceIte, hw, run_bind, get_run, ok_bind, h.reconstruct, h.insertChar_run c]
    rfl

/-- a comment token in the "in body" insertion mode -/
theorem step_body_comment {s fs f} (h : SInv .inBody s fs f) (d : Str) :
    ∃ s', (processToken (.comment d)).run s = .ok ((), s') ∧
      SInv .inBody s' fs (f.withLeaf s.arena.size (.comment d)) := by
  have hlt : f.id < s.arena.size := (Array.getElem?_eq_some_iff.1 h.topNode).1
  refine ⟨{ s with arena := addChild s.arena f.id (.comment d) }, processToken_of_mode h _ (fun r => ?_),
    h.addLeaf (.comment d) (.comment d) ⟨rfl, rfl, rfl, rfl, rfl, rfl, rfl⟩ h.mode rfl rfl rfl ?_ (by intro d' hd; cases hd)⟩
  · show (modeInBody r (.comment d)).run s = _
    unfold modeInBody
    exact insertComment_run s f.id _ f.node d h.stackCons h.foster h.topNode h.topContent h.topk
  · exact .comment (addChild_new_get s.arena f.id _ hlt) rfl (Nat.lt_succ_self _)

end H5.Props.C01b
