/-
  Property C07 — serialize then parse is the identity on conforming documents (model side).
  The composed pipeline H5.Model.Pipeline.roundTrip is executable and tied to /repo by op `roundtrip`; the identity
  theorem is not proved.  Proved here: the filter pipeline of `HTMLSerializer.serialize` is applied in the order the
  model composes it (the order is extracted from the AST on every run).
-/
import H5.Model.Pipeline
import H5.Gen.Serializer
namespace H5.Props.C07
open H5 H5.Gen

/-- the source applies: inject_meta_charset, alphabeticalattributes, whitespace, sanitizer, optionaltags — in that
order (so the sanitizer runs BEFORE optional-tag omission, and attribute sorting before the sanitizer). -/
theorem C07_pipeline_order :
    filterPipeline = [lit "inject_meta_charset", lit "alphabeticalattributes", lit "whitespace", lit "sanitizer",
                      lit "optionaltags"] := by decide +kernel

end H5.Props.C07
