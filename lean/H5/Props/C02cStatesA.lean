/-
  Property C02 "total" — per-state decrease lemmas (text, tag-open and RCDATA/RAWTEXT/script-data states).
  Each lemma: a call of the state method from a state of weight `w` with `n` characters left either stops,
  fails with an error that is not `outOfFuel`, or leaves a state of potential `< 8·n + w`.
-/
import H5.Props.C02cHelpers
set_option linter.unusedSimpArgs false
namespace H5.Props.C02c
open H5 H5.Gen H5.Model H5.Model.Tokenizer

theorem dataState_dec (s : St) (hs : s.state = .dataState) :
    Post (dataState s) (Dec s.input.length (w s.state)) := by
  state_dec dataState

theorem entityDataState_dec (s : St) (hs : s.state = .entityDataState) :
    Post (entityDataState s) (Dec s.input.length (w s.state)) := by
  state_dec entityDataState

theorem rcdataState_dec (s : St) (hs : s.state = .rcdataState) :
    Post (rcdataState s) (Dec s.input.length (w s.state)) := by
  state_dec rcdataState

theorem characterReferenceInRcdata_dec (s : St) (hs : s.state = .characterReferenceInRcdata) :
    Post (characterReferenceInRcdata s) (Dec s.input.length (w s.state)) := by
  state_dec characterReferenceInRcdata

theorem rawtextState_dec (s : St) (hs : s.state = .rawtextState) :
    Post (rawtextState s) (Dec s.input.length (w s.state)) := by
  state_dec rawtextState

theorem scriptDataState_dec (s : St) (hs : s.state = .scriptDataState) :
    Post (scriptDataState s) (Dec s.input.length (w s.state)) := by
  state_dec scriptDataState

theorem plaintextState_dec (s : St) (hs : s.state = .plaintextState) :
    Post (plaintextState s) (Dec s.input.length (w s.state)) := by
  state_dec plaintextState

theorem tagOpenState_dec (s : St) (hs : s.state = .tagOpenState) :
    Post (tagOpenState s) (Dec s.input.length (w s.state)) := by
  state_dec tagOpenState

theorem closeTagOpenState_dec (s : St) (hs : s.state = .closeTagOpenState) :
    Post (closeTagOpenState s) (Dec s.input.length (w s.state)) := by
  state_dec closeTagOpenState

theorem tagNameState_dec (s : St) (hs : s.state = .tagNameState) :
    Post (tagNameState s) (Dec s.input.length (w s.state)) := by
  state_dec tagNameState

theorem rcdataLessThanSignState_dec (s : St) (hs : s.state = .rcdataLessThanSignState) :
    Post (rcdataLessThanSignState s) (Dec s.input.length (w s.state)) := by
  state_dec rcdataLessThanSignState

theorem rcdataEndTagOpenState_dec (s : St) (hs : s.state = .rcdataEndTagOpenState) :
    Post (rcdataEndTagOpenState s) (Dec s.input.length (w s.state)) := by
  state_dec rcdataEndTagOpenState

theorem rcdataEndTagNameState_dec (s : St) (hs : s.state = .rcdataEndTagNameState) :
    Post (rcdataEndTagNameState s) (Dec s.input.length (w s.state)) := by
  state_dec rcdataEndTagNameState

theorem rawtextLessThanSignState_dec (s : St) (hs : s.state = .rawtextLessThanSignState) :
    Post (rawtextLessThanSignState s) (Dec s.input.length (w s.state)) := by
  state_dec rawtextLessThanSignState

theorem rawtextEndTagOpenState_dec (s : St) (hs : s.state = .rawtextEndTagOpenState) :
    Post (rawtextEndTagOpenState s) (Dec s.input.length (w s.state)) := by
  state_dec rawtextEndTagOpenState

theorem rawtextEndTagNameState_dec (s : St) (hs : s.state = .rawtextEndTagNameState) :
    Post (rawtextEndTagNameState s) (Dec s.input.length (w s.state)) := by
  state_dec rawtextEndTagNameState

theorem scriptDataLessThanSignState_dec (s : St) (hs : s.state = .scriptDataLessThanSignState) :
    Post (scriptDataLessThanSignState s) (Dec s.input.length (w s.state)) := by
  state_dec scriptDataLessThanSignState

theorem scriptDataEndTagOpenState_dec (s : St) (hs : s.state = .scriptDataEndTagOpenState) :
    Post (scriptDataEndTagOpenState s) (Dec s.input.length (w s.state)) := by
  state_dec scriptDataEndTagOpenState

theorem scriptDataEndTagNameState_dec (s : St) (hs : s.state = .scriptDataEndTagNameState) :
    Post (scriptDataEndTagNameState s) (Dec s.input.length (w s.state)) := by
  state_dec scriptDataEndTagNameState

theorem scriptDataEscapeStartState_dec (s : St) (hs : s.state = .scriptDataEscapeStartState) :
    Post (scriptDataEscapeStartState s) (Dec s.input.length (w s.state)) := by
  state_dec scriptDataEscapeStartState

theorem scriptDataEscapeStartDashState_dec (s : St) (hs : s.state = .scriptDataEscapeStartDashState) :
    Post (scriptDataEscapeStartDashState s) (Dec s.input.length (w s.state)) := by
  state_dec scriptDataEscapeStartDashState

theorem scriptDataEscapedState_dec (s : St) (hs : s.state = .scriptDataEscapedState) :
    Post (scriptDataEscapedState s) (Dec s.input.length (w s.state)) := by
  state_dec scriptDataEscapedState

end H5.Props.C02c
