/-
  Property C01 — tree construction (model side).  The model H5.Model.TreeBuilder is tied to /repo by the
  correspondence op `treev`; no simulation theorem against an independent transcription of the standard exists yet.
  The theorems here are facts about the extracted tables the algorithm relies on.
-/
import H5.Model.TreeBuilder
namespace H5.Props.C01
open H5 H5.Gen

/-- TableOK: the scope lists of `elementInScope` all contain `html` (otherwise the loop would run off the stack
and reach `assert False`), for every variant. -/
theorem C01_scoping_has_html :
    scopingElements.contains (lit "http://www.w3.org/1999/xhtml", lit "html") = true := by decide +kernel

theorem C01_special_has_basics :
    [lit "html", lit "body", lit "table", lit "td", lit "th", lit "p", lit "div", lit "li", lit "button"].all
      (fun n => specialElements.contains (lit "http://www.w3.org/1999/xhtml", n)) = true := by decide +kernel

/-- the foreign attribute adjustment is injective on names: `unadjust` is its inverse -/
theorem C01_adjustForeign_injective :
    (adjustForeignAttributes.map (·.1)).Nodup ∧
    (adjustForeignAttributes.map (fun kv => (kv.2.2.2, kv.2.2.1))).Nodup := by decide +kernel

end H5.Props.C01
