/-
  Property C16 "strict mode raises ParseError exactly when a parse error exists" — core of the simulation between
  the lenient run (`Cfg.strict = false`) and the strict run (`Cfg.strict = true`) of the tree-construction model.

  * `flip st`    : the same parser state with the strict flag set.
  * `NP e`       : (C16bTokCore) the exception `e` is not `ParseError`.
  * `Ob m`       : "`m` is oblivious to the flag and to the error list except through the parse-error primitives":
                   run from a lenient state `st`,
                   - if `m` ends normally having appended the errors `new` to `st.errors` (and nothing else happened
                     to the list, and the configuration is unchanged): with `new = []` the strict run from `flip st`
                     ends with the same result in the flipped state; with `new = e :: _` the strict run raises
                     `ParseError e` (the FIRST error);
                   - if `m` raises `x`: `x` is not `ParseError`, and the strict run raises `x` or (having met an error
                     first) some `ParseError`.
                   `Ob` is closed under `pure`, `bind`, `if`, `match`, throwing non-ParseError exceptions, reading the
                   state through functions that do not look at the flag (`Ob_get_bind`, `Ob_getCfg_bind`), and
                   modifications that commute with `flip` and keep `cfg` / `errors`.
  * `PP x`       : (C16bTokCore) a pure `Except` computation never fails with `ParseError`.
-/
import H5.Model.TreeBuilder
import H5.Model.Parser
import H5.Proofs.ExceptLemmas
import H5.Props.C16bTokCore
set_option linter.unusedSimpArgs false
set_option linter.unusedVariables false
namespace H5.Props.C16b
open H5 H5.Model H5.Model.TB H5.Model.Dom

/-- the state with the strict flag set -/
def flip (st : PState) : PState := { st with cfg := { st.cfg with strict := true } }

/-- the relation between the lenient result `rl` (from `st`) and the strict result `rs` (from `flip st`) -/
def Rel {α : Type} (st : PState) (rl rs : Except PyErr (α × PState)) : Prop :=
  match rl with
  | .ok (a, st') =>
    st'.cfg = st.cfg ∧ ∃ new, st'.errors.toList = st.errors.toList ++ new ∧
      (match new with
       | [] => rs = .ok (a, flip st')
       | e :: _ => rs = .error (.parseError e.1))
  | .error x => NP x ∧ (rs = .error x ∨ ∃ c, rs = .error (.parseError c))

class Ob {α : Type} (m : M α) : Prop where
  out : ∀ st, st.cfg.strict = false → Rel st (m.run st) (m.run (flip st))

theorem flip_cfg_strict (st : PState) : (flip st).cfg.strict = true := rfl

instance Ob_pure {α : Type} (a : α) : Ob (pure a : M α) :=
  ⟨fun st _ => ⟨rfl, [], by simp, rfl⟩⟩

instance Ob_bind {α β : Type} (m : M α) (f : α → M β) [h1 : Ob m] [h2 : ∀ a, Ob (f a)] : Ob (m >>= f) :=
  ⟨fun st hs => by
    have hm := h1.out st hs
    simp only [StateT.run_bind]
    cases hl : m.run st with
    | error x =>
      rw [hl] at hm
      obtain ⟨hnp, hm⟩ := hm
      refine ⟨hnp, ?_⟩
      rcases hm with hm | ⟨c, hm⟩
      · left; rw [hm]; rfl
      · right; exact ⟨c, by rw [hm]; rfl⟩
    | ok p =>
      obtain ⟨a, st1⟩ := p
      rw [hl] at hm
      obtain ⟨hcfg1, new1, herr1, hm⟩ := hm
      have hs1 : st1.cfg.strict = false := by rw [hcfg1]; exact hs
      have hf := (h2 a).out st1 hs1
      simp only [ok_bind]
      cases hl2 : (f a).run st1 with
      | error x =>
        rw [hl2] at hf
        obtain ⟨hnp, hf⟩ := hf
        refine ⟨hnp, ?_⟩
        cases new1 with
        | nil =>
          simp only at hm
          rw [hm]
          simp only [ok_bind]
          exact hf
        | cons e r =>
          simp only at hm
          right
          exact ⟨e.1, by rw [hm]; rfl⟩
      | ok q =>
        obtain ⟨b, st2⟩ := q
        rw [hl2] at hf
        obtain ⟨hcfg2, new2, herr2, hf⟩ := hf
        refine ⟨hcfg2.trans hcfg1, new1 ++ new2, by rw [herr2, herr1, List.append_assoc], ?_⟩
        cases new1 with
        | nil =>
          simp only at hm
          rw [hm]
          simp only [ok_bind, List.nil_append]
          exact hf
        | cons e r =>
          simp only at hm
          rw [hm]
          rfl⟩

instance Ob_map {α β : Type} (g : α → β) (m : M α) [h : Ob m] : Ob (g <$> m) := by
  have : (g <$> m) = (m >>= fun a => pure (g a)) := by
    funext st
    simp [Functor.map, StateT.map, bind, StateT.bind, pure, StateT.pure]
  rw [this]
  infer_instance

instance Ob_ite {α : Type} (c : Prop) [Decidable c] (a b : M α) [h1 : Ob a] [h2 : Ob b] :
    Ob (if c then a else b) := by split <;> assumption

theorem Ob_throw {α : Type} (e : PyErr) (h : NP e) : Ob (throw e : M α) :=
  ⟨fun st _ => ⟨h, Or.inl rfl⟩⟩

instance Ob_throw_typeError {α : Type} (s) : Ob (throw (.typeError s) : M α) := Ob_throw _ (NPC_typeError _).out
instance Ob_throw_keyError {α : Type} (s) : Ob (throw (.keyError s) : M α) := Ob_throw _ (NPC_keyError _).out
instance Ob_throw_indexError {α : Type} (s) : Ob (throw (.indexError s) : M α) := Ob_throw _ (NPC_indexError _).out
instance Ob_throw_assertFail {α : Type} (s) : Ob (throw (.assertFail s) : M α) := Ob_throw _ (NPC_assertFail _).out
instance Ob_throw_valueError {α : Type} (s) : Ob (throw (.valueError s) : M α) := Ob_throw _ (NPC_valueError _).out
instance Ob_throw_lookupError {α : Type} (s) : Ob (throw (.lookupError s) : M α) := Ob_throw _ (NPC_lookupError _).out
instance Ob_throw_attributeError {α : Type} (s) : Ob (throw (.attributeError s) : M α) :=
  Ob_throw _ (NPC_attributeError _).out
instance Ob_throw_recursion {α : Type} (s) : Ob (throw (.recursion s) : M α) := Ob_throw _ (NPC_recursion _).out
instance Ob_throw_outOfFuel {α : Type} (s) : Ob (throw (.outOfFuel s) : M α) := Ob_throw _ (NPC_outOfFuel _).out
instance Ob_fail_typeError {α : Type} (s) : Ob (fail (.typeError s) : M α) := Ob_throw _ (NPC_typeError _).out

/-- reading the state through a continuation that does not look at the flag -/
theorem Ob_get_bind {β : Type} (f : PState → M β) (h : ∀ s, Ob (f s)) (hflip : ∀ s, f (flip s) = f s) :
    Ob (get >>= f) :=
  ⟨fun st hs => by
    have := (h st).out st hs
    simp only [StateT.run_bind] at this ⊢
    show Rel st ((f st).run st) ((f (flip st)).run (flip st))
    rw [hflip]
    exact this⟩

/-- reading the configuration through a continuation that does not look at the flag -/
theorem Ob_getCfg_bind {β : Type} (f : Cfg → M β) (h : ∀ c, Ob (f c))
    (hflip : ∀ c : Cfg, f { c with strict := true } = f c) : Ob (getCfg >>= f) :=
  ⟨fun st hs => by
    have := (h st.cfg).out st hs
    show Rel st ((f st.cfg).run st) ((f (flip st).cfg).run (flip st))
    show Rel st ((f st.cfg).run st) ((f { st.cfg with strict := true }).run (flip st))
    rw [hflip]
    exact this⟩

/-- a modification that commutes with `flip` and keeps the configuration and the error list -/
theorem Ob_modify (f : PState → PState) (hcomm : ∀ s, f (flip s) = flip (f s)) (hcfg : ∀ s, (f s).cfg = s.cfg)
    (herr : ∀ s, (f s).errors = s.errors) : Ob (modify f : M PUnit) :=
  ⟨fun st _ => ⟨hcfg st, [], by simp [herr], by
    show (Except.ok (PUnit.unit, f (flip st)) : Except PyErr (PUnit × PState)) = _
    rw [hcomm]⟩⟩

/-! ### pure `Except` computations that never raise `ParseError` (class `PP` of C16bTokCore) -/

instance Ob_monadLift {α : Type} (x : Except PyErr α) [h : PP x] : Ob (monadLift x : M α) :=
  ⟨fun st _ => by
    have hp := h.out
    cases hx : x with
    | ok a => exact ⟨rfl, [], by simp, rfl⟩
    | error e => rw [hx] at hp; exact ⟨hp, Or.inl rfl⟩⟩
instance Ob_liftM {α : Type} (x : Except PyErr α) [h : PP x] : Ob (liftM x : M α) :=
  ⟨fun st _ => by
    have hp := h.out
    cases hx : x with
    | ok a => exact ⟨rfl, [], by simp, rfl⟩
    | error e => rw [hx] at hp; exact ⟨hp, Or.inl rfl⟩⟩

set_option hygiene false in
/-- one structural step of an `Ob` derivation -/
macro "ob_step" : tactic => `(tactic| first
  | assumption
  | (with_reducible refine Ob_get_bind _ (fun s => ?_) (fun s => rfl))
  | (with_reducible refine Ob_getCfg_bind _ (fun c => ?_) (fun c => rfl))
  | (with_reducible refine @Ob_bind _ _ _ _ ?_ ?_)
  | (intro _)
  | exact Ob_modify _ (fun _ => rfl) (fun _ => rfl) (fun _ => rfl)
  | exact RecOb.S hr _ _
  | exact RecOb.E hr _ _
  | exact RecOb.Ch hr _ _
  | exact RecOb.Sp hr _ _
  | exact RecOb.Cm hr _ _
  | exact RecOb.D hr _ _
  | exact RecOb.EOF hr _
  | (dsimp only)
  | infer_instance
  | split)
macro "ob_auto" : tactic => `(tactic| repeat' ob_step)

end H5.Props.C16b
