/-
  Property C04, back-end level — the two tree-builder back ends modelled separately
  (H5.Model.Backend.ETree = treebuilders/etree.py over ElementTree, H5.Model.Backend.MiniDom =
  treebuilders/dom.py over xml.dom.minidom) and, for every `Node` primitive, a proof that running it on both
  sides preserves (a) the representation invariant of the etree wrappers (`RepInvE`: the shadow list
  `_childNodes`, the `parent` fields, no duplicates, no stray tail text) and (b) the simulation relation
  `Sim` = "same abstract forest with corresponding node handles", from which the equality of the abstract
  trees (`absE` = what `trees.from_etree` reads, `absD` = what `trees.from_dom` + `merge_text` read) follows
  for every node and every fuel (`C04_abs_eq_of_sim`).

  The relation is local: per node, equal header (kind, namespace, name, attributes, doctype ids) and equal
  canonical child sequence `(t0, [(c1, t1), …])` (Common.lean).  ElementTree's `text`/`tail` IS that canonical
  form; a minidom child list is brought to it by `MiniDom.canon` (adjacent Text nodes concatenated).
-/
import H5.Model.Backend.ETree
import H5.Model.Backend.MiniDom
import H5.Proofs.ExceptLemmas
import H5.Props.C04
namespace H5.Props.C04b
open H5 H5.Model.Backend
open H5.Model.Dom (mergeText AttrKey)
open H5.Model.Backend.ETree (ENode hdrE canonE absE tailOf canonOfNode)
open H5.Model.Backend.MiniDom (DNode DChild DKind hdrD canonD absD canon)

/-! ## 1. Python list primitives -/

theorem pyIndex_some {α} [DecidableEq α] (l : List α) (x : α) (i : Nat) (h : pyIndex l x = some i) :
    l = l.take i ++ x :: l.drop (i + 1) ∧ x ∉ l.take i := by
  induction l generalizing i with
  | nil => simp [pyIndex] at h
  | cons y r ih =>
    unfold pyIndex at h
    by_cases hy : y = x
    · simp [hy] at h; subst h; simp [hy]
    · simp only [hy, if_false, Option.map_eq_some_iff] at h
      obtain ⟨j, hj, rfl⟩ := h
      obtain ⟨h1, h2⟩ := ih j hj
      refine ⟨by simp only [List.take_succ_cons, List.drop_succ_cons, List.cons_append]; rw [← h1], ?_⟩
      simp only [List.take_succ_cons, List.mem_cons, not_or]
      exact ⟨fun e => hy e.symm, h2⟩

theorem pyIndex_of_mem {α} [DecidableEq α] (l : List α) (x : α) (h : x ∈ l) : ∃ i, pyIndex l x = some i := by
  induction l with
  | nil => simp at h
  | cons y r ih =>
    unfold pyIndex
    by_cases hy : y = x
    · exact ⟨0, by simp [hy]⟩
    · have : x ∈ r := by
        rcases List.mem_cons.mp h with h | h
        · exact absurd h.symm hy
        · exact h
      obtain ⟨i, hi⟩ := ih this
      exact ⟨i + 1, by simp [hy, hi]⟩

theorem pyIndex_none {α} [DecidableEq α] (l : List α) (x : α) (h : x ∉ l) : pyIndex l x = none := by
  induction l with
  | nil => rfl
  | cons y r ih =>
    simp only [List.mem_cons, not_or] at h
    have hy : ¬ y = x := fun e => h.1 e.symm
    unfold pyIndex
    simp [hy, ih h.2]

/-- a list splits uniquely at the first occurrence of an element -/
theorem split_first_unique {α} (x : α) (a a' b b' : List α) (h : a ++ x :: b = a' ++ x :: b')
    (ha : x ∉ a) (ha' : x ∉ a') : a = a' ∧ b = b' := by
  induction a generalizing a' with
  | nil =>
    cases a' with
    | nil => simpa using h
    | cons y r => simp at h; simp [h.1] at ha'
  | cons y r ih =>
    cases a' with
    | nil => simp at h; simp [h.1] at ha
    | cons y' r' =>
      simp only [List.cons_append, List.cons.injEq] at h
      simp only [List.mem_cons, not_or] at ha ha'
      obtain ⟨h1, h2⟩ := ih r' h.2 ha.2 ha'.2
      exact ⟨by rw [h.1, h1], h2⟩

theorem pyIndex_split {α} [DecidableEq α] (a b : List α) (x : α) (h : x ∉ a) :
    pyIndex (a ++ x :: b) x = some a.length := by
  induction a with
  | nil => simp [pyIndex]
  | cons y r ih =>
    simp only [List.mem_cons, not_or] at h
    have hy : ¬ y = x := fun e => h.1 e.symm
    simp [pyIndex, hy, ih h.2]

theorem pyRemove_split {α} [DecidableEq α] (a b : List α) (x : α) (h : x ∉ a) :
    pyRemove (a ++ x :: b) x = some (a ++ b) := by
  induction a with
  | nil => simp [pyRemove]
  | cons y r ih =>
    simp only [List.mem_cons, not_or] at h
    have hy : ¬ y = x := fun e => h.1 e.symm
    simp [pyRemove, hy, ih h.2]

theorem pyRemove_none {α} [DecidableEq α] (l : List α) (x : α) (h : x ∉ l) : pyRemove l x = none := by
  induction l with
  | nil => rfl
  | cons y r ih =>
    simp only [List.mem_cons, not_or] at h
    have hy : ¬ y = x := fun e => h.1 e.symm
    simp [pyRemove, hy, ih h.2]

/-- splitting at the first occurrence -/
theorem mem_split_first {α} [DecidableEq α] (l : List α) (x : α) (h : x ∈ l) :
    ∃ a b, l = a ++ x :: b ∧ x ∉ a := by
  obtain ⟨i, hi⟩ := pyIndex_of_mem l x h
  obtain ⟨h1, h2⟩ := pyIndex_some l x i hi
  exact ⟨_, _, h1, h2⟩

theorem pyInsert_split {α} (a b : List α) (x : α) : pyInsert (a ++ b) a.length x = a ++ x :: b := by
  simp [pyInsert]

/-! ## 2. canonical forms -/

/-- append `u` to the last tail -/
def catL : List (NodeId × Str) → Str → List (NodeId × Str)
  | [], _ => []
  | [(c, x)], u => [(c, x ++ u)]
  | e :: r, u => e :: catL r u

/-- concatenation of canonical sequences -/
def catC (a b : Canon) : Canon :=
  match a.2 with
  | [] => (a.1 ++ b.1, b.2)
  | _ :: _ => (a.1, catL a.2 b.1 ++ b.2)

theorem catL_cons_cons (e e' : NodeId × Str) (r : List (NodeId × Str)) (u : Str) :
    catL (e :: e' :: r) u = e :: catL (e' :: r) u := by
  obtain ⟨c, x⟩ := e
  simp [catL]

theorem catL_append_single (l : List (NodeId × Str)) (c : NodeId) (x u : Str) :
    catL (l ++ [(c, x)]) u = l ++ [(c, x ++ u)] := by
  induction l with
  | nil => simp [catL]
  | cons e r ih =>
    cases r with
    | nil => simp [catL_cons_cons, catL]
    | cons e' r' =>
      simp only [List.cons_append] at ih ⊢
      rw [catL_cons_cons, ih]

theorem catL_nil_right (l : List (NodeId × Str)) : catL l [] = l := by
  induction l with
  | nil => rfl
  | cons e r ih =>
    cases r with
    | nil => obtain ⟨c, x⟩ := e; simp [catL]
    | cons e' r' => rw [catL_cons_cons, ih]

theorem canon_append (l m : List DChild) : canon (l ++ m) = catC (canon l) (canon m) := by
  induction l with
  | nil => simp [canon, catC]
  | cons ch l ih =>
    cases ch with
    | text d =>
      simp only [List.cons_append, canon, ih]
      cases h : (canon l).2 with
      | nil => simp [catC, h, List.append_assoc]
      | cons e r => simp [catC, h]
    | node c =>
      simp only [List.cons_append, canon, ih]
      cases h : (canon l).2 with
      | nil => simp [catC, h, catL]
      | cons e r => simp [catC, h, catL_cons_cons]

theorem canon_nodes (l : List DChild) :
    (canon l).2.map Prod.fst = l.filterMap fun ch => match ch with | .node c => some c | .text _ => none := by
  induction l with
  | nil => rfl
  | cons ch l ih => cases ch <;> simp [canon, ih]

theorem mem_canon_iff (l : List DChild) (c : NodeId) : c ∈ (canon l).2.map Prod.fst ↔ DChild.node c ∈ l := by
  rw [canon_nodes]
  simp only [List.mem_filterMap]
  constructor
  · rintro ⟨ch, h1, h2⟩
    cases ch with
    | node k => simp at h2; subst h2; exact h1
    | text d => simp at h2
  · intro h; exact ⟨_, h, rfl⟩

/-- a node whose canonical sequence is empty has no children at all, provided it has no empty Text node -/
theorem canon_eq_nil_iff (l : List DChild) (hne : DChild.text [] ∉ l) : canon l = ([], []) ↔ l = [] := by
  constructor
  · intro h
    cases l with
    | nil => rfl
    | cons ch r =>
      cases ch with
      | node c => simp [canon] at h
      | text d =>
        simp only [canon, Prod.mk.injEq, List.append_eq_nil_iff] at h
        simp [h.1.1] at hne
  · intro h; subst h; rfl

/-! ## 3. the abstraction functions agree when the one-level views agree -/

theorem textTree_nil : textTree [] = [] := rfl
theorem textTree_cons (a : Nat) (r : Str) : textTree (a :: r) = [.text (a :: r)] := rfl

theorem textTree_ne_text_head (g : NodeId → Tree) (hg : ∀ k, isTextTree (g k) = false)
    (L : List (NodeId × Str)) :
    ∀ t rest, L.flatMap (fun p => g p.1 :: textTree p.2) = t :: rest → C04.isText t = false := by
  intro t rest h
  cases L with
  | nil => simp at h
  | cons e r =>
    simp only [List.flatMap_cons, List.cons_append, List.cons.injEq] at h
    have := hg e.1
    rw [h.1] at this
    cases t <;> simp_all [isTextTree, C04.isText]

/-- `merge_text` of a minidom child list is the child list of its canonical form -/
theorem mergeText_map_eq_canonTrees (g : NodeId → Tree) (hg : ∀ k, isTextTree (g k) = false) (l : List DChild) :
    mergeText (l.map (MiniDom.childTree g)) = canonTrees g (canon l) := by
  induction l with
  | nil => simp [mergeText, canon, canonTrees, textTree]
  | cons ch l ih =>
    cases ch with
    | node c =>
      have hc : C04.isText (g c) = false := by
        have := hg c; cases h : g c <;> simp_all [isTextTree, C04.isText]
      simp only [List.map_cons, MiniDom.childTree]
      rw [C04.mergeText_head_nontext _ _ hc, ih]
      simp [canon, canonTrees, textTree]
    | text d =>
      simp only [List.map_cons, canon, MiniDom.childTree]
      simp only [canonTrees] at ih ⊢
      generalize hX : (canon l).2.flatMap (fun p => g p.1 :: textTree p.2) = X at ih ⊢
      cases ht : (canon l).1 with
      | nil =>
        rw [ht, textTree_nil, List.nil_append] at ih
        rw [List.append_nil]
        cases X with
        | nil =>
          cases d with
          | nil => simp [mergeText, ih, textTree]
          | cons a r => simp [mergeText, ih, textTree]
        | cons t rest =>
          have hnt := textTree_ne_text_head g hg _ t rest hX
          cases d with
          | nil => cases t <;> simp_all [mergeText, textTree, C04.isText]
          | cons a r => cases t <;> simp_all [mergeText, textTree, C04.isText]
      | cons a r =>
        rw [ht, textTree_cons, List.cons_append, List.nil_append] at ih
        cases hd : d ++ a :: r with
        | nil => simp at hd
        | cons b r' =>
          rw [textTree_cons, List.cons_append, List.nil_append]
          simp only [mergeText, ih]
          rw [hd]


/-! ## 4. heaps: accessors (total, with defaults for a bad id) and frame lemmas -/

namespace E
/-- field `f` of node `i`, `d` for a bad id -/
def fld {α} (f : ENode → α) (d : α) (s : ETree.St) (i : NodeId) : α := match s.get? i with | some n => f n | none => d
abbrev kids := fld ENode.kids []
abbrev shadow := fld ENode.childNodes []
abbrev parent := fld ENode.parent none
abbrev text := fld ENode.text none
abbrev tail := fld ENode.tail none
abbrev hdr := fld (fun n => some (ETree.hdrOf n)) none
/-- `Element` wrappers: `_name`/`_namespace` agree with the element's tag -/
def wrapOkN (n : ENode) : Prop := n.cls = .element → ∃ nm, n.name = some nm ∧ n.tag = .str (etreeTag nm n.ns)
abbrev wrapOk := fld wrapOkN True
end E

namespace D
def fld {α} (f : DNode → α) (d : α) (s : MiniDom.St) (i : NodeId) : α := match s.get? i with | some n => f n | none => d
abbrev children := fld DNode.children []
abbrev parentNode := fld DNode.parentNode none
abbrev kind := fld (fun n => some n.kind) none
abbrev hdr := fld (fun n => some (MiniDom.hdrOf n)) none
end D

theorem E_get?_put (s : ETree.St) (i j : NodeId) (n : ENode) :
    (s.put i n).get? j = if j = i then (if i < s.size then some n else none) else s.get? j := by
  simp only [ETree.St.get?, ETree.St.put, ETree.St.size, List.getElem?_set]
  by_cases h : j = i
  · subst h; by_cases hlt : j < s.nodes.length <;> simp [hlt]
  · have h2 : ¬ i = j := fun e => h e.symm
    simp [h, h2]

theorem E_get?_lt (s : ETree.St) (i : NodeId) (n : ENode) (h : s.get? i = some n) : i < s.size := by
  simp only [ETree.St.get?] at h
  exact (List.getElem?_eq_some_iff.mp h).1

theorem E_get?_none (s : ETree.St) (i : NodeId) (h : s.size ≤ i) : s.get? i = none := by
  simp only [ETree.St.get?, ETree.St.size] at *
  exact List.getElem?_eq_none h

theorem E_get_ok (s : ETree.St) (i : NodeId) (n : ENode) (h : s.get? i = some n) : s.get i = .ok n := by
  simp [ETree.St.get, h]

theorem E_get?_put_same (s : ETree.St) (i : NodeId) (n m : ENode) (h : s.get? i = some m) :
    (s.put i n).get? i = some n := by
  simp [E_get?_put, E_get?_lt s i m h]

theorem E_get?_put_ne (s : ETree.St) (i j : NodeId) (n : ENode) (h : j ≠ i) :
    (s.put i n).get? j = s.get? j := by
  simp [E_get?_put, h]

@[simp] theorem E_size_put (s : ETree.St) (i : NodeId) (n : ENode) : (s.put i n).size = s.size := by
  simp [ETree.St.put, ETree.St.size]

theorem D_get?_put (s : MiniDom.St) (i j : NodeId) (n : DNode) :
    (s.put i n).get? j = if j = i then (if i < s.size then some n else none) else s.get? j := by
  simp only [MiniDom.St.get?, MiniDom.St.put, MiniDom.St.size, List.getElem?_set]
  by_cases h : j = i
  · subst h; by_cases hlt : j < s.nodes.length <;> simp [hlt]
  · have h2 : ¬ i = j := fun e => h e.symm
    simp [h, h2]

theorem D_get?_lt (s : MiniDom.St) (i : NodeId) (n : DNode) (h : s.get? i = some n) : i < s.size := by
  simp only [MiniDom.St.get?] at h
  exact (List.getElem?_eq_some_iff.mp h).1

theorem D_get_ok (s : MiniDom.St) (i : NodeId) (n : DNode) (h : s.get? i = some n) : s.get i = .ok n := by
  simp [MiniDom.St.get, h]

theorem D_get?_put_same (s : MiniDom.St) (i : NodeId) (n m : DNode) (h : s.get? i = some m) :
    (s.put i n).get? i = some n := by
  simp [D_get?_put, D_get?_lt s i m h]

theorem D_get?_put_ne (s : MiniDom.St) (i j : NodeId) (n : DNode) (h : j ≠ i) :
    (s.put i n).get? j = s.get? j := by
  simp [D_get?_put, h]

@[simp] theorem D_size_put (s : MiniDom.St) (i : NodeId) (n : DNode) : (s.put i n).size = s.size := by
  simp [MiniDom.St.put, MiniDom.St.size]

theorem tailOf_eq (s : ETree.St) (k : NodeId) : tailOf s k = E.tail s k := by
  unfold tailOf E.tail E.fld; cases s.get? k <;> rfl

/-- the one-level view of an etree node in terms of the accessors -/
theorem canonE_eq (s : ETree.St) (i : NodeId) :
    canonE s i = ((E.text s i).getD [], (E.kids s i).map fun k => (k, (E.tail s k).getD [])) := by
  unfold canonE E.text E.kids E.fld canonOfNode
  cases s.get? i with
  | none => rfl
  | some n => simp only [tailOf_eq]

theorem canonD_eq (s : MiniDom.St) (i : NodeId) : canonD s i = canon (D.children s i) := by
  unfold canonD D.children D.fld
  cases s.get? i <;> rfl


theorem hdrE_eq (s : ETree.St) (i : NodeId) : hdrE s i = E.hdr s i := by
  unfold hdrE E.hdr E.fld; cases s.get? i <;> rfl

theorem hdrD_eq (s : MiniDom.St) (i : NodeId) : hdrD s i = D.hdr s i := by
  unfold hdrD D.hdr D.fld; cases s.get? i <;> rfl

theorem E_get?_of_lt (s : ETree.St) (i : NodeId) (h : i < s.size) : ∃ n, s.get? i = some n := by
  simp only [ETree.St.get?, ETree.St.size] at *
  exact ⟨s.nodes[i], List.getElem?_eq_getElem h⟩

theorem D_get?_of_lt (s : MiniDom.St) (i : NodeId) (h : i < s.size) : ∃ n, s.get? i = some n := by
  simp only [MiniDom.St.get?, MiniDom.St.size] at *
  exact ⟨s.nodes[i], List.getElem?_eq_getElem h⟩

theorem E_fld_put {α} (f : ENode → α) (d : α) (s : ETree.St) (i j : NodeId) (n : ENode) :
    E.fld f d (s.put i n) j = if j = i ∧ i < s.size then f n else E.fld f d s j := by
  unfold E.fld
  rw [E_get?_put]
  by_cases h : j = i
  · subst h
    by_cases hl : j < s.size
    · simp [hl]
    · simp [hl, E_get?_none s j (Nat.le_of_not_lt hl)]
  · simp [h]

theorem E_fld_of_get {α} (f : ENode → α) (d : α) (s : ETree.St) (i : NodeId) (n : ENode) (h : s.get? i = some n) :
    E.fld f d s i = f n := by
  simp [E.fld, h]

theorem D_get?_none (s : MiniDom.St) (i : NodeId) (h : s.size ≤ i) : s.get? i = none := by
  simp only [MiniDom.St.get?, MiniDom.St.size] at *
  exact List.getElem?_eq_none h

theorem D_fld_put {α} (f : DNode → α) (d : α) (s : MiniDom.St) (i j : NodeId) (n : DNode) :
    D.fld f d (s.put i n) j = if j = i ∧ i < s.size then f n else D.fld f d s j := by
  unfold D.fld
  rw [D_get?_put]
  by_cases h : j = i
  · subst h
    by_cases hl : j < s.size
    · simp [hl]
    · simp [hl, D_get?_none s j (Nat.le_of_not_lt hl)]
  · simp [h]

theorem D_fld_of_get {α} (f : DNode → α) (d : α) (s : MiniDom.St) (i : NodeId) (n : DNode) (h : s.get? i = some n) :
    D.fld f d s i = f n := by
  simp [D.fld, h]

def isContainerTree : Tree → Bool
  | .doc _ | .frag _ | .elem .. => true
  | _ => false

/-- the node is a document / fragment / element (its `text` and children are content; for a comment or doctype the
ElementTree `text` holds the data / name, which is part of the header) -/
def isContHdr : Option Tree → Bool
  | some t => isContainerTree t
  | none => false

/-! ## 5. representation invariants and the simulation relation -/

/-- **Representation invariant of the etree wrappers.**
* `shadow`   : `_childNodes` lists exactly the wrapper nodes of the element's children, in order;
* `kidParent`: each child's `parent` is the element (so children are valid nodes and no node has two parents);
* `parentKid`: a node's `parent` has it among its children;
* `nodup`    : no node occurs twice in a child list;
* `strayTail`: a node that is nobody's child carries no tail text (`text`/`tail` are `None` or strings by typing);
* `wrapper`  : an `Element` wrapper's `_name`/`_namespace` agree with its element's tag. -/
structure RepInvE (s : ETree.St) : Prop where
  shadow : ∀ i, E.shadow s i = E.kids s i
  kidParent : ∀ i c, c ∈ E.kids s i → E.parent s c = some i
  parentKid : ∀ c p, E.parent s c = some p → c ∈ E.kids s p
  nodup : ∀ i, (E.kids s i).Nodup
  strayTail : ∀ c, E.parent s c = none → (E.tail s c).getD [] = []
  wrapper : ∀ i, E.wrapOk s i

/-- what the dom side needs beyond `Sim`: no empty Text node (the tokenizer never emits empty character tokens) -/
structure RepInvD (s : MiniDom.St) : Prop where
  noEmptyText : ∀ i, DChild.text [] ∉ D.children s i

/-- **Simulation relation**: same handles, and per handle the same header, for documents / fragments / elements the same
canonical child sequence, and the same structural parent (`Element.parent` of the etree wrapper = `parentNode` of the minidom node). -/
structure Sim (sE : ETree.St) (sD : MiniDom.St) : Prop where
  size : sE.size = sD.size
  hdr : ∀ i, hdrE sE i = hdrD sD i
  canon : ∀ i, isContHdr (hdrE sE i) = true → canonE sE i = canonD sD i
  parent : ∀ i, E.parent sE i = D.parentNode sD i

theorem setKids_not_text (h : Tree) (ks : List Tree) (hh : isTextTree h = false) : isTextTree (setKids h ks) = false := by
  cases h <;> simp_all [setKids, isTextTree]

theorem hdrOfD_not_text (n : DNode) : isTextTree (MiniDom.hdrOf n) = false := by
  unfold MiniDom.hdrOf
  cases n.kind <;> rfl

theorem absD_not_text (s : MiniDom.St) (f : Nat) (k : NodeId) : isTextTree (absD s f k) = false := by
  cases f with
  | zero => rfl
  | succ f =>
    simp only [absD]
    cases s.get? k with
    | none => rfl
    | some n => exact setKids_not_text _ _ (hdrOfD_not_text n)

/-- **C04 (abstraction).** Related states have the same abstract tree below every node, for every fuel. -/
theorem C04_abs_eq_of_sim (sE : ETree.St) (sD : MiniDom.St) (h : Sim sE sD) :
    ∀ fuel i, absE sE fuel i = absD sD fuel i := by
  intro fuel
  induction fuel with
  | zero => intro i; rfl
  | succ f ih =>
    intro i
    have hh := h.hdr i
    have hc := h.canon i
    simp only [hdrE, hdrD, canonE, canonD] at hh hc
    simp only [absE, absD]
    cases hE : sE.get? i with
    | none =>
      rw [hE] at hh
      cases hD : sD.get? i with
      | none => rfl
      | some nD => rw [hD] at hh; simp at hh
    | some nE =>
      rw [hE] at hh hc
      cases hD : sD.get? i with
      | none => rw [hD] at hh; simp at hh
      | some nD =>
        rw [hD] at hh hc
        simp only [Option.map_some, Option.some.injEq] at hh
        simp only []
        by_cases hcont : isContainerTree (ETree.hdrOf nE) = true
        · have hc' := hc (by simpa [isContHdr] using hcont)
          simp only [] at hc'
          rw [mergeText_map_eq_canonTrees (absD sD f) (absD_not_text sD f), hh, hc']
          have : absE sE f = absD sD f := funext ih
          rw [this]
        · rw [hh] at hcont ⊢
          cases hk : MiniDom.hdrOf nD <;> simp_all [isContainerTree, setKids]


/-! ## 6. `appendChild` -/

theorem canon_append_node (l : List DChild) (c : NodeId) :
    canon (l ++ [.node c]) = ((canon l).1, (canon l).2 ++ [(c, [])]) := by
  rw [canon_append]
  cases h : (canon l).2 with
  | nil => simp [catC, h, canon]
  | cons e r => simp [catC, h, canon, catL_nil_right]

/-- effect of `Element.appendChild` on a state where both handles are valid and distinct -/
theorem E_appendChild_eff (s : ETree.St) (p c : NodeId) (hp : p < s.size) (hc : c < s.size) (hne : p ≠ c) :
    ∃ s', s.appendChild p c = .ok s' ∧ s'.size = s.size ∧
      (∀ j, E.kids s' j = if j = p then E.kids s p ++ [c] else E.kids s j) ∧
      (∀ j, E.shadow s' j = if j = p then E.shadow s p ++ [c] else E.shadow s j) ∧
      (∀ j, E.parent s' j = if j = c then some p else E.parent s j) ∧
      (∀ j, E.text s' j = E.text s j) ∧ (∀ j, E.tail s' j = E.tail s j) ∧
      (∀ j, E.hdr s' j = E.hdr s j) ∧ (∀ j, E.wrapOk s' j = E.wrapOk s j) := by
  obtain ⟨np, hnp⟩ := E_get?_of_lt s p hp
  obtain ⟨nc, hnc⟩ := E_get?_of_lt s c hc
  have hcp : c ≠ p := fun e => hne e.symm
  refine ⟨(s.put p { np with childNodes := np.childNodes ++ [c], kids := np.kids ++ [c] }).put c { nc with parent := some p }, ?_, ?_, ?_⟩
  · simp [ETree.St.appendChild, ETree.St.get, E_get?_put_ne _ _ _ _ hcp, hnc, hnp]
  · simp
  · refine ⟨?_, ?_, ?_, ?_, ?_, ?_, ?_⟩ <;> intro j <;>
      simp only [E.kids, E.shadow, E.parent, E.text, E.tail, E.hdr, E.wrapOk, E_fld_put, E_size_put, hp, hc, and_true] <;>
      by_cases hjc : j = c <;> by_cases hjp : j = p <;>
      simp_all [E_fld_of_get _ _ s p np hnp, E_fld_of_get _ _ s c nc hnc, ETree.hdrOf, E.wrapOkN]


/-- `p` is an element or a fragment (a `NodeBuilder` that takes element, comment and Text children) -/
def ContainerD (s : MiniDom.St) (p : NodeId) : Prop := ∃ n, s.get? p = some n ∧ MiniDom.allowsText n.kind = true

/-- `c` is an element or a comment -/
def InsertableD (s : MiniDom.St) (c : NodeId) : Prop :=
  ∃ n, s.get? c = some n ∧ MiniDom.allowsNode .fragment n.kind = true

theorem container_facts (k : DKind) (h : MiniDom.allowsText k = true) :
    MiniDom.isDocument k = false ∧ MiniDom.isChildless k = false ∧
    ∀ k', MiniDom.allowsNode k k' = MiniDom.allowsNode .fragment k' := by
  cases k <;> simp_all [MiniDom.allowsText, MiniDom.isDocument, MiniDom.isChildless]
  intro k'; cases k' <;> rfl

theorem insertable_facts (k : DKind) (h : MiniDom.allowsNode .fragment k = true) :
    MiniDom.isDocument k = false ∧ MiniDom.isFragment k = false := by
  cases k <;> simp_all [MiniDom.allowsNode, MiniDom.isDocument, MiniDom.isFragment]

theorem container_hdr (sE : ETree.St) (sD : MiniDom.St) (hS : Sim sE sD) (p : NodeId) (hp : ContainerD sD p) :
    ∃ np, sE.get? p = some np ∧ isContainerTree (ETree.hdrOf np) = true := by
  obtain ⟨nD, hnD, hk⟩ := hp
  have h := hS.hdr p
  simp only [hdrE, hdrD, hnD, Option.map_some] at h
  cases hE : sE.get? p with
  | none => rw [hE] at h; simp at h
  | some np =>
    rw [hE] at h
    simp only [Option.map_some, Option.some.injEq] at h
    refine ⟨np, rfl, ?_⟩
    rw [h]
    unfold MiniDom.hdrOf
    cases hkk : nD.kind <;> simp_all [MiniDom.allowsText, isContainerTree]

theorem contHdr_of_containerD (sE : ETree.St) (sD : MiniDom.St) (hS : Sim sE sD) (p : NodeId) (hp : ContainerD sD p) :
    isContHdr (hdrE sE p) = true := by
  obtain ⟨np, hnp, h⟩ := container_hdr sE sD hS p hp
  simp [hdrE, hnp, isContHdr, h]

/-- effect of `NodeBuilder.appendChild` (element / fragment parent, parentless element / comment child) -/
theorem D_appendChild_eff (s : MiniDom.St) (p c : NodeId) (hp : ContainerD s p) (hc : InsertableD s c)
    (hpar : D.parentNode s c = none) (hne : p ≠ c) :
    ∃ s', s.appendChild p c = .ok s' ∧ s'.size = s.size ∧
      (∀ j, D.children s' j = if j = p then D.children s p ++ [.node c] else D.children s j) ∧
      (∀ j, D.parentNode s' j = if j = c then some p else D.parentNode s j) ∧
      (∀ j, D.kind s' j = D.kind s j) ∧ (∀ j, D.hdr s' j = D.hdr s j) := by
  obtain ⟨np, hnp, hkp⟩ := hp
  obtain ⟨nc, hnc, hkc⟩ := hc
  obtain ⟨hp1, hp2, hp3⟩ := container_facts _ hkp
  obtain ⟨hc1, hc2⟩ := insertable_facts _ hkc
  have hcp : c ≠ p := fun e => hne e.symm
  have hpl := D_get?_lt s p np hnp
  have hcl := D_get?_lt s c nc hnc
  have hparc : nc.parentNode = none := by simpa [D.parentNode, D.fld, hnc] using hpar
  refine ⟨((s.put c { nc with wparent := some p }).put p { np with children := np.children ++ [.node c] }).put c
      { nc with wparent := some p, parentNode := some p }, ?_, ?_, ?_⟩
  · simp [MiniDom.St.appendChild, MiniDom.St.argElement, MiniDom.St.nodeAppend, MiniDom.St.nodeAppend1,
      MiniDom.St.detach, MiniDom.St.get, D_get?_put, hnp, hnc, hp1, hp2, hp3, hc1, hc2, hkc, hcp, hne, hpl, hcl, hparc]
  · simp
  · refine ⟨?_, ?_, ?_, ?_⟩ <;> intro j <;>
      simp only [D.children, D.parentNode, D.kind, D.hdr, D_fld_put, D_size_put, hpl, hcl, and_true] <;>
      by_cases hjc : j = c <;> by_cases hjp : j = p <;>
      simp_all [D_fld_of_get _ _ s p np hnp, D_fld_of_get _ _ s c nc hnc, MiniDom.hdrOf]


theorem sim_canon_acc {sE : ETree.St} {sD : MiniDom.St} (h : Sim sE sD) (i : NodeId)
    (hc : isContHdr (hdrE sE i) = true) :
    ((E.text sE i).getD [], (E.kids sE i).map fun k => (k, (E.tail sE k).getD [])) = canon (D.children sD i) := by
  rw [← canonE_eq, ← canonD_eq]; exact h.canon i hc

/-- unchanged headers: the same nodes are containers -/
theorem contHdr_transfer (sE sE' : ETree.St) (hhd : ∀ j, E.hdr sE' j = E.hdr sE j) (i : NodeId) :
    isContHdr (hdrE sE' i) = isContHdr (hdrE sE i) := by
  rw [hdrE_eq, hdrE_eq, hhd]

theorem sim_lt_iff {sE : ETree.St} {sD : MiniDom.St} (h : Sim sE sD) (i : NodeId) : i < sE.size ↔ i < sD.size := by
  rw [h.size]

/-- a child of `i` on the dom side is a child of `i` on the etree side -/
theorem sim_mem_kids {sE : ETree.St} {sD : MiniDom.St} (h : Sim sE sD) (i c : NodeId)
    (hc : isContHdr (hdrE sE i) = true) :
    DChild.node c ∈ D.children sD i ↔ c ∈ E.kids sE i := by
  rw [← mem_canon_iff, ← sim_canon_acc h i hc]
  simp [List.map_map, Function.comp_def]

theorem appendChild_core (sE : ETree.St) (sD sD' : MiniDom.St) (p c : NodeId)
    (hI : RepInvE sE) (hD : RepInvD sD) (hS : Sim sE sD)
    (hpl : p < sE.size) (hcl : c < sE.size) (hpar : E.parent sE c = none) (hne : p ≠ c)
    (hszD : sD'.size = sD.size)
    (hch : ∀ j, D.children sD' j = if j = p then D.children sD p ++ [.node c] else D.children sD j)
    (hpn : ∀ j, D.parentNode sD' j = if j = c then some p else D.parentNode sD j)
    (hhdD : ∀ j, D.hdr sD' j = D.hdr sD j) :
    ∃ sE', sE.appendChild p c = .ok sE' ∧ RepInvE sE' ∧ RepInvD sD' ∧ Sim sE' sD' := by
  obtain ⟨sE', hE, hsz, hk, hsh, hpa, htx, htl, hhd, hwr⟩ := E_appendChild_eff sE p c hpl hcl hne
  have hcnot : c ∉ E.kids sE p := fun hm => by
    have := hI.kidParent p c hm; rw [hpar] at this; exact absurd this (by simp)
  refine ⟨sE', hE, ?_, ?_, ?_⟩
  · constructor
    · intro i; rw [hsh, hk, hI.shadow, hI.shadow]
    · intro i k hm
      rw [hk] at hm; rw [hpa]
      by_cases hi : i = p
      · subst hi
        simp only [if_true, List.mem_append, List.mem_singleton] at hm
        by_cases hkc : k = c
        · simp [hkc]
        · simp only [hkc, if_false]
          exact hI.kidParent _ k (hm.resolve_right hkc)
      · simp only [hi, if_false] at hm
        by_cases hkc : k = c
        · subst hkc
          have := hI.kidParent i k hm
          rw [hpar] at this; exact absurd this (by simp)
        · simp only [hkc, if_false]; exact hI.kidParent i k hm
    · intro k q hq
      rw [hpa] at hq; rw [hk]
      by_cases hkc : k = c
      · subst hkc
        simp only [if_true, Option.some.injEq] at hq
        subst hq; simp
      · simp only [hkc, if_false] at hq
        have := hI.parentKid k q hq
        by_cases hqp : q = p
        · subst hqp; simp [this]
        · simp [hqp, this]
    · intro i
      rw [hk]
      by_cases hi : i = p
      · subst hi
        simp only [if_true]
        exact List.nodup_append.mpr ⟨hI.nodup _, by simp, by
          intro a ha b hb; simp only [List.mem_singleton] at hb; subst hb
          exact fun e => hcnot (e ▸ ha)⟩
      · simp only [hi, if_false]; exact hI.nodup i
    · intro k hq
      rw [hpa] at hq; rw [htl]
      by_cases hkc : k = c
      · simp [hkc] at hq
      · simp only [hkc, if_false] at hq; exact hI.strayTail k hq
    · intro i; rw [hwr]; exact hI.wrapper i
  · constructor
    intro i
    rw [hch]
    by_cases hi : i = p
    · simp only [hi, if_true, List.mem_append, List.mem_singleton, not_or]
      exact ⟨hD.noEmptyText p, by simp⟩
    · simp only [hi, if_false]; exact hD.noEmptyText i
  · constructor
    · rw [hsz, hszD]; exact hS.size
    · intro i
      rw [hdrE_eq, hdrD_eq, hhd, hhdD, ← hdrE_eq, ← hdrD_eq]; exact hS.hdr i
    · intro i hci
      have hci0 : isContHdr (hdrE sE i) = true := by rw [← contHdr_transfer sE sE' hhd i]; exact hci
      rw [canonE_eq, canonD_eq, htx, hk, hch]
      simp only [htl]
      by_cases hi : i = p
      · subst hi
        simp only [if_true, canon_append_node, List.map_append, List.map_cons, List.map_nil]
        rw [← sim_canon_acc hS i hci0, hI.strayTail c hpar]
      · simp only [hi, if_false]; exact sim_canon_acc hS i hci0
    · intro i
      rw [hpa, hpn, hS.parent]


/-- **C04 (appendChild).** `p` an element or fragment, `c` a parentless element or comment, `p ≠ c`: both back ends
succeed, the etree invariant is kept and the abstract forests stay equal. -/
theorem C04_prim_appendChild (sE : ETree.St) (sD : MiniDom.St) (p c : NodeId)
    (hI : RepInvE sE) (hD : RepInvD sD) (hS : Sim sE sD)
    (hp : ContainerD sD p) (hc : InsertableD sD c) (hpar : E.parent sE c = none) (hne : p ≠ c) :
    ∃ sE' sD', sE.appendChild p c = .ok sE' ∧ sD.appendChild p c = .ok sD' ∧
      RepInvE sE' ∧ RepInvD sD' ∧ Sim sE' sD' := by
  have hpl : p < sE.size := by obtain ⟨n, hn, _⟩ := hp; exact (sim_lt_iff hS p).mpr (D_get?_lt _ _ _ hn)
  have hcl : c < sE.size := by obtain ⟨n, hn, _⟩ := hc; exact (sim_lt_iff hS c).mpr (D_get?_lt _ _ _ hn)
  obtain ⟨sD', hDo, hszD, hch, hpn, hkd, hhdD⟩ :=
    D_appendChild_eff sD p c hp hc (by rw [← hS.parent]; exact hpar) hne
  obtain ⟨sE', hE, r1, r2, r3⟩ := appendChild_core sE sD sD' p c hI hD hS hpl hcl hpar hne hszD hch hpn hhdD
  exact ⟨sE', sD', hE, hDo, r1, r2, r3⟩

/-- `c` may be a child of the document: an element, a comment or a doctype -/
def DocChildD (s : MiniDom.St) (c : NodeId) : Prop :=
  ∃ n, s.get? c = some n ∧ MiniDom.allowsNode .document n.kind = true

/-- effect of `TreeBuilder.appendChild` = `Document.appendChild` (dom.py:153-154): `p` the document, `c` a parentless
element / comment / doctype, and no second document element -/
theorem D_appendChild_doc_eff (s : MiniDom.St) (p c : NodeId) (np : DNode) (hnp : s.get? p = some np)
    (hkp : np.kind = .document) (hc : DocChildD s c) (hpar : D.parentNode s c = none) (hne : p ≠ c)
    (hone : ∀ nc, s.get? c = some nc → MiniDom.isElement nc.kind = true →
      ∀ k, DChild.node k ∈ np.children → ∀ nk, s.get? k = some nk → MiniDom.isElement nk.kind = false) :
    ∃ s', s.appendChild p c = .ok s' ∧ s'.size = s.size ∧
      (∀ j, D.children s' j = if j = p then D.children s p ++ [.node c] else D.children s j) ∧
      (∀ j, D.parentNode s' j = if j = c then some p else D.parentNode s j) ∧
      (∀ j, D.kind s' j = D.kind s j) ∧ (∀ j, D.hdr s' j = D.hdr s j) := by
  obtain ⟨nc, hnc, hkc⟩ := hc
  have hcp : c ≠ p := fun e => hne e.symm
  have hpl := D_get?_lt s p np hnp
  have hcl := D_get?_lt s c nc hnc
  have hparc : nc.parentNode = none := by simpa [D.parentNode, D.fld, hnc] using hpar
  have hnd : MiniDom.isDocument nc.kind = false := by
    cases hk : nc.kind <;> simp_all [MiniDom.allowsNode, MiniDom.isDocument]
  have hdp : MiniDom.isDocument np.kind = true := by rw [hkp]; rfl
  have hall : MiniDom.allowsNode np.kind nc.kind = true := by rw [hkp]; exact hkc
  refine ⟨(s.put p { np with children := np.children ++ [.node c] }).put c { nc with parentNode := some p }, ?_, ?_, ?_⟩
  · simp [MiniDom.St.appendChild, MiniDom.St.argElement, MiniDom.St.docAppend, MiniDom.St.nodeAppend1,
      MiniDom.St.detach, MiniDom.St.get, D_get?_put, hnp, hnc, hdp, hnd, hall, hcp, hcl, hparc]
    intro hel x hx
    cases x with
    | text d => rfl
    | node k =>
      cases hk : s.get? k with
      | none => simp [hk]
      | some nk => simp [hk, hone nc hnc hel k hx nk hk]
  · simp
  · refine ⟨?_, ?_, ?_, ?_⟩ <;> intro j <;>
      simp only [D.children, D.parentNode, D.kind, D.hdr, D_fld_put, D_size_put, hpl, hcl, and_true] <;>
      by_cases hjc : j = c <;> by_cases hjp : j = p <;>
      simp_all [D_fld_of_get _ _ s p np hnp, D_fld_of_get _ _ s c nc hnc, MiniDom.hdrOf]

/-- **C04 (appendChild on the document: insertRoot / insertDoctype / insertComment).** On the dom side this is
`TreeBuilder.appendChild` → `Document.appendChild`; `c` a parentless element / comment / doctype and, for an element, no
document element yet (minidom allows one): both back ends succeed, invariant and abstraction are kept. -/
theorem C04_prim_appendChild_doc (sE : ETree.St) (sD : MiniDom.St) (p c : NodeId) (np : DNode)
    (hI : RepInvE sE) (hD : RepInvD sD) (hS : Sim sE sD)
    (hnp : sD.get? p = some np) (hkp : np.kind = .document) (hc : DocChildD sD c)
    (hpar : E.parent sE c = none) (hne : p ≠ c)
    (hone : ∀ nc, sD.get? c = some nc → MiniDom.isElement nc.kind = true →
      ∀ k, DChild.node k ∈ np.children → ∀ nk, sD.get? k = some nk → MiniDom.isElement nk.kind = false) :
    ∃ sE' sD', sE.appendChild p c = .ok sE' ∧ sD.appendChild p c = .ok sD' ∧
      RepInvE sE' ∧ RepInvD sD' ∧ Sim sE' sD' := by
  have hpl : p < sE.size := (sim_lt_iff hS p).mpr (D_get?_lt _ _ _ hnp)
  have hcl : c < sE.size := by obtain ⟨n, hn, _⟩ := hc; exact (sim_lt_iff hS c).mpr (D_get?_lt _ _ _ hn)
  obtain ⟨sD', hDo, hszD, hch, hpn, hkd, hhdD⟩ :=
    D_appendChild_doc_eff sD p c np hnp hkp hc (by rw [← hS.parent]; exact hpar) hne hone
  obtain ⟨sE', hE, r1, r2, r3⟩ := appendChild_core sE sD sD' p c hI hD hS hpl hcl hpar hne hszD hch hpn hhdD
  exact ⟨sE', sD', hE, hDo, r1, r2, r3⟩

/-! ## 7. splitting a child list at a node: correspondence of the two representations -/

theorem catC_nil_text (a : Canon) (M : List (NodeId × Str)) : catC a ([], M) = (a.1, a.2 ++ M) := by
  cases h : a.2 with
  | nil => simp [catC, h]
  | cons e r => simp [catC, h, catL_nil_right]

theorem canon_split_node (A R : List DChild) (x : NodeId) :
    canon (A ++ .node x :: R) = ((canon A).1, (canon A).2 ++ (x, (canon R).1) :: (canon R).2) := by
  rw [canon_append]
  simp only [canon]
  rw [catC_nil_text]

theorem canon_split_text (A R : List DChild) (d : Str) :
    canon (A ++ .text d :: R) =
      match (canon A).2 with
      | [] => ((canon A).1 ++ (d ++ (canon R).1), (canon R).2)
      | _ :: _ => ((canon A).1, catL (canon A).2 (d ++ (canon R).1) ++ (canon R).2) := by
  rw [canon_append]
  simp only [canon, catC]

/-- the tail function of a state, as a pairing -/
def tl (s : ETree.St) (k : NodeId) : NodeId × Str := (k, (E.tail s k).getD [])

theorem map_tl_fst (s : ETree.St) (l : List NodeId) : (l.map (tl s)).map Prod.fst = l := by
  simp [tl, Function.comp_def]

/-- **split correspondence**: if the etree child list of `p` splits as `a ++ x :: b` at the first `x` and the minidom
child list as `A ++ node x :: B` at the first `node x`, the parts correspond. -/
theorem split_corr (sE : ETree.St) (sD : MiniDom.St) (hS : Sim sE sD) (p x : NodeId) (a b : List NodeId)
    (A B : List DChild) (hcp : isContHdr (hdrE sE p) = true) (hk : E.kids sE p = a ++ x :: b) (hxa : x ∉ a)
    (hc : D.children sD p = A ++ .node x :: B) (hxA : DChild.node x ∉ A) :
    (E.text sE p).getD [] = (canon A).1 ∧ a.map (tl sE) = (canon A).2 ∧
    (E.tail sE x).getD [] = (canon B).1 ∧ b.map (tl sE) = (canon B).2 := by
  have h := sim_canon_acc hS p hcp
  rw [hk, hc, canon_split_node] at h
  simp only [Prod.mk.injEq, List.map_append, List.map_cons] at h
  obtain ⟨h1, h2⟩ := h
  have hxA2 : x ∉ (canon A).2.map Prod.fst := fun hm => hxA ((mem_canon_iff A x).mp hm)
  have hf := congrArg (List.map Prod.fst) h2
  simp only [List.map_append, List.map_cons, List.map_map, Function.comp_def, List.map_id'] at hf
  obtain ⟨e1, e2⟩ := split_first_unique x _ _ _ _ hf hxa hxA2
  have hlen : (a.map fun k => (k, (E.tail sE k).getD [])).length = (canon A).2.length := by
    have := congrArg List.length e1; simpa using this
  obtain ⟨g1, g2⟩ := List.append_inj h2 hlen
  simp only [List.cons.injEq, Prod.mk.injEq, true_and] at g2
  exact ⟨h1, g1, g2.1, g2.2⟩

/-- updating the tail of the last element `k` of `a` (which occurs nowhere else) appends to the last tail -/
theorem map_tl_update_last (τ τ' : NodeId → NodeId × Str) (k : NodeId) (d x : Str) (a0 rest : List NodeId)
    (hk0 : k ∉ a0) (hkr : k ∉ rest) (hτk : τ k = (k, x)) (hτ'k : τ' k = (k, x ++ d))
    (hτ : ∀ j, j ≠ k → τ' j = τ j) :
    ((a0 ++ [k]) ++ rest).map τ' = catL ((a0 ++ [k]).map τ) d ++ rest.map τ := by
  have e0 : a0.map τ' = a0.map τ := List.map_congr_left fun j hj => hτ j (fun e => hk0 (e ▸ hj))
  have er : rest.map τ' = rest.map τ := List.map_congr_left fun j hj => hτ j (fun e => hkr (e ▸ hj))
  simp only [List.map_append, List.map_cons, List.map_nil, e0, er, hτk, hτ'k, catL_append_single]


/-! ## 8. inserting a parentless node into a child list (shared by `appendChild` and `insertBefore`) -/

theorem RepInvE_insert (s s' : ETree.St) (p c : NodeId) (a b : List NodeId) (hI : RepInvE s)
    (hkp : E.kids s p = a ++ b) (hpar : E.parent s c = none)
    (hk : ∀ j, E.kids s' j = if j = p then a ++ c :: b else E.kids s j)
    (hsh : ∀ j, E.shadow s' j = if j = p then a ++ c :: b else E.shadow s j)
    (hpa : ∀ j, E.parent s' j = if j = c then some p else E.parent s j)
    (htl : ∀ j, E.tail s' j = E.tail s j) (hwr : ∀ j, E.wrapOk s' j = E.wrapOk s j) : RepInvE s' := by
  have hcnot : ∀ i, c ∉ E.kids s i := fun i hm => by
    have := hI.kidParent i c hm; rw [hpar] at this; exact absurd this (by simp)
  constructor
  · intro i
    rw [hsh, hk]
    by_cases hi : i = p
    · simp [hi]
    · simp only [hi, if_false]; exact hI.shadow i
  · intro i k hm
    rw [hk] at hm; rw [hpa]
    by_cases hkc : k = c
    · subst hkc
      by_cases hi : i = p
      · simp [hi]
      · simp only [hi, if_false] at hm; exact absurd hm (hcnot i)
    · simp only [hkc, if_false]
      by_cases hi : i = p
      · subst hi
        simp only [if_true, List.mem_append, List.mem_cons] at hm
        apply hI.kidParent
        rw [hkp]
        rcases hm with hm | hm | hm
        · exact List.mem_append_left _ hm
        · exact absurd hm hkc
        · exact List.mem_append_right _ hm
      · simp only [hi, if_false] at hm; exact hI.kidParent i k hm
  · intro k q hq
    rw [hpa] at hq; rw [hk]
    by_cases hkc : k = c
    · subst hkc
      simp only [if_true, Option.some.injEq] at hq
      subst hq; simp
    · simp only [hkc, if_false] at hq
      have := hI.parentKid k q hq
      by_cases hqp : q = p
      · subst hqp
        rw [hkp] at this
        simp only [if_true, List.mem_append, List.mem_cons]
        rcases List.mem_append.mp this with h | h
        · exact Or.inl h
        · exact Or.inr (Or.inr h)
      · simp [hqp, this]
  · intro i
    rw [hk]
    by_cases hi : i = p
    · subst hi
      simp only [if_true]
      have hnd := hI.nodup i
      rw [hkp] at hnd
      have hca : c ∉ a := fun h => hcnot i (by rw [hkp]; exact List.mem_append_left _ h)
      have hcb : c ∉ b := fun h => hcnot i (by rw [hkp]; exact List.mem_append_right _ h)
      obtain ⟨n1, n2, n3⟩ := List.nodup_append.mp hnd
      refine List.nodup_append.mpr ⟨n1, List.nodup_cons.mpr ⟨hcb, n2⟩, ?_⟩
      intro x hx y hy
      rcases List.mem_cons.mp hy with h | h
      · subst h; exact fun e => hca (e ▸ hx)
      · exact n3 x hx y h
    · simp only [hi, if_false]; exact hI.nodup i
  · intro k hq
    rw [hpa] at hq; rw [htl]
    by_cases hkc : k = c
    · simp [hkc] at hq
    · simp only [hkc, if_false] at hq; exact hI.strayTail k hq
  · intro i; rw [hwr]; exact hI.wrapper i

/-! ## 9. `insertBefore` -/

theorem E_insertBefore_eff (s : ETree.St) (p c ref : NodeId) (a b : List NodeId)
    (hp : p < s.size) (hc : c < s.size) (hr : ref < s.size) (hne : p ≠ c)
    (hkids : E.kids s p = a ++ ref :: b) (hra : ref ∉ a) (hshadow : E.shadow s p = E.kids s p) :
    ∃ s', s.insertBefore p c ref = .ok s' ∧ s'.size = s.size ∧
      (∀ j, E.kids s' j = if j = p then a ++ c :: ref :: b else E.kids s j) ∧
      (∀ j, E.shadow s' j = if j = p then a ++ c :: ref :: b else E.shadow s j) ∧
      (∀ j, E.parent s' j = if j = c then some p else E.parent s j) ∧
      (∀ j, E.text s' j = E.text s j) ∧ (∀ j, E.tail s' j = E.tail s j) ∧
      (∀ j, E.hdr s' j = E.hdr s j) ∧ (∀ j, E.wrapOk s' j = E.wrapOk s j) := by
  obtain ⟨np, hnp⟩ := E_get?_of_lt s p hp
  obtain ⟨nc, hnc⟩ := E_get?_of_lt s c hc
  obtain ⟨nr, hnr⟩ := E_get?_of_lt s ref hr
  have hcp : c ≠ p := fun e => hne e.symm
  have hk2 : np.kids = a ++ ref :: b := by simpa [E.kids, E.fld, hnp] using hkids
  have hs2 : np.childNodes = a ++ ref :: b := by
    have : np.childNodes = np.kids := by simpa [E.kids, E.shadow, E.fld, hnp] using hshadow
    rw [this, hk2]
  have hidx : pyIndex np.kids ref = some a.length := by rw [hk2]; exact pyIndex_split a b ref hra
  refine ⟨(s.put p { np with kids := pyInsert np.kids a.length c, childNodes := pyInsert np.childNodes a.length c }).put c
      { nc with parent := some p }, ?_, ?_, ?_⟩
  · simp [ETree.St.insertBefore, ETree.St.get, E_get?_put_ne _ _ _ _ hcp, hnc, hnp, hnr, hidx]
  · simp
  · have e1 : pyInsert np.kids a.length c = a ++ c :: ref :: b := by rw [hk2]; exact pyInsert_split a (ref :: b) c
    have e2 : pyInsert np.childNodes a.length c = a ++ c :: ref :: b := by rw [hs2]; exact pyInsert_split a (ref :: b) c
    rw [e1, e2]
    refine ⟨?_, ?_, ?_, ?_, ?_, ?_, ?_⟩ <;> intro j <;>
      simp only [E.kids, E.shadow, E.parent, E.text, E.tail, E.hdr, E.wrapOk, E_fld_put, E_size_put, hp, hc, and_true] <;>
      by_cases hjc : j = c <;> by_cases hjp : j = p <;>
      simp_all [E_fld_of_get _ _ s p np hnp, E_fld_of_get _ _ s c nc hnc, ETree.hdrOf, E.wrapOkN]

/-- `x` is not the document (it has an `element`) -/
def NotDocD (s : MiniDom.St) (x : NodeId) : Prop := ∃ n, s.get? x = some n ∧ MiniDom.isDocument n.kind = false

theorem D_insertBefore_eff (s : MiniDom.St) (p c ref : NodeId) (A B : List DChild)
    (hp : ContainerD s p) (hc : InsertableD s c) (hr : NotDocD s ref)
    (hpar : D.parentNode s c = none) (hne : p ≠ c)
    (hch : D.children s p = A ++ .node ref :: B) (hrA : DChild.node ref ∉ A) :
    ∃ s', s.insertBefore p c ref = .ok s' ∧ s'.size = s.size ∧
      (∀ j, D.children s' j = if j = p then A ++ .node c :: .node ref :: B else D.children s j) ∧
      (∀ j, D.parentNode s' j = if j = c then some p else D.parentNode s j) ∧
      (∀ j, D.kind s' j = D.kind s j) ∧ (∀ j, D.hdr s' j = D.hdr s j) := by
  obtain ⟨np, hnp, hkp⟩ := hp
  obtain ⟨nc, hnc, hkc⟩ := hc
  obtain ⟨nr, hnr, hkr⟩ := hr
  obtain ⟨hp1, hp2, hp3⟩ := container_facts _ hkp
  obtain ⟨hc1, hc2⟩ := insertable_facts _ hkc
  have hcp : c ≠ p := fun e => hne e.symm
  have hpl := D_get?_lt s p np hnp
  have hcl := D_get?_lt s c nc hnc
  have hparc : nc.parentNode = none := by simpa [D.parentNode, D.fld, hnc] using hpar
  have hch2 : np.children = A ++ .node ref :: B := by simpa [D.children, D.fld, hnp] using hch
  have hidx : pyIndex np.children (.node ref) = some A.length := by rw [hch2]; exact pyIndex_split A B _ hrA
  have e1 : pyInsert np.children A.length (.node c) = A ++ .node c :: .node ref :: B := by
    rw [hch2]; exact pyInsert_split A (.node ref :: B) _
  refine ⟨((s.put p { np with children := pyInsert np.children A.length (.node c) }).put c
      { nc with parentNode := some p }).put c { nc with parentNode := some p, wparent := some p }, ?_, ?_, ?_⟩
  · simp [MiniDom.St.insertBefore, MiniDom.St.argElement, MiniDom.St.nodeInsertBefore, MiniDom.St.nodeInsertBefore1,
      MiniDom.St.detach, MiniDom.St.get, D_get?_put, hnp, hnc, hnr, hkr, hp1, hp2, hp3, hc1, hc2, hkc, hcp, hne, hcl,
      hparc, hidx]
  · simp
  · rw [e1]
    refine ⟨?_, ?_, ?_, ?_⟩ <;> intro j <;>
      simp only [D.children, D.parentNode, D.kind, D.hdr, D_fld_put, D_size_put, hpl, hcl, and_true] <;>
      by_cases hjc : j = c <;> by_cases hjp : j = p <;>
      simp_all [D_fld_of_get _ _ s p np hnp, D_fld_of_get _ _ s c nc hnc, MiniDom.hdrOf]


theorem Sim_insert (sE sE' : ETree.St) (sD sD' : MiniDom.St) (p c : NodeId) (a b : List NodeId) (A B : List DChild)
    (hS : Sim sE sD) (hsz : sE'.size = sE.size) (hszD : sD'.size = sD.size)
    (hk : ∀ j, E.kids sE' j = if j = p then a ++ c :: b else E.kids sE j)
    (hpa : ∀ j, E.parent sE' j = if j = c then some p else E.parent sE j)
    (htx : ∀ j, E.text sE' j = E.text sE j) (htl : ∀ j, E.tail sE' j = E.tail sE j)
    (hhd : ∀ j, E.hdr sE' j = E.hdr sE j)
    (hch : ∀ j, D.children sD' j = if j = p then A ++ .node c :: B else D.children sD j)
    (hpn : ∀ j, D.parentNode sD' j = if j = c then some p else D.parentNode sD j)
    (hhdD : ∀ j, D.hdr sD' j = D.hdr sD j)
    (ht : (E.text sE p).getD [] = (canon A).1) (ha : a.map (tl sE) = (canon A).2)
    (hb : b.map (tl sE) = (canon B).2) (hB1 : (canon B).1 = []) (htc : (E.tail sE c).getD [] = []) :
    Sim sE' sD' := by
  constructor
  · rw [hsz, hszD]; exact hS.size
  · intro i
    rw [hdrE_eq, hdrD_eq, hhd, hhdD, ← hdrE_eq, ← hdrD_eq]; exact hS.hdr i
  · intro i hci
    have hci0 : isContHdr (hdrE sE i) = true := by rw [← contHdr_transfer sE sE' hhd i]; exact hci
    rw [canonE_eq, canonD_eq, htx, hk, hch]
    simp only [htl]
    by_cases hi : i = p
    · subst hi
      simp only [if_true, canon_split_node, List.map_append, List.map_cons, hB1]
      have ha' : a.map (fun k => (k, (E.tail sE k).getD [])) = (canon A).2 := ha
      have hb' : b.map (fun k => (k, (E.tail sE k).getD [])) = (canon B).2 := hb
      rw [ha', hb', htc, ht]
    · simp only [hi, if_false]; exact sim_canon_acc hS i hci0
  · intro i
    rw [hpa, hpn, hS.parent]

/-- **C04 (insertBefore).** `p` an element or fragment, `node` a parentless element or comment, `node ≠ p`, `refNode` a
child of `p`: both back ends succeed (no `ValueError` / `NotFoundErr`), `RepInvE` is kept (this needs the
`_childNodes.insert` line, see `C04_insertBefore_shadow`), the abstract forests stay equal. -/
theorem C04_prim_insertBefore (sE : ETree.St) (sD : MiniDom.St) (p c ref : NodeId)
    (hI : RepInvE sE) (hD : RepInvD sD) (hS : Sim sE sD)
    (hp : ContainerD sD p) (hc : InsertableD sD c) (hrd : NotDocD sD ref)
    (hpar : E.parent sE c = none) (hne : p ≠ c) (href : ref ∈ E.kids sE p) :
    ∃ sE' sD', sE.insertBefore p c ref = .ok sE' ∧ sD.insertBefore p c ref = .ok sD' ∧
      RepInvE sE' ∧ RepInvD sD' ∧ Sim sE' sD' := by
  have hpl : p < sE.size := by obtain ⟨n, hn, _⟩ := hp; exact (sim_lt_iff hS p).mpr (D_get?_lt _ _ _ hn)
  have hcl : c < sE.size := by obtain ⟨n, hn, _⟩ := hc; exact (sim_lt_iff hS c).mpr (D_get?_lt _ _ _ hn)
  have hrl : ref < sE.size := by obtain ⟨n, hn, _⟩ := hrd; exact (sim_lt_iff hS ref).mpr (D_get?_lt _ _ _ hn)
  have hcp := contHdr_of_containerD sE sD hS p hp
  obtain ⟨a, b, hkab, hra⟩ := mem_split_first _ _ href
  obtain ⟨A, B, hcAB, hrA⟩ := mem_split_first _ _ ((sim_mem_kids hS p ref hcp).mpr href)
  obtain ⟨sE', hE, hsz, hk, hsh, hpa, htx, htl, hhd, hwr⟩ :=
    E_insertBefore_eff sE p c ref a b hpl hcl hrl hne hkab hra (hI.shadow p)
  obtain ⟨sD', hDo, hszD, hch, hpn, hkd, hhdD⟩ :=
    D_insertBefore_eff sD p c ref A B hp hc hrd (by rw [← hS.parent]; exact hpar) hne hcAB hrA
  obtain ⟨c1, c2, c3, c4⟩ := split_corr sE sD hS p ref a b A B hcp hkab hra hcAB hrA
  refine ⟨sE', sD', hE, hDo, ?_, ?_, ?_⟩
  · exact RepInvE_insert sE sE' p c a (ref :: b) hI hkab hpar hk hsh hpa htl hwr
  · constructor
    intro i
    rw [hch]
    by_cases hi : i = p
    · have := hD.noEmptyText p
      rw [hcAB] at this
      simp only [hi, if_true, List.mem_append, List.mem_cons, not_or] at this ⊢
      exact ⟨this.1, by simp, this.2.1, this.2.2⟩
    · simp only [hi, if_false]; exact hD.noEmptyText i
  · refine Sim_insert sE sE' sD sD' p c a (ref :: b) A (.node ref :: B) hS hsz hszD hk hpa htx htl hhd hch hpn hhdD
      c1 c2 ?_ rfl (hI.strayTail c hpar)
    simp only [List.map_cons, canon, tl]
    rw [c3]
    exact congrArg _ c4


/-! ## 10. `removeChild` -/

theorem E_removeChild_eff (s : ETree.St) (p c : NodeId) (a b : List NodeId)
    (hp : p < s.size) (hc : c < s.size) (hne : p ≠ c)
    (hkids : E.kids s p = a ++ c :: b) (hca : c ∉ a) (hshadow : E.shadow s p = E.kids s p) :
    ∃ s', s.removeChild p c = .ok s' ∧ s'.size = s.size ∧
      (∀ j, E.kids s' j = if j = p then a ++ b else E.kids s j) ∧
      (∀ j, E.shadow s' j = if j = p then a ++ b else E.shadow s j) ∧
      (∀ j, E.parent s' j = if j = c then none else E.parent s j) ∧
      (∀ j, E.text s' j = E.text s j) ∧ (∀ j, E.tail s' j = E.tail s j) ∧
      (∀ j, E.hdr s' j = E.hdr s j) ∧ (∀ j, E.wrapOk s' j = E.wrapOk s j) := by
  obtain ⟨np, hnp⟩ := E_get?_of_lt s p hp
  obtain ⟨nc, hnc⟩ := E_get?_of_lt s c hc
  have hcp : c ≠ p := fun e => hne e.symm
  have hk2 : np.kids = a ++ c :: b := by simpa [E.kids, E.fld, hnp] using hkids
  have hs2 : np.childNodes = a ++ c :: b := by
    have : np.childNodes = np.kids := by simpa [E.kids, E.shadow, E.fld, hnp] using hshadow
    rw [this, hk2]
  have r1 : pyRemove np.kids c = some (a ++ b) := by rw [hk2]; exact pyRemove_split a b c hca
  have r2 : pyRemove np.childNodes c = some (a ++ b) := by rw [hs2]; exact pyRemove_split a b c hca
  refine ⟨(s.put p { np with childNodes := a ++ b, kids := a ++ b }).put c { nc with parent := none }, ?_, ?_, ?_⟩
  · simp [ETree.St.removeChild, ETree.St.get, E_get?_put_ne _ _ _ _ hcp, hnc, hnp, r1, r2]
  · simp
  · refine ⟨?_, ?_, ?_, ?_, ?_, ?_, ?_⟩ <;> intro j <;>
      simp only [E.kids, E.shadow, E.parent, E.text, E.tail, E.hdr, E.wrapOk, E_fld_put, E_size_put, hp, hc, and_true] <;>
      by_cases hjc : j = c <;> by_cases hjp : j = p <;>
      simp_all [E_fld_of_get _ _ s p np hnp, E_fld_of_get _ _ s c nc hnc, ETree.hdrOf, E.wrapOkN]

theorem D_removeChild_eff (s : MiniDom.St) (p c : NodeId) (A B : List DChild)
    (hp : ContainerD s p) (hc : NotDocD s c) (hpar : D.parentNode s c = some p) (hne : p ≠ c)
    (hch : D.children s p = A ++ .node c :: B) (hcA : DChild.node c ∉ A) :
    ∃ s', s.removeChild p c = .ok s' ∧ s'.size = s.size ∧
      (∀ j, D.children s' j = if j = p then A ++ B else D.children s j) ∧
      (∀ j, D.parentNode s' j = if j = c then none else D.parentNode s j) ∧
      (∀ j, D.kind s' j = D.kind s j) ∧ (∀ j, D.hdr s' j = D.hdr s j) := by
  obtain ⟨np, hnp, hkp⟩ := hp
  obtain ⟨nc, hnc, hkc⟩ := hc
  obtain ⟨hp1, hp2, hp3⟩ := container_facts _ hkp
  have hcp : c ≠ p := fun e => hne e.symm
  have hpl := D_get?_lt s p np hnp
  have hcl := D_get?_lt s c nc hnc
  have hparc : nc.parentNode = some p := by simpa [D.parentNode, D.fld, hnc] using hpar
  have hch2 : np.children = A ++ .node c :: B := by simpa [D.children, D.fld, hnp] using hch
  have r1 : pyRemove np.children (.node c) = some (A ++ B) := by rw [hch2]; exact pyRemove_split A B _ hcA
  refine ⟨((s.put p { np with children := A ++ B }).put c { nc with parentNode := none }).put c
      { nc with parentNode := none, wparent := none }, ?_, ?_, ?_⟩
  · simp [MiniDom.St.removeChild, MiniDom.St.argElement, MiniDom.St.domRemove, MiniDom.St.get, D_get?_put,
      hnp, hnc, hkc, hp1, hp2, hcp, hne, hcl, hparc, r1]
  · simp
  · refine ⟨?_, ?_, ?_, ?_⟩ <;> intro j <;>
      simp only [D.children, D.parentNode, D.kind, D.hdr, D_fld_put, D_size_put, hpl, hcl, and_true] <;>
      by_cases hjc : j = c <;> by_cases hjp : j = p <;>
      simp_all [D_fld_of_get _ _ s p np hnp, D_fld_of_get _ _ s c nc hnc, MiniDom.hdrOf]

/-- **C04 (removeChild).** `node` is a child of the element/fragment `p` and carries no tail text (no text directly
follows it): both back ends succeed (no `ValueError`), `RepInvE` is kept, the abstract forests stay equal.
Without the tail condition the etree back end removes the following text together with the node:
`C04_removeChild_tail_witness`. -/
theorem C04_prim_removeChild (sE : ETree.St) (sD : MiniDom.St) (p c : NodeId)
    (hI : RepInvE sE) (hD : RepInvD sD) (hS : Sim sE sD)
    (hp : ContainerD sD p) (hcd : NotDocD sD c) (hne : p ≠ c) (hmem : c ∈ E.kids sE p)
    (htail : (E.tail sE c).getD [] = []) :
    ∃ sE' sD', sE.removeChild p c = .ok sE' ∧ sD.removeChild p c = .ok sD' ∧
      RepInvE sE' ∧ RepInvD sD' ∧ Sim sE' sD' := by
  have hpl : p < sE.size := by obtain ⟨n, hn, _⟩ := hp; exact (sim_lt_iff hS p).mpr (D_get?_lt _ _ _ hn)
  have hcl : c < sE.size := by obtain ⟨n, hn, _⟩ := hcd; exact (sim_lt_iff hS c).mpr (D_get?_lt _ _ _ hn)
  have hcp := contHdr_of_containerD sE sD hS p hp
  obtain ⟨a, b, hkab, hca⟩ := mem_split_first _ _ hmem
  obtain ⟨A, B, hcAB, hcA⟩ := mem_split_first _ _ ((sim_mem_kids hS p c hcp).mpr hmem)
  have hparE : E.parent sE c = some p := hI.kidParent p c hmem
  obtain ⟨sE', hE, hsz, hk, hsh, hpa, htx, htl, hhd, hwr⟩ :=
    E_removeChild_eff sE p c a b hpl hcl hne hkab hca (hI.shadow p)
  obtain ⟨sD', hDo, hszD, hch, hpn, hkd, hhdD⟩ :=
    D_removeChild_eff sD p c A B hp hcd (by rw [← hS.parent]; exact hparE) hne hcAB hcA
  obtain ⟨c1, c2, c3, c4⟩ := split_corr sE sD hS p c a b A B hcp hkab hca hcAB hcA
  have hnd := hI.nodup p
  rw [hkab] at hnd
  obtain ⟨n1, n2, n3⟩ := List.nodup_append.mp hnd
  have hcb : c ∉ b := (List.nodup_cons.mp n2).1
  refine ⟨sE', sD', hE, hDo, ?_, ?_, ?_⟩
  · constructor
    · intro i
      rw [hsh, hk]
      by_cases hi : i = p
      · simp [hi]
      · simp only [hi, if_false]; exact hI.shadow i
    · intro i k hm
      rw [hk] at hm; rw [hpa]
      have hkc : k ≠ c := by
        intro e; subst e
        by_cases hi : i = p
        · simp only [hi, if_true, List.mem_append] at hm
          exact hm.elim hca hcb
        · simp only [hi, if_false] at hm
          have := hI.kidParent i k hm
          rw [hparE] at this
          exact hi (Option.some.inj this).symm
      simp only [hkc, if_false]
      by_cases hi : i = p
      · subst hi
        simp only [if_true] at hm
        apply hI.kidParent; rw [hkab]
        rcases List.mem_append.mp hm with h | h
        · exact List.mem_append_left _ h
        · exact List.mem_append_right _ (List.mem_cons_of_mem _ h)
      · simp only [hi, if_false] at hm; exact hI.kidParent i k hm
    · intro k q hq
      rw [hpa] at hq; rw [hk]
      by_cases hkc : k = c
      · simp [hkc] at hq
      · simp only [hkc, if_false] at hq
        have := hI.parentKid k q hq
        by_cases hqp : q = p
        · subst hqp
          rw [hkab] at this
          simp only [if_true, List.mem_append]
          rcases List.mem_append.mp this with h | h
          · exact Or.inl h
          · rcases List.mem_cons.mp h with h | h
            · exact absurd h hkc
            · exact Or.inr h
        · simp [hqp, this]
    · intro i
      rw [hk]
      by_cases hi : i = p
      · simp only [hi, if_true]
        exact List.nodup_append.mpr ⟨n1, (List.nodup_cons.mp n2).2, fun x hx y hy => n3 x hx y (List.mem_cons_of_mem _ hy)⟩
      · simp only [hi, if_false]; exact hI.nodup i
    · intro k hq
      rw [hpa] at hq; rw [htl]
      by_cases hkc : k = c
      · rw [hkc]; exact htail
      · simp only [hkc, if_false] at hq; exact hI.strayTail k hq
    · intro i; rw [hwr]; exact hI.wrapper i
  · constructor
    intro i
    rw [hch]
    by_cases hi : i = p
    · have := hD.noEmptyText p
      rw [hcAB] at this
      simp only [hi, if_true, List.mem_append, List.mem_cons, not_or] at this ⊢
      exact ⟨this.1, this.2.2⟩
    · simp only [hi, if_false]; exact hD.noEmptyText i
  · constructor
    · rw [hsz, hszD]; exact hS.size
    · intro i
      rw [hdrE_eq, hdrD_eq, hhd, hhdD, ← hdrE_eq, ← hdrD_eq]; exact hS.hdr i
    · intro i hci
      have hci0 : isContHdr (hdrE sE i) = true := by rw [← contHdr_transfer sE sE' hhd i]; exact hci
      rw [canonE_eq, canonD_eq, htx, hk, hch]
      simp only [htl]
      by_cases hi : i = p
      · subst hi
        have hB1 : (canon B).1 = [] := by rw [← c3]; exact htail
        have ha' : a.map (fun k => (k, (E.tail sE k).getD [])) = (canon A).2 := c2
        have hb' : b.map (fun k => (k, (E.tail sE k).getD [])) = (canon B).2 := c4
        have hcb2 : canon B = ([], (canon B).2) := by rw [← hB1]
        simp only [if_true, List.map_append, canon_append, ha', hb', c1]
        rw [hcb2, catC_nil_text]
      · simp only [hi, if_false]; exact sim_canon_acc hS i hci0
    · intro i
      rw [hpa, hpn, hS.parent]


/-! ## 11. `insertText` (three cases) and `hasContent` -/

/-- the header of a document / fragment / element node does not depend on its `text` -/
theorem hdrOf_text_irrelevant (n : ENode) (t : Option Str) (h : isContainerTree (ETree.hdrOf n) = true) :
    ETree.hdrOf { n with text := t } = ETree.hdrOf n := by
  unfold ETree.hdrOf at h ⊢
  cases htag : n.tag with
  | commentFn => simp [htag, isContainerTree] at h
  | str tg =>
    simp only [htag] at h ⊢
    by_cases h1 : tg = ETree.sDocRoot
    · simp [h1]
    · by_cases h2 : tg = ETree.sDocFrag
      · simp [h1, h2]
      · by_cases h3 : tg = ETree.sDoctype
        · subst h3; simp [h1, h2, isContainerTree] at h
        · simp [h1, h2, h3]

/-- state change "the `text` of `p` becomes `t`" -/
theorem E_setText_eff (s : ETree.St) (p : NodeId) (np : ENode) (t : Option Str) (hnp : s.get? p = some np)
    (hcont : isContainerTree (ETree.hdrOf np) = true) :
    let s' := s.put p { np with text := t }
    s'.size = s.size ∧ (∀ j, E.kids s' j = E.kids s j) ∧ (∀ j, E.shadow s' j = E.shadow s j) ∧
      (∀ j, E.parent s' j = E.parent s j) ∧ (∀ j, E.text s' j = if j = p then t else E.text s j) ∧
      (∀ j, E.tail s' j = E.tail s j) ∧ (∀ j, E.hdr s' j = E.hdr s j) ∧ (∀ j, E.wrapOk s' j = E.wrapOk s j) := by
  have hp := E_get?_lt s p np hnp
  have hh := hdrOf_text_irrelevant np t hcont
  refine ⟨by simp, ?_, ?_, ?_, ?_, ?_, ?_, ?_⟩ <;> intro j <;>
    simp only [E.kids, E.shadow, E.parent, E.text, E.tail, E.hdr, E.wrapOk, E_fld_put, hp, and_true] <;>
    by_cases hjp : j = p <;> simp_all [E_fld_of_get _ _ s p np hnp, E.wrapOkN]

/-- state change "the `tail` of `k` becomes `t`" -/
theorem E_setTail_eff (s : ETree.St) (k : NodeId) (nk : ENode) (t : Option Str) (hnk : s.get? k = some nk) :
    let s' := s.put k { nk with tail := t }
    s'.size = s.size ∧ (∀ j, E.kids s' j = E.kids s j) ∧ (∀ j, E.shadow s' j = E.shadow s j) ∧
      (∀ j, E.parent s' j = E.parent s j) ∧ (∀ j, E.text s' j = E.text s j) ∧
      (∀ j, E.tail s' j = if j = k then t else E.tail s j) ∧ (∀ j, E.hdr s' j = E.hdr s j) ∧
      (∀ j, E.wrapOk s' j = E.wrapOk s j) := by
  have hp := E_get?_lt s k nk hnk
  refine ⟨by simp, ?_, ?_, ?_, ?_, ?_, ?_, ?_⟩ <;> intro j <;>
    simp only [E.kids, E.shadow, E.parent, E.text, E.tail, E.hdr, E.wrapOk, E_fld_put, hp, and_true] <;>
    by_cases hjp : j = k <;> simp_all [E_fld_of_get _ _ s k nk hnk, E.wrapOkN, ETree.hdrOf]

/-- `RepInvE` only looks at `kids`, `_childNodes`, `parent`, the wrapper fields, and the tails of parentless nodes -/
theorem RepInvE_of_eq (s s' : ETree.St) (hI : RepInvE s)
    (hk : ∀ j, E.kids s' j = E.kids s j) (hsh : ∀ j, E.shadow s' j = E.shadow s j)
    (hpa : ∀ j, E.parent s' j = E.parent s j)
    (htl : ∀ j, E.parent s j = none → E.tail s' j = E.tail s j)
    (hwr : ∀ j, E.wrapOk s j → E.wrapOk s' j) : RepInvE s' := by
  constructor
  · intro i; rw [hsh, hk]; exact hI.shadow i
  · intro i c hm; rw [hk] at hm; rw [hpa]; exact hI.kidParent i c hm
  · intro c q hq; rw [hpa] at hq; rw [hk]; exact hI.parentKid c q hq
  · intro i; rw [hk]; exact hI.nodup i
  · intro c hq; rw [hpa] at hq; rw [htl c hq]; exact hI.strayTail c hq
  · intro i; exact hwr i (hI.wrapper i)

theorem canon_append_text (l : List DChild) (d : Str) :
    canon (l ++ [.text d]) = match (canon l).2 with
      | [] => ((canon l).1 ++ d, [])
      | _ :: _ => ((canon l).1, catL (canon l).2 d) := by
  rw [canon_append]
  cases h : (canon l).2 <;> simp [catC, h, canon]

/-- effect of `NodeBuilder.insertText(data)` (append a Text node) -/
theorem D_insertText_append_eff (s : MiniDom.St) (p : NodeId) (d : Str) (hp : ContainerD s p) :
    ∃ s', s.insertText p d none = .ok s' ∧ s'.size = s.size ∧
      (∀ j, D.children s' j = if j = p then D.children s p ++ [.text d] else D.children s j) ∧
      (∀ j, D.parentNode s' j = D.parentNode s j) ∧
      (∀ j, D.kind s' j = D.kind s j) ∧ (∀ j, D.hdr s' j = D.hdr s j) := by
  obtain ⟨np, hnp, hkp⟩ := hp
  obtain ⟨hp1, hp2, hp3⟩ := container_facts _ hkp
  have hpl := D_get?_lt s p np hnp
  refine ⟨s.put p { np with children := np.children ++ [.text d] }, ?_, ?_, ?_⟩
  · simp [MiniDom.St.insertText, MiniDom.St.get, hnp, hp1, hp2, hkp]
  · simp
  · refine ⟨?_, ?_, ?_, ?_⟩ <;> intro j <;>
      simp only [D.children, D.parentNode, D.kind, D.hdr, D_fld_put, hpl, and_true] <;>
      by_cases hjp : j = p <;> simp_all [D_fld_of_get _ _ s p np hnp, MiniDom.hdrOf]

/-- effect of `NodeBuilder.insertText(data, insertBefore)` -/
theorem D_insertText_before_eff (s : MiniDom.St) (p ref : NodeId) (d : Str) (A B : List DChild)
    (hp : ContainerD s p) (hr : NotDocD s ref)
    (hch : D.children s p = A ++ .node ref :: B) (hrA : DChild.node ref ∉ A) :
    ∃ s', s.insertText p d (some ref) = .ok s' ∧ s'.size = s.size ∧
      (∀ j, D.children s' j = if j = p then A ++ .text d :: .node ref :: B else D.children s j) ∧
      (∀ j, D.parentNode s' j = D.parentNode s j) ∧
      (∀ j, D.kind s' j = D.kind s j) ∧ (∀ j, D.hdr s' j = D.hdr s j) := by
  obtain ⟨np, hnp, hkp⟩ := hp
  obtain ⟨nr, hnr, hkr⟩ := hr
  obtain ⟨hp1, hp2, hp3⟩ := container_facts _ hkp
  have hpl := D_get?_lt s p np hnp
  have hch2 : np.children = A ++ .node ref :: B := by simpa [D.children, D.fld, hnp] using hch
  have hidx : pyIndex np.children (.node ref) = some A.length := by rw [hch2]; exact pyIndex_split A B _ hrA
  have e1 : pyInsert np.children A.length (.text d) = A ++ .text d :: .node ref :: B := by
    rw [hch2]; exact pyInsert_split A (.node ref :: B) _
  refine ⟨s.put p { np with children := pyInsert np.children A.length (.text d) }, ?_, ?_, ?_⟩
  · simp [MiniDom.St.insertText, MiniDom.St.argElement, MiniDom.St.textInsertBefore, MiniDom.St.get, hnp, hnr, hkr,
      hp1, hp2, hkp, hidx]
  · simp
  · rw [e1]
    refine ⟨?_, ?_, ?_, ?_⟩ <;> intro j <;>
      simp only [D.children, D.parentNode, D.kind, D.hdr, D_fld_put, hpl, and_true] <;>
      by_cases hjp : j = p <;> simp_all [D_fld_of_get _ _ s p np hnp, MiniDom.hdrOf]

theorem RepInvD_text_insert (s s' : MiniDom.St) (p : NodeId) (d : Str) (A B : List DChild) (hD : RepInvD s)
    (hd : d ≠ []) (hAB : D.children s p = A ++ B)
    (hch : ∀ j, D.children s' j = if j = p then A ++ .text d :: B else D.children s j) : RepInvD s' := by
  constructor
  intro i
  rw [hch]
  by_cases hi : i = p
  · have := hD.noEmptyText p
    rw [hAB] at this
    simp only [hi, if_true, List.mem_append, List.mem_cons, not_or] at this ⊢
    exact ⟨this.1, by simpa using fun e => hd e, this.2⟩
  · simp only [hi, if_false]; exact hD.noEmptyText i


theorem getD_addStr (o : Option Str) (d : Str) : (addStr o d).getD [] = o.getD [] ++ d := rfl

/-- `Sim` after "text of `p` += d" on the etree side and a change of `p`'s child list on the dom side -/
theorem Sim_of_text (sE sE' : ETree.St) (sD sD' : MiniDom.St) (p : NodeId) (t : Option Str) (l' : List DChild)
    (hS : Sim sE sD) (hsz : sE'.size = sE.size) (hszD : sD'.size = sD.size)
    (hk : ∀ j, E.kids sE' j = E.kids sE j) (hpa : ∀ j, E.parent sE' j = E.parent sE j)
    (htx : ∀ j, E.text sE' j = if j = p then t else E.text sE j) (htl : ∀ j, E.tail sE' j = E.tail sE j)
    (hhd : ∀ j, E.hdr sE' j = E.hdr sE j)
    (hch : ∀ j, D.children sD' j = if j = p then l' else D.children sD j)
    (hpn : ∀ j, D.parentNode sD' j = D.parentNode sD j) (hhdD : ∀ j, D.hdr sD' j = D.hdr sD j)
    (hcan : (t.getD [], (E.kids sE p).map (tl sE)) = canon l') : Sim sE' sD' := by
  constructor
  · rw [hsz, hszD]; exact hS.size
  · intro i
    rw [hdrE_eq, hdrD_eq, hhd, hhdD, ← hdrE_eq, ← hdrD_eq]; exact hS.hdr i
  · intro i hci
    have hci0 : isContHdr (hdrE sE i) = true := by rw [← contHdr_transfer sE sE' hhd i]; exact hci
    rw [canonE_eq, canonD_eq, htx, hk, hch]
    simp only [htl]
    by_cases hi : i = p
    · subst hi; simp only [if_true]; exact hcan
    · simp only [hi, if_false]; exact sim_canon_acc hS i hci0
  · intro i
    rw [hpa, hpn, hS.parent]

/-- `Sim` after "tail of `k` += d" (`k` a child of `p` only) on the etree side and a change of `p`'s child list on the
dom side -/
theorem Sim_of_tail (sE sE' : ETree.St) (sD sD' : MiniDom.St) (p k : NodeId) (d : Str) (l' : List DChild)
    (hI : RepInvE sE) (hS : Sim sE sD) (hsz : sE'.size = sE.size) (hszD : sD'.size = sD.size)
    (hkp : E.parent sE k = some p)
    (hk : ∀ j, E.kids sE' j = E.kids sE j) (hpa : ∀ j, E.parent sE' j = E.parent sE j)
    (htx : ∀ j, E.text sE' j = E.text sE j)
    (htl : ∀ j, E.tail sE' j = if j = k then addStr (E.tail sE k) d else E.tail sE j)
    (hhd : ∀ j, E.hdr sE' j = E.hdr sE j)
    (hch : ∀ j, D.children sD' j = if j = p then l' else D.children sD j)
    (hpn : ∀ j, D.parentNode sD' j = D.parentNode sD j) (hhdD : ∀ j, D.hdr sD' j = D.hdr sD j)
    (hcan : ((E.text sE p).getD [], (E.kids sE p).map (tl sE')) = canon l') : Sim sE' sD' := by
  constructor
  · rw [hsz, hszD]; exact hS.size
  · intro i
    rw [hdrE_eq, hdrD_eq, hhd, hhdD, ← hdrE_eq, ← hdrD_eq]; exact hS.hdr i
  · intro i hci
    have hci0 : isContHdr (hdrE sE i) = true := by rw [← contHdr_transfer sE sE' hhd i]; exact hci
    rw [canonE_eq, canonD_eq, htx, hk, hch]
    by_cases hi : i = p
    · subst hi; simp only [if_true]; exact hcan
    · simp only [hi, if_false]
      rw [← sim_canon_acc hS i hci0]
      congr 1
      apply List.map_congr_left
      intro j hj
      have hjk : j ≠ k := by
        intro e; subst e
        have := hI.kidParent i j hj
        rw [hkp] at this
        exact hi (Option.some.inj this).symm
      rw [htl]; simp [hjk]
  · intro i
    rw [hpa, hpn, hS.parent]

/-- **C04 (insertText, case 1: the element has no child element).** `text += data` on the etree side, a new Text node
appended on the dom side. -/
theorem C04_prim_insertText_noChild (sE : ETree.St) (sD : MiniDom.St) (p : NodeId) (d : Str)
    (hI : RepInvE sE) (hD : RepInvD sD) (hS : Sim sE sD)
    (hp : ContainerD sD p) (hd : d ≠ []) (hkids : E.kids sE p = []) :
    ∃ sE' sD', sE.insertText p d none = .ok sE' ∧ sD.insertText p d none = .ok sD' ∧
      RepInvE sE' ∧ RepInvD sD' ∧ Sim sE' sD' := by
  obtain ⟨np, hnp, hcont⟩ := container_hdr sE sD hS p hp
  have hk2 : np.kids = [] := by simpa [E.kids, E.fld, hnp] using hkids
  obtain ⟨hsz, hk, hsh, hpa, htx, htl, hhd, hwr⟩ := E_setText_eff sE p np (addStr np.text d) hnp hcont
  obtain ⟨sD', hDo, hszD, hch, hpn, hkd, hhdD⟩ := D_insertText_append_eff sD p d hp
  refine ⟨sE.put p { np with text := addStr np.text d }, sD', ?_, hDo, ?_, ?_, ?_⟩
  · simp [ETree.St.insertText, ETree.St.get, hnp, hk2]
  · exact RepInvE_of_eq sE _ hI hk hsh hpa (fun j _ => htl j) (fun j h => (hwr j) ▸ h)
  · exact RepInvD_text_insert sD sD' p d (D.children sD p) [] hD hd (by simp) (by simpa using hch)
  · refine Sim_of_text sE _ sD sD' p (addStr np.text d) _ hS hsz hszD hk hpa htx htl hhd hch hpn hhdD ?_
    have hc := sim_canon_acc hS p (contHdr_of_containerD sE sD hS p hp)
    rw [hkids] at hc ⊢
    simp only [List.map_nil] at hc ⊢
    have h2 : (canon (D.children sD p)).2 = [] := by rw [← hc]
    have h1 : (canon (D.children sD p)).1 = (E.text sE p).getD [] := by rw [← hc]
    rw [canon_append_text, h2, h1, getD_addStr]
    simp [E.text, E.fld, hnp]

/-- **C04 (insertText, case 2: `insertBefore is None`, there is a child element).** the last child's `tail += data`
on the etree side, a new Text node appended on the dom side. -/
theorem C04_prim_insertText_append (sE : ETree.St) (sD : MiniDom.St) (p : NodeId) (d : Str)
    (hI : RepInvE sE) (hD : RepInvD sD) (hS : Sim sE sD)
    (hp : ContainerD sD p) (hd : d ≠ []) (hkids : E.kids sE p ≠ []) :
    ∃ sE' sD', sE.insertText p d none = .ok sE' ∧ sD.insertText p d none = .ok sD' ∧
      RepInvE sE' ∧ RepInvD sD' ∧ Sim sE' sD' := by
  obtain ⟨np, hnp, hcont⟩ := container_hdr sE sD hS p hp
  obtain ⟨k, hlast⟩ : ∃ k, (E.kids sE p).getLast? = some k := by
    cases h : (E.kids sE p).getLast? with
    | none => exact absurd (List.getLast?_eq_none_iff.mp h) hkids
    | some k => exact ⟨k, rfl⟩
  obtain ⟨a0, ha0⟩ := List.getLast?_eq_some_iff.mp hlast
  have hk2 : np.kids = a0 ++ [k] := by simpa [E.kids, E.fld, hnp] using ha0
  have hkmem : k ∈ E.kids sE p := by rw [ha0]; simp
  have hkpar : E.parent sE k = some p := hI.kidParent p k hkmem
  obtain ⟨nk, hnk⟩ : ∃ nk, sE.get? k = some nk := by
    cases h : sE.get? k with
    | none => simp [E.parent, E.fld, h] at hkpar
    | some nk => exact ⟨nk, rfl⟩
  have hnd := hI.nodup p
  rw [ha0] at hnd
  have hka0 : k ∉ a0 := fun h => (List.nodup_append.mp hnd).2.2 k h k (by simp) rfl
  obtain ⟨hsz, hk, hsh, hpa, htx, htl, hhd, hwr⟩ := E_setTail_eff sE k nk (addStr nk.tail d) hnk
  obtain ⟨sD', hDo, hszD, hch, hpn, hkd, hhdD⟩ := D_insertText_append_eff sD p d hp
  have htk : E.tail sE k = nk.tail := by simp [E.tail, E.fld, hnk]
  refine ⟨sE.put k { nk with tail := addStr nk.tail d }, sD', ?_, hDo, ?_, ?_, ?_⟩
  · simp [ETree.St.insertText, ETree.St.get, hnp, hk2, hnk]
  · refine RepInvE_of_eq sE _ hI hk hsh hpa (fun j hj => ?_) (fun j h => (hwr j) ▸ h)
    rw [htl]
    have : j ≠ k := fun e => by rw [e, hkpar] at hj; simp at hj
    simp [this]
  · exact RepInvD_text_insert sD sD' p d (D.children sD p) [] hD hd (by simp) (by simpa using hch)
  · refine Sim_of_tail sE _ sD sD' p k d _ hI hS hsz hszD hkpar hk hpa htx (by intro j; rw [htl, htk]) hhd hch hpn
      hhdD ?_
    have hc := sim_canon_acc hS p (contHdr_of_containerD sE sD hS p hp)
    rw [ha0] at hc ⊢
    have hmap := map_tl_update_last (tl sE) (tl (sE.put k { nk with tail := addStr nk.tail d })) k d
      ((E.tail sE k).getD []) a0 [] hka0 (by simp) rfl
      (by simp only [tl, htl, if_true, htk, getD_addStr])
      (by intro j hj; simp only [tl, htl, hj, if_false])
    simp only [List.append_nil, List.map_nil] at hmap
    rw [hmap, canon_append_text]
    have h2 : (canon (D.children sD p)).2 = (a0 ++ [k]).map (tl sE) := by rw [← hc]; rfl
    have h1 : (canon (D.children sD p)).1 = (E.text sE p).getD [] := by rw [← hc]
    rw [h2, h1]
    cases hh : (a0 ++ [k]).map (tl sE) with
    | nil => simp at hh
    | cons e r => rfl


/-- **C04 (insertText, case 3: before a child element).** `refNode` a child of `p`: the previous sibling's
`tail += data` (or `text += data` for the first child) on the etree side, a new Text node inserted before `refNode` on
the dom side; no `ValueError` / `NotFoundErr`. -/
theorem C04_prim_insertText_before (sE : ETree.St) (sD : MiniDom.St) (p ref : NodeId) (d : Str)
    (hI : RepInvE sE) (hD : RepInvD sD) (hS : Sim sE sD)
    (hp : ContainerD sD p) (hrd : NotDocD sD ref) (hd : d ≠ []) (href : ref ∈ E.kids sE p) :
    ∃ sE' sD', sE.insertText p d (some ref) = .ok sE' ∧ sD.insertText p d (some ref) = .ok sD' ∧
      RepInvE sE' ∧ RepInvD sD' ∧ Sim sE' sD' := by
  obtain ⟨np, hnp, hcont⟩ := container_hdr sE sD hS p hp
  have hrl : ref < sE.size := by obtain ⟨n, hn, _⟩ := hrd; exact (sim_lt_iff hS ref).mpr (D_get?_lt _ _ _ hn)
  obtain ⟨nr, hnr⟩ := E_get?_of_lt sE ref hrl
  have hcp := contHdr_of_containerD sE sD hS p hp
  obtain ⟨a, b, hkab, hra⟩ := mem_split_first _ _ href
  obtain ⟨A, B, hcAB, hrA⟩ := mem_split_first _ _ ((sim_mem_kids hS p ref hcp).mpr href)
  obtain ⟨c1, c2, c3, c4⟩ := split_corr sE sD hS p ref a b A B hcp hkab hra hcAB hrA
  have hk2 : np.kids = a ++ ref :: b := by simpa [E.kids, E.fld, hnp] using hkab
  have hidx : pyIndex np.kids ref = some a.length := by rw [hk2]; exact pyIndex_split a b ref hra
  obtain ⟨last, hlast⟩ : ∃ l, np.kids.getLast? = some l := by
    cases h : np.kids.getLast? with
    | none => rw [hk2] at h; simp at h
    | some l => exact ⟨l, rfl⟩
  obtain ⟨sD', hDo, hszD, hch, hpn, hkd, hhdD⟩ := D_insertText_before_eff sD p ref d A B hp hrd hcAB hrA
  have hRD : RepInvD sD' := RepInvD_text_insert sD sD' p d A (.node ref :: B) hD hd hcAB hch
  have hcanR : canon (DChild.node ref :: B) = ([], (ref, (canon B).1) :: (canon B).2) := rfl
  rcases List.eq_nil_or_concat a with ha | ⟨a0, k, ha⟩
  · -- first child: `text += data`
    subst ha
    obtain ⟨hsz, hk, hsh, hpa, htx, htl, hhd, hwr⟩ := E_setText_eff sE p np (addStr np.text d) hnp hcont
    refine ⟨sE.put p { np with text := addStr np.text d }, sD', ?_, hDo, ?_, hRD, ?_⟩
    · simp only [List.length_nil] at hidx
      simp [ETree.St.insertText, ETree.St.get, hnp, hnr, hlast, hidx]
    · exact RepInvE_of_eq sE _ hI hk hsh hpa (fun j _ => htl j) (fun j h => (hwr j) ▸ h)
    · refine Sim_of_text sE _ sD sD' p (addStr np.text d) _ hS hsz hszD hk hpa htx htl hhd hch hpn hhdD ?_
      simp only [List.map_nil] at c2
      rw [canon_split_text, ← c2, hcanR, getD_addStr, hkab]
      simp only [List.nil_append, List.append_nil, List.map_cons, Prod.mk.injEq]
      refine ⟨?_, ?_⟩
      · rw [← c1]; simp [E.text, E.fld, hnp]
      · simp only [tl]; rw [c3]; exact congrArg _ c4
  · -- `tail += data` of the previous sibling `k`
    rw [List.concat_eq_append] at ha
    subst ha
    have hkmem : k ∈ E.kids sE p := by rw [hkab]; simp
    have hkpar : E.parent sE k = some p := hI.kidParent p k hkmem
    obtain ⟨nk, hnk⟩ : ∃ nk, sE.get? k = some nk := by
      cases h : sE.get? k with
      | none => simp [E.parent, E.fld, h] at hkpar
      | some nk => exact ⟨nk, rfl⟩
    have hnd := hI.nodup p
    rw [hkab] at hnd
    obtain ⟨n1, n2, n3⟩ := List.nodup_append.mp hnd
    have hka0 : k ∉ a0 := fun h => (List.nodup_append.mp n1).2.2 k h k (by simp) rfl
    have hkrest : k ∉ ref :: b := fun h => n3 k (by simp) k h rfl
    obtain ⟨hsz, hk, hsh, hpa, htx, htl, hhd, hwr⟩ := E_setTail_eff sE k nk (addStr nk.tail d) hnk
    have htk : E.tail sE k = nk.tail := by simp [E.tail, E.fld, hnk]
    refine ⟨sE.put k { nk with tail := addStr nk.tail d }, sD', ?_, hDo, ?_, hRD, ?_⟩
    · have hidx2 : pyIndex np.kids ref = some (a0.length + 1) := by rw [hidx]; simp
      have hget : np.kids[a0.length]? = some k := by rw [hk2]; simp
      simp [ETree.St.insertText, ETree.St.get, hnp, hnr, hlast, hidx2, hget, hnk]
    · refine RepInvE_of_eq sE _ hI hk hsh hpa (fun j hj => ?_) (fun j h => (hwr j) ▸ h)
      rw [htl]
      have : j ≠ k := fun e => by rw [e, hkpar] at hj; simp at hj
      simp [this]
    · refine Sim_of_tail sE _ sD sD' p k d _ hI hS hsz hszD hkpar hk hpa htx (by intro j; rw [htl, htk]) hhd hch hpn
        hhdD ?_
      have hmap := map_tl_update_last (tl sE) (tl (sE.put k { nk with tail := addStr nk.tail d })) k d
        ((E.tail sE k).getD []) a0 (ref :: b) hka0 hkrest rfl
        (by simp only [tl, htl, if_true, htk, getD_addStr])
        (by intro j hj; simp only [tl, htl, hj, if_false])
      rw [hkab, hmap, canon_split_text, ← c2, hcanR, c1]
      have hb : (ref :: b).map (tl sE) = (ref, (canon B).1) :: (canon B).2 := by
        simp only [List.map_cons, tl]; rw [c3]; exact congrArg _ c4
      rw [hb]
      cases hh : (a0 ++ [k]).map (tl sE) with
      | nil => simp at hh
      | cons e r => simp

/-- **C04 (hasContent).** For an element / fragment, `bool(text or len(element))` and `hasChildNodes()` agree
(`RepInvD`: the dom side has no empty Text node). -/
theorem C04_prim_hasContent (sE : ETree.St) (sD : MiniDom.St) (p : NodeId)
    (hD : RepInvD sD) (hS : Sim sE sD) (hp : ContainerD sD p) :
    ∃ r, sE.hasContent p = .ok r ∧ sD.hasContent p = .ok r := by
  obtain ⟨np, hnp, _⟩ := container_hdr sE sD hS p hp
  have hc := sim_canon_acc hS p (contHdr_of_containerD sE sD hS p hp)
  obtain ⟨nD, hnD, hk⟩ := hp
  obtain ⟨hp1, hp2, _⟩ := container_facts _ hk
  simp only [E.text, E.kids, E.fld, hnp, D.children, D.fld, hnD] at hc
  have hne := hD.noEmptyText p
  simp only [D.children, D.fld, hnD] at hne
  refine ⟨!nD.children.isEmpty, ?_, ?_⟩
  · simp only [ETree.St.hasContent, ETree.St.get, hnp, bind, Except.bind, pure, Except.pure]
    congr 1
    by_cases hnil : nD.children = []
    · rw [hnil] at hc
      simp only [canon, Prod.mk.injEq, List.map_eq_nil_iff] at hc
      cases ht : np.text with
      | none => simp [truthy, hc.2, hnil]
      | some t => rw [ht] at hc; simp at hc; simp [truthy, hc.1, hc.2, hnil]
    · have hcn : canon nD.children ≠ ([], []) := fun e => hnil ((canon_eq_nil_iff _ hne).mp e)
      rw [← hc] at hcn
      have : nD.children.isEmpty = false := by simpa using hnil
      rw [this]
      cases hk2 : np.kids with
      | cons e r => simp
      | nil =>
        rw [hk2] at hcn
        cases ht : np.text with
        | none => rw [ht] at hcn; simp at hcn
        | some t =>
          rw [ht] at hcn
          cases t with
          | nil => simp at hcn
          | cons x y => simp [truthy]
  · simp [MiniDom.St.hasContent, MiniDom.St.get, hnD, hp1, hp2]


/-! ## 12. a decidable check of `RepInvE`, and the witnesses -/

def wrapOkb (n : ENode) : Bool :=
  !(decide (n.cls = .element)) || (match n.name with
    | some nm => decide (n.tag = .str (etreeTag nm n.ns))
    | none => false)

def nodupb : List NodeId → Bool
  | [] => true
  | x :: r => !r.contains x && nodupb r

theorem nodupb_sound (l : List NodeId) (h : nodupb l = true) : l.Nodup := by
  induction l with
  | nil => exact List.nodup_nil
  | cons x r ih =>
    simp only [nodupb, Bool.and_eq_true, Bool.not_eq_true', List.contains_eq_mem, decide_eq_false_iff_not] at h
    exact List.nodup_cons.mpr ⟨h.1, ih h.2⟩

/-- executable form of `RepInvE` (checks the allocated nodes; everything holds trivially beyond them) -/
def repInvEb (s : ETree.St) : Bool :=
  (List.range s.size).all fun i =>
    (E.shadow s i == E.kids s i) &&
    (E.kids s i).all (fun c => E.parent s c == some i) &&
    (match E.parent s i with
      | some p => (E.kids s p).contains i
      | none => (E.tail s i).getD [] == []) &&
    nodupb (E.kids s i) &&
    (match s.get? i with
      | some n => wrapOkb n
      | none => true)

theorem E_fld_none {α} (f : ENode → α) (d : α) (s : ETree.St) (i : NodeId) (h : s.size ≤ i) : E.fld f d s i = d := by
  simp [E.fld, E_get?_none s i h]

theorem repInvEb_sound (s : ETree.St) (h : repInvEb s = true) : RepInvE s := by
  have hall : ∀ i, i < s.size →
      E.shadow s i = E.kids s i ∧ (∀ c, c ∈ E.kids s i → E.parent s c = some i) ∧
      (∀ p, E.parent s i = some p → i ∈ E.kids s p) ∧ (E.parent s i = none → (E.tail s i).getD [] = []) ∧
      (E.kids s i).Nodup ∧ E.wrapOk s i := by
    intro i hi
    simp only [repInvEb, List.all_eq_true, List.mem_range, Bool.and_eq_true] at h
    obtain ⟨⟨⟨⟨h1, h2⟩, h3⟩, h4⟩, h5⟩ := h i hi
    refine ⟨by simpa using h1, ?_, ?_, ?_, nodupb_sound _ h4, ?_⟩
    · intro c hc
      simpa using h2 c hc
    · intro p hp; rw [hp] at h3; simpa using h3
    · intro hp; rw [hp] at h3; simpa using h3
    · obtain ⟨n, hn⟩ := E_get?_of_lt s i hi
      rw [hn] at h5
      simp only [E.wrapOk, E.fld, hn, E.wrapOkN]
      intro hcls
      simp only [wrapOkb, hcls, decide_true, Bool.not_true, Bool.false_or] at h5
      cases hnm : n.name with
      | none => rw [hnm] at h5; simp at h5
      | some nm => rw [hnm] at h5; exact ⟨nm, rfl, by simpa using h5⟩
  constructor
  · intro i
    by_cases hi : i < s.size
    · exact (hall i hi).1
    · simp [E.shadow, E.kids, E_fld_none _ _ s i (Nat.le_of_not_lt hi)]
  · intro i c hc
    by_cases hi : i < s.size
    · exact (hall i hi).2.1 c hc
    · simp [E.kids, E_fld_none _ _ s i (Nat.le_of_not_lt hi)] at hc
  · intro c p hp
    by_cases hi : c < s.size
    · exact (hall c hi).2.2.1 p hp
    · simp [E.parent, E_fld_none _ _ s c (Nat.le_of_not_lt hi)] at hp
  · intro i
    by_cases hi : i < s.size
    · exact (hall i hi).2.2.2.2.1
    · simp [E.kids, E_fld_none _ _ s i (Nat.le_of_not_lt hi)]
  · intro c hp
    by_cases hi : c < s.size
    · exact (hall c hi).2.2.2.1 hp
    · simp [E.tail, E_fld_none _ _ s c (Nat.le_of_not_lt hi)]
  · intro i
    by_cases hi : i < s.size
    · exact (hall i hi).2.2.2.2.2
    · simp [E.wrapOk, E_fld_none _ _ s i (Nat.le_of_not_lt hi)]

/-- result state of an `Except`, the empty state on error (for `decide`d witnesses) -/
def okE (r : Except PyErr ETree.St) : ETree.St := match r with | .ok s => s | .error _ => {}
def okD (r : Except PyErr MiniDom.St) : MiniDom.St := match r with | .ok s => s | .error _ => {}
def isOkB {α} (r : Except PyErr α) : Bool := match r with | .ok _ => true | .error _ => false
def isTypeError {α} (r : Except PyErr α) : Bool := match r with | .error (.typeError _) => true | _ => false

/-- three elements `<a>`(0) `<b>`(1) `<c>`(2), `b` appended to `a` -/
def wE3 : ETree.St :=
  okE (ETree.St.appendChild { nodes := [ETree.St.elementNode [97] none, ETree.St.elementNode [98] none,
    ETree.St.elementNode [99] none] } 0 1)

def wD3 : MiniDom.St :=
  okD (MiniDom.St.appendChild { nodes := [{ kind := .element none [97] }, { kind := .element none [98] },
    { kind := .element none [99] }] } 0 1)

/-- **C04 (the historical `insertBefore` defect, fixed by f188c2f).** On the 3-node state `a[b]`, `c` free:
`a.insertBefore(c, b)` WITHOUT the line `self._childNodes.insert(index, node)` leaves `_childNodes = [b]` while the
element has children `[c, b]`: `RepInvE` is lost (every later `reparentChildren`, which iterates `_childNodes`, then
forgets `c`).  With the line (current code) the invariant is kept. -/
theorem C04_insertBefore_shadow :
    RepInvE wE3 ∧
    (∃ s', wE3.insertBeforeOld 0 2 1 = .ok s' ∧ E.kids s' 0 = [2, 1] ∧ E.shadow s' 0 = [1] ∧ ¬ RepInvE s') ∧
    (∃ s', wE3.insertBefore 0 2 1 = .ok s' ∧ E.kids s' 0 = [2, 1] ∧ E.shadow s' 0 = [2, 1] ∧ RepInvE s') := by
  refine ⟨repInvEb_sound _ (by decide), ⟨okE (wE3.insertBeforeOld 0 2 1), by decide, by decide, by decide, ?_⟩,
    ⟨okE (wE3.insertBefore 0 2 1), by decide, by decide, by decide, repInvEb_sound _ (by decide)⟩⟩
  intro h
  have := h.shadow 0
  revert this
  decide


/-! ## 13. `reparentChildren` -/

/-- `for child in l: newParent.appendChild(child)` -/
theorem E_appendAll_eff (l : List NodeId) : ∀ (s : ETree.St) (b : NodeId), b < s.size →
    (∀ c, c ∈ l → c < s.size ∧ b ≠ c) →
    ∃ s', l.foldlM (fun s c => ETree.St.appendChild s b c) s = .ok s' ∧ s'.size = s.size ∧
      (∀ j, E.kids s' j = if j = b then E.kids s b ++ l else E.kids s j) ∧
      (∀ j, E.shadow s' j = if j = b then E.shadow s b ++ l else E.shadow s j) ∧
      (∀ j, E.parent s' j = if j ∈ l then some b else E.parent s j) ∧
      (∀ j, E.text s' j = E.text s j) ∧ (∀ j, E.tail s' j = E.tail s j) ∧
      (∀ j, E.hdr s' j = E.hdr s j) ∧ (∀ j, E.wrapOk s' j = E.wrapOk s j) := by
  induction l with
  | nil =>
    intro s b _ _
    exact ⟨s, rfl, rfl, by simp, by simp, by simp, by simp, by simp, by simp, by simp⟩
  | cons c r ih =>
    intro s b hb hl
    obtain ⟨hc, hbc⟩ := hl c (by simp)
    obtain ⟨s1, h1, hsz1, hk1, hsh1, hpa1, htx1, htl1, hhd1, hwr1⟩ := E_appendChild_eff s b c hb hc hbc
    obtain ⟨s2, h2, hsz2, hk2, hsh2, hpa2, htx2, htl2, hhd2, hwr2⟩ := ih s1 b (by rw [hsz1]; exact hb)
      (fun x hx => by rw [hsz1]; exact hl x (List.mem_cons_of_mem _ hx))
    refine ⟨s2, ?_, by rw [hsz2, hsz1], ?_, ?_, ?_, ?_, ?_, ?_, ?_⟩
    · simp only [List.foldlM_cons, h1]; exact h2
    · intro j; rw [hk2, hk1, hk1]
      by_cases hj : j = b <;> simp [hj]
    · intro j; rw [hsh2, hsh1, hsh1]
      by_cases hj : j = b <;> simp [hj]
    · intro j; rw [hpa2, hpa1]
      by_cases hjr : j ∈ r
      · simp [hjr]
      · by_cases hjc : j = c <;> simp [hjr, hjc]
    · intro j; rw [htx2, htx1]
    · intro j; rw [htl2, htl1]
    · intro j; rw [hhd2, hhd1]
    · intro j; rw [hwr2, hwr1]

def nodeIn (j : NodeId) (l : List DChild) : Prop := DChild.node j ∈ l
instance (j : NodeId) (l : List DChild) : Decidable (nodeIn j l) := by unfold nodeIn; infer_instance

theorem D_moveStep_eff (s : MiniDom.St) (a b : NodeId) (ch : DChild) (rest : List DChild)
    (ha : ContainerD s a) (hb : ContainerD s b) (hab : a ≠ b) (hch : D.children s a = ch :: rest)
    (hins : ∀ k, ch = .node k → InsertableD s k ∧ k ≠ a ∧ k ≠ b) :
    ∃ s', MiniDom.St.moveStep a b s ch = .ok s' ∧ s'.size = s.size ∧
      (∀ j, D.children s' j = if j = a then rest else if j = b then D.children s b ++ [ch] else D.children s j) ∧
      (∀ j, D.parentNode s' j = if ch = .node j then some b else D.parentNode s j) ∧
      (∀ j, D.kind s' j = D.kind s j) ∧ (∀ j, D.hdr s' j = D.hdr s j) := by
  obtain ⟨na, hna, hka⟩ := ha
  obtain ⟨nb, hnb, hkb⟩ := hb
  obtain ⟨ha1, ha2, ha3⟩ := container_facts _ hka
  obtain ⟨hb1, hb2, hb3⟩ := container_facts _ hkb
  have hal := D_get?_lt s a na hna
  have hbl := D_get?_lt s b nb hnb
  have hba : b ≠ a := fun e => hab e.symm
  have hch2 : na.children = ch :: rest := by simpa [D.children, D.fld, hna] using hch
  cases ch with
  | text d =>
    refine ⟨(s.put a { na with children := rest }).put b { nb with children := nb.children ++ [.text d] }, ?_, ?_, ?_⟩
    · simp [MiniDom.St.moveStep, MiniDom.St.domRemove, MiniDom.St.argElement, MiniDom.St.get, D_get?_put, hna, hnb, ha2, hb1,
        hb2, hkb, hch2, pyRemove, hba, hab]
    · simp
    · refine ⟨?_, ?_, ?_, ?_⟩ <;> intro j <;>
        simp only [D.children, D.parentNode, D.kind, D.hdr, D_fld_put, D_size_put, hal, hbl, and_true] <;>
        by_cases hja : j = a <;> by_cases hjb : j = b <;>
        simp_all [D_fld_of_get _ _ s a na hna, D_fld_of_get _ _ s b nb hnb, MiniDom.hdrOf]
  | node k =>
    obtain ⟨⟨nk, hnk, hkk⟩, hka', hkb'⟩ := hins k rfl
    obtain ⟨hk1, hk2⟩ := insertable_facts _ hkk
    have hkl := D_get?_lt s k nk hnk
    have hak : a ≠ k := fun e => hka' e.symm
    have hbk : b ≠ k := fun e => hkb' e.symm
    refine ⟨(((s.put a { na with children := rest }).put k { nk with parentNode := none }).put b
        { nb with children := nb.children ++ [.node k] }).put k { nk with parentNode := some b }, ?_, ?_, ?_⟩
    · simp [MiniDom.St.moveStep, MiniDom.St.domRemove, MiniDom.St.argElement, MiniDom.St.nodeAppend, MiniDom.St.nodeAppend1,
        MiniDom.St.detach, MiniDom.St.get, D_get?_put, hna, hnb, hnk, ha2, hb1, hb2, hb3, hk2, hkk, hch2, pyRemove,
        hba, hab, hka', hkb', hak, hbk, hkl, hal]
    · simp
    · refine ⟨?_, ?_, ?_, ?_⟩ <;> intro j <;>
        simp only [D.children, D.parentNode, D.kind, D.hdr, D_fld_put, D_size_put, hal, hbl, hkl, and_true] <;>
        by_cases hja : j = a <;> by_cases hjb : j = b <;> by_cases hjk : k = j <;>
        (first
          | (have hjk2 : ¬ j = k := fun e => hjk e.symm
             simp_all [D_fld_of_get _ _ s a na hna, D_fld_of_get _ _ s b nb hnb, D_fld_of_get _ _ s k nk hnk,
               MiniDom.hdrOf]; done)
          | (subst hjk
             simp_all [D_fld_of_get _ _ s a na hna, D_fld_of_get _ _ s b nb hnb, D_fld_of_get _ _ s k nk hnk,
               MiniDom.hdrOf]; done))


theorem D_kind_of_get (s : MiniDom.St) (p : NodeId) (n : DNode) (h : s.get? p = some n) : D.kind s p = some n.kind := by
  simp [D.kind, D.fld, h]

theorem D_get_of_kind (s : MiniDom.St) (p : NodeId) (k : DKind) (h : D.kind s p = some k) :
    ∃ n, s.get? p = some n ∧ n.kind = k := by
  unfold D.kind D.fld at h
  cases hn : s.get? p with
  | none => rw [hn] at h; simp at h
  | some n => rw [hn] at h; exact ⟨n, rfl, by simpa using h⟩

theorem ContainerD_transfer (s s' : MiniDom.St) (p : NodeId) (hk : ∀ j, D.kind s' j = D.kind s j) (h : ContainerD s p) :
    ContainerD s' p := by
  obtain ⟨n, hn, ha⟩ := h
  obtain ⟨n', hn', hk'⟩ := D_get_of_kind s' p n.kind (by rw [hk, D_kind_of_get s p n hn])
  exact ⟨n', hn', by rw [hk']; exact ha⟩

theorem InsertableD_transfer (s s' : MiniDom.St) (p : NodeId) (hk : ∀ j, D.kind s' j = D.kind s j) (h : InsertableD s p) :
    InsertableD s' p := by
  obtain ⟨n, hn, ha⟩ := h
  obtain ⟨n', hn', hk'⟩ := D_get_of_kind s' p n.kind (by rw [hk, D_kind_of_get s p n hn])
  exact ⟨n', hn', by rw [hk']; exact ha⟩

/-- the whole loop of dom.py:85-88 -/
theorem D_moveAll_eff (l : List DChild) : ∀ (s : MiniDom.St) (a b : NodeId), ContainerD s a → ContainerD s b → a ≠ b →
    D.children s a = l → (∀ k, DChild.node k ∈ l → InsertableD s k ∧ k ≠ a ∧ k ≠ b) →
    ∃ s', l.foldlM (MiniDom.St.moveStep a b) s = .ok s' ∧ s'.size = s.size ∧
      (∀ j, D.children s' j = if j = a then [] else if j = b then D.children s b ++ l else D.children s j) ∧
      (∀ j, D.parentNode s' j = if DChild.node j ∈ l then some b else D.parentNode s j) ∧
      (∀ j, D.kind s' j = D.kind s j) ∧ (∀ j, D.hdr s' j = D.hdr s j) := by
  induction l with
  | nil =>
    intro s a b _ _ _ hch _
    refine ⟨s, rfl, rfl, ?_, by simp, by simp, by simp⟩
    intro j
    by_cases hja : j = a
    · simp [hja, hch]
    · by_cases hjb : j = b
      · subst hjb; simp [hja]
      · simp [hja, hjb]
  | cons ch rest ih =>
    intro s a b ha hb hab hch hins
    obtain ⟨s1, h1, hsz1, hc1, hp1, hk1, hh1⟩ := D_moveStep_eff s a b ch rest ha hb hab hch
      (fun k hk => hins k (by rw [hk]; simp))
    have hba : b ≠ a := fun e => hab e.symm
    obtain ⟨s2, h2, hsz2, hc2, hp2, hk2, hh2⟩ := ih s1 a b (ContainerD_transfer s s1 a hk1 ha)
      (ContainerD_transfer s s1 b hk1 hb) hab (by rw [hc1]; simp)
      (fun k hk => by
        obtain ⟨i1, i2, i3⟩ := hins k (List.mem_cons_of_mem _ hk)
        exact ⟨InsertableD_transfer s s1 k hk1 i1, i2, i3⟩)
    refine ⟨s2, ?_, by rw [hsz2, hsz1], ?_, ?_, ?_, ?_⟩
    · simp only [List.foldlM_cons, h1]; exact h2
    · intro j
      rw [hc2, hc1, hc1]
      by_cases hja : j = a
      · simp [hja]
      · by_cases hjb : j = b
        · simp [hjb, hba]
        · simp [hja, hjb]
    · intro j
      rw [hp2, hp1]
      by_cases hjr : DChild.node j ∈ rest
      · simp [hjr]
      · by_cases hjc : ch = .node j
        · simp [hjc]
        · have : ¬ DChild.node j = ch := fun e => hjc e.symm
          simp [hjr, hjc, this]
    · intro j; rw [hk2, hk1]
    · intro j; rw [hh2, hh1]

/-- effect of `NodeBuilder.reparentChildren` -/
theorem D_reparent_eff (s : MiniDom.St) (a b : NodeId) (ha : ContainerD s a) (hb : ContainerD s b) (hab : a ≠ b)
    (hins : ∀ k, DChild.node k ∈ D.children s a → InsertableD s k ∧ k ≠ a ∧ k ≠ b) :
    ∃ s', s.reparentChildren a b = .ok s' ∧ s'.size = s.size ∧
      (∀ j, D.children s' j = if j = a then [] else if j = b then D.children s b ++ D.children s a else D.children s j) ∧
      (∀ j, D.parentNode s' j = if DChild.node j ∈ D.children s a then some b else D.parentNode s j) ∧
      (∀ j, D.kind s' j = D.kind s j) ∧ (∀ j, D.hdr s' j = D.hdr s j) := by
  obtain ⟨na, hna, hka⟩ := id ha
  obtain ⟨ha1, ha2, ha3⟩ := container_facts _ hka
  have hca : D.children s a = na.children := by simp [D.children, D.fld, hna]
  by_cases hemp : na.children = []
  · refine ⟨s, ?_, rfl, ?_, ?_, by simp, by simp⟩
    · simp [MiniDom.St.reparentChildren, MiniDom.St.get, hna, ha1, hemp]
    · intro j
      rw [hca, hemp]
      by_cases hja : j = a
      · simp [hja, hca, hemp]
      · by_cases hjb : j = b
        · subst hjb; simp [hja]
        · simp [hja, hjb]
    · intro j; rw [hca, hemp]; simp
  · obtain ⟨s', h1, h2, h3, h4, h5, h6⟩ := D_moveAll_eff na.children s a b ha hb hab hca (by rw [← hca]; exact hins)
    refine ⟨s', ?_, h2, by rw [hca]; exact h3, by rw [hca]; exact h4, h5, h6⟩
    have : na.children.isEmpty = false := by simpa using hemp
    simp [MiniDom.St.reparentChildren, MiniDom.St.get, hna, ha1, ha2, hemp, hab, h1]


theorem reparentText_getD (x y : Option Str) : (ETree.St.reparentText x y).getD [] = x.getD [] ++ y.getD [] := by
  unfold ETree.St.reparentText
  simp only []
  cases y with
  | none =>
    cases x with
    | none => simp [truthy]
    | some t => cases t <;> simp [truthy]
  | some tx =>
    cases x with
    | none => simp [truthy]
    | some t => cases t <;> simp [truthy]

/-- state change "`a` loses its children" (`del self._element[:]; self._childNodes = []`) -/
theorem E_clearKids_eff (s : ETree.St) (a : NodeId) (na : ENode) (hna : s.get? a = some na) :
    let s' := s.put a { na with kids := [], childNodes := [] }
    s'.size = s.size ∧ (∀ j, E.kids s' j = if j = a then [] else E.kids s j) ∧
      (∀ j, E.shadow s' j = if j = a then [] else E.shadow s j) ∧
      (∀ j, E.parent s' j = E.parent s j) ∧ (∀ j, E.text s' j = E.text s j) ∧
      (∀ j, E.tail s' j = E.tail s j) ∧ (∀ j, E.hdr s' j = E.hdr s j) ∧
      (∀ j, E.wrapOk s' j = E.wrapOk s j) := by
  have hp := E_get?_lt s a na hna
  refine ⟨by simp, ?_, ?_, ?_, ?_, ?_, ?_, ?_⟩ <;> intro j <;>
    simp only [E.kids, E.shadow, E.parent, E.text, E.tail, E.hdr, E.wrapOk, E_fld_put, hp, and_true] <;>
    by_cases hjp : j = a <;> simp_all [E_fld_of_get _ _ s a na hna, E.wrapOkN, ETree.hdrOf]

/-- effect of etree `reparentChildren` when the target has no child element (`newParent.childNodes` is empty) -/
theorem E_reparent_empty_eff (s : ETree.St) (a b : NodeId) (na nb : ENode)
    (hna : s.get? a = some na) (hnb : s.get? b = some nb) (hab : a ≠ b)
    (hca : isContainerTree (ETree.hdrOf na) = true) (hcb : isContainerTree (ETree.hdrOf nb) = true)
    (hshb : nb.childNodes = []) (hsha : na.childNodes = na.kids)
    (hkids : ∀ c, c ∈ na.kids → c < s.size ∧ b ≠ c) :
    ∃ s', s.reparentChildren a b = .ok s' ∧ s'.size = s.size ∧
      (∀ j, E.kids s' j = if j = a then [] else if j = b then E.kids s b ++ E.kids s a else E.kids s j) ∧
      (∀ j, E.shadow s' j = if j = a then [] else if j = b then E.shadow s b ++ E.kids s a else E.shadow s j) ∧
      (∀ j, E.parent s' j = if j ∈ E.kids s a then some b else E.parent s j) ∧
      (∀ j, E.text s' j = if j = a then some [] else if j = b then ETree.St.reparentText nb.text na.text else E.text s j) ∧
      (∀ j, E.tail s' j = E.tail s j) ∧ (∀ j, E.hdr s' j = E.hdr s j) ∧ (∀ j, E.wrapOk s' j = E.wrapOk s j) := by
  have hba : b ≠ a := fun e => hab e.symm
  have hal := E_get?_lt s a na hna
  have hbl := E_get?_lt s b nb hnb
  -- step 1: the target's text
  obtain ⟨z1, k1, sh1, p1, t1, l1, d1, w1⟩ := E_setText_eff s b nb (ETree.St.reparentText nb.text na.text) hnb hcb
  have g1 : (s.put b { nb with text := ETree.St.reparentText nb.text na.text }).get? a = some na := by
    rw [E_get?_put_ne _ _ _ _ hab]; exact hna
  -- step 2: self.text = ""
  obtain ⟨z2, k2, sh2, p2, t2, l2, d2, w2⟩ :=
    E_setText_eff (s.put b { nb with text := ETree.St.reparentText nb.text na.text }) a na (some []) g1 hca
  generalize hs2 : ((s.put b { nb with text := ETree.St.reparentText nb.text na.text }).put a { na with text := some [] }) = s2
    at z2 k2 sh2 p2 t2 l2 d2 w2
  have g2 : s2.get? a = some { na with text := some [] } := by
    rw [← hs2]; exact E_get?_put_same _ _ _ _ g1
  -- step 3: the loop
  obtain ⟨s3, f3, z3, k3, sh3, p3, t3, l3, d3, w3⟩ := E_appendAll_eff na.childNodes s2 b (by rw [z2, z1]; exact hbl)
    (fun c hc => by rw [z2, z1]; exact hkids c (hsha ▸ hc))
  obtain ⟨n3, g3⟩ := E_get?_of_lt s3 a (by rw [z3, z2, z1]; exact hal)
  -- step 4: clear
  obtain ⟨z4, k4, sh4, p4, t4, l4, d4, w4⟩ := E_clearKids_eff s3 a n3 g3
  have hka : E.kids s a = na.kids := by simp [E.kids, E.fld, hna]
  refine ⟨s3.put a { n3 with kids := [], childNodes := [] }, ?_, by rw [z4, z3, z2, z1], ?_, ?_, ?_, ?_, ?_, ?_, ?_⟩
  · have e3 : nb.childNodes.getLast? = none := by rw [hshb]; rfl
    have hne : ¬ (a = b ∧ ¬ na.childNodes = []) := fun h => hab h.1
    simp only [ETree.St.reparentChildren, ETree.St.get, hna, hnb, e3, bind, Except.bind, pure, Except.pure]
    simp only [g1, hs2, g2, hab, false_and, if_false, f3, g3]
  · intro j; rw [k4, k3, k2, k1, k2, k1, hka, hsha]
  · intro j; rw [sh4, sh3, sh2, sh1, sh2, sh1, hka, hsha]
  · intro j; rw [p4, p3, p2, p1, hka, hsha]
  · intro j; rw [t4, t3, t2, t1]
  · intro j; rw [l4, l3, l2, l1]
  · intro j; rw [d4, d3, d2, d1]
  · intro j; rw [w4, w3, w2, w1]


/-- **C04 (reparentChildren, the tree builder's case).** `a`, `b` distinct elements / fragments, the target `b` has no
child element (the adoption agency and `getFragment` pass a fresh node; text in `b` is allowed), the children of `a` are
elements / comments other than `a`, `b`: both back ends succeed (no `TypeError`), `RepInvE` is kept, the abstract forests
stay equal (`b` gets `a`'s text and children after its own text, `a` is emptied). -/
theorem C04_prim_reparentChildren (sE : ETree.St) (sD : MiniDom.St) (a b : NodeId)
    (hI : RepInvE sE) (hD : RepInvD sD) (hS : Sim sE sD)
    (ha : ContainerD sD a) (hb : ContainerD sD b) (hab : a ≠ b) (hbk : E.kids sE b = [])
    (hins : ∀ k, k ∈ E.kids sE a → InsertableD sD k ∧ k ≠ a ∧ k ≠ b) :
    ∃ sE' sD', sE.reparentChildren a b = .ok sE' ∧ sD.reparentChildren a b = .ok sD' ∧
      RepInvE sE' ∧ RepInvD sD' ∧ Sim sE' sD' := by
  obtain ⟨na, hna, hca⟩ := container_hdr sE sD hS a ha
  obtain ⟨nb, hnb, hcb⟩ := container_hdr sE sD hS b hb
  have hka : E.kids sE a = na.kids := by simp [E.kids, E.fld, hna]
  have hsha : na.childNodes = na.kids := by
    have := hI.shadow a; simpa [E.shadow, E.kids, E.fld, hna] using this
  have hshb : nb.childNodes = [] := by
    have := hI.shadow b; rw [hbk] at this; simpa [E.shadow, E.fld, hnb] using this
  obtain ⟨sE', hE, hsz, hk, hsh, hpa, htx, htl, hhd, hwr⟩ := E_reparent_empty_eff sE a b na nb hna hnb hab hca hcb hshb hsha
    (fun c hc => by
      obtain ⟨⟨n, hn, _⟩, _, h3⟩ := hins c (hka ▸ hc)
      exact ⟨(sim_lt_iff hS c).mpr (D_get?_lt _ _ _ hn), fun e => h3 e.symm⟩)
  have hcona := contHdr_of_containerD sE sD hS a ha
  have hconb := contHdr_of_containerD sE sD hS b hb
  obtain ⟨sD', hDo, hszD, hch, hpn, hkd, hhdD⟩ := D_reparent_eff sD a b ha hb hab
    (fun k hk => hins k ((sim_mem_kids hS a k hcona).mp hk))
  have hnotK : ∀ i c, i ≠ a → c ∈ E.kids sE i → c ∉ E.kids sE a := fun i c hi hc hK => by
    have h1 := hI.kidParent i c hc
    have h2 := hI.kidParent a c hK
    rw [h1] at h2; exact hi (Option.some.inj h2)
  have hba : ¬ b = a := fun e => hab e.symm
  refine ⟨sE', sD', hE, hDo, ?_, ?_, ?_⟩
  · constructor
    · intro i
      rw [hsh, hk, hI.shadow b, hI.shadow i]
    · intro i c hm
      rw [hk] at hm; rw [hpa]
      by_cases hia : i = a
      · simp [hia] at hm
      · simp only [hia, if_false] at hm
        by_cases hib : i = b
        · simp only [hib, if_true, hbk, List.nil_append] at hm
          simp [hm, hib]
        · simp only [hib, if_false] at hm
          simp only [hnotK i c hia hm, if_false]
          exact hI.kidParent i c hm
    · intro c q hq
      rw [hpa] at hq; rw [hk]
      by_cases hcK : c ∈ E.kids sE a
      · simp only [hcK, if_true, Option.some.injEq] at hq
        subst hq
        simp [hba, hcK]
      · simp only [hcK, if_false] at hq
        have hm := hI.parentKid c q hq
        have hqa : q ≠ a := fun e => hcK (e ▸ hm)
        by_cases hqb : q = b
        · rw [hqb, hbk] at hm; simp at hm
        · simp [hqa, hqb, hm]
    · intro i
      rw [hk]
      by_cases hia : i = a
      · simp [hia]
      · by_cases hib : i = b
        · simp only [hib, hba, if_false, if_true, hbk, List.nil_append]
          exact hI.nodup a
        · simp only [hia, hib, if_false]; exact hI.nodup i
    · intro c hq
      rw [hpa] at hq; rw [htl]
      by_cases hcK : c ∈ E.kids sE a
      · simp [hcK] at hq
      · simp only [hcK, if_false] at hq; exact hI.strayTail c hq
    · intro i; rw [hwr]; exact hI.wrapper i
  · constructor
    intro i
    rw [hch]
    by_cases hia : i = a
    · simp [hia]
    · by_cases hib : i = b
      · simp only [hib, hba, if_false, if_true, List.mem_append, not_or]
        exact ⟨hD.noEmptyText b, hD.noEmptyText a⟩
      · simp only [hia, hib, if_false]; exact hD.noEmptyText i
  · constructor
    · rw [hsz, hszD]; exact hS.size
    · intro i
      rw [hdrE_eq, hdrD_eq, hhd, hhdD, ← hdrE_eq, ← hdrD_eq]; exact hS.hdr i
    · intro i hci
      have hci0 : isContHdr (hdrE sE i) = true := by rw [← contHdr_transfer sE sE' hhd i]; exact hci
      rw [canonE_eq, canonD_eq, htx, hk, hch]
      simp only [htl]
      by_cases hia : i = a
      · simp [hia, canon]
      · by_cases hib : i = b
        · simp only [hib, hba, if_false, if_true, hbk, List.nil_append, canon_append, reparentText_getD]
          have cb := sim_canon_acc hS b hconb
          have ca := sim_canon_acc hS a hcona
          rw [hbk] at cb
          simp only [List.map_nil] at cb
          rw [← cb, ← ca]
          simp [catC, E.text, E.fld, hna, hnb]
        · simp only [hia, hib, if_false]; exact sim_canon_acc hS i hci0
    · intro i
      rw [hpa, hpn, hS.parent]
      by_cases hiK : i ∈ E.kids sE a
      · simp [hiK, (sim_mem_kids hS a i hcona).mpr hiK]
      · have : DChild.node i ∉ D.children sD a := fun h => hiK ((sim_mem_kids hS a i hcona).mp h)
        simp [hiK, this]


/-! ## 14. witnesses: what happens outside the preconditions (each reproduced on the real classes, see NOTES.md) -/

/-- `a`(0) with text "x", `b`(1) with the child `c`(2) -/
def wE4 : ETree.St :=
  okE (ETree.St.insertText (okE (ETree.St.appendChild { nodes := [ETree.St.elementNode [97] none,
    ETree.St.elementNode [98] none, ETree.St.elementNode [99] none] } 1 2)) 0 [120] none)

def wD4 : MiniDom.St :=
  okD (MiniDom.St.insertText (okD (MiniDom.St.appendChild { nodes := [{ kind := .element none [97] },
    { kind := .element none [98] }, { kind := .element none [99] }] } 1 2)) 0 [120] none)

/-- equality of two headers (trees without children), by fields -/
def hdrEqb : Tree → Tree → Bool
  | .doc [], .doc [] => true
  | .frag [], .frag [] => true
  | .doctype n p s, .doctype n' p' s' => decide (n = n') && decide (p = p') && decide (s = s')
  | .comment d, .comment d' => decide (d = d')
  | .elem ns n a [], .elem ns' n' a' [] => decide (ns = ns') && decide (n = n') && decide (a = a')
  | _, _ => false

theorem hdrEqb_sound (x y : Tree) (h : hdrEqb x y = true) : x = y := by
  unfold hdrEqb at h
  split at h <;> simp_all

/-- the boolean form of `Sim` on the allocated nodes (sound: beyond them both sides give the defaults) -/
def simb (sE : ETree.St) (sD : MiniDom.St) : Bool :=
  decide (sE.size = sD.size) && (List.range sE.size).all fun i =>
    decide (canonE sE i = canonD sD i) && decide (E.parent sE i = D.parentNode sD i) &&
    (match hdrE sE i, hdrD sD i with
      | some x, some y => hdrEqb x y
      | none, none => true
      | _, _ => false)

theorem simb_sound (sE : ETree.St) (sD : MiniDom.St) (h : simb sE sD = true) : Sim sE sD := by
  simp only [simb, Bool.and_eq_true, decide_eq_true_eq, List.all_eq_true, List.mem_range] at h
  obtain ⟨hsz, hall⟩ := h
  have hE : ∀ i, ¬ i < sE.size → sE.get? i = none := fun i hi => E_get?_none sE i (Nat.le_of_not_lt hi)
  have hDn : ∀ i, ¬ i < sE.size → sD.get? i = none := fun i hi => D_get?_none sD i (hsz ▸ Nat.le_of_not_lt hi)
  constructor
  · exact hsz
  · intro i
    by_cases hi : i < sE.size
    · have := (hall i hi).2
      cases hx : hdrE sE i <;> cases hy : hdrD sD i <;> simp_all
      exact hdrEqb_sound _ _ this
    · simp [hdrE, hdrD, hE i hi, hDn i hi]
  · intro i _
    by_cases hi : i < sE.size
    · exact (hall i hi).1.1
    · simp [canonE, canonD, hE i hi, hDn i hi]
  · intro i
    by_cases hi : i < sE.size
    · exact (hall i hi).1.2
    · simp [E.parent, D.parentNode, E.fld, D.fld, hE i hi, hDn i hi]

/-- **C04 (reparentChildren, witness of the `TypeError`).** Related states satisfying `RepInvE`; the target `b` has a
child whose `tail` is `None`: etree's `newParent.childNodes[-1]._element.tail += self._element.text` raises `TypeError`,
the dom back end moves the text.  (Same with `self._element.text is None` and a string tail.)  Not reachable from the
tree builder: it only passes a fresh target (`C04_prim_reparentChildren`). -/
theorem C04_reparentChildren_typeError_witness :
    RepInvE wE4 ∧ Sim wE4 wD4 ∧
    isTypeError (wE4.reparentChildren 0 1) = true ∧ isOkB (wD4.reparentChildren 0 1) = true ∧
    D.children (okD (wD4.reparentChildren 0 1)) 1 = [.node 2, .text [120]] := by
  refine ⟨repInvEb_sound _ (by decide), simb_sound _ _ (by decide), by decide, by decide, by decide⟩

/-- `a`(0) with the child `b`(1) followed by the text "x" (= `b.tail`) -/
def wE5 : ETree.St :=
  okE (ETree.St.insertText (okE (ETree.St.appendChild { nodes := [ETree.St.elementNode [97] none,
    ETree.St.elementNode [98] none] } 0 1)) 0 [120] none)

def wD5 : MiniDom.St :=
  okD (MiniDom.St.insertText (okD (MiniDom.St.appendChild { nodes := [{ kind := .element none [97] },
    { kind := .element none [98] }] } 0 1)) 0 [120] none)

/-- **C04 (removeChild, witness for the tail precondition).** `a = [b, "x"]`: `a.removeChild(b)` on the etree side
removes the element together with its tail (the text "x" leaves `a` and travels with `b`: `RepInvE.strayTail` is lost),
the dom side keeps the Text node in `a`.  Not reachable from the tree builder (it removes only nodes with no text
after them). -/
theorem C04_removeChild_tail_witness :
    RepInvE wE5 ∧ Sim wE5 wD5 ∧
    canonE (okE (wE5.removeChild 0 1)) 0 = ([], []) ∧ canonD (okD (wD5.removeChild 0 1)) 0 = ([120], []) ∧
    E.tail (okE (wE5.removeChild 0 1)) 1 = some [120] ∧ ¬ RepInvE (okE (wE5.removeChild 0 1)) := by
  refine ⟨repInvEb_sound _ (by decide), simb_sound _ _ (by decide), by decide, by decide, by decide, ?_⟩
  intro h
  have := h.strayTail 1 (by decide)
  revert this
  decide

/-- **C04 (dom wrapper `parent` after reparentChildren).** `a = [c]`, `a.reparentChildren(b)`: the etree wrapper of `c`
has `parent = b`, the dom `NodeBuilder` of `c` still has `parent = a` (dom.py's loop moves minidom nodes and never
touches the wrappers) although `parentNode` is `b`.  `Sim` relates the etree `parent` to minidom's `parentNode`. -/
theorem C04_dom_parent_stale_witness :
    let sE := okE (ETree.St.appendChild { nodes := [ETree.St.elementNode [97] none, ETree.St.elementNode [98] none,
      ETree.St.elementNode [99] none] } 0 2)
    let sD := okD (MiniDom.St.appendChild { nodes := [{ kind := .element none [97] }, { kind := .element none [98] },
      { kind := .element none [99] }] } 0 2)
    (okE (sE.reparentChildren 0 1)).parentOf 2 = .ok (some 1) ∧
    (okD (sD.reparentChildren 0 1)).parentOf 2 = .ok (some 0) ∧
    D.parentNode (okD (sD.reparentChildren 0 1)) 2 = some 1 := by
  decide

/-- **C04 (hasContent, witness for "no empty Text node").** after `insertText("")` on an empty element the etree side has
`text = ""` (falsy) and the dom side an empty Text child: `hasContent()` is `False` / `True`.  The tokenizer never emits
empty character tokens. -/
theorem C04_hasContent_emptyText_witness :
    let sE : ETree.St := { nodes := [ETree.St.elementNode [97] none] }
    let sD : MiniDom.St := { nodes := [{ kind := .element none [97] }] }
    (okE (sE.insertText 0 [] none)).hasContent 0 = .ok false ∧
    (okD (sD.insertText 0 [] none)).hasContent 0 = .ok true := by
  decide


/-! ## 15. attributes: name syntax, the two minidom dicts, `cloneNode`, `attributes = {…}` -/

open H5.Model.Backend.MiniDom (DAttr AttrMap nssplit afterColon)

theorem takeWhile_sep (c : Nat) (p r : List Nat) (h : c ∉ p) :
    (p ++ c :: r).takeWhile (· != c) = p ∧ (p ++ c :: r).dropWhile (· != c) = c :: r ∧
    List.contains (p ++ c :: r) c = true := by
  induction p with
  | nil => simp
  | cons x p ih =>
    simp only [List.mem_cons, not_or] at h
    have hx : (x != c) = true := by simpa using fun e => h.1 (Eq.symm e)
    obtain ⟨i1, i2, i3⟩ := ih h.2
    refine ⟨?_, ?_, ?_⟩
    · simp only [List.cons_append, List.takeWhile_cons, hx, if_true, i1]
    · simp only [List.cons_append, List.dropWhile_cons, hx, if_true, i2]
    · simp

theorem splitTag_etreeTag_some (name ns : Str) (h : 125 ∉ ns) : splitTag (etreeTag name (some ns)) = (some ns, name) := by
  obtain ⟨h1, h2, h3⟩ := takeWhile_sep 125 ns name h
  simp only [etreeTag, splitTag, h3, if_true, h1, h2, List.drop_one, List.tail_cons]

theorem splitTag_plain (name : Str) (h : name.head? ≠ some 123) : splitTag name = (none, name) := by
  unfold splitTag
  split
  · rename_i rest; simp at h
  · rfl

theorem nssplit_snd (q : Str) : (nssplit q).2 = afterColon q := by
  unfold nssplit afterColon
  split <;> rfl

theorem nssplit_qualified (p loc : Str) (h : 58 ∉ p) : nssplit (p ++ 58 :: loc) = (some p, loc) := by
  obtain ⟨h1, h2, h3⟩ := takeWhile_sep 58 p loc h
  simp only [nssplit, h3, if_true, h1, h2, List.drop_one, List.tail_cons]

theorem nssplit_plain (loc : Str) (h : 58 ∉ loc) : nssplit loc = (none, loc) := by
  simp [nssplit, h]

/-! ### generic dict facts -/

theorem dictGet_none {κ ν} [DecidableEq κ] (d : List (κ × ν)) (k : κ) (h : k ∉ d.map Prod.fst) : dictGet d k = none := by
  induction d with
  | nil => rfl
  | cons e r ih =>
    obtain ⟨k', v'⟩ := e
    simp only [List.map_cons, List.mem_cons, not_or] at h
    have : ¬ k' = k := fun e => h.1 e.symm
    simp [dictGet, this, ih h.2]

theorem dictSet_fresh {κ ν} [DecidableEq κ] (d : List (κ × ν)) (k : κ) (v : ν) (h : k ∉ d.map Prod.fst) :
    dictSet d k v = d ++ [(k, v)] := by
  induction d with
  | nil => rfl
  | cons e r ih =>
    obtain ⟨k', v'⟩ := e
    simp only [List.map_cons, List.mem_cons, not_or] at h
    have : ¬ k' = k := fun e => h.1 e.symm
    simp [dictSet, this, ih h.2]

/-- `dict.update` of pairwise distinct fresh keys appends them in order -/
theorem foldl_dictSet_fresh {κ ν ι} [DecidableEq κ] (f : ι → κ) (g : ι → ν) (l : List ι) :
    ∀ acc : List (κ × ν), (l.map f).Nodup → (∀ x, x ∈ l → f x ∉ acc.map Prod.fst) →
    l.foldl (fun d x => dictSet d (f x) (g x)) acc = acc ++ l.map (fun x => (f x, g x)) := by
  induction l with
  | nil => intro acc _ _; simp
  | cons x r ih =>
    intro acc hnd hfr
    simp only [List.map_cons, List.nodup_cons] at hnd
    simp only [List.foldl_cons]
    rw [dictSet_fresh acc _ _ (hfr x (by simp))]
    rw [ih _ hnd.2]
    · simp
    · intro y hy
      simp only [List.map_append, List.map_cons, List.map_nil, List.mem_append, List.mem_singleton, not_or]
      exact ⟨hfr y (List.mem_cons_of_mem _ hy), fun e => hnd.1 (e ▸ List.mem_map_of_mem hy)⟩

/-! ### minidom: storing an attribute whose two keys are free -/

theorem findName_none (m : AttrMap) (name : Str) (h : name ∉ m.byName.map (·.name)) : m.findName name = none := by
  unfold AttrMap.findName
  rw [List.find?_eq_none]
  intro a ha
  simp only [decide_eq_true_eq]
  exact fun e => h (e ▸ List.mem_map_of_mem ha)

theorem getNS_none (m : AttrMap) (k : MiniDom.NSKey) (h : k ∉ m.byNS.map Prod.fst) : m.getNS k = none := by
  simp [AttrMap.getNS, dictGet_none _ _ h]

theorem setAttributeNode_fresh (m : AttrMap) (a : DAttr) (h1 : a.name ∉ m.byName.map (·.name))
    (h2 : a.nsKey ∉ m.byNS.map Prod.fst) :
    m.setAttributeNode a = .ok { byName := m.byName ++ [a], byNS := m.byNS ++ [(a.nsKey, a.name)] } := by
  simp [AttrMap.setAttributeNode, findName_none m _ h1, getNS_none m _ h2, AttrMap.store, dictSet_fresh _ _ _ h2]

/-- the attribute node that `setAttributeNS(ns, qname, value)` creates -/
def nsAttr (ns : Option Str) (qname value : Str) : DAttr :=
  { name := qname, nsURI := ns, localName := some (nssplit qname).2, pfx := (nssplit qname).1, value := value }

theorem setAttributeNS_fresh (m : AttrMap) (ns : Option Str) (qname value : Str)
    (h1 : qname ∉ m.byName.map (·.name)) (h2 : (ns, (nssplit qname).2) ∉ m.byNS.map Prod.fst) :
    m.setAttributeNS ns qname value =
      .ok { byName := m.byName ++ [nsAttr ns qname value],
            byNS := m.byNS ++ [((ns, (nssplit qname).2), qname)] } := by
  have hk : (nsAttr ns qname value).nsKey = (ns, (nssplit qname).2) := rfl
  simp only [AttrMap.setAttributeNS, getNS_none m _ h2]
  exact setAttributeNode_fresh m (nsAttr ns qname value) h1 (hk ▸ h2)

theorem setAttribute_fresh (m : AttrMap) (name value : Str)
    (h1 : name ∉ m.byName.map (·.name)) (h2 : (none, afterColon name) ∉ m.byNS.map Prod.fst) :
    m.setAttribute name value =
      .ok { byName := m.byName ++ [{ name := name, value := value }],
            byNS := m.byNS ++ [((none, afterColon name), name)] } := by
  simp only [AttrMap.setAttribute, findName_none m _ h1]
  exact setAttributeNode_fresh m { name := name, value := value } h1 h2

/-- well-formed attribute set of an element (what `setAttribute` / `setAttributeNS` maintain; the
`attributes[name] = …` path of `NamedNodeMap.setNamedItem` can break the second part) -/
structure AttrsWf (m : AttrMap) : Prop where
  names : (m.byName.map (·.name)).Nodup
  keys : (m.byName.map (·.nsKey)).Nodup
  loc : ∀ a, a ∈ m.byName → a.loc = afterColon a.name

theorem attrAbs_nsAttr (a : DAttr) (h : a.loc = afterColon a.name) :
    MiniDom.attrAbs (nsAttr a.nsURI a.name a.value) = MiniDom.attrAbs a := by
  have e : (nsAttr a.nsURI a.name a.value).loc = a.loc := by
    rw [h]; simp [nsAttr, DAttr.loc, nssplit_snd]
  simp only [MiniDom.attrAbs, e]
  rfl

/-- `_clone_node` re-creates the attributes one by one: on a well-formed set every `setAttributeNS` finds both keys free -/
theorem cloneAttrs_fold (l : List DAttr) : ∀ acc : AttrMap,
    (l.map (·.name)).Nodup → (l.map (·.nsKey)).Nodup → (∀ a, a ∈ l → a.loc = afterColon a.name) →
    (∀ a, a ∈ l → a.name ∉ acc.byName.map (·.name)) → (∀ a, a ∈ l → a.nsKey ∉ acc.byNS.map Prod.fst) →
    ∃ am, l.foldlM (fun (acc : AttrMap) a => acc.setAttributeNS a.nsURI a.name a.value) acc = .ok am ∧
      am.byName = acc.byName ++ l.map (fun a => nsAttr a.nsURI a.name a.value) := by
  induction l with
  | nil => intro acc _ _ _ _ _; exact ⟨acc, rfl, by simp⟩
  | cons a r ih =>
    intro acc hn hk hl h1 h2
    simp only [List.map_cons, List.nodup_cons] at hn hk
    have hkey : (a.nsURI, (nssplit a.name).2) = a.nsKey := by
      rw [nssplit_snd, ← hl a (by simp)]; rfl
    have hstep := setAttributeNS_fresh acc a.nsURI a.name a.value (h1 a (by simp)) (hkey ▸ h2 a (by simp))
    obtain ⟨am, hf, hb⟩ := ih (AttrMap.mk (acc.byName ++ [nsAttr a.nsURI a.name a.value])
        (acc.byNS ++ [((a.nsURI, (nssplit a.name).2), a.name)])) hn.2 hk.2
      (fun x hx => hl x (List.mem_cons_of_mem _ hx))
      (fun x hx => by
        show x.name ∉ List.map (·.name) (acc.byName ++ [nsAttr a.nsURI a.name a.value])
        simp only [List.map_append, List.map_cons, List.map_nil, List.mem_append, List.mem_singleton, not_or]
        refine ⟨h1 x (List.mem_cons_of_mem _ hx), fun e => hn.1 ?_⟩
        have e' : x.name = a.name := e
        rw [← e']; exact List.mem_map_of_mem (f := fun b : DAttr => b.name) hx)
      (fun x hx => by
        show x.nsKey ∉ List.map Prod.fst (acc.byNS ++ [((a.nsURI, (nssplit a.name).2), a.name)])
        simp only [List.map_append, List.map_cons, List.map_nil, List.mem_append, List.mem_singleton, not_or]
        refine ⟨h2 x (List.mem_cons_of_mem _ hx), fun e => hk.1 ?_⟩
        rw [hkey] at e
        rw [← e]; exact List.mem_map_of_mem (f := fun b : DAttr => b.nsKey) hx)
    refine ⟨am, ?_, ?_⟩
    · simp only [List.foldlM_cons, hstep]; exact hf
    · rw [hb]; simp

theorem cloneAttrs_ok (m : AttrMap) (h : AttrsWf m) :
    ∃ am, MiniDom.St.cloneAttrs m = .ok am ∧ am.byName.map MiniDom.attrAbs = m.byName.map MiniDom.attrAbs := by
  obtain ⟨am, h1, h2⟩ := cloneAttrs_fold m.byName {} h.names h.keys h.loc (by simp) (by simp)
  refine ⟨am, h1, ?_⟩
  rw [h2]
  simp only [List.nil_append, List.map_map]
  apply List.map_congr_left
  intro a ha
  exact attrAbs_nsAttr a (h.loc a ha)


/-! ### allocation, `cloneNode` -/

theorem E_get?_alloc (s : ETree.St) (n : ENode) (j : NodeId) :
    (s.alloc n).1.get? j = if j = s.size then some n else s.get? j := by
  simp only [ETree.St.alloc, ETree.St.get?, ETree.St.size]
  by_cases h : j = s.nodes.length
  · simp [h]
  · by_cases hl : j < s.nodes.length
    · simp [h, List.getElem?_append_left hl]
    · have hlt : s.nodes.length < j := Nat.lt_of_le_of_ne (Nat.le_of_not_lt hl) (fun e => h e.symm)
      have h0 : j - s.nodes.length ≠ 0 := Nat.sub_ne_zero_of_lt hlt
      simp [h, List.getElem?_eq_none (Nat.le_of_not_lt hl), List.getElem?_append_right (Nat.le_of_lt hlt), h0]

theorem E_fld_alloc {α} (f : ENode → α) (d : α) (s : ETree.St) (n : ENode) (j : NodeId) :
    E.fld f d (s.alloc n).1 j = if j = s.size then f n else E.fld f d s j := by
  unfold E.fld
  rw [E_get?_alloc]
  by_cases h : j = s.size <;> simp [h]

theorem D_get?_alloc (s : MiniDom.St) (n : DNode) (j : NodeId) :
    (s.alloc n).1.get? j = if j = s.size then some n else s.get? j := by
  simp only [MiniDom.St.alloc, MiniDom.St.get?, MiniDom.St.size]
  by_cases h : j = s.nodes.length
  · simp [h]
  · by_cases hl : j < s.nodes.length
    · simp [h, List.getElem?_append_left hl]
    · have hlt : s.nodes.length < j := Nat.lt_of_le_of_ne (Nat.le_of_not_lt hl) (fun e => h e.symm)
      have h0 : j - s.nodes.length ≠ 0 := Nat.sub_ne_zero_of_lt hlt
      simp [h, List.getElem?_eq_none (Nat.le_of_not_lt hl), List.getElem?_append_right (Nat.le_of_lt hlt), h0]

theorem D_fld_alloc {α} (f : DNode → α) (d : α) (s : MiniDom.St) (n : DNode) (j : NodeId) :
    D.fld f d (s.alloc n).1 j = if j = s.size then f n else D.fld f d s j := by
  unfold D.fld
  rw [D_get?_alloc]
  by_cases h : j = s.size <;> simp [h]

/-- the header reads `tag`, `attrib` and, for comments / doctypes only, `text` -/
theorem hdrOf_congr (n m : ENode) (htag : m.tag = n.tag) (hattr : m.attrib = n.attrib)
    (h : isContainerTree (ETree.hdrOf n) = true) : ETree.hdrOf m = ETree.hdrOf n := by
  have e : ETree.hdrOf m = ETree.hdrOf { n with text := m.text } := by
    simp only [ETree.hdrOf, htag, hattr]
  rw [e]
  exact hdrOf_text_irrelevant n m.text h

/-- allocating a fresh, unlinked node on both sides -/
theorem alloc_fresh (sE : ETree.St) (sD : MiniDom.St) (nE : ENode) (nD : DNode)
    (hI : RepInvE sE) (hD : RepInvD sD) (hS : Sim sE sD)
    (h1 : nE.kids = []) (h2 : nE.childNodes = []) (h3 : nE.parent = none) (h4 : nE.tail = none)
    (h5 : isContainerTree (ETree.hdrOf nE) = true → nE.text = none)
    (h6 : E.wrapOkN nE) (h7 : nD.children = []) (h8 : nD.parentNode = none)
    (hh : ETree.hdrOf nE = MiniDom.hdrOf nD) :
    RepInvE (sE.alloc nE).1 ∧ RepInvD (sD.alloc nD).1 ∧ Sim (sE.alloc nE).1 (sD.alloc nD).1 := by
  have hk : ∀ j, E.kids (sE.alloc nE).1 j = E.kids sE j := fun j => by
    rw [E.kids, E_fld_alloc]; by_cases h : j = sE.size
    · simp [h, h1, E_fld_none _ _ sE sE.size (Nat.le_refl _)]
    · simp [h]
  have hsh : ∀ j, E.shadow (sE.alloc nE).1 j = E.shadow sE j := fun j => by
    rw [E.shadow, E_fld_alloc]; by_cases h : j = sE.size
    · simp [h, h2, E_fld_none _ _ sE sE.size (Nat.le_refl _)]
    · simp [h]
  have hpa : ∀ j, E.parent (sE.alloc nE).1 j = E.parent sE j := fun j => by
    rw [E.parent, E_fld_alloc]; by_cases h : j = sE.size
    · simp [h, h3, E_fld_none _ _ sE sE.size (Nat.le_refl _)]
    · simp [h]
  have htl : ∀ j, E.tail (sE.alloc nE).1 j = E.tail sE j := fun j => by
    rw [E.tail, E_fld_alloc]; by_cases h : j = sE.size
    · simp [h, h4, E_fld_none _ _ sE sE.size (Nat.le_refl _)]
    · simp [h]
  have htx : ∀ j, j ≠ sE.size → E.text (sE.alloc nE).1 j = E.text sE j := fun j h => by
    rw [E.text, E_fld_alloc]; simp [h]
  have hDn : sD.get? sD.size = none := D_get?_none sD sD.size (Nat.le_refl _)
  have hch : ∀ j, D.children (sD.alloc nD).1 j = D.children sD j := fun j => by
    rw [D.children, D_fld_alloc]; by_cases h : j = sD.size
    · simp [h, h7, D.fld, hDn]
    · simp [h]
  have hpn : ∀ j, D.parentNode (sD.alloc nD).1 j = D.parentNode sD j := fun j => by
    rw [D.parentNode, D_fld_alloc]; by_cases h : j = sD.size
    · simp [h, h8, D.fld, hDn]
    · simp [h]
  refine ⟨?_, ?_, ?_⟩
  · refine RepInvE_of_eq sE _ hI hk hsh hpa (fun j _ => htl j) (fun j hw => ?_)
    rw [E.wrapOk, E_fld_alloc]
    by_cases h : j = sE.size
    · simp [h, h6]
    · simpa [h] using hw
  · constructor; intro i; rw [hch]; exact hD.noEmptyText i
  · constructor
    · simp [ETree.St.alloc, MiniDom.St.alloc, ETree.St.size, MiniDom.St.size]
      have := hS.size; simpa [ETree.St.size, MiniDom.St.size] using this
    · intro i
      rw [hdrE_eq, hdrD_eq, E.hdr, D.hdr, E_fld_alloc, D_fld_alloc, hS.size]
      by_cases h : i = sD.size
      · simp [h, hh]
      · simp only [h, if_false]
        have := hS.hdr i
        rwa [hdrE_eq, hdrD_eq] at this
    · intro i hci
      rw [canonE_eq, canonD_eq, hk, hch]
      simp only [htl]
      by_cases h : i = sE.size
      · -- the new node: no text (it is a container), no children
        have hc : isContainerTree (ETree.hdrOf nE) = true := by
          simpa [hdrE, E_get?_alloc, h, isContHdr] using hci
        have e1 : E.text (sE.alloc nE).1 i = none := by rw [E.text, E_fld_alloc]; simp [h, h5 hc]
        have e2 : E.kids sE i = [] := by rw [h]; exact E_fld_none _ _ sE sE.size (Nat.le_refl _)
        have e3 : D.children sD i = [] := by
          rw [h, hS.size]; simp [D.children, D.fld, hDn]
        rw [e1, e2, e3]; rfl
      · rw [htx i h]
        have hci0 : isContHdr (hdrE sE i) = true := by
          simpa [hdrE, E_get?_alloc, h] using hci
        exact sim_canon_acc hS i hci0
    · intro i; rw [hpa, hpn, hS.parent]

/-- **C04 (cloneNode).** `p` an `Element` on both sides whose minidom attribute set is well-formed (`AttrsWf`): both
back ends return the same new handle; the clone has the same header (namespace, name, attributes in the same order), no
parent, no children; `RepInvE` and `Sim` are kept. -/
theorem C04_prim_cloneNode (sE : ETree.St) (sD : MiniDom.St) (p : NodeId)
    (hI : RepInvE sE) (hD : RepInvD sD) (hS : Sim sE sD)
    (hE : ∃ n, sE.get? p = some n ∧ n.cls = .element)
    (hDel : ∃ n, sD.get? p = some n ∧ MiniDom.isElement n.kind = true ∧ AttrsWf n.attrs) :
    ∃ sE' sD', sE.cloneNode p = .ok (sE', sE.size) ∧ sD.cloneNode p = .ok (sD', sE.size) ∧
      RepInvE sE' ∧ RepInvD sD' ∧ Sim sE' sD' ∧ hdrE sE' sE.size = hdrE sE p ∧
      E.kids sE' sE.size = [] ∧ E.parent sE' sE.size = none := by
  obtain ⟨nE, hnE, hcls⟩ := hE
  obtain ⟨nD, hnD, hel, hwf⟩ := hDel
  obtain ⟨ns, nm, hkind⟩ : ∃ ns nm, nD.kind = .element ns nm := by
    cases hk : nD.kind <;> simp_all [MiniDom.isElement]
  have hw := hI.wrapper p
  simp only [E.wrapOk, E.fld, hnE, E.wrapOkN] at hw
  obtain ⟨name, hname, htag⟩ := hw hcls
  obtain ⟨am, ham, hab⟩ := cloneAttrs_ok nD.attrs hwf
  have hh := hS.hdr p
  simp only [hdrE, hdrD, hnE, hnD, Option.map_some, Option.some.injEq] at hh
  have hcont : isContainerTree (ETree.hdrOf nE) = true := by
    rw [hh]; simp [MiniDom.hdrOf, hkind, isContainerTree]
  let cE : ENode := { ETree.St.elementNode name nE.ns with attrib := nE.attrib }
  let cD : DNode := { kind := .element ns nm, attrs := am }
  have hhc : ETree.hdrOf cE = MiniDom.hdrOf cD := by
    rw [hdrOf_congr nE cE (by simp [cE, ETree.St.elementNode, htag]) rfl hcont, hh]
    simp [MiniDom.hdrOf, hkind, cD, hab]
  obtain ⟨r1, r2, r3⟩ := alloc_fresh sE sD cE cD hI hD hS rfl rfl rfl rfl (fun _ => rfl)
    (by intro _; exact ⟨name, rfl, rfl⟩) rfl rfl hhc
  refine ⟨(sE.alloc cE).1, (sD.alloc cD).1, ?_, ?_, r1, r2, r3, ?_, ?_, ?_⟩
  · simp [ETree.St.cloneNode, ETree.St.get, hnE, hcls, hname, ETree.St.alloc, cE, ETree.St.size]
  · simp [MiniDom.St.cloneNode, MiniDom.St.get, hnD, hkind, ham, MiniDom.St.alloc, cD, hS.size, MiniDom.St.size]
  · simp only [hdrE, E_get?_alloc, if_true, hnE, Option.map_some]
    rw [hdrOf_congr nE cE (by simp [cE, ETree.St.elementNode, htag]) rfl hcont]
  · rw [E.kids, E_fld_alloc]; simp [cE, ETree.St.elementNode]
  · rw [E.parent, E_fld_alloc]; simp [cE, ETree.St.elementNode]


/-! ### `node.attributes = {…}` on a fresh element -/

open H5.Model.Dom (attrToTree)

/-- minidom's `_attrs` key of an attribute key -/
def dname : AttrKey → Str
  | .plain n => n
  | .qual pfx loc _ => MiniDom.St.qualifiedName pfx loc

/-- minidom's `_attrsNS` key of an attribute key -/
def dkey : AttrKey → MiniDom.NSKey
  | .plain n => (none, afterColon n)
  | .qual _ loc uri => (some uri, loc)

/-- the name reads back unchanged from both representations: a plain name does not start with `{`; a namespace is
non-empty and has no `}`; a prefix (or an unprefixed local name) has no `:` -/
def KeyOk : AttrKey → Prop
  | .plain n => n.head? ≠ some 123
  | .qual pfx loc uri => uri ≠ [] ∧ 125 ∉ uri ∧ (match pfx with | some p => 58 ∉ p | none => 58 ∉ loc)

/-- **collision-free attribute dict**: what the tokenizer + `adjustForeignAttributes` deliver, except for the recorded
finding (two names with the same part after `:`), which violates `dkeys`. -/
structure AttrsCompat (attrs : List (AttrKey × Str)) : Prop where
  keyOk : ∀ kv, kv ∈ attrs → KeyOk kv.1
  enames : (attrs.map fun kv => etreeAttrName kv.1).Nodup
  dnames : (attrs.map fun kv => dname kv.1).Nodup
  dkeys : (attrs.map fun kv => dkey kv.1).Nodup

/-- the minidom attribute node created for one item -/
def mkAttr (kv : AttrKey × Str) : DAttr :=
  match kv.1 with
  | .plain n => { name := n, value := kv.2 }
  | .qual pfx loc uri => nsAttr (some uri) (MiniDom.St.qualifiedName pfx loc) kv.2

theorem nssplit_qname (pfx : Option Str) (loc : Str)
    (h : match pfx with | some p => 58 ∉ p | none => 58 ∉ loc) :
    (nssplit (MiniDom.St.qualifiedName pfx loc)).2 = loc := by
  cases pfx with
  | none => simp only [MiniDom.St.qualifiedName]; rw [nssplit_plain loc h]
  | some p => simp only [MiniDom.St.qualifiedName]; rw [nssplit_qualified p loc h]

theorem mkAttr_name (kv : AttrKey × Str) : (mkAttr kv).name = dname kv.1 := by
  obtain ⟨k, v⟩ := kv; cases k <;> rfl

theorem mkAttr_nsKey (kv : AttrKey × Str) (h : KeyOk kv.1) : (mkAttr kv).nsKey = dkey kv.1 := by
  obtain ⟨k, v⟩ := kv
  cases k with
  | plain n => rfl
  | qual pfx loc uri =>
    simp only [mkAttr, nsAttr, DAttr.nsKey, DAttr.loc, dkey]
    rw [nssplit_qname pfx loc h.2.2]

theorem mkAttr_loc (kv : AttrKey × Str) : (mkAttr kv).loc = afterColon (mkAttr kv).name := by
  obtain ⟨k, v⟩ := kv
  cases k with
  | plain n => rfl
  | qual pfx loc uri => simp only [mkAttr, nsAttr, DAttr.loc, nssplit_snd]

theorem mkAttr_abs (kv : AttrKey × Str) (h : KeyOk kv.1) : MiniDom.attrAbs (mkAttr kv) = attrToTree kv := by
  obtain ⟨k, v⟩ := kv
  cases k with
  | plain n => simp [mkAttr, MiniDom.attrAbs, attrToTree, truthy]
  | qual pfx loc uri =>
    obtain ⟨h1, h2, h3⟩ := h
    have ht : truthy (some uri) = true := by cases uri <;> simp_all [truthy]
    simp only [mkAttr, MiniDom.attrAbs, nsAttr, attrToTree, ht, if_true, DAttr.loc]
    rw [nssplit_qname pfx loc h3]

theorem etree_abs (kv : AttrKey × Str) (h : KeyOk kv.1) : ETree.attrAbs (etreeAttrName kv.1, kv.2) = attrToTree kv := by
  obtain ⟨k, v⟩ := kv
  cases k with
  | plain n => simp only [ETree.attrAbs, etreeAttrName, splitTag_plain n h, attrToTree]
  | qual pfx loc uri => simp only [ETree.attrAbs, etreeAttrName, splitTag_etreeTag_some loc uri h.2.1, attrToTree]

/-- dom.py:94-106 on a collision-free dict: every item finds both minidom keys free -/
theorem setAttrs_fold (l : List (AttrKey × Str)) : ∀ acc : AttrMap,
    (∀ kv, kv ∈ l → KeyOk kv.1) → (l.map fun kv => dname kv.1).Nodup → (l.map fun kv => dkey kv.1).Nodup →
    (∀ kv, kv ∈ l → dname kv.1 ∉ acc.byName.map (·.name)) → (∀ kv, kv ∈ l → dkey kv.1 ∉ acc.byNS.map Prod.fst) →
    ∃ am, l.foldlM MiniDom.St.attrStep acc = .ok am ∧
      am.byName = acc.byName ++ l.map mkAttr := by
  induction l with
  | nil => intro acc _ _ _ _ _; exact ⟨acc, rfl, by simp⟩
  | cons kv r ih =>
    intro acc hok hn hk h1 h2
    simp only [List.map_cons, List.nodup_cons] at hn hk
    have hokv := hok kv (by simp)
    have hstep : MiniDom.St.attrStep acc kv =
        .ok (AttrMap.mk (acc.byName ++ [mkAttr kv]) (acc.byNS ++ [(dkey kv.1, dname kv.1)])) := by
      obtain ⟨k, v⟩ := kv
      cases k with
      | plain n => exact setAttribute_fresh acc n v (h1 (.plain n, v) (by simp)) (h2 (.plain n, v) (by simp))
      | qual pfx loc uri =>
        have hq := nssplit_qname pfx loc hokv.2.2
        have := setAttributeNS_fresh acc (some uri) (MiniDom.St.qualifiedName pfx loc) v
          (h1 (.qual pfx loc uri, v) (by simp)) (by rw [hq]; exact h2 (.qual pfx loc uri, v) (by simp))
        rw [hq] at this
        exact this
    obtain ⟨am, hf, hb⟩ := ih (AttrMap.mk (acc.byName ++ [mkAttr kv]) (acc.byNS ++ [(dkey kv.1, dname kv.1)]))
      (fun x hx => hok x (List.mem_cons_of_mem _ hx)) hn.2 hk.2
      (fun x hx => by
        show dname x.1 ∉ List.map (·.name) (acc.byName ++ [mkAttr kv])
        simp only [List.map_append, List.map_cons, List.map_nil, List.mem_append, List.mem_singleton, not_or, mkAttr_name]
        refine ⟨h1 x (List.mem_cons_of_mem _ hx), fun e => hn.1 ?_⟩
        rw [← e]; exact List.mem_map_of_mem (f := fun kv : AttrKey × Str => dname kv.1) hx)
      (fun x hx => by
        show dkey x.1 ∉ List.map Prod.fst (acc.byNS ++ [(dkey kv.1, dname kv.1)])
        simp only [List.map_append, List.map_cons, List.map_nil, List.mem_append, List.mem_singleton, not_or]
        refine ⟨h2 x (List.mem_cons_of_mem _ hx), fun e => hk.1 ?_⟩
        rw [← e]; exact List.mem_map_of_mem (f := fun kv : AttrKey × Str => dkey kv.1) hx)
    refine ⟨am, ?_, ?_⟩
    · simp only [List.foldlM_cons, hstep]; exact hf
    · rw [hb]; simp

/-- a header `elem ns nm _ []` stays an element header when `attrib` is replaced -/
theorem hdrOf_set_attrib (n : ENode) (A : List (Str × Str)) (ns : Option Str) (nm : Str) (a : List Attr)
    (h : ETree.hdrOf n = .elem ns nm a []) :
    ETree.hdrOf { n with attrib := A } = .elem ns nm (A.map ETree.attrAbs) [] := by
  unfold ETree.hdrOf at h ⊢
  have d1 : ETree.sDocFrag ≠ ETree.sDocRoot := by decide
  have d2 : ETree.sDoctype ≠ ETree.sDocRoot := by decide
  have d3 : ETree.sDoctype ≠ ETree.sDocFrag := by decide
  cases htag : n.tag with
  | commentFn => simp [htag] at h
  | str tg =>
    simp only [htag] at h ⊢
    by_cases h1 : tg = ETree.sDocRoot
    · simp [h1] at h
    · by_cases h2 : tg = ETree.sDocFrag
      · subst h2; simp [d1] at h
      · by_cases h3 : tg = ETree.sDoctype
        · subst h3; simp [d2, d3] at h
        · simp only [h1, h2, h3, if_false, Tree.elem.injEq] at h ⊢
          simp [h.1, h.2.1]

/-- **C04 (attributes = {…}).** `p` a fresh element (no attribute yet on the dom side: dom.py does not clear), the dict
collision-free (`AttrsCompat`): both back ends succeed, the element gets the same abstract attribute list (in dict
order) on both sides; the minidom attribute set is well-formed afterwards (so the element can be cloned:
`C04_prim_cloneNode`).  With colliding keys minidom drops an attribute: `C04_setAttributes_collision_witness`. -/
theorem C04_prim_setAttributes (sE : ETree.St) (sD : MiniDom.St) (p : NodeId) (attrs : List (AttrKey × Str))
    (hI : RepInvE sE) (hD : RepInvD sD) (hS : Sim sE sD)
    (hDel : ∃ n, sD.get? p = some n ∧ MiniDom.isElement n.kind = true ∧ n.attrs = {})
    (hok : AttrsCompat attrs) :
    ∃ sE' sD', sE.setAttributes p attrs = .ok sE' ∧ sD.setAttributes p attrs = .ok sD' ∧
      RepInvE sE' ∧ RepInvD sD' ∧ Sim sE' sD' ∧
      (∃ n, sD'.get? p = some n ∧ AttrsWf n.attrs ∧ n.attrs.byName.map MiniDom.attrAbs = attrs.map attrToTree) := by
  obtain ⟨nD, hnD, hel, hfresh⟩ := hDel
  obtain ⟨ns, nm, hkind⟩ : ∃ ns nm, nD.kind = .element ns nm := by
    cases hk : nD.kind <;> simp_all [MiniDom.isElement]
  have hpl : p < sE.size := (sim_lt_iff hS p).mpr (D_get?_lt _ _ _ hnD)
  have hplD : p < sD.size := D_get?_lt _ _ _ hnD
  obtain ⟨nE, hnE⟩ := E_get?_of_lt sE p hpl
  have hh := hS.hdr p
  simp only [hdrE, hdrD, hnE, hnD, Option.map_some, Option.some.injEq] at hh
  have hhD : MiniDom.hdrOf nD = .elem ns nm [] [] := by simp [MiniDom.hdrOf, hkind, hfresh]
  rw [hhD] at hh
  -- etree side
  have hfoldE : attrs.foldl (fun d kv => dictSet d (etreeAttrName kv.1) kv.2) [] =
      attrs.map (fun kv => (etreeAttrName kv.1, kv.2)) := by
    have := foldl_dictSet_fresh (fun kv : AttrKey × Str => etreeAttrName kv.1) (fun kv => kv.2) attrs [] hok.enames
      (by simp)
    simpa using this
  -- dom side
  obtain ⟨am, hfoldD, hbn⟩ := setAttrs_fold attrs nD.attrs hok.keyOk hok.dnames hok.dkeys
    (by rw [hfresh]; simp) (by rw [hfresh]; simp)
  rw [hfresh] at hbn
  simp only [List.nil_append] at hbn
  have habsD : am.byName.map MiniDom.attrAbs = attrs.map attrToTree := by
    rw [hbn, List.map_map]
    exact List.map_congr_left fun kv hkv => mkAttr_abs kv (hok.keyOk kv hkv)
  have habsE : (attrs.map (fun kv => (etreeAttrName kv.1, kv.2))).map ETree.attrAbs = attrs.map attrToTree := by
    rw [List.map_map]
    exact List.map_congr_left fun kv hkv => etree_abs kv (hok.keyOk kv hkv)
  let nE' : ENode := { nE with attrib := attrs.map (fun kv => (etreeAttrName kv.1, kv.2)) }
  let nD' : DNode := { nD with attrs := am }
  have hhdr : ETree.hdrOf nE' = MiniDom.hdrOf nD' := by
    rw [hdrOf_set_attrib nE _ ns nm [] hh, habsE]
    simp [MiniDom.hdrOf, nD', hkind, habsD]
  have hput_self : attrs = [] → sD.put p nD' = sD := by
    intro he
    subst he
    have : am = nD.attrs := by simpa [List.foldlM] using hfoldD.symm
    have e : nD' = nD := by simp [nD', this]
    rw [e]
    simp only [MiniDom.St.put]
    have h1 : sD.nodes[p]? = some nD := hnD
    have : sD.nodes.set p nD = sD.nodes := by
      apply List.ext_getElem? ; intro k
      rw [List.getElem?_set]
      by_cases hk : p = k
      · subst hk; simp [h1, hplD]
        exact (List.getElem?_eq_some_iff.mp h1).1
      · simp [hk]
    rw [this]
  -- accessor effects
  have eK : ∀ i, E.kids (sE.put p nE') i = E.kids sE i := fun i => by
    simp only [E.kids, E_fld_put, hpl, and_true]
    by_cases hip : i = p <;> simp_all [E_fld_of_get _ _ sE p nE hnE, nE']
  have eSh : ∀ i, E.shadow (sE.put p nE') i = E.shadow sE i := fun i => by
    simp only [E.shadow, E_fld_put, hpl, and_true]
    by_cases hip : i = p <;> simp_all [E_fld_of_get _ _ sE p nE hnE, nE']
  have eT : ∀ i, E.text (sE.put p nE') i = E.text sE i := fun i => by
    simp only [E.text, E_fld_put, hpl, and_true]
    by_cases hip : i = p <;> simp_all [E_fld_of_get _ _ sE p nE hnE, nE']
  have eL : ∀ k, E.tail (sE.put p nE') k = E.tail sE k := fun k => by
    simp only [E.tail, E_fld_put, hpl, and_true]
    by_cases hip : k = p <;> simp_all [E_fld_of_get _ _ sE p nE hnE, nE']
  have eP : ∀ i, E.parent (sE.put p nE') i = E.parent sE i := fun i => by
    simp only [E.parent, E_fld_put, hpl, and_true]
    by_cases hip : i = p <;> simp_all [E_fld_of_get _ _ sE p nE hnE, nE']
  have eW : ∀ i, E.wrapOk sE i → E.wrapOk (sE.put p nE') i := fun i hw => by
    simp only [E.wrapOk, E_fld_put, hpl, and_true] at hw ⊢
    by_cases hip : i = p <;> simp_all [E_fld_of_get _ _ sE p nE hnE, nE', E.wrapOkN]
  have eC : ∀ i, D.children (sD.put p nD') i = D.children sD i := fun i => by
    simp only [D.children, D_fld_put, hplD, and_true]
    by_cases hip : i = p <;> simp_all [D_fld_of_get _ _ sD p nD hnD, nD']
  have eQ : ∀ i, D.parentNode (sD.put p nD') i = D.parentNode sD i := fun i => by
    simp only [D.parentNode, D_fld_put, hplD, and_true]
    by_cases hip : i = p <;> simp_all [D_fld_of_get _ _ sD p nD hnD, nD']
  refine ⟨sE.put p nE', sD.put p nD', ?_, ?_, ?_, ?_, ?_, ?_⟩
  · simp [ETree.St.setAttributes, ETree.St.get, hnE, hfoldE, nE']
  · by_cases hemp : attrs.isEmpty = true
    · rw [hput_self (by simpa using hemp)]
      simp [MiniDom.St.setAttributes, MiniDom.St.get, hnD, hkind, MiniDom.isDocument, hemp]
    · simp [MiniDom.St.setAttributes, MiniDom.St.get, hnD, hkind, MiniDom.isDocument, MiniDom.isElement, hemp, hfoldD, nD']
  · exact RepInvE_of_eq sE _ hI eK eSh eP (fun j _ => eL j) eW
  · constructor; intro i; rw [eC]; exact hD.noEmptyText i
  · constructor
    · simp [hS.size]
    · intro i
      rw [hdrE_eq, hdrD_eq]
      simp only [E.hdr, D.hdr, E_fld_put, D_fld_put, hpl, hplD, and_true]
      by_cases hip : i = p
      · simp only [hip, if_true]; rw [hhdr]
      · simp only [hip, if_false]
        have h0 := hS.hdr i
        rwa [hdrE_eq, hdrD_eq] at h0
    · intro i hci
      have hci0 : isContHdr (hdrE sE i) = true := by
        by_cases hip : i = p
        · rw [hip]; simp [hdrE, hnE, isContHdr, hh, isContainerTree]
        · rw [hdrE_eq] at hci ⊢
          simpa [E.hdr, E_fld_put, hip] using hci
      rw [canonE_eq, canonD_eq, eK, eT, eC]
      simp only [eL]
      exact sim_canon_acc hS i hci0
    · intro i; rw [eP, eQ, hS.parent]
  · have hwfam : AttrsWf am := by
      refine ⟨?_, ?_, ?_⟩
      · rw [hbn, List.map_map]
        have : (fun kv => (mkAttr kv).name) = fun kv : AttrKey × Str => dname kv.1 := funext mkAttr_name
        simpa [Function.comp_def, this] using hok.dnames
      · rw [hbn, List.map_map]
        have e : attrs.map ((fun a => a.nsKey) ∘ mkAttr) = attrs.map (fun kv => dkey kv.1) :=
          List.map_congr_left fun kv hkv => mkAttr_nsKey kv (hok.keyOk kv hkv)
        rw [e]; exact hok.dkeys
      · intro a ha
        rw [hbn] at ha
        obtain ⟨kv, _, rfl⟩ := List.mem_map.mp ha
        exact mkAttr_loc kv
    exact ⟨nD', D_get?_put_same sD p nD' nD hnD, hwfam, habsD⟩


/-- **C04 (attributes, witness for the collision condition).** The dict `{"xml:lang": "a", "lang": "b"}` (both names have
the part `lang` after the colon, so the same `_attrsNS` key `(None, "lang")`): minidom's `setAttributeNode` removes
`xml:lang` when `lang` is stored, the etree back end keeps both.  This is the recorded finding
`dom-attribute-local-name-collision` (`<p xml:lang=a lang=b>`), reachable from the parser. -/
theorem C04_setAttributes_collision_witness :
    let attrs : List (AttrKey × Str) := [(.plain [120, 109, 108, 58, 108, 97, 110, 103], [97]), (.plain [108, 97, 110, 103], [98])]
    let sE : ETree.St := { nodes := [ETree.St.elementNode [112] none] }
    let sD : MiniDom.St := { nodes := [{ kind := .element none [112] }] }
    (hdrE (okE (sE.setAttributes 0 attrs)) 0).map (fun t => match t with | .elem _ _ a _ => a.length | _ => 0) = some 2 ∧
    (hdrD (okD (sD.setAttributes 0 attrs)) 0).map (fun t => match t with | .elem _ _ a _ => a.length | _ => 0) = some 1 ∧
    isOkB (sE.setAttributes 0 attrs) = true ∧ isOkB (sD.setAttributes 0 attrs) = true := by
  decide

/-! ## 16. creation, and `getDocument`: root form vs full tree -/

/-- element names that both representations read back: the `{ns}name` tag splits back into `(ns, name)` and is none of
the three reserved tags -/
def NameOk (ns : Option Str) (name : Str) : Prop :=
  (match ns with
    | none => name.head? ≠ some 123
    | some n => 125 ∉ n) ∧
  etreeTag name ns ≠ ETree.sDocRoot ∧ etreeTag name ns ≠ ETree.sDocFrag ∧ etreeTag name ns ≠ ETree.sDoctype

theorem hdrOf_elementNode (name : Str) (ns : Option Str) (h : NameOk ns name) :
    ETree.hdrOf (ETree.St.elementNode name ns) = .elem ns name [] [] := by
  obtain ⟨h0, h1, h2, h3⟩ := h
  have hs : splitTag (etreeTag name ns) = (ns, name) := by
    cases ns with
    | none => exact splitTag_plain name h0
    | some n => exact splitTag_etreeTag_some name n h0
  simp [ETree.hdrOf, ETree.St.elementNode, h1, h2, h3, hs]

/-- **C04 (elementClass(name, namespace)).** A new element with a well-formed name has the same header on both sides. -/
theorem C04_prim_mkElement (sE : ETree.St) (sD : MiniDom.St) (name : Str) (ns : Option Str)
    (hI : RepInvE sE) (hD : RepInvD sD) (hS : Sim sE sD) (hn : NameOk ns name) :
    (sE.mkElement name ns).2 = (sD.mkElement name ns).2 ∧
    RepInvE (sE.mkElement name ns).1 ∧ RepInvD (sD.mkElement name ns).1 ∧
    Sim (sE.mkElement name ns).1 (sD.mkElement name ns).1 := by
  refine ⟨by simp [ETree.St.mkElement, MiniDom.St.mkElement, ETree.St.alloc, MiniDom.St.alloc]; exact hS.size, ?_⟩
  exact alloc_fresh sE sD (ETree.St.elementNode name ns) { kind := .element ns name } hI hD hS rfl rfl rfl rfl
    (fun _ => rfl) (by intro _; exact ⟨name, rfl, rfl⟩) rfl rfl (by rw [hdrOf_elementNode name ns hn]; rfl)


/-- **C04 (commentClass(data)).** -/
theorem C04_prim_mkComment (sE : ETree.St) (sD : MiniDom.St) (data : Str)
    (hI : RepInvE sE) (hD : RepInvD sD) (hS : Sim sE sD) :
    (sE.mkComment data).2 = (sD.mkComment data).2 ∧
    RepInvE (sE.mkComment data).1 ∧ RepInvD (sD.mkComment data).1 ∧
    Sim (sE.mkComment data).1 (sD.mkComment data).1 := by
  refine ⟨by simp [ETree.St.mkComment, MiniDom.St.mkComment, ETree.St.alloc, MiniDom.St.alloc]; exact hS.size, ?_⟩
  exact alloc_fresh sE sD (ETree.St.commentNode data) { kind := .comment data } hI hD hS rfl rfl rfl rfl
    (fun h => by simp [ETree.hdrOf, ETree.St.commentNode, isContainerTree] at h)
    (by intro h; simp [ETree.St.commentNode] at h) rfl rfl
    (by simp [ETree.hdrOf, ETree.St.commentNode, MiniDom.hdrOf])

theorem hdrOf_doctypeNode (name pub sys : Option Str) :
    ETree.hdrOf (ETree.St.doctypeNode name pub sys) = .doctype name pub sys := by
  have d1 : ETree.sDoctype ≠ ETree.sDocRoot := by decide
  have d2 : ETree.sDoctype ≠ ETree.sDocFrag := by decide
  have d3 : ETree.sPublicId ≠ ETree.sSystemId := by decide
  have d4 : ETree.sSystemId ≠ ETree.sPublicId := by decide
  cases pub <;> cases sys <;> simp [ETree.hdrOf, ETree.St.doctypeNode, d1, d2, d3, d4, dictSet, dictGet]

/-- **C04 (the doctype node of insertDoctype).** For a name that minidom keeps (`doctypeName name = name`: non-empty,
no colon) the new doctype node has the same header on both sides; otherwise minidom changes the name: the recorded
finding `dom-doctype-name` (`C04_doctype_name_witness`). -/
theorem C04_prim_mkDoctype (sE : ETree.St) (sD : MiniDom.St) (name pub sys : Option Str)
    (hI : RepInvE sE) (hD : RepInvD sD) (hS : Sim sE sD) (hname : MiniDom.St.doctypeName name = name) :
    RepInvE (sE.alloc (ETree.St.doctypeNode name pub sys)).1 ∧
    RepInvD (sD.alloc { kind := .doctype (MiniDom.St.doctypeName name) pub sys }).1 ∧
    Sim (sE.alloc (ETree.St.doctypeNode name pub sys)).1
      (sD.alloc { kind := .doctype (MiniDom.St.doctypeName name) pub sys }).1 := by
  refine alloc_fresh sE sD _ _ hI hD hS ?_ ?_ ?_ ?_ (fun h => ?_) ?_ rfl rfl ?_
  · cases pub <;> cases sys <;> rfl
  · cases pub <;> cases sys <;> rfl
  · cases pub <;> cases sys <;> rfl
  · cases pub <;> cases sys <;> rfl
  · rw [hdrOf_doctypeNode] at h; simp [isContainerTree] at h
  · intro h; cases pub <;> cases sys <;> simp [ETree.St.doctypeNode] at h
  · rw [hdrOf_doctypeNode, hname]; rfl

/-- `<!DOCTYPE a:b>` and `<!DOCTYPE>`: minidom keeps `b` / `None`, the etree back end `a:b` / `""` -/
theorem C04_doctype_name_witness :
    MiniDom.St.doctypeName (some [97, 58, 98]) = some [98] ∧ MiniDom.St.doctypeName (some []) = none ∧
    ETree.hdrOf (ETree.St.doctypeNode (some [97, 58, 98]) none none) = .doctype (some [97, 58, 98]) none none :=
  ⟨by decide, by decide, hdrOf_doctypeNode _ _ _⟩

/-! ### `getDocument`: the root form is the `html` subtree of the full form -/

theorem dropWhile_sep (c : Nat) (l : List Nat) (h : List.contains l c = true) :
    ∃ tl, l.dropWhile (· != c) = c :: tl := by
  induction l with
  | nil => simp at h
  | cons x r ih =>
    by_cases hx : x = c
    · subst hx; exact ⟨r, by simp⟩
    · have : List.contains r c = true := by
        simp only [List.contains_cons, Bool.or_eq_true, beq_iff_eq] at h
        rcases h with h | h
        · exact absurd h.symm hx
        · exact h
      obtain ⟨tl, htl⟩ := ih this
      exact ⟨tl, by simp [List.dropWhile_cons, hx, htl]⟩

/-- `splitTag` is injective: the tag can be rebuilt from its parts -/
theorem splitTag_inj (t : Str) (ns : Option Str) (nm : Str) (h : splitTag t = (ns, nm)) : t = etreeTag nm ns := by
  unfold splitTag at h
  split at h
  · rename_i rest
    by_cases hc : List.contains rest 125 = true
    · simp only [hc, if_true, Prod.mk.injEq] at h
      obtain ⟨tl, htl⟩ := dropWhile_sep 125 rest hc
      have hr := List.takeWhile_append_dropWhile (p := (· != 125)) (l := rest)
      rw [htl] at hr h
      simp only [List.drop_one, List.tail_cons] at h
      rw [← h.1, ← h.2, etreeTag, hr]
    · simp only [hc] at h
      simp only [Bool.false_eq_true, if_false, Prod.mk.injEq] at h
      rw [← h.1, ← h.2]; rfl
  · simp only [Prod.mk.injEq] at h
    rw [← h.1, ← h.2]; rfl

/-- the first `html` element (namespace `dns`) among the children of a document tree -/
def isHtmlElem (dns : Option Str) : Tree → Bool
  | .elem ns nm _ _ => decide (ns = dns) && decide (nm = ETree.sHtml)
  | _ => false

def htmlChild (dns : Option Str) : Tree → Option Tree
  | .doc kids => kids.find? (isHtmlElem dns)
  | _ => none

/-- the namespace has no `}` (true of the only value used, the XHTML namespace) -/
def DnsOk : Option Str → Prop
  | none => True
  | some n => 125 ∉ n

theorem htmlTag_facts (dns : Option Str) (h : DnsOk dns) :
    splitTag (etreeTag ETree.sHtml dns) = (dns, ETree.sHtml) ∧ etreeTag ETree.sHtml dns ≠ ETree.sDocRoot ∧
    etreeTag ETree.sHtml dns ≠ ETree.sDocFrag ∧ etreeTag ETree.sHtml dns ≠ ETree.sDoctype := by
  cases dns with
  | none => exact ⟨splitTag_plain _ (by decide), by decide, by decide, by decide⟩
  | some n =>
    refine ⟨splitTag_etreeTag_some _ n h, ?_, ?_, ?_⟩ <;>
      simp [etreeTag, ETree.sDocRoot, ETree.sDocFrag, ETree.sDoctype]

/-- a child's abstract tree is an `html` element in namespace `dns` exactly when its tag is `{dns}html` -/
theorem isHtml_iff_tag (s : ETree.St) (dns : Option Str) (hd : DnsOk dns) (fuel : Nat) (k : NodeId) (nk : ENode)
    (hnk : s.get? k = some nk) :
    isHtmlElem dns (absE s (fuel + 1) k) = decide (nk.tag = .str (etreeTag ETree.sHtml dns)) := by
  obtain ⟨f1, f2, f3, f4⟩ := htmlTag_facts dns hd
  have d1 : ETree.sDocFrag ≠ ETree.sDocRoot := by decide
  have d2 : ETree.sDoctype ≠ ETree.sDocRoot := by decide
  have d3 : ETree.sDoctype ≠ ETree.sDocFrag := by decide
  simp only [absE, hnk]
  cases htag : nk.tag with
  | commentFn => simp [ETree.hdrOf, htag, setKids, isHtmlElem]
  | str t =>
    by_cases e : t = etreeTag ETree.sHtml dns
    · subst e
      simp [ETree.hdrOf, htag, f1, f2, f3, f4, setKids, isHtmlElem]
    · have e' : ¬ ETree.ETag.str t = ETree.ETag.str (etreeTag ETree.sHtml dns) := fun h => e (by simpa using h)
      simp only [e', decide_false]
      simp only [ETree.hdrOf, htag]
      by_cases h1 : t = ETree.sDocRoot
      · simp [h1, setKids, isHtmlElem]
      · by_cases h2 : t = ETree.sDocFrag
        · subst h2; simp [d1, setKids, isHtmlElem]
        · by_cases h3 : t = ETree.sDoctype
          · subst h3; simp [d2, d3, setKids, isHtmlElem]
          · simp only [h1, h2, h3, if_false, setKids, isHtmlElem, Bool.and_eq_false_iff, decide_eq_false_iff_not]
            by_cases hns : (splitTag t).1 = dns
            · right
              intro hnm
              exact e (splitTag_inj t dns ETree.sHtml (by rw [← hns, ← hnm]))
            · left; exact hns

theorem find?_flatMap_html (dns : Option Str) (g : NodeId → Tree) (tl : NodeId → Str) (pred : NodeId → Bool)
    (kids : List NodeId) (h : ∀ k, k ∈ kids → isHtmlElem dns (g k) = pred k) :
    (kids.flatMap fun k => g k :: textTree (tl k)).find? (isHtmlElem dns) = (kids.find? pred).map g := by
  induction kids with
  | nil => rfl
  | cons k r ih =>
    have hk := h k (by simp)
    have ht : (textTree (tl k)).find? (isHtmlElem dns) = none := by
      cases htk : tl k <;> simp [textTree, isHtmlElem]
    simp only [List.flatMap_cons, List.cons_append, List.find?_cons, hk]
    cases hp : pred k with
    | true => simp
    | false =>
      simp only [List.find?_append, ht, Option.none_or]
      exact ih (fun x hx => h x (List.mem_cons_of_mem _ hx))

/-- **C04 (full tree vs root element).** For a document node `doc` whose children are valid nodes: `getDocument()` with
`fullTree` returns the document, without it the first child with tag `{ns}html` (or `None`), and the abstract tree of
that element is exactly the first `html` element child of the abstract full tree. -/
theorem C04_fulltree (s : ETree.St) (doc : NodeId) (nd : ENode) (dns : Option Str) (fuel : Nat)
    (hnd : s.get? doc = some nd) (hdoc : ETree.hdrOf nd = .doc [])
    (hkids : ∀ k, k ∈ nd.kids → ∃ nk, s.get? k = some nk) (hd : DnsOk dns) :
    s.getDocument doc true dns = .ok (some doc) ∧
    ∃ r, s.getDocument doc false dns = .ok r ∧
      r.map (absE s (fuel + 1)) = htmlChild dns (absE s (fuel + 2) doc) := by
  refine ⟨by simp [ETree.St.getDocument, ETree.St.get, hnd], s.findChild nd.kids (etreeTag ETree.sHtml dns), ?_, ?_⟩
  · simp [ETree.St.getDocument, ETree.St.get, hnd]
  · have hdoc2 : absE s (fuel + 2) doc = .doc (canonTrees (absE s (fuel + 1)) (canonOfNode s nd)) := by
      simp only [absE, hnd, hdoc, setKids]
    rw [hdoc2]
    simp only [htmlChild, canonTrees, canonOfNode, List.find?_append]
    have ht : (textTree (nd.text.getD [])).find? (isHtmlElem dns) = none := by
      cases htk : nd.text.getD [] <;> simp [textTree, isHtmlElem]
    rw [ht, Option.none_or, List.flatMap_map]
    rw [find?_flatMap_html dns (absE s (fuel + 1)) (fun k => (tailOf s k).getD [])
      (fun k => match s.get? k with | some n => decide (n.tag = .str (etreeTag ETree.sHtml dns)) | none => false) nd.kids]
    · rfl
    · intro k hk
      obtain ⟨nk, hnk⟩ := hkids k hk
      rw [isHtml_iff_tag s dns hd fuel k nk hnk, hnk]


/-! ## 17. the etree abstraction is already in merged form; non-vacuity -/

theorem mergeText_text_cons_nontext (t : Str) (X : List Tree) (ht : t ≠ [])
    (hX : mergeText X = X) (hhead : ∀ y r, X = y :: r → C04.isText y = false) :
    mergeText (.text t :: X) = .text t :: X := by
  cases t with
  | nil => exact absurd rfl ht
  | cons a r =>
    cases X with
    | nil => simp [mergeText]
    | cons y rest =>
      have := hhead y rest rfl
      simp only [mergeText, hX]
      cases y <;> simp_all [C04.isText]

theorem mergeText_flat_fixed (g : NodeId → Tree) (hg : ∀ k, isTextTree (g k) = false) (L : List (NodeId × Str)) :
    mergeText (L.flatMap fun p => g p.1 :: textTree p.2) = L.flatMap fun p => g p.1 :: textTree p.2 := by
  induction L with
  | nil => simp [mergeText]
  | cons e r ih =>
    have hc : C04.isText (g e.1) = false := by
      have := hg e.1; cases h : g e.1 <;> simp_all [isTextTree, C04.isText]
    simp only [List.flatMap_cons, List.cons_append]
    rw [C04.mergeText_head_nontext _ _ hc]
    congr 1
    cases ht : e.2 with
    | nil => simpa [textTree] using ih
    | cons a t =>
      simp only [textTree, List.cons_append, List.nil_append]
      exact mergeText_text_cons_nontext (a :: t) _ (by simp) ih (textTree_ne_text_head g hg r)

/-- **C04 (etree abstraction is merged).** The child list that `from_etree` reads (`text`, children, `tail`s) has no
empty and no adjacent text: applying `merge_text` (`H5.Model.Dom.mergeText`) changes nothing, so `absE` is the merged
form just as `absD` is by definition. -/
theorem absE_children_merged (g : NodeId → Tree) (hg : ∀ k, isTextTree (g k) = false) (c : Canon) :
    mergeText (canonTrees g c) = canonTrees g c := by
  obtain ⟨t, L⟩ := c
  simp only [canonTrees]
  cases t with
  | nil => simpa [textTree] using mergeText_flat_fixed g hg L
  | cons a r =>
    simp only [textTree, List.cons_append, List.nil_append]
    exact mergeText_text_cons_nontext (a :: r) _ (by simp) (mergeText_flat_fixed g hg L) (textTree_ne_text_head g hg L)

def repInvDb (s : MiniDom.St) : Bool :=
  (List.range s.size).all fun i => !(decide (DChild.text [] ∈ D.children s i))

theorem repInvDb_sound (s : MiniDom.St) (h : repInvDb s = true) : RepInvD s := by
  constructor
  intro i
  by_cases hi : i < s.size
  · simp only [repInvDb, List.all_eq_true, List.mem_range] at h
    simpa using h i hi
  · simp [D.children, D.fld, D_get?_none s i (Nat.le_of_not_lt hi)]

/-- the hypotheses of the `C04_prim_*` theorems are satisfiable: the 3-element states `a[b]`, `c` free -/
example : RepInvE wE3 ∧ RepInvD wD3 ∧ Sim wE3 wD3 ∧ ContainerD wD3 0 ∧ InsertableD wD3 2 ∧ E.parent wE3 2 = none ∧
    1 ∈ E.kids wE3 0 :=
  ⟨repInvEb_sound _ (by decide), repInvDb_sound _ (by decide), simb_sound _ _ (by decide), ⟨_, rfl, by decide⟩,
    ⟨_, rfl, by decide⟩, by decide, by decide⟩


/-! ## 18. `reparentChildren` into a target that already has child elements -/

/-- effect of etree `reparentChildren` when the target's last child has a string tail and `self.text` is a string -/
theorem E_reparent_nonempty_eff (s : ETree.St) (a b last : NodeId) (na nb nl : ENode) (b0 : List NodeId) (tlv tx : Str)
    (hna : s.get? a = some na) (hnb : s.get? b = some nb) (hnl : s.get? last = some nl) (hab : a ≠ b)
    (hca : isContainerTree (ETree.hdrOf na) = true)
    (hshb : nb.childNodes = b0 ++ [last]) (htail : nl.tail = some tlv) (htext : na.text = some tx)
    (hsha : na.childNodes = na.kids) (hkids : ∀ c, c ∈ na.kids → c < s.size ∧ b ≠ c) :
    ∃ s', s.reparentChildren a b = .ok s' ∧ s'.size = s.size ∧
      (∀ j, E.kids s' j = if j = a then [] else if j = b then E.kids s b ++ E.kids s a else E.kids s j) ∧
      (∀ j, E.shadow s' j = if j = a then [] else if j = b then E.shadow s b ++ E.kids s a else E.shadow s j) ∧
      (∀ j, E.parent s' j = if j ∈ E.kids s a then some b else E.parent s j) ∧
      (∀ j, E.text s' j = if j = a then some [] else E.text s j) ∧
      (∀ j, E.tail s' j = if j = last then some (tlv ++ tx) else E.tail s j) ∧
      (∀ j, E.hdr s' j = E.hdr s j) ∧ (∀ j, E.wrapOk s' j = E.wrapOk s j) := by
  have hal := E_get?_lt s a na hna
  have hbl := E_get?_lt s b nb hnb
  -- step 1: the last child's tail
  obtain ⟨z1, k1, sh1, p1, t1, l1, d1, w1⟩ := E_setTail_eff s last nl (some (tlv ++ tx)) hnl
  generalize hs1 : s.put last { nl with tail := some (tlv ++ tx) } = s1 at z1 k1 sh1 p1 t1 l1 d1 w1
  obtain ⟨na1, g1⟩ := E_get?_of_lt s1 a (by rw [z1]; exact hal)
  have hca1 : isContainerTree (ETree.hdrOf na1) = true := by
    have := d1 a
    simp only [E.hdr, E.fld, g1, hna, Option.some.injEq] at this
    rw [this]; exact hca
  have hsh1 : na1.childNodes = na.kids := by
    have := sh1 a
    simp only [E.shadow, E.fld, g1, hna] at this
    rw [this, hsha]
  -- step 2: self.text = ""
  obtain ⟨z2, k2, sh2, p2, t2, l2, d2, w2⟩ := E_setText_eff s1 a na1 (some []) g1 hca1
  generalize hs2 : s1.put a { na1 with text := some [] } = s2 at z2 k2 sh2 p2 t2 l2 d2 w2
  have g2 : s2.get? a = some { na1 with text := some [] } := by
    rw [← hs2]; exact E_get?_put_same _ _ _ _ g1
  -- step 3: the loop
  obtain ⟨s3, f3, z3, k3, sh3, p3, t3, l3, d3, w3⟩ := E_appendAll_eff na1.childNodes s2 b (by rw [z2, z1]; exact hbl)
    (fun c hc => by rw [z2, z1]; exact hkids c (hsh1 ▸ hc))
  obtain ⟨n3, g3⟩ := E_get?_of_lt s3 a (by rw [z3, z2, z1]; exact hal)
  -- step 4: clear
  obtain ⟨z4, k4, sh4, p4, t4, l4, d4, w4⟩ := E_clearKids_eff s3 a n3 g3
  have hka : E.kids s a = na.kids := by simp [E.kids, E.fld, hna]
  refine ⟨s3.put a { n3 with kids := [], childNodes := [] }, ?_, by rw [z4, z3, z2, z1], ?_, ?_, ?_, ?_, ?_, ?_, ?_⟩
  · have e3 : nb.childNodes.getLast? = some last := by rw [hshb]; simp
    simp only [ETree.St.reparentChildren, ETree.St.get, hna, hnb, e3, hnl, htail, htext, bind, Except.bind, pure,
      Except.pure]
    simp only [hs1, g1, hs2, g2, hab, false_and, if_false, f3, g3]
  · intro j; rw [k4, k3, k2, k1, k2, k1, hka, hsh1]
  · intro j; rw [sh4, sh3, sh2, sh1, sh2, sh1, hka, hsh1]
  · intro j; rw [p4, p3, p2, p1, hka, hsh1]
  · intro j; rw [t4, t3, t2, t1]
  · intro j; rw [l4, l3, l2, l1]
  · intro j; rw [d4, d3, d2, d1]
  · intro j; rw [w4, w3, w2, w1]

/-- `RepInvE` after all children of `a` moved to the end of `b` (`a ≠ b`) -/
theorem RepInvE_reparent (s s' : ETree.St) (a b : NodeId) (hI : RepInvE s) (hab : a ≠ b)
    (hk : ∀ j, E.kids s' j = if j = a then [] else if j = b then E.kids s b ++ E.kids s a else E.kids s j)
    (hsh : ∀ j, E.shadow s' j = if j = a then [] else if j = b then E.shadow s b ++ E.kids s a else E.shadow s j)
    (hpa : ∀ j, E.parent s' j = if j ∈ E.kids s a then some b else E.parent s j)
    (htl : ∀ j, E.parent s j = none → E.tail s' j = E.tail s j)
    (hwr : ∀ j, E.wrapOk s' j = E.wrapOk s j) : RepInvE s' := by
  have hba : ¬ b = a := fun e => hab e.symm
  have hnotK : ∀ i c, i ≠ a → c ∈ E.kids s i → c ∉ E.kids s a := fun i c hi hc hK => by
    have h1 := hI.kidParent i c hc
    have h2 := hI.kidParent a c hK
    rw [h1] at h2; exact hi (Option.some.inj h2)
  constructor
  · intro i
    rw [hsh, hk, hI.shadow b, hI.shadow i]
  · intro i c hm
    rw [hk] at hm; rw [hpa]
    by_cases hia : i = a
    · simp [hia] at hm
    · simp only [hia, if_false] at hm
      by_cases hib : i = b
      · simp only [hib, if_true, List.mem_append] at hm
        rcases hm with hm | hm
        · simp only [hnotK b c hba hm, if_false, hib]; exact hI.kidParent b c hm
        · simp [hm, hib]
      · simp only [hib, if_false] at hm
        simp only [hnotK i c hia hm, if_false]
        exact hI.kidParent i c hm
  · intro c q hq
    rw [hpa] at hq; rw [hk]
    by_cases hcK : c ∈ E.kids s a
    · simp only [hcK, if_true, Option.some.injEq] at hq
      subst hq
      simp [hba, hcK]
    · simp only [hcK, if_false] at hq
      have hm := hI.parentKid c q hq
      have hqa : q ≠ a := fun e => hcK (e ▸ hm)
      by_cases hqb : q = b
      · simp [hba, hqb, hqb ▸ hm]
      · simp [hqa, hqb, hm]
  · intro i
    rw [hk]
    by_cases hia : i = a
    · simp [hia]
    · by_cases hib : i = b
      · simp only [hib, hba, if_false, if_true]
        exact List.nodup_append.mpr ⟨hI.nodup b, hI.nodup a, fun x hx y hy e => hnotK b x hba hx (e ▸ hy)⟩
      · simp only [hia, hib, if_false]; exact hI.nodup i
  · intro c hq
    rw [hpa] at hq
    by_cases hcK : c ∈ E.kids s a
    · simp [hcK] at hq
    · simp only [hcK, if_false] at hq
      rw [htl c hq]; exact hI.strayTail c hq
  · intro i; rw [hwr]; exact hI.wrapper i

/-- **C04 (reparentChildren, target with child elements).** As `C04_prim_reparentChildren`, but the target `b` has child
elements: the etree code needs the last child's `tail` and `self.text` to be strings (otherwise `TypeError`:
`C04_reparentChildren_typeError_witness`); then both back ends agree.  Together with `C04_prim_reparentChildren` this is
exactly the condition under which the etree method does not raise. -/
theorem C04_prim_reparentChildren_nonempty (sE : ETree.St) (sD : MiniDom.St) (a b last : NodeId) (tlv tx : Str)
    (hI : RepInvE sE) (hD : RepInvD sD) (hS : Sim sE sD)
    (ha : ContainerD sD a) (hb : ContainerD sD b) (hab : a ≠ b)
    (hlast : (E.kids sE b).getLast? = some last) (htail : E.tail sE last = some tlv) (htext : E.text sE a = some tx)
    (hins : ∀ k, k ∈ E.kids sE a → InsertableD sD k ∧ k ≠ a ∧ k ≠ b) :
    ∃ sE' sD', sE.reparentChildren a b = .ok sE' ∧ sD.reparentChildren a b = .ok sD' ∧
      RepInvE sE' ∧ RepInvD sD' ∧ Sim sE' sD' := by
  obtain ⟨na, hna, hca⟩ := container_hdr sE sD hS a ha
  obtain ⟨nb, hnb, hcb⟩ := container_hdr sE sD hS b hb
  have hcona := contHdr_of_containerD sE sD hS a ha
  have hconb := contHdr_of_containerD sE sD hS b hb
  obtain ⟨b0, hb0⟩ := List.getLast?_eq_some_iff.mp hlast
  have hlmem : last ∈ E.kids sE b := by rw [hb0]; simp
  have hlpar : E.parent sE last = some b := hI.kidParent b last hlmem
  obtain ⟨nl, hnl⟩ : ∃ nl, sE.get? last = some nl := by
    cases h : sE.get? last with
    | none => simp [E.parent, E.fld, h] at hlpar
    | some nl => exact ⟨nl, rfl⟩
  have hka : E.kids sE a = na.kids := by simp [E.kids, E.fld, hna]
  have hsha : na.childNodes = na.kids := by
    have := hI.shadow a; simpa [E.shadow, E.kids, E.fld, hna] using this
  have hshb : nb.childNodes = b0 ++ [last] := by
    have := hI.shadow b; rw [hb0] at this; simpa [E.shadow, E.fld, hnb] using this
  obtain ⟨sE', hE, hsz, hk, hsh, hpa, htx, htl, hhd, hwr⟩ := E_reparent_nonempty_eff sE a b last na nb nl b0 tlv tx
    hna hnb hnl hab hca hshb (by simpa [E.tail, E.fld, hnl] using htail) (by simpa [E.text, E.fld, hna] using htext) hsha
    (fun c hc => by
      obtain ⟨⟨n, hn, _⟩, _, h3⟩ := hins c (hka ▸ hc)
      exact ⟨(sim_lt_iff hS c).mpr (D_get?_lt _ _ _ hn), fun e => h3 e.symm⟩)
  obtain ⟨sD', hDo, hszD, hch, hpn, hkd, hhdD⟩ := D_reparent_eff sD a b ha hb hab
    (fun k hk => hins k ((sim_mem_kids hS a k hcona).mp hk))
  have hba : ¬ b = a := fun e => hab e.symm
  have hlK : last ∉ E.kids sE a := fun h => by
    have := hI.kidParent a last h; rw [hlpar] at this; exact hba (Option.some.inj this)
  have hnd := hI.nodup b
  rw [hb0] at hnd
  have hlb0 : last ∉ b0 := fun h => (List.nodup_append.mp hnd).2.2 last h last (by simp) rfl
  refine ⟨sE', sD', hE, hDo, ?_, ?_, ?_⟩
  · refine RepInvE_reparent sE sE' a b hI hab hk hsh hpa (fun j hj => ?_) hwr
    rw [htl]
    have : j ≠ last := fun e => by rw [e, hlpar] at hj; simp at hj
    simp [this]
  · constructor
    intro i
    rw [hch]
    by_cases hia : i = a
    · simp [hia]
    · by_cases hib : i = b
      · simp only [hib, hba, if_false, if_true, List.mem_append, not_or]
        exact ⟨hD.noEmptyText b, hD.noEmptyText a⟩
      · simp only [hia, hib, if_false]; exact hD.noEmptyText i
  · constructor
    · rw [hsz, hszD]; exact hS.size
    · intro i
      rw [hdrE_eq, hdrD_eq, hhd, hhdD, ← hdrE_eq, ← hdrD_eq]; exact hS.hdr i
    · intro i hci
      have hci0 : isContHdr (hdrE sE i) = true := by rw [← contHdr_transfer sE sE' hhd i]; exact hci
      rw [canonE_eq, canonD_eq, htx, hk, hch]
      by_cases hia : i = a
      · simp [hia, canon]
      · by_cases hib : i = b
        · simp only [hib, hba, if_false, if_true, canon_append]
          have cb := sim_canon_acc hS b hconb
          have ca := sim_canon_acc hS a hcona
          rw [← cb, ← ca, hb0]
          have hmap := map_tl_update_last (tl sE) (tl sE') last tx tlv b0 (E.kids sE a) hlb0 hlK
            (by simp only [tl, htail, Option.getD_some])
            (by simp only [tl, htl, if_true, Option.getD_some])
            (by intro j hj; simp only [tl, htl, hj, if_false])
          have hmap' : ((b0 ++ [last]) ++ E.kids sE a).map (fun k => (k, (E.tail sE' k).getD [])) =
              catL ((b0 ++ [last]).map (fun k => (k, (E.tail sE k).getD []))) tx ++
                (E.kids sE a).map (fun k => (k, (E.tail sE k).getD [])) := hmap
          rw [hmap', htext]
          cases hh : (b0 ++ [last]).map (fun k => (k, (E.tail sE k).getD [])) with
          | nil => simp at hh
          | cons e r => simp [catC]
        · simp only [hia, hib, if_false]
          rw [← sim_canon_acc hS i hci0]
          congr 1
          apply List.map_congr_left
          intro j hj
          have hjl : j ≠ last := by
            intro e; subst e
            have := hI.kidParent i j hj
            rw [hlpar] at this
            exact hib (Option.some.inj this).symm
          rw [htl]; simp [hjl]
    · intro i
      rw [hpa, hpn, hS.parent]
      by_cases hiK : i ∈ E.kids sE a
      · simp [hiK, (sim_mem_kids hS a i hcona).mpr hiK]
      · have : DChild.node i ∉ D.children sD a := fun h => hiK ((sim_mem_kids hS a i hcona).mp h)
        simp [hiK, this]


/-! ## 19. `getFragment` = a fresh fragment + `reparentChildren` (base.py:405-410) -/

theorem hdrOf_fragmentNode : ETree.hdrOf ETree.St.fragmentNode = .frag [] := by
  have d1 : ETree.sDocFrag ≠ ETree.sDocRoot := by decide
  simp [ETree.hdrOf, ETree.St.fragmentNode, d1]

/-- **C04 (getFragment).** `root` an element / fragment whose children are elements / comments other than `root`: both
back ends create the fragment under the same new handle and move `root`'s content into it; invariant and abstraction
are kept (the precondition of `reparentChildren` — an empty target — holds by construction). -/
theorem C04_getFragment (sE : ETree.St) (sD : MiniDom.St) (root : NodeId)
    (hI : RepInvE sE) (hD : RepInvD sD) (hS : Sim sE sD) (hr : ContainerD sD root)
    (hins : ∀ k, k ∈ E.kids sE root → InsertableD sD k ∧ k ≠ root) :
    ∃ sE' sD', sE.getFragment root = .ok (sE', sE.size) ∧ sD.getFragment root = .ok (sD', sE.size) ∧
      RepInvE sE' ∧ RepInvD sD' ∧ Sim sE' sD' := by
  obtain ⟨r1, r2, r3⟩ := alloc_fresh sE sD ETree.St.fragmentNode { kind := .fragment } hI hD hS rfl rfl rfl rfl
    (fun _ => rfl) (by intro h; simp [ETree.St.fragmentNode] at h) rfl rfl (by rw [hdrOf_fragmentNode]; rfl)
  have hrl : root < sD.size := by obtain ⟨n, hn, _⟩ := hr; exact D_get?_lt _ _ _ hn
  have hrlE : root < sE.size := (sim_lt_iff hS root).mpr hrl
  have hne : root ≠ sE.size := Nat.ne_of_lt hrlE
  -- facts about the states with the new fragment
  have hr' : ContainerD (sD.alloc { kind := .fragment }).1 root := by
    obtain ⟨n, hn, hk⟩ := hr
    refine ⟨n, ?_, hk⟩
    rw [D_get?_alloc]; simp [Nat.ne_of_lt hrl, hn]
  have hf' : ContainerD (sD.alloc { kind := .fragment }).1 sE.size :=
    ⟨{ kind := .fragment }, by rw [D_get?_alloc, hS.size]; simp, rfl⟩
  have hk' : ∀ j, E.kids (sE.alloc ETree.St.fragmentNode).1 j = E.kids sE j := fun j => by
    rw [E.kids, E_fld_alloc]; by_cases h : j = sE.size
    · simp [h, ETree.St.fragmentNode, E_fld_none _ _ sE sE.size (Nat.le_refl _)]
    · simp [h]
  have hfk : E.kids (sE.alloc ETree.St.fragmentNode).1 sE.size = [] := by
    rw [hk']; exact E_fld_none _ _ sE sE.size (Nat.le_refl _)
  obtain ⟨sE', sD', h1, h2, i1, i2, i3⟩ := C04_prim_reparentChildren _ _ root sE.size r1 r2 r3 hr' hf' hne hfk
    (fun k hk => by
      rw [hk'] at hk
      obtain ⟨⟨n, hn, hkk⟩, hkr⟩ := hins k hk
      have hkl : k < sD.size := D_get?_lt _ _ _ hn
      refine ⟨⟨n, ?_, hkk⟩, hkr, ?_⟩
      · rw [D_get?_alloc]; simp [Nat.ne_of_lt hkl, hn]
      · rw [hS.size]; exact Nat.ne_of_lt hkl)
  refine ⟨sE', sD', ?_, ?_, i1, i2, i3⟩
  · have : (sE.mkFragment) = ((sE.alloc ETree.St.fragmentNode).1, sE.size) := rfl
    simp only [ETree.St.getFragment, this, h1, bind, Except.bind, pure, Except.pure]
  · have : (sD.mkFragment) = ((sD.alloc { kind := .fragment }).1, sE.size) := by
      simp [MiniDom.St.mkFragment, MiniDom.St.alloc, hS.size, MiniDom.St.size]
    simp only [MiniDom.St.getFragment, this, h2, bind, Except.bind, pure, Except.pure]

end H5.Props.C04b
