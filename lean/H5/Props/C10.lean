/-
  Property C10 — sanitized markup stays safe when parsed again (model side): see H5.Props.C09 for the sanitizer
  theorems and H5.Props.C07 for the pipeline order (sanitizer before optional-tag omission).  The composed safety
  theorem is not proved; the property is decided by search on the real pipeline.
-/
import H5.Props.C07
namespace H5.Props.C10
open H5 H5.Gen

/-- the sanitizer runs before optional-tag omission and after attribute sorting (extracted pipeline order) -/
theorem C10_sanitizer_position :
    filterPipeline.idxOf (lit "sanitizer") < filterPipeline.idxOf (lit "optionaltags") ∧
    filterPipeline.idxOf (lit "alphabeticalattributes") < filterPipeline.idxOf (lit "sanitizer") := by
  decide +kernel

end H5.Props.C10
