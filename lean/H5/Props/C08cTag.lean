/-
  Property C08 (continued, markup) — start tags and end tags written by the serializer re-tokenise to themselves.

  `C08_start_tag_roundtrip`: `<name a="v" b=w c>` as the model of `HTMLSerializer.serialize` writes it
  (H5.Model.Serializer.step, every option) is read by the standard's tokenizer (H5.Spec.Tokenizer) from the data
  state as exactly one start tag token with that name and those attributes, in order, and the tokenizer is back in
  the data state.  `C08_end_tag_roundtrip`: the same for `</name>`.
  The walk over a tag is the composition of the per-attribute walks of H5.Props.C08cAttr by induction on the
  attribute list (`reach_attrs`).
-/
import H5.Props.C08cAttr
namespace H5.Props.C08c
open H5 H5.Gen H5.Spec H5.Spec.Tokenizer
open H5.Model.Serializer

/-! ### Well-formedness predicates (decidable) -/

/-- a character the tag name state appends unchanged: not whitespace, `/`, `>`, NUL, CR, upper-case ASCII -/
def tagNameChar (c : Nat) : Bool :=
  !(isWhitespace c || c == 47 || c == 62 || c == 0 || c == 13 || isASCIIUpperAlpha c)

/-- a tag name the tokenizer reads back unchanged: a lower-case ASCII letter, then `tagNameChar`s
(in particular every name `[a-z][a-z0-9]*`) -/
def tagNameOK : Str → Bool
  | [] => false
  | c :: r => isASCIILowerAlpha c && r.all tagNameChar

/-- a character the attribute name state appends unchanged and without a parse error: not whitespace, `/`, `>`,
`=`, `"`, `'`, `<`, NUL, CR, upper-case ASCII -/
def attrNameChar (c : Nat) : Bool :=
  !(isWhitespace c || c == 47 || c == 62 || c == 61 || c == 34 || c == 39 || c == 60 || c == 0 || c == 13
    || isASCIIUpperAlpha c)

def attrNameOK (n : Str) : Bool := !n.isEmpty && n.all attrNameChar

/-- an attribute the round trip holds for: name of the class above, value without NUL/CR, and — because the
serializer drops the value of a minimised boolean attribute — an empty value when it is minimised -/
def attrOK (o : Opts) (tag : Str) (a : Attr) : Bool :=
  attrNameOK a.name && valueOK a.value && (!minimized o tag a || a.value.isEmpty)

theorem tagNameChar_spec {c : Nat} (h : tagNameChar c = true) :
    isWhitespace c = false ∧ c ≠ 47 ∧ c ≠ 62 ∧ c ≠ 0 ∧ isASCIIUpperAlpha c = false := by
  simp [tagNameChar] at h
  simp [h]

theorem attrNameChar_spec {c : Nat} (h : attrNameChar c = true) :
    isWhitespace c = false ∧ c ≠ 47 ∧ c ≠ 62 ∧ c ≠ 61 ∧ c ≠ 34 ∧ c ≠ 39 ∧ c ≠ 60 ∧ c ≠ 0 ∧ isASCIIUpperAlpha c = false := by
  simp [attrNameChar] at h
  simp [h]

theorem lowerAlpha_spec {c : Nat} (h : isASCIILowerAlpha c = true) :
    isASCIIAlpha c = true ∧ tagNameChar c = true ∧ c ≠ 33 ∧ c ≠ 47 ∧ c ≠ 63 := by
  simp [isASCIILowerAlpha] at h
  refine ⟨by simp [isASCIIAlpha, isASCIILowerAlpha, h], ?_, by omega, by omega, by omega⟩
  simp [tagNameChar, isWhitespace, isASCIIUpperAlpha]
  omega

/-! ### Setting the attribute list -/

def setAttrs (m : M) (as : List Attribute) : M := { m with tag := { m.tag with attributes := as } }

@[simp] theorem setAttrs_setAttrs (m : M) (a b : List Attribute) : setAttrs (setAttrs m a) b = setAttrs m b := rfl
@[simp] theorem setAttrs_attrs (m : M) (a : List Attribute) : (setAttrs m a).tag.attributes = a := rfl
@[simp] theorem setAttrs_state (m : M) (a : List Attribute) : (setAttrs m a).state = m.state := rfl
@[simp] theorem setAttrs_done (m : M) (a : List Attribute) : (setAttrs m a).done = m.done := rfl
@[simp] theorem setAttrs_out (m : M) (a : List Attribute) : (setAttrs m a).out = m.out := rfl
theorem setAttrs_self (m : M) : setAttrs m m.tag.attributes = m := rfl
theorem setAttrs_scr (m : M) (s rs : State) (tb : Str) (code : Nat) (a : List Attribute) :
    setAttrs (scr m s rs tb code) a = scr (setAttrs m a) s rs tb code := rfl
theorem startAttribute_eq (m : M) (n : Str) :
    m.startAttribute n = setAttrs m (m.tag.attributes ++ [{ name := n, value := [] }]) := rfl
theorem appendAttrName_eq (m : M) (c : Nat) :
    m.appendAttrName c = setAttrs m (modifyLast (fun a => { a with name := a.name ++ [c] }) m.tag.attributes) := rfl
theorem appendAttrValue_eq (m : M) (v : Str) :
    m.appendAttrValue v = setAttrs m (modifyLast (fun a => { a with value := a.value ++ v }) m.tag.attributes) := rfl

/-- the tokenizer's attribute for a serializer attribute -/
def mkAttr (a : Attr) : Attribute := { name := a.name, value := a.value }

theorem eq_dropLast_append_of_getLast? {α : Type} : ∀ (l : List α) (a : α), l.getLast? = some a → l = l.dropLast ++ [a]
  | [], _, h => by simp at h
  | [x], a, h => by simp at h; simp [h]
  | x :: y :: r, a, h => by
    have h2 : (y :: r).getLast? = some a := by simpa [List.getLast?_cons_cons] using h
    have ih := eq_dropLast_append_of_getLast? (y :: r) a h2
    simp only [List.dropLast_cons_cons, List.cons_append]
    rw [← ih]

/-- attribute names pairwise distinct: leaving the attribute name state removes nothing -/
theorem leave_id (m : M) (h : (m.tag.attributes.map (·.name)).Nodup) : m.leaveAttributeName = m := by
  unfold M.leaveAttributeName
  cases hl : m.tag.attributes.getLast? with
  | none => rfl
  | some cur =>
    simp only []
    have e : m.tag.attributes = m.tag.attributes.dropLast ++ [cur] :=
      eq_dropLast_append_of_getLast? _ cur hl
    rw [e, List.map_append, List.nodup_append] at h
    have hn : (m.tag.attributes.dropLast.any fun a => !a.removed && a.name == cur.name) = false := by
      rw [List.any_eq_false]
      intro a ha
      have := h.2.2 a.name (List.mem_map_of_mem ha) cur.name (by simp)
      simp [this]
    rw [if_neg (by simp [hn])]

/-! ### One pass through each state of a tag -/

theorem step_data_lt (m : M) (hs : m.state = .data) (rest : Str) :
    Tokenizer.step m (60 :: rest) = (m.switchTo .tagOpen, rest) := by
  simp [Tokenizer.step, hs, dataState]

theorem step_tagOpen_alpha (m : M) (hs : m.state = .tagOpen) (c : Nat) (rest : Str) (h : isASCIILowerAlpha c = true) :
    Tokenizer.step m (c :: rest) = (m.newStartTag.switchTo .tagName, c :: rest) := by
  have := lowerAlpha_spec h
  simp [Tokenizer.step, hs, tagOpenState, this]

theorem step_tagOpen_solidus (m : M) (hs : m.state = .tagOpen) (rest : Str) :
    Tokenizer.step m (47 :: rest) = (m.switchTo .endTagOpen, rest) := by
  simp [Tokenizer.step, hs, tagOpenState]

theorem step_endTagOpen_alpha (m : M) (hs : m.state = .endTagOpen) (c : Nat) (rest : Str) (h : isASCIILowerAlpha c = true) :
    Tokenizer.step m (c :: rest) = (m.newEndTag.switchTo .tagName, c :: rest) := by
  have := lowerAlpha_spec h
  simp [Tokenizer.step, hs, endTagOpenState, this]

theorem step_tagName_char (m : M) (hs : m.state = .tagName) (c : Nat) (rest : Str) (h : tagNameChar c = true) :
    Tokenizer.step m (c :: rest) = (m.appendTagName c, rest) := by
  have := tagNameChar_spec h
  simp [Tokenizer.step, hs, tagNameState, this]

theorem step_tagName_gt (m : M) (hs : m.state = .tagName) (rest : Str) :
    Tokenizer.step m (62 :: rest) = ((m.switchTo .data).emitTag, rest) := by
  simp [Tokenizer.step, hs, tagNameState, isWhitespace]

@[simp] theorem appendTagName_state (m : M) (c : Nat) : (m.appendTagName c).state = m.state := rfl
@[simp] theorem appendTagName_done (m : M) (c : Nat) : (m.appendTagName c).done = m.done := rfl

def setTagName (m : M) (n : Str) : M := { m with tag := { m.tag with name := n } }

/-- the tag name state appends a name of `tagNameChar`s character by character -/
theorem reach_tagName : ∀ (n : Str), n.all tagNameChar = true → ∀ (m : M), m.state = .tagName → m.done = false →
    ∀ (rest : Str), Reach n.length m (n ++ rest) (setTagName m (m.tag.name ++ n)) rest := by
  intro n
  induction n with
  | nil =>
    intro _ m _ _ rest
    simp only [List.append_nil, List.nil_append, List.length_nil]
    exact Reach.refl m rest
  | cons c n ih =>
    intro h m hs hd rest
    simp only [List.all_cons, Bool.and_eq_true] at h
    have r1 := Reach.single hd (step_tagName_char m hs c (n ++ rest) h.1)
    have r2 := ih h.2 (m.appendTagName c) hs hd rest
    have e : setTagName (m.appendTagName c) ((m.appendTagName c).tag.name ++ n) = setTagName m (m.tag.name ++ c :: n) := by
      simp [setTagName, M.appendTagName]
    rw [e] at r2
    exact r1.trans r2

/-! ### Between two attributes -/

/-- the states the machine can be in just after an attribute (or the tag name) has been read -/
def isBetween (s : State) : Bool :=
  s == .tagName || s == .afterAttributeValueQuoted || s == .attributeValueUnquoted || s == .attributeName

theorem isBetween_cases {s : State} (h : isBetween s = true) :
    s = .tagName ∨ s = .afterAttributeValueQuoted ∨ s = .attributeValueUnquoted ∨ s = .attributeName := by
  cases s <;> first | (exfalso; revert h; decide) | simp

/-- the state after the space that precedes an attribute -/
def afterSpace (s : State) : State := if s = .attributeName then .afterAttributeName else .beforeAttributeName

/-- **space after an attribute / the tag name**: the machine is in the before (or after) attribute name state -/
theorem reach_space (m : M) (hb : isBetween m.state = true) (hd : m.done = false)
    (hn : (m.tag.attributes.map (·.name)).Nodup) (rest : Str) :
    ReachLe 2 m (32 :: rest) (m.switchTo (afterSpace m.state)) rest := by
  rcases isBetween_cases hb with hs | hs | hs | hs
  · refine (ReachLe.single hd ?_).mono (by omega)
    simp [Tokenizer.step, hs, tagNameState, isWhitespace, afterSpace]
  · refine (ReachLe.single hd ?_).mono (by omega)
    simp [Tokenizer.step, hs, afterAttributeValueQuotedState, isWhitespace, afterSpace]
  · refine (ReachLe.single hd ?_).mono (by omega)
    simp [Tokenizer.step, hs, attributeValueUnquotedState, isWhitespace, afterSpace]
  · have s1 : Tokenizer.step m (32 :: rest) = (m.switchTo .afterAttributeName, 32 :: rest) := by
      simp [Tokenizer.step, hs, attributeNameState, isWhitespace, leave_id m hn]
    have s2 : Tokenizer.step (m.switchTo .afterAttributeName) (32 :: rest) = (m.switchTo .afterAttributeName, rest) := by
      simp [Tokenizer.step, M.switchTo, afterAttributeNameState, isWhitespace]
    have r := (Reach.single hd s1).trans (Reach.single (by exact hd) s2)
    have e : afterSpace m.state = .afterAttributeName := by simp [afterSpace, hs]
    rw [e]
    exact ⟨_, by omega, r⟩

theorem afterSpace_cases (s : State) : afterSpace s = .beforeAttributeName ∨ afterSpace s = .afterAttributeName := by
  unfold afterSpace; split <;> simp

/-- **first character of an attribute name**: a new attribute is started, the character is reconsumed -/
theorem step_startAttr (m : M) (hs : m.state = .beforeAttributeName ∨ m.state = .afterAttributeName) (c : Nat) (rest : Str)
    (h : attrNameChar c = true) :
    Tokenizer.step m (c :: rest) = ((m.startAttribute []).switchTo .attributeName, c :: rest) := by
  have := attrNameChar_spec h
  rcases hs with hs | hs
  · simp [Tokenizer.step, hs, beforeAttributeNameState, this]
  · simp [Tokenizer.step, hs, afterAttributeNameState, this]

theorem step_attrName_char (m : M) (hs : m.state = .attributeName) (c : Nat) (rest : Str) (h : attrNameChar c = true) :
    Tokenizer.step m (c :: rest) = (m.appendAttrName c, rest) := by
  have := attrNameChar_spec h
  simp [Tokenizer.step, hs, attributeNameState, this]

/-- the attribute name state appends a name of `attrNameChar`s character by character -/
theorem reach_attrName : ∀ (n : Str), n.all attrNameChar = true → ∀ (m : M), m.state = .attributeName → m.done = false →
    ∀ (pre : List Attribute) (acc : Str), m.tag.attributes = pre ++ [{ name := acc, value := [] }] →
    ∀ (rest : Str), Reach n.length m (n ++ rest) (setAttrs m (pre ++ [{ name := acc ++ n, value := [] }])) rest := by
  intro n
  induction n with
  | nil =>
    intro _ m _ _ pre acc hp rest
    simp only [List.append_nil, List.nil_append, List.length_nil]
    rw [← hp, setAttrs_self]
    exact Reach.refl m rest
  | cons c n ih =>
    intro h m hs hd pre acc hp rest
    simp only [List.all_cons, Bool.and_eq_true] at h
    have r1 := Reach.single hd (step_attrName_char m hs c (n ++ rest) h.1)
    have hp2 : (m.appendAttrName c).tag.attributes = pre ++ [{ name := acc ++ [c], value := [] }] := by
      rw [appendAttrName_eq, setAttrs_attrs, hp, modifyLast_append_singleton]
    have r2 := ih h.2 (m.appendAttrName c) hs hd pre (acc ++ [c]) hp2 rest
    rw [appendAttrName_eq, setAttrs_setAttrs, List.append_assoc] at r2
    exact r1.trans r2

/-- ` name`: from a between-state, the space and an attribute name start a new attribute with an empty value -/
theorem reach_space_name (m : M) (hb : isBetween m.state = true) (hd : m.done = false)
    (n : Str) (hn : attrNameOK n = true)
    (hnd : ((m.tag.attributes ++ [({ name := n, value := [] } : Attribute)]).map (·.name)).Nodup) (rest : Str) :
    ReachLe (n.length + 3) m ([32] ++ n ++ rest)
      (setAttrs (m.switchTo .attributeName) (m.tag.attributes ++ [{ name := n, value := [] }])) rest := by
  have hnd0 : (m.tag.attributes.map (·.name)).Nodup := by
    rw [List.map_append, List.nodup_append] at hnd; exact hnd.1
  simp only [attrNameOK, Bool.and_eq_true, Bool.not_eq_true', List.isEmpty_eq_false_iff] at hn
  obtain ⟨hne, hall⟩ := hn
  cases n with
  | nil => exact absurd rfl hne
  | cons c n' =>
    have hc : attrNameChar c = true := by simp only [List.all_cons, Bool.and_eq_true] at hall; exact hall.1
    have r1 := reach_space m hb hd hnd0 ((c :: n') ++ rest)
    have r2 := ReachLe.single (m := m.switchTo (afterSpace m.state)) hd
      (step_startAttr _ (afterSpace_cases m.state) c (n' ++ rest) hc)
    have r3 := reach_attrName (c :: n') hall (((m.switchTo (afterSpace m.state)).startAttribute []).switchTo .attributeName)
      rfl hd m.tag.attributes [] rfl rest
    have r := (r1.trans r2).trans (ReachLe.of_reach r3)
    refine r.mono (by simp; omega)

/-! ### One attribute -/

/-- the state the machine is in after the text of attribute `a` -/
def endState (o : Opts) (tag : Str) (a : Attr) : State :=
  if minimized o tag a then .attributeName
  else if quotes o a.value then .afterAttributeValueQuoted else .attributeValueUnquoted

theorem endState_between (o : Opts) (tag : Str) (a : Attr) : isBetween (endState o tag a) = true := by
  unfold endState; repeat' split
  all_goals decide

theorem step_attrName_eq (m : M) (hs : m.state = .attributeName) (hn : (m.tag.attributes.map (·.name)).Nodup) (rest : Str) :
    Tokenizer.step m (61 :: rest) = (m.switchTo .beforeAttributeValue, rest) := by
  simp [Tokenizer.step, hs, attributeNameState, isWhitespace, leave_id m hn]

theorem step_beforeValue_quote (m : M) (hs : m.state = .beforeAttributeValue) (q : Nat) (hq : q = 34 ∨ q = 39) (rest : Str) :
    Tokenizer.step m (q :: rest) = (m.switchTo (qState q), rest) := by
  rcases hq with h | h <;> subst h <;> simp [Tokenizer.step, hs, beforeAttributeValueState, isWhitespace, qState]

theorem step_beforeValue_unq (m : M) (hs : m.state = .beforeAttributeValue) (c : Nat) (rest : Str)
    (h1 : isWhitespace c = false) (h2 : c ≠ 34) (h3 : c ≠ 39) (h4 : c ≠ 62) :
    Tokenizer.step m (c :: rest) = (m.switchTo .attributeValueUnquoted, c :: rest) := by
  simp [Tokenizer.step, hs, beforeAttributeValueState, h1, h2, h3, h4]

theorem attrOK_spec {o : Opts} {tag : Str} {a : Attr} (h : attrOK o tag a = true) :
    attrNameOK a.name = true ∧ valueOK a.value = true ∧ (minimized o tag a = true → a.value = []) := by
  simp only [attrOK, Bool.and_eq_true, Bool.or_eq_true, Bool.not_eq_true', List.isEmpty_iff] at h
  refine ⟨h.1.1, h.1.2, fun hm => ?_⟩
  rcases h.2 with h2 | h2
  · rw [hm] at h2; exact absurd h2 (by decide)
  · exact h2

/-- **one attribute.**  From a between-state, the text `attrOut` writes for `a` (minimised, quoted or unquoted)
adds exactly the attribute `(a.name, a.value)` to the current tag token, without a parse error. -/
theorem reach_attr (o : Opts) (tag : Str) (hqc : quoteCharOK o = true) (a : Attr) (ha : attrOK o tag a = true)
    (m : M) (hb : isBetween m.state = true) (hd : m.done = false)
    (hnd : ((m.tag.attributes ++ [mkAttr a]).map (·.name)).Nodup) (rest : Str) :
    ∃ rs tb code, ReachLe (3 * (attrOut o tag a).1.length) m ((attrOut o tag a).1 ++ rest)
      (scr (setAttrs m (m.tag.attributes ++ [mkAttr a])) (endState o tag a) rs tb code) rest := by
  obtain ⟨hname, hval, hminv⟩ := attrOK_spec ha
  have hnlen : 0 < a.name.length := by
    simp only [attrNameOK, Bool.and_eq_true, Bool.not_eq_true', List.isEmpty_eq_false_iff] at hname
    exact List.length_pos_iff.mpr hname.1
  have hnd1 : ((m.tag.attributes ++ [({ name := a.name, value := [] } : Attribute)]).map (·.name)).Nodup := by
    simpa [mkAttr] using hnd
  -- ` name`
  have rN := fun r => reach_space_name m hb hd a.name hname hnd1 r
  cases hmin : minimized o tag a with
  | true =>
    have hv := hminv hmin
    rw [attrOut_minimized o tag a hmin]
    refine ⟨m.returnState, m.temporaryBuffer, m.characterReferenceCode, ?_⟩
    have e : endState o tag a = .attributeName := by simp [endState, hmin]
    have e2 : mkAttr a = { name := a.name, value := [] } := by simp [mkAttr, hv]
    rw [e, e2]
    exact (rN rest).mono (by simp; omega)
  | false =>
    -- `=`
    let m1 := setAttrs (m.switchTo .attributeName) (m.tag.attributes ++ [{ name := a.name, value := [] }])
    have s1 : ∀ r, Tokenizer.step m1 (61 :: r) = (m1.switchTo .beforeAttributeValue, r) :=
      fun r => step_attrName_eq m1 rfl hnd1 r
    cases hq : quotes o a.value with
    | true =>
      rw [attrOut_quoted o tag a hmin hq]
      have hq2 := chooseQuote_ok o a.value hqc
      have s2 : ∀ r, Tokenizer.step (m1.switchTo .beforeAttributeValue) (chooseQuote o a.value :: r)
          = ((m1.switchTo .beforeAttributeValue).switchTo (qState (chooseQuote o a.value)), r) :=
        fun r => step_beforeValue_quote _ rfl _ hq2 r
      obtain ⟨rs, tb, code, r3⟩ := C08_attr_value_roundtrip o a.value hqc hval
        ((m1.switchTo .beforeAttributeValue).switchTo (qState (chooseQuote o a.value))) rfl hd rest
      refine ⟨rs, tb, code, ?_⟩
      have e : endState o tag a = .afterAttributeValueQuoted := by simp [endState, hmin, hq]
      have e3 : scr (((m1.switchTo .beforeAttributeValue).switchTo (qState (chooseQuote o a.value))).appendAttrValue a.value)
          .afterAttributeValueQuoted rs tb code
          = scr (setAttrs m (m.tag.attributes ++ [mkAttr a])) .afterAttributeValueQuoted rs tb code := by
        simp [m1, appendAttrValue_eq, modifyLast_append_singleton, M.switchTo, setAttrs, scr, mkAttr]
      rw [e3] at r3
      rw [e]
      have r12 := ((rN (61 :: chooseQuote o a.value :: (quotedBody o a.value ++ [chooseQuote o a.value] ++ rest))).trans
        (ReachLe.single (by exact hd) (s1 _))).trans (ReachLe.single (by exact hd) (s2 _))
      have r := r12.trans r3
      simp only [List.append_assoc, List.cons_append, List.nil_append] at r ⊢
      exact r.mono (by simp; omega)
    | false =>
      have hu : (attrOut o tag a).2 = true := by rw [attrOut_snd]; simp [hmin, hq]
      obtain ⟨htext, ⟨c, r, hbody, hw, h34, h39, h62⟩, hwalk⟩ := C08_unquoted_value_roundtrip o tag a hu hval
      rw [htext]
      have s2 : ∀ r2, Tokenizer.step (m1.switchTo .beforeAttributeValue) (c :: r2)
          = ((m1.switchTo .beforeAttributeValue).switchTo .attributeValueUnquoted, c :: r2) :=
        fun r2 => step_beforeValue_unq _ rfl c r2 hw h34 h39 h62
      obtain ⟨rs, tb, code, r3, _, _⟩ := hwalk ((m1.switchTo .beforeAttributeValue).switchTo .attributeValueUnquoted) rfl hd rest
      refine ⟨rs, tb, code, ?_⟩
      have e : endState o tag a = .attributeValueUnquoted := by simp [endState, hmin, hq]
      have e3 : scr (((m1.switchTo .beforeAttributeValue).switchTo .attributeValueUnquoted).appendAttrValue a.value)
          .attributeValueUnquoted rs tb code
          = scr (setAttrs m (m.tag.attributes ++ [mkAttr a])) .attributeValueUnquoted rs tb code := by
        simp [m1, appendAttrValue_eq, modifyLast_append_singleton, M.switchTo, setAttrs, scr, mkAttr]
      rw [e3] at r3
      rw [e]
      have s2b := s2 (r ++ rest)
      rw [← List.cons_append, ← hbody] at s2b
      have r12 := ((rN (61 :: (unquotedBody a.value ++ rest))).trans
        (ReachLe.single (by exact hd) (s1 _))).trans (ReachLe.single (by exact hd) s2b)
      have rr := r12.trans r3
      simp only [List.append_assoc, List.cons_append, List.nil_append] at rr ⊢
      exact rr.mono (by simp; omega)

/-! ### The attribute list -/

/-- the text of the attributes, as `step` concatenates it -/
def attrsText (o : Opts) (tag : Str) (attrs : List Attr) : Str := attrs.flatMap fun a => (attrOut o tag a).1

/-- the state after the attributes: that of the last one (the tag name state if there is none) -/
def lastState (o : Opts) (tag : Str) (attrs : List Attr) (s0 : State) : State :=
  attrs.foldl (fun _ a => endState o tag a) s0

theorem lastState_between (o : Opts) (tag : Str) : ∀ (attrs : List Attr) (s0 : State), isBetween s0 = true →
    isBetween (lastState o tag attrs s0) = true
  | [], _, h => h
  | a :: attrs, _, _ => lastState_between o tag attrs _ (endState_between o tag a)

/-- **all attributes.**  Induction on the attribute list: every attribute is added to the tag token, in order. -/
theorem reach_attrs (o : Opts) (tag : Str) (hqc : quoteCharOK o = true) : ∀ (attrs : List Attr),
    (∀ a ∈ attrs, attrOK o tag a = true) → ∀ (m : M), isBetween m.state = true → m.done = false →
    ((m.tag.attributes ++ attrs.map mkAttr).map (·.name)).Nodup → ∀ (rest : Str),
    ∃ rs tb code, ReachLe (3 * (attrsText o tag attrs).length) m (attrsText o tag attrs ++ rest)
      (scr (setAttrs m (m.tag.attributes ++ attrs.map mkAttr)) (lastState o tag attrs m.state) rs tb code) rest := by
  intro attrs
  induction attrs with
  | nil =>
    intro _ m _ _ _ rest
    refine ⟨m.returnState, m.temporaryBuffer, m.characterReferenceCode, ?_⟩
    simp only [List.map_nil, List.append_nil, setAttrs_self, lastState, List.foldl_nil, scr_self, attrsText,
      List.flatMap_nil, List.nil_append, List.length_nil]
    exact ReachLe.refl m rest
  | cons a attrs ih =>
    intro hall m hb hd hnd rest
    have hnd1 : ((m.tag.attributes ++ [mkAttr a]).map (·.name)).Nodup := by
      simp only [List.map_cons, List.map_append, List.map_nil] at hnd ⊢
      rw [List.append_cons, List.nodup_append] at hnd
      exact hnd.1
    obtain ⟨rs, tb, code, r1⟩ := reach_attr o tag hqc a (hall a (by simp)) m hb hd hnd1
      (attrsText o tag attrs ++ rest)
    have hnd2 : (((scr (setAttrs m (m.tag.attributes ++ [mkAttr a])) (endState o tag a) rs tb code).tag.attributes
        ++ attrs.map mkAttr).map (·.name)).Nodup := by
      simpa [List.append_assoc] using hnd
    obtain ⟨rs2, tb2, code2, r2⟩ := ih (fun x hx => hall x (List.mem_cons_of_mem _ hx))
      (scr (setAttrs m (m.tag.attributes ++ [mkAttr a])) (endState o tag a) rs tb code)
      (by simp [endState_between]) (by simpa using hd) hnd2 rest
    refine ⟨rs2, tb2, code2, ?_⟩
    have e : scr (setAttrs (scr (setAttrs m (m.tag.attributes ++ [mkAttr a])) (endState o tag a) rs tb code)
          ((scr (setAttrs m (m.tag.attributes ++ [mkAttr a])) (endState o tag a) rs tb code).tag.attributes ++ attrs.map mkAttr))
          (lastState o tag attrs (scr (setAttrs m (m.tag.attributes ++ [mkAttr a])) (endState o tag a) rs tb code).state) rs2 tb2 code2
        = scr (setAttrs m (m.tag.attributes ++ (a :: attrs).map mkAttr)) (lastState o tag (a :: attrs) m.state) rs2 tb2 code2 := by
      simp [setAttrs_scr, lastState]
    rw [e] at r2
    have r := r1.trans r2
    have et : attrsText o tag (a :: attrs) = (attrOut o tag a).1 ++ attrsText o tag attrs := by simp [attrsText]
    rw [et, List.append_assoc]
    exact r.mono (by simp; omega)

/-! ### The end of the tag -/

/-- **`>` after the last attribute / the tag name**: the tag token is emitted, back in the data state -/
theorem reach_gt (m : M) (hb : isBetween m.state = true) (hd : m.done = false)
    (hn : (m.tag.attributes.map (·.name)).Nodup) (rest : Str) :
    ReachLe 2 m (62 :: rest) (m.switchTo .data).emitTag rest := by
  rcases isBetween_cases hb with hs | hs | hs | hs
  · refine (ReachLe.single hd ?_).mono (by omega)
    simp [Tokenizer.step, hs, tagNameState, isWhitespace]
  · refine (ReachLe.single hd ?_).mono (by omega)
    simp [Tokenizer.step, hs, afterAttributeValueQuotedState, isWhitespace]
  · refine (ReachLe.single hd ?_).mono (by omega)
    simp [Tokenizer.step, hs, attributeValueUnquotedState, isWhitespace]
  · have s1 : Tokenizer.step m (62 :: rest) = (m.switchTo .afterAttributeName, 62 :: rest) := by
      simp [Tokenizer.step, hs, attributeNameState, isWhitespace, leave_id m hn]
    have s2 : Tokenizer.step (m.switchTo .afterAttributeName) (62 :: rest) = ((m.switchTo .data).emitTag, rest) := by
      simp [Tokenizer.step, M.switchTo, afterAttributeNameState, isWhitespace]
    exact ⟨_, by omega, (Reach.single hd s1).trans (Reach.single (by exact hd) s2)⟩

/-- the machine with the self-closing flag set -/
def setSelfClosing (m : M) : M := { m with tag := { m.tag with selfClosing := true } }

/-- **`/>` directly after a quoted value, a minimised attribute or the tag name** -/
theorem reach_solidus_gt (m : M) (hb : isBetween m.state = true) (hu : m.state ≠ .attributeValueUnquoted)
    (hd : m.done = false) (hn : (m.tag.attributes.map (·.name)).Nodup) (rest : Str) :
    ReachLe 3 m (47 :: 62 :: rest) ((setSelfClosing m).switchTo .data).emitTag rest := by
  have s3 : Tokenizer.step (m.switchTo .selfClosingStartTag) (62 :: rest) = (((setSelfClosing m).switchTo .data).emitTag, rest) := by
    simp [Tokenizer.step, M.switchTo, selfClosingStartTagState, setSelfClosing]
  rcases isBetween_cases hb with hs | hs | hs | hs
  · have s1 : Tokenizer.step m (47 :: 62 :: rest) = (m.switchTo .selfClosingStartTag, 62 :: rest) := by
      simp [Tokenizer.step, hs, tagNameState, isWhitespace]
    exact ⟨_, by omega, (Reach.single hd s1).trans (Reach.single (by exact hd) s3)⟩
  · have s1 : Tokenizer.step m (47 :: 62 :: rest) = (m.switchTo .selfClosingStartTag, 62 :: rest) := by
      simp [Tokenizer.step, hs, afterAttributeValueQuotedState, isWhitespace]
    exact ⟨_, by omega, (Reach.single hd s1).trans (Reach.single (by exact hd) s3)⟩
  · exact absurd hs hu
  · have s1 : Tokenizer.step m (47 :: 62 :: rest) = (m.switchTo .afterAttributeName, 47 :: 62 :: rest) := by
      simp [Tokenizer.step, hs, attributeNameState, isWhitespace, leave_id m hn]
    have s2 : Tokenizer.step (m.switchTo .afterAttributeName) (47 :: 62 :: rest) = (m.switchTo .selfClosingStartTag, 62 :: rest) := by
      simp [Tokenizer.step, M.switchTo, afterAttributeNameState, isWhitespace]
    exact ⟨_, by omega, ((Reach.single hd s1).trans (Reach.single (by exact hd) s2)).trans (Reach.single (by exact hd) s3)⟩

/-- **` />`** -/
theorem reach_space_solidus_gt (m : M) (hb : isBetween m.state = true)
    (hd : m.done = false) (hn : (m.tag.attributes.map (·.name)).Nodup) (rest : Str) :
    ReachLe 6 m (32 :: 47 :: 62 :: rest) ((setSelfClosing m).switchTo .data).emitTag rest := by
  have r1 := reach_space m hb hd hn (47 :: 62 :: rest)
  have s3 : Tokenizer.step (m.switchTo .selfClosingStartTag) (62 :: rest) = (((setSelfClosing m).switchTo .data).emitTag, rest) := by
    simp [Tokenizer.step, M.switchTo, selfClosingStartTagState, setSelfClosing]
  have s2 : Tokenizer.step (m.switchTo .afterAttributeName) (47 :: 62 :: rest) = (m.switchTo .selfClosingStartTag, 62 :: rest) := by
    simp [Tokenizer.step, M.switchTo, afterAttributeNameState, isWhitespace]
  rcases afterSpace_cases m.state with e | e
  · rw [e] at r1
    have s1 : Tokenizer.step (m.switchTo .beforeAttributeName) (47 :: 62 :: rest) = (m.switchTo .afterAttributeName, 47 :: 62 :: rest) := by
      simp [Tokenizer.step, M.switchTo, beforeAttributeNameState, isWhitespace]
    have r := ((r1.trans (ReachLe.single (by exact hd) s1)).trans (ReachLe.single (by exact hd) s2)).trans
      (ReachLe.single (by exact hd) s3)
    exact r.mono (by omega)
  · rw [e] at r1
    have r := (r1.trans (ReachLe.single (by exact hd) s2)).trans (ReachLe.single (by exact hd) s3)
    exact r.mono (by omega)

/-! ### Model side: the text of a start tag -/

theorem emit_emit (s : St) (x y : Str) : (s.emit x).emit y = s.emit (x ++ y) := by
  simp [St.emit, List.append_assoc]

/-- `attrOut … .2` of the last attribute (`false` if there is none): the flag `step` uses for the trailing solidus -/
def lastUnq (o : Opts) (tag : Str) (attrs : List Attr) (b : Bool) : Bool :=
  attrs.foldl (fun _ a => (attrOut o tag a).2) b

theorem foldl_attrs (o : Opts) (tag : Str) : ∀ (attrs : List Attr) (s : St) (b : Bool),
    attrs.foldl (fun (acc : St × Bool) a => let r := attrOut o tag a; (acc.1.emit r.1, r.2)) (s, b)
      = (s.emit (attrsText o tag attrs), lastUnq o tag attrs b) := by
  intro attrs
  induction attrs with
  | nil => intro s b; simp [attrsText, lastUnq, St.emit]
  | cons a attrs ih =>
    intro s b
    simp only [List.foldl_cons]
    rw [ih, emit_emit]
    simp [attrsText, lastUnq]

/-- the trailing solidus `step` writes for a void element under `use_trailing_solidus` -/
def solidusText (o : Opts) (name : Str) (attrs : List Attr) : Str :=
  if voidElements.elem name && o.useTrailingSolidus then
    (if o.spaceBeforeTrailingSolidus || lastUnq o name attrs false then [32, 47] else [47])
  else []

/-- the whole start tag -/
def startTagText (o : Opts) (name : Str) (attrs : List Attr) : Str :=
  [60] ++ name ++ attrsText o name attrs ++ solidusText o name attrs ++ [62]

/-- **Model.** what `step` does on a start tag token -/
theorem step_startTag (o : Opts) (s : St) (ns : Option Str) (name : Str) (attrs : List Attr) :
    ∃ s', H5.Model.Serializer.step o s (.startTag ns name attrs) = .ok s' ∧ s'.out = s.out ++ startTagText o name attrs ∧
      (s.inCdata = false → s'.errors = s.errors) ∧
      s'.inCdata = ((rcdataElements.elem name && !o.escapeRcdata && htmlOrNone ns) || s.inCdata) := by
  simp only [H5.Model.Serializer.step]
  rw [foldl_attrs]
  unfold startTagText solidusText
  generalize (rcdataElements.elem name && !o.escapeRcdata && htmlOrNone ns) = b1
  generalize (voidElements.elem name && o.useTrailingSolidus) = b3
  generalize (o.spaceBeforeTrailingSolidus || lastUnq o name attrs false) = b4
  refine ⟨_, rfl, ?_, ?_, ?_⟩
  · cases b1 <;> cases b3 <;> cases b4 <;> cases h2 : s.inCdata <;> simp [St.emit, St.err, h2]
  · intro hc
    cases b1 <;> cases b3 <;> cases b4 <;> simp [St.emit, hc]
  · cases b1 <;> cases b3 <;> cases b4 <;> cases h2 : s.inCdata <;> simp [St.emit, St.err, h2]

/-- the solidus flag and the state after the attributes agree: unquoted last value ↔ attribute value (unquoted) state -/
theorem lastUnq_iff (o : Opts) (tag : Str) : ∀ (attrs : List Attr) (b : Bool) (s0 : State),
    (b = true ↔ s0 = .attributeValueUnquoted) →
    (lastUnq o tag attrs b = true ↔ lastState o tag attrs s0 = .attributeValueUnquoted) := by
  intro attrs
  induction attrs with
  | nil => intro b s0 h; exact h
  | cons a attrs ih =>
    intro b s0 _
    simp only [lastUnq, lastState, List.foldl_cons]
    apply ih
    rw [attrOut_snd]
    unfold endState
    cases minimized o tag a <;> cases quotes o a.value <;> simp

/-! ### Theorem 3: the start tag -/

theorem filter_map_mkAttr (attrs : List Attr) :
    (((attrs.map mkAttr).filter fun a => !a.removed).map fun a => (a.name, a.value)) = attrs.map fun a => (a.name, a.value) := by
  induction attrs with
  | nil => rfl
  | cons a attrs ih => simp [mkAttr] at ih ⊢; exact ih

/-- pairwise distinct attribute names -/
def namesDistinct (attrs : List Attr) : Bool := decide ((attrs.map (·.name)).Nodup)

/-- well-formedness of a start tag token for the round trip -/
def startTagOK (o : Opts) (name : Str) (attrs : List Attr) : Bool :=
  tagNameOK name && attrs.all (attrOK o name) && namesDistinct attrs

/-- what emitting a start tag token does -/
theorem emitTag_start (m : M) (h : m.tag.isEnd = false) :
    m.emitTag.state = m.state ∧ m.emitTag.done = m.done ∧ m.emitTag.lastStartTagName = some m.tag.name ∧
    m.emitTag.out = .startTag m.tag.name ((m.tag.attributes.filter fun a => !a.removed).map fun a => (a.name, a.value))
      m.tag.selfClosing :: m.out := by
  simp [M.emitTag, h, M.emit]

/-- the machine after `<name` (a fresh start tag token named `name`, tag name state) -/
def openTag (m : M) (name : Str) : M := setTagName ((m.switchTo .tagOpen).newStartTag.switchTo .tagName) name

/-- `<name attrs…`: from the data state up to the end of the last attribute -/
theorem reach_tag_prefix (o : Opts) (hqc : quoteCharOK o = true) (name : Str) (attrs : List Attr)
    (hname : tagNameOK name = true) (hattrs : ∀ a ∈ attrs, attrOK o name a = true)
    (hnd : (attrs.map (·.name)).Nodup) (m : M) (hs : m.state = .data) (hd : m.done = false) (tl : Str) :
    ∃ rs tb code, ReachLe (3 * ([60] ++ name ++ attrsText o name attrs).length) m
      ([60] ++ name ++ attrsText o name attrs ++ tl)
      (scr (setAttrs (openTag m name) (attrs.map mkAttr)) (lastState o name attrs .tagName) rs tb code) tl := by
  cases name with
  | nil => simp [tagNameOK] at hname
  | cons c n =>
    simp only [tagNameOK, Bool.and_eq_true] at hname
    obtain ⟨hc, hn⟩ := hname
    have hall : (c :: n).all tagNameChar = true := by
      simp only [List.all_cons, Bool.and_eq_true]; exact ⟨(lowerAlpha_spec hc).2.1, hn⟩
    have r1 := ReachLe.single hd (step_data_lt m hs (c :: (n ++ (attrsText o (c :: n) attrs ++ tl))))
    have r2 := ReachLe.single (m := m.switchTo .tagOpen) hd
      (step_tagOpen_alpha _ rfl c (n ++ (attrsText o (c :: n) attrs ++ tl)) hc)
    have r3 : Reach (c :: n).length ((m.switchTo .tagOpen).newStartTag.switchTo .tagName)
        (c :: (n ++ (attrsText o (c :: n) attrs ++ tl))) (openTag m (c :: n)) (attrsText o (c :: n) attrs ++ tl) :=
      reach_tagName (c :: n) hall ((m.switchTo .tagOpen).newStartTag.switchTo .tagName) rfl hd _
    have hnd2 : (((openTag m (c :: n)).tag.attributes ++ attrs.map mkAttr).map (·.name)).Nodup := by
      show ((([] : List Attribute) ++ attrs.map mkAttr).map (·.name)).Nodup
      simpa [mkAttr, Function.comp_def] using hnd
    obtain ⟨rs, tb, code, r4⟩ := reach_attrs o (c :: n) hqc attrs hattrs (openTag m (c :: n))
      (by show isBetween State.tagName = true; decide) hd hnd2 tl
    refine ⟨rs, tb, code, ?_⟩
    have r4b : ReachLe (3 * (attrsText o (c :: n) attrs).length) (openTag m (c :: n)) (attrsText o (c :: n) attrs ++ tl)
        (scr (setAttrs (openTag m (c :: n)) (attrs.map mkAttr)) (lastState o (c :: n) attrs .tagName) rs tb code) tl := r4
    have r := ((r1.trans r2).trans (ReachLe.of_reach r3)).trans r4b
    simp only [List.append_assoc, List.cons_append, List.nil_append] at r ⊢
    exact r.mono (by simp; omega)

/-- **start tag, spec side.**  From the data state, the text of the start tag leads back to the data state having
emitted exactly the start tag token (self-closing flag set iff the trailing solidus was written). -/
theorem reach_start_tag (o : Opts) (hqc : quoteCharOK o = true) (name : Str) (attrs : List Attr)
    (hok : startTagOK o name attrs = true) (m : M) (hs : m.state = .data) (hd : m.done = false) (rest : Str) :
    ∃ m', ReachLe (3 * (startTagText o name attrs).length) m (startTagText o name attrs ++ rest) m' rest ∧
      m'.state = .data ∧ m'.done = false ∧ m'.lastStartTagName = some name ∧
      m'.out = .startTag name (attrs.map fun a => (a.name, a.value)) (voidElements.elem name && o.useTrailingSolidus) :: m.out := by
  simp only [startTagOK, Bool.and_eq_true, List.all_eq_true, namesDistinct, decide_eq_true_eq] at hok
  obtain ⟨⟨hname, hattrs⟩, hnd⟩ := hok
  have hfilter := filter_map_mkAttr attrs
  have hpre := reach_tag_prefix o hqc name attrs hname hattrs hnd m hs hd
  have hndX : ∀ rs tb code, ((scr (setAttrs (openTag m name) (attrs.map mkAttr)) (lastState o name attrs .tagName) rs tb code).tag.attributes.map (·.name)).Nodup := by
    intro rs tb code
    show ((attrs.map mkAttr).map (·.name)).Nodup
    simpa [mkAttr, Function.comp_def] using hnd
  have hbX : ∀ rs tb code, isBetween (scr (setAttrs (openTag m name) (attrs.map mkAttr)) (lastState o name attrs .tagName) rs tb code).state = true :=
    fun rs tb code => lastState_between o name attrs _ (by decide)
  cases hsol : (voidElements.elem name && o.useTrailingSolidus) with
  | true =>
    by_cases hsp : (o.spaceBeforeTrailingSolidus || lastUnq o name attrs false) = true
    · have et : solidusText o name attrs = [32, 47] := by
        unfold solidusText; rw [hsol, hsp]; rfl
      obtain ⟨rs, tb, code, r4⟩ := hpre (32 :: 47 :: 62 :: rest)
      have r5 := reach_space_solidus_gt _ (hbX rs tb code) hd (hndX rs tb code) rest
      obtain ⟨e1, e2, e3, e4⟩ := emitTag_start ((setSelfClosing
        (scr (setAttrs (openTag m name) (attrs.map mkAttr)) (lastState o name attrs .tagName) rs tb code)).switchTo .data) rfl
      refine ⟨_, ?_, e1, e2.trans hd, e3, ?_⟩
      · have r := r4.trans r5
        simp only [startTagText, et, List.append_assoc, List.cons_append, List.nil_append] at r ⊢
        exact r.mono (by simp; omega)
      · rw [e4]
        show TTok.startTag name (((attrs.map mkAttr).filter fun a => !a.removed).map fun a => (a.name, a.value)) true :: m.out = _
        rw [hfilter]
    · have et : solidusText o name attrs = [47] := by
        unfold solidusText; rw [hsol, if_neg hsp]; rfl
      obtain ⟨rs, tb, code, r4⟩ := hpre (47 :: 62 :: rest)
      have hnu : (scr (setAttrs (openTag m name) (attrs.map mkAttr)) (lastState o name attrs .tagName) rs tb code).state
          ≠ .attributeValueUnquoted := by
        intro h
        have := (lastUnq_iff o name attrs false .tagName (by decide)).mpr h
        simp [this] at hsp
      have r5 := reach_solidus_gt _ (hbX rs tb code) hnu hd (hndX rs tb code) rest
      obtain ⟨e1, e2, e3, e4⟩ := emitTag_start ((setSelfClosing
        (scr (setAttrs (openTag m name) (attrs.map mkAttr)) (lastState o name attrs .tagName) rs tb code)).switchTo .data) rfl
      refine ⟨_, ?_, e1, e2.trans hd, e3, ?_⟩
      · have r := r4.trans r5
        simp only [startTagText, et, List.append_assoc, List.cons_append, List.nil_append] at r ⊢
        exact r.mono (by simp; omega)
      · rw [e4]
        show TTok.startTag name (((attrs.map mkAttr).filter fun a => !a.removed).map fun a => (a.name, a.value)) true :: m.out = _
        rw [hfilter]
  | false =>
    have et : solidusText o name attrs = [] := by
      unfold solidusText; rw [hsol]; rfl
    obtain ⟨rs, tb, code, r4⟩ := hpre (62 :: rest)
    have r5 := reach_gt _ (hbX rs tb code) hd (hndX rs tb code) rest
    obtain ⟨e1, e2, e3, e4⟩ := emitTag_start
      ((scr (setAttrs (openTag m name) (attrs.map mkAttr)) (lastState o name attrs .tagName) rs tb code).switchTo .data) rfl
    refine ⟨_, ?_, e1, e2.trans hd, e3, ?_⟩
    · have r := r4.trans r5
      simp only [startTagText, et, List.append_assoc, List.cons_append, List.nil_append] at r ⊢
      exact r.mono (by simp; omega)
    · rw [e4]
      show TTok.startTag name (((attrs.map mkAttr).filter fun a => !a.removed).map fun a => (a.name, a.value)) false :: m.out = _
      rw [hfilter]

/-! ### Through `serialize` and `Spec.tokenize` -/

theorem serialize_single (o : Opts) (t : Tok) (s' : St) (h : H5.Model.Serializer.step o {} t = .ok s') :
    serialize o [t] = .ok (s'.out, s'.errors) := by
  simp [serialize, List.foldlM, h, bind, Except.bind, pure, Except.pure]

/-- a walk from the initial machine over the whole input that ends in the data state gives the token list -/
theorem tokenize_of_reach {input : Str} {b : Nat} {m' : M}
    (h : ReachLe b (initial .data none false) input m' []) (hb : b ≤ 3 * input.length)
    (hs : m'.state = .data) (hd : m'.done = false) :
    Spec.tokenize .data none false input = .ok m'.out.reverse := by
  obtain ⟨n2, hr⟩ := run_reachLe_eof h hs hd (fuelFor input) 0 (by simp [fuelFor]; omega)
  rw [Spec.tokenize, hr]
  rfl

/-- **C08c (3) — start tag round trip.**  For every start tag token whose name is a lower-case ASCII letter followed
by characters other than whitespace, `/`, `>`, NUL, CR and upper-case ASCII, and whose attributes have pairwise
distinct, non-empty names without whitespace, `/`, `>`, `=`, `"`, `'`, `<`, NUL, CR, upper-case ASCII, values without
NUL/CR (empty when the attribute is a minimised boolean attribute), and for every setting of the options with
`quote_char` ∈ {`"`, `'`}: the serializer model writes the tag without reporting an error, and the standard's
tokenizer reads the text back from the data state as exactly that one start tag token — same name, same attributes
in the same order, self-closing flag set exactly when the serializer wrote the trailing solidus of a void element —
with no parse error, ending in the data state. -/
theorem C08_start_tag_roundtrip (o : Opts) (ns : Option Str) (name : Str) (attrs : List Attr)
    (hqc : quoteCharOK o = true) (hok : startTagOK o name attrs = true) :
    ∃ out, serialize o [.startTag ns name attrs] = .ok (out, []) ∧
      Spec.tokenize .data none false out =
        .ok [.startTag name (attrs.map fun a => (a.name, a.value)) (voidElements.elem name && o.useTrailingSolidus)] := by
  obtain ⟨s', hstep, hout, herr, _⟩ := step_startTag o {} ns name attrs
  refine ⟨startTagText o name attrs, ?_, ?_⟩
  · rw [serialize_single o _ s' hstep, hout, herr rfl]
    rfl
  · obtain ⟨m', r, hs, hd, _, hout'⟩ := reach_start_tag o hqc name attrs hok (initial .data none false) rfl rfl []
    rw [List.append_nil] at r
    rw [tokenize_of_reach r (Nat.le_refl _) hs hd, hout']
    rfl

/-! ### End tags -/

def endTagText (name : Str) : Str := [60, 47] ++ name ++ [62]

/-- **end tag, spec side** -/
theorem reach_end_tag (name : Str) (hname : tagNameOK name = true) (m : M) (hs : m.state = .data) (hd : m.done = false)
    (rest : Str) :
    ∃ m', ReachLe (3 * (endTagText name).length) m (endTagText name ++ rest) m' rest ∧
      m'.state = .data ∧ m'.done = false ∧ m'.lastStartTagName = m.lastStartTagName ∧
      m'.out = .endTag name [] false :: m.out := by
  cases name with
  | nil => simp [tagNameOK] at hname
  | cons c n =>
    simp only [tagNameOK, Bool.and_eq_true] at hname
    obtain ⟨hc, hn⟩ := hname
    have hall : (c :: n).all tagNameChar = true := by
      simp only [List.all_cons, Bool.and_eq_true]; exact ⟨(lowerAlpha_spec hc).2.1, hn⟩
    have r1 := ReachLe.single hd (step_data_lt m hs (47 :: c :: (n ++ (62 :: rest))))
    have r2 := ReachLe.single (m := m.switchTo .tagOpen) hd (step_tagOpen_solidus _ rfl (c :: (n ++ (62 :: rest))))
    have r3 := ReachLe.single (m := (m.switchTo .tagOpen).switchTo .endTagOpen) hd
      (step_endTagOpen_alpha _ rfl c (n ++ (62 :: rest)) hc)
    have r4 : Reach (c :: n).length (((m.switchTo .tagOpen).switchTo .endTagOpen).newEndTag.switchTo .tagName)
        (c :: (n ++ (62 :: rest)))
        (setTagName (((m.switchTo .tagOpen).switchTo .endTagOpen).newEndTag.switchTo .tagName) ([] ++ c :: n)) (62 :: rest) :=
      reach_tagName (c :: n) hall (((m.switchTo .tagOpen).switchTo .endTagOpen).newEndTag.switchTo .tagName) rfl hd _
    have r5 := ReachLe.single
      (m := setTagName (((m.switchTo .tagOpen).switchTo .endTagOpen).newEndTag.switchTo .tagName) ([] ++ c :: n)) hd
      (step_tagName_gt _ rfl rest)
    refine ⟨((setTagName (((m.switchTo .tagOpen).switchTo .endTagOpen).newEndTag.switchTo .tagName) ([] ++ c :: n)).switchTo
      .data).emitTag, ?_, ?_, ?_, ?_, ?_⟩
    · have r := (((r1.trans r2).trans r3).trans (ReachLe.of_reach r4)).trans r5
      simp only [endTagText, List.append_assoc, List.cons_append, List.nil_append] at r ⊢
      exact r.mono (by simp; omega)
    · simp [M.emitTag, setTagName, M.switchTo, M.newEndTag, M.emit]
    · simpa [M.emitTag, setTagName, M.switchTo, M.newEndTag, M.emit] using hd
    · simp [M.emitTag, setTagName, M.switchTo, M.newEndTag, M.emit]
    · simp [M.emitTag, setTagName, M.switchTo, M.newEndTag, M.emit]

/-- **Model.** what `step` does on an end tag token -/
theorem step_endTag (o : Opts) (s : St) (ns : Option Str) (name : Str) :
    ∃ s', H5.Model.Serializer.step o s (.endTag ns name) = .ok s' ∧ s'.out = s.out ++ endTagText name ∧
      (s.inCdata = false → s'.errors = s.errors ∧ s'.inCdata = false) := by
  simp only [H5.Model.Serializer.step]
  have e : lit "</" = [60, 47] := by decide
  refine ⟨_, rfl, ?_, ?_⟩
  · cases (rcdataElements.elem name && htmlOrNone ns) <;> cases h2 : s.inCdata <;> simp [St.emit, St.err, endTagText, e, h2]
  · intro hc
    cases (rcdataElements.elem name && htmlOrNone ns) <;> simp [St.emit, hc]

/-- **C08c (4a) — end tag round trip.**  `</name>` for a name of the class above is read back as exactly the end tag
token, no parse error, ending in the data state. -/
theorem C08_end_tag_roundtrip (o : Opts) (ns : Option Str) (name : Str) (hname : tagNameOK name = true) :
    ∃ out, serialize o [.endTag ns name] = .ok (out, []) ∧
      Spec.tokenize .data none false out = .ok [.endTag name [] false] := by
  obtain ⟨s', hstep, hout, herr⟩ := step_endTag o {} ns name
  refine ⟨endTagText name, ?_, ?_⟩
  · rw [serialize_single o _ s' hstep, hout, (herr rfl).1]
    rfl
  · obtain ⟨m', r, hs, hd, _, hout'⟩ := reach_end_tag name hname (initial .data none false) rfl rfl []
    rw [List.append_nil] at r
    rw [tokenize_of_reach r (Nat.le_refl _) hs hd, hout']
    rfl

/-! ### Non-vacuity, and necessity of the hypotheses -/

/-- `href="x&"y"`, `b=c`, `itemscope` (a minimised boolean attribute) -/
def exAttrs : List Attr :=
  [⟨none, [104, 114, 101, 102], [120, 38, 34, 121]⟩, ⟨none, [98], [99]⟩, ⟨none, [105, 116, 101, 109, 115, 99, 111, 112, 101], []⟩]

-- `<a href='x&amp;"y' b=c itemscope>` : single-quoted, unquoted and minimised forms in one tag
example : startTagOK {} [97] exAttrs = true := by decide
example : serialize {} [.startTag none [97] exAttrs] = .ok ([60, 97, 32, 104, 114, 101, 102, 61, 39, 120, 38, 97, 109,
    112, 59, 34, 121, 39, 32, 98, 61, 99, 32, 105, 116, 101, 109, 115, 99, 111, 112, 101, 62], []) := by decide
example : Spec.tokenize .data none false [60, 97, 32, 104, 114, 101, 102, 61, 39, 120, 38, 97, 109,
    112, 59, 34, 121, 39, 32, 98, 61, 99, 32, 105, 116, 101, 109, 115, 99, 111, 112, 101, 62]
    = .ok [.startTag [97] [([104, 114, 101, 102], [120, 38, 34, 121]), ([98], [99]),
        ([105, 116, 101, 109, 115, 99, 111, 112, 101], [])] false] := by decide +kernel
-- `<br … />` with `use_trailing_solidus`: self-closing flag set
example : startTagOK { useTrailingSolidus := true } [98, 114] exAttrs = true ∧
    (voidElements.elem [98, 114] && ({ useTrailingSolidus := true } : Opts).useTrailingSolidus) = true := by decide
example : (serialize { useTrailingSolidus := true } [.startTag none [98, 114] exAttrs]).bind
    (fun r => Spec.tokenize .data none false r.1)
    = .ok [.startTag [98, 114] [([104, 114, 101, 102], [120, 38, 34, 121]), ([98], [99]),
        ([105, 116, 101, 109, 115, 99, 111, 112, 101], [])] true] := by decide +kernel

-- `quoteCharOK` is needed: `quote_char="A"` writes `<a b=Ax yA>`, read back as b="Ax", ya=""
example : (serialize { quoteChar := 65, useBestQuoteChar := false } [.startTag none [97] [⟨none, [98], [120, 32, 121]⟩]]).bind
    (fun r => Spec.tokenize .data none false r.1) = .ok [.startTag [97] [([98], [65, 120]), ([121, 97], [])] false] := by
  decide +kernel
-- the clause "minimised ⇒ empty value" of `attrOK` is needed: `itemscope="x"` is written `itemscope`
example : attrOK {} [97] ⟨none, [105, 116, 101, 109, 115, 99, 111, 112, 101], [120]⟩ = false ∧
    (serialize {} [.startTag none [97] [⟨none, [105, 116, 101, 109, 115, 99, 111, 112, 101], [120]⟩]]).bind
      (fun r => Spec.tokenize .data none false r.1)
      = .ok [.startTag [97] [([105, 116, 101, 109, 115, 99, 111, 112, 101], [])] false] := by decide +kernel
-- `namesDistinct` is needed: the second `b` is dropped (duplicate-attribute)
example : (serialize {} [.startTag none [97] [⟨none, [98], [49]⟩, ⟨none, [98], [50]⟩]]).bind
    (fun r => Spec.tokenize .data none false r.1)
    = .ok [.parseError (lit "duplicate-attribute") [], .startTag [97] [([98], [49])] false] := by decide +kernel
-- `attrNameChar` is needed: upper-case ASCII is lower-cased, a space splits the name
example : (serialize {} [.startTag none [97] [⟨none, [66], [49]⟩]]).bind (fun r => Spec.tokenize .data none false r.1)
    = .ok [.startTag [97] [([98], [49])] false] := by decide +kernel
example : (serialize {} [.startTag none [97] [⟨none, [98, 32, 99], [49]⟩]]).bind (fun r => Spec.tokenize .data none false r.1)
    = .ok [.startTag [97] [([98], []), ([99], [49])] false] := by decide +kernel
-- `tagNameOK` is needed: `<A>` is read back as `a`, `<1>` is text
example : (serialize {} [.startTag none [65] []]).bind (fun r => Spec.tokenize .data none false r.1)
    = .ok [.startTag [97] [] false] := by decide +kernel
example : (serialize {} [.startTag none [49] []]).bind (fun r => Spec.tokenize .data none false r.1)
    ≠ .ok [.startTag [49] [] false] := by decide +kernel
-- end tag
example : tagNameOK [100, 105, 118] = true ∧ (serialize {} [.endTag none [100, 105, 118]]).bind
    (fun r => Spec.tokenize .data none false r.1) = .ok [.endTag [100, 105, 118] [] false] := by decide +kernel

end H5.Props.C08c
