/-
  C07 identity — headings (`startTagHeading` / `endTagHeading`), list items (`startTagListItem` / `endTagListItem`:
  `li` in `ul` / `ol`, `dt` / `dd` in `dl`) and `hr` under `BodyInv`.
-/
import H5.Props.C07bStep3
set_option linter.unusedSimpArgs false
set_option linter.unusedVariables false
namespace H5.Props.C07b
open H5 H5.Model H5.Model.TB H5.Model.Dom

theorem runTag_InBody_startTagHeading (r : Rec) (tok : Token) :
    runTagHandler r "InBodyPhase.startTagHeading" tok = InBody_startTagHeading tok := by
  glue_eval runTagHandler runTagHandler.match_1

theorem runTag_InBody_endTagHeading (r : Rec) (tok : Token) :
    runTagHandler r "InBodyPhase.endTagHeading" tok = InBody_endTagHeading tok := by
  glue_eval runTagHandler runTagHandler.match_1

theorem runTag_InBody_startTagListItem (r : Rec) (tok : Token) :
    runTagHandler r "InBodyPhase.startTagListItem" tok = InBody_startTagListItem r tok := by
  glue_eval runTagHandler runTagHandler.match_1

theorem runTag_InBody_endTagListItem (r : Rec) (tok : Token) :
    runTagHandler r "InBodyPhase.endTagListItem" tok = InBody_endTagListItem tok := by
  glue_eval runTagHandler runTagHandler.match_1

theorem runTag_InBody_startTagHr (r : Rec) (tok : Token) :
    runTagHandler r "InBodyPhase.startTagHr" tok = InBody_startTagHr tok := by
  glue_eval runTagHandler runTagHandler.match_1

/-! ### `elementInScope` always answers on a stack with `html` at the bottom -/

theorem scopeLoop_total (st : PState) (target : Str) (L : List (Str × Str)) (hL : L.contains (htmlNs, sHtml) = true) :
    ∀ (ids : List NodeId) (nms : List Str), OpenNamed st ids nms → sHtml ∈ nms →
    ∃ b, (elementInScopeLoop (fun n => do return (← nameTuple n) == (htmlNs, target)) L false ids).run st = .ok (b, st)
  | [], [], _, hm => by simp at hm
  | [], _ :: _, h, _ => by simp [OpenNamed] at h
  | _ :: _, [], h, _ => by simp [OpenNamed] at h
  | i :: is, nm :: nms, h, hm => by
    obtain ⟨⟨n, hn, hk⟩, hrest⟩ := h
    unfold elementInScopeLoop
    by_cases ht : ((htmlNs, nm) == (htmlNs, target)) = true
    · simp only [run_bind, nameTuple_run st i n nm hn hk, ok_bind, run_pure, ht, ↓reduceIte]; exact ⟨true, rfl⟩
    · have ht' : ((htmlNs, nm) == (htmlNs, target)) = false := by simpa using ht
      by_cases hc : L.contains (htmlNs, nm) = true
      · simp only [run_bind, nameTuple_run st i n nm hn hk, ok_bind, run_pure, ht', Bool.false_eq_true, ↓reduceIte, hc,
          Bool.false_bne]
        exact ⟨false, rfl⟩
      · have hc' : L.contains (htmlNs, nm) = false := by simpa using hc
        simp only [run_bind, nameTuple_run st i n nm hn hk, ok_bind, run_pure, ht', Bool.false_eq_true, ↓reduceIte, hc',
          Bool.false_bne]
        have hm' : sHtml ∈ nms := by
          rcases List.mem_cons.1 hm with h1 | h1
          · rw [← h1] at hc'; rw [hL] at hc'; exact absurd hc' (by simp)
          · exact h1
        exact scopeLoop_total st target L hL is nms hrest hm'

/-- names of the open elements with `html` at the bottom (as `NoP`, without the condition on `p`) -/
def HtmlBottom (fs : List Frame) (f : Frame) : Prop := ∃ nms, Named fs f nms ∧ sHtml ∈ nms

theorem NoP.htmlBottom {fs : List Frame} {f : Frame} (h : NoP fs f) : HtmlBottom fs f := by
  obtain ⟨nms, h1, h2, _⟩ := h
  exact ⟨nms, h1, h2⟩

theorem elementInScope_total {ps fs f} (h : BodyInv ps fs f) (hb : HtmlBottom fs f) (target : Str) :
    ∃ b, (elementInScope target).run ps = .ok (b, ps) := by
  obtain ⟨nms, h1, h2⟩ := hb
  obtain ⟨L, hL, hLc⟩ := listElements_none
  unfold elementInScope
  have e1 : nsE "html" = .ok htmlNs := nsE_html
  have e2 : listElements (Option.map lit none) = .ok (L, false) := hL
  simp only [run_bind, liftExcept_run _ _ _ e1, monadLift_run _ _ _ e1, liftExcept_run _ _ _ e2,
    monadLift_run _ _ _ e2, ok_bind, openElems_run]
  exact scopeLoop_total ps target L hLc _ nms (h.openNamed h1) h2

/-- `any(elementInScope(item) for item in headingElements)` when the current node is a heading -/
theorem anyInScope_true {ps fs f} (h : BodyInv ps fs f) (hb : HtmlBottom fs f) (nm : Str)
    (hk : f.node.kind = .element (some htmlNs) nm) : ∀ (items : List Str), nm ∈ items →
    (InBody_endTagHeading.anyInScope items).run ps = .ok (true, ps)
  | [], hm => by simp at hm
  | item :: rest, hm => by
    unfold InBody_endTagHeading.anyInScope
    by_cases he : item = nm
    · subst he
      simp only [run_bind, elementInScope_top h item hk none (Or.inl rfl), ok_bind, ↓reduceIte, run_pure]
    · obtain ⟨b, hb1⟩ := elementInScope_total h hb item
      simp only [run_bind, hb1, ok_bind]
      cases b with
      | true => simp only [↓reduceIte, run_pure]
      | false =>
        simp only [Bool.false_eq_true, ↓reduceIte]
        have hm' : nm ∈ rest := by
          rcases List.mem_cons.1 hm with h1 | h1
          · exact absurd h1.symm he
          · exact h1
        exact anyInScope_true h hb nm hk rest hm'

theorem elementInScope_top_list {ps fs f} (h : BodyInv ps fs f) (nm : Str)
    (hk : f.node.kind = .element (some htmlNs) nm) : (elementInScope nm (some "list")).run ps = .ok (true, ps) := by
  have he : ps.openElements.reverse = f.id :: ((fs.drop 1).reverse).map (·.id) := by
    rw [h.opens]; simp
  have e1 : nsE "html" = .ok htmlNs := nsE_html
  unfold elementInScope
  have e2 : ∃ L, listElements (Option.map lit (some "list")) = .ok (L, false) := ⟨_, rfl⟩
  obtain ⟨L, e2⟩ := e2
  simp only [run_bind, liftExcept_run _ _ _ e1, monadLift_run _ _ _ e1, liftExcept_run _ _ _ e2,
    monadLift_run _ _ _ e2, ok_bind, openElems_run, he]
  exact scopeLoop_top ps nm L f.id f.node _ h.topNode hk

theorem closePIfInButtonScope_run {ps fs f} (h : BodyInv ps fs f) (hnp : NoP fs f) :
    closePIfInButtonScope.run ps = .ok ((), ps) := by
  unfold closePIfInButtonScope
  have hsc : (elementInScope (lit "p") (some "button")).run ps = .ok (false, ps) := elementInScope_p_false h hnp
  simp only [run_bind, hsc, ok_bind, Bool.false_eq_true, ↓reduceIte]
  rfl

/-! ### headings -/

def headingStart (nm : Str) : Prop :=
  lookupHandler Gen.startTagHandlers "startTagHandler" .inBody nm = .ok "InBodyPhase.startTagHeading"
def headingEnd (nm : Str) : Prop :=
  lookupHandler Gen.endTagHandlers "endTagHandler" .inBody nm = .ok "InBodyPhase.endTagHeading"
instance (nm : Str) : Decidable (headingStart nm) := by unfold headingStart; infer_instance
instance (nm : Str) : Decidable (headingEnd nm) := by unfold headingEnd; infer_instance

/-- the frames after a start tag that inserts an element below the current node (state change limited to the arena and
the stack of open elements, plus fields outside the invariant) -/
theorem BodyInv.pushed {ps ps' : PState} {fs f} (h : BodyInv ps fs f) (nm : Str) (attrs : Attrs) (hnf : fmtName nm = false)
    (h1 : ps'.phase = ps.phase) (h2 : ps'.openElements = ps.openElements ++ [ps.arena.nodes.size])
    (h3 : ps'.activeFormattingElements = ps.activeFormattingElements) (h4 : ps'.insertFromTable = ps.insertFromTable)
    (h5 : ps'.errors = ps.errors) (h6 : ps'.inBodyDropNewline = ps.inBodyDropNewline)
    (h7 : ps'.arena = addChild ps.arena f.id f.node (.element (some htmlNs) nm) attrs) (h8 : ps'.document = ps.document) :
    BodyInv ps' (fs ++ [withChild f ps.arena.nodes.size]) (newFrame ps.arena.nodes.size f.id nm attrs) := by
  refine ⟨h1.trans h.phase, ?_, ?_, h4.trans h.ift, h5.trans h.errs, h6.trans h.dropNl, h8.trans h.docId, ?_,
    ⟨nm, rfl⟩, by simp⟩
  · rw [h2, h.opens]
    cases fs with
    | nil => exact absurd rfl h.fsne
    | cons e rest => simp [withChild, newFrame]
  · rw [h.afe_push, hnf, h3]
    simp
  · rw [h7]; exact h.frames.push (.element (some htmlNs) nm) attrs

theorem step_startTagHeading {ps fs f} (h : BodyInv ps fs f) (hnp : NoP fs f) (nm : Str) (attrs : List (Str × Str))
    (hs : headingStart nm) (pn : Str) (hfk : f.node.kind = .element (some htmlNs) pn)
    (hpar : Gen.headingElements.contains pn = false) :
    ∃ ps', TB.step cfg0 ps (.startTag nm attrs false) = .ok (ps', none) ∧
      BodyInv ps' (fs ++ [withChild f ps.arena.nodes.size])
        (newFrame ps.arena.nodes.size f.id nm (attrsOfPairs attrs)) := by
  have hr := resetFor_BodyInv h
  let d : TagData := { name := nm, attrs := attrsOfPairs attrs, selfClosing := false, orig := true }
  let st' : PState := { resetFor ps with
    arena := addChild ps.arena f.id f.node (.element (some htmlNs) nm) (attrsOfPairs attrs),
    openElements := ps.openElements ++ [ps.arena.nodes.size] }
  have hcall : (callOf (mkRec 48) .inBody (.startTag d)).run (resetFor ps) = .ok (none, st') := by
    show (runProcess (mkRec 47) .inBody "processStartTag" (.startTag d)).run (resetFor ps) = _
    rw [runProcess_inBody_S]
    unfold Phase_processStartTag
    have e1 : (Token.startTag d).tag "Phase.processStartTag" = .ok d := rfl
    simp only [run_bind, liftExcept_run _ _ _ e1, monadLift_run _ _ _ e1, ok_bind]
    have e2 : lookupHandler Gen.startTagHandlers "startTagHandler" .inBody d.name = .ok "InBodyPhase.startTagHeading" := hs
    simp only [liftExcept_run _ _ _ e2, monadLift_run _ _ _ e2, ok_bind, runTag_InBody_startTagHeading]
    unfold InBody_startTagHeading
    have e3 : (Token.startTag d).tag "InBodyPhase.startTagHeading" = .ok d := rfl
    simp only [run_bind, liftExcept_run _ _ _ e3, monadLift_run _ _ _ e3, ok_bind, closePIfInButtonScope_run hr hnp,
      openLast_run (resetFor ps) _ f.id hr.last, nodeName_run (resetFor ps) f.id f.node _ pn hr.topNode hfk, hpar,
      Bool.false_eq_true, ↓reduceIte, run_pure]
    rw [insertElement_run (resetFor ps) d f.id f.node rfl rfl hr.ift hr.last hr.topNode]
    rfl
  refine ⟨st', ?_, ?_⟩
  · exact step_of_call ps st' (.startTag nm attrs false) (.startTag d) f.id f.node pn .inBody rfl
      (fun d' hd' => by cases hd'; rfl) h.phase h.last h.topNode hfk hcall
  · exact h.pushed nm (attrsOfPairs attrs) (not_fmt_of_start hs (by decide) (by decide)) rfl rfl rfl rfl rfl rfl rfl rfl

theorem step_endTagHeading {ps fs p g} (h : BodyInv ps (fs ++ [p]) g) (hb : HtmlBottom (fs ++ [p]) g) (nm : Str)
    (hfs : fs ≠ []) (hg : g.node.kind = .element (some htmlNs) nm) (hpk : ∃ pn, p.node.kind = .element (some htmlNs) pn)
    (he : headingEnd nm) (hin : nm ∈ Gen.headingElements)
    (himpl : Gen.Lit.TB_TreeBuilder_generateImpliedEndTags_0.contains nm = false) :
    ∃ ps', TB.step cfg0 ps (.endTag nm [] false) = .ok (ps', none) ∧
      BodyInv ps' fs { p with kids := p.kids ++ [g.tree] } := by
  have hr := resetFor_BodyInv h
  let d : TagData := { name := nm, attrs := attrsOfPairs [], selfClosing := false, orig := true }
  let st' : PState := { resetFor ps with openElements := ps.openElements.dropLast }
  have hcall : (callOf (mkRec 48) .inBody (.endTag d)).run (resetFor ps) = .ok (none, st') := by
    show (runProcess (mkRec 47) .inBody "processEndTag" (.endTag d)).run (resetFor ps) = _
    rw [runProcess_inBody_E]
    unfold Phase_processEndTag
    have e1 : (Token.endTag d).tag "Phase.processEndTag" = .ok d := rfl
    simp only [run_bind, liftExcept_run _ _ _ e1, monadLift_run _ _ _ e1, ok_bind]
    have e2 : lookupHandler Gen.endTagHandlers "endTagHandler" .inBody d.name = .ok "InBodyPhase.endTagHeading" := he
    simp only [liftExcept_run _ _ _ e2, monadLift_run _ _ _ e2, ok_bind, runTag_InBody_endTagHeading]
    unfold InBody_endTagHeading
    have e3 : (Token.endTag d).tag "InBodyPhase.endTagHeading" = .ok d := rfl
    have hdn : d.name = nm := rfl
    have hany := anyInScope_true hr hb nm hg Gen.headingElements hin
    have hcont : Gen.headingElements.contains nm = true := by simpa using hin
    simp only [run_bind, ok_bind, liftExcept_run _ _ _ e3, monadLift_run _ _ _ e3, hdn, hany, ↓reduceIte,
      generateImplied_run_none (resetFor ps) g.id g.node _ nm hr.last hr.topNode hg himpl,
      openLast_run (resetFor ps) _ g.id hr.last, nodeName_run (resetFor ps) g.id g.node _ nm hr.topNode hg,
      bne_self_eq_false, Bool.false_eq_true, run_pure]
    unfold popUntil
    simp only [run_bind, openElems_run, ok_bind]
    unfold popUntilLoop
    have hn2 : ({ resetFor ps with openElements := (resetFor ps).openElements.dropLast } : PState).arena.nodes[g.id]? =
        some g.node := hr.topNode
    simp only [run_bind, openPop_run (resetFor ps) _ g.id hr.last, ok_bind, run_pure,
      nodeName_run _ g.id g.node _ nm hn2 hg, hcont, ↓reduceIte]
    rfl
  exact ⟨st', step_of_call ps st' (.endTag nm [] false) (.endTag d) g.id g.node nm .inBody rfl
      (fun d' hd' => by cases hd') h.phase h.last h.topNode hg hcall,
    h.popped nm hfs hg hpk (not_fmt_of_end he (by decide))⟩

/-! ### list items -/

def itemStart (nm : Str) : Prop :=
  lookupHandler Gen.startTagHandlers "startTagHandler" .inBody nm = .ok "InBodyPhase.startTagListItem"
def itemEnd (nm : Str) : Prop :=
  lookupHandler Gen.endTagHandlers "endTagHandler" .inBody nm = .ok "InBodyPhase.endTagListItem"

theorem step_startTagListItem {ps fs f} (h : BodyInv ps fs f) (hnp : NoP fs f) (nm : Str) (attrs : List (Str × Str))
    (hs : itemStart nm) (pn : Str) (hfk : f.node.kind = .element (some htmlNs) pn) (stop : List Str)
    (hfind : Gen.Lit.InBodyPhase_startTagListItem_0.find? (fun q => q.1 == nm) = some (nm, stop))
    (hstop : stop.contains pn = false) (hsp : Gen.specialElements.contains (htmlNs, pn) = true)
    (hex : Gen.Lit.InBodyPhase_startTagListItem_1.contains pn = false) :
    ∃ ps', TB.step cfg0 ps (.startTag nm attrs false) = .ok (ps', none) ∧
      BodyInv ps' (fs ++ [withChild f ps.arena.nodes.size])
        (newFrame ps.arena.nodes.size f.id nm (attrsOfPairs attrs)) := by
  have hr := resetFor_BodyInv h
  let d : TagData := { name := nm, attrs := attrsOfPairs attrs, selfClosing := false, orig := true }
  let st0 : PState := { resetFor ps with framesetOK := false }
  let st' : PState := { st0 with
    arena := addChild ps.arena f.id f.node (.element (some htmlNs) nm) (attrsOfPairs attrs),
    openElements := ps.openElements ++ [ps.arena.nodes.size] }
  have h0 : BodyInv st0 fs f := ⟨hr.phase, hr.opens, hr.afe, hr.ift, hr.errs, hr.dropNl, hr.docId, hr.frames, hr.topk, hr.fsne⟩
  have hcall : (callOf (mkRec 48) .inBody (.startTag d)).run (resetFor ps) = .ok (none, st') := by
    show (runProcess (mkRec 47) .inBody "processStartTag" (.startTag d)).run (resetFor ps) = _
    rw [runProcess_inBody_S]
    unfold Phase_processStartTag
    have e1 : (Token.startTag d).tag "Phase.processStartTag" = .ok d := rfl
    simp only [run_bind, liftExcept_run _ _ _ e1, monadLift_run _ _ _ e1, ok_bind]
    have e2 : lookupHandler Gen.startTagHandlers "startTagHandler" .inBody d.name = .ok "InBodyPhase.startTagListItem" := hs
    simp only [liftExcept_run _ _ _ e2, monadLift_run _ _ _ e2, ok_bind, runTag_InBody_startTagListItem]
    unfold InBody_startTagListItem setFramesetOK
    have e3 : (Token.startTag d).tag "InBodyPhase.startTagListItem" = .ok d := rfl
    have hm : (modify fun st => { st with framesetOK := false } : M PUnit).run (resetFor ps) = .ok (⟨⟩, st0) := rfl
    have hdn : d.name = nm := rfl
    have hopen : st0.openElements.reverse = f.id :: ((fs.drop 1).reverse).map (·.id) := by
      show ps.openElements.reverse = _
      rw [h.opens]; simp
    have hsc : (elementInScope (lit "p") (some "button")).run st0 = .ok (false, st0) := elementInScope_p_false h0 hnp
    simp only [run_bind, liftExcept_run _ _ _ e3, monadLift_run _ _ _ e3, ok_bind, hm, hdn, hfind, run_pure,
      openElems_run, hopen]
    unfold InBody_startTagListItem.loop
    simp only [run_bind, nodeName_run st0 f.id f.node _ pn h0.topNode hfk, ok_bind, hstop, Bool.false_eq_true,
      ↓reduceIte, nameTuple_run st0 f.id f.node pn h0.topNode hfk, hsp, hex, Bool.not_false, Bool.and_self, run_pure, hsc]
    rw [insertElement_run st0 d f.id f.node rfl rfl h0.ift h0.last h0.topNode]
    rfl
  obtain ⟨fnm, hfk'⟩ := h.topk
  refine ⟨st', ?_, ?_⟩
  · exact step_of_call ps st' (.startTag nm attrs false) (.startTag d) f.id f.node pn .inBody rfl
      (fun d' hd' => by cases hd'; rfl) h.phase h.last h.topNode hfk hcall
  · exact h.pushed nm (attrsOfPairs attrs) (not_fmt_of_start hs (by decide) (by decide)) rfl rfl rfl rfl rfl rfl rfl rfl

theorem step_endTagListItem {ps fs p g} (h : BodyInv ps (fs ++ [p]) g) (nm : Str) (hfs : fs ≠ [])
    (hg : g.node.kind = .element (some htmlNs) nm) (hpk : ∃ pn, p.node.kind = .element (some htmlNs) pn)
    (he : itemEnd nm) :
    ∃ ps', TB.step cfg0 ps (.endTag nm [] false) = .ok (ps', none) ∧
      BodyInv ps' fs { p with kids := p.kids ++ [g.tree] } := by
  have hr := resetFor_BodyInv h
  let d : TagData := { name := nm, attrs := attrsOfPairs [], selfClosing := false, orig := true }
  let st' : PState := { resetFor ps with openElements := ps.openElements.dropLast }
  have hcall : (callOf (mkRec 48) .inBody (.endTag d)).run (resetFor ps) = .ok (none, st') := by
    show (runProcess (mkRec 47) .inBody "processEndTag" (.endTag d)).run (resetFor ps) = _
    rw [runProcess_inBody_E]
    unfold Phase_processEndTag
    have e1 : (Token.endTag d).tag "Phase.processEndTag" = .ok d := rfl
    simp only [run_bind, liftExcept_run _ _ _ e1, monadLift_run _ _ _ e1, ok_bind]
    have e2 : lookupHandler Gen.endTagHandlers "endTagHandler" .inBody d.name = .ok "InBodyPhase.endTagListItem" := he
    simp only [liftExcept_run _ _ _ e2, monadLift_run _ _ _ e2, ok_bind, runTag_InBody_endTagListItem]
    unfold InBody_endTagListItem
    have e3 : (Token.endTag d).tag "InBodyPhase.endTagListItem" = .ok d := rfl
    have hdn : d.name = nm := rfl
    have hsc : (elementInScope nm (if (nm == lit "li") = true then some "list" else none)).run (resetFor ps) =
        .ok (true, resetFor ps) := by
      split
      · exact elementInScope_top_list hr nm hg
      · exact elementInScope_top hr nm hg none (Or.inl rfl)
    simp only [run_bind, ok_bind, liftExcept_run _ _ _ e3, monadLift_run _ _ _ e3, hdn, hsc, Bool.not_true,
      Bool.false_eq_true, ↓reduceIte,
      generateImplied_run_excluded (resetFor ps) g.id g.node _ nm hr.last hr.topNode hg,
      openLast_run (resetFor ps) _ g.id hr.last, nodeName_run (resetFor ps) g.id g.node _ nm hr.topNode hg,
      bne_self_eq_false, run_pure]
    unfold popUntil
    simp only [run_bind, openElems_run, ok_bind]
    unfold popUntilLoop
    have hn2 : ({ resetFor ps with openElements := (resetFor ps).openElements.dropLast } : PState).arena.nodes[g.id]? =
        some g.node := hr.topNode
    simp only [run_bind, openPop_run (resetFor ps) _ g.id hr.last, ok_bind, run_pure,
      nodeName_run _ g.id g.node _ nm hn2 hg, beq_self_eq_true, ↓reduceIte]
    rfl
  exact ⟨st', step_of_call ps st' (.endTag nm [] false) (.endTag d) g.id g.node nm .inBody rfl
      (fun d' hd' => by cases hd') h.phase h.last h.topNode hg hcall,
    h.popped nm hfs hg hpk (not_fmt_of_end he (by decide))⟩

/-! ### `hr` -/

theorem step_hr {ps fs f} (h : BodyInv ps fs f) (hnp : NoP fs f) (attrs : List (Str × Str)) :
    ∃ ps', TB.step cfg0 ps (.startTag (lit "hr") attrs false) = .ok (ps', none) ∧
      BodyInv ps' fs (withVoid f ps.arena.nodes.size (lit "hr") (attrsOfPairs attrs)) := by
  obtain ⟨fnm, hfk⟩ := h.topk
  have hr := resetFor_BodyInv h
  let d : TagData := { name := lit "hr", attrs := attrsOfPairs attrs, selfClosing := false, orig := true }
  let st' : PState := { resetFor ps with
    arena := addChild ps.arena f.id f.node (.element (some htmlNs) (lit "hr")) (attrsOfPairs attrs),
    selfClosingAcknowledged := true, framesetOK := false }
  have hcall : (callOf (mkRec 48) .inBody (.startTag d)).run (resetFor ps) = .ok (none, st') := by
    show (runProcess (mkRec 47) .inBody "processStartTag" (.startTag d)).run (resetFor ps) = _
    rw [runProcess_inBody_S]
    unfold Phase_processStartTag
    have e1 : (Token.startTag d).tag "Phase.processStartTag" = .ok d := rfl
    simp only [run_bind, liftExcept_run _ _ _ e1, monadLift_run _ _ _ e1, ok_bind]
    have e2' : lookupHandler Gen.startTagHandlers "startTagHandler" .inBody (lit "hr") = .ok "InBodyPhase.startTagHr" := by
      decide +kernel
    have e2 : lookupHandler Gen.startTagHandlers "startTagHandler" .inBody d.name = .ok "InBodyPhase.startTagHr" := e2'
    simp only [liftExcept_run _ _ _ e2, monadLift_run _ _ _ e2, ok_bind, runTag_InBody_startTagHr]
    unfold InBody_startTagHr
    have e3 : (Token.startTag d).tag "InBodyPhase.startTagHr" = .ok d := rfl
    simp only [run_bind, liftExcept_run _ _ _ e3, monadLift_run _ _ _ e3, ok_bind, closePIfInButtonScope_run hr hnp]
    rw [insertElement_run (resetFor ps) d f.id f.node rfl rfl hr.ift hr.last hr.topNode]
    simp only [ok_bind]
    rw [openPop_run _ _ (resetFor ps).arena.nodes.size (by simp)]
    simp only [ok_bind, List.dropLast_concat]
    rfl
  refine ⟨st', ?_, ?_⟩
  · exact step_of_call ps st' (.startTag (lit "hr") attrs false) (.startTag d) f.id f.node fnm .inBody rfl
      (fun d' hd' => by cases hd'; rfl) h.phase h.last h.topNode hfk hcall
  · exact h.addVoid (lit "hr") (attrsOfPairs attrs) rfl rfl rfl rfl rfl rfl rfl rfl

/-! ### the grammar's context with the parent's name -/

theorem HtmlBottom.same {fs : List Frame} {f f1 : Frame} (h : HtmlBottom fs f) (hk : f1.node.kind = f.node.kind) :
    HtmlBottom fs f1 := by
  obtain ⟨nms, h1, h2⟩ := h
  refine ⟨nms, ?_, h2⟩
  unfold Named at *
  cases nms with
  | nil => simp [KindsAre] at h1
  | cons nm nms => exact ⟨hk.trans h1.1, h1.2⟩

theorem HtmlBottom.push {fs : List Frame} {f : Frame} (h : HtmlBottom fs f) (hfs : fs ≠ []) (f1 g : Frame) (nm : Str)
    (hk : f1.node.kind = f.node.kind) (hg : g.node.kind = .element (some htmlNs) nm) : HtmlBottom (fs ++ [f1]) g := by
  obtain ⟨nms, h1, h2⟩ := h
  refine ⟨nm :: nms, ?_, by simp [h2]⟩
  unfold Named at *
  have : ((fs ++ [f1]).drop 1).reverse = f1 :: (fs.drop 1).reverse := by
    cases fs with
    | nil => exact absurd rfl hfs
    | cons e rest => simp
  rw [this]
  cases nms with
  | nil => simp [KindsAre] at h1
  | cons n0 nms => exact ⟨hg, hk.trans h1.1, h1.2⟩

/-- the grammar's context `x` describes the open elements -/
def CtxOK (x : Ctx) (fs : List Frame) (f : Frame) : Prop :=
  (x.inP = false → NoP fs f) ∧ FmtCtx fs f x.fm ∧ f.node.kind = .element (some htmlNs) x.parent

theorem CtxOK.same {x : Ctx} {fs : List Frame} {f f1 : Frame} (h : CtxOK x fs f) (hk : f1.node.kind = f.node.kind) :
    CtxOK x fs f1 := ⟨fun hi => (h.1 hi).same hk, h.2.1.same hk, hk.trans h.2.2⟩

end H5.Props.C07b
