/-
  C03 fuel part, level 2 — `dispatch_depth_bound`.

  * `runTagHandler_pv / runProcessPlain_pv / runEOF_pv` : every branch of the three big string matches of Glue.lean
    preserves `PhInv` and does not run out of fuel, provided the requirement recorded in `reqTable` for that branch
    holds (the compiled match is a chain of `dite`s on `name = "literal"`; each branch is closed by the lemma of
    its handler).
  * `graph…` : the static call graph check, by kernel evaluation of the GENERATED dispatch tables
    (`Gen.processMethods`, `Gen.startTagHandlers`, `Gen.endTagHandlers`): every handler that phase `ph` can select for a
    token of a given class only makes nested dispatches of rank strictly below the rank of (`ph`, token class).
  * `mkRec_ok : RecOK (mkRec n) n` by induction on `n`, and `dispatch_depth_bound`.
-/
import H5.Props.C03bGraphTab
set_option linter.unusedSimpArgs false
set_option linter.unusedVariables false
namespace H5.Props.C03b
open H5 H5.Model H5.Model.TB H5.Model.Dom
open H5.Props.C02c (NF Post Post_bind Post_mono Post_pure Post_ok Post_error Post_throw Post_ite
  NF_typeError NF_keyError NF_indexError NF_assertFail NF_valueError NF_lookupError)

/-! ### the three string matches of Glue.lean -/

theorem Pv_dite {α : Type} {c : Prop} [Decidable c] (t : c → M α) (e : ¬c → M α) (ht : ∀ h, Pv (t h))
    (he : ∀ h, Pv (e h)) : Pv (dite c t e) := by
  by_cases hc : c
  · rw [dif_pos hc]; exact ht _
  · rw [dif_neg hc]; exact he _

set_option maxHeartbeats 4000000 in
theorem runTagHandler_pv {r : Rec} {n : Nat} (hr : RecOK r n) (tok : Token) (h : String)
    (hb : ∀ q ∈ reqsOf h, q.holds tok n) : Pv (runTagHandler r h tok) := by
  delta runTagHandler
  delta runTagHandler.match_1
  repeat (refine Pv_dite _ _ (fun heq => ?_) (fun _ => ?_); (· subst heq; dsimp only [Eq.ndrec_symm]; r_close))
  r_close

set_option maxHeartbeats 4000000 in
theorem runProcessPlain_pv {r : Rec} {n : Nat} (hr : RecOK r n) (tok : Token) (h : String)
    (hb : ∀ q ∈ reqsOf h, q.holds tok n) : Pv (runProcessPlain r h tok) := by
  delta runProcessPlain
  delta runProcessPlain.match_1
  repeat (refine Pv_dite _ _ (fun heq => ?_) (fun _ => ?_); (· subst heq; dsimp only [Eq.ndrec_symm]; r_close))
  r_close

set_option maxHeartbeats 4000000 in
theorem runEOF_pv {r : Rec} {n : Nat} (hr : RecOK r n) (tok : Token) (h : String)
    (hb : ∀ q ∈ reqsOf h, q.holds tok n) : Pv (runEOF r h) := by
  delta runEOF
  delta runEOF.match_1
  repeat (refine Pv_dite _ _ (fun heq => ?_) (fun _ => ?_); (· subst heq; dsimp only [Eq.ndrec_symm]; r_close))
  r_close

end H5.Props.C03b
