/-
  Property C08 (continued, markup) — the serializer's output re-tokenises to the token stream it was given.

  Top module of the C08c development:
    H5.Props.C08cAttr    `C08_attr_value_roundtrip`, `C08_unquoted_value_roundtrip`
    H5.Props.C08cTag     `C08_start_tag_roundtrip`, `C08_end_tag_roundtrip`
    H5.Props.C08cMarkup  `C08_comment_roundtrip`, `C08_doctype_roundtrip`
    here                 `C08_stream_roundtrip`, non-vacuity examples and the counter-examples showing that every
                         hypothesis is needed.
  Model: H5.Model.Serializer (hand model of `HTMLSerializer.serialize`); Spec: H5.Spec.Tokenizer (the standard's
  tokenizer, written from the standard).
  Since the library fix COMMIT_A (the raw-text decision is made only for HTML-namespace elements) a FOREIGN element
  named like a raw-text element is covered: `tokOK`, `C08_foreign_rawtext_roundtrip`.  All theorems hold for every setting of the serializer options with
  `quote_char` ∈ {`"`, `'`}.
-/
import H5.Props.C08cMarkup
import H5.Spec.Retokenize
namespace H5.Props.C08c
open H5 H5.Gen H5.Spec H5.Spec.Tokenizer
open H5.Model.Serializer
open H5.Props.C08 (escape_cons esc1 step_data_plain step_ref1 step_ref2 step_ref3 afterRef refM1 refM2
  longestNamedReference_semicolon amp_mem lt_mem gt_mem filterMap_canonTok_chars)

/-! ### Text in the data state, as a walk -/

theorem reach_ref_data (m : M) (hs : m.state = .data) (hd : m.done = false) {c0 : Nat} {k' v : Str}
    (hm : (c0 :: k', v) ∈ entities) (hlast : (c0 :: k').getLast? = some 59) (hc0 : isASCIIAlphanumeric c0 = true)
    (rest : Str) : Reach 3 m (38 :: ((c0 :: k') ++ rest)) (afterRef m v) rest := by
  have hl := longestNamedReference_semicolon hm hlast rest
  have s1 := step_ref1 m hs ((c0 :: k') ++ rest)
  have s2 := step_ref2 m c0 (k' ++ rest) hc0
  have s3 := step_ref3 m (c0 :: k') v rest hl hlast
  exact ((Reach.single hd s1).trans (Reach.single (m := refM1 m) hd s2)).trans (Reach.single (m := refM2 m) hd s3)

/-- one character token per character -/
def chars1 (s : Str) : List TTok := s.map fun c => TTok.chars [c]

/-- **escaped text, as a walk**: `escape s` in the data state emits one character token per character of `s` -/
theorem reach_escape : ∀ (s : Str), (∀ c ∈ s, c ≠ 0) → ∀ (m : M), m.state = .data → m.done = false → ∀ (rest : Str),
    ∃ m', ReachLe (3 * (escape s).length) m (escape s ++ rest) m' rest ∧ m'.state = .data ∧ m'.done = false ∧
      m'.out = (chars1 s).reverse ++ m.out := by
  intro s
  induction s with
  | nil =>
    intro _ m hs hd rest
    exact ⟨m, ReachLe.refl m rest, hs, hd, rfl⟩
  | cons c s ih =>
    intro h0 m hs hd rest
    have hc0 : c ≠ 0 := h0 c (by simp)
    have hs0 : ∀ d ∈ s, d ≠ 0 := fun d hd' => h0 d (List.mem_cons_of_mem _ hd')
    rw [escape_cons]
    have named : ∀ (k : Str) (c0 : Nat) (k' : Str), esc1 c = 38 :: c0 :: k' → (c0 :: k', [c]) ∈ entities →
        (c0 :: k').getLast? = some 59 → isASCIIAlphanumeric c0 = true → k = c0 :: k' →
        ∃ m', ReachLe (3 * (esc1 c ++ escape s).length) m (esc1 c ++ escape s ++ rest) m' rest ∧ m'.state = .data ∧
          m'.done = false ∧ m'.out = (chars1 (c :: s)).reverse ++ m.out := by
      intro k c0 k' he hm hl ha _
      have r1 := reach_ref_data m hs hd hm hl ha (escape s ++ rest)
      obtain ⟨m', r2, e1, e2, e3⟩ := ih hs0 (afterRef m [c]) rfl hd rest
      refine ⟨m', ?_, e1, e2, ?_⟩
      · rw [he]
        have r := (ReachLe.of_reach r1).trans r2
        simp only [List.cons_append, List.append_assoc] at r ⊢
        exact r.mono (by simp; omega)
      · rw [e3]; simp [afterRef, chars1]
    by_cases h1 : c = 38
    · subst h1; exact named _ 97 [109, 112, 59] (by decide) amp_mem (by decide) (by decide) rfl
    · by_cases h2 : c = 60
      · subst h2; exact named _ 108 [116, 59] (by decide) lt_mem (by decide) (by decide) rfl
      · by_cases h3 : c = 62
        · subst h3; exact named _ 103 [116, 59] (by decide) gt_mem (by decide) (by decide) rfl
        · have e : esc1 c = [c] := by simp [esc1, h1, h2, h3]
          rw [e]
          have r1 := ReachLe.single hd (step_data_plain m hs c (escape s ++ rest) h1 h2 hc0)
          obtain ⟨m', r2, e1, e2, e3⟩ := ih hs0 (m.emitChar c) hs hd rest
          refine ⟨m', ?_, e1, e2, ?_⟩
          · have r := r1.trans r2
            simp only [List.cons_append, List.nil_append] at r ⊢
            exact r.mono (by simp; omega)
          · rw [e3]; simp [M.emitChar, M.emit, chars1]

/-- **raw text, as a walk** (what the serializer writes for a `SpaceCharacters` token): characters other than `&`,
`<`, NUL are emitted as themselves -/
theorem reach_raw : ∀ (s : Str), (∀ c ∈ s, c ≠ 0 ∧ c ≠ 38 ∧ c ≠ 60) → ∀ (m : M), m.state = .data → m.done = false →
    ∀ (rest : Str), ∃ m', ReachLe (3 * s.length) m (s ++ rest) m' rest ∧ m'.state = .data ∧ m'.done = false ∧
      m'.out = (chars1 s).reverse ++ m.out := by
  intro s
  induction s with
  | nil =>
    intro _ m hs hd rest
    exact ⟨m, ReachLe.refl m rest, hs, hd, rfl⟩
  | cons c s ih =>
    intro h0 m hs hd rest
    obtain ⟨a, b, d⟩ := h0 c (by simp)
    have r1 := ReachLe.single hd (step_data_plain m hs c (s ++ rest) b d a)
    obtain ⟨m', r2, e1, e2, e3⟩ := ih (fun x hx => h0 x (List.mem_cons_of_mem _ hx)) (m.emitChar c) hs hd rest
    refine ⟨m', ?_, e1, e2, ?_⟩
    · have r := r1.trans r2
      simp only [List.cons_append] at r ⊢
      exact r.mono (by simp; omega)
    · rw [e3]; simp [M.emitChar, M.emit, chars1]

/-! ### Theorem 5: token streams -/

/-- elements after whose start tag the tokenizer does not stay in the data state (RCDATA: `title`, `textarea`;
RAWTEXT: `style`, `xmp`, `iframe`, `noembed`, `noframes`, `noscript`; `script`; `plaintext`).  They contain the
serializer's `rcdataElements`, whose text children are written unescaped. -/
def specialElements : List Str := [
  [116, 105, 116, 108, 101], [116, 101, 120, 116, 97, 114, 101, 97], [115, 116, 121, 108, 101], [120, 109, 112],
  [105, 102, 114, 97, 109, 101], [110, 111, 101, 109, 98, 101, 100], [110, 111, 102, 114, 97, 109, 101, 115],
  [110, 111, 115, 99, 114, 105, 112, 116], [115, 99, 114, 105, 112, 116], [112, 108, 97, 105, 110, 116, 101, 120, 116]]

theorem rcdata_sub_special : ∀ x ∈ rcdataElements, x ∈ specialElements := by decide

/-- the tokens of the streams the theorem covers.  A start tag named like a raw-text / RCDATA element is covered when
its namespace is foreign (not HTML, not missing): since fix COMMIT_A the serializer escapes the text inside it, and a
reader does not leave the data state for a foreign element. -/
def tokOK (o : Opts) : Tok → Bool
  | .startTag ns name attrs => startTagOK o name attrs && (!specialElements.elem name || !htmlOrNone ns)
  | .emptyTag ns name attrs => startTagOK o name attrs && (!specialElements.elem name || !htmlOrNone ns)
  | .endTag _ name => tagNameOK name
  | .chars s => valueOK s
  | .space s => s.all isWhitespace
  | .comment d => commentOK d
  | .doctype name pub sys => doctypeOK name pub sys
  | _ => false

/-- what the serializer writes for a token (in a stream of `tokOK` tokens) -/
def tokText (o : Opts) : Tok → Str
  | .startTag _ name attrs => startTagText o name attrs
  | .emptyTag _ name attrs => startTagText o name attrs
  | .endTag _ name => endTagText name
  | .chars s => escape s
  | .space s => s
  | .comment d => commentText d
  | .doctype (some name) pub sys => doctypeFullText name pub sys
  | _ => []

/-- the tokens the standard's tokenizer emits for it: exact, one character token per character, with the
`nested-comment` parse error of a comment ending in `<!-` -/
def expected (o : Opts) : Tok → List TTok
  | .startTag _ name attrs => [.startTag name (attrs.map fun a => (a.name, a.value)) (voidElements.elem name && o.useTrailingSolidus)]
  | .emptyTag _ name attrs => [.startTag name (attrs.map fun a => (a.name, a.value)) (voidElements.elem name && o.useTrailingSolidus)]
  | .endTag _ name => [.endTag name [] false]
  | .chars s => chars1 s
  | .space s => chars1 s
  | .comment d => cerr (CPh.final .s d) ++ [.comment d]
  | .doctype (some name) pub sys => [.doctype (some name) pub sys true]
  | _ => []

/-- the token itself, in the tokenizer's token type -/
def toTTok (o : Opts) : Tok → TTok
  | .startTag _ name attrs => .startTag name (attrs.map fun a => (a.name, a.value)) (voidElements.elem name && o.useTrailingSolidus)
  | .emptyTag _ name attrs => .startTag name (attrs.map fun a => (a.name, a.value)) (voidElements.elem name && o.useTrailingSolidus)
  | .endTag _ name => .endTag name [] false
  | .chars s => .chars s
  | .space s => .space s
  | .comment d => .comment d
  | .doctype name pub sys => .doctype name pub sys true
  | .entity name => .chars ([38] ++ name ++ [59])
  | .serr msg => .parseError msg []

theorem rcdata_false_of_not_special {name : Str} (h : specialElements.elem name = false) :
    rcdataElements.elem name = false := by
  cases hr : rcdataElements.elem name with
  | false => rfl
  | true =>
    have h1 : name ∈ rcdataElements := by simpa using hr
    have h2 : specialElements.elem name = true := by simpa using rcdata_sub_special name h1
    rw [h] at h2; exact absurd h2 (by decide)

/-- **Model.** one token of the stream: the text is appended, no error is reported, the serializer stays outside
its "CDATA" mode -/
theorem step_ok (o : Opts) (t : Tok) (ht : tokOK o t = true) (s : St) (hc : s.inCdata = false) :
    ∃ s', H5.Model.Serializer.step o s t = .ok s' ∧ s'.out = s.out ++ tokText o t ∧ s'.errors = s.errors ∧
      s'.inCdata = false := by
  have tag : ∀ ns name attrs, (startTagOK o name attrs && (!specialElements.elem name || !htmlOrNone ns)) = true →
      ∃ s', H5.Model.Serializer.step o s (.startTag ns name attrs) = .ok s' ∧ s'.out = s.out ++ startTagText o name attrs ∧
        s'.errors = s.errors ∧ s'.inCdata = false := by
    intro ns name attrs h
    simp only [Bool.and_eq_true, Bool.or_eq_true, Bool.not_eq_true'] at h
    obtain ⟨s', h1, h2, h3, h4⟩ := step_startTag o s ns name attrs
    refine ⟨s', h1, h2, h3 hc, ?_⟩
    rw [h4, hc]
    rcases h.2 with h5 | h5
    · rw [rcdata_false_of_not_special h5]; rfl
    · rw [h5]; simp
  cases t with
  | startTag ns name attrs => exact tag ns name attrs ht
  | emptyTag ns name attrs => exact tag ns name attrs ht
  | endTag ns name =>
    obtain ⟨s', h1, h2, h3⟩ := step_endTag o s ns name
    exact ⟨s', h1, h2, (h3 hc).1, (h3 hc).2⟩
  | chars d =>
    exact ⟨s.emit (escape d), by simp [H5.Model.Serializer.step, hc], rfl, rfl, hc⟩
  | space d =>
    exact ⟨s.emit d, by simp [H5.Model.Serializer.step, hc], rfl, rfl, hc⟩
  | comment d =>
    obtain ⟨s', h1, h2, h3, h4⟩ := step_comment o s d
    have hdd : d.contains [45, 45] = false := by
      simp only [tokOK, commentOK, Bool.and_eq_true, Bool.not_eq_true'] at ht
      exact ht.1.1.2
    exact ⟨s', h1, h2, h4 hdd, h3.trans hc⟩
  | doctype name pub sys =>
    cases name with
    | none => simp [tokOK, doctypeOK] at ht
    | some name => exact ⟨_, step_doctype_full o s name pub sys ht, rfl, rfl, hc⟩
  | entity _ => simp [tokOK] at ht
  | serr _ => simp [tokOK] at ht

theorem foldlM_ok (o : Opts) : ∀ (ts : List Tok) (s : St), s.inCdata = false → (∀ t ∈ ts, tokOK o t = true) →
    ∃ s', ts.foldlM (H5.Model.Serializer.step o) s = .ok s' ∧ s'.out = s.out ++ ts.flatMap (tokText o) ∧
      s'.errors = s.errors ∧ s'.inCdata = false := by
  intro ts
  induction ts with
  | nil => intro s hc _; exact ⟨s, rfl, by simp, rfl, hc⟩
  | cons t ts ih =>
    intro s hc hall
    obtain ⟨s1, h1, h2, h3, h4⟩ := step_ok o t (hall t (by simp)) s hc
    obtain ⟨s2, g1, g2, g3, g4⟩ := ih s1 h4 (fun x hx => hall x (List.mem_cons_of_mem _ hx))
    refine ⟨s2, ?_, ?_, g3.trans h3, g4⟩
    · simp [List.foldlM, h1, g1, bind, Except.bind]
    · rw [g2, h2]; simp

/-- **Spec.** one token of the stream, as a walk from the data state to the data state -/
theorem reach_tok (o : Opts) (hqc : quoteCharOK o = true) (t : Tok) (ht : tokOK o t = true) (m : M)
    (hs : m.state = .data) (hd : m.done = false) (rest : Str) :
    ∃ m', ReachLe (3 * (tokText o t).length) m (tokText o t ++ rest) m' rest ∧ m'.state = .data ∧ m'.done = false ∧
      m'.out = (expected o t).reverse ++ m.out := by
  have tag : ∀ (ns : Option Str) name attrs, (startTagOK o name attrs && (!specialElements.elem name || !htmlOrNone ns)) = true →
      ∃ m', ReachLe (3 * (startTagText o name attrs).length) m (startTagText o name attrs ++ rest) m' rest ∧
        m'.state = .data ∧ m'.done = false ∧
        m'.out = [TTok.startTag name (attrs.map fun a => (a.name, a.value)) (voidElements.elem name && o.useTrailingSolidus)].reverse ++ m.out := by
    intro ns name attrs h
    simp only [Bool.and_eq_true] at h
    obtain ⟨m', r, e1, e2, _, e4⟩ := reach_start_tag o hqc name attrs h.1 m hs hd rest
    exact ⟨m', r, e1, e2, by rw [e4]; rfl⟩
  cases t with
  | startTag ns name attrs => exact tag ns name attrs ht
  | emptyTag ns name attrs => exact tag ns name attrs ht
  | endTag ns name =>
    obtain ⟨m', r, e1, e2, _, e4⟩ := reach_end_tag name ht m hs hd rest
    exact ⟨m', r, e1, e2, by rw [e4]; rfl⟩
  | chars d => exact reach_escape d (valueOK_ne0 ht) m hs hd rest
  | space d =>
    refine reach_raw d ?_ m hs hd rest
    intro c hc
    simp only [tokOK, List.all_eq_true] at ht
    have := ht c hc
    simp [isWhitespace] at this
    omega
  | comment d =>
    obtain ⟨m', r, e1, e2, _, e4⟩ := reach_comment d ht m hs hd rest
    refine ⟨m', r, e1, e2, ?_⟩
    rw [e4]; simp [expected, cerr_reverse]
  | doctype name pub sys =>
    cases name with
    | none => simp [tokOK, doctypeOK] at ht
    | some name =>
      obtain ⟨m', r, e1, e2, _, e4⟩ := reach_doctype_full name pub sys ht m hs hd rest
      exact ⟨m', r, e1, e2, by rw [e4]; rfl⟩
  | entity _ => simp [tokOK] at ht
  | serr _ => simp [tokOK] at ht

theorem reach_stream (o : Opts) (hqc : quoteCharOK o = true) : ∀ (ts : List Tok), (∀ t ∈ ts, tokOK o t = true) →
    ∀ (m : M), m.state = .data → m.done = false → ∀ (rest : Str),
    ∃ m', ReachLe (3 * (ts.flatMap (tokText o)).length) m (ts.flatMap (tokText o) ++ rest) m' rest ∧
      m'.state = .data ∧ m'.done = false ∧ m'.out = (ts.flatMap (expected o)).reverse ++ m.out := by
  intro ts
  induction ts with
  | nil => intro _ m hs hd rest; exact ⟨m, ReachLe.refl m rest, hs, hd, rfl⟩
  | cons t ts ih =>
    intro hall m hs hd rest
    obtain ⟨m1, r1, a1, a2, a3⟩ := reach_tok o hqc t (hall t (by simp)) m hs hd (ts.flatMap (tokText o) ++ rest)
    obtain ⟨m2, r2, b1, b2, b3⟩ := ih (fun x hx => hall x (List.mem_cons_of_mem _ hx)) m1 a1 a2 rest
    refine ⟨m2, ?_, b1, b2, ?_⟩
    · have r := r1.trans r2
      simp only [List.flatMap_cons, List.append_assoc] at r ⊢
      exact r.mono (by simp; omega)
    · rw [b3, a3]; simp

/-! ### `canon` does not see how text is split into character tokens -/

theorem mergeChars_congr (x : List TTok) {A B : List TTok} (h : mergeChars A = mergeChars B) :
    mergeChars (x ++ A) = mergeChars (x ++ B) := by
  induction x with
  | nil => exact h
  | cons t x ih =>
    cases t <;> simp only [List.cons_append, mergeChars, ih]

theorem mergeChars_chars1 (s : Str) (rest : List TTok) :
    mergeChars (chars1 s ++ rest) = mergeChars (if s = [] then rest else .chars s :: rest) := by
  induction s with
  | nil => rfl
  | cons c s ih =>
    cases s with
    | nil => rfl
    | cons c2 s2 =>
      have ih2 : mergeChars (chars1 (c2 :: s2) ++ rest) = mergeChars (.chars (c2 :: s2) :: rest) := by simpa using ih
      show mergeChars (TTok.chars [c] :: (chars1 (c2 :: s2) ++ rest)) = _
      simp only [mergeChars, ih2, reduceCtorEq, if_false]
      cases mergeChars rest with
      | nil => rfl
      | cons y ys => cases y <;> simp

theorem canon_tok (o : Opts) (t : Tok) (A : List TTok) :
    mergeChars ((expected o t).filterMap canonTok ++ A) = mergeChars ([toTTok o t].filterMap canonTok ++ A) ∨ tokOK o t = false := by
  have text : ∀ d : Str, mergeChars ((chars1 d).filterMap canonTok ++ A)
      = mergeChars ((if d.isEmpty then [] else [TTok.chars d]) ++ A) := by
    intro d
    rw [chars1, filterMap_canonTok_chars, ← chars1, mergeChars_chars1]
    cases d <;> simp
  cases t with
  | startTag ns name attrs => left; rfl
  | emptyTag ns name attrs => left; rfl
  | endTag ns name => left; rfl
  | chars d => left; simp only [expected, toTTok, text]; simp [List.filterMap, canonTok]; split <;> rfl
  | space d => left; simp only [expected, toTTok, text]; simp [List.filterMap, canonTok]; split <;> rfl
  | comment d =>
    left
    simp only [expected, toTTok, cerr]
    split <;> simp [List.filterMap, canonTok]
  | doctype name pub sys =>
    cases name with
    | none => right; rfl
    | some name => left; rfl
  | entity _ => right; rfl
  | serr _ => right; rfl

theorem canon_stream (o : Opts) : ∀ (ts : List Tok), (∀ t ∈ ts, tokOK o t = true) →
    canon (ts.flatMap (expected o)) = canon (ts.map (toTTok o)) := by
  intro ts
  induction ts with
  | nil => intro _; rfl
  | cons t ts ih =>
    intro hall
    have ih2 := ih (fun x hx => hall x (List.mem_cons_of_mem _ hx))
    unfold canon at ih2 ⊢
    simp only [List.flatMap_cons, List.filterMap_append, List.map_cons]
    rcases canon_tok o t ((ts.flatMap (expected o)).filterMap canonTok) with h | h
    · rw [h]
      have := mergeChars_congr ([toTTok o t].filterMap canonTok) ih2
      rw [this, ← List.filterMap_append]
      rfl
    · rw [hall t (by simp)] at h; exact absurd h (by decide)

/-- **C08c (5) — token stream round trip.**  For every stream of start tags (`startTagOK`; the element is not an HTML
(or namespace-less) RCDATA / RAWTEXT / script / plaintext element — a FOREIGN element of such a name is covered since
fix COMMIT_A), empty tags (same), end tags, text (no NUL/CR), whitespace tokens,
comments (`commentOK`) and DOCTYPEs (`doctypeOK`), and every setting of the options with `quote_char` ∈ {`"`, `'`}:
the serializer model produces its output without reporting any error; the standard's tokenizer, started in the data
state on that output, emits exactly `ts.flatMap expected` (each tag / comment / DOCTYPE token as given, each text as
one character token per character, and a `nested-comment` parse error before a comment whose data ends in `<!-`);
hence, modulo `canon` (parse errors dropped, adjacent character tokens merged), exactly the given stream. -/
theorem C08_stream_roundtrip (o : Opts) (ts : List Tok) (hqc : quoteCharOK o = true)
    (hok : ts.all (tokOK o) = true) :
    ∃ out, serialize o ts = .ok (out, []) ∧ out = ts.flatMap (tokText o) ∧
      Spec.tokenize .data none false out = .ok (ts.flatMap (expected o)) ∧
      (Spec.tokenize .data none false out).map canon = .ok (canon (ts.map (toTTok o))) := by
  have hall : ∀ t ∈ ts, tokOK o t = true := by simpa [List.all_eq_true] using hok
  obtain ⟨s', h1, h2, h3, _⟩ := foldlM_ok o ts {} rfl hall
  obtain ⟨m', r, a1, a2, a3⟩ := reach_stream o hqc ts hall (initial .data none false) rfl rfl []
  rw [List.append_nil] at r
  have ht : Spec.tokenize .data none false (ts.flatMap (tokText o)) = .ok (ts.flatMap (expected o)) := by
    rw [tokenize_of_reach r (Nat.le_refl _) a1 a2, a3]
    simp [initial]
  refine ⟨ts.flatMap (tokText o), ?_, rfl, ht, ?_⟩
  · simp only [serialize, h1, bind, Except.bind, pure, Except.pure]
    rw [h2, h3]; rfl
  · rw [ht]
    simp only [Except.map]
    rw [canon_stream o ts hall]

/-- **C08c (6) — text inside a FOREIGN element named like a raw-text element (since fix COMMIT_A).**  For an element in
a namespace other than HTML (SVG / MathML `style`, `script`, `title`, `xmp`, …) — whatever its name —, well-formed
attributes and any text without NUL/CR: the serializer ESCAPES the text (`escape`: no raw `<`), reports no error, and
the standard's tokenizer (which does not leave the data state for a foreign element) reads back the start tag, exactly
that text, and the end tag. -/
theorem C08_foreign_rawtext_roundtrip (o : Opts) (hqc : quoteCharOK o = true) (ns name : Str) (attrs : List Attr) (s : Str)
    (hns : htmlOrNone (some ns) = false) (hok : startTagOK o name attrs = true) (hs : valueOK s = true) :
    ∃ out, serialize o [.startTag (some ns) name attrs, .chars s, .endTag (some ns) name] = .ok (out, []) ∧
      out = startTagText o name attrs ++ escape s ++ endTagText name ∧ 60 ∉ escape s ∧
      (Spec.tokenize .data none false out).map canon = .ok (canon
        [.startTag name (attrs.map fun a => (a.name, a.value)) (voidElements.elem name && o.useTrailingSolidus),
         .chars s, .endTag name [] false]) := by
  have hname : tagNameOK name = true := by
    simp only [startTagOK, Bool.and_eq_true] at hok; exact hok.1.1
  obtain ⟨out, h1, h2, _, h4⟩ := C08_stream_roundtrip o [.startTag (some ns) name attrs, .chars s, .endTag (some ns) name] hqc
    (by simp [tokOK, hok, hns, hs, hname])
  exact ⟨out, h1, by simp [h2, tokText], (H5.Props.C08.C08_escape_no_angle s).1, h4⟩

/-! ### Non-vacuity, and necessity of the hypotheses -/

/-- `<!DOCTYPE html><p class=a&amp;b>x&lt;y &amp; z␤<br></p><!--c-->` (two adjacent text tokens and a whitespace token) -/
def exStream : List Tok :=
  [.doctype (some [104, 116, 109, 108]) none none,
   .startTag none [112] [⟨none, [99, 108, 97, 115, 115], [97, 38, 98]⟩],
   .chars [120, 60, 121], .chars [32, 38, 32, 122], .space [10],
   .emptyTag none [98, 114] [],
   .endTag none [112], .comment [99]]

example : quoteCharOK {} = true ∧ exStream.all (tokOK {}) = true := by decide
example : (serialize {} exStream).bind (fun r => (Spec.tokenize .data none false r.1).map canon)
    = .ok [.doctype (some [104, 116, 109, 108]) none none true,
           .startTag [112] [([99, 108, 97, 115, 115], [97, 38, 98])] false,
           .chars [120, 60, 121, 32, 38, 32, 122, 10],
           .startTag [98, 114] [] false, .endTag [112] [] false, .comment [99]] := by decide +kernel
example : canon (exStream.map (toTTok {}))
    = [.doctype (some [104, 116, 109, 108]) none none true,
       .startTag [112] [([99, 108, 97, 115, 115], [97, 38, 98])] false,
       .chars [120, 60, 121, 32, 38, 32, 122, 10],
       .startTag [98, 114] [] false, .endTag [112] [] false, .comment [99]] := by decide

-- "not a special element" is needed — `rcdataElements` (here `script`): the serializer writes the text unescaped,
-- `<script><b>` is read back as two start tags by a tokenizer that stays in the data state …
example : (serialize {} [.startTag none [115, 99, 114, 105, 112, 116] [], .chars [60, 98, 62]]).bind
    (fun r => (Spec.tokenize .data none false r.1).map canon)
    = .ok [.startTag [115, 99, 114, 105, 112, 116] [] false, .startTag [98] [] false] := by decide +kernel
-- … `plaintext`: the serializer escapes (`<plaintext>&lt;`), the reader — put in the PLAINTEXT state after the
-- tag, as tree construction does (H5.Spec.Retokenize) — does not unescape
example : (serialize {} [.startTag none [112, 108, 97, 105, 110, 116, 101, 120, 116] [], .chars [60]]).bind
    (fun r => (Spec.retokenize .data false [(some .PLAINTEXT, false)] r.1).map canon)
    = .ok [.startTag [112, 108, 97, 105, 110, 116, 101, 120, 116] [] false, .chars [38, 108, 116, 59]] := by
  decide +kernel
-- (`title` / `textarea` are excluded only because the theorem is stated for a tokenizer that stays in the data
-- state; escaped text is read back in the RCDATA state as well:)
example : (serialize {} [.startTag none [116, 105, 116, 108, 101] [], .chars [60]]).bind
    (fun r => (Spec.retokenize .data false [(some .RCDATA, false)] r.1).map canon)
    = .ok [.startTag [116, 105, 116, 108, 101] [] false, .chars [60]] := by decide +kernel
/- The theorem is about TOKENS.  The tree-construction rule "ignore a U+000A LINE FEED token that immediately follows
   a `pre` / `listing` / `textarea` start tag" is not visible here: `[StartTag pre, Characters "\nx"]` is written
   `<pre>\nx` and re-tokenises to exactly those tokens (covered by the theorem), but a PARSER drops the newline
   (real html5lib: `<pre>\nx</pre>` re-parses and re-serializes to `<pre>x</pre>`). -/

/-- the SVG namespace -/
def svgNs : Str := lit "http://www.w3.org/2000/svg"

-- a FOREIGN `style` (since fix COMMIT_A): its text is escaped — `<style>&lt;b&gt;</style>` — and read back as text;
-- the HTML `style` is still written raw (and excluded by `tokOK`)
example : htmlOrNone (some svgNs) = false ∧ htmlOrNone none = true ∧ htmlOrNone (some (lit "http://www.w3.org/1999/xhtml")) = true ∧
    serialize {} [.startTag (some svgNs) (lit "style") [], .chars (lit "<b>"), .endTag (some svgNs) (lit "style")]
      = .ok (lit "<style>&lt;b&gt;</style>", []) ∧
    serialize {} [.startTag (some (lit "http://www.w3.org/1999/xhtml")) (lit "style") [], .chars (lit "<b>"),
        .endTag (some (lit "http://www.w3.org/1999/xhtml")) (lit "style")]
      = .ok (lit "<style><b></style>", []) := by decide
example : (serialize {} [.startTag (some svgNs) (lit "style") [], .chars (lit "<b>"), .endTag (some svgNs) (lit "style")]).bind
    (fun r => (Spec.tokenize .data none false r.1).map canon)
    = .ok [.startTag (lit "style") [] false, .chars (lit "<b>"), .endTag (lit "style") [] false] := by decide +kernel

end H5.Props.C08c
