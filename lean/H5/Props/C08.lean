/-
  Property C08 — serializer output is lexically faithful or an error is reported (model side).
  Model: H5.Model.Serializer (hand model of HTMLSerializer.serialize, tied by op `ser`).
  Proved here: the escaping lemmas every lexical-faithfulness argument rests on.  The re-tokenisation theorem
  against H5.Spec.Tokenizer is not proved yet; that clause is decided by search (retok oracle) on the real code.
-/
import H5.Model.Serializer
namespace H5.Props.C08
open H5 H5.Gen H5.Model.Serializer

theorem mem_replaceChar (s : Str) (o : Nat) (n : Str) (c : Nat) :
    c ∈ s.replaceChar o n ↔ (c ∈ s ∧ c ≠ o) ∨ (o ∈ s ∧ c ∈ n) := by
  induction s with
  | nil => simp [Str.replaceChar]
  | cons x xs ih =>
    have e : Str.replaceChar (x :: xs) o n = (if x = o then n else [x]) ++ Str.replaceChar xs o n := by
      simp [Str.replaceChar]
    rw [e, List.mem_append, ih]
    by_cases hx : x = o <;> by_cases hc : c = o <;> by_cases hn : c ∈ n <;> by_cases hxs : c ∈ xs <;>
      by_cases hos : o ∈ xs <;> simp_all <;> first | (intro h; exact hx h.symm) | omega

/-- **C08 (text cannot open a tag).** escaped text contains neither `<` nor `>`. -/
theorem C08_escape_no_angle (s : Str) : 60 ∉ escape s ∧ 62 ∉ escape s := by
  unfold escape
  constructor
  · intro h
    rw [mem_replaceChar] at h
    rcases h with ⟨_, h⟩ | ⟨_, h⟩
    · exact h rfl
    · revert h; decide
  · intro h
    rw [mem_replaceChar] at h
    rcases h with ⟨h, _⟩ | ⟨_, h⟩
    · rw [mem_replaceChar] at h
      rcases h with ⟨_, h⟩ | ⟨_, h⟩
      · exact h rfl
      · revert h; decide
    · revert h; decide

/-- non-special characters pass through escaping unchanged (membership view) -/
theorem C08_escape_keeps (s : Str) (c : Nat) (h1 : c ≠ 38) (h2 : c ≠ 60) (h3 : c ≠ 62)
    (hc : c ∈ s) : c ∈ escape s := by
  unfold escape
  rw [mem_replaceChar]; left
  refine ⟨?_, h2⟩
  rw [mem_replaceChar]; left
  refine ⟨?_, h3⟩
  rw [mem_replaceChar]; left
  exact ⟨hc, h1⟩

/-- a quoted attribute value never contains its own quote character -/
theorem C08_quoted_value (v : Str) :
    39 ∉ v.replaceChar 39 (lit "&#39;") ∧ 34 ∉ v.replaceChar 34 (lit "&quot;") := by
  constructor
  · intro h
    rw [mem_replaceChar] at h
    rcases h with ⟨_, h⟩ | ⟨_, h⟩
    · exact h rfl
    · revert h; decide
  · intro h
    rw [mem_replaceChar] at h
    rcases h with ⟨_, h⟩ | ⟨_, h⟩
    · exact h rfl
    · revert h; decide

/-- an unquoted value is only written when no character of the (extracted) quoting class occurs in it -/
theorem C08_unquoted_safe (o : Opts) (tag : Str) (a : Attr) (h : (attrOut o tag a).2 = true) :
    (o.quoteAttrValues = .spec → ∀ c ∈ a.value, inRanges quoteAttributeSpec c = false) ∧
    (o.quoteAttrValues = .legacy → ∀ c ∈ a.value, inRanges quoteAttributeLegacy c = false) ∧
    o.quoteAttrValues ≠ .always ∧ a.value ≠ [] := by
  unfold attrOut at h
  simp only [] at h
  by_cases hm : (!o.minimizeBooleanAttributes || (!(booleanFor tag).elem a.name && !(booleanFor []).elem a.name)) = true
  · simp only [hm, if_true] at h
    by_cases hq : (o.quoteAttrValues = .always || a.value.isEmpty) = true
    · simp [hq] at h
    · simp only [hq] at h
      simp only [Bool.or_eq_true, decide_eq_true_eq, not_or] at hq
      by_cases hs : o.quoteAttrValues = .spec
      · simp only [hs, if_true] at h
        by_cases hany : a.value.any (inRanges quoteAttributeSpec) = true
        · simp [hany] at h
        · refine ⟨?_, ?_, hq.1, by simpa using hq.2⟩
          · intro _ c hc
            cases hcc : inRanges quoteAttributeSpec c with
            | false => rfl
            | true => exact absurd (List.any_eq_true.mpr ⟨c, hc, hcc⟩) hany
          · intro hl; rw [hs] at hl; exact absurd hl (by decide)
      · simp only [hs, if_false] at h
        by_cases hany : a.value.any (inRanges quoteAttributeLegacy) = true
        · simp [hany] at h
        · refine ⟨fun h' => absurd h' hs, ?_, hq.1, by simpa using hq.2⟩
          intro _ c hc
          cases hcc : inRanges quoteAttributeLegacy c with
          | false => rfl
          | true => exact absurd (List.any_eq_true.mpr ⟨c, hc, hcc⟩) hany
  · simp only [hm] at h
    simp at h

/-- TableOK: both quoting classes contain the characters that end an unquoted value or are errors in it
(whitespace, quotes, `=`, `<`, `>`, backtick); the legacy class is a superset of the spec class. -/
theorem C08_quote_classes :
    (∀ c ∈ [9, 10, 12, 13, 32, 34, 39, 60, 61, 62, 96], inRanges quoteAttributeSpec c = true) ∧
    (∀ r ∈ quoteAttributeSpec, inRanges quoteAttributeLegacy r.1 = true ∧ inRanges quoteAttributeLegacy r.2 = true) := by
  decide +kernel

/-- a comment containing `--` is reported -/
theorem C08_comment_reported (o : Opts) (s : St) (d : Str) (h : d.contains (lit "--") = true) :
    ∃ s', step o s (.comment d) = .ok s' ∧ s'.errors ≠ [] := by
  simp [step, h, St.emit, St.err]

/-- raw text containing `</` is reported -/
theorem C08_rawtext_reported (o : Opts) (s : St) (d : Str) (hc : s.inCdata = true) (h : d.contains (lit "</") = true) :
    ∃ s', step o s (.chars d) = .ok s' ∧ s'.errors ≠ [] := by
  simp [step, hc, h, St.emit, St.err]

end H5.Props.C08
