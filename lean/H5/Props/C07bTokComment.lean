/-
  Property C07b (tokenizer side), stage 2 — comments.

  html5lib's comment states are those of an older draft of the standard: in `commentEndState` (after `--`) a third
  `-` is reported ("unexpected-dash-after-double-dash-in-comment"), whereas the current standard appends it silently.
  Hence a comment whose data ends in `-` (written `<!--…--->`) comes back as the right token but preceded by a parse
  error: `commentOKm` = C08c's `commentOK` + "does not end in `-`".
-/
import H5.Props.C07bTokText
import H5.Props.C07bGrammar
set_option linter.unusedSimpArgs false
namespace H5.Props.C07b
open H5 H5.Gen H5.Model H5.Model.Tokenizer
open H5.Model.Serializer (escape Opts attrOut)
open H5.Props.C08c


/-- no NUL, no two adjacent dashes, the last character is not a dash -/
def cbody : Str → Bool
  | [] => true
  | [c] => c != 0 && c != 45
  | c :: c2 :: r => c != 0 && !(c == 45 && c2 == 45) && cbody (c2 :: r)

theorem cbody_tail {c : Nat} {r : Str} (h : cbody (c :: r) = true) : c ≠ 0 ∧ cbody r = true := by
  cases r with
  | nil => simp [cbody] at h ⊢; exact h.1
  | cons c2 r => simp [cbody] at h ⊢; exact ⟨h.1.1, h.2⟩

theorem cbody_dropWhile (p : Nat → Bool) : ∀ (d : Str), cbody d = true → cbody (d.dropWhile p) = true
  | [], h => h
  | c :: r, h => by
    rw [List.dropWhile_cons]
    split
    · exact cbody_dropWhile p r (cbody_tail h).2
    · exact h

theorem cbody_of_ok : ∀ (d : Str), (∀ c ∈ d, c ≠ 0) → Str.isInfix [45, 45] d = false → d.getLast? ≠ some 45 →
    cbody d = true
  | [], _, _, _ => rfl
  | [c], h0, _, hl => by
    have := h0 c (by simp)
    simp at hl
    simp [cbody, this, hl]
  | c :: c2 :: r, h0, hi, hl => by
    have ih := cbody_of_ok (c2 :: r) (fun x hx => h0 x (List.mem_cons_of_mem _ hx))
      (by
        rw [Str.isInfix] at hi
        simp only [Bool.or_eq_false_iff] at hi
        exact hi.2)
      (by rwa [List.getLast?_cons_cons] at hl)
    have hc := h0 c (by simp)
    rw [Str.isInfix] at hi
    simp only [Bool.or_eq_false_iff] at hi
    have hp : ¬ (c = 45 ∧ c2 = 45) := by
      intro ⟨a, b⟩
      subst a b
      simp [List.isPrefixOf] at hi
    simp only [cbody, ih, Bool.and_true, Bool.and_eq_true, bne_iff_ne, ne_eq, Bool.not_eq_true', Bool.and_eq_false_iff,
      beq_eq_false_iff_ne]
    exact ⟨hc, by omega⟩

theorem commentOKm_spec {d : Str} (h : commentOKm d = true) :
    cbody d = true ∧ d.head? ≠ some 62 ∧ ¬ (∃ r, d = 45 :: 62 :: r) := by
  simp only [commentOKm, commentOK, Bool.and_eq_true, Bool.not_eq_true', List.all_eq_true, Str.contains,
    Str.startsWith] at h
  obtain ⟨⟨⟨⟨h0, hi⟩, hs1⟩, hs2⟩, hl⟩ := h
  refine ⟨cbody_of_ok d ?_ hi ?_, ?_, ?_⟩
  · intro c hc
    have := h0 c hc
    simp at this
    exact this.1
  · simpa using hl
  · intro e
    cases d with
    | nil => simp at e
    | cons x r => simp at e; subst e; simp [List.isPrefixOf] at hs1
  · rintro ⟨r, rfl⟩
    simp [List.isPrefixOf] at hs2

/-! ### The comment states -/

/-- a state of the tokenizer inside a comment -/
def cst (S : State) (acc i : Str) (tb : Option Str) (cd : Bool) : St := ⟨S, i, some (.comment acc), tb, [], cd⟩

theorem span_append_stop (p : Nat → Bool) (rest : Str) (hrest : ∃ x t, rest = x :: t ∧ p x = false) :
    ∀ (v : Str), (v ++ rest).span p = (v.takeWhile p, v.dropWhile p ++ rest) := by
  intro v
  rw [span_eq]
  obtain ⟨x, t, rfl, hx⟩ := hrest
  induction v with
  | nil => simp [List.takeWhile_cons, List.dropWhile_cons, hx]
  | cons c v ih =>
    have := Prod.mk.inj ih
    cases hc : p c <;> simp [List.takeWhile_cons, List.dropWhile_cons, hc, this.1, this.2]

theorem step_comment_plain (c : Nat) (h : c ≠ 45 ∧ c ≠ 0) (acc i : Str) (tb : Option Str) (cd : Bool) :
    step (cst .commentState acc (c :: i) tb cd)
      = .ok (true, cst .commentState (acc ++ c :: (i.span fun x => ![45, 0].contains x).1)
          (i.span fun x => ![45, 0].contains x).2 tb cd) := by
  tok_simp [cst, commentState, h, CurTok.addData]

theorem step_comment_dash (acc i : Str) (tb : Option Str) (cd : Bool) :
    step (cst .commentState acc (45 :: i) tb cd) = .ok (true, cst .commentEndDashState acc i tb cd) := rfl

theorem step_commentEndDash_char (c : Nat) (h : c ≠ 45 ∧ c ≠ 0) (acc i : Str) (tb : Option Str) (cd : Bool) :
    step (cst .commentEndDashState acc (c :: i) tb cd) = .ok (true, cst .commentState (acc ++ [45, c]) i tb cd) := by
  tok_simp [cst, commentEndDashState, h, CurTok.addData]

/-- the comment state over the data: everything is appended, the state is the comment state again -/
theorem steps_comment_body (rest : Str) (tb : Option Str) (cd : Bool) : ∀ (k : Nat) (d : Str), d.length ≤ k →
    cbody d = true → ∀ (acc : Str),
    StepsLe d.length (cst .commentState acc (d ++ 45 :: rest) tb cd) (cst .commentState (acc ++ d) (45 :: rest) tb cd) := by
  intro k
  induction k with
  | zero =>
    intro d hk _ acc
    have : d = [] := List.eq_nil_of_length_eq_zero (by omega)
    subst this
    simpa using StepsLe.refl _
  | succ k ih =>
    intro d hk hb acc
    cases d with
    | nil => simpa using StepsLe.refl _
    | cons c d' =>
      by_cases hc : c = 45
      · subst hc
        cases d' with
        | nil => simp [cbody] at hb
        | cons c2 r =>
          have hb2 := (cbody_tail hb).2
          have h2 : c2 ≠ 45 ∧ c2 ≠ 0 := by
            have := (cbody_tail hb2).1
            simp [cbody] at hb
            exact ⟨hb.1, this⟩
          have s1 := StepsLe.single rfl (step_comment_dash acc (c2 :: (r ++ 45 :: rest)) tb cd)
          have s2 := StepsLe.single rfl (step_commentEndDash_char c2 h2 acc (r ++ 45 :: rest) tb cd)
          have s3 := ih r (by simp at hk; omega) (cbody_tail hb2).2 (acc ++ [45, c2])
          have := (s1.trans s2).trans s3
          simp only [List.cons_append, List.append_assoc, List.nil_append] at this ⊢
          exact this.mono (by simp; omega)
      · have h0 := (cbody_tail hb).1
        have s1 := step_comment_plain c ⟨hc, h0⟩ acc (d' ++ 45 :: rest) tb cd
        rw [span_append_stop _ (45 :: rest) ⟨45, rest, rfl, by decide⟩] at s1
        have hlen : (d'.dropWhile fun x => ![45, 0].contains x).length ≤ d'.length := (List.dropWhile_suffix _).length_le
        have s2 := ih (d'.dropWhile fun x => ![45, 0].contains x) (by simp at hk; omega)
          (cbody_dropWhile _ d' (cbody_tail hb).2) (acc ++ c :: d'.takeWhile fun x => ![45, 0].contains x)
        have := (StepsLe.single rfl s1).trans s2
        simp only [List.cons_append, List.append_assoc, List.takeWhile_append_dropWhile] at this ⊢
        exact this.mono (by simp only [List.length_cons]; omega)

/-- `-->` in the comment state -/
theorem run_comment_end (acc rest : Str) (tb : Option Str) (cd : Bool) :
    run 3 (cst .commentState acc (45 :: 45 :: 62 :: rest) tb cd)
      = some ⟨.dataState, rest, some (.comment acc), tb, [.comment acc], cd⟩ := rfl

/-- `<!--` in the data state -/
theorem run_comment_open (i : Str) (cur : Option CurTok) (tb : Option Str) (cd : Bool) :
    run 3 ⟨.dataState, 60 :: 33 :: 45 :: 45 :: i, cur, tb, [], cd⟩ = some (cst .commentStartState [] i tb cd) := rfl

/-- `<!---->` -/
theorem run_comment_empty (rest : Str) (tb : Option Str) (cd : Bool) :
    run 3 (cst .commentStartState [] (45 :: 45 :: 62 :: rest) tb cd)
      = some ⟨.dataState, rest, some (.comment []), tb, [.comment []], cd⟩ := rfl

theorem step_commentStart_char (c : Nat) (h : c ≠ 45 ∧ c ≠ 0 ∧ c ≠ 62) (i : Str) (tb : Option Str) (cd : Bool) :
    step (cst .commentStartState [] (c :: i) tb cd) = .ok (true, cst .commentState [c] i tb cd) := by
  tok_simp [cst, commentStartState, h, CurTok.addData]

theorem step_commentStart_dash (i : Str) (tb : Option Str) (cd : Bool) :
    step (cst .commentStartState [] (45 :: i) tb cd) = .ok (true, cst .commentStartDashState [] i tb cd) := rfl

theorem step_commentStartDash_char (c : Nat) (h : c ≠ 45 ∧ c ≠ 0 ∧ c ≠ 62) (i : Str) (tb : Option Str) (cd : Bool) :
    step (cst .commentStartDashState [] (c :: i) tb cd) = .ok (true, cst .commentState [45, c] i tb cd) := by
  tok_simp [cst, commentStartDashState, h, CurTok.addData]

/-- the whole comment from the comment start state -/
theorem steps_comment (d rest : Str) (hok : commentOKm d = true) (tb : Option Str) (cd : Bool) :
    StepsLe (d.length + 3) (cst .commentStartState [] (d ++ 45 :: 45 :: 62 :: rest) tb cd)
      ⟨.dataState, rest, some (.comment d), tb, [.comment d], cd⟩ := by
  obtain ⟨hb, h1, h2⟩ := commentOKm_spec hok
  have fin : ∀ acc, StepsLe 3 (cst .commentState acc (45 :: 45 :: 62 :: rest) tb cd)
      ⟨.dataState, rest, some (.comment acc), tb, [.comment acc], cd⟩ :=
    fun acc => stepsLe_of_run (run_comment_end acc rest tb cd)
  cases d with
  | nil => exact (stepsLe_of_run (run_comment_empty rest tb cd)).mono (by simp)
  | cons c d' =>
    have hc0 := (cbody_tail hb).1
    have hc62 : c ≠ 62 := by simpa using h1
    by_cases hc : c = 45
    · subst hc
      cases d' with
      | nil => simp [cbody] at hb
      | cons c2 r =>
        have hb2 := (cbody_tail hb).2
        have hc2 : c2 ≠ 45 ∧ c2 ≠ 0 ∧ c2 ≠ 62 := by
          have := (cbody_tail hb2).1
          simp [cbody] at hb
          refine ⟨hb.1, this, ?_⟩
          intro e
          subst e
          exact h2 ⟨r, rfl⟩
        have s1 := StepsLe.single rfl (step_commentStart_dash (c2 :: (r ++ 45 :: 45 :: 62 :: rest)) tb cd)
        have s2 := StepsLe.single rfl (step_commentStartDash_char c2 hc2 (r ++ 45 :: 45 :: 62 :: rest) tb cd)
        have s3 := steps_comment_body (45 :: 62 :: rest) tb cd r.length r (Nat.le_refl _) (cbody_tail hb2).2 [45, c2]
        have := ((s1.trans s2).trans s3).trans (fin _)
        simp only [List.cons_append, List.append_assoc, List.nil_append] at this ⊢
        exact this.mono (by simp; omega)
    · have s1 := StepsLe.single rfl (step_commentStart_char c ⟨hc, hc0, hc62⟩ (d' ++ 45 :: 45 :: 62 :: rest) tb cd)
      have s2 := steps_comment_body (45 :: 62 :: rest) tb cd d'.length d' (Nat.le_refl _) (cbody_tail hb).2 [c]
      have := (s1.trans s2).trans (fin _)
      simp only [List.cons_append, List.append_assoc, List.nil_append] at this ⊢
      exact this.mono (by simp; omega)

theorem next_comment (ts : St) (d rest : Str) (hok : commentOKm d = true) (h : DataAt ts (commentText d ++ rest)) :
    ∃ ts', next ts = .ok (some (.comment d, ts')) ∧ DataAt ts' rest := by
  rw [h.eq]
  have e : commentText d ++ rest = 60 :: 33 :: 45 :: 45 :: (d ++ 45 :: 45 :: 62 :: rest) := by simp [commentText]
  rw [e]
  have s1 := stepsLe_of_run (run_comment_open (d ++ 45 :: 45 :: 62 :: rest) ts.currentToken ts.temporaryBuffer ts.cdataAllowed)
  have r := s1.trans (steps_comment d rest hok ts.temporaryBuffer ts.cdataAllowed)
  exact ⟨_, next_of_steps r rfl (by len_tac), rfl, rfl, rfl⟩

end H5.Props.C07b
