/-
  C03d — the reprocess loop for the "other" start tags: start tags whose name is not a key of any start tag dispatch
  table and not a breakout element of `InForeignContentPhase` (`otherS`).  Such a tag reaches the default handler
  (`startTagOther`) of every phase; the rank `psi` of the phase register decreases whenever the token is handed back.
-/
import H5.Props.C03dRound
set_option linter.unusedSimpArgs false
set_option linter.unusedVariables false
namespace H5.Props.C03d
open H5 H5.Model H5.Model.TB H5.Model.Dom
open H5.Props.C02c (NF Post Post_bind Post_mono Post_pure Post_ok Post_error Post_throw Post_ite
  NF_typeError NF_keyError NF_indexError NF_assertFail NF_valueError NF_lookupError)
open H5.Props.C03b H5.Props.C03c

/-- the names with a start tag handler of their own in some phase, and the breakout elements of foreign content -/
def keysS : List Str :=
  (Gen.startTagHandlers.flatMap (fun c => c.2.1.map (·.1))) ++ Gen.Lit.breakoutElements ++ [lit "font"]

/-- a start tag that every phase hands to its default handler -/
def otherS : Token → Bool
  | .startTag d => !keysS.contains d.name
  | _ => false

theorem otherS_name {tok : Token} (h : otherS tok = true) : keysS.contains (tokName tok) = false := by
  cases tok <;> first | (simpa [otherS, tokName] using h) | cases h

/-! ### the default handlers that hand the token back -/

theorem K_Initial_processStartTag (tok : Token) (st : PState) :
    Tr (Initial_processStartTag tok) st (fun _ st' => st'.phase = some .beforeHtml) := by
  unfold Initial_processStartTag Initial_anythingElse setPhase
  refine Tr_fr_skip _ _ _ _ ?_
  intro _ st0 _
  refine Tr_fr_skip _ _ _ _ ?_
  intro _ st1 _
  simp only [Tr_bind, Tr_modify, Tr_pure]

theorem K_BeforeHtml_processStartTag (tok : Token) (st : PState) :
    Tr (BeforeHtml_processStartTag tok) st (fun _ st' => st'.phase = some .beforeHead) := by
  unfold BeforeHtml_processStartTag BeforeHtml_insertHtmlElement setPhase
  simp only [bind_assoc]
  refine Tr_fr_skip _ _ _ _ ?_
  intro d st0 _
  split <;> simp only [Tr_bind, Tr_modify, Tr_pure] <;>
    exact Tr_mono ((inferInstance : Fr (insertRoot _)).out _) (fun _ _ _ => trivial)

theorem K_BeforeHead_startTagOther (tok : Token) (st : PState) :
    Tr (BeforeHead_startTagOther tok) st (fun _ st' => st'.phase = some .inHead) := by
  unfold BeforeHead_startTagOther BeforeHead_startTagHead setPhase
  simp only [bind_assoc]
  refine Tr_fr_skip _ _ _ _ ?_
  intro _ st1 _
  refine Tr_fr_skip _ _ _ _ ?_
  intro _ st2 _
  simp only [Tr_bind, Tr_modify, Tr_pure]

theorem K_InHead_startTagOther (tok : Token) (st : PState) :
    Tr (InHead_startTagOther tok) st (fun _ st' => st'.phase = some .afterHead) := by
  unfold InHead_startTagOther InHead_anythingElse InHead_endTagHead setPhase
  simp only [bind_assoc]
  refine Tr_fr_skip _ _ _ _ ?_
  intro _ st1 _
  refine Tr_fr_skip _ _ _ _ ?_
  intro _ st2 _
  simp only [Tr_bind, C03c.Tr_pyAssert, Tr_modify, Tr_pure]
  intro _; trivial

theorem K_InHeadNoscript_startTagOther (tok : Token) (st : PState) :
    Tr (InHeadNoscript_startTagOther tok) st (fun _ st' => st'.phase = some .inHead) := by
  unfold InHeadNoscript_startTagOther InHeadNoscript_anythingElse InHeadNoscript_endTagNoscript setPhase
  simp only [bind_assoc]
  refine Tr_fr_skip _ _ _ _ ?_
  intro _ stt _
  refine Tr_fr_skip _ _ _ _ ?_
  intro _ st0 _
  refine Tr_fr_skip _ _ _ _ ?_
  intro _ st1 _
  refine Tr_fr_skip _ _ _ _ ?_
  intro _ st2 _
  simp only [Tr_bind, C03c.Tr_pyAssert, Tr_modify, Tr_pure]
  intro _; trivial

theorem K_AfterHead_startTagOther (tok : Token) (st : PState) :
    Tr (AfterHead_startTagOther tok) st (fun _ st' => st'.phase = some .inBody) := by
  unfold AfterHead_startTagOther AfterHead_anythingElse setPhase setFramesetOK
  simp only [bind_assoc]
  refine Tr_fr_skip _ _ _ _ ?_
  intro _ st1 _
  simp only [Tr_bind, Tr_modify, Tr_pure]

theorem K_AfterBody_startTagOther (tok : Token) (st : PState) :
    Tr (AfterBody_startTagOther tok) st (fun _ st' => st'.phase = some .inBody) := by
  unfold AfterBody_startTagOther setPhase
  refine Tr_fr_skip _ _ _ _ ?_
  intro _ st0 _
  refine Tr_fr_skip _ _ _ _ ?_
  intro _ st1 _
  simp only [Tr_bind, Tr_modify, Tr_pure]

theorem K_AfterAfterBody_startTagOther (tok : Token) (st : PState) :
    Tr (AfterAfterBody_startTagOther tok) st (fun _ st' => st'.phase = some .inBody) := by
  unfold AfterAfterBody_startTagOther setPhase
  refine Tr_fr_skip _ _ _ _ ?_
  intro _ st0 _
  refine Tr_fr_skip _ _ _ _ ?_
  intro _ st1 _
  simp only [Tr_bind, Tr_modify, Tr_pure]

theorem K_InColumnGroup_startTagOther (tok : Token) (st : PState) :
    Tr (InColumnGroup_startTagOther tok) st (fun a st' => a ≠ none → st'.phase = some .inTable) := by
  have := K_InColumnGroup_processCharacters tok st
  unfold InColumnGroup_processCharacters at this
  unfold InColumnGroup_startTagOther
  exact this

theorem K_InTableText_processStartTag {r : Rec} {n : Nat} (hr : RecInv r n) (hn : 0 < n) (tok : Token) (st : PState)
    (hi : C03c.Inv st) (hp : st.phase = some .inTableText) :
    Tr (InTableText_processStartTag r tok) st (fun _ st' => psi st'.phase ≤ 8) := by
  have := K_InTableText_processComment hr hn tok st hi hp
  unfold InTableText_processComment at this
  unfold InTableText_processStartTag
  exact this

/-! ### the handlers that never hand an "other" start tag back -/

/-- the nested `processStartTag` dispatches that never hand an "other" start tag back -/
class RecRNS (r : Rec) : Prop where
  S : ∀ ph tok, ph ∈ [Phase.inBody, .inTable, .inSelect] → otherS tok = true → RN (r.processStartTag ph tok)

theorem RN_InForeignContent_processStartTag_other (tok : Token) (ho : otherS tok = true) :
    RN (InForeignContent_processStartTag tok) := by
  have hk := otherS_name ho
  unfold InForeignContent_processStartTag
  dsimp only
  refine RN_bind _ _ ?_
  intro cur
  refine RN_liftE_bind _ _ ?_
  intro d hd
  have hn : d.name = tokName tok := tag_name hd
  have hb : Gen.Lit.breakoutElements.contains d.name = false := by
    rw [hn]
    cases hc : Gen.Lit.breakoutElements.contains (tokName tok) with
    | false => rfl
    | true =>
      have : keysS.contains (tokName tok) = true := by
        unfold keysS
        simp only [List.contains_eq_mem, List.mem_append, decide_eq_true_eq] at hc ⊢
        exact Or.inl (Or.inr hc)
      rw [this] at hk; cases hk
  have hf : (d.name == lit "font") = false := by
    rw [hn]
    cases hc : (tokName tok == lit "font") with
    | false => rfl
    | true =>
      have he : tokName tok = lit "font" := by simpa using hc
      have : keysS.contains (tokName tok) = true := by
        unfold keysS
        simp only [List.contains_eq_mem, List.mem_append, decide_eq_true_eq]
        exact Or.inr (by rw [he]; simp)
      rw [this] at hk; cases hk
  rw [if_neg (by rw [hb, hf]; simp)]
  rn_auto

/-- the default start tag handlers -/
def dfltS : List String :=
  ["BeforeHeadPhase.startTagOther", "InHeadPhase.startTagOther", "InHeadNoscriptPhase.startTagOther",
   "AfterHeadPhase.startTagOther", "InBodyPhase.startTagOther", "TextPhase.startTagOther", "InTablePhase.startTagOther",
   "InCaptionPhase.startTagOther", "InColumnGroupPhase.startTagOther", "InTableBodyPhase.startTagOther",
   "InRowPhase.startTagOther", "InCellPhase.startTagOther", "InSelectPhase.startTagOther",
   "InSelectInTablePhase.startTagOther", "AfterBodyPhase.startTagOther", "InFramesetPhase.startTagOther",
   "AfterFramesetPhase.startTagOther", "AfterAfterBodyPhase.startTagOther", "AfterAfterFramesetPhase.startTagOther"]

/-- the `processStartTag` methods of the phases without a dispatch table -/
def plainS : List String :=
  ["InitialPhase.processStartTag", "BeforeHtmlPhase.processStartTag", "InTableTextPhase.processStartTag",
   "InForeignContentPhase.processStartTag"]

def retBoundS (q : String) : Option Nat :=
  if q = "InitialPhase.processStartTag" then some 7
  else if q = "BeforeHtmlPhase.processStartTag" then some 6
  else if q = "BeforeHeadPhase.startTagOther" then some 4
  else if q = "InHeadPhase.startTagOther" then some 3
  else if q = "InHeadNoscriptPhase.startTagOther" then some 4
  else if q = "AfterHeadPhase.startTagOther" then some 0
  else if q = "InColumnGroupPhase.startTagOther" then some 0
  else if q = "AfterBodyPhase.startTagOther" then some 0
  else if q = "AfterAfterBodyPhase.startTagOther" then some 0
  else if q = "InTableTextPhase.processStartTag" then some 8
  else none

set_option hygiene false in
macro "rks_close" : tactic => `(tactic| first
  | exact RetLe_none _ _ _
  | exact RetLe_some (k := 7) (Tr_mono (K_Initial_processStartTag _ _) (fun _ _ h _ => le_of_phase h (by decide))) (by decide)
  | exact RetLe_some (k := 6) (Tr_mono (K_BeforeHtml_processStartTag _ _) (fun _ _ h _ => le_of_phase h (by decide))) (by decide)
  | exact RetLe_some (k := 4) (Tr_mono (K_BeforeHead_startTagOther _ _) (fun _ _ h _ => le_of_phase h (by decide))) (by decide)
  | exact RetLe_some (k := 3) (Tr_mono (K_InHead_startTagOther _ _) (fun _ _ h _ => le_of_phase h (by decide))) (by decide)
  | exact RetLe_some (k := 4) (Tr_mono (K_InHeadNoscript_startTagOther _ _) (fun _ _ h _ => le_of_phase h (by decide))) (by decide)
  | exact RetLe_some (k := 0) (Tr_mono (K_AfterHead_startTagOther _ _) (fun _ _ h _ => le_of_phase h (by decide))) (by decide)
  | exact RetLe_some (k := 0) (Tr_mono (K_AfterBody_startTagOther _ _) (fun _ _ h _ => le_of_phase h (by decide))) (by decide)
  | exact RetLe_some (k := 0) (Tr_mono (K_AfterAfterBody_startTagOther _ _) (fun _ _ h _ => le_of_phase h (by decide))) (by decide)
  | exact RetLe_some (k := 0) (Tr_mono (K_InColumnGroup_startTagOther _ _) (fun _ _ h ha => le_of_phase (h ha) (by decide))) (by decide)
  | exact RetLe_some (k := 8) (Tr_mono (K_InTableText_processStartTag hr hn _ _ hi (hreg rfl)) (fun _ _ h _ => h)) (by decide)
  | exact absurd hq (by decide))

set_option maxHeartbeats 8000000 in
theorem tagS_rank {r : Rec} [hrn : RecRN r] [hrs : RecRNS r] (q : String) (hq : q ∈ dfltS) (tok : Token)
    (ho : otherS tok = true) (st : PState) : RetLe (runTagHandler r q tok) st (retBoundS q) := by
  haveI h1 : RN (InCaption_startTagOther r tok) := by
    unfold InCaption_startTagOther; exact RecRNS.S _ _ (by simp) ho
  haveI h2 : RN (InCell_startTagOther r tok) := by
    unfold InCell_startTagOther; exact RecRNS.S _ _ (by simp) ho
  haveI h3 : RN (InRow_startTagOther r tok) := by
    unfold InRow_startTagOther; exact RecRNS.S _ _ (by simp) ho
  haveI h4 : RN (InTableBody_startTagOther r tok) := by
    unfold InTableBody_startTagOther; exact RecRNS.S _ _ (by simp) ho
  haveI h5 : RN (InSelectInTable_startTagOther r tok) := by
    unfold InSelectInTable_startTagOther; exact RecRNS.S _ _ (by simp) ho
  have hr : True := trivial
  have hn : True := trivial
  have hi : True := trivial
  have hreg : q = "InTableTextPhase.processStartTag" → True := fun _ => trivial
  delta runTagHandler
  delta runTagHandler.match_1
  repeat (refine RetLe_dite _ _ _ _ (fun heq => ?_) (fun _ => ?_); (· subst heq; dsimp only [Eq.ndrec_symm]; rks_close))
  exact RetLe_none _ _ _

end H5.Props.C03d
