/-
  Property C16 "strict mode raises ParseError exactly when a parse error exists" — the theorems about the whole
  parser model `H5.Model.Parser.parse`.

  For every configuration `cfg` (document or fragment, any container, scripting, …) and every input, with
    L = Parser.parse { cfg with strict := false } input      (lenient)
    S = Parser.parse { cfg with strict := true } input       (strict)
  * `C16_strict_ok`     : L = .ok (t, [])       →  S = .ok (t, [])
  * `C16_strict_raises` : L = .ok (t, e :: es)  →  S = .error (.parseError e)         (the FIRST recorded error)
  * `C16_lenient_never_parseError` : L is never `.error (.parseError _)`
  * `C16_strict_of_lenient_exception` : L = .error x  →  S = .error x ∨ ∃ c, S = .error (.parseError c)
  * `C16_strict_iff`    : (∃ c, S = .error (.parseError c)) ↔ (∃ t e es, L = .ok (t, e :: es)) ∨ (∃ x, L = .error x ∧ S ≠ .error x)
  * `C16_strict_iff_ok` : when the lenient run ends normally, L = .ok (t, errs):  S raises ParseError ↔ errs ≠ []

  The case "the lenient run itself dies with another exception `x`": the strict run then dies with the same `x`
  when no error had been recorded before, and with `ParseError` (of the first error) when one had; the model's
  result type (`Except`, the state is dropped with the exception) does not expose the error list of a run that
  raised, so this is stated through the strict result (`C16_strict_of_lenient_exception`, second disjunct of
  `C16_strict_iff`).

  Method: the simulation `Ob` (C16bCore) for all handlers (generated files C16bHand1-4), the dispatcher (`mkRec_ob`),
  `stepM`, the EOF loop; lifted here through `TB.step`, `TB.finish`, `TB.init`, `Parser.loop` (the tokenizer does not
  see the flag and never raises ParseError: `next_no_parseError`, C16bTok) and `TB.resultE`.
-/
import H5.Props.C16bTop
import H5.Props.C16bTok
set_option linter.unusedSimpArgs false
set_option linter.unusedVariables false
namespace H5.Props.C16b
open H5 H5.Model H5.Model.TB H5.Model.Dom

/-- the strict twin of a configuration -/
def strictCfg (c : Cfg) : Cfg := { c with strict := true }

/-- relation between a lenient result `rl` (started with the error list `E0`) and the strict result `rs` -/
def RelS (E0 : List (Str × List (Str × Str))) (c : Cfg) (rl rs : Except PyErr PState) : Prop :=
  match rl with
  | .ok st' =>
    st'.cfg = c ∧ ∃ new, st'.errors.toList = E0 ++ new ∧
      (match new with
       | [] => rs = .ok (flip st')
       | e :: _ => rs = .error (.parseError e.1))
  | .error x => NP x ∧ (rs = .error x ∨ ∃ c, rs = .error (.parseError c))

theorem flip_setCfg (st : PState) (c : Cfg) :
    ({ flip st with cfg := strictCfg c } : PState) = flip { st with cfg := c } := rfl

theorem cdataAllowed_flip (st : PState) : cdataAllowed (flip st) = cdataAllowed st := rfl

/-- one token -/
theorem step_rel (c : Cfg) (hc : c.strict = false) (st : PState) (t : TTok) :
    match TB.step c st t with
    | .ok (st', sw) =>
      st'.cfg = c ∧ ∃ new, st'.errors.toList = st.errors.toList ++ new ∧
        (match new with
         | [] => TB.step (strictCfg c) (flip st) t = .ok (flip st', sw)
         | e :: _ => TB.step (strictCfg c) (flip st) t = .error (.parseError e.1))
    | .error x => NP x ∧ (TB.step (strictCfg c) (flip st) t = .error x ∨
        ∃ k, TB.step (strictCfg c) (flip st) t = .error (.parseError k)) := by
  have h := (Ob_stepM t).out { st with cfg := c } hc
  unfold TB.step
  rw [flip_setCfg]
  cases hl : (stepM t).run { st with cfg := c } with
  | error x =>
    rw [hl] at h
    obtain ⟨hnp, h⟩ := h
    refine ⟨hnp, ?_⟩
    rcases h with h | ⟨k, h⟩
    · left; rw [h]
    · right; exact ⟨k, by rw [h]⟩
  | ok p =>
    obtain ⟨u, st'⟩ := p
    rw [hl] at h
    obtain ⟨hcfg, new, herr, h⟩ := h
    refine ⟨hcfg, new, herr, ?_⟩
    cases new with
    | nil => simp only at h ⊢; rw [h]; rfl
    | cons e r => simp only at h ⊢; rw [h]

/-- the EOF loop -/
theorem finish_rel (c : Cfg) (hc : c.strict = false) (st : PState) :
    RelS st.errors.toList c (TB.finish c st) (TB.finish (strictCfg c) (flip st)) := by
  have h := (Ob_eofLoop (mkRec_ob c.dispatchDepth) (Phase.all.length + 2) []).out { st with cfg := c } hc
  unfold TB.finish
  rw [flip_setCfg]
  show RelS _ _ _ (match (eofLoop (mkRec c.dispatchDepth) (Phase.all.length + 2) []).run (flip { st with cfg := c }) with
    | .ok (_, st) => .ok st | .error e => .error e)
  cases hl : (eofLoop (mkRec c.dispatchDepth) (Phase.all.length + 2) []).run { st with cfg := c } with
  | error x =>
    rw [hl] at h
    obtain ⟨hnp, h⟩ := h
    refine ⟨hnp, ?_⟩
    rcases h with h | ⟨k, h⟩
    · left; rw [h]
    · right; exact ⟨k, by rw [h]⟩
  | ok p =>
    obtain ⟨u, st'⟩ := p
    rw [hl] at h
    obtain ⟨hcfg, new, herr, h⟩ := h
    refine ⟨hcfg, new, herr, ?_⟩
    cases new with
    | nil => simp only at h ⊢; rw [h]
    | cons e r => simp only at h ⊢; rw [h]

theorem RelS_trans_prefix {E0 E1 : List (Str × List (Str × Str))} {c : Cfg} {rl rs : Except PyErr PState}
    (e : Str × List (Str × Str)) (r : List (Str × List (Str × Str))) (hE : E1 = E0 ++ e :: r)
    (h : RelS E1 c rl rs) (rs' : Except PyErr PState) (hrs : rs' = .error (.parseError e.1)) :
    RelS E0 c rl rs' := by
  unfold RelS at h ⊢
  cases rl with
  | error x => exact ⟨h.1, Or.inr ⟨e.1, hrs⟩⟩
  | ok st' =>
    obtain ⟨hcfg, new, herr, _⟩ := h
    refine ⟨hcfg, e :: r ++ new, by rw [herr, hE]; simp, ?_⟩
    exact hrs

/-- the tokenizer state handed to the next pull -/
def tsAfter (ts : Tokenizer.St) (sw : Option TokStateSwitch) (b : Bool) : Tokenizer.St :=
  Tokenizer.setCdataAllowed (match sw with
    | some s => Tokenizer.setState ts (Parser.tokStateOf s)
    | none => ts) b

/-- the parser loop: same tokenizer states in both runs -/
theorem loop_rel (c : Cfg) (hc : c.strict = false) :
    ∀ fuel ps ts, ps.cfg.strict = false →
      RelS ps.errors.toList c (Parser.loop c fuel ps ts) (Parser.loop (strictCfg c) fuel (flip ps) ts) := by
  intro fuel
  induction fuel with
  | zero =>
    intro ps ts _
    exact ⟨(NPC_outOfFuel _).out, Or.inl rfl⟩
  | succ fuel ih =>
    intro ps ts hps
    unfold Parser.loop
    cases hn : Tokenizer.next ts with
    | error x =>
      exact ⟨fun k hk => next_no_parseError ts k (by rw [hn, hk]), Or.inl rfl⟩
    | ok r =>
      cases r with
      | none =>
        show RelS _ _ (TB.finish c ps) (TB.finish (strictCfg c) (flip ps))
        exact finish_rel c hc ps
      | some p =>
        obtain ⟨tok, ts'⟩ := p
        have hs := step_rel c hc ps tok
        show RelS _ _ (TB.step c ps tok >>= fun x => Parser.loop c fuel x.1 (tsAfter ts' x.2 (cdataAllowed x.1)))
          (TB.step (strictCfg c) (flip ps) tok >>= fun x =>
            Parser.loop (strictCfg c) fuel x.1 (tsAfter ts' x.2 (cdataAllowed x.1)))
        cases hl : TB.step c ps tok with
        | error x =>
          rw [hl] at hs
          obtain ⟨hnp, hs⟩ := hs
          refine ⟨hnp, ?_⟩
          rcases hs with hs | ⟨k, hs⟩
          · left; rw [hs]; rfl
          · right; exact ⟨k, by rw [hs]; rfl⟩
        | ok q =>
          obtain ⟨ps1, sw⟩ := q
          rw [hl] at hs
          obtain ⟨hcfg, new, herr, hs⟩ := hs
          have hps1 : ps1.cfg.strict = false := by rw [hcfg]; exact hc
          have hih := ih ps1 (tsAfter ts' sw (cdataAllowed ps1)) hps1
          simp only [ok_bind]
          cases new with
          | nil =>
            simp only at hs
            rw [hs]
            simp only [ok_bind, cdataAllowed_flip]
            simp only [List.append_nil] at herr
            rw [← herr]
            exact hih
          | cons e r =>
            simp only at hs
            rw [hs]
            exact RelS_trans_prefix e r herr hih _ rfl

/-- `reset()` -/
theorem init_rel (c : Cfg) (hc : c.strict = false) : RelS [] c (TB.init c) (TB.init (strictCfg c)) := by
  unfold TB.init
  dsimp only
  have hob : Ob (do setPhase .beforeHtml; BeforeHtml_insertHtmlElement; resetInsertionMode : M Unit) := by
    haveI : Ob BeforeHtml_insertHtmlElement := by unfold BeforeHtml_insertHtmlElement; ob_auto
    ob_auto
  have key : ∀ st0 : PState, st0.cfg = c → st0.errors = #[] →
      RelS [] c
        (match (do setPhase .beforeHtml; BeforeHtml_insertHtmlElement; resetInsertionMode : M Unit).run st0 with
          | .ok (_, st) => Except.ok { st with tokSwitch := none }
          | .error e => .error e)
        (match (do setPhase .beforeHtml; BeforeHtml_insertHtmlElement; resetInsertionMode : M Unit).run (flip st0) with
          | .ok (_, st) => Except.ok { st with tokSwitch := none }
          | .error e => .error e) := by
    intro st0 hcfg herr0
    have h := hob.out st0 (by rw [hcfg]; exact hc)
    cases hl : (do setPhase .beforeHtml; BeforeHtml_insertHtmlElement; resetInsertionMode : M Unit).run st0 with
    | error x =>
      rw [hl] at h
      obtain ⟨hnp, h⟩ := h
      refine ⟨hnp, ?_⟩
      rcases h with h | ⟨k, h⟩
      · left; rw [h]
      · right; exact ⟨k, by rw [h]⟩
    | ok p =>
      obtain ⟨u, st'⟩ := p
      rw [hl] at h
      obtain ⟨hcfg', new, herr, h⟩ := h
      refine ⟨hcfg'.trans hcfg, new, by rw [herr0] at herr; simpa using herr, ?_⟩
      cases new with
      | nil => simp only at h ⊢; rw [h]; rfl
      | cons e r => simp only at h ⊢; rw [h]
  cases hi : c.innerHTML with
  | some v =>
    have hi' : (strictCfg c).innerHTML = some v := hi
    simp only [hi']
    exact key _ rfl rfl
  | none =>
    have hi' : (strictCfg c).innerHTML = none := hi
    simp only [hi']
    exact ⟨rfl, [], rfl, rfl⟩

/-! ### `getDocument` / `getFragment` and the result tree do not see the flag -/

/-- flag-blind computations that never touch the error list: the strict run is the flipped lenient run -/
def Ob0 {α : Type} (m : M α) : Prop :=
  ∀ st, m.run (flip st) = match m.run st with
    | .ok (a, s) => .ok (a, flip s)
    | .error e => .error e

theorem Ob0_pure {α : Type} (a : α) : Ob0 (pure a : M α) := fun _ => rfl
theorem Ob0_throw {α : Type} (e : PyErr) : Ob0 (throw e : M α) := fun _ => rfl
theorem Ob0_bind {α β : Type} {m : M α} {f : α → M β} (h1 : Ob0 m) (h2 : ∀ a, Ob0 (f a)) : Ob0 (m >>= f) := by
  intro st
  simp only [StateT.run_bind]
  rw [h1 st]
  cases hm : m.run st with
  | error e => rfl
  | ok p =>
    obtain ⟨a, s⟩ := p
    simp only [ok_bind]
    exact h2 a s

theorem Ob0_allocNode (k a) : Ob0 (allocNode k a) := fun _ => rfl
theorem Ob0_openAt (i s) : Ob0 (openAt i s) := by
  intro st
  have : ∀ x : PState, (openAt i s).run x = match x.openElements[i]? with
      | some n => .ok (n, x)
      | none => .error (.indexError (s ++ ":openElements[" ++ toString i ++ "]")) := by
    intro x
    show (match x.openElements[i]? with | some n => pure n | none => throw _ : M NodeId).run x = _
    cases x.openElements[i]? <;> rfl
  rw [this, this]
  show (match st.openElements[i]? with | some n => Except.ok (n, flip st) | none => _) = _
  cases st.openElements[i]? <;> rfl
theorem Ob0_modifyArena (f : Arena → Except PyErr Arena) : Ob0 (modifyArena f) := by
  intro st
  have : ∀ x : PState, (modifyArena f).run x = match f x.arena with
      | .ok a => .ok ((), { x with arena := a })
      | .error e => .error e := by
    intro x
    show (match f x.arena with | .ok a => set { x with arena := a } | .error e => throw e : M Unit).run x = _
    cases f x.arena <;> rfl
  rw [this, this]
  show (match f st.arena with | .ok a => Except.ok ((), { flip st with arena := a }) | .error e => .error e) = _
  cases f st.arena <;> rfl

theorem Ob0_getFragment : Ob0 getFragment := by
  unfold getFragment
  exact Ob0_bind (Ob0_allocNode _ _) fun fragment => Ob0_bind (Ob0_openAt _ _) fun root =>
    Ob0_bind (Ob0_modifyArena _) fun _ => Ob0_pure _

theorem Ob0_getDocument : Ob0 getDocument := fun _ => rfl

theorem resultE_flip (st : PState) : TB.resultE (flip st) = TB.resultE st := by
  unfold TB.resultE
  show (match (if st.cfg.innerHTML.isSome = true then getFragment else getDocument).run (flip st) with
    | .ok (root, st) => toTreeE st.arena root | .error e => .error e) = _
  have h : Ob0 (if st.cfg.innerHTML.isSome = true then getFragment else getDocument) := by
    split
    · exact Ob0_getFragment
    · exact Ob0_getDocument
  rw [h st]
  show _ = (match (if st.cfg.innerHTML.isSome = true then getFragment else getDocument).run st with
    | .ok (root, st) => toTreeE st.arena root | .error e => .error e)
  cases (if st.cfg.innerHTML.isSome = true then getFragment else getDocument).run st with
  | error e => rfl
  | ok p => rfl

theorem PP_mapM {α β : Type} (f : α → Except PyErr β) (hf : ∀ a, PP (f a)) : ∀ l : List α, PP (l.mapM f)
  | [] => ⟨trivial⟩
  | a :: l => by
    rw [List.mapM_cons]
    haveI := hf a
    haveI := PP_mapM f hf l
    infer_instance

theorem PP_toTreeAux (a : Arena) : ∀ fuel i, PP (toTreeAux a fuel i)
  | 0, i => by unfold toTreeAux; infer_instance
  | fuel + 1, i => by
    unfold toTreeAux
    haveI : ∀ l : List NodeId, PP (l.mapM (toTreeAux a fuel)) := PP_mapM _ (PP_toTreeAux a fuel)
    pp_auto

theorem resultE_NP (st : PState) (hs : st.cfg.strict = false) (x : PyErr) (hx : TB.resultE st = .error x) : NP x := by
  unfold TB.resultE at hx
  have hob : Ob (if st.cfg.innerHTML.isSome = true then getFragment else getDocument) := by
    split <;> infer_instance
  have hx' : (match (if st.cfg.innerHTML.isSome = true then getFragment else getDocument).run st with
    | .ok (root, st) => toTreeE st.arena root | .error e => .error e) = .error x := hx
  cases hl : (if st.cfg.innerHTML.isSome = true then getFragment else getDocument).run st with
  | error e =>
    rw [hl] at hx'
    cases hx'
    have := hob.out st hs
    rw [hl] at this
    exact this.1
  | ok p =>
    obtain ⟨root, st'⟩ := p
    rw [hl] at hx'
    have hx'' : toTreeAux st'.arena (st'.arena.nodes.size + 1) root = .error x := hx'
    have := (PP_toTreeAux st'.arena (st'.arena.nodes.size + 1) root).out
    rw [hx''] at this
    exact this

/-! ### the whole parser -/

/-- what the simulation gives for `Parser.parse`, for a lenient configuration `c` and its strict twin -/
def ParseRel (L S : Except PyErr (Tree × List Str)) : Prop :=
  match L with
  | .ok (t, errs) =>
    (match errs with
     | [] => S = .ok (t, [])
     | e :: _ => S = .error (.parseError e))
  | .error x => NP x ∧ (S = .error x ∨ ∃ k, S = .error (.parseError k))

/-- the tail of `parse` after `init`: loop, result tree, error codes -/
def parseTail (c : Cfg) (input : Str) (ps : PState) : Except PyErr (Tree × List Str) := do
  let ts := Tokenizer.St.init (Parser.tokStateOf (initialTokState c)) none (cdataAllowed ps) input
  let ps ← Parser.loop c (8 * input.length + 64) ps ts
  let t ← TB.resultE ps
  pure (t, errorCodes ps)

theorem parse_eq (c : Cfg) (input : Str) : Parser.parse c input = (TB.init c >>= parseTail c input) := rfl

/-- lenient facts about the tail, and the simulation when the strict run is still alive -/
theorem parseTail_rel (c : Cfg) (hc : c.strict = false) (input : Str) (ps : PState) (hps : ps.cfg.strict = false) :
    match parseTail c input ps with
    | .ok (t, errs) => ∃ new, errs = (ps.errors.toList ++ new).map (·.1) ∧
        (ps.errors.toList = [] → match new with
          | [] => parseTail (strictCfg c) input (flip ps) = .ok (t, [])
          | e :: _ => parseTail (strictCfg c) input (flip ps) = .error (.parseError e.1))
    | .error x => NP x ∧ (parseTail (strictCfg c) input (flip ps) = .error x ∨
        ∃ k, parseTail (strictCfg c) input (flip ps) = .error (.parseError k)) := by
  have hl := loop_rel c hc (8 * input.length + 64) ps
    (Tokenizer.St.init (Parser.tokStateOf (initialTokState c)) none (cdataAllowed ps) input) hps
  have hS : parseTail (strictCfg c) input (flip ps) =
      (Parser.loop (strictCfg c) (8 * input.length + 64) (flip ps)
        (Tokenizer.St.init (Parser.tokStateOf (initialTokState c)) none (cdataAllowed ps) input) >>= fun ps =>
        TB.resultE ps >>= fun t => pure (t, errorCodes ps)) := rfl
  have hL : parseTail c input ps =
      (Parser.loop c (8 * input.length + 64) ps
        (Tokenizer.St.init (Parser.tokStateOf (initialTokState c)) none (cdataAllowed ps) input) >>= fun ps =>
        TB.resultE ps >>= fun t => pure (t, errorCodes ps)) := rfl
  rw [hS, hL]
  cases hloop : Parser.loop c (8 * input.length + 64) ps
      (Tokenizer.St.init (Parser.tokStateOf (initialTokState c)) none (cdataAllowed ps) input) with
  | error x =>
    rw [hloop] at hl
    obtain ⟨hnp, hl⟩ := hl
    refine ⟨hnp, ?_⟩
    rcases hl with hl | ⟨k, hl⟩
    · left; rw [hl]; rfl
    · right; exact ⟨k, by rw [hl]; rfl⟩
  | ok ps1 =>
    rw [hloop] at hl
    obtain ⟨hcfg1, new, herr, hl⟩ := hl
    have hps1 : ps1.cfg.strict = false := by rw [hcfg1]; exact hc
    simp only [ok_bind]
    cases hres : TB.resultE ps1 with
    | error x =>
      refine ⟨resultE_NP ps1 hps1 x hres, ?_⟩
      cases new with
      | nil =>
        simp only at hl
        left
        rw [hl]
        simp only [ok_bind, resultE_flip, hres]
        rfl
      | cons e r =>
        simp only at hl
        right
        exact ⟨e.1, by rw [hl]; rfl⟩
    | ok t =>
      simp only [ok_bind]
      refine ⟨new, by simp only [errorCodes, herr], ?_⟩
      intro _
      cases new with
      | nil =>
        simp only at hl ⊢
        rw [hl]
        simp only [ok_bind, resultE_flip, hres]
        have : errorCodes (flip ps1) = [] := by
          show ps1.errors.toList.map (·.1) = []
          rw [herr]; simp [*]
        show Except.ok (t, errorCodes (flip ps1)) = _
        rw [this]
      | cons e r =>
        simp only at hl ⊢
        rw [hl]
        rfl

theorem parse_rel (c : Cfg) (hc : c.strict = false) (input : Str) :
    ParseRel (Parser.parse c input) (Parser.parse (strictCfg c) input) := by
  rw [parse_eq, parse_eq]
  have hi := init_rel c hc
  cases hinit : TB.init c with
  | error x =>
    rw [hinit] at hi
    obtain ⟨hnp, hi⟩ := hi
    refine ⟨hnp, ?_⟩
    rcases hi with hi | ⟨k, hi⟩
    · left; rw [hi]; rfl
    · right; exact ⟨k, by rw [hi]; rfl⟩
  | ok ps0 =>
    rw [hinit] at hi
    obtain ⟨hcfg0, new0, herr0, hi⟩ := hi
    have hps0 : ps0.cfg.strict = false := by rw [hcfg0]; exact hc
    have ht := parseTail_rel c hc input ps0 hps0
    simp only [ok_bind]
    simp only [List.nil_append] at herr0
    cases new0 with
    | nil =>
      simp only at hi
      rw [hi]
      simp only [ok_bind]
      cases htail : parseTail c input ps0 with
      | error x => rw [htail] at ht; exact ht
      | ok p =>
        obtain ⟨t, errs⟩ := p
        rw [htail] at ht
        obtain ⟨new, herrs, ht⟩ := ht
        have ht := ht herr0
        rw [herr0] at herrs
        simp only [List.nil_append] at herrs
        cases new with
        | nil => simp only at ht; rw [herrs]; exact ht
        | cons e r => simp only at ht; rw [herrs]; exact ht
    | cons e r =>
      simp only at hi
      rw [hi]
      cases htail : parseTail c input ps0 with
      | error x =>
        rw [htail] at ht
        exact ⟨ht.1, Or.inr ⟨e.1, rfl⟩⟩
      | ok p =>
        obtain ⟨t, errs⟩ := p
        rw [htail] at ht
        obtain ⟨new, herrs, _⟩ := ht
        rw [herr0] at herrs
        rw [herrs]
        rfl

/-! ### C16 -/

theorem strictCfg_lenient (cfg : Cfg) : strictCfg { cfg with strict := false } = { cfg with strict := true } := rfl

/-- the simulation for an arbitrary configuration -/
theorem C16_rel (cfg : Cfg) (input : Str) :
    ParseRel (Parser.parse { cfg with strict := false } input) (Parser.parse { cfg with strict := true } input) :=
  parse_rel { cfg with strict := false } rfl input

/-- **(a)** no error recorded: strict mode returns the same tree -/
theorem C16_strict_ok (cfg : Cfg) (input : Str) (t : Tree)
    (h : Parser.parse { cfg with strict := false } input = .ok (t, [])) :
    Parser.parse { cfg with strict := true } input = .ok (t, []) := by
  have := C16_rel cfg input
  rw [h] at this
  exact this

/-- **(b)** strict mode raises the FIRST recorded error -/
theorem C16_strict_raises (cfg : Cfg) (input : Str) (t : Tree) (e : Str) (es : List Str)
    (h : Parser.parse { cfg with strict := false } input = .ok (t, e :: es)) :
    Parser.parse { cfg with strict := true } input = .error (.parseError e) := by
  have := C16_rel cfg input
  rw [h] at this
  exact this

/-- **(d)** the lenient parser never raises ParseError -/
theorem C16_lenient_never_parseError (cfg : Cfg) (input : Str) (c : Str) :
    Parser.parse { cfg with strict := false } input ≠ .error (.parseError c) := by
  intro h
  have := C16_rel cfg input
  rw [h] at this
  exact this.1 c rfl

/-- the lenient run dies with another exception `x`: the strict run dies with the same `x` (no error had been
recorded before) or with ParseError (one had) -/
theorem C16_strict_of_lenient_exception (cfg : Cfg) (input : Str) (x : PyErr)
    (h : Parser.parse { cfg with strict := false } input = .error x) :
    Parser.parse { cfg with strict := true } input = .error x ∨
      ∃ c, Parser.parse { cfg with strict := true } input = .error (.parseError c) := by
  have := C16_rel cfg input
  rw [h] at this
  exact this.2

/-- **(c)** when the lenient run ends normally: strict mode raises ParseError iff an error was recorded -/
theorem C16_strict_iff_ok (cfg : Cfg) (input : Str) (t : Tree) (errs : List Str)
    (h : Parser.parse { cfg with strict := false } input = .ok (t, errs)) :
    (∃ c, Parser.parse { cfg with strict := true } input = .error (.parseError c)) ↔ errs ≠ [] := by
  cases errs with
  | nil =>
    rw [C16_strict_ok cfg input t h]
    constructor
    · rintro ⟨c, hc⟩; cases hc
    · intro hne; exact absurd rfl hne
  | cons e es =>
    rw [C16_strict_raises cfg input t e es h]
    exact ⟨fun _ => by simp, fun _ => ⟨e, rfl⟩⟩

/-- **(c)**, general form: strict mode raises ParseError exactly when the lenient run ends normally with a
non-empty error list, or dies with an exception that the strict run does not reproduce (i.e. an error had been recorded
before the exception) -/
theorem C16_strict_iff (cfg : Cfg) (input : Str) :
    (∃ c, Parser.parse { cfg with strict := true } input = .error (.parseError c)) ↔
      (∃ t e es, Parser.parse { cfg with strict := false } input = .ok (t, e :: es)) ∨
      (∃ x, Parser.parse { cfg with strict := false } input = .error x ∧
        Parser.parse { cfg with strict := true } input ≠ .error x) := by
  have hrel := C16_rel cfg input
  constructor
  · rintro ⟨c, hc⟩
    cases hL : Parser.parse { cfg with strict := false } input with
    | ok p =>
      obtain ⟨t, errs⟩ := p
      cases errs with
      | nil => rw [C16_strict_ok cfg input t hL] at hc; cases hc
      | cons e es => exact Or.inl ⟨t, e, es, rfl⟩
    | error x =>
      refine Or.inr ⟨x, rfl, ?_⟩
      rw [hL] at hrel
      intro hx
      rw [hx] at hc
      cases hc
      exact hrel.1 c rfl
  · rintro (⟨t, e, es, hL⟩ | ⟨x, hL, hne⟩)
    · exact ⟨e, C16_strict_raises cfg input t e es hL⟩
    · rcases C16_strict_of_lenient_exception cfg input x hL with h | h
      · exact absurd h hne
      · exact h

/-- strict mode never fails in a way the lenient mode does not explain: its result is the lenient result, the first
recorded error, or (lenient exception after an error) some ParseError -/
theorem C16_strict_cases (cfg : Cfg) (input : Str) :
    Parser.parse { cfg with strict := true } input = Parser.parse { cfg with strict := false } input ∨
      ∃ c, Parser.parse { cfg with strict := true } input = .error (.parseError c) := by
  have hrel := C16_rel cfg input
  cases hL : Parser.parse { cfg with strict := false } input with
  | ok p =>
    obtain ⟨t, errs⟩ := p
    cases errs with
    | nil => left; exact C16_strict_ok cfg input t hL
    | cons e es => right; exact ⟨e, C16_strict_raises cfg input t e es hL⟩
  | error x => exact C16_strict_of_lenient_exception cfg input x hL

/-- non-vacuity: an input with an error (`<p>` without doctype records `expected-doctype-but-got-start-tag` first) -/
example : (match Parser.parse { strict := true } (lit "<p>") with
    | .error (.parseError c) => c == lit "expected-doctype-but-got-start-tag"
    | _ => false) = true := by decide +kernel
example : (match Parser.parse {} (lit "<!DOCTYPE html><title>t</title>") with
    | .ok (_, errs) => errs.isEmpty | .error _ => false) = true := by decide +kernel

end H5.Props.C16b
