/-
  C03f — `reprocess_total_partial` extended by the end tags of the family `famE2` (as C03dEndTotal).
-/
import H5.Props.C03fEndRound
set_option linter.unusedSimpArgs false
set_option linter.unusedVariables false
namespace H5.Props.C03f
open H5 H5.Model H5.Model.TB H5.Model.Dom
open H5.Props.C02c (NF Post Post_bind Post_mono Post_pure Post_ok Post_error Post_throw Post_ite
  NF_typeError NF_keyError NF_indexError NF_assertFail NF_valueError NF_lookupError)
open H5.Props.C03b H5.Props.C03c H5.Props.C03d H5.Props.C03e

theorem RN_runProcessEG (r : Rec) [hrn : RecRN r] [hre : RecRNEG r] (ph : Phase)
    (hph : ph ∈ [Phase.inBody, .inTable, .inSelect]) (tok : Token) (ho : inFamE2 tok = true) :
    RN (runProcess r ph "processEndTag" tok) := by
  simp only [List.mem_cons, List.not_mem_nil, or_false] at hph
  have hq' : resolveMethod ph "processEndTag" = .ok "Phase.processEndTag" := by
    rcases hph with h | h | h <;> subst h <;> decide
  have hnp : nestedPh ph = true := by rcases hph with h | h | h <;> subst h <;> rfl
  unfold runProcess
  refine RN_liftE_bind _ _ ?_
  intro q hq
  rw [hq'] at hq
  cases hq
  exact phaseEG_rn ph hnp tok ho

instance mkRec_RecRNEG : ∀ n, RecRNEG (mkRec n)
  | 0 => ⟨fun _ _ _ _ => by show RN (throw _); infer_instance⟩
  | n + 1 =>
    haveI := mkRec_RecRNEG n
    ⟨fun ph tok h ho => RN_runProcessEG (mkRec n) ph h tok ho⟩

/-- the method of the phase register decreases the rank, at every depth `≥ 2` -/
theorem mkRec_RecDecEG (k : Nat) (hk : 0 < k) : RecDecEG (mkRec (k + 1)) := by
  intro p tok ho hNs st hi hp t st' hrun
  have hne : p ≠ .inForeignContent := by
    intro he; rw [he] at hp; exact hi.reg.ph.1 hp
  exact runProcessEG_rank (mkRec_inv k) hk p (fun h => absurd h hne) tok ho hNs st hi (Or.inr hp) t st' hrun

/-- a round of the reprocess loop for an "other" end tag -/
theorem round_rankEG {n : Nat} (hn : depthBound ≤ n) (tok : Token) (ho : inFamE2 tok = true) (hNs : NsNone tok)
    (st : PState) (hi : C03c.Inv st) :
    Tr (reprocessRound (mkRec n) tok) st (fun a st' => a = some tok → psi st'.phase < psi st.phase) := by
  have hround := round_inv hn tok hNs st hi
  have hn1 : 0 < n := by unfold depthBound maxNeed at hn; omega
  obtain ⟨k, rfl⟩ : ∃ k, n = k + 1 := ⟨n - 1, by omega⟩
  have hr := mkRec_inv k
  have hk0 : 0 < k := by unfold depthBound maxNeed at hn; omega
  obtain ⟨j, rfl⟩ : ∃ j, k = j + 1 := ⟨k - 1, by omega⟩
  have hj0 : 0 < j := by unfold depthBound maxNeed at hn; omega
  have hdec : RecDecEG (mkRec (j + 1)) := mkRec_RecDecEG j hj0
  have key : ∀ t st', (reprocessRound (mkRec (j + 1 + 1)) tok).run st = .ok (some t, st') →
      psi st'.phase < psi st.phase := by
    intro t st' hrun
    unfold reprocessRound at hrun
    rw [StateT.run_bind] at hrun
    have hu := useCurrentPhase_spec tok st hi.str
    unfold Tr at hu
    cases hown : (useCurrentPhase tok).run st with
    | error e => rw [hown] at hrun; cases hrun
    | ok po =>
      obtain ⟨own, s0⟩ := po
      rw [hown] at hu hrun
      obtain ⟨hs0, _⟩ := hu
      have hs0' : s0 = st := hs0
      subst hs0'
      simp only [ok_bind] at hrun
      rw [StateT.run_bind] at hrun
      have hph : ∀ p s1, (if own = true then curPhase "HTMLParser.mainLoop" else pure Phase.inForeignContent : M Phase).run s0
          = .ok (p, s1) → s1 = s0 ∧ (p = .inForeignContent ∨ s0.phase = some p) := by
        intro p s1 h
        split at h
        · have hc : Tr (curPhase "HTMLParser.mainLoop") s0 (fun p' s' => s' = s0 ∧ s0.phase = some p') :=
            (Tr_curPhase _ _ _).2 (fun p' hp' => ⟨rfl, hp'⟩)
          unfold Tr at hc
          rw [h] at hc
          exact ⟨hc.1, Or.inr hc.2⟩
        · cases h; exact ⟨rfl, Or.inl rfl⟩
      cases hp : (if own = true then curPhase "HTMLParser.mainLoop" else pure Phase.inForeignContent : M Phase).run s0 with
      | error e => rw [hp] at hrun; cases hrun
      | ok pp =>
        obtain ⟨p, s1⟩ := pp
        obtain ⟨hs1, hreg⟩ := hph p s1 hp
        subst hs1
        rw [hp] at hrun
        simp only [ok_bind] at hrun
        cases tok with
        | endTag d => exact runProcessEG_rank hr hk0 p (fun _ => hdec) _ ho hNs s1 hi hreg t st' hrun
        | chars d => cases ho
        | space d => cases ho
        | comment d => cases ho
        | doctype a b c d => cases ho
        | startTag d => cases ho
  unfold Tr at hround ⊢
  cases hrun : (reprocessRound (mkRec (j + 1 + 1)) tok).run st with
  | error e => rw [hrun] at hround; exact hround
  | ok p =>
    obtain ⟨a, st'⟩ := p
    intro ha
    subst ha
    exact key tok st' hrun

/-- the tokens covered: those of C03d (`easyTok2`) and the end tags of the family -/
def easyTok6 (tok : Token) : Bool := easyTok5 tok || inFamE2 tok

theorem round_rank_easy6 {n : Nat} (hn : depthBound ≤ n) (tok : Token) (he : easyTok6 tok = true) (hNs : NsNone tok)
    (st : PState) (hi : C03c.Inv st) :
    Tr (reprocessRound (mkRec n) tok) st (fun a st' => a = some tok → psi st'.phase < psi st.phase) := by
  unfold easyTok6 at he
  cases hk : inFamE2 tok with
  | true => exact round_rankEG hn tok hk hNs st hi
  | false =>
    rw [hk] at he
    exact round_rank_easy5 hn tok (by simpa using he) hNs st hi

theorem reprocessLoop_easy6 {n : Nat} (hn : depthBound ≤ n) (tok : Token) (he : easyTok6 tok = true) (hNs : NsNone tok) :
    ∀ fuel st, C03c.Inv st → psi st.phase < fuel →
      Tr (reprocessLoop (mkRec n) fuel tok) st (fun _ st' => C03c.Inv st') := by
  intro fuel
  induction fuel with
  | zero => intro st _ h; omega
  | succ fuel ih =>
    intro st hi hlt
    have hround := round_inv hn tok hNs st hi
    have hdec := round_rank_easy6 hn tok he hNs st hi
    unfold Tr
    rw [reprocessLoop_succ]
    unfold Tr at hround hdec
    cases hr : (reprocessRound (mkRec n) tok).run st with
    | error e =>
      rw [hr] at hround
      exact hround
    | ok p =>
      rw [hr] at hround hdec
      obtain ⟨nt, st'⟩ := p
      simp only [ok_bind]
      cases nt with
      | none => exact hround.1
      | some t =>
        have ht : t = tok := by
          rcases hround.2 with h | h
          · cases h
          · exact Option.some.inj h
        subst ht
        have hlt' : psi st'.phase < psi st.phase := hdec rfl
        exact ih st' hround.1 (by omega)

/-- **`reprocess_total_partial`** for the end tags of the family `famE2` (and the tokens of C03d) -/
theorem reprocess_total_partial_famE (cfg : Cfg) (hd : depthBound ≤ cfg.dispatchDepth) {st : PState}
    (h : Reach cfg st) (tok : Token) (he : easyTok6 tok = true) (hNs : NsNone tok) (fuel : Nat) (hf : 10 ≤ fuel)
    (site : String) :
    (reprocessLoop (mkRec cfg.dispatchDepth) fuel tok).run st ≠ .error (.outOfFuel site) := by
  have hi := Reach_Inv cfg hd h
  have := reprocessLoop_easy6 hd tok he hNs fuel st hi (by have := psi_le st.phase; omega)
  intro hee
  unfold Tr at this
  rw [hee] at this
  exact this site rfl

/-- the tokenizer tokens covered -/
def easyT6 : TTok → Bool
  | .startTag n _ _ => !keysS.contains n || famS.contains n || famS2.contains n
  | .endTag n _ _ => !keysE.contains n || famE.contains n || famE2.contains n
  | _ => true

/-- one such tokenizer token through the tree builder, in a state reachable by parsing: no exhausted-fuel error of any
site (with `reprocessFuel ≥ 10`) -/
theorem step_total_easy6 (cfg : Cfg) (hd : depthBound ≤ cfg.dispatchDepth) (hf : 10 ≤ cfg.reprocessFuel)
    {st : PState} (h : Reach cfg st) (t : TTok) (hk : easyT6 t = true) (site : String) :
    TB.step cfg st t ≠ .error (.outOfFuel site) := by
  obtain ⟨hi, hc⟩ := Reach_Inv_cfg cfg hd h
  have hst : ({ st with cfg := cfg } : PState) = st := by rw [← hc]
  have key : Tr (stepM t) st (fun _ _ => True) := by
    unfold stepM
    simp only [Tr_bind, Tr_modify]
    generalize hs1 : ({ st with tokSwitch := none, selfClosingAcknowledged := false } : PState) = st1
    have hi1 : C03c.Inv st1 := by
      rw [← hs1]; exact Inv_of_Same (st := st) ⟨rfl, rfl, rfl, rfl, rfl, rfl, Ext.refl _⟩ hi
    have hc1 : st1.cfg = cfg := by rw [← hs1]; exact hc
    split
    · exact Tr_mono (Tr_of_Pu _ st1 hi1) (fun _ _ _ => trivial)
    · split
      · simp only [Tr_pure]
      · rename_i tok htok
        have hNs : NsNone tok := NsNone_ofTTok htok
        have hkt : easyTok6 tok = true := by
          cases t <;> simp only [Token.ofTTok, Option.some.injEq, reduceCtorEq] at htok <;>
            first | (subst htok; rfl)
                  | (subst htok; simpa [easyTok6, easyTok5, easyTok4, easyTok3, easyTok2, nonTag, otherS, otherE, inFamE, inFamS, inFamS2, inFamE2, easyT6] using hk)
        simp only [Tr_bind, Tr_getCfg]
        rw [hc1]
        refine Tr_mono (reprocessLoop_easy6 hd tok hkt hNs _ st1 hi1 (by have := psi_le st1.phase; omega)) ?_
        intro _ st3 _
        cases tok with
        | startTag d =>
          simp only [Tr_bind, Tr_get]
          split
          · exact Tr_mono ((inferInstance : Fr (parseErrorS _ _)).out _) (fun _ _ _ => trivial)
          · simp only [Tr_pure]
        | endTag d => simp only [Tr_pure]
        | chars d => simp only [Tr_pure]
        | space d => simp only [Tr_pure]
        | comment d => simp only [Tr_pure]
        | doctype a b c d => simp only [Tr_pure]
  unfold TB.step
  rw [hst]
  intro he
  unfold Tr at key
  cases hrun : (stepM t).run st with
  | ok r => rw [hrun] at he; cases he
  | error e =>
    rw [hrun] at he key
    cases he
    exact key site rfl

end H5.Props.C03f
