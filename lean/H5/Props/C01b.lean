/-
  C01b — **the tree html5lib builds is the tree the WHATWG algorithm produces**, proved for the language `G1 ⊆ G0` of
  conforming documents (H5.Props.C07bGrammar) on their token sequences.

  * `H5.Spec.TreeConstruction` = the independent executable transcription of the standard's tree-construction stage;
  * `H5.Model.TreeBuilder` = the model of html5lib's `html5parser.py` / `treebuilders/base.py` (tied to the code by the
    C01 correspondence check);
  * `Toks t ts` = `ts` is a token sequence of the document `t`: DOCTYPE, one start tag / content / one end tag per
    element (void elements: the start tag only), a comment token per comment, and for every text node ONE OR MORE
    Characters / SpaceCharacters tokens whose data concatenate to the text (any cutting into non-empty pieces).
    This is the shape of what html5lib's tokenizer emits for the serializer's output of `t` (H5.Props.C07bTok: `next_doctype_html`,
    `next_startTag`, `next_endTag`, `next_text`, `next_comment`), stated without the tokenizer.

  Statements: `C01_spec_builds_G1`, `C01_model_builds_G0`, `C01_model_eq_spec_on_G1`.
-/
import H5.Props.C01bSpec
import H5.Props.C01bModel
import H5.Props.C01bG1
set_option linter.unusedSimpArgs false
set_option linter.unusedVariables false
namespace H5.Props.C01b
open H5
open H5.Props.C07b (G0 G0_elim G0_docTree headOK okForest okNode docTree commentOKm htmlNs sHtml sHead sBody sTitle isText
  voidName cfg0)
open H5.Props.C08c (valueOK)

/-- the token sequences of a covered document -/
def Toks (t : Tree) (ts : List TTok) : Prop := ∃ hd cs, t = docTree hd cs ∧ DocToks hd cs ts

theorem G1_elim {t : Tree} (h : G1 t = true) :
    ∃ hd cs, t = docTree hd cs ∧ headOK hd = true ∧ okForest commentOKm {} cs = true ∧ specForest cs = true := by
  unfold G1 at h
  split at h
  · rename_i d ns1 hh a1 hd ns3 b a3 cs
    simp only [Bool.and_eq_true] at h
    obtain ⟨hg, hs⟩ := h
    obtain ⟨hd', cs', heq, h1, h2⟩ := G0_elim hg
    have : cs = cs' := by
      simp only [docTree, Tree.doc.injEq, List.cons.injEq, Tree.elem.injEq, and_true] at heq
      exact heq.2.2.2.2.2.2.2.2
    subst this
    exact ⟨hd', cs, heq, h1, h2, hs⟩
  · cases h

/-- `G1` is a sub-grammar of `G0` -/
theorem G1_sub_G0 {t : Tree} (h : G1 t = true) : G0 t = true := by
  unfold G1 at h
  split at h
  · simp only [Bool.and_eq_true] at h; exact h.1
  · cases h

theorem docTree_inj {hd cs hd' cs' : List Tree} (h : docTree hd cs = docTree hd' cs') : hd = hd' ∧ cs = cs' := by
  simp only [docTree, Tree.doc.injEq, List.cons.injEq, Tree.elem.injEq, and_true, true_and] at h
  exact ⟨h.1, h.2⟩

/-- **C01 (specification).** For every document `t` of `G1`, every token sequence of `t`, and either value of the
scripting flag, the WHATWG tree-construction algorithm (H5.Spec.TreeConstruction, document mode) returns `t` (a missing
DOCTYPE identifier being the empty string in the DOM: `specView`) -/
theorem C01_spec_builds_G1 (t : Tree) (h : G1 t = true) (sc : Bool) (ts : List TTok) (hts : Toks t ts) :
    ∃ r, H5.Spec.TC.runTokens { scripting := sc } ts = .ok r ∧ r.tree = specView t := by
  obtain ⟨hd, cs, rfl, hhd, hcs, hsp⟩ := G1_elim h
  obtain ⟨hd', cs', heq, htoks⟩ := hts
  obtain ⟨rfl, rfl⟩ := docTree_inj heq
  exact spec_doc hd cs hhd hcs hsp sc ts htoks

/-- **C01 (html5lib).** For every document `t` of `G0` and every token sequence of `t`, html5lib's tree-construction
model returns `t` and records no parse error -/
theorem C01_model_builds_G0 (t : Tree) (h : G0 t = true) (ts : List TTok) (hts : Toks t ts) :
    ∃ ps, H5.Model.TB.build cfg0 ts = .ok ps ∧ H5.Model.TB.resultE ps = .ok t ∧ H5.Model.TB.errorCodes ps = [] := by
  obtain ⟨hd, cs, rfl, hhd, hcs⟩ := G0_elim h
  obtain ⟨hd', cs', heq, htoks⟩ := hts
  obtain ⟨rfl, rfl⟩ := docTree_inj heq
  exact H5.Props.C01bM.model_doc hd cs hhd hcs ts htoks

/-- **C01 (agreement).** On every token sequence of every document of `G1` the tree html5lib builds is exactly the
tree the WHATWG algorithm produces (both are `t`), and html5lib reports no parse error -/
theorem C01_model_eq_spec_on_G1 (t : Tree) (h : G1 t = true) (sc : Bool) (ts : List TTok) (hts : Toks t ts) :
    ∃ ps r mt, H5.Model.TB.build cfg0 ts = .ok ps ∧ H5.Model.TB.resultE ps = .ok mt ∧
      H5.Spec.TC.runTokens { scripting := sc } ts = .ok r ∧ specView mt = r.tree ∧ mt = t ∧
      H5.Model.TB.errorCodes ps = [] := by
  obtain ⟨ps, h1, h2, h3⟩ := C01_model_builds_G0 t (G1_sub_G0 h) ts hts
  obtain ⟨r, h4, h5⟩ := C01_spec_builds_G1 t h sc ts hts
  exact ⟨ps, r, t, h1, h2, h4, h5.symm, rfl, h3⟩

/-- **C01 (agreement), in terms of `G0`.** `G1` is `G0` without the three element names on which html5lib and the
standard dispatch differently (`template`, `rb`, `rtc`: `specAgrees_or_exception`): for every document `docTree hd cs`
of `G0` whose body has no element of these names, on every token sequence, the tree html5lib builds is the tree the
WHATWG algorithm produces -/
theorem C01_model_eq_spec_on_G0_plain (hd cs : List Tree) (h : G0 (docTree hd cs) = true) (hp : plainForest cs = true)
    (sc : Bool) (ts : List TTok) (hts : DocToks hd cs ts) :
    ∃ ps r mt, H5.Model.TB.build cfg0 ts = .ok ps ∧ H5.Model.TB.resultE ps = .ok mt ∧
      H5.Spec.TC.runTokens { scripting := sc } ts = .ok r ∧ specView mt = r.tree ∧ mt = docTree hd cs ∧
      H5.Model.TB.errorCodes ps = [] :=
  C01_model_eq_spec_on_G1 _ (G1_of_G0_plain hd cs h hp) sc ts ⟨hd, cs, rfl, hts⟩

/-! ### non-vacuity: every document of `G0` has a token sequence; a concrete document of `G1`, evaluated -/

mutual
/-- a canonical token sequence: every text node as one Characters token -/
def nodeToks : Tree → List TTok
  | .text d => [.chars d]
  | .comment d => [.comment d]
  | .elem _ nm attrs cs =>
    if voidName nm then [.startTag nm (pairsOf attrs) false]
    else .startTag nm (pairsOf attrs) false :: (forestToks cs ++ [.endTag nm [] false])
  | _ => []
def forestToks : List Tree → List TTok
  | [] => []
  | t :: rest => nodeToks t ++ forestToks rest
end

def headToks : List Tree → List TTok
  | [.elem _ nm _ [.text d]] => [.startTag nm [] false, .chars d, .endTag nm [] false]
  | [.elem _ nm _ _] => [.startTag nm [] false, .endTag nm [] false]
  | _ => []

def docToks (hd cs : List Tree) : List TTok :=
  [.doctype (some sHtml) none none true, .startTag sHtml [] false, .startTag sHead [] false] ++ headToks hd ++
    [.endTag sHead [] false, .startTag sBody [] false] ++ forestToks cs ++ [.endTag sBody [] false, .endTag sHtml [] false]

mutual
theorem nodeToks_ok {cOK : Str → Bool} (x : H5.Props.C07b.Ctx) : ∀ (u : Tree), okNode cOK x u = true → NodeToks u (nodeToks u)
  | .text d, h => by
    simp only [okNode, Bool.and_eq_true, Bool.not_eq_true', List.isEmpty_eq_false_iff] at h
    exact .one h.1 (Or.inl rfl)
  | .comment d, _ => rfl
  | .elem ns nm attrs cs, h => by
    simp only [okNode, Bool.and_eq_true] at h
    unfold NodeToks nodeToks
    by_cases hv : voidName nm = true
    · simp [hv]
    · have hv' : voidName nm = false := by simpa using hv
      simp only [hv', Bool.false_eq_true, if_false]
      have hb := h.2
      simp only [hv', Bool.false_eq_true, if_false] at hb
      cases hc : H5.Props.C07b.catOf nm with
      | none => simp [hc] at hb
      | some c =>
        simp only [hc, Bool.and_eq_true] at hb
        exact ⟨forestToks cs, forestToks_ok _ cs hb.2, rfl⟩
  | .doc _, h => by simp [okNode] at h
  | .frag _, h => by simp [okNode] at h
  | .doctype _ _ _, h => by simp [okNode] at h
theorem forestToks_ok {cOK : Str → Bool} (x : H5.Props.C07b.Ctx) : ∀ (cs : List Tree), okForest cOK x cs = true →
    ForestToks cs (forestToks cs)
  | [], _ => rfl
  | u :: rest, h => by
    simp only [okForest, Bool.and_eq_true] at h
    exact ⟨nodeToks u, forestToks rest, nodeToks_ok x u h.1.1, forestToks_ok x rest h.2, rfl⟩
end

theorem headToks_ok : ∀ (hd : List Tree), headOK hd = true → HeadToks hd (headToks hd) := by
  intro hd h
  match hd, h with
  | [], _ => rfl
  | [.elem ns nm attrs cs], h =>
    simp only [headOK, Bool.and_eq_true] at h
    match cs, h.2 with
    | [], _ => exact ⟨[], rfl, rfl⟩
    | [.text d], hc =>
      simp only [Bool.and_eq_true, Bool.not_eq_true', List.isEmpty_eq_false_iff] at hc
      exact ⟨[.chars d], .one hc.1 (Or.inl rfl), rfl⟩

/-- every document of `G0` has a token sequence -/
theorem toks_exist (t : Tree) (h : G0 t = true) : ∃ ts, Toks t ts := by
  obtain ⟨hd, cs, rfl, hhd, hcs⟩ := G0_elim h
  exact ⟨docToks hd cs, hd, cs, rfl, headToks hd, forestToks cs, headToks_ok hd hhd, forestToks_ok _ cs hcs, rfl⟩

open H5.Props.C07b (exHead exBody) in
/-- C07b's example document (attributes, escaped text, `p` with phrasing content, void elements, comments, a link with
nested formatting elements, nested blocks, a heading, nested lists, `hr`, a definition list, a custom element) is in `G1` -/
theorem ex_in_G1 : G1 (docTree exHead exBody) = true := by decide +kernel

mutual
/-- a code of a tree as a list of numbers (for kernel-evaluated sanity checks; `Tree` has no decidable equality) -/
def treeCode : Tree → List Nat
  | .doc cs => 1 :: forestCode cs ++ [0]
  | .frag cs => 2 :: forestCode cs ++ [0]
  | .doctype n p s => 3 :: ((n.getD [7]) ++ [0] ++ (p.getD [7]) ++ [0] ++ (s.getD [7]) ++ [0])
  | .elem ns nm attrs cs =>
    4 :: ((ns.getD [7]) ++ [0] ++ nm ++ [0] ++ attrs.flatMap (fun a => a.name ++ [0] ++ a.value ++ [0]) ++ [0] ++
      forestCode cs ++ [0])
  | .text d => 5 :: d ++ [0]
  | .comment d => 6 :: d ++ [0]
def forestCode : List Tree → List Nat
  | [] => []
  | t :: rest => treeCode t ++ forestCode rest
end

open H5.Props.C07b (exHead exBody) in
/-- the specification evaluated by the kernel on the canonical tokens of the example (independently of the theorem) -/
theorem ex_spec_computed :
    (match H5.Spec.TC.runTokens {} (docToks exHead exBody) with
     | .ok r => decide (treeCode r.tree = treeCode (specView (docTree exHead exBody)))
     | .error _ => false) = true := by decide +kernel

open H5.Props.C07b (exHead exBody) in
/-- … and by the theorem, together with html5lib's model -/
theorem ex_agreement : ∃ ps r mt, H5.Model.TB.build cfg0 (docToks exHead exBody) = .ok ps ∧
    H5.Model.TB.resultE ps = .ok mt ∧ H5.Spec.TC.runTokens {} (docToks exHead exBody) = .ok r ∧
    specView mt = r.tree ∧ mt = docTree exHead exBody ∧ H5.Model.TB.errorCodes ps = [] :=
  C01_model_eq_spec_on_G1 _ ex_in_G1 false _
    ⟨exHead, exBody, rfl, headToks exHead, forestToks exBody, headToks_ok _ (by decide +kernel),
      forestToks_ok (cOK := commentOKm) {} _ (by decide +kernel), rfl⟩

/-! ### the restriction `G1 ⊂ G0` is necessary: `rb` (ordinary element for html5lib, rule of its own in the standard) -/

open H5.Props.C07b (el) in
/-- a document of `G0` outside `G1` on which the specification (evaluated by the kernel) builds ANOTHER tree: nested
`rb` (the inner start tag generates implied end tags in the standard; html5lib nests — the recorded finding
`whatwg:rb-rtc`) -/
theorem cex_rb :
    G0 (docTree [] [el "ruby" [] [el "rb" [] [el "rb" [] []]]]) = true ∧
    G1 (docTree [] [el "ruby" [] [el "rb" [] [el "rb" [] []]]]) = false ∧
    (match H5.Spec.TC.runTokens {} (docToks [] [el "ruby" [] [el "rb" [] [el "rb" [] []]]]) with
     | .ok r => decide (treeCode r.tree =
         treeCode (specView (docTree [] [el "ruby" [] [el "rb" [] [], el "rb" [] []]])))
     | .error _ => false) = true := by decide +kernel

end H5.Props.C01b
