/-
  C07 identity, tree-construction side — the arena DOM: complete subtrees (`Shape`), their locality, their abstraction
  by `toTreeAux`, and the two arena updates the covered documents need (append a fresh node to the current node).
-/
import H5.Model.Dom
import H5.Proofs.ExceptLemmas
set_option linter.unusedSimpArgs false
set_option linter.unusedVariables false
namespace H5.Props.C07b
open H5 H5.Model.Dom

mutual
/-- `Shape a hi i t`: the subtree rooted at node `i` is complete, occupies indices in `[i, hi)` with children after their
parents, and abstracts to `t` (children already merged as `toTreeAux` does) -/
inductive Shape (a : Arena) (hi : Nat) : NodeId → Tree → Prop
  | text {i : NodeId} {n : Node} {d : Str} : a.nodes[i]? = some n → n.kind = .text d → i < hi → Shape a hi i (.text d)
  | comment {i : NodeId} {n : Node} {d : Str} : a.nodes[i]? = some n → n.kind = .comment d → i < hi →
      Shape a hi i (.comment d)
  | doctype {i : NodeId} {n : Node} {nm p s} : a.nodes[i]? = some n → n.kind = .doctype nm p s → i < hi →
      Shape a hi i (.doctype nm p s)
  | elem {i : NodeId} {n : Node} {ns nm} {kids : List Tree} : a.nodes[i]? = some n → n.kind = .element ns nm → i < hi →
      (∀ c ∈ n.children, i < c) → ShapeList a hi n.children kids →
      Shape a hi i (.elem ns nm (n.attrs.map attrToTree) (mergeText kids))
  | doc {i : NodeId} {n : Node} {kids : List Tree} : a.nodes[i]? = some n → n.kind = .document → i < hi →
      (∀ c ∈ n.children, i < c) → ShapeList a hi n.children kids → Shape a hi i (.doc (mergeText kids))
inductive ShapeList (a : Arena) (hi : Nat) : List NodeId → List Tree → Prop
  | nil : ShapeList a hi [] []
  | cons {c : NodeId} {cs : List NodeId} {t : Tree} {ts : List Tree} : Shape a hi c t → ShapeList a hi cs ts →
      ShapeList a hi (c :: cs) (t :: ts)
end

mutual
/-- a complete subtree only depends on the nodes in `[i, hi)` -/
theorem Shape.local {a a' : Arena} {hi : Nat} : ∀ {i : NodeId} {t : Tree}, Shape a hi i t →
    (∀ j, i ≤ j → j < hi → a'.nodes[j]? = a.nodes[j]?) → Shape a' hi i t
  | _, _, .text h1 h2 h3, h => .text (by rw [h _ (Nat.le_refl _) h3]; exact h1) h2 h3
  | _, _, .comment h1 h2 h3, h => .comment (by rw [h _ (Nat.le_refl _) h3]; exact h1) h2 h3
  | _, _, .doctype h1 h2 h3, h => .doctype (by rw [h _ (Nat.le_refl _) h3]; exact h1) h2 h3
  | _, _, .elem h1 h2 h3 h4 h5, h =>
    .elem (by rw [h _ (Nat.le_refl _) h3]; exact h1) h2 h3 h4
      (ShapeList.local h5 (fun c hc j hj hj' => h j (Nat.le_trans (Nat.le_of_lt (h4 c hc)) hj) hj'))
  | _, _, .doc h1 h2 h3 h4 h5, h =>
    .doc (by rw [h _ (Nat.le_refl _) h3]; exact h1) h2 h3 h4
      (ShapeList.local h5 (fun c hc j hj hj' => h j (Nat.le_trans (Nat.le_of_lt (h4 c hc)) hj) hj'))
theorem ShapeList.local {a a' : Arena} {hi : Nat} : ∀ {cs : List NodeId} {ts : List Tree}, ShapeList a hi cs ts →
    (∀ c ∈ cs, ∀ j, c ≤ j → j < hi → a'.nodes[j]? = a.nodes[j]?) → ShapeList a' hi cs ts
  | _, _, .nil, _ => .nil
  | _, _, .cons h1 h2, h =>
    .cons (Shape.local h1 (h _ (List.mem_cons_self ..)))
      (ShapeList.local h2 (fun c hc => h c (List.mem_cons_of_mem _ hc)))
end

mutual
theorem Shape.mono {a : Arena} {hi hi' : Nat} (hle : hi ≤ hi') : ∀ {i : NodeId} {t : Tree}, Shape a hi i t → Shape a hi' i t
  | _, _, .text h1 h2 h3 => .text h1 h2 (Nat.lt_of_lt_of_le h3 hle)
  | _, _, .comment h1 h2 h3 => .comment h1 h2 (Nat.lt_of_lt_of_le h3 hle)
  | _, _, .doctype h1 h2 h3 => .doctype h1 h2 (Nat.lt_of_lt_of_le h3 hle)
  | _, _, .elem h1 h2 h3 h4 h5 => .elem h1 h2 (Nat.lt_of_lt_of_le h3 hle) h4 (ShapeList.mono hle h5)
  | _, _, .doc h1 h2 h3 h4 h5 => .doc h1 h2 (Nat.lt_of_lt_of_le h3 hle) h4 (ShapeList.mono hle h5)
theorem ShapeList.mono {a : Arena} {hi hi' : Nat} (hle : hi ≤ hi') : ∀ {cs : List NodeId} {ts : List Tree},
    ShapeList a hi cs ts → ShapeList a hi' cs ts
  | _, _, .nil => .nil
  | _, _, .cons h1 h2 => .cons (Shape.mono hle h1) (ShapeList.mono hle h2)
end

theorem Shape.lt {a : Arena} {hi : Nat} {i : NodeId} {t : Tree} (h : Shape a hi i t) : i < hi := by
  cases h <;> assumption

theorem ShapeList.lt {a : Arena} {hi : Nat} : ∀ {cs : List NodeId} {ts : List Tree}, ShapeList a hi cs ts →
    ∀ c ∈ cs, c < hi
  | _, _, .nil, c, hc => by cases hc
  | _, _, .cons h1 h2, c, hc => by
    rcases List.mem_cons.1 hc with rfl | hc
    · exact h1.lt
    · exact ShapeList.lt h2 c hc

theorem sub_lt_aux (i c hi f : Nat) (e1 : i < c) (e2 : c < hi) (hf : hi - i < f + 1) : hi - c < f := by omega
theorem lt_succ_aux (p n : Nat) (h : p < n) : p < n + 1 := by omega

theorem arena_get_of (a : Arena) (i : NodeId) (n : Node) (h : a.nodes[i]? = some n) : a.get i = .ok n := by
  simp [Arena.get, h]

mutual
/-- `toTreeAux` computes the abstraction of a complete subtree (fuel: the index distance to `hi`) -/
theorem Shape.toTree {a : Arena} {hi : Nat} : ∀ {i : NodeId} {t : Tree}, Shape a hi i t → ∀ f, hi - i < f →
    toTreeAux a f i = .ok t
  | i, _, .text h1 h2 h3, f, hf => by
    cases f with
    | zero => omega
    | succ f => simp [toTreeAux, arena_get_of a i _ h1, h2]
  | i, _, .comment h1 h2 h3, f, hf => by
    cases f with
    | zero => omega
    | succ f => simp [toTreeAux, arena_get_of a i _ h1, h2]
  | i, _, .doctype h1 h2 h3, f, hf => by
    cases f with
    | zero => omega
    | succ f => simp [toTreeAux, arena_get_of a i _ h1, h2]
  | i, _, .elem h1 h2 h3 h4 h5, f, hf => by
    cases f with
    | zero => omega
    | succ f =>
      have := ShapeList.toTree h5 f (fun c hc => sub_lt_aux _ _ _ _ (h4 c hc) (h5.lt c hc) hf)
      simp [toTreeAux, arena_get_of a i _ h1, h2, this]
  | i, _, .doc h1 h2 h3 h4 h5, f, hf => by
    cases f with
    | zero => omega
    | succ f =>
      have := ShapeList.toTree h5 f (fun c hc => sub_lt_aux _ _ _ _ (h4 c hc) (h5.lt c hc) hf)
      simp [toTreeAux, arena_get_of a i _ h1, h2, this]
theorem ShapeList.toTree {a : Arena} {hi : Nat} : ∀ {cs : List NodeId} {ts : List Tree}, ShapeList a hi cs ts →
    ∀ f, (∀ c ∈ cs, hi - c < f) → cs.mapM (toTreeAux a f) = .ok ts
  | _, _, .nil, f, _ => rfl
  | _, _, .cons h1 h2, f, hf => by
    rw [List.mapM_cons, Shape.toTree h1 f (hf _ (List.mem_cons_self ..)),
      ShapeList.toTree h2 f (fun c hc => hf c (List.mem_cons_of_mem _ hc))]
    rfl
end

theorem ShapeList.append {a : Arena} {hi : Nat} : ∀ {cs : List NodeId} {ts : List Tree} {c : NodeId} {t : Tree},
    ShapeList a hi cs ts → Shape a hi c t → ShapeList a hi (cs ++ [c]) (ts ++ [t])
  | _, _, _, _, .nil, h => .cons h .nil
  | _, _, _, _, .cons h1 h2, h => .cons h1 (ShapeList.append h2 h)

/-! ### appending a fresh node to an existing one -/

/-- the arena after `createElement`/text allocation of a node of kind `k` and `parent.appendChild(node)` -/
def addChild (a : Arena) (p : NodeId) (pn : Node) (k : Kind) (attrs : Attrs) : Arena :=
  ⟨((a.nodes.push { kind := k, attrs := attrs }).setIfInBounds p { pn with children := pn.children ++ [a.nodes.size] }).setIfInBounds
    a.nodes.size { kind := k, attrs := attrs, parent := some p }⟩

theorem addChild_size (a p pn k attrs) : (addChild a p pn k attrs).nodes.size = a.nodes.size + 1 := by
  simp [addChild]

theorem addChild_get (a : Arena) (p : NodeId) (pn : Node) (k attrs) (hp : p < a.nodes.size) (j : NodeId) :
    (addChild a p pn k attrs).nodes[j]? =
      if j = a.nodes.size then some { kind := k, attrs := attrs, parent := some p }
      else if j = p then some { pn with children := pn.children ++ [a.nodes.size] }
      else a.nodes[j]? := by
  have hne : p ≠ a.nodes.size := Nat.ne_of_lt hp
  simp only [addChild, Array.getElem?_setIfInBounds, Array.getElem?_push, Array.size_setIfInBounds, Array.size_push]
  by_cases h1 : j = a.nodes.size
  · subst h1
    simp
  · have h1' : ¬ a.nodes.size = j := fun h => h1 h.symm
    by_cases h2 : j = p
    · have hlt : p < a.nodes.size + 1 := lt_succ_aux _ _ hp
      have hne' : ¬ a.nodes.size = p := fun h => hne h.symm
      simp [h2, hne, hne', hlt]
    · have h2' : ¬ p = j := fun h => h2 h.symm
      simp [h1, h2, h1', h2']

/-- `alloc` then `appendChild` of the fresh node -/
theorem alloc_appendChild (a : Arena) (p : NodeId) (pn : Node) (k attrs) (hp : a.nodes[p]? = some pn) :
    (a.alloc k attrs).1.appendChild p (a.alloc k attrs).2 = .ok (addChild a p pn k attrs) := by
  have hlt : p < a.nodes.size := (Array.getElem?_eq_some_iff.1 hp).1
  have hne : p ≠ a.nodes.size := Nat.ne_of_lt hlt
  have hne' : ¬ a.nodes.size = p := fun h => hne h.symm
  -- the arena after `alloc`
  have g1 : (a.alloc k attrs).1.get p = .ok pn := by
    simp [Arena.alloc, Arena.get, Array.getElem?_push, hne, hp]
  have g2 : (a.alloc k attrs).1.get (a.alloc k attrs).2 = .ok { kind := k, attrs := attrs } := by
    simp [Arena.alloc, Arena.get, Array.getElem?_push]
  have d : (a.alloc k attrs).1.detach (a.alloc k attrs).2 = .ok (a.alloc k attrs).1 := by
    simp only [Arena.detach, g2, ok_bind]
    rfl
  have m1 : (a.alloc k attrs).1.modify p (fun pn => { pn with children := pn.children ++ [(a.alloc k attrs).2] }) =
      .ok ⟨(a.nodes.push { kind := k, attrs := attrs }).setIfInBounds p
        { pn with children := pn.children ++ [a.nodes.size] }⟩ := by
    simp only [Arena.modify, g1, ok_bind]
    rfl
  simp only [Arena.appendChild, g1, d, m1, ok_bind]
  simp only [Arena.modify, Arena.get, Array.getElem?_setIfInBounds, Array.getElem?_push, Arena.alloc]
  simp [hne, hne', addChild, Arena.put]

end H5.Props.C07b
