/-
  Property C03 "parsing is total", fuel part — core definitions for the proof that `outOfFuel` is unreachable
  in the tree-construction model `H5.Model.TB`.

  * `Tr m st Q`   : running `m : M α` from `st` gives `.ok (a, st')` with `Q a st'`, or an error that is NOT
                    `outOfFuel` (weakest-precondition style; `Tr_bind` is an iff).
  * `RO m`        : `m` never changes the state (and never runs out of fuel).
  * `Fr m`        : `m` never changes the three phase registers `phase / originalPhase / tableTextOriginalPhase`.
  * `PhInv st`    : none of the three phase registers is `inForeignContent`
                    (`InForeignContentPhase.processEndTag` re-dispatches to `self.parser.phase`: with
                    `phase = inForeignContent` that is an infinite recursion; the registers never hold it).
  * `Pv m`        : `m` preserves `PhInv`.
  The three are type classes so that the specification of a helper is found by instance resolution.
-/
import H5.Model.TreeBuilder
import H5.Model.Parser
import H5.Proofs.ExceptLemmas
import H5.Props.C02cCore
set_option linter.unusedSimpArgs false
set_option linter.unusedVariables false
namespace H5.Props.C03b
open H5 H5.Model H5.Model.TB H5.Model.Dom
open H5.Props.C02c (NF Post Post_bind Post_mono Post_pure Post_ok Post_error Post_throw Post_ite
  NF_typeError NF_keyError NF_indexError NF_assertFail NF_valueError NF_lookupError)

theorem NF_attributeError (m) : NF (.attributeError m) := by intro _ h; cases h
theorem NF_recursion (m) : NF (.recursion m) := by intro _ h; cases h
theorem NF_parseError (m) : NF (.parseError m) := by intro _ h; cases h
theorem NF_unicodeEncode (m) : NF (.unicodeEncode m) := by intro _ h; cases h

/-- `m` run from `st` ends in a state/result satisfying `Q`, or fails with an error other than `outOfFuel` -/
def Tr {α : Type} (m : M α) (st : PState) (Q : α → PState → Prop) : Prop :=
  Post (m.run st) (fun r => Q r.1 r.2)

theorem Tr_pure {α : Type} (a : α) (st : PState) (Q : α → PState → Prop) :
    Tr (pure a : M α) st Q ↔ Q a st := Iff.rfl

theorem Tr_bind {α β : Type} (m : M α) (f : α → M β) (st : PState) (Q : β → PState → Prop) :
    Tr (m >>= f) st Q ↔ Tr m st (fun a st' => Tr (f a) st' Q) := by
  simp only [Tr, StateT.run_bind, Post_bind]

theorem Tr_map {α β : Type} (g : α → β) (m : M α) (st : PState) (Q : β → PState → Prop) :
    Tr (g <$> m) st Q ↔ Tr m st (fun a st' => Q (g a) st') := by
  simp only [Tr, StateT.run_map]
  cases m.run st <;> rfl

theorem Tr_mono {α : Type} {m : M α} {st : PState} {Q P : α → PState → Prop} (h : Tr m st Q)
    (hq : ∀ a st', Q a st' → P a st') : Tr m st P :=
  Post_mono h (fun r hr => hq r.1 r.2 hr)

theorem Tr_throw {α : Type} (e : PyErr) (st : PState) (Q : α → PState → Prop) :
    Tr (throw e : M α) st Q ↔ NF e := Iff.rfl

theorem Tr_fail {α : Type} (e : PyErr) (st : PState) (Q : α → PState → Prop) :
    Tr (fail e : M α) st Q ↔ NF e := Iff.rfl

theorem Tr_get (st : PState) (Q : PState → PState → Prop) : Tr (get : M PState) st Q ↔ Q st st := Iff.rfl

theorem Tr_set (s st : PState) (Q : PUnit → PState → Prop) : Tr (set s : M PUnit) st Q ↔ Q ⟨⟩ s := Iff.rfl

theorem Tr_modify (f : PState → PState) (st : PState) (Q : PUnit → PState → Prop) :
    Tr (modify f : M PUnit) st Q ↔ Q ⟨⟩ (f st) := Iff.rfl

theorem Tr_lift {α : Type} (x : Except PyErr α) (st : PState) (Q : α → PState → Prop) :
    Tr (liftM x : M α) st Q ↔ Post x (fun a => Q a st) := by
  cases x <;> rfl

theorem Tr_monadLift {α : Type} (x : Except PyErr α) (st : PState) (Q : α → PState → Prop) :
    Tr (monadLift x : M α) st Q ↔ Post x (fun a => Q a st) := by
  cases x <;> rfl

theorem Tr_ite {α : Type} (c : Prop) [Decidable c] (a b : M α) (st : PState) (Q : α → PState → Prop) :
    Tr (if c then a else b) st Q ↔ (if c then Tr a st Q else Tr b st Q) := by
  split <;> rfl

/-- the three phase registers -/
def F (st : PState) : Option Phase × Option Phase × Option Phase :=
  (st.phase, st.originalPhase, st.tableTextOriginalPhase)

/-- no phase register holds `inForeignContent` -/
def PhInv (st : PState) : Prop :=
  st.phase ≠ some .inForeignContent ∧ st.originalPhase ≠ some .inForeignContent ∧
    st.tableTextOriginalPhase ≠ some .inForeignContent

theorem PhInv_of_F {st st' : PState} (h : F st' = F st) (hi : PhInv st) : PhInv st' := by
  simp only [F, Prod.mk.injEq] at h
  simp only [PhInv] at hi ⊢
  rw [h.1, h.2.1, h.2.2]; exact hi

/-- read-only computations -/
class RO {α : Type} (m : M α) : Prop where
  out : ∀ st, Tr m st (fun _ st' => st' = st)

/-- computations that leave the phase registers alone -/
class Fr {α : Type} (m : M α) : Prop where
  out : ∀ st, Tr m st (fun _ st' => F st' = F st)

/-- computations that preserve `PhInv` -/
class Pv {α : Type} (m : M α) : Prop where
  out : ∀ st, PhInv st → Tr m st (fun _ st' => PhInv st')

instance (priority := 50) Fr_of_RO {α : Type} (m : M α) [h : RO m] : Fr m :=
  ⟨fun st => Tr_mono (h.out st) (fun _ _ e => by rw [e])⟩

instance (priority := 50) Pv_of_Fr {α : Type} (m : M α) [h : Fr m] : Pv m :=
  ⟨fun st hi => Tr_mono (h.out st) (fun _ _ e => PhInv_of_F e hi)⟩

/-! ### closure under the monad operations -/

instance RO_pure {α : Type} (a : α) : RO (pure a : M α) := ⟨fun _ => rfl⟩
instance RO_bind {α β : Type} (m : M α) (f : α → M β) [h1 : RO m] [h2 : ∀ a, RO (f a)] : RO (m >>= f) :=
  ⟨fun st => (Tr_bind ..).2 (Tr_mono (h1.out st) (fun a st' e => by subst e; exact (h2 a).out _))⟩
instance RO_map {α β : Type} (g : α → β) (m : M α) [h1 : RO m] : RO (g <$> m) :=
  ⟨fun st => (Tr_map ..).2 (h1.out st)⟩
instance RO_ite {α : Type} (c : Prop) [Decidable c] (a b : M α) [h1 : RO a] [h2 : RO b] :
    RO (if c then a else b) := by split <;> assumption
instance RO_get : RO (get : M PState) := ⟨fun _ => rfl⟩

instance Fr_bind {α β : Type} (m : M α) (f : α → M β) [h1 : Fr m] [h2 : ∀ a, Fr (f a)] : Fr (m >>= f) :=
  ⟨fun st => (Tr_bind ..).2 (Tr_mono (h1.out st)
    (fun a st' e => Tr_mono ((h2 a).out st') (fun _ _ e' => e'.trans e)))⟩
instance Fr_map {α β : Type} (g : α → β) (m : M α) [h1 : Fr m] : Fr (g <$> m) :=
  ⟨fun st => (Tr_map ..).2 (h1.out st)⟩
instance Fr_ite {α : Type} (c : Prop) [Decidable c] (a b : M α) [h1 : Fr a] [h2 : Fr b] :
    Fr (if c then a else b) := by split <;> assumption

instance Pv_bind {α β : Type} (m : M α) (f : α → M β) [h1 : Pv m] [h2 : ∀ a, Pv (f a)] : Pv (m >>= f) :=
  ⟨fun st hi => (Tr_bind ..).2 (Tr_mono (h1.out st hi) (fun a st' hi' => (h2 a).out st' hi'))⟩
instance Pv_map {α β : Type} (g : α → β) (m : M α) [h1 : Pv m] : Pv (g <$> m) :=
  ⟨fun st hi => (Tr_map ..).2 (h1.out st hi)⟩
instance Pv_ite {α : Type} (c : Prop) [Decidable c] (a b : M α) [h1 : Pv a] [h2 : Pv b] :
    Pv (if c then a else b) := by split <;> assumption

theorem RO_throw {α : Type} (e : PyErr) (h : NF e) : RO (throw e : M α) := ⟨fun _ => h⟩
theorem RO_lift {α : Type} (x : Except PyErr α) (h : Post x (fun _ => True)) : RO (liftM x : M α) :=
  ⟨fun st => (Tr_lift ..).2 (Post_mono h (fun _ _ => rfl))⟩
theorem RO_monadLift {α : Type} (x : Except PyErr α) (h : Post x (fun _ => True)) : RO (monadLift x : M α) :=
  ⟨fun st => (Tr_monadLift ..).2 (Post_mono h (fun _ _ => rfl))⟩

instance RO_throw_typeError {α : Type} (s) : RO (throw (.typeError s) : M α) := RO_throw _ (NF_typeError _)
instance RO_throw_keyError {α : Type} (s) : RO (throw (.keyError s) : M α) := RO_throw _ (NF_keyError _)
instance RO_throw_indexError {α : Type} (s) : RO (throw (.indexError s) : M α) := RO_throw _ (NF_indexError _)
instance RO_throw_assertFail {α : Type} (s) : RO (throw (.assertFail s) : M α) := RO_throw _ (NF_assertFail _)
instance RO_throw_valueError {α : Type} (s) : RO (throw (.valueError s) : M α) := RO_throw _ (NF_valueError _)
instance RO_throw_lookupError {α : Type} (s) : RO (throw (.lookupError s) : M α) := RO_throw _ (NF_lookupError _)
instance RO_throw_attributeError {α : Type} (s) : RO (throw (.attributeError s) : M α) :=
  RO_throw _ (NF_attributeError _)
instance RO_throw_recursion {α : Type} (s) : RO (throw (.recursion s) : M α) := RO_throw _ (NF_recursion _)
instance RO_throw_parseError {α : Type} (s) : RO (throw (.parseError s) : M α) := RO_throw _ (NF_parseError _)

/-- `modify` with a function that keeps the phase registers -/
theorem Fr_modify (f : PState → PState) (h : ∀ st, F (f st) = F st) : Fr (modify f : M PUnit) :=
  ⟨fun st => h st⟩

/-! ### running a computation: the bridge to statements about `Except` values -/

theorem Tr_run {α : Type} {m : M α} {st : PState} {Q : α → PState → Prop} (h : Tr m st Q) :
    ∀ site, m.run st ≠ .error (.outOfFuel site) := by
  intro site he
  unfold Tr at h
  rw [he] at h
  exact h site rfl

end H5.Props.C03b
