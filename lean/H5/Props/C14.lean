/-
  Property C14 — every character reference decodes to the standard's replacement.
  Tables are extracted from /repo on every run (H5.Gen.Entities, H5.Gen.Constants); the independent copy of
  the standard's named table is CPython's html.entities.html5 (H5.Gen.StdEntities, re-derived every run).
  The reference consumption code is the hand model H5.Model.CharRef (tied by ops tok / numcharref).
-/
import H5.Model.CharRef
import H5.Spec.CharRef
import H5.Gen.StdEntities
namespace H5.Props.C14
open H5 H5.Gen H5.Model

/-- **C14 (table).** html5lib's named character reference table is the standard's: all 2231 names and values. -/
theorem C14_table : entities = stdEntities := by decide +kernel

theorem C14_table_size : entities.length = 2231 := by decide +kernel

/-- keys of the numeric replacement table all lie below 160 -/
theorem repl_keys_small : replacementCharacters.all (fun kv => decide (kv.1 < 160)) = true := by decide +kernel

theorem lookup_none_of_large {β} (t : List (Nat × β)) (n : Nat) (h : t.all (fun kv => decide (kv.1 < 160)) = true)
    (hn : 160 ≤ n) : t.lookup n = none := by
  induction t with
  | nil => rfl
  | cons kv rest ih =>
    simp only [List.all_cons, Bool.and_eq_true, decide_eq_true_eq] at h
    have : (n == kv.1) = false := by simp; omega
    simp [List.lookup, this, ih h.2]

theorem numeric_small : ∀ n ∈ List.range 160, (numCharRef n).1 = [Spec.numChar n] := by decide +kernel

/-- **C14 (numeric).** for EVERY natural number (zero, surrogates, the C1 table, noncharacters, beyond
U+10FFFF, arbitrarily large) the decoded character is the standard's. -/
theorem C14_numeric (n : Nat) : (numCharRef n).1 = [Spec.numChar n] := by
  by_cases h : n < 160
  · exact numeric_small n (List.mem_range.mpr h)
  · have hn : 160 ≤ n := by omega
    have e1 : replacementCharacters.lookup n = none := lookup_none_of_large _ n repl_keys_small hn
    have e2 : Spec.c1Table.lookup n = none := lookup_none_of_large _ n (by decide) hn
    simp only [numCharRef, e1, Spec.numChar, e2]
    have h0 : ¬ n = 0 := by omega
    simp only [h0, if_false]
    by_cases h1 : n > 0x10FFFF
    · simp [h1, Ch.repl]
    · by_cases h2 : 0xD800 ≤ n ∧ n ≤ 0xDFFF
      · simp [h2, Ch.repl]
      · simp only [h1, h2, or_self, if_false]
        split <;> rfl

/-- the decoded character is always one code point that is a Unicode scalar value -/
theorem C14_numeric_scalar (n : Nat) : ∃ c, (numCharRef n).1 = [c] ∧ c ≤ 0x10FFFF ∧ ¬ (0xD800 ≤ c ∧ c ≤ 0xDFFF) := by
  refine ⟨Spec.numChar n, C14_numeric n, ?_⟩
  by_cases h : n < 160
  · have : ∀ n ∈ List.range 160, Spec.numChar n ≤ 0x10FFFF ∧ ¬ (0xD800 ≤ Spec.numChar n ∧ Spec.numChar n ≤ 0xDFFF) := by
      decide +kernel
    exact this n (List.mem_range.mpr h)
  · have e2 : Spec.c1Table.lookup n = none := lookup_none_of_large _ n (by decide) (by omega)
    simp only [Spec.numChar, e2]
    split
    · omega
    · split
      · omega
      · split <;> omega

/-- a parse error is queued exactly for the values the standard flags
(replacement table, surrogates, out of range, controls, noncharacters) -/
theorem C14_numeric_plain (n : Nat) (h : (numCharRef n).2 = none) : (numCharRef n).1 = [n] := by
  unfold numCharRef at h ⊢
  split at h
  · simp at h
  · split at h
    · simp at h
    · split at h
      · simp at h
      · rename_i h2 h3
        simp only [h2, if_false]
        split <;> rfl

example : (numCharRef 0x85).1 = [0x2026] := by decide
example : (numCharRef 0).1 = [0xFFFD] := by decide
example : (numCharRef 0x110000).1 = [0xFFFD] := by decide

end H5.Props.C14
