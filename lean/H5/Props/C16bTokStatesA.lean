/-
  Property C16b, tokenizer part — the state methods never fail with `ParseError` (part A; one instance per state method,
  all by `unfold f; pp_auto`).
-/
import H5.Props.C16bTokHelpers
set_option linter.unusedSimpArgs false
set_option linter.unusedVariables false
namespace H5.Props.C16b
open H5 H5.Gen H5.Model H5.Model.Tokenizer

instance PP_dataState (s : St) : PP (dataState s) := by unfold dataState; pp_auto
instance PP_entityDataState (s : St) : PP (entityDataState s) := by unfold entityDataState; pp_auto
instance PP_rcdataState (s : St) : PP (rcdataState s) := by unfold rcdataState; pp_auto
instance PP_characterReferenceInRcdata (s : St) : PP (characterReferenceInRcdata s) := by unfold characterReferenceInRcdata; pp_auto
instance PP_rawtextState (s : St) : PP (rawtextState s) := by unfold rawtextState; pp_auto
instance PP_scriptDataState (s : St) : PP (scriptDataState s) := by unfold scriptDataState; pp_auto
instance PP_plaintextState (s : St) : PP (plaintextState s) := by unfold plaintextState; pp_auto
instance PP_tagOpenState (s : St) : PP (tagOpenState s) := by unfold tagOpenState; pp_auto
instance PP_closeTagOpenState (s : St) : PP (closeTagOpenState s) := by unfold closeTagOpenState; pp_auto
instance PP_tagNameState (s : St) : PP (tagNameState s) := by unfold tagNameState; pp_auto
instance PP_rcdataLessThanSignState (s : St) : PP (rcdataLessThanSignState s) := by unfold rcdataLessThanSignState; pp_auto
instance PP_rcdataEndTagOpenState (s : St) : PP (rcdataEndTagOpenState s) := by unfold rcdataEndTagOpenState; pp_auto
instance PP_rcdataEndTagNameState (s : St) : PP (rcdataEndTagNameState s) := by unfold rcdataEndTagNameState; pp_auto
instance PP_rawtextLessThanSignState (s : St) : PP (rawtextLessThanSignState s) := by unfold rawtextLessThanSignState; pp_auto
instance PP_rawtextEndTagOpenState (s : St) : PP (rawtextEndTagOpenState s) := by unfold rawtextEndTagOpenState; pp_auto
instance PP_rawtextEndTagNameState (s : St) : PP (rawtextEndTagNameState s) := by unfold rawtextEndTagNameState; pp_auto
instance PP_scriptDataLessThanSignState (s : St) : PP (scriptDataLessThanSignState s) := by unfold scriptDataLessThanSignState; pp_auto
instance PP_scriptDataEndTagOpenState (s : St) : PP (scriptDataEndTagOpenState s) := by unfold scriptDataEndTagOpenState; pp_auto
instance PP_scriptDataEndTagNameState (s : St) : PP (scriptDataEndTagNameState s) := by unfold scriptDataEndTagNameState; pp_auto
instance PP_scriptDataEscapeStartState (s : St) : PP (scriptDataEscapeStartState s) := by unfold scriptDataEscapeStartState; pp_auto
instance PP_scriptDataEscapeStartDashState (s : St) : PP (scriptDataEscapeStartDashState s) := by unfold scriptDataEscapeStartDashState; pp_auto
instance PP_scriptDataEscapedState (s : St) : PP (scriptDataEscapedState s) := by unfold scriptDataEscapedState; pp_auto
instance PP_scriptDataEscapedDashState (s : St) : PP (scriptDataEscapedDashState s) := by unfold scriptDataEscapedDashState; pp_auto
instance PP_scriptDataEscapedDashDashState (s : St) : PP (scriptDataEscapedDashDashState s) := by unfold scriptDataEscapedDashDashState; pp_auto
instance PP_scriptDataEscapedLessThanSignState (s : St) : PP (scriptDataEscapedLessThanSignState s) := by unfold scriptDataEscapedLessThanSignState; pp_auto
instance PP_scriptDataEscapedEndTagOpenState (s : St) : PP (scriptDataEscapedEndTagOpenState s) := by unfold scriptDataEscapedEndTagOpenState; pp_auto
instance PP_scriptDataEscapedEndTagNameState (s : St) : PP (scriptDataEscapedEndTagNameState s) := by unfold scriptDataEscapedEndTagNameState; pp_auto
instance PP_scriptDataDoubleEscapeStartState (s : St) : PP (scriptDataDoubleEscapeStartState s) := by unfold scriptDataDoubleEscapeStartState; pp_auto
instance PP_scriptDataDoubleEscapedState (s : St) : PP (scriptDataDoubleEscapedState s) := by unfold scriptDataDoubleEscapedState; pp_auto
instance PP_scriptDataDoubleEscapedDashState (s : St) : PP (scriptDataDoubleEscapedDashState s) := by unfold scriptDataDoubleEscapedDashState; pp_auto
instance PP_scriptDataDoubleEscapedDashDashState (s : St) : PP (scriptDataDoubleEscapedDashDashState s) := by unfold scriptDataDoubleEscapedDashDashState; pp_auto
instance PP_scriptDataDoubleEscapedLessThanSignState (s : St) : PP (scriptDataDoubleEscapedLessThanSignState s) := by unfold scriptDataDoubleEscapedLessThanSignState; pp_auto
instance PP_scriptDataDoubleEscapeEndState (s : St) : PP (scriptDataDoubleEscapeEndState s) := by unfold scriptDataDoubleEscapeEndState; pp_auto
instance PP_beforeAttributeNameState (s : St) : PP (beforeAttributeNameState s) := by unfold beforeAttributeNameState; pp_auto

end H5.Props.C16b
