/-
  Property C04 — the parsed tree does not depend on the tree builder (model side).
  The arena model H5.Model.Dom carries the intended common semantics of both back ends and is tied to both by the tree
  correspondence.  Proved here: the facts about the abstraction (text merging, attribute dict) that the comparison of
  etree's text/tail representation with minidom's text nodes relies on.
-/
import H5.Model.Dom
namespace H5.Props.C04
open H5 H5.Model H5.Model.Dom

def isText : Tree → Bool
  | .text _ => true
  | _ => false

/-- no two adjacent text nodes and no empty text node -/
def TextNormal : List Tree → Prop
  | [] => True
  | [.text s] => s ≠ []
  | [_] => True
  | .text s :: t :: rest => s ≠ [] ∧ isText t = false ∧ TextNormal (t :: rest)
  | _ :: t :: rest => TextNormal (t :: rest)

theorem mergeText_head_nontext (t : Tree) (rest : List Tree) (h : isText t = false) :
    mergeText (t :: rest) = t :: mergeText rest := by
  cases t <;> simp_all [mergeText, isText]

/-- **C04 (normal form).** the abstraction never shows two adjacent text nodes nor an empty one: the etree
representation (text/tail strings) and the DOM representation (one text node per insertion) are compared after
the same normalisation. -/
theorem C04_mergeText_normal (l : List Tree) : TextNormal (mergeText l) := by
  induction l with
  | nil => simp [mergeText, TextNormal]
  | cons t rest ih =>
    by_cases ht : isText t = true
    · cases t <;> simp [isText] at ht
      rename_i s
      simp only [mergeText]
      cases hm : mergeText rest with
      | nil =>
        by_cases hs : s.isEmpty = true
        · simp [hs, TextNormal]
        · simp [hs, TextNormal]; simpa using hs
      | cons u rest' =>
        rw [hm] at ih
        cases u with
        | text s' =>
          simp only []
          cases rest' with
          | nil =>
            simp only [TextNormal] at ih ⊢
            intro h; simp at h; exact ih h.2
          | cons v rest'' =>
            simp only [TextNormal] at ih ⊢
            exact ⟨by intro h; simp at h; exact ih.1 h.2, ih.2⟩
        | doc cs => by_cases hs : s.isEmpty = true <;> simp_all [TextNormal, isText]
        | frag cs => by_cases hs : s.isEmpty = true <;> simp_all [TextNormal, isText]
        | doctype a b c => by_cases hs : s.isEmpty = true <;> simp_all [TextNormal, isText]
        | elem a b c d => by_cases hs : s.isEmpty = true <;> simp_all [TextNormal, isText]
        | comment c => by_cases hs : s.isEmpty = true <;> simp_all [TextNormal, isText]
    · simp only [Bool.not_eq_true] at ht
      rw [mergeText_head_nontext t rest ht]
      cases hm : mergeText rest with
      | nil => cases t <;> simp_all [TextNormal, isText]
      | cons u rest' =>
        rw [hm] at ih
        cases t <;> simp_all [TextNormal, isText]

/-! ### the attribute dict -/

theorem attrs_get_set_same (a : Attrs) (k : AttrKey) (v : Str) (hrefl : (k == k) = true) :
    (a.set k v).get? k = some v := by
  induction a with
  | nil => simp [Attrs.set, Attrs.get?, hrefl]
  | cons p rest ih =>
    obtain ⟨k', v'⟩ := p
    by_cases h : (k' == k) = true
    · simp [Attrs.set, Attrs.get?, h]
    · simp [Attrs.set, Attrs.get?, h, ih]

theorem attrs_get_set_other (a : Attrs) (k k2 : AttrKey) (v : Str) (hk : (k == k2) = false) (hk' : ∀ x : AttrKey, (x == k) = true → (x == k2) = false) :
    (a.set k v).get? k2 = a.get? k2 := by
  induction a with
  | nil => simp [Attrs.set, Attrs.get?, hk]
  | cons p rest ih =>
    obtain ⟨k', v'⟩ := p
    by_cases h : (k' == k) = true
    · simp [Attrs.set, Attrs.get?, h, hk' k' h]
    · by_cases h2 : (k' == k2) = true
      · simp [Attrs.set, Attrs.get?, h, h2]
      · simp [Attrs.set, Attrs.get?, h, h2, ih]

/-- setting a key keeps the insertion order of the existing keys (Python dict semantics) -/
theorem attrs_set_keys (a : Attrs) (k : AttrKey) (v : Str) :
    (a.set k v).keys = if a.contains k then a.keys else a.keys ++ [k] := by
  induction a with
  | nil => simp [Attrs.set, Attrs.keys, Attrs.contains, Attrs.get?]
  | cons p rest ih =>
    obtain ⟨k', v'⟩ := p
    by_cases h : (k' == k) = true
    · simp [Attrs.set, Attrs.keys, Attrs.contains, Attrs.get?, h]
    · simp only [Attrs.keys, Attrs.contains, Attrs.get?] at ih
      simp [Attrs.set, Attrs.keys, Attrs.contains, Attrs.get?, h, ih]
      split <;> simp [*]

end H5.Props.C04
