/-
  Property C02 "total", clean corollary: from the five entry states, with `currentToken` absent or the
  start-tag stub planted for "last start tag", tokenization *succeeds* within `fuelFor input` — except for the
  one genuine exception of the real code, the `ValueError` of `int()` on a decimal character reference with more
  than 4300 digits (NOTES "bugs" 1; mirrored by `pyInt`).  So the exact statement is
  `tokenize … = .ok toks  ∨  tokenize … = .error (.valueError _)`; every other `PyErr` site of the model
  (`TypeError`, `KeyError`, `IndexError`, `AssertionError`, `AttributeError`, fuel) is unreachable.
-/
import H5.Props.C02c
import H5.Props.C02cOkStatesA
import H5.Props.C02cOkStatesB
import H5.Props.C02cOkStatesC
import H5.Props.C02cOkStatesD
namespace H5.Props.C02c
open H5 H5.Gen H5.Model H5.Model.Tokenizer

/-- every `self.state()` call from a state satisfying the invariant succeeds or raises `ValueError`, and
re-establishes the invariant -/
theorem step_ok (s : St) (hi : Inv s) : OPost (step s) (fun r => r.1 = true → Inv r.2) := by
  unfold step
  split
  · exact dataState_ok s ‹_› hi
  · exact entityDataState_ok s ‹_› hi
  · exact rcdataState_ok s ‹_› hi
  · exact characterReferenceInRcdata_ok s ‹_› hi
  · exact rawtextState_ok s ‹_› hi
  · exact scriptDataState_ok s ‹_› hi
  · exact plaintextState_ok s ‹_› hi
  · exact tagOpenState_ok s ‹_› hi
  · exact closeTagOpenState_ok s ‹_› hi
  · exact tagNameState_ok s ‹_› hi
  · exact rcdataLessThanSignState_ok s ‹_› hi
  · exact rcdataEndTagOpenState_ok s ‹_› hi
  · exact rcdataEndTagNameState_ok s ‹_› hi
  · exact rawtextLessThanSignState_ok s ‹_› hi
  · exact rawtextEndTagOpenState_ok s ‹_› hi
  · exact rawtextEndTagNameState_ok s ‹_› hi
  · exact scriptDataLessThanSignState_ok s ‹_› hi
  · exact scriptDataEndTagOpenState_ok s ‹_› hi
  · exact scriptDataEndTagNameState_ok s ‹_› hi
  · exact scriptDataEscapeStartState_ok s ‹_› hi
  · exact scriptDataEscapeStartDashState_ok s ‹_› hi
  · exact scriptDataEscapedState_ok s ‹_› hi
  · exact scriptDataEscapedDashState_ok s ‹_› hi
  · exact scriptDataEscapedDashDashState_ok s ‹_› hi
  · exact scriptDataEscapedLessThanSignState_ok s ‹_› hi
  · exact scriptDataEscapedEndTagOpenState_ok s ‹_› hi
  · exact scriptDataEscapedEndTagNameState_ok s ‹_› hi
  · exact scriptDataDoubleEscapeStartState_ok s ‹_› hi
  · exact scriptDataDoubleEscapedState_ok s ‹_› hi
  · exact scriptDataDoubleEscapedDashState_ok s ‹_› hi
  · exact scriptDataDoubleEscapedDashDashState_ok s ‹_› hi
  · exact scriptDataDoubleEscapedLessThanSignState_ok s ‹_› hi
  · exact scriptDataDoubleEscapeEndState_ok s ‹_› hi
  · exact beforeAttributeNameState_ok s ‹_› hi
  · exact attributeNameState_ok s ‹_› hi
  · exact afterAttributeNameState_ok s ‹_› hi
  · exact beforeAttributeValueState_ok s ‹_› hi
  · exact attributeValueDoubleQuotedState_ok s ‹_› hi
  · exact attributeValueSingleQuotedState_ok s ‹_› hi
  · exact attributeValueUnQuotedState_ok s ‹_› hi
  · exact afterAttributeValueState_ok s ‹_› hi
  · exact selfClosingStartTagState_ok s ‹_› hi
  · exact bogusCommentState_ok s ‹_› hi
  · exact markupDeclarationOpenState_ok s ‹_› hi
  · exact commentStartState_ok s ‹_› hi
  · exact commentStartDashState_ok s ‹_› hi
  · exact commentState_ok s ‹_› hi
  · exact commentEndDashState_ok s ‹_› hi
  · exact commentEndState_ok s ‹_› hi
  · exact commentEndBangState_ok s ‹_› hi
  · exact doctypeState_ok s ‹_› hi
  · exact beforeDoctypeNameState_ok s ‹_› hi
  · exact doctypeNameState_ok s ‹_› hi
  · exact afterDoctypeNameState_ok s ‹_› hi
  · exact afterDoctypePublicKeywordState_ok s ‹_› hi
  · exact beforeDoctypePublicIdentifierState_ok s ‹_› hi
  · exact doctypePublicIdentifierDoubleQuotedState_ok s ‹_› hi
  · exact doctypePublicIdentifierSingleQuotedState_ok s ‹_› hi
  · exact afterDoctypePublicIdentifierState_ok s ‹_› hi
  · exact betweenDoctypePublicAndSystemIdentifiersState_ok s ‹_› hi
  · exact afterDoctypeSystemKeywordState_ok s ‹_› hi
  · exact beforeDoctypeSystemIdentifierState_ok s ‹_› hi
  · exact doctypeSystemIdentifierDoubleQuotedState_ok s ‹_› hi
  · exact doctypeSystemIdentifierSingleQuotedState_ok s ‹_› hi
  · exact afterDoctypeSystemIdentifierState_ok s ‹_› hi
  · exact bogusDoctypeState_ok s ‹_› hi
  · exact cdataSectionState_ok s ‹_› hi

theorem tokenize_ok (fuel : Nat) (s : St) (h : μ s < fuel) (hi : Inv s) :
    OPost (tokenize fuel s) (fun _ => True) := by
  induction fuel generalizing s with
  | zero => omega
  | succ fuel ih =>
    simp only [tokenize, OPost_bind]
    have hd := step_post s
    refine OPost_mono (Q := fun r => (r.1 = true → Inv r.2) ∧ Dec s.input.length (w s.state) r) ?_ ?_
    · have ho := step_ok s hi
      cases hst : step s with
      | error e => rw [hst] at ho; exact ho
      | ok r => rw [hst] at ho hd; exact ⟨ho, hd⟩
    · rintro ⟨cont, s'⟩ ⟨hinv, hdec⟩
      cases cont with
      | false => trivial
      | true =>
        have hdec := hdec rfl
        have hinv : Inv s' := hinv rfl
        simp only at hdec
        simp only [Bool.not_true, Bool.false_eq_true, ↓reduceIte, OPost_bind]
        refine OPost_mono (ih { s' with tokenQueue := [] } ?_ hinv) ?_
        · simp only [μ] at h ⊢; omega
        · intro _ _; trivial

/-- the five states the parser / the test harness start the tokenizer in -/
def entryState (st : State) : Prop :=
  st = .dataState ∨ st = .rcdataState ∨ st = .rawtextState ∨ st = .scriptDataState ∨ st = .plaintextState

theorem inv_init (st : State) (hst : entryState st) (last : Option Str) (cd : Bool) (input : Str) :
    Inv (St.init st last cd input) := by
  rcases hst with h | h | h | h | h <;> subst h <;> cases last <;> rfl

/-- **C02 (total, entry states).** From an entry state the model returns the token list, or raises the
`ValueError` of `int()` on > 4300 digits; nothing else — in particular it never runs out of fuel. -/
theorem C02_total_entry (st : State) (hst : entryState st) (last : Option Str) (cd : Bool) (input : Str) :
    (∃ toks, tokenize (fuelFor input) (St.init st last cd input) = .ok toks) ∨
    (∃ m, tokenize (fuelFor input) (St.init st last cd input) = .error (.valueError m)) := by
  have h := tokenize_ok (fuelFor input) _ (mu_init_lt st last cd input) (inv_init st hst last cd input)
  cases hr : tokenize (fuelFor input) (St.init st last cd input) with
  | ok toks => exact Or.inl ⟨toks, rfl⟩
  | error e =>
    rw [hr] at h
    obtain ⟨m, rfl⟩ := h
    exact Or.inr ⟨m, rfl⟩

/-- the same for `tokenizeAll`.  (Non-vacuity: the left alternative is witnessed by the `example` in
`H5.Props.C02c`; the right one by `&#` followed by 4301 decimal digits, which the C02 harness runs against the
real tokenizer — in the model the only sources of `valueError` are `pyInt` / `pyIntDigits`.) -/
theorem tokenizeAll_entry (st : State) (hst : entryState st) (last : Option Str) (input : Str) (cd : Bool) :
    (∃ toks, tokenizeAll st last input cd = .ok toks) ∨ (∃ m, tokenizeAll st last input cd = .error (.valueError m)) :=
  C02_total_entry st hst last cd input

end H5.Props.C02c
