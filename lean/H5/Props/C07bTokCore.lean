/-
  Property C07b (tokenizer side) — single-pull lemmas for `Tokenizer.next` on the serializer's output language.

  This file: the `Steps` framework (a run of `step` calls with an empty queue in between), how `next` follows
  such a run, membership facts about the character classes, evaluation of the small helpers.
-/
import H5.Model.Tokenizer
import H5.Model.Serializer
import H5.Props.C08c
set_option linter.unusedSimpArgs false
namespace H5.Props.C07b
open H5 H5.Gen H5.Model H5.Model.Tokenizer
open H5.Model.Serializer (escape Opts attrOut)
open H5.Spec.Tokenizer (isWhitespace isASCIILowerAlpha isASCIIUpperAlpha)
open H5.Props.C08c

/-- the tokenizer is in the data state on `inp` with nothing queued -/
def DataAt (ts : St) (inp : Str) : Prop := ts.state = .dataState ∧ ts.input = inp ∧ ts.tokenQueue = []

/-! ### Runs of state-method calls -/

/-- `k` calls of `step`, each starting with an empty queue and returning `True` -/
def Steps : Nat → St → St → Prop
  | 0, s, s' => s = s'
  | k + 1, s, s' => s.tokenQueue = [] ∧ ∃ m, step s = .ok (true, m) ∧ Steps k m s'

theorem Steps.refl (s : St) : Steps 0 s s := rfl

theorem Steps.single {s m : St} (hq : s.tokenQueue = []) (h : step s = .ok (true, m)) : Steps 1 s m :=
  ⟨hq, m, h, rfl⟩

theorem Steps.trans : ∀ {a b : Nat} {s m s' : St}, Steps a s m → Steps b m s' → Steps (a + b) s s'
  | 0, b, s, m, s', h1, h2 => by
    have : s = m := h1
    subst this; simpa using h2
  | a + 1, b, s, m, s', h1, h2 => by
    obtain ⟨hq, m1, hs, hr⟩ := h1
    have := Steps.trans hr h2
    rw [show a + 1 + b = (a + b) + 1 by omega]
    exact ⟨hq, m1, hs, this⟩

theorem nextFuel_step {fuel : Nat} {s m : St} (hq : s.tokenQueue = []) (hs : step s = .ok (true, m)) :
    nextFuel (fuel + 1) s = nextFuel fuel m := by
  rw [nextFuel]
  simp [hq, hs, bind, Except.bind]

theorem nextFuel_pop {fuel : Nat} {s : St} {t : TTok} {q : List TTok} (hq : s.tokenQueue = t :: q) :
    nextFuel (fuel + 1) s = .ok (some (t, { s with tokenQueue := q })) := by
  rw [nextFuel]
  simp [hq]

theorem nextFuel_of_steps : ∀ {k : Nat} {s s' : St}, Steps k s s' → ∀ fuel, nextFuel (fuel + k) s = nextFuel fuel s'
  | 0, s, s', h, fuel => by
    have : s = s' := h
    subst this; rfl
  | k + 1, s, s', h, fuel => by
    obtain ⟨hq, m, hs, hr⟩ := h
    rw [show fuel + (k + 1) = (fuel + k) + 1 by omega, nextFuel_step hq hs]
    exact nextFuel_of_steps hr fuel

/-- at most `n` calls -/
def StepsLe (n : Nat) (s s' : St) : Prop := ∃ k, k ≤ n ∧ Steps k s s'

theorem StepsLe.refl (s : St) : StepsLe 0 s s := ⟨0, Nat.le_refl _, rfl⟩

theorem StepsLe.single {s m : St} (hq : s.tokenQueue = []) (h : step s = .ok (true, m)) : StepsLe 1 s m :=
  ⟨1, Nat.le_refl _, Steps.single hq h⟩

theorem StepsLe.trans {a b : Nat} {s m s' : St} (h1 : StepsLe a s m) (h2 : StepsLe b m s') : StepsLe (a + b) s s' := by
  obtain ⟨k1, l1, r1⟩ := h1
  obtain ⟨k2, l2, r2⟩ := h2
  exact ⟨k1 + k2, by omega, r1.trans r2⟩

theorem StepsLe.mono {a b : Nat} {s s' : St} (h : StepsLe a s s') (hab : a ≤ b) : StepsLe b s s' := by
  obtain ⟨k, l, r⟩ := h
  exact ⟨k, by omega, r⟩

/-- **how `next` follows a run**: if at most `n` calls lead to a state with exactly `t` queued, `next` returns `t`
and that state with an empty queue -/
theorem next_of_steps {n : Nat} {s s' : St} {t : TTok} (h : StepsLe n s s') (hq : s'.tokenQueue = [t])
    (hn : n ≤ 8 * s.input.length + 64) :
    next s = .ok (some (t, { s' with tokenQueue := [] })) := by
  obtain ⟨k, hk, r⟩ := h
  unfold next fuelFor
  have e : 8 * s.input.length + 64 + 1 = (8 * s.input.length + 64 - k) + 1 + k := by omega
  rw [e, nextFuel_of_steps r, nextFuel_pop hq]

/-! ### Character classes -/

theorem asciiLetters_contains (c : Nat) :
    asciiLetters.contains c = ((65 ≤ c && c ≤ 90) || (97 ≤ c && c ≤ 122)) := by
  by_cases h : c < 123
  · have : ∀ c < 123, asciiLetters.contains c = ((decide (65 ≤ c) && decide (c ≤ 90)) || (decide (97 ≤ c) && decide (c ≤ 122))) := by
      decide
    exact this c h
  · have h1 : asciiLetters.contains c = false := by
      have hall : ∀ x ∈ asciiLetters, x < 123 := by decide
      cases hc : asciiLetters.contains c with
      | false => rfl
      | true =>
        have := hall c (by simpa using hc)
        omega
    rw [h1]
    simp
    omega

theorem space_contains (c : Nat) :
    spaceCharacters.contains c = (decide (c = 9) || decide (c = 10) || decide (c = 12) || decide (c = 13) || decide (c = 32)) := by
  simp [spaceCharacters, List.contains_cons, eq_comm, Bool.or_assoc]

theorem mem_asciiLetters (c : Nat) : c ∈ asciiLetters ↔ (65 ≤ c ∧ c ≤ 90) ∨ (97 ≤ c ∧ c ≤ 122) := by
  have := asciiLetters_contains c
  rw [← List.contains_iff_mem, this]
  simp

theorem mem_spaceCharacters (c : Nat) : c ∈ spaceCharacters ↔ c = 9 ∨ c = 10 ∨ c = 12 ∨ c = 13 ∨ c = 32 := by
  simp [spaceCharacters]

/-- unfold one state method on an explicit state -/
macro "tok_simp" "[" ts:Lean.Parser.Tactic.simpLemma,* "]" : tactic => `(tactic| simp [step, St.char, Stream.char,
  Tokenizer.ok, St.to, St.unget, Stream.unget, St.emit, St.emitChars, St.parseError, St.setTempBuf, isIn, nonEOF,
  mem_asciiLetters, mem_spaceCharacters, St.modCur, St.cur, St.charsUntil, Stream.charsUntil,
  Ch.amp, Ch.lt, Ch.gt, Ch.nul, Ch.bang, Ch.slash, Ch.dash, Ch.qmark, Ch.eq, Ch.squote, Ch.dquote, Ch.backtick,
  Ch.semi, Ch.hash, Ch.lbracket, Ch.rbracket, Ch.repl, bind, Except.bind, pure, Except.pure, $ts,*])

theorem span_loop_eq {α : Type} (p : α → Bool) : ∀ (l acc : List α),
    List.span.loop p l acc = (acc.reverse ++ l.takeWhile p, l.dropWhile p)
  | [], acc => by simp [List.span.loop]
  | a :: l, acc => by
    unfold List.span.loop
    cases h : p a
    · simp [List.takeWhile_cons, List.dropWhile_cons, h]
    · simp [List.takeWhile_cons, List.dropWhile_cons, h, span_loop_eq p l (a :: acc)]

theorem span_eq {α : Type} (p : α → Bool) (l : List α) : l.span p = (l.takeWhile p, l.dropWhile p) := by
  simp [List.span, span_loop_eq]

/-! ### `charsUntil` over a character-by-character substitution -/

/-- `span p` over `v.flatMap esc ++ rest`, when the characters of class `q` are written as themselves and satisfy
`p`, every other character is written as a string that starts with a non-`p` character, and `rest` does not
start with a `p` character: the run is the longest `q`-prefix of `v` -/
theorem span_flatMap (p q : Nat → Bool) (esc : Nat → Str) (rest : Str)
    (hrest : rest = [] ∨ ∃ x t, rest = x :: t ∧ p x = false) :
    ∀ (v : Str), (∀ c ∈ v, q c = true → esc c = [c] ∧ p c = true) →
      (∀ c ∈ v, q c = false → ∃ x t, esc c = x :: t ∧ p x = false) →
      (v.flatMap esc ++ rest).span p = (v.takeWhile q, (v.dropWhile q).flatMap esc ++ rest) := by
  intro v
  induction v with
  | nil =>
    intro _ _
    rcases hrest with rfl | ⟨x, t, rfl, hx⟩
    · rfl
    · simp [span_eq, List.takeWhile_cons, List.dropWhile_cons, hx]
  | cons c v ih =>
    intro h1 h2
    have ih' := ih (fun x hx => h1 x (List.mem_cons_of_mem _ hx)) (fun x hx => h2 x (List.mem_cons_of_mem _ hx))
    rw [span_eq] at ih' ⊢
    cases hq : q c with
    | true =>
      obtain ⟨e, hp⟩ := h1 c (by simp) hq
      simp only [List.flatMap_cons, e, List.cons_append, List.nil_append, List.takeWhile_cons, List.dropWhile_cons,
        hp, hq, if_true]
      have := Prod.mk.inj ih'
      rw [this.1, this.2]
    | false =>
      obtain ⟨x, t, e, hp⟩ := h2 c (by simp) hq
      simp [List.flatMap_cons, e, List.takeWhile_cons, List.dropWhile_cons, hp, hq]


/-! ### Loops that read a substituted string, some characters in bulk -/

/-- a state method that, in the states `state acc i` (`acc` = what has been accumulated, `i` = the input), reads a
character of class `q` together with the following run of `p` characters (`charsUntil`), and any other character `c`
from its written form `esc c`: over `v.flatMap esc` it accumulates exactly `v`, in at most `|v|` calls -/
theorem loop_generic (state : Str → Str → St) (p q : Nat → Bool) (esc : Nat → Str) (okc : Nat → Prop)
    (hq : ∀ acc i, (state acc i).tokenQueue = [])
    (hplain : ∀ c acc i, okc c → q c = true →
      step (state acc (c :: i)) = .ok (true, state (acc ++ c :: (i.span p).1) (i.span p).2))
    (hspecial : ∀ c acc i, okc c → q c = false → step (state acc (esc c ++ i)) = .ok (true, state (acc ++ [c]) i))
    (hesc1 : ∀ c, okc c → q c = true → esc c = [c] ∧ p c = true)
    (hesc2 : ∀ c, okc c → q c = false → ∃ x t, esc c = x :: t ∧ p x = false)
    (rest : Str) (hrest : rest = [] ∨ ∃ x t, rest = x :: t ∧ p x = false) :
    ∀ (k : Nat) (v : Str), v.length ≤ k → (∀ c ∈ v, okc c) → ∀ (acc : Str),
      StepsLe v.length (state acc (v.flatMap esc ++ rest)) (state (acc ++ v) rest) := by
  intro k
  induction k with
  | zero =>
    intro v hk _ acc
    have : v = [] := List.eq_nil_of_length_eq_zero (by omega)
    subst this
    simpa using StepsLe.refl _
  | succ k ih =>
    intro v hk hv acc
    cases v with
    | nil => simpa using StepsLe.refl _
    | cons c v' =>
      have hc := hv c (by simp)
      have hv' : ∀ x ∈ v', okc x := fun x hx => hv x (List.mem_cons_of_mem _ hx)
      cases hqc : q c with
      | true =>
        obtain ⟨e, _⟩ := hesc1 c hc hqc
        have s1 := hplain c acc (v'.flatMap esc ++ rest) hc hqc
        rw [span_flatMap p q esc rest hrest v' (fun x hx => hesc1 x (hv' x hx)) (fun x hx => hesc2 x (hv' x hx))] at s1
        have hlen : (v'.dropWhile q).length ≤ v'.length := (List.dropWhile_suffix _).length_le
        have hv'' : ∀ x ∈ v'.dropWhile q, okc x := fun x hx => hv' x ((List.dropWhile_suffix _).subset hx)
        have s2 := ih (v'.dropWhile q) (by simp at hk; omega) hv'' (acc ++ c :: v'.takeWhile q)
        have := (StepsLe.single (hq _ _) s1).trans s2
        simp only [List.flatMap_cons, e, List.cons_append, List.nil_append, List.append_assoc,
          List.takeWhile_append_dropWhile] at this ⊢
        exact this.mono (by simp only [List.length_cons]; omega)
      | false =>
        have s1 := hspecial c acc (v'.flatMap esc ++ rest) hc hqc
        have s2 := ih v' (by simp at hk; omega) hv' (acc ++ [c])
        have := (StepsLe.single (hq _ _) s1).trans s2
        simp only [List.flatMap_cons, List.append_assoc, List.cons_append, List.nil_append] at this ⊢
        exact this.mono (by simp only [List.length_cons]; omega)

theorem length_le_flatMap (esc : Nat → Str) (h : ∀ c, 1 ≤ (esc c).length) : ∀ v : Str, v.length ≤ (v.flatMap esc).length
  | [] => by simp
  | c :: v => by
    have := length_le_flatMap esc h v
    have := h c
    simp only [List.flatMap_cons, List.length_append, List.length_cons]
    omega

/-- arithmetic side conditions about lengths -/
macro "len_tac" : tactic => `(tactic| first | omega | (simp; done) | (simp; omega) | (simp at *; omega))

/-! ### Executable runs (for fixed prefixes such as `<!DOCTYPE html>`) -/

/-- `k` calls of `step` as a function -/
def run : Nat → St → Option St
  | 0, s => some s
  | k + 1, s =>
    if s.tokenQueue = [] then
      match step s with
      | .ok (true, m) => run k m
      | _ => none
    else none

theorem steps_of_run : ∀ {k : Nat} {s s' : St}, run k s = some s' → Steps k s s'
  | 0, s, s', h => by
    have : s = s' := by simpa [run] using h
    exact this
  | k + 1, s, s', h => by
    unfold run at h
    split at h
    · rename_i hq
      split at h
      · rename_i m hm
        exact ⟨hq, m, hm, steps_of_run h⟩
      · cases h
    · cases h

theorem stepsLe_of_run {k : Nat} {s s' : St} (h : run k s = some s') : StepsLe k s s' :=
  ⟨k, Nat.le_refl _, steps_of_run h⟩

/-! ### Lower-casing is the identity on names without upper-case ASCII letters -/

theorem lookup_upper_none (c : Nat) (h : isASCIIUpperAlpha c = false) : asciiUpper2Lower.lookup c = none := by
  simp [isASCIIUpperAlpha] at h
  rw [List.lookup_eq_none_iff]
  intro p hp
  have : ∀ p ∈ asciiUpper2Lower, 65 ≤ p.1 ∧ p.1 ≤ 90 := by decide
  have := this p hp
  simp
  omega

theorem translate_id (n : Str) (h : ∀ c ∈ n, isASCIIUpperAlpha c = false) : translateUpper2Lower n = n := by
  unfold translateUpper2Lower
  induction n with
  | nil => rfl
  | cons c n ih =>
    simp only [List.map_cons, lookup_upper_none c (h c (by simp)), Option.getD_none]
    rw [ih (fun x hx => h x (List.mem_cons_of_mem _ hx))]

end H5.Props.C07b
