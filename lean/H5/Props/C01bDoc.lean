/-
  C01b — the SPECIFICATION on the tokens of a whole covered document: DOCTYPE, `<html>`, `<head>` (prefix), the head
  content, `</head>`, `<body>`, the body content, `</body>`, `</html>`, end of file.
-/
import H5.Props.C01bForest
set_option linter.unusedSimpArgs false
set_option linter.unusedVariables false
namespace H5.Props.C01b
open H5 H5.Spec.TC
open H5.Props.C07b (fmtName fmtNames catOf voidName Cat okNode okForest G0 headOK docTree commentOKm htmlNs sHtml sHead
  sBody sTitle isText Ctx attrsPlain)
open H5.Props.C08c (valueOK startTagOK)

/-- one token through `processToken`, from explicit facts about the state -/
theorem processToken_raw (s s' : St) (t : Token) (hstop : s.stopped = false) (hskip : s.skipNextLF = false)
    (huse : (useHtmlRules t).run s = .ok (true, s)) (hrun : ∀ r : Rec, (runMode r s.mode t).run s = .ok ((), s')) :
    (processToken t).run s = .ok ((), s') := by
  unfold processToken
  simp only [run_bind, get_run, ok_bind, hstop, hskip, Bool.false_eq_true, ↓reduceIte, Bool.false_and]
  unfold dispatchN
  have hf : dispatchFuel s = (63 + 2 * s.stack.length) + 1 := by unfold dispatchFuel; omega
  rw [hf]
  show (do if ← useHtmlRules t then runMode (knot (63 + 2 * s.stack.length)) (← get).mode t
           else foreignContent (knot (63 + 2 * s.stack.length)) t : M Unit).run s = _
  simp only [run_bind, huse, ok_bind, ↓reduceIte, get_run, hrun]

theorem useHtmlRules_empty (s : St) (t : Token) (hc : s.context = none) (hs : s.stack = []) :
    (useHtmlRules t).run s = .ok (true, s) := by
  unfold useHtmlRules adjustedCurrentNode
  simp only [run_bind, get_run, ok_bind, hc, hs, run_pure]

/-! ### the prefix -/

/-- a new parser (`initState` for a document) -/
def st0 (sc : Bool) : St := { arena := #[{ kind := .document }], document := 0, scripting := sc }

theorem initState_doc (sc : Bool) : initState { scripting := sc } = .ok (st0 sc) := rfl

def nDoc : Node := { kind := .document, children := [1, 2] }
def nDoctype : Node := { kind := .doctype sHtml [] [], parent := some 0 }
def nHtml3 : Node := { kind := .element .html sHtml [], parent := some 0, children := [3] }
def nHead : Node := { kind := .element .html sHead [], parent := some 2 }

/-- the state after DOCTYPE, `<html>`, `<head>` -/
def st3 (sc : Bool) : St :=
  { arena := #[nDoc, nDoctype, nHtml3, nHead], document := 0, scripting := sc, stack := [3, 2], mode := .inHead,
    headPointer := some 3, quirks := quirksOf (some sHtml) none none false }

theorem arena3 : addChild (addChild (addChild (#[{ kind := .document }] : Arena) 0 (.doctype sHtml [] [])) 0
    (.element .html sHtml [])) 2 (.element .html sHead []) = #[nDoc, nDoctype, nHtml3, nHead] := by rfl

theorem step_doctype (sc : Bool) :
    (processToken (.doctype (some sHtml) none none false)).run (st0 sc) =
      .ok ((), { st0 sc with arena := addChild (st0 sc).arena 0 (.doctype sHtml [] []),
                             quirks := quirksOf (some sHtml) none none false, mode := .beforeHtml }) := by
  refine processToken_raw _ _ _ rfl rfl (useHtmlRules_empty _ _ rfl rfl) (fun r => ?_)
  show (modeInitial r (.doctype (some sHtml) none none false)).run (st0 sc) = _
  unfold modeInitial
  simp only [run_bind, get_run, ok_bind, newNode_run, Option.getD_some, Option.getD_none]
  have ha := append_new_run (st0 sc) 0 (.doctype sHtml [] []) (Nat.zero_lt_one)
  unfold appendNode
  erw [ha]
  rfl

def st1 (sc : Bool) : St :=
  { arena := #[{ kind := .document, children := [1] }, nDoctype], document := 0, scripting := sc, mode := .beforeHtml,
    quirks := quirksOf (some sHtml) none none false }

def st2 (sc : Bool) : St :=
  { arena := #[nDoc, nDoctype, { kind := .element .html sHtml [], parent := some 0 }], document := 0, scripting := sc,
    stack := [2], mode := .beforeHead, quirks := quirksOf (some sHtml) none none false }

theorem step1 (sc : Bool) : (processToken (.doctype (some sHtml) none none false)).run (st0 sc) = .ok ((), st1 sc) := by
  rw [step_doctype]; rfl

theorem step2 (sc : Bool) : (processToken (.startTag sHtml [] false)).run (st1 sc) = .ok ((), st2 sc) := by
  refine processToken_raw _ _ _ rfl rfl (useHtmlRules_empty _ _ rfl rfl) (fun r => ?_)
  show (modeBeforeHtml r (.startTag sHtml [] false)).run (st1 sc) = _
  have e1 : (sHtml == lit "html") = true := by decide +kernel
  have ha := append_new_run (st1 sc) 0 (.element .html sHtml []) (show 0 < 2 by omega)
  unfold modeBeforeHtml
  simp only [run_bind, get_run, ok_bind, e1, ↓reduceIte, createElement_run (st1 sc) .html sHtml (plainAttrs [])
    (by decide +kernel)]
  unfold appendNode
  erw [ha]
  rfl

theorem step3 (sc : Bool) : (processToken (.startTag sHead [] false)).run (st2 sc) = .ok ((), st3 sc) := by
  have hn : (st2 sc).arena[2]? = some { kind := .element .html sHtml [], parent := some 0 } := rfl
  refine processToken_raw _ _ _ rfl rfl (useHtmlRules_run (st2 sc) _ 2 [] _ sHtml [] rfl rfl hn rfl) (fun r => ?_)
  show (modeBeforeHead r (.startTag sHead [] false)).run (st2 sc) = _
  have e1 : (sHead == lit "html") = false := by decide +kernel
  have e2 : (sHead == lit "head") = true := by decide +kernel
  unfold modeBeforeHead
  simp only [run_bind, ok_bind, e1, e2, Bool.false_eq_true, ↓reduceIte,
    insertHtmlElement_run (st2 sc) 2 [] _ sHead [] rfl rfl hn rfl ⟨sHtml, [], rfl⟩ (by decide +kernel), modify_run]
  rfl

/-- the prefix: DOCTYPE, `<html>`, `<head>` -/
theorem prefix_reach (sc : Bool) :
    Reach (st0 sc) [.doctype (some sHtml) none none true, .startTag sHtml [] false, .startTag sHead [] false] (st3 sc) := by
  have r1 : Reach (st0 sc) [.doctype (some sHtml) none none true] (st1 sc) :=
    Reach.single (tokRun_one _ _ rfl _ _ (step1 sc))
  have r2 : Reach (st1 sc) [.startTag sHtml [] false] (st2 sc) := Reach.single (tokRun_one _ _ rfl _ _ (step2 sc))
  have r3 : Reach (st2 sc) [.startTag sHead [] false] (st3 sc) := Reach.single (tokRun_one _ _ rfl _ _ (step3 sc))
  exact r1.trans (r2.trans r3)

def docFrame : SFrame := { id := 0, node := nDoc, kids := [.doctype (some sHtml) (some []) (some [])] }
def htmlFrame3 : SFrame := { id := 2, node := nHtml3, kids := [] }
def headFrame : SFrame := { id := 3, node := nHead, kids := [] }

theorem st3_inv (sc : Bool) : SInv .inHead (st3 sc) [docFrame, htmlFrame3] headFrame where
  mode := rfl
  stack := rfl
  afe := rfl
  ctx := rfl
  foster := rfl
  skip := rfl
  stopped := rfl
  tmpl := rfl
  docId := rfl
  dev := rfl
  frames := by
    refine ⟨⟨rfl, by decide, rfl, ⟨[1], rfl, .cons (.doctype (n := nDoctype) rfl rfl (by decide)) .nil⟩,
      ⟨rfl, by decide, rfl, ⟨[], rfl, .nil⟩, trivial⟩⟩, rfl, by decide, .nil⟩
  kinds := by
    intro g hg
    simp only [opens, List.drop_succ_cons, List.drop_zero, List.cons_append, List.nil_append, List.mem_cons,
      List.not_mem_nil, or_false] at hg
    rcases hg with rfl | rfl
    · exact ⟨sHtml, [], rfl⟩
    · exact ⟨sHead, [], rfl⟩
  content := by
    intro g hg
    simp only [List.cons_append, List.nil_append, List.mem_cons, List.not_mem_nil, or_false] at hg
    rcases hg with rfl | rfl | rfl <;> rfl
  noTextLast := by intro _ d hd; cases hd
  fsne := by simp

/-! ### the head -/

/-- `<title>` in the "in head" insertion mode: generic RCDATA element parsing -/
theorem step_head_title {s fs f} (h : SInv .inHead s fs f) :
    ∃ s', (processToken (.startTag sTitle [] false)).run s = .ok ((), s') ∧
      SInv .text s' (fs ++ [f.withChild s.arena.size]) (newFrame s.arena.size f.id sTitle []) ∧
      s'.originalMode = .inHead := by
  have hK : among sTitle [sTitle] = true := among_singleton _
  have hnt : (sTitle == lit "template") = false := by decide +kernel
  have e1 : (sTitle == lit "title") = true := by decide +kernel
  refine ⟨{ s with arena := addChild s.arena f.id (.element .html sTitle (plainAttrs [])), stack := s.arena.size :: s.stack,
                   tokSwitch := some .rcdata, originalMode := s.mode, mode := .text },
    processToken_of_mode h _ (fun r => ?_), ?_, h.mode⟩
  · show (modeInHead r (.startTag sTitle [] false)).run s = _
    unfold modeInHead
    simp (disch := decide +kernel) only [h.dev, run_bind, get_run, ok_bind, among_disjoint hK, beq_disjoint _ hK, e1,
      Bool.false_eq_true, ↓reduceIte, Bool.or_false, Bool.false_and, Bool.and_false, Bool.false_or]
    unfold genericTextParsing
    simp only [run_bind, h.insertHtmlElement_run sTitle [] hnt, ok_bind, modify_run, switchTokenizer, setMode, h.dev]
  · exact h.pushed sTitle (plainAttrs []) ⟨rfl, rfl, rfl, rfl, rfl, rfl, rfl⟩ rfl rfl (by simp [show fmtName sTitle = false by decide +kernel]) rfl

/-- a character token in the "text" insertion mode -/
theorem step_text_char {s fs f} (h : SInv .text s fs f) (c : Nat) (ho : s.originalMode = .inHead) :
    ∃ s', (processToken (.char c)).run s = .ok ((), s') ∧ SInv .text s' fs (f.withChar s.arena.size c) ∧
      s'.originalMode = .inHead := by
  refine ⟨{ s with arena := charArena s.arena f c }, processToken_of_mode h _ (fun r => ?_),
    h.addChar c ⟨rfl, rfl, rfl, rfl, rfl, rfl, rfl⟩ h.mode rfl rfl rfl, ho⟩
  show (modeText r (.char c)).run s = _
  unfold modeText
  exact h.insertChar_run c

/-- `</title>` in the "text" insertion mode -/
theorem step_text_endTitle {s fs p g} (h : SInv .text s (fs ++ [p]) g) (hfs : fs ≠ []) (ho : s.originalMode = .inHead)
    (hg : afeEntry g = none) :
    ∃ s', (processToken (.endTag sTitle)).run s = .ok ((), s') ∧ SInv .inHead s' fs (p.withDone g) := by
  refine ⟨{ s with stack := s.stack.tail, mode := .inHead }, processToken_of_mode h _ (fun r => ?_),
    h.popped hfs ⟨rfl, rfl, rfl, rfl, rfl, rfl, rfl⟩ rfl rfl (h.afe_pop_other hfs hg) rfl⟩
  show (modeText r (.endTag sTitle)).run s = _
  unfold modeText
  simp only [run_bind, pop_run, ok_bind, get_run, setMode, modify_run, ho]

/-- `</head>` in the "in head" insertion mode -/
theorem step_head_end {s fs p g} (h : SInv .inHead s (fs ++ [p]) g) (hfs : fs ≠ []) (hg : afeEntry g = none) :
    ∃ s', (processToken (.endTag sHead)).run s = .ok ((), s') ∧ SInv .afterHead s' fs (p.withDone g) := by
  have e1 : (sHead == lit "head") = true := by decide +kernel
  refine ⟨{ s with stack := s.stack.tail, mode := .afterHead }, processToken_of_mode h _ (fun r => ?_),
    h.popped hfs ⟨rfl, rfl, rfl, rfl, rfl, rfl, rfl⟩ rfl rfl (h.afe_pop_other hfs hg) rfl⟩
  show (modeInHead r (.endTag sHead)).run s = _
  unfold modeInHead
  simp only [e1, ↓reduceIte, run_bind, pop_run, ok_bind, setMode, modify_run]

/-- `<body>` in the "after head" insertion mode -/
theorem step_afterHead_body {s fs f} (h : SInv .afterHead s fs f) :
    ∃ s', (processToken (.startTag sBody [] false)).run s = .ok ((), s') ∧
      SInv .inBody s' (fs ++ [f.withChild s.arena.size]) (newFrame s.arena.size f.id sBody []) := by
  have e1 : (sBody == lit "html") = false := by decide +kernel
  have e2 : (sBody == lit "body") = true := by decide +kernel
  have hnt : (sBody == lit "template") = false := by decide +kernel
  refine ⟨{ s with arena := addChild s.arena f.id (.element .html sBody (plainAttrs [])), stack := s.arena.size :: s.stack,
                   framesetOk := false, mode := .inBody },
    processToken_of_mode h _ (fun r => ?_),
    h.pushed sBody (plainAttrs []) ⟨rfl, rfl, rfl, rfl, rfl, rfl, rfl⟩ rfl rfl
      (by simp [show fmtName sBody = false by decide +kernel]) rfl⟩
  show (modeAfterHead r (.startTag sBody [] false)).run s = _
  unfold modeAfterHead
  simp only [e1, e2, Bool.false_eq_true, ↓reduceIte, run_bind, h.insertHtmlElement_run sBody [] hnt, ok_bind,
    setFramesetNotOk, setMode, modify_run]

theorem afeEntry_newFrame_none (id parent : Nat) (nm : Str) (attrs : List Attr) (h : fmtName nm = false) :
    afeEntry (newFrame id parent nm attrs) = none := by rw [afeEntry_newFrame, h]; rfl

theorem afeEntry_same {g g' : SFrame} (h : Same g g') : afeEntry g' = afeEntry g := afeEntry_congr h.1 h.2

/-- the covered content of `head` below the open `head` element -/
theorem head_spec : ∀ (hd : List Tree), headOK hd = true → ∀ (ts : List TTok), HeadToks hd ts →
    ∀ {s fs f}, SInv .inHead s fs f → f.txt = none →
    ∃ s' f', Reach s ts s' ∧ SInv .inHead s' fs f' ∧ Same f f' ∧ f'.txt = none ∧ f'.kids = f.kids ++ hd := by
  intro hd hok ts htoks s fs f h htxt
  match hd, hok, htoks with
  | [], _, htoks =>
    have : ts = [] := htoks
    subst this
    exact ⟨s, f, Reach.nil s, h, Same.refl f, htxt, by simp⟩
  | [.elem ns nm attrs cs], hok, htoks =>
    simp only [headOK, Bool.and_eq_true, beq_iff_eq, List.isEmpty_iff] at hok
    obtain ⟨⟨⟨hns, hnm⟩, hattrs⟩, hcs⟩ := hok
    subst hns hnm hattrs
    obtain ⟨mid, hmid, rfl⟩ := htoks
    -- `<title>`
    obtain ⟨s1, hs1, hi1, ho1⟩ := step_head_title h.resetSwitch
    have hr1 : Reach s [.startTag sTitle [] false] s1 := Reach.single (tokRun_one _ _ rfl _ _ hs1)
    have hfn : fmtName sTitle = false := by decide +kernel
    -- the text and `</title>`
    have finish : ∀ (cs' : List Tree) (s2 : St) (g : SFrame), Reach s1 mid s2 →
        SInv .text s2 (fs ++ [f.withChild s.arena.size]) g →
        s2.originalMode = .inHead → Same (newFrame s.arena.size f.id sTitle []) g → g.sealed.kids = cs' →
        mergeText cs' = cs' →
        ∃ s' f', Reach s (.startTag sTitle [] false :: (mid ++ [.endTag sTitle [] false])) s' ∧ SInv .inHead s' fs f' ∧
          Same f f' ∧ f'.txt = none ∧ f'.kids = f.kids ++ [.elem (some htmlNs) sTitle [] cs'] := by
      intro cs' s2 g hr2 hi2 ho2 hsame hkids hmerge
      have hge : afeEntry g = none := by
        rw [afeEntry_same hsame]; exact afeEntry_newFrame_none _ _ _ _ hfn
      obtain ⟨s3, hs3, hi3⟩ := step_text_endTitle hi2.resetSwitch h.fsne ho2 hge
      have hr3 : Reach s2 [.endTag sTitle [] false] s3 := Reach.single (tokRun_one _ _ rfl _ _ hs3)
      refine ⟨s3, _, ?_, hi3, ⟨rfl, rfl⟩, rfl, ?_⟩
      · have := hr1.trans (hr2.trans hr3)
        simpa using this
      · show (f.sealed.kids ++ [g.sealed.tree]) = _
        rw [sealed_kids_none htxt]
        have : g.sealed.tree = .elem (some htmlNs) sTitle [] cs' := by
          unfold SFrame.tree
          rw [g.sealed_node, hsame.2, hkids]
          show Tree.elem (some NS.html.uri) sTitle [] (mergeText cs') = _
          rw [uri_html, hmerge]
        rw [this]
    match cs, hcs, hmid with
    | [], _, hmid =>
      have : mid = [] := hmid
      subst this
      exact finish [] s1 _ (Reach.nil s1) hi1 ho1 (Same.refl _) rfl rfl
    | [.text d], hcs, hmid =>
      simp only [Bool.and_eq_true, Bool.not_eq_true', List.isEmpty_eq_false_iff] at hcs
      have hmid' : TextToks d mid := hmid
      obtain ⟨s2, g, hr2, hi2, ho2, hsame, hk2, ht2⟩ :=
        textToks_run (m := .text) (fun s => s.originalMode = .inHead) (fun _ hq => hq)
          (fun c _ hh hq => step_text_char hh c hq) hmid' hcs.2 hi1 ho1
      refine finish [.text d] s2 g hr2 hi2 ho2 hsame ?_ rfl
      have : g.txt = some d := by rw [ht2]; rfl
      rw [sealed_kids_some this, hk2]
      rfl

/-! ### the suffix -/

/-- `</body>` in the "in body" insertion mode, the current node being `body` -/
theorem step_body_endBody {s fs f} (h : SInv .inBody s fs f) (battrs : List Attr)
    (hk : f.node.kind = .element .html sBody battrs) :
    ∃ s', (processToken (.endTag sBody)).run s = .ok ((), s') ∧ SInv .afterBody s' fs f ∧ s'.arena = s.arena := by
  have hK : among sBody [sBody] = true := among_singleton _
  have e1 : (sBody == lit "body") = true := by decide +kernel
  have hsc : (hasInScope .default (lit "body")).run s = .ok (true, s) :=
    h.hasInScope_top .default _ (by rw [hk]; show some (NS.html, sBody) = some (NS.html, lit "body"); decide +kernel)
  refine ⟨{ s with mode := .afterBody }, processToken_of_mode h _ (fun r => ?_),
    h.sameTop ⟨rfl, rfl, rfl, rfl, rfl, rfl, rfl⟩ rfl rfl rfl rfl rfl rfl h.frames h.noTextLast, rfl⟩
  show (bodyEndTag r (.endTag sBody) sBody).run s = _
  unfold bodyEndTag
  simp (disch := decide +kernel) only [h.dev, run_bind, get_run, ok_bind, beq_disjoint _ hK, e1, Bool.false_eq_true,
    ↓reduceIte, hsc, Bool.not_true, setMode, modify_run]

/-- `</html>` in the "after body" insertion mode -/
theorem step_afterBody_endHtml {s fs f} (h : SInv .afterBody s fs f) :
    ∃ s', (processToken (.endTag sHtml)).run s = .ok ((), s') ∧ SInv .afterAfterBody s' fs f ∧ s'.arena = s.arena := by
  have e1 : (sHtml == lit "html") = true := by decide +kernel
  refine ⟨{ s with mode := .afterAfterBody }, processToken_of_mode h _ (fun r => ?_),
    h.sameTop ⟨rfl, rfl, rfl, rfl, rfl, rfl, rfl⟩ rfl rfl rfl rfl rfl rfl h.frames h.noTextLast, rfl⟩
  show (modeAfterBody r (.endTag sHtml)).run s = _
  unfold modeAfterBody
  simp only [e1, ↓reduceIte, run_bind, get_run, ok_bind, h.ctx, Option.isSome_none, Bool.false_eq_true, setMode, modify_run]

/-- the end-of-file token in the "after after body" insertion mode: stop parsing -/
theorem step_eof {s fs f} (h : SInv .afterAfterBody s fs f) :
    (processToken .eof).run s = .ok ((), { s with stopped := true, stack := [] }) := by
  refine processToken_of_mode h _ (fun r => ?_)
  show (modeAfterAfterBody r .eof).run s = _
  unfold modeAfterAfterBody
  rfl

end H5.Props.C01b
