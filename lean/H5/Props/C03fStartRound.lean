/-
  C03f — start tags of the family `famS2` through the dispatcher (as C03dTagRound).
-/
import H5.Props.C03fStart
set_option linter.unusedSimpArgs false
set_option linter.unusedVariables false
namespace H5.Props.C03f
open H5 H5.Model H5.Model.TB H5.Model.Dom
open H5.Props.C02c (NF Post Post_bind Post_mono Post_pure Post_ok Post_error Post_throw Post_ite
  NF_typeError NF_keyError NF_indexError NF_assertFail NF_valueError NF_lookupError)
open H5.Props.C03b H5.Props.C03c H5.Props.C03d H5.Props.C03e

set_option maxHeartbeats 8000000 in
theorem plainSG_rank {r : Rec} [hrn : RecRN r] {n : Nat} (hr : RecInv r n) (hn : 0 < n) (q : String) (hq : q ∈ plainS)
    (tok : Token) (ho : inFamS2 tok = true) (st : PState) (hi : C03c.Inv st)
    (hreg : q = "InTableTextPhase.processStartTag" → st.phase = some .inTableText) :
    RetLe (runProcessPlain r q tok) st (retBoundS q) := by
  haveI h1 : RN (InForeignContent_processStartTag tok) := RN_InForeignContent_processStartTag_fam2 tok ho
  delta runProcessPlain
  delta runProcessPlain.match_1
  repeat (refine RetLe_dite _ _ _ _ (fun heq => ?_) (fun _ => ?_); (· subst heq; dsimp only [Eq.ndrec_symm]; rks_close))
  exact RetLe_none _ _ _

/-- `Phase.processStartTag` for a start tag of the family: the handler selected for the name is fine -/
theorem phaseSG_sel {r : Rec} [hrn : RecRN r] [hrs : RecRNSG r] (p : Phase) (tok : Token) (ho : inFamS2 tok = true)
    (st : PState) (t : Token) (st' : PState) (hrun : (Phase_processStartTag r p tok).run st = .ok (some t, st')) :
    ∃ h k, lookupHandler Gen.startTagHandlers "startTagHandler" p (tokName tok) = .ok h ∧ retBoundS h = some k ∧
      psi st'.phase ≤ k := by
  revert t st'
  unfold Phase_processStartTag
  refine run_liftE_bind _ _ _ _ ?_
  intro d hdt
  refine run_liftE_bind _ _ _ _ ?_
  intro h hl
  rw [tag_name hdt] at hl
  have hok := (famS2_ok (inFamS2_name ho)).2.2 p
  unfold okS2 at hok
  rw [hl] at hok
  simp only [Bool.and_eq_true, List.contains_eq_mem, decide_eq_true_eq] at hok
  intro t st' hrun
  obtain ⟨k, hk, hle⟩ := tagSG_rank h hok.1.1 tok ho st t st' hrun
  exact ⟨h, k, hl, hk, hle⟩

theorem phaseSG_dec {r : Rec} [hrn : RecRN r] [hrs : RecRNSG r] (p : Phase) (tok : Token) (ho : inFamS2 tok = true)
    (st : PState) (t : Token) (st' : PState) (hrun : (Phase_processStartTag r p tok).run st = .ok (some t, st')) :
    psi st'.phase < psi (some p) := by
  obtain ⟨h, k, hl, hk, hle⟩ := phaseSG_sel p tok ho st t st' hrun
  have hok := (famS2_ok (inFamS2_name ho)).2.2 p
  unfold okS2 at hok
  rw [hl] at hok
  dsimp only at hok
  rw [hk] at hok
  simp only [Bool.and_eq_true, decide_eq_true_eq] at hok
  exact Nat.lt_of_le_of_lt hle hok.2

theorem phaseSG_rn {r : Rec} [hrn : RecRN r] [hrs : RecRNSG r] (p : Phase) (hp : nestedPh2 p = true) (tok : Token)
    (ho : inFamS2 tok = true) : RN (Phase_processStartTag r p tok) := by
  refine RN_of_RetLe_none ?_
  intro st t st' hrun
  exfalso
  obtain ⟨h, k, hl, hk, _⟩ := phaseSG_sel p tok ho st t st' hrun
  have hok := (famS2_ok (inFamS2_name ho)).2.2 p
  unfold okS2 at hok
  rw [hl] at hok
  dsimp only at hok
  rw [hp] at hok
  simp only [Bool.and_eq_true, Bool.not_true, Bool.false_or, List.contains_eq_mem, decide_eq_true_eq] at hok
  have : ∀ x ∈ rnTag ++ tailS2, retBoundS x = none := by decide +kernel
  rw [this h hok.1.2] at hk
  cases hk

def rankOKSG (p : Phase) : Bool :=
  match resolveMethod p "processStartTag" with
  | .ok q =>
    if q = "Phase.processStartTag" then p != .inForeignContent
    else q != "Phase.processEndTag" && q != "InBodyPhase.<slot>" && plainS.contains q &&
      (match retBoundS q with
       | some k => decide (k < psi (some p)) && p != .inForeignContent &&
           (q != "InTableTextPhase.processStartTag" || p == .inTableText)
       | none => true)
  | .error _ => true

theorem rankSG_static : ∀ p ∈ Phase.all, rankOKSG p = true := by decide +kernel

/-- `phases[p].processStartTag(token)` for an "other" start tag -/
theorem runProcessSG_rank {r : Rec} [hrn : RecRN r] [hrs : RecRNSG r] {n : Nat} (hr : RecInv r n) (hn : 0 < n) (p : Phase)
    (tok : Token) (ho : inFamS2 tok = true) (st : PState) (hi : C03c.Inv st)
    (hreg : p = .inForeignContent ∨ st.phase = some p) :
    ∀ t st', (runProcess r p "processStartTag" tok).run st = .ok (some t, st') → psi st'.phase < psi st.phase := by
  have hs := rankSG_static p (Phase.mem_all p)
  unfold rankOKSG at hs
  unfold runProcess
  refine run_liftE_bind _ _ _ _ ?_
  intro q hq
  rw [hq] at hs
  dsimp only at hs
  split
  · -- the generic method: the handler selected for the name
    rw [if_pos rfl] at hs
    have hnf : p ≠ .inForeignContent := by simpa using hs
    have hph : st.phase = some p := by
      rcases hreg with h' | h'
      · exact absurd h' hnf
      · exact h'
    intro t st' hrun
    have := phaseSG_dec (r := r) p tok ho st t st' hrun
    rw [hph]; exact this
  · simp at hs
  · simp at hs
  · rename_i h1 h2 h3
    rw [if_neg h1] at hs
    simp only [Bool.and_eq_true, List.contains_eq_mem, decide_eq_true_eq, bne_iff_ne, ne_eq] at hs
    obtain ⟨⟨_, hmem⟩, hb⟩ := hs
    cases hbd : retBoundS q with
    | none =>
      have := plainSG_rank hr hn q hmem tok ho st hi (fun he => by rw [he] at hbd; exact absurd hbd (by decide))
      rw [hbd] at this
      intro t st' hrun
      obtain ⟨k, hk, _⟩ := this t st' hrun
      cases hk
    | some k =>
      rw [hbd] at hb
      simp only [Bool.and_eq_true, decide_eq_true_eq, bne_iff_ne, ne_eq, Bool.or_eq_true, beq_iff_eq] at hb
      obtain ⟨⟨hlt, hnf⟩, hitt⟩ := hb
      have hph : st.phase = some p := by
        rcases hreg with h' | h'
        · exact absurd h' hnf
        · exact h'
      have := plainSG_rank hr hn q hmem tok ho st hi (fun he => by
        rcases hitt with h' | h'
        · exact absurd he h'
        · rw [hph, h'])
      rw [hbd] at this
      intro t st' hrun
      obtain ⟨k', hk', hle⟩ := this t st' hrun
      cases hk'
      rw [hph]; omega

end H5.Props.C03f
