/-
  C01b — **the SPECIFICATION builds every document of `G1`** from its token sequences.
-/
import H5.Props.C01bDoc
set_option linter.unusedSimpArgs false
set_option linter.unusedVariables false
namespace H5.Props.C01b
open H5 H5.Spec.TC
open H5.Props.C07b (fmtName fmtNames catOf voidName Cat okNode okForest G0 headOK docTree commentOKm htmlNs sHtml sHead
  sBody sTitle isText Ctx attrsPlain)

/-- the comparison format of the specification's result: a missing DOCTYPE identifier is the empty string in the DOM
(`normModelTree` of the driver op `treecmp`, on the document level) -/
def specView : Tree → Tree
  | .doc (.doctype n p s :: rest) => .doc (.doctype (some (n.getD [])) (some (p.getD [])) (some (s.getD [])) :: rest)
  | t => t

theorem ctx_body {fs : List SFrame} {h0 b : SFrame} (hfs : fs.drop 1 = [h0])
    (hh : ∃ a, h0.node.kind = .element .html sHtml a) (hb : ∃ a, b.node.kind = .element .html sBody a) : CtxS {} fs b := by
  obtain ⟨ha, hh⟩ := hh
  obtain ⟨ba, hb⟩ := hb
  have hmem : ∀ g ∈ opens fs b, g = h0 ∨ g = b := by
    intro g hg
    simp only [opens, hfs, List.cons_append, List.nil_append, List.mem_cons, List.not_mem_nil, or_false] at hg
    exact hg
  refine ⟨?_, ?_, ⟨ba, hb⟩⟩
  · intro _ g hg
    rcases hmem g hg with rfl | rfl
    · rw [hh]; show some (NS.html, sHtml) ≠ some (NS.html, lit "p"); decide +kernel
    · rw [hb]; show some (NS.html, sBody) ≠ some (NS.html, lit "p"); decide +kernel
  · intro g hg nm attrs hk hf
    rcases hmem g hg with rfl | rfl
    · rw [hh] at hk; cases hk; exact absurd hf (by decide +kernel)
    · rw [hb] at hk; cases hk; exact absurd hf (by decide +kernel)

/-- the specification on the tokens of a covered document -/
theorem spec_doc (hd cs : List Tree) (hhd : headOK hd = true) (hcs : okForest commentOKm {} cs = true)
    (hsp : specForest cs = true) (sc : Bool) (ts : List TTok) (htoks : DocToks hd cs ts) :
    ∃ r, runTokens { scripting := sc } ts = .ok r ∧ r.tree = specView (docTree hd cs) := by
  obtain ⟨th, tb, hth, htb, rfl⟩ := htoks
  -- prefix
  have r3 := prefix_reach sc
  -- the head
  obtain ⟨s4, fh, r4, hi4, hsame4, htxt4, hkids4⟩ := head_spec hd hhd th hth (st3_inv sc) rfl
  have hfhe : afeEntry fh = none := by
    rw [afeEntry_same hsame4]; exact afeEntry_newFrame_none 3 2 sHead [] (by decide +kernel)
  -- `</head>`, `<body>`
  obtain ⟨s5, hs5, hi5⟩ := step_head_end (fs := [docFrame]) (p := htmlFrame3) hi4.resetSwitch (by simp) hfhe
  have r5 : Reach s4 [.endTag sHead [] false] s5 := Reach.single (tokRun_one _ _ rfl _ _ hs5)
  obtain ⟨s6, hs6, hi6⟩ := step_afterHead_body hi5.resetSwitch
  have r6 : Reach s5 [.startTag sBody [] false] s6 := Reach.single (tokRun_one _ _ rfl _ _ hs6)
  -- the body
  have hctx : CtxS {} ([docFrame] ++ [(htmlFrame3.withDone fh).withChild s5.arena.size])
      (newFrame s5.arena.size (htmlFrame3.withDone fh).id sBody (plainAttrs [])) :=
    ctx_body rfl ⟨[], rfl⟩ ⟨[], rfl⟩
  obtain ⟨s7, fb, r7, hi7, hsame7, hkids7⟩ := forest_spec {} cs hcs hsp s6 _ _ tb hi6 hctx htb (fun _ _ _ _ => rfl)
  -- suffix
  obtain ⟨s8, hs8, hi8, ha8⟩ := step_body_endBody hi7.resetSwitch (plainAttrs []) hsame7.2
  have r8 : Reach s7 [.endTag sBody [] false] s8 := Reach.single (tokRun_one _ _ rfl _ _ hs8)
  obtain ⟨s9, hs9, hi9, ha9⟩ := step_afterBody_endHtml hi8.resetSwitch
  have r9 : Reach s8 [.endTag sHtml [] false] s9 := Reach.single (tokRun_one _ _ rfl _ _ hs9)
  have hall : Reach (st0 sc) ([.doctype (some sHtml) none none true, .startTag sHtml [] false, .startTag sHead [] false] ++ th ++
      [.endTag sHead [] false, .startTag sBody [] false] ++ tb ++ [.endTag sBody [] false, .endTag sHtml [] false]) s9 := by
    have := r3.trans (r4.trans (r5.trans (r6.trans (r7.trans (r8.trans r9)))))
    simpa [List.append_assoc] using this
  obtain ⟨sws, hgo⟩ := go_eq_fold { scripting := sc } rfl _ (st0 sc) 0 [] s9 hall
  have heof := step_eof hi9
  -- the result tree
  have harena : s9.arena = s7.arena := by rw [ha9]; show s8.arena = _; rw [ha8]
  have hfr := hi7.frames
  have hbk : fb.node.kind = .element .html sBody (plainAttrs []) := hsame7.2
  let hf1 : SFrame := (htmlFrame3.withDone fh).withChild s5.arena.size
  let hf2 : SFrame := hf1.withDone fb
  have hpop1 : FramesOK s7.arena [docFrame] hf2 :=
    FramesOK.pop (fs := [docFrame]) (f := hf1) (g := fb.sealed) hfr.sealed fb.sealed_txt
      (by rw [fb.sealed_node]; exact hi7.topContent) (Or.inl ⟨_, _, _, by rw [fb.sealed_node]; exact hbk⟩)
  have hf2txt : hf2.txt = none := rfl
  have hf2c : hf2.node.content = none := rfl
  have hf2k : hf2.node.kind = .element .html sHtml [] := rfl
  have hpop2 : FramesOK s7.arena [] (docFrame.withDone hf2) := by
    have := FramesOK.pop (fs := []) (f := docFrame) (g := hf2) hpop1 hf2txt hf2c (Or.inl ⟨_, _, _, hf2k⟩)
    have hs : hf2.sealed = hf2 := rfl
    show FramesOK s7.arena [] { docFrame with kids := docFrame.kids ++ [hf2.sealed.tree] }
    rw [hs]
    exact this
  have hres := FramesOK.result hpop2 rfl rfl (Or.inr rfl)
  have hbody : fb.sealed.tree = .elem (some htmlNs) sBody [] cs := by
    unfold SFrame.tree
    rw [fb.sealed_node, hbk, hkids7]
    show Tree.elem (some NS.html.uri) sBody [] (mergeText ([] ++ cs)) = _
    rw [uri_html, List.nil_append, mergeText_okForest cs hcs]
  have hhead : fh.sealed.tree = .elem (some htmlNs) sHead [] hd := by
    unfold SFrame.tree
    rw [fh.sealed_node, hsame4.2, sealed_kids_none htxt4, hkids4]
    show Tree.elem (some NS.html.uri) sHead [] (mergeText ([] ++ hd)) = _
    have hm : mergeText hd = hd := by
      match hd, hhd with
      | [], _ => rfl
      | [.elem _ _ _ _], _ => rfl
    rw [uri_html, List.nil_append, hm]
  have hrun : runTokens { scripting := sc } ([.doctype (some sHtml) none none true, .startTag sHtml [] false,
      .startTag sHead [] false] ++ th ++ [.endTag sHead [] false, .startTag sBody [] false] ++ tb ++
      [.endTag sBody [] false, .endTag sHtml [] false]) =
      .ok { tree := (toTreeAux s9.arena (s9.arena.size + 1) s9.document).headD (Tree.doc []), switches := sws,
            initial := none } := by
    unfold runTokens
    rw [initState_doc]
    simp only [ok_bind]
    rw [hgo]
    simp only [ok_bind, heof]
    rfl
  refine ⟨_, hrun, ?_⟩
  · show (toTreeAux s9.arena (s9.arena.size + 1) s9.document).headD (Tree.doc []) = _
    rw [hi9.docId, harena]
    have hres' : toTreeAux s7.arena (s7.arena.size + 1) 0 = [(docFrame.withDone hf2).tree] := hres
    rw [hres']
    show (docFrame.withDone hf2).tree = _
    have hs : hf2.sealed = hf2 := rfl
    have hk2 : hf2.kids = [fh.sealed.tree, fb.sealed.tree] := rfl
    have ht2 : hf2.tree = .elem (some htmlNs) sHtml [] [.elem (some htmlNs) sHead [] hd, .elem (some htmlNs) sBody [] cs] := by
      unfold SFrame.tree
      rw [hf2k, hk2, hhead, hbody]
      show Tree.elem (some NS.html.uri) sHtml [] _ = _
      rw [uri_html]
      rfl
    show Tree.doc (mergeText (docFrame.kids ++ [hf2.sealed.tree])) = _
    rw [hs, ht2]
    rfl

end H5.Props.C01b
