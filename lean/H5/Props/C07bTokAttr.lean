/-
  Property C07b (tokenizer side), stage 3 — start tags with attributes, as the default serializer writes them:
  minimised boolean attributes, unquoted values (`&` → `&amp;`), quoted values (`&amp;`, `&quot;` / `&#39;`).
-/
import H5.Props.C07bTokComment
set_option linter.unusedSimpArgs false
namespace H5.Props.C07b
open H5 H5.Gen H5.Model H5.Model.Tokenizer
open H5.Model.Serializer (escape Opts attrOut)
open H5.Spec.Tokenizer (isWhitespace isASCIILowerAlpha isASCIIUpperAlpha)
open H5.Props.C08c
open H5.Props.C08 (amp_mem)

/-! ### Python dicts: distinct keys are kept as they are -/

theorem dictSet_new : ∀ (d : List (Str × Str)) (k v : Str), (∀ a ∈ d, a.1 ≠ k) → dictSet d k v = d ++ [(k, v)]
  | [], _, _, _ => rfl
  | (k', v') :: d, k, v, h => by
    have h1 : k' ≠ k := h (k', v') (by simp)
    simp only [dictSet, h1, if_false, List.cons_append]
    rw [dictSet_new d k v (fun a ha => h a (List.mem_cons_of_mem _ ha))]

theorem dictUpdate_new : ∀ (pairs d : List (Str × Str)), ((d ++ pairs).map (·.1)).Nodup → dictUpdate d pairs = d ++ pairs
  | [], d, _ => by simp [dictUpdate]
  | (k, v) :: pairs, d, h => by
    have hk : ∀ a ∈ d, a.1 ≠ k := by
      intro a ha e
      rw [List.map_append, List.nodup_append] at h
      exact h.2.2 a.1 (List.mem_map_of_mem ha) k (by simp) e
    have := dictUpdate_new pairs (d ++ [(k, v)]) (by simpa using h)
    simp only [dictUpdate, List.foldl_cons] at this ⊢
    rw [dictSet_new d k v hk, this]
    simp

theorem dictOfPairs_nodup (raw : List (Str × Str)) (h : (raw.map (·.1)).Nodup) : dictOfPairs raw = raw := by
  have := dictUpdate_new raw [] (by simpa using h)
  simpa [dictOfPairs] using this

/-! ### States inside a start tag -/

/-- a state of the tokenizer inside the start tag `name` with the attributes `attrs` read so far -/
def tst (name : Str) (tb : Option Str) (cd : Bool) (S : State) (i : Str) (attrs : List (Str × Str)) : St :=
  ⟨S, i, some (.startTag name attrs false), tb, [], cd⟩

theorem tagTok_false (n : Str) (d : List (Str × Str)) : tagTok false n d = .startTag n d false := rfl

/-- leaving the attribute name state: nothing changes when the last name has no upper-case letter and is new -/
theorem leave_ok (name : Str) (tb : Option Str) (cd : Bool) (S : State) (i : Str) (pre : List (Str × Str)) (n v : Str)
    (hl : ∀ x ∈ n, isASCIIUpperAlpha x = false) (hn : ∀ a ∈ pre, a.1 ≠ n) :
    leaveAttributeName (tst name tb cd S i (pre ++ [(n, v)])) = .ok (tst name tb cd S i (pre ++ [(n, v)])) := by
  have hany : (pre.any fun a => n == a.1) = false := by
    rw [List.any_eq_false]
    intro a ha
    have := hn a ha
    simp [Ne.symm this]
  simp [leaveAttributeName, tst, St.modCur, St.cur, CurTok.modLastAttr, CurTok.attrsE, CurTok.setAttrs, bind, Except.bind,
    pure, Except.pure, List.getLast?_concat, List.dropLast_concat, translate_id n hl, hany]

/-- emitting the start tag: the attribute list is yielded unchanged when the names are distinct -/
theorem emit_start (name : Str) (tb : Option Str) (cd : Bool) (S : State) (i : Str) (raw : List (Str × Str))
    (hl : ∀ x ∈ name, isASCIIUpperAlpha x = false) (hd : (raw.map (·.1)).Nodup) :
    emitCurrentToken (tst name tb cd S i raw)
      = .ok ⟨.dataState, i, some (.emittedStartTag name), tb, [.startTag name raw false], cd⟩ := by
  simp [emitCurrentToken, tst, St.cur, bind, Except.bind, pure, Except.pure, translate_id name hl,
    dictOfPairs_nodup raw hd, St.emit, St.to]

/-! ### Single calls -/

section
variable (name : Str) (tb : Option Str) (cd : Bool)

/-- the states in which an attribute (or the tag name) has just ended, except the attribute name state -/
def isAfter (S : State) : Prop :=
  S = .tagNameState ∨ S = .attributeValueUnQuotedState ∨ S = .afterAttributeValueState

theorem step_after_space (S : State) (hS : isAfter S) (i : Str) (attrs : List (Str × Str)) :
    step (tst name tb cd S (32 :: i) attrs) = .ok (true, tst name tb cd .beforeAttributeNameState i attrs) := by
  rcases hS with rfl | rfl | rfl <;> rfl

theorem step_attrName_space (i : Str) (pre : List (Str × Str)) (n v : Str)
    (hl : ∀ x ∈ n, isASCIIUpperAlpha x = false) (hn : ∀ a ∈ pre, a.1 ≠ n) :
    step (tst name tb cd .attributeNameState (32 :: i) (pre ++ [(n, v)]))
      = .ok (true, tst name tb cd .afterAttributeNameState i (pre ++ [(n, v)])) := by
  have h := leave_ok name tb cd .afterAttributeNameState i pre n v hl hn
  simp only [tst] at h
  tok_simp [tst, attributeNameState, h]

theorem step_attr_start (S : State) (hS : S = .beforeAttributeNameState ∨ S = .afterAttributeNameState) (c : Nat)
    (hc : attrNameChar c = true) (i : Str) (attrs : List (Str × Str)) :
    step (tst name tb cd S (c :: i) attrs) = .ok (true, tst name tb cd .attributeNameState i (attrs ++ [([c], [])])) := by
  simp [attrNameChar, isWhitespace, isASCIIUpperAlpha] at hc
  rcases hS with rfl | rfl
  · by_cases hl : (65 ≤ c ∧ c ≤ 90) ∨ (97 ≤ c ∧ c ≤ 122) <;>
      tok_simp [tst, beforeAttributeNameState, hc, hl, CurTok.appendAttr, CurTok.attrsE, CurTok.setAttrs]
  · by_cases hl : (65 ≤ c ∧ c ≤ 90) ∨ (97 ≤ c ∧ c ≤ 122) <;>
      tok_simp [tst, afterAttributeNameState, hc, hl, CurTok.appendAttr, CurTok.attrsE, CurTok.setAttrs]

theorem modLast_start (f : Str × Str → Str × Str) (nm : Str) (pre : List (Str × Str)) (a : Str × Str) :
    CurTok.modLastAttr f (.startTag nm (pre ++ [a]) false) = .ok (.startTag nm (pre ++ [f a]) false) := by
  simp [CurTok.modLastAttr, CurTok.attrsE, CurTok.setAttrs, bind, Except.bind, List.getLast?_concat, List.dropLast_concat]

/-- a letter in the attribute name state: the whole run of letters is appended to the name -/
theorem step_attrName_letter (c : Nat) (hc : (65 ≤ c ∧ c ≤ 90) ∨ (97 ≤ c ∧ c ≤ 122)) (i : Str) (pre : List (Str × Str))
    (n v : Str) :
    step (tst name tb cd .attributeNameState (c :: i) (pre ++ [(n, v)]))
      = .ok (true, tst name tb cd .attributeNameState (i.span fun x => asciiLetters.contains x).2
          (pre ++ [(n ++ c :: (i.span fun x => asciiLetters.contains x).1, v)])) := by
  have h1 : c ≠ 61 := by omega
  tok_simp [tst, attributeNameState, hc, h1, CurTok.addAttrName, modLast_start]

/-- any other character of an attribute name -/
theorem step_attrName_other (c : Nat) (hc : attrNameChar c = true) (hl : ¬ ((65 ≤ c ∧ c ≤ 90) ∨ (97 ≤ c ∧ c ≤ 122)))
    (i : Str) (pre : List (Str × Str)) (n v : Str) :
    step (tst name tb cd .attributeNameState (c :: i) (pre ++ [(n, v)]))
      = .ok (true, tst name tb cd .attributeNameState i (pre ++ [(n ++ [c], v)])) := by
  simp [attrNameChar, isWhitespace, isASCIIUpperAlpha] at hc
  tok_simp [tst, attributeNameState, hc, hl, CurTok.addAttrName, modLast_start]

theorem step_attrName_eq (i : Str) (pre : List (Str × Str)) (n v : Str)
    (hl : ∀ x ∈ n, isASCIIUpperAlpha x = false) (hn : ∀ a ∈ pre, a.1 ≠ n) :
    step (tst name tb cd .attributeNameState (61 :: i) (pre ++ [(n, v)]))
      = .ok (true, tst name tb cd .beforeAttributeValueState i (pre ++ [(n, v)])) := by
  have h := leave_ok name tb cd .beforeAttributeValueState i pre n v hl hn
  simp only [tst] at h
  tok_simp [tst, attributeNameState, h]

/-- the attribute value state for the quote character `q` -/
def qState (q : Nat) : State := if q = 39 then .attributeValueSingleQuotedState else .attributeValueDoubleQuotedState

theorem step_beforeValue_quote (q : Nat) (hq : q = 34 ∨ q = 39) (i : Str) (attrs : List (Str × Str)) :
    step (tst name tb cd .beforeAttributeValueState (q :: i) attrs) = .ok (true, tst name tb cd (qState q) i attrs) := by
  rcases hq with rfl | rfl <;> rfl

theorem step_beforeValue_amp (i : Str) (attrs : List (Str × Str)) :
    step (tst name tb cd .beforeAttributeValueState (38 :: i) attrs)
      = .ok (true, tst name tb cd .attributeValueUnQuotedState (38 :: i) attrs) := rfl

/-- characters that may stand in an unquoted value as themselves -/
def unqChar (c : Nat) : Prop := c ≠ 0 ∧ c ≠ 38 ∧ inRanges quoteAttributeSpec c = false

theorem unqChar_spec {c : Nat} (h : unqChar c) :
    c ≠ 0 ∧ c ≠ 38 ∧ c ≠ 9 ∧ c ≠ 10 ∧ c ≠ 12 ∧ c ≠ 13 ∧ c ≠ 32 ∧ c ≠ 34 ∧ c ≠ 39 ∧ c ≠ 60 ∧ c ≠ 61 ∧ c ≠ 62 ∧ c ≠ 96 := by
  obtain ⟨h0, h1, h2⟩ := h
  have := spec_class c h2
  omega

theorem step_beforeValue_char (c : Nat) (hc : unqChar c) (i : Str) (pre : List (Str × Str)) (n v : Str) :
    step (tst name tb cd .beforeAttributeValueState (c :: i) (pre ++ [(n, v)]))
      = .ok (true, tst name tb cd .attributeValueUnQuotedState i (pre ++ [(n, v ++ [c])])) := by
  have h := unqChar_spec hc
  tok_simp [tst, beforeAttributeValueState, h, CurTok.addAttrValue, modLast_start]

/-- the stop set of `charsUntil` in the unquoted state -/
def unqStop : Nat → Bool := fun x => !([38, 62, 34, 39, 61, 60, 96, 0] ++ spaceCharacters).contains x

theorem step_unq_plain (c : Nat) (hc : unqChar c) (i : Str) (pre : List (Str × Str)) (n v : Str) :
    step (tst name tb cd .attributeValueUnQuotedState (c :: i) (pre ++ [(n, v)]))
      = .ok (true, tst name tb cd .attributeValueUnQuotedState (i.span unqStop).2
          (pre ++ [(n, v ++ c :: (i.span unqStop).1)])) := by
  have h := unqChar_spec hc
  unfold unqStop
  tok_simp [tst, attributeValueUnQuotedState, h, CurTok.addAttrValue, modLast_start]

/-- `&amp;` in an attribute value -/
theorem consume_amp_attr (allowed : Nat) (ha : allowed < 97) (S : State) (i : Str) (pre : List (Str × Str)) (n v : Str) :
    consumeEntity (tst name tb cd S ([97, 109, 112, 59] ++ i) (pre ++ [(n, v)])) (some allowed) true
      = .ok (tst name tb cd S i (pre ++ [(n, v ++ [38])])) := by
  have h := consumeEntityCore_named (some allowed) true i amp_mem (by decide) (by decide)
    (by intro a e; cases e; exact ha)
  simp only [List.cons_append, List.nil_append] at h ⊢
  simp [consumeEntity, tst, h, bind, Except.bind, pure, Except.pure, St.modCur, St.cur, CurTok.addAttrValue, modLast_start]

theorem step_unq_amp (i : Str) (pre : List (Str × Str)) (n v : Str) :
    step (tst name tb cd .attributeValueUnQuotedState ([38, 97, 109, 112, 59] ++ i) (pre ++ [(n, v)]))
      = .ok (true, tst name tb cd .attributeValueUnQuotedState i (pre ++ [(n, v ++ [38])])) := by
  have h := consume_amp_attr name tb cd 62 (by decide) .attributeValueUnQuotedState i pre n v
  simp only [tst, List.cons_append, List.nil_append] at h
  tok_simp [tst, attributeValueUnQuotedState, processEntityInAttribute, h]

/-- the stop set of `charsUntil` in the quoted states -/
def qStop (q : Nat) : Nat → Bool := fun x => ![q, 38, 0].contains x

theorem step_q_plain (q : Nat) (hq : q = 34 ∨ q = 39) (c : Nat) (hc : c ≠ q ∧ c ≠ 38 ∧ c ≠ 0) (i : Str)
    (pre : List (Str × Str)) (n v : Str) :
    step (tst name tb cd (qState q) (c :: i) (pre ++ [(n, v)]))
      = .ok (true, tst name tb cd (qState q) (i.span (qStop q)).2 (pre ++ [(n, v ++ c :: (i.span (qStop q)).1)])) := by
  unfold qStop
  rcases hq with rfl | rfl
  · tok_simp [tst, qState, attributeValueDoubleQuotedState, hc, CurTok.addAttrValue, modLast_start]
  · tok_simp [tst, qState, attributeValueSingleQuotedState, hc, CurTok.addAttrValue, modLast_start]

theorem step_q_amp (q : Nat) (hq : q = 34 ∨ q = 39) (i : Str) (pre : List (Str × Str)) (n v : Str) :
    step (tst name tb cd (qState q) ([38, 97, 109, 112, 59] ++ i) (pre ++ [(n, v)]))
      = .ok (true, tst name tb cd (qState q) i (pre ++ [(n, v ++ [38])])) := by
  rcases hq with rfl | rfl
  · have h := consume_amp_attr name tb cd 34 (by decide) .attributeValueDoubleQuotedState i pre n v
    simp only [tst, List.cons_append, List.nil_append] at h
    tok_simp [tst, qState, attributeValueDoubleQuotedState, processEntityInAttribute, h]
  · have h := consume_amp_attr name tb cd 39 (by decide) .attributeValueSingleQuotedState i pre n v
    simp only [tst, List.cons_append, List.nil_append] at h
    tok_simp [tst, qState, attributeValueSingleQuotedState, processEntityInAttribute, h]

/-- `&quot;` in a double-quoted value -/
theorem step_dq_quot (i : Str) (pre : List (Str × Str)) (n v : Str) :
    step (tst name tb cd (qState 34) ([38, 113, 117, 111, 116, 59] ++ i) (pre ++ [(n, v)]))
      = .ok (true, tst name tb cd (qState 34) i (pre ++ [(n, v ++ [34])])) := by
  have h := consumeEntityCore_named (some 34) true i quot_mem (by decide) (by decide) (by intro a e; cases e; decide)
  simp only [List.cons_append, List.nil_append] at h ⊢
  tok_simp [tst, qState, attributeValueDoubleQuotedState, processEntityInAttribute, consumeEntity, h,
    CurTok.addAttrValue, modLast_start]

theorem core_num39 (i : Str) : consumeEntityCore (some 39) true (35 :: 51 :: 57 :: 59 :: i) = .ok ([39], [], i) := rfl

/-- `&#39;` in a single-quoted value -/
theorem step_sq_num (i : Str) (pre : List (Str × Str)) (n v : Str) :
    step (tst name tb cd (qState 39) ([38, 35, 51, 57, 59] ++ i) (pre ++ [(n, v)]))
      = .ok (true, tst name tb cd (qState 39) i (pre ++ [(n, v ++ [39])])) := by
  have h := core_num39 i
  simp only [List.cons_append, List.nil_append] at h ⊢
  tok_simp [tst, qState, attributeValueSingleQuotedState, processEntityInAttribute, consumeEntity, h,
    CurTok.addAttrValue, modLast_start]

theorem step_q_close (q : Nat) (hq : q = 34 ∨ q = 39) (i : Str) (attrs : List (Str × Str)) :
    step (tst name tb cd (qState q) (q :: i) attrs) = .ok (true, tst name tb cd .afterAttributeValueState i attrs) := by
  rcases hq with rfl | rfl <;> rfl

/-! ### `>` -/

theorem step_after_gt (S : State) (hS : isAfter S) (i : Str) (raw : List (Str × Str))
    (hl : ∀ x ∈ name, isASCIIUpperAlpha x = false) (hd : (raw.map (·.1)).Nodup) :
    step (tst name tb cd S (62 :: i) raw)
      = .ok (true, ⟨.dataState, i, some (.emittedStartTag name), tb, [.startTag name raw false], cd⟩) := by
  rcases hS with rfl | rfl | rfl
  · have h := emit_start name tb cd .tagNameState i raw hl hd
    simp only [tst] at h
    tok_simp [tst, tagNameState, h]
  · have h := emit_start name tb cd .attributeValueUnQuotedState i raw hl hd
    simp only [tst] at h
    tok_simp [tst, attributeValueUnQuotedState, h]
  · have h := emit_start name tb cd .afterAttributeValueState i raw hl hd
    simp only [tst] at h
    tok_simp [tst, afterAttributeValueState, h]

theorem step_attrName_gt (i : Str) (pre : List (Str × Str)) (n v : Str)
    (hl : ∀ x ∈ name, isASCIIUpperAlpha x = false) (hd : ((pre ++ [(n, v)]).map (·.1)).Nodup)
    (hln : ∀ x ∈ n, isASCIIUpperAlpha x = false) :
    step (tst name tb cd .attributeNameState (62 :: i) (pre ++ [(n, v)]))
      = .ok (true, ⟨.dataState, i, some (.emittedStartTag name), tb, [.startTag name (pre ++ [(n, v)]) false], cd⟩) := by
  have hn : ∀ a ∈ pre, a.1 ≠ n := by
    intro a ha e
    rw [List.map_append, List.nodup_append] at hd
    exact hd.2.2 a.1 (List.mem_map_of_mem ha) n (by simp) e
  have h1 := leave_ok name tb cd .attributeNameState i pre n v hln hn
  have h2 := emit_start name tb cd .attributeNameState i (pre ++ [(n, v)]) hl hd
  simp only [tst] at h1 h2
  tok_simp [tst, attributeNameState, h1, h2]

/-! ### Loops -/

/-- the attribute name state over the rest of a name -/
theorem steps_attrName (pre : List (Str × Str)) (rest : Str)
    (hrest : ∃ x t, rest = x :: t ∧ (x = 61 ∨ x = 32 ∨ x = 62)) (nr : Str) (hnr : nr.all attrNameChar = true)
    (acc : Str) :
    StepsLe nr.length (tst name tb cd .attributeNameState (nr ++ rest) (pre ++ [(acc, [])]))
      (tst name tb cd .attributeNameState rest (pre ++ [(acc ++ nr, [])])) := by
  have := loop_generic (fun acc i => tst name tb cd .attributeNameState i (pre ++ [(acc, [])]))
    (fun x => asciiLetters.contains x) (fun x => asciiLetters.contains x) (fun c => [c])
    (fun c => attrNameChar c = true) (fun _ _ => rfl)
    (by
      intro c acc i _ hq
      rw [asciiLetters_contains] at hq
      exact step_attrName_letter name tb cd c (by simpa using hq) i pre acc [])
    (by
      intro c acc i hc hq
      rw [asciiLetters_contains] at hq
      exact step_attrName_other name tb cd c hc (by simpa using hq) i pre acc [])
    (fun c _ hq => ⟨rfl, hq⟩)
    (fun c _ hq => ⟨c, [], rfl, hq⟩)
    rest
    (by
      obtain ⟨x, t, e, hx⟩ := hrest
      refine Or.inr ⟨x, t, e, ?_⟩
      rw [asciiLetters_contains]
      rcases hx with rfl | rfl | rfl <;> decide)
    nr.length nr (Nat.le_refl _) (fun c hc => List.all_eq_true.mp hnr c hc) acc
  simpa using this

/-- the written form of a character of an unquoted value -/
def escUnq (c : Nat) : Str := if c = 38 then [38, 97, 109, 112, 59] else [c]

/-- the unquoted state over an unquoted value -/
theorem steps_unq (pre : List (Str × Str)) (n : Str) (rest : Str) (hrest : ∃ x t, rest = x :: t ∧ (x = 32 ∨ x = 62))
    (v : Str) (hv : ∀ c ∈ v, c ≠ 0 ∧ inRanges quoteAttributeSpec c = false) (acc : Str) :
    StepsLe v.length (tst name tb cd .attributeValueUnQuotedState (v.flatMap escUnq ++ rest) (pre ++ [(n, acc)]))
      (tst name tb cd .attributeValueUnQuotedState rest (pre ++ [(n, acc ++ v)])) := by
  refine loop_generic (fun acc i => tst name tb cd .attributeValueUnQuotedState i (pre ++ [(n, acc)]))
    unqStop (fun x => x != 38) escUnq (fun c => c ≠ 0 ∧ inRanges quoteAttributeSpec c = false) (fun _ _ => rfl)
    ?_ ?_ ?_ ?_ rest ?_ v.length v (Nat.le_refl _) hv acc
  · intro c acc i hc hq
    exact step_unq_plain name tb cd c ⟨hc.1, by simpa using hq, hc.2⟩ i pre n acc
  · intro c acc i _ hq
    have : c = 38 := by simpa using hq
    subst this
    exact step_unq_amp name tb cd i pre n acc
  · intro c hc hq
    have h38 : c ≠ 38 := by simpa using hq
    have := unqChar_spec ⟨hc.1, h38, hc.2⟩
    refine ⟨by simp [escUnq, h38], ?_⟩
    simp [unqStop, spaceCharacters]
    omega
  · intro c _ hq
    have : c = 38 := by simpa using hq
    subst this
    exact ⟨38, _, rfl, by decide⟩
  · obtain ⟨x, t, e, hx⟩ := hrest
    refine Or.inr ⟨x, t, e, ?_⟩
    rcases hx with rfl | rfl <;> decide

/-- the quoted state over a quoted value -/
theorem steps_quoted (q : Nat) (hq : q = 34 ∨ q = 39) (pre : List (Str × Str)) (n : Str) (rest : Str)
    (v : Str) (hv : ∀ c ∈ v, c ≠ 0) (acc : Str) :
    StepsLe v.length (tst name tb cd (qState q) (v.flatMap (escAttr false q) ++ q :: rest) (pre ++ [(n, acc)]))
      (tst name tb cd (qState q) (q :: rest) (pre ++ [(n, acc ++ v)])) := by
  refine loop_generic (fun acc i => tst name tb cd (qState q) i (pre ++ [(n, acc)]))
    (qStop q) (fun x => x != 38 && x != q) (escAttr false q) (fun c => c ≠ 0) (fun _ _ => rfl)
    ?_ ?_ ?_ ?_ (q :: rest) ?_ v.length v (Nat.le_refl _) hv acc
  · intro c acc i hc hqc
    simp at hqc
    exact step_q_plain name tb cd q hq c ⟨hqc.2, hqc.1, hc⟩ i pre n acc
  · intro c acc i _ hqc
    by_cases h38 : c = 38
    · subst h38
      have : escAttr false q 38 = [38, 97, 109, 112, 59] := by simp [escAttr]
      rw [this]
      exact step_q_amp name tb cd q hq i pre n acc
    · have hcq : c = q := by simpa [h38] using hqc
      subst hcq
      rcases hq with rfl | rfl
      · exact step_dq_quot name tb cd i pre n acc
      · exact step_sq_num name tb cd i pre n acc
  · intro c hc hqc
    simp at hqc
    refine ⟨?_, by simp [qStop, hqc, hc]⟩
    rcases hq with rfl | rfl <;> simp [escAttr, hqc]
  · intro c _ hqc
    by_cases h38 : c = 38
    · subst h38
      exact ⟨38, [97, 109, 112, 59], by simp [escAttr], by simp [qStop]⟩
    · have hcq : c = q := by simpa [h38] using hqc
      subst hcq
      rcases hq with rfl | rfl
      · exact ⟨38, [113, 117, 111, 116, 59], by simp [escAttr], by simp [qStop]⟩
      · exact ⟨38, [35, 51, 57, 59], by simp [escAttr], by simp [qStop]⟩
  · exact Or.inr ⟨q, rest, rfl, by simp [qStop]⟩

end

end H5.Props.C07b
