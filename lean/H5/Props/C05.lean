/-
  Property C05 — the result does not depend on how the input characters are delivered (stream level).

  Model: H5.Model.Stream (namespace H5.Model.InputStream; hand model of HTMLUnicodeInputStream, tied by the
  correspondence op `stream`; constants extracted into H5.Gen.Stream).  Reference: H5.Spec.Stream.
  A *source* `segs : List Str` is the list of strings returned by the successive `read()` calls, so
  "for every `segs` with the same `segs.flatten`" = every segmentation into reads AND every chunk size.

  What is proved, for EVERY segmentation with non-empty reads (code after repair 2906ffb: a lone CR / lead
  surrogate read reads on once before the carry-over test):
    * `char()` never raises and the characters delivered are the newline-normalised text (`C05_chars`);
      the formerly failing segmentation ("\r" then "\n…") is kept as a regression example
      (`C05_chars_lone_cr_regression`);
    * lead surrogates withheld at the end of a read come out unchanged (`C05_surrogates`);
    * without `unget`, `position()` after `k` characters is the reference position of offset `k` of the normalised
      text (`C05_position`); `unget` at chunk offset 0 breaks this (`C05_position_unget_witness…`, still open);
    * `charsUntil` returns the longest accepted prefix of the remaining text (`C05_charsUntil`);
    * the number of `invalid-codepoint` errors is the number of invalid code points of the text (`C05_errors_count`).
-/
import H5.Proofs.StreamCalls
import H5.Proofs.ExceptLemmas
namespace H5.Props.C05
open H5 H5.Gen H5.Model.InputStream H5.Spec.Stream H5.Proofs.Stream

/-! ### tables -/

/-- TableOK: the class of `invalid_unicode_re` is exactly "surrogate, noncharacter, or control other than ASCII
whitespace and NUL" (HTML standard, preprocessing the input stream) — for every natural number. -/
theorem C05_invalid_class (c : Nat) : inRanges invalidUnicode c = isInvalid c := by
  have h : inRanges invalidUnicode c = true ↔ isInvalid c = true := by
    simp only [inRanges, invalidUnicode, List.any_cons, List.any_nil, Bool.or_false, Bool.or_eq_true,
      Bool.and_eq_true, decide_eq_true_eq, isInvalid, isSurrogate, isNoncharacter, isControl, isAsciiWhitespace,
      Bool.not_eq_true', Bool.or_eq_false_iff, decide_eq_false_iff_not, bne_iff_ne, ne_eq, ge_iff_le]
    omega
  cases h1 : inRanges invalidUnicode c <;> cases h2 : isInvalid c <;> simp_all

/-- the carry-over test of `readChunk` is "CR or lead surrogate" -/
theorem C05_carry_class (c : Nat) : isCarry c = true ↔ c = 13 ∨ (0xD800 ≤ c ∧ c ≤ 0xDBFF) := by
  show (c == 13 || (decide (55296 ≤ c) && decide (c ≤ 56319))) = true ↔ _
  simp

/-- the two `str.replace` calls of `readChunk` compute the reference normalisation of the chunk -/
theorem C05_normalise (d : Str) : normalise d = normNewlines d := normalise_eq_spec d

/-! ### characters -/

/-- the remaining text of a fresh stream is the normalised text -/
theorem modelOut_init (segs : List Str) (hne : ∀ s ∈ segs, s ≠ []) :
    modelOut none segs = normNewlines segs.flatten := by
  simpa [otoList] using modelOut_spec none segs hne (by simp)

/-- **C05 (characters).**  For every segmentation of a text into non-empty reads (hence for every chunk size and
every short-read pattern of the source) draining the stream never raises and delivers exactly the
newline-normalised text: CR LF pairs split across reads are handled as if contiguous. -/
theorem C05_chars (segs : List Str) (hne : ∀ s ∈ segs, s ≠ []) :
    drainAll segs = .ok (normNewlines segs.flatten) := by
  have hi := inv_init segs hne
  have hrem : remaining (init segs) = normNewlines segs.flatten := by
    simp [remaining, init, modelOut_init segs hne]
  have hle := norm_length_le segs.flatten
  rw [← hrem]
  exact drain_remaining _ _ hi (by rw [hrem]; unfold drainFuel; omega)

/-- segmentation independence proper: two segmentations of the same text deliver the same characters -/
theorem C05_chars_independent (segs segs2 : List Str) (h1 : ∀ s ∈ segs, s ≠ []) (h2 : ∀ s ∈ segs2, s ≠ [])
    (he : segs.flatten = segs2.flatten) : drainAll segs = drainAll segs2 := by
  rw [C05_chars segs h1, C05_chars segs2 h2, he]

/-- regression example (the witness of the repaired defect `lone-cr-read-then-lf`): reads "\r", "\n" now give one
newline, like the contiguous text; likewise with more text around and with a CR CR LF sequence -/
theorem C05_chars_lone_cr_regression :
    drainAll [[13], [10]] = .ok [10] ∧ drainAll [[13, 10]] = .ok [10] ∧
    drainAll [[97], [13], [10], [98]] = .ok [97, 10, 98] ∧ drainAll [[13], [13], [10]] = .ok [10, 10] ∧
    drainAll [[97, 13], [10]] = .ok [97, 10] ∧ drainAll [[13]] = .ok [10] ∧ drainAll [[13], [97]] = .ok [10, 97] := by
  decide

theorem norm_id_of_no_cr (t : Str) (h : 13 ∉ t) : normNewlines t = t := by
  induction t with
  | nil => exact norm_nil
  | cons c r ih =>
    simp only [List.mem_cons, not_or] at h
    rw [norm_cons_ne c r (fun e => h.1 e.symm), ih h.2]

/-- **C05 (surrogates).**  A text without CR comes out unchanged for every segmentation — in particular a lead
surrogate (U+D800..U+DBFF) at the end of a read, or alone in a read, is delivered unchanged and in order. -/
theorem C05_surrogates (segs : List Str) (hne : ∀ s ∈ segs, s ≠ []) (hcr : 13 ∉ segs.flatten) :
    drainAll segs = .ok segs.flatten := by
  rw [C05_chars segs hne, norm_id_of_no_cr _ hcr]

/-- regression / witness: lead surrogate at the end of a read, alone in a read, at EOF -/
theorem C05_surrogate_witness :
    drainAll [[97, 0xD83D], [0xDE00, 98]] = .ok [97, 0xD83D, 0xDE00, 98] ∧
    drainAll [[97, 0xD800]] = .ok [97, 0xD800] ∧ drainAll [[0xD800], [0xDC00]] = .ok [0xD800, 0xDC00] ∧
    drainAll [[0xD800], [0xD800], [0xDC00, 13], [10]] = .ok [0xD800, 0xD800, 0xDC00, 10] := by
  decide

/-! ### positions -/

/-- **C05 (position).**  For every segmentation: after `k` calls of `char()` (no `unget`), the characters returned
are the first `k` characters of the normalised text and `position()` is the reference (line, column) of that offset
in the normalised text. -/
theorem C05_position (segs : List Str) (hne : ∀ s ∈ segs, s ≠ []) (k : Nat) :
    ∃ cs s', charN k (init segs) = .ok (cs, s') ∧ cs = (normNewlines segs.flatten).take k ∧
      position s' = positionOf (normNewlines segs.flatten) cs.length := by
  have hi := inv_init segs hne
  have hp : PInv (init segs) [] := ⟨rfl, rfl⟩
  obtain ⟨cs, s', pre', h1, h2, h3, h4, h5, _⟩ := charN_spec k (init segs) [] hi hp
  have hrem : remaining (init segs) = normNewlines segs.flatten := by
    simp [remaining, init, modelOut_init segs hne]
  rw [hrem] at h2
  refine ⟨cs, s', h1, h2, ?_⟩
  have hpos := positionAt_spec s' pre' h4 s'.chunkOffset (by have := h3.size; have := h3.off; omega)
  simp only [init, List.take_nil, List.append_nil, List.nil_append] at h5
  rw [h5] at hpos
  rw [positionOf_eq]
  have : (normNewlines segs.flatten).take cs.length = cs := by
    rw [h2]; simp [List.take_take]
  rw [this]
  simp [position, hpos]

def c : Call := .c
def u : Call := .u
def p : Call := .p

/-- **defect witness (unget at chunk offset 0 after EOF).**  Input `<!DO` in one read; the tokenizer's
markup-declaration-open state reads `<`, `!`, `D`, `O`, EOF, ungets EOF, `O`, `D`, then the bogus-comment state calls
`charsUntil(">")`.  The characters pushed back at `chunkOffset == 0` are prepended to the (empty) chunk although
`prevNumCols` already counts them: the final position is column 6 of a 4-character line. -/
theorem C05_position_unget_witness :
    (run [[60, 33, 68, 79]] [c, c, c, c, c, u, u, u, p, .t [62] false, p]).map (·.1)
      = .ok [.ch (some 60), .ch (some 33), .ch (some 68), .ch (some 79), .ch none, .unit, .unit, .unit,
             .pos 1 4, .str [68, 79], .pos 1 6]
    ∧ positionOf [60, 33, 68, 79] 4 = (1, 4) := by
  decide

/-- **defect witness (unget across a chunk boundary).**  Reads `<!-`, `x>`: after reading `<!-x` and ungetting `x`
and `-` (two characters pushed back, the second one belongs to the previous chunk) `position()` says column 3 while
only two characters are consumed; the contiguous delivery says column 2. -/
theorem C05_position_unget_boundary_witness :
    (run [[60, 33, 45], [120, 62]] [c, c, c, c, u, u, p]).map (·.1.getLast?) = .ok (some (.pos 1 3))
    ∧ (run [[60, 33, 45, 120, 62]] [c, c, c, c, u, u, p]).map (·.1.getLast?) = .ok (some (.pos 1 2))
    ∧ positionOf [60, 33, 45, 120, 62] 2 = (1, 2) := by
  decide

/-! ### charsUntil -/

/-- **C05 (charsUntil).**  From any state reachable without `unget` at offset 0 (invariant `Inv`), `charsUntil`
never raises for a non-empty ASCII set and returns the longest prefix of the remaining text whose characters are
(not) in the set — whatever the segmentation of the rest of the source; the stream then continues after it. -/
theorem C05_charsUntil_state (s : St) (hi : Inv s) (set : Str) (opp : Bool)
    (hset : set ≠ []) (hascii : ∀ x ∈ set, x < 128) :
    ∃ s', charsUntil s set opp = .ok (longestPrefix (classAccepts set opp) (remaining s), s') ∧ Inv s' ∧
      remaining s' = (remaining s).drop (longestPrefix (classAccepts set opp) (remaining s)).length := by
  have h1 : set.any (fun c => decide (c ≥ charsUntilAsciiBound)) = false := by
    rw [List.any_eq_false]
    intro x hx
    have := hascii x hx
    simp [charsUntilAsciiBound]; omega
  have h2 : set.isEmpty = false := by cases set <;> simp_all
  obtain ⟨s', e1, e2, e3, _⟩ := charsUntilLoop_spec set opp (charsUntilFuel s) s [] hi (need_le_fuel s)
  refine ⟨s', ?_, e2, ?_⟩
  · simp only [charsUntil, h1, h2, Bool.false_eq_true, if_false]
    rw [e1, longestPrefix_eq_takeWhile]; simp
  · rw [e3, longestPrefix_eq_takeWhile, drop_takeWhile_length]

/-- at the start of the stream: the longest accepted prefix of the normalised text, for every segmentation -/
theorem C05_charsUntil (segs : List Str) (hne : ∀ s ∈ segs, s ≠ []) (set : Str) (opp : Bool)
    (hset : set ≠ []) (hascii : ∀ x ∈ set, x < 128) :
    ∃ s', charsUntil (init segs) set opp
        = .ok (longestPrefix (classAccepts set opp) (normNewlines segs.flatten), s') ∧
      remaining s' = (normNewlines segs.flatten).drop
        (longestPrefix (classAccepts set opp) (normNewlines segs.flatten)).length := by
  have hrem : remaining (init segs) = normNewlines segs.flatten := by
    simp [remaining, init, modelOut_init segs hne]
  obtain ⟨s', h1, _, h3⟩ := C05_charsUntil_state (init segs) (inv_init segs hne) set opp hset hascii
  rw [hrem] at h1 h3
  exact ⟨s', h1, h3⟩

/-- the `assert` of charsUntil: a non-ASCII character in the set raises AssertionError -/
theorem C05_charsUntil_assert (s : St) (set : Str) (opp : Bool) (x : Nat) (hx : x ∈ set) (h : x ≥ 128) :
    charsUntil s set opp = .error (.assertFail "charsUntil: ord(c) < 128") := by
  have : set.any (fun c => decide (c ≥ charsUntilAsciiBound)) = true := by
    rw [List.any_eq_true]; exact ⟨x, hx, by simp [charsUntilAsciiBound]; omega⟩
  simp [charsUntil, this]

/-! ### invalid-codepoint errors -/

theorem countInvalid_spec (t : Str) : countInvalid t = invalidCount t := by
  unfold countInvalid invalidCount
  congr 1
  apply List.filter_congr
  intro x _
  exact C05_invalid_class x

/-- **C05 (error count).**  For every segmentation the number of `invalid-codepoint` errors recorded by the time
EOF is reached equals the number of invalid code points of the whole text (surrogates count one each, whether or
not a pair is split across reads: the UCS4 build matches single code points). -/
theorem C05_errors_count (segs : List Str) (hne : ∀ s ∈ segs, s ≠ []) :
    ∃ s', drainState (drainFuel segs) (init segs) = .ok s' ∧ s'.errors = invalidCount segs.flatten := by
  have hi := inv_init segs hne
  have hrem : remaining (init segs) = modelOut none segs := by simp [remaining, init]
  have hle : (modelOut none segs).length ≤ segs.flatten.length := by
    simpa [otoList] using modelOut_length_le none segs hne (by simp)
  obtain ⟨s', h1, h2⟩ := drainState_errors (drainFuel segs) (init segs) hi (by rw [hrem]; unfold drainFuel; omega)
  refine ⟨s', h1, ?_⟩
  rw [h2, ← countInvalid_spec]
  simp [init, otoList]

/-- the error POSITION however depends on the chunking: the error is recorded when the chunk is read.
One invalid character at offset 3: with one read the counter is already 1 after the first `char()`,
with reads of one character it is still 0 after three. -/
theorem C05_error_time_witness :
    ((charN 1 (init [[97, 98, 99, 1]])).map (·.2.errors)) = .ok 1 ∧
    ((charN 3 (init [[97], [98], [99], [1]])).map (·.2.errors)) = .ok 0 := by
  decide

/-! non-vacuity: the theorems apply to segmentations with one-character reads -/
example : ∀ s ∈ ([[13], [10], [0xD800], [97, 98]] : List Str), s ≠ [] := by decide

end H5.Props.C05
