/-
  Property C05 — the result does not depend on how the input characters are delivered (stream level).

  Model: H5.Model.Stream (namespace H5.Model.InputStream; hand model of HTMLUnicodeInputStream, tied by the
  correspondence op `stream`; constants extracted into H5.Gen.Stream).  Reference: H5.Spec.Stream.
  A *source* `segs : List Str` is the list of strings returned by the successive `read()` calls, so
  "for every `segs` with the same `segs.flatten`" = every segmentation into reads AND every chunk size.

  What is proved, for EVERY segmentation with non-empty reads:
    * `char()` never raises, and the characters delivered are `modelOut none segs` (each chunk normalised on its own);
    * they equal the newline-normalised text  IFF  the lone-CR defect does not fire (`C05_chars_iff`);
      the defect is witnessed by `C05_chars_lone_cr_witness` (a read of exactly "\r" followed by a read starting "\n");
    * lead surrogates withheld at the end of a read come out unchanged (`C05_surrogates`);
    * without `unget`, `position()` after `k` characters is the reference position of offset `k` of the delivered
      text (`C05_position`); `unget` at chunk offset 0 breaks this (`C05_position_unget_witness…`);
    * `charsUntil` returns the longest accepted prefix of the remaining text (`C05_charsUntil`);
    * the number of `invalid-codepoint` errors is the number of invalid code points of the text (`C05_errors_count`).
-/
import H5.Proofs.StreamCalls
import H5.Proofs.ExceptLemmas
namespace H5.Props.C05
open H5 H5.Gen H5.Model.InputStream H5.Spec.Stream H5.Proofs.Stream

/-! ### tables -/

/-- TableOK: the class of `invalid_unicode_re` is exactly "surrogate, noncharacter, or control other than ASCII
whitespace and NUL" (HTML standard, preprocessing the input stream) — for every natural number. -/
theorem C05_invalid_class (c : Nat) : inRanges invalidUnicode c = isInvalid c := by
  have h : inRanges invalidUnicode c = true ↔ isInvalid c = true := by
    simp only [inRanges, invalidUnicode, List.any_cons, List.any_nil, Bool.or_false, Bool.or_eq_true,
      Bool.and_eq_true, decide_eq_true_eq, isInvalid, isSurrogate, isNoncharacter, isControl, isAsciiWhitespace,
      Bool.not_eq_true', Bool.or_eq_false_iff, decide_eq_false_iff_not, bne_iff_ne, ne_eq, ge_iff_le]
    omega
  cases h1 : inRanges invalidUnicode c <;> cases h2 : isInvalid c <;> simp_all

/-- the carry-over test of `readChunk` is "CR or lead surrogate" -/
theorem C05_carry_class (c : Nat) : isCarry c = true ↔ c = 13 ∨ (0xD800 ≤ c ∧ c ≤ 0xDBFF) := by
  show (c == 13 || (decide (55296 ≤ c) && decide (c ≤ 56319))) = true ↔ _
  simp

/-- the two `str.replace` calls of `readChunk` compute the reference normalisation of the chunk -/
theorem C05_normalise (d : Str) : normalise d = normNewlines d := normalise_eq_spec d

/-! ### characters -/

/-- for every segmentation: draining never raises and delivers `modelOut` -/
theorem C05_chars_total (segs : List Str) (hne : ∀ s ∈ segs, s ≠ []) :
    drainAll segs = .ok (modelOut none segs) := by
  have hi := inv_init segs hne
  have hrem : remaining (init segs) = modelOut none segs := by simp [remaining, init]
  have hle : (modelOut none segs).length ≤ segs.flatten.length := by
    simpa [otoList] using modelOut_length_le none segs
  rw [← hrem]
  exact drain_remaining _ _ hi (by rw [hrem]; unfold drainFuel; omega)

/-- **C05 (characters), exact form.**  For every segmentation into non-empty reads, the characters delivered are
the newline-normalised text if and only if no read returns exactly "\r" while nothing is buffered and the next
read starts with "\n". -/
theorem C05_chars_iff (segs : List Str) (hne : ∀ s ∈ segs, s ≠ []) :
    drainAll segs = .ok (normNewlines segs.flatten) ↔ loneCrCount none segs = 0 := by
  rw [C05_chars_total segs hne]
  obtain ⟨h1, h2⟩ := modelOut_length none segs hne (by simp)
  simp only [otoList, List.nil_append] at h1 h2
  constructor
  · intro h
    injection h with h
    rw [h] at h1
    omega
  · intro h; rw [h2 h]

/-- no read is exactly "\r" directly followed by a read that starts with "\n" -/
def NoLoneCrThenLf : List Str → Prop
  | [] => True
  | [_] => True
  | s :: t :: rest => ¬ (s = [13] ∧ t.head? = some 10) ∧ NoLoneCrThenLf (t :: rest)

instance decNoLoneCrThenLf : (l : List Str) → Decidable (NoLoneCrThenLf l)
  | [] => isTrue trivial
  | [_] => isTrue trivial
  | s :: t :: rest =>
    match decNoLoneCrThenLf (t :: rest) with
    | isTrue h => if h2 : s = [13] ∧ t.head? = some 10 then isFalse (fun hh => hh.1 h2) else isTrue ⟨h2, h⟩
    | isFalse h => isFalse (fun hh => h hh.2)

theorem loneCr_zero_of_adjacent (buf : Option Nat) (segs : List Str) (hne : ∀ s ∈ segs, s ≠ [])
    (h : NoLoneCrThenLf segs) : loneCrCount buf segs = 0 := by
  induction segs generalizing buf with
  | nil => rfl
  | cons s rest ih =>
    cases rest with
    | nil => simp [loneCrCount]
    | cons t rest' =>
      have ht : t ≠ [] := hne t (by simp)
      obtain ⟨x, r, e⟩ := List.exists_cons_of_ne_nil ht
      have hrec := ih (carve (withBuf buf s)).2 (fun y hy => hne y (List.mem_cons_of_mem _ hy)) h.2
      have hif : (if buf = none ∧ s = [13] ∧ (t :: rest').flatten.head? = some 10 then 1 else 0) = 0 := by
        apply if_neg
        intro ⟨_, e2, e3⟩
        apply h.1
        refine ⟨e2, ?_⟩
        rw [e] at e3 ⊢
        simpa using e3
      rw [loneCrCount, hif, hrec]

/-- **C05 (characters), partial.**  Missing for the full statement: the hypothesis `NoLoneCrThenLf` — it excludes
exactly the segmentations of `C05_chars_lone_cr_witness` (html5lib defect: `len(data) > 1` guard in readChunk). -/
theorem C05_chars_partial (segs : List Str) (hne : ∀ s ∈ segs, s ≠ []) (h : NoLoneCrThenLf segs) :
    drainAll segs = .ok (normNewlines segs.flatten) :=
  (C05_chars_iff segs hne).mpr (loneCr_zero_of_adjacent none segs hne h)

theorem noLoneCr_of_len2 (segs : List Str) (h : ∀ s ∈ segs, s.length ≥ 2) : NoLoneCrThenLf segs := by
  induction segs with
  | nil => trivial
  | cons s rest ih =>
    cases rest with
    | nil => trivial
    | cons t rest' =>
      refine ⟨?_, ih (fun y hy => h y (List.mem_cons_of_mem _ hy))⟩
      intro ⟨e, _⟩
      have := h s (by simp)
      rw [e] at this
      simp at this

/-- in particular: every chunk size ≥ 2 (all reads but the last have the chunk size) with a last read of ≥ 2 … or any
segmentation whose reads all have at least two characters -/
theorem C05_chars_len2 (segs : List Str) (h : ∀ s ∈ segs, s.length ≥ 2) :
    drainAll segs = .ok (normNewlines segs.flatten) :=
  C05_chars_partial segs (fun s hs e => by have := h s hs; rw [e] at this; simp at this) (noLoneCr_of_len2 segs h)

/-- the NEGATION of the full statement on a concrete witness: reads "\r", "\n" give two newlines -/
theorem C05_chars_lone_cr_witness :
    drainAll [[13], [10]] = .ok [10, 10] ∧ normNewlines ([[13], [10]] : List Str).flatten = [10] ∧
    drainAll [[13], [10]] ≠ .ok (normNewlines ([[13], [10]] : List Str).flatten) := by
  decide

/-- the same text in one read, or with the CR not alone in its read, is handled correctly -/
theorem C05_chars_cr_ok_witness :
    drainAll [[13, 10]] = .ok [10] ∧ drainAll [[97, 13], [10]] = .ok [97, 10] ∧
    drainAll [[97, 13], [13], [10]] = .ok [97, 10, 10] := by
  decide

theorem norm_id_of_no_cr (t : Str) (h : 13 ∉ t) : normNewlines t = t := by
  induction t with
  | nil => exact norm_nil
  | cons c r ih =>
    simp only [List.mem_cons, not_or] at h
    rw [norm_cons_ne c r (fun e => h.1 e.symm), ih h.2]

theorem loneCr_zero_of_no_cr (buf : Option Nat) (segs : List Str) (h : ∀ s ∈ segs, s ≠ [13]) :
    loneCrCount buf segs = 0 := by
  induction segs generalizing buf with
  | nil => rfl
  | cons s rest ih =>
    simp only [loneCrCount]
    rw [ih _ (fun y hy => h y (List.mem_cons_of_mem _ hy))]
    have := h s (by simp)
    simp [this]

/-- **C05 (surrogates).**  A text without CR comes out unchanged for every segmentation — in particular a lead
surrogate (U+D800..U+DBFF) withheld at the end of a read is delivered, unchanged and in order, with the next read
(or at end of file). -/
theorem C05_surrogates (segs : List Str) (hne : ∀ s ∈ segs, s ≠ []) (hcr : 13 ∉ segs.flatten) :
    drainAll segs = .ok segs.flatten := by
  have h0 : loneCrCount none segs = 0 := by
    apply loneCr_zero_of_no_cr
    intro s hs e
    apply hcr
    simp only [List.mem_flatten]
    exact ⟨s, hs, by rw [e]; simp⟩
  have := (C05_chars_iff segs hne).mpr h0
  rw [norm_id_of_no_cr _ hcr] at this
  exact this

/-- witness: lead surrogate at the end of a read, trail surrogate in the next; lone lead surrogate at EOF -/
theorem C05_surrogate_witness :
    drainAll [[97, 0xD83D], [0xDE00, 98]] = .ok [97, 0xD83D, 0xDE00, 98] ∧
    drainAll [[97, 0xD800]] = .ok [97, 0xD800] ∧ drainAll [[0xD800], [0xDC00]] = .ok [0xD800, 0xDC00] := by
  decide

/-! ### positions -/

/-- **C05 (position).**  For every segmentation: after `k` calls of `char()` (no `unget`), the characters returned
are the first `k` delivered characters and `position()` is the reference (line, column) of that offset in the
delivered text (`out`; by `C05_chars_iff` it is the normalised text unless the lone-CR defect fires). -/
theorem C05_position (segs : List Str) (hne : ∀ s ∈ segs, s ≠ []) (k : Nat) :
    ∃ cs s', charN k (init segs) = .ok (cs, s') ∧ cs = (modelOut none segs).take k ∧
      position s' = positionOf (modelOut none segs) cs.length := by
  have hi := inv_init segs hne
  have hp : PInv (init segs) [] := ⟨rfl, rfl⟩
  obtain ⟨cs, s', pre', h1, h2, h3, h4, h5, _⟩ := charN_spec k (init segs) [] hi hp
  have hrem : remaining (init segs) = modelOut none segs := by simp [remaining, init]
  rw [hrem] at h2
  refine ⟨cs, s', h1, h2, ?_⟩
  have hpos := positionAt_spec s' pre' h4 s'.chunkOffset (by have := h3.size; have := h3.off; omega)
  simp only [init, List.take_nil, List.append_nil, List.nil_append] at h5
  rw [h5] at hpos
  rw [positionOf_eq]
  have : (modelOut none segs).take cs.length = cs := by
    rw [h2]; simp [List.take_take]
  rw [this]
  simp [position, hpos]

/-- corollary in terms of the normalised text, under the hypothesis of `C05_chars_partial` -/
theorem C05_position_norm_partial (segs : List Str) (hne : ∀ s ∈ segs, s ≠ []) (h : NoLoneCrThenLf segs) (k : Nat) :
    ∃ cs s', charN k (init segs) = .ok (cs, s') ∧ cs = (normNewlines segs.flatten).take k ∧
      position s' = positionOf (normNewlines segs.flatten) cs.length := by
  have e : modelOut none segs = normNewlines segs.flatten := by
    have := (modelOut_length none segs hne (by simp)).2 (loneCr_zero_of_adjacent none segs hne h)
    simpa [otoList] using this
  rw [← e]
  exact C05_position segs hne k

def c : Call := .c
def u : Call := .u
def p : Call := .p

/-- **defect witness (unget at chunk offset 0 after EOF).**  Input `<!DO` in one read; the tokenizer's
markup-declaration-open state reads `<`, `!`, `D`, `O`, EOF, ungets EOF, `O`, `D`, then the bogus-comment state calls
`charsUntil(">")`.  The characters pushed back at `chunkOffset == 0` are prepended to the (empty) chunk although
`prevNumCols` already counts them: the final position is column 6 of a 4-character line. -/
theorem C05_position_unget_witness :
    (run [[60, 33, 68, 79]] [c, c, c, c, c, u, u, u, p, .t [62] false, p]).map (·.1)
      = .ok [.ch (some 60), .ch (some 33), .ch (some 68), .ch (some 79), .ch none, .unit, .unit, .unit,
             .pos 1 4, .str [68, 79], .pos 1 6]
    ∧ positionOf [60, 33, 68, 79] 4 = (1, 4) := by
  decide

/-- **defect witness (unget across a chunk boundary).**  Reads `<!-`, `x>`: after reading `<!-x` and ungetting `x`
and `-` (two characters pushed back, the second one belongs to the previous chunk) `position()` says column 3 while
only two characters are consumed; the contiguous delivery says column 2. -/
theorem C05_position_unget_boundary_witness :
    (run [[60, 33, 45], [120, 62]] [c, c, c, c, u, u, p]).map (·.1.getLast?) = .ok (some (.pos 1 3))
    ∧ (run [[60, 33, 45, 120, 62]] [c, c, c, c, u, u, p]).map (·.1.getLast?) = .ok (some (.pos 1 2))
    ∧ positionOf [60, 33, 45, 120, 62] 2 = (1, 2) := by
  decide

/-! ### charsUntil -/

/-- **C05 (charsUntil).**  From any state reachable without `unget` at offset 0 (invariant `Inv`), `charsUntil`
never raises for a non-empty ASCII set and returns the longest prefix of the remaining text whose characters are
(not) in the set — whatever the segmentation of the rest of the source; the stream then continues after it. -/
theorem C05_charsUntil_state (s : St) (hi : Inv s) (set : Str) (opp : Bool)
    (hset : set ≠ []) (hascii : ∀ x ∈ set, x < 128) :
    ∃ s', charsUntil s set opp = .ok (longestPrefix (classAccepts set opp) (remaining s), s') ∧ Inv s' ∧
      remaining s' = (remaining s).drop (longestPrefix (classAccepts set opp) (remaining s)).length := by
  have h1 : set.any (fun c => decide (c ≥ charsUntilAsciiBound)) = false := by
    rw [List.any_eq_false]
    intro x hx
    have := hascii x hx
    simp [charsUntilAsciiBound]; omega
  have h2 : set.isEmpty = false := by cases set <;> simp_all
  obtain ⟨s', e1, e2, e3, _⟩ := charsUntilLoop_spec set opp (charsUntilFuel s) s [] hi (need_le_fuel s)
  refine ⟨s', ?_, e2, ?_⟩
  · simp only [charsUntil, h1, h2, Bool.false_eq_true, if_false]
    rw [e1, longestPrefix_eq_takeWhile]; simp
  · rw [e3, longestPrefix_eq_takeWhile, drop_takeWhile_length]

/-- at the start of the stream: independent of the segmentation (the remaining text is `modelOut none segs`) -/
theorem C05_charsUntil (segs : List Str) (hne : ∀ s ∈ segs, s ≠ []) (set : Str) (opp : Bool)
    (hset : set ≠ []) (hascii : ∀ x ∈ set, x < 128) :
    ∃ s', charsUntil (init segs) set opp = .ok (longestPrefix (classAccepts set opp) (modelOut none segs), s') ∧
      remaining s' = (modelOut none segs).drop (longestPrefix (classAccepts set opp) (modelOut none segs)).length := by
  have hrem : remaining (init segs) = modelOut none segs := by simp [remaining, init]
  obtain ⟨s', h1, _, h3⟩ := C05_charsUntil_state (init segs) (inv_init segs hne) set opp hset hascii
  rw [hrem] at h1 h3
  exact ⟨s', h1, h3⟩

/-- the `assert` of charsUntil: a non-ASCII character in the set raises AssertionError -/
theorem C05_charsUntil_assert (s : St) (set : Str) (opp : Bool) (x : Nat) (hx : x ∈ set) (h : x ≥ 128) :
    charsUntil s set opp = .error (.assertFail "charsUntil: ord(c) < 128") := by
  have : set.any (fun c => decide (c ≥ charsUntilAsciiBound)) = true := by
    rw [List.any_eq_true]; exact ⟨x, hx, by simp [charsUntilAsciiBound]; omega⟩
  simp [charsUntil, this]

/-! ### invalid-codepoint errors -/

theorem countInvalid_spec (t : Str) : countInvalid t = invalidCount t := by
  unfold countInvalid invalidCount
  congr 1
  apply List.filter_congr
  intro x _
  exact C05_invalid_class x

/-- **C05 (error count).**  For every segmentation the number of `invalid-codepoint` errors recorded by the time
EOF is reached equals the number of invalid code points of the whole text (surrogates count one each, whether or
not a pair is split across reads: the UCS4 build matches single code points). -/
theorem C05_errors_count (segs : List Str) (hne : ∀ s ∈ segs, s ≠ []) :
    ∃ s', drainState (drainFuel segs) (init segs) = .ok s' ∧ s'.errors = invalidCount segs.flatten := by
  have hi := inv_init segs hne
  have hrem : remaining (init segs) = modelOut none segs := by simp [remaining, init]
  have hle : (modelOut none segs).length ≤ segs.flatten.length := by
    simpa [otoList] using modelOut_length_le none segs
  obtain ⟨s', h1, h2⟩ := drainState_errors (drainFuel segs) (init segs) hi (by rw [hrem]; unfold drainFuel; omega)
  refine ⟨s', h1, ?_⟩
  rw [h2, ← countInvalid_spec]
  simp [init, otoList]

/-- the error POSITION however depends on the chunking: the error is recorded when the chunk is read.
One invalid character at offset 3: with one read the counter is already 1 after the first `char()`,
with reads of one character it is still 0 after three. -/
theorem C05_error_time_witness :
    ((charN 1 (init [[97, 98, 99, 1]])).map (·.2.errors)) = .ok 1 ∧
    ((charN 3 (init [[97], [98], [99], [1]])).map (·.2.errors)) = .ok 0 := by
  decide

/-! non-vacuity of the hypotheses -/
example : NoLoneCrThenLf [[97, 13], [10, 98], [13], [99]] := by decide
example : ¬ NoLoneCrThenLf [[13], [10]] := by decide
example : loneCrCount none [[97, 13], [13], [10]] = 0 ∧ ¬ NoLoneCrThenLf [[97, 13], [13], [10]] := by decide

end H5.Props.C05
