/-
  Property C03 "parsing is total", fuel part: `outOfFuel` is unreachable in the tree-construction model and in the
  parser loop — statement list.

  Level 1 (local loops, `C03bLoops` / `C03bHelpers` / `C03bHand4`):
    generateImpliedEndTags_fuel, popUntil_fuel, popWhile_fuel, reconstructActiveFormattingElements_fuel,
    InForeignContent_processEndTag_fuel (+ the loop invariants `*_tr`).
  Level 2 (dispatch depth, `C03bRec` … `C03bDepth`):
    the rank `needS/needE/needCh/needSp/needCm/needEOF` (≤ 5), the call-graph check `graphS_* / graphE_* / graphPlain`
    on the generated dispatch tables, `mkRec_ok`, and `dispatch_depth_bound` below.
  Level 3 (`C03bTop`): `eofLoop_total` (EOF loop), `reprocessLoop_trx` (the reprocess loop can only fail with its
    own fuel error); the unconditional `reprocess_total` is FALSE state-by-state, see `C03bReprocess`.
  Level 4 (this file + `C03bTok`): `parser_loop_total`, `C03_total_fuel_partial`.
-/
import H5.Props.C03bTop
import H5.Props.C03bReprocess
import H5.Props.C03bTok
set_option linter.unusedSimpArgs false
set_option linter.unusedVariables false
namespace H5.Props.C03b
open H5 H5.Model H5.Model.TB H5.Model.Dom
open H5.Props.C02c (NF Post Post_bind Post_mono Post_pure Post_ok Post_error Post_throw Post_ite
  NF_typeError NF_keyError NF_indexError NF_assertFail NF_valueError NF_lookupError)

/-! ### level 1: the users of the fuelled loops, by name

The loop invariants are `generateImpliedEndTagsAux_tr`, `popUntilLoop_tr`, `popWhileLoop_tr`, `reconstructLoop_tr`,
`InForeignContent_popTo_tr`, `InForeignContent_processEndTag_loop_tr`; the fuel the model passes
(`len(openElements) + 1` resp. `+ 2`, `len(afe) + 1`, `2·len + 2`) suffices in EVERY state — no finding at this level.
The loops without fuel (scope walks, `clearActiveFormattingElements`, `resetInsertionMode`, the adoption agency with
its counters 8 / 3) are structural recursions; they are listed for completeness. -/

/-- any computation with an `Fr` specification -/
theorem fuel_of_Fr {α : Type} (m : M α) [h : Fr m] (st : PState) (site : String) :
    m.run st ≠ .error (.outOfFuel site) := Tr_run (h.out st) site

/-- any computation with a `Pv` specification, from a state satisfying `PhInv` -/
theorem fuel_of_Pv {α : Type} (m : M α) [h : Pv m] (st : PState) (hi : PhInv st) (site : String) :
    m.run st ≠ .error (.outOfFuel site) := Tr_run (h.out st hi) site

theorem clearStackBackTo_fuel (st : PState) (site : String) :
    InTable_clearStackToTableContext.run st ≠ .error (.outOfFuel site) ∧
    InTableBody_clearStackToTableBodyContext.run st ≠ .error (.outOfFuel site) ∧
    InRow_clearStackToTableRowContext.run st ≠ .error (.outOfFuel site) :=
  ⟨fuel_of_Fr _ st site, fuel_of_Fr _ st site, fuel_of_Fr _ st site⟩

theorem elementInScope_fuel (target : Str) (variant : Option String) (st : PState) (site : String) :
    (elementInScope target variant).run st ≠ .error (.outOfFuel site) := fuel_of_Fr _ st site

theorem clearActiveFormattingElements_fuel (st : PState) (site : String) :
    clearActiveFormattingElements.run st ≠ .error (.outOfFuel site) := fuel_of_Fr _ st site

theorem resetInsertionMode_fuel (st : PState) (hi : PhInv st) (site : String) :
    resetInsertionMode.run st ≠ .error (.outOfFuel site) := fuel_of_Pv _ st hi site

/-- the adoption agency algorithm (outer loop ≤ 8, inner loop ≤ 3 rounds, `popUntil`, `endTagOther`) -/
theorem adoptionAgency_fuel (tok : Token) (st : PState) (site : String) :
    (InBody_endTagFormatting tok).run st ≠ .error (.outOfFuel site) := fuel_of_Fr _ st site

/-- `endTagP` ⇄ `startTagCloseP` (bounded by `maxRecursion`, a `RecursionError`, not a fuel error) -/
theorem endTagP_fuel (tok : Token) (st : PState) (site : String) :
    (InBody_endTagP tok).run st ≠ .error (.outOfFuel site) := fuel_of_Fr _ st site

/-- the breakout pop loop of `InForeignContentPhase.processStartTag` -/
theorem InForeignContent_processStartTag_fuel (tok : Token) (st : PState) (site : String) :
    (InForeignContent_processStartTag tok).run st ≠ .error (.outOfFuel site) := fuel_of_Fr _ st site

theorem InBody_endTagOther_fuel (tok : Token) (st : PState) (site : String) :
    (InBody_endTagOther tok).run st ≠ .error (.outOfFuel site) := fuel_of_Fr _ st site

/-! ### level 2: the dispatch depth -/

/-- **`dispatch_depth_bound`**: with `Cfg.dispatchDepth ≥ 6` (the model passes 48) no entry point of the dispatcher
`mkRec cfg.dispatchDepth`, called in any phase with any token from a state whose phase registers do not hold
`inForeignContent`, fails with a fuel error — neither `"dispatch-depth"` nor the fuel of any helper loop. -/
theorem dispatch_depth_bound (cfg : Cfg) (hd : 6 ≤ cfg.dispatchDepth) (ph : Phase) (tok : Token) (st : PState)
    (hi : PhInv st) (site : String) :
    ((mkRec cfg.dispatchDepth).processStartTag ph tok).run st ≠ .error (.outOfFuel site) ∧
    ((mkRec cfg.dispatchDepth).processEndTag ph tok).run st ≠ .error (.outOfFuel site) ∧
    ((mkRec cfg.dispatchDepth).processCharacters ph tok).run st ≠ .error (.outOfFuel site) ∧
    ((mkRec cfg.dispatchDepth).processSpaceCharacters ph tok).run st ≠ .error (.outOfFuel site) ∧
    ((mkRec cfg.dispatchDepth).processComment ph tok).run st ≠ .error (.outOfFuel site) ∧
    ((mkRec cfg.dispatchDepth).processDoctype ph tok).run st ≠ .error (.outOfFuel site) ∧
    ((mkRec cfg.dispatchDepth).processEOF ph).run st ≠ .error (.outOfFuel site) := by
  obtain ⟨h1, h2, h3, h4, h5, h6, h7⟩ := mkRec_total (n := cfg.dispatchDepth) hd ph tok
  exact ⟨Tr_run (h1.out st hi) site, Tr_run (h2.out st hi) site, Tr_run (h3.out st hi) site,
    Tr_run (h4.out st hi) site, Tr_run (h5.out st hi) site, Tr_run (h6.out st hi) site, Tr_run (h7.out st hi) site⟩

/-- non-vacuity of the hypothesis: depth 0 fails at once.  The bound 6 is sharp: `#eval Parser.parse { dispatchDepth := 5 }
(lit "<table><tr><li><li>")` gives `OutOfFuel:dispatch-depth` (inRow → inTable → inBody.startTagListItem →
parser.phase = inRow .processEndTag(li) → inTable → inBody), depth 6 parses it. -/
example : ((mkRec 0).processEOF .initial).run
    { cfg := {}, arena := Arena.empty, document := 0, phase := none } = .error (.outOfFuel "dispatch-depth") := rfl

/-! ### level 3: one token through the tree builder -/

/-- **`reprocess_partial`**: `TB.step` can only fail with the fuel error of the reprocess loop -/
theorem step_fuel (cfg : Cfg) (st : PState) (t : TTok) (hd : 6 ≤ cfg.dispatchDepth) (hi : PhInv st) (site : String)
    (hs : site ≠ "HTMLParser.mainLoop:reprocess") : TB.step cfg st t ≠ .error (.outOfFuel site) := by
  intro he
  have := step_ok cfg st t hd hi
  rw [he] at this
  exact hs (this site rfl)

/-! ### level 4: the parser loop -/

theorem tokStateOf_entry (s : TokStateSwitch) :
    Parser.tokStateOf s = .dataState ∨ Parser.tokStateOf s = .rcdataState ∨ Parser.tokStateOf s = .rawtextState ∨
    Parser.tokStateOf s = .scriptDataState ∨ Parser.tokStateOf s = .plaintextState := by
  cases s <;> simp [Parser.tokStateOf]

theorem phi_setCdataAllowed (s : Tokenizer.St) (b : Bool) : Φ (Tokenizer.setCdataAllowed s b) = Φ s := rfl

/-- loop invariant of `Parser.loop`: the potential `Φ` (8 per input character, 3 per unit of state weight, 1 per
queued token) of the tokenizer state is below the remaining fuel; every pull pops one token (`next_phi`), the
state switches ordered by the tree builder do not increase it (`phi_setState_entry`) -/
theorem loop_ok (cfg : Cfg) (hd : 6 ≤ cfg.dispatchDepth) :
    ∀ fuel ps ts, PhInv ps → Φ ts < fuel → PostX (Parser.loop cfg fuel ps ts) (fun _ => True) := by
  intro fuel
  induction fuel with
  | zero => intro ps ts hi h; omega
  | succ fuel ih =>
    intro ps ts hi h
    unfold Parser.loop
    simp only [PostX_bind]
    cases hn : Tokenizer.next ts with
    | error e =>
      exact NFx_of_NF (fun site he => C02c.next_total ts site (by rw [hn, he]))
    | ok r =>
      show PostX (match r with
        | none => TB.finish cfg ps
        | some (tok, ts) => do
          let (ps, sw) ← TB.step cfg ps tok
          let ts := match sw with
            | some s => Tokenizer.setState ts (Parser.tokStateOf s)
            | none => ts
          let ts := Tokenizer.setCdataAllowed ts (TB.cdataAllowed ps)
          Parser.loop cfg fuel ps ts) (fun _ => True)
      cases r with
      | none => exact PostX_of_Post (finish_ok cfg ps hd hi)
      | some p =>
        obtain ⟨tok, ts'⟩ := p
        have hphi := next_phi ts ts' tok hn
        dsimp only
        rw [PostX_bind]
        refine PostX_mono (step_ok cfg ps tok hd hi) ?_
        rintro ⟨ps', sw⟩ hi'
        dsimp only
        apply ih _ _ hi'
        rw [phi_setCdataAllowed]
        split
        · rename_i s
          have := phi_setState_entry ts' (Parser.tokStateOf s) false (tokStateOf_entry s)
          rw [phi_setCdataAllowed] at this
          omega
        · omega

/-- **`parser_loop_total`**: with the fuel `8 * input.length + 64` that `Parser.parse` passes, `Parser.loop` never
returns `outOfFuel "Parser.loop"` (nor any other fuel error except the one of the reprocess loop) -/
theorem parser_loop_total (cfg : Cfg) (hd : 6 ≤ cfg.dispatchDepth) (input : Str) (ps : PState) (hi : PhInv ps)
    (last : Option Str) (cd : Bool) (site : String) (hs : site ≠ "HTMLParser.mainLoop:reprocess") :
    Parser.loop cfg (8 * input.length + 64) ps
      (Tokenizer.St.init (Parser.tokStateOf (initialTokState cfg)) last cd input) ≠ .error (.outOfFuel site) := by
  intro he
  have hphi := phi_init (Parser.tokStateOf (initialTokState cfg)) (tokStateOf_entry _) last cd input
  have := loop_ok cfg hd (8 * input.length + 64) ps _ hi (by rw [hphi]; omega)
  rw [he] at this
  exact hs (this site rfl)

/-! ### `Dom.toTree` only fails with its own fuel error -/

def NFy (e : PyErr) : Prop := ∀ site, e = .outOfFuel site → site = "Dom.toTree"

def PostY {α : Type} (x : Except PyErr α) : Prop :=
  match x with
  | .ok _ => True
  | .error e => NFy e

theorem PostY_bind {α β : Type} (x : Except PyErr α) (f : α → Except PyErr β) (hx : PostY x) (hf : ∀ a, PostY (f a)) :
    PostY (x >>= f) := by
  cases x with
  | ok a => exact hf a
  | error e => exact hx

theorem PostY_mapM {α β : Type} (f : α → Except PyErr β) (hf : ∀ a, PostY (f a)) : ∀ l : List α, PostY (l.mapM f)
  | [] => by simp [PostY, pure, Except.pure]
  | a :: l => by
    rw [List.mapM_cons]
    refine PostY_bind _ _ (hf a) (fun b => PostY_bind _ _ (PostY_mapM f hf l) (fun _ => trivial))

theorem PostY_of_ENF {α : Type} (x : Except PyErr α) [h : ENF x] : PostY x := by
  have := h.out
  cases x with
  | ok a => trivial
  | error e => exact fun site he => absurd he (this site)

theorem toTreeAux_postY (a : Arena) : ∀ fuel i, PostY (toTreeAux a fuel i)
  | 0, i => by unfold toTreeAux; intro site he; cases he; rfl
  | fuel + 1, i => by
    unfold toTreeAux
    refine PostY_bind _ _ (PostY_of_ENF _) (fun n => ?_)
    split
    · trivial
    · trivial
    · trivial
    · exact PostY_bind _ _ (PostY_mapM _ (toTreeAux_postY a fuel) _) (fun _ => trivial)
    · exact PostY_bind _ _ (PostY_mapM _ (toTreeAux_postY a fuel) _) (fun _ => trivial)
    · exact PostY_bind _ _ (PostY_mapM _ (toTreeAux_postY a fuel) _) (fun _ => trivial)

theorem resultE_postY (st : PState) : PostY (TB.resultE st) := by
  unfold TB.resultE
  dsimp only
  have hfr : Fr (if st.cfg.innerHTML.isSome = true then getFragment else getDocument) := by hb_auto
  have := hfr.out st
  unfold Tr at this
  split
  · exact toTreeAux_postY _ _ _
  · rename_i e h
    rw [h] at this
    exact fun site he => absurd he (this site)

/-! ### the whole parser -/

/-- **`C03_total_fuel_partial`**: for every configuration with `dispatchDepth ≥ 6` (the driver's default is 48) and
every input, `Parser.parse` never fails with an exhausted-fuel error of any site other than
`"HTMLParser.mainLoop:reprocess"` and `"Dom.toTree"`: not `"Parser.loop"`, not `"dispatch-depth"`, not
`"HTMLParser.mainLoop:EOF"`, not `"next"`/`"tokenize"`, not the helper loops
(`TreeBuilder.generateImpliedEndTags`, `TreeBuilder.reconstructActiveFormattingElements`, the `popUntil`/`popWhile`
sites, `InForeignContentPhase.processEndTag[:pop-loop]`).

Missing for the full `C03_total_fuel`:
* `"HTMLParser.mainLoop:reprocess"` — needs reachability invariants of the open-element stack (there are STATES,
  not reachable by parsing as far as we can tell, from which the real loop does not terminate; `C03bReprocess`);
* `"Dom.toTree"` — needs acyclicity of the arena (an invariant of all DOM operations, not attempted). -/
theorem C03_total_fuel_partial (cfg : Cfg) (input : Str) (site : String) (hd : 6 ≤ cfg.dispatchDepth)
    (hs1 : site ≠ "HTMLParser.mainLoop:reprocess") (hs2 : site ≠ "Dom.toTree") :
    Parser.parse cfg input ≠ .error (.outOfFuel site) := by
  intro he
  unfold Parser.parse at he
  have hinit := init_ok cfg
  cases h0 : TB.init cfg with
  | error e =>
    rw [h0] at he hinit
    cases he
    exact hinit site rfl
  | ok ps =>
    rw [h0] at he hinit
    simp only [ok_bind] at he
    have hloop := loop_ok cfg hd (8 * input.length + 64) ps
      (Tokenizer.St.init (Parser.tokStateOf (initialTokState cfg)) none (cdataAllowed ps) input) hinit
      (by rw [phi_init _ (tokStateOf_entry _)]; omega)
    cases h1 : Parser.loop cfg (8 * input.length + 64) ps
        (Tokenizer.St.init (Parser.tokStateOf (initialTokState cfg)) none (cdataAllowed ps) input) with
    | error e =>
      rw [h1] at he hloop
      cases he
      exact hs1 (hloop site rfl)
    | ok ps' =>
      rw [h1] at he
      simp only [ok_bind] at he
      have hres := resultE_postY ps'
      cases h2 : TB.resultE ps' with
      | error e =>
        rw [h2] at he hres
        cases he
        exact hs2 (hres site rfl)
      | ok t =>
        rw [h2] at he
        cases he

/-- non-vacuity: the model does parse (and the depth hypothesis is met by the default configuration) -/
example : (6 : Nat) ≤ ({} : Cfg).dispatchDepth := by decide

end H5.Props.C03b
