/-
  C07 identity — formatting elements under `BodyInv`: `startTagFormatting` / `startTagA` (no open formatting element of
  the same name: no Noah's-ark removal, no implied `</a>`) and `endTagFormatting` on the current node (the adoption
  agency algorithm ends in its first round: no furthest block).
-/
import H5.Props.C07bStep2
set_option linter.unusedSimpArgs false
set_option linter.unusedVariables false
namespace H5.Props.C07b
open H5 H5.Model H5.Model.TB H5.Model.Dom

theorem runTag_InBody_startTagFormatting (r : Rec) (tok : Token) :
    runTagHandler r "InBodyPhase.startTagFormatting" tok = InBody_startTagFormatting tok := by
  glue_eval runTagHandler runTagHandler.match_1

theorem runTag_InBody_startTagA (r : Rec) (tok : Token) :
    runTagHandler r "InBodyPhase.startTagA" tok = InBody_startTagA tok := by
  glue_eval runTagHandler runTagHandler.match_1

theorem runTag_InBody_endTagFormatting (r : Rec) (tok : Token) :
    runTagHandler r "InBodyPhase.endTagFormatting" tok = InBody_endTagFormatting tok := by
  glue_eval runTagHandler runTagHandler.match_1

/-- node `i` is an HTML element named `nm` -/
def IsElem (st : PState) (i : NodeId) (nm : Str) : Prop :=
  ∃ n, st.arena.nodes[i]? = some n ∧ n.kind = .element (some htmlNs) nm

theorem nodeAttrs_run (st : PState) (i : Nat) (n : Node) (h : st.arena.nodes[i]? = some n) :
    (nodeAttrs i).run st = .ok (n.attrs, st) := by
  unfold nodeAttrs
  simp only [run_bind, getNode_run st i n h, ok_bind]
  rfl

/-- every id of the list is an HTML element with a name other than `nm` -/
def OtherNames (st : PState) (ids : List NodeId) (nm : Str) : Prop :=
  ∀ i ∈ ids, ∃ gn, IsElem st i gn ∧ gn ≠ nm

/-- `addFormattingElement`'s scan finds no matching element -/
theorem fmtScan_none (st : PState) (e : NodeId) (nm : Str) (he : IsElem st e nm) : ∀ (ids : List NodeId) (acc : List NodeId),
    OtherNames st ids nm →
    (InBody_addFormattingElement.scan e (ids.map some) acc).run st = .ok (acc, st)
  | [], acc, _ => rfl
  | i :: ids, acc, h => by
    obtain ⟨gn, ⟨n, hn, hk⟩, hne⟩ := h i (by simp)
    obtain ⟨ne, hne1, hke⟩ := he
    have hb : (gn == nm) = false := by simpa using hne
    simp only [List.map_cons]
    unfold InBody_addFormattingElement.scan
    unfold InBody_isMatchingFormattingElement
    simp only [run_bind, elemInfo_run st i n _ _ hn hk, elemInfo_run st e ne _ _ hne1 hke, ok_bind,
      nodeAttrs_run st i n hn, nodeAttrs_run st e ne hne1, run_pure, hb, Bool.false_and, Bool.false_eq_true, ↓reduceIte]
    exact fmtScan_none st e nm ⟨ne, hne1, hke⟩ ids acc (fun j hj => h j (by simp [hj]))

/-- `ActiveFormattingElements.append`'s scan (Noah's ark) finds nothing to remove -/
theorem afeAppendScan_none (st : PState) (e : NodeId) (nm : Str) (he : IsElem st e nm) : ∀ (ids : List NodeId),
    OtherNames st ids nm → (afeAppendScan e (ids.map some) 0).run st = .ok (none, st)
  | [], _ => rfl
  | i :: ids, h => by
    obtain ⟨gn, ⟨n, hn, hk⟩, hne⟩ := h i (by simp)
    obtain ⟨ne, hne1, hke⟩ := he
    have hb : ((htmlNs, gn) == (htmlNs, nm)) = false := by
      simp only [Prod.mk.injEq, beq_eq_false_iff_ne, ne_eq, not_and]
      intro _ h2; exact hne h2
    simp only [List.map_cons]
    unfold afeAppendScan nodesEqual
    simp only [run_bind, nameTuple_run st i n gn hn hk, nameTuple_run st e ne nm hne1 hke, ok_bind, hb, Bool.not_false,
      ↓reduceIte, run_pure, Bool.false_eq_true]
    exact afeAppendScan_none st e nm ⟨ne, hne1, hke⟩ ids (fun j hj => h j (by simp [hj]))

/-- `elementInActiveFormattingElements(name)` finds nothing -/
theorem elementInAfe_none (st : PState) (nm : Str) : ∀ (ids : List NodeId), OtherNames st ids nm →
    (elementInActiveFormattingElements.loop nm (ids.map some)).run st = .ok (none, st)
  | [], _ => rfl
  | i :: ids, h => by
    obtain ⟨gn, ⟨n, hn, hk⟩, hne⟩ := h i (by simp)
    have hb : (gn == nm) = false := by simpa using hne
    simp only [List.map_cons]
    unfold elementInActiveFormattingElements.loop
    simp only [run_bind, nodeName_run st i n _ gn hn hk, ok_bind, hb, Bool.false_eq_true, ↓reduceIte]
    exact elementInAfe_none st nm ids (fun j hj => h j (by simp [hj]))

/-! ### the open formatting elements through the frames -/

/-- no open formatting element is named `nm` -/
def NoFmtNamed (fs : List Frame) (f : Frame) (nm : Str) : Prop :=
  ∀ g ∈ fs.drop 1 ++ [f], isFmt g = true → ∃ gn, g.node.kind = .element (some htmlNs) gn ∧ gn ≠ nm

/-- the ids of the list of active formatting elements, last first -/
def fmtIdsRev (fs : List Frame) (f : Frame) : List NodeId := (((fs.drop 1 ++ [f]).filter isFmt).reverse).map (·.id)

theorem fmtList_reverse (fs : List Frame) (f : Frame) : (fmtList fs f).reverse = (fmtIdsRev fs f).map some := by
  simp only [fmtList, fmtIdsRev, List.map_reverse, List.map_map]
  rfl

theorem FramesOK.node_of_mem {a : Arena} {fs : List Frame} {f : Frame} (h : FramesOK a fs f) :
    ∀ g ∈ fs ++ [f], a.nodes[g.id]? = some g.node := by
  intro g hg
  rcases List.mem_append.1 hg with hg | hg
  · exact PrefixOK.node_of_mem h.1 g hg
  · have : g = f := by simpa using hg
    subst this; exact h.2.1

/-- the open formatting elements have other names, in any state whose arena carries frames with the same ids / kinds -/
theorem otherNames_of_frames {fs : List Frame} {f : Frame} {nm : Str} (hno : NoFmtNamed fs f nm) (st : PState)
    (fs1 : List Frame) (f1 : Frame) (hfr : FramesOK st.arena fs1 f1)
    (hsame : ∀ g ∈ fs.drop 1 ++ [f], ∃ g1 ∈ fs1 ++ [f1], g1.id = g.id ∧ g1.node.kind = g.node.kind) :
    OtherNames st (fmtIdsRev fs f) nm := by
  intro i hi
  simp only [fmtIdsRev, List.mem_map, List.mem_reverse, List.mem_filter] at hi
  obtain ⟨g, ⟨hg, hgf⟩, rfl⟩ := hi
  obtain ⟨gn, hk, hne⟩ := hno g hg hgf
  obtain ⟨g1, hg1, hid, hk1⟩ := hsame g hg
  exact ⟨gn, ⟨g1.node, by rw [← hid]; exact hfr.node_of_mem g1 hg1, hk1.trans hk⟩, hne⟩

theorem mem_of_mem_drop_append {fs : List Frame} {f g : Frame} (hg : g ∈ fs.drop 1 ++ [f]) : g ∈ fs ++ [f] := by
  rcases List.mem_append.1 hg with h | h
  · exact List.mem_append_left _ (List.mem_of_mem_drop h)
  · exact List.mem_append_right _ h

/-! ### the start tag of a formatting element -/

theorem step_startTagFormatting {ps fs f} (h : BodyInv ps fs f) (nm : Str) (attrs : List (Str × Str))
    (hf : fmtName nm = true) (hno : NoFmtNamed fs f nm) :
    ∃ ps', TB.step cfg0 ps (.startTag nm attrs false) = .ok (ps', none) ∧
      BodyInv ps' (fs ++ [withChild f ps.arena.nodes.size])
        (newFrame ps.arena.nodes.size f.id nm (attrsOfPairs attrs)) := by
  obtain ⟨fnm, hfk⟩ := h.topk
  have hr := resetFor_BodyInv h
  let c := ps.arena.nodes.size
  let d : TagData := { name := nm, attrs := attrsOfPairs attrs, selfClosing := false, orig := true }
  let st1 : PState := { resetFor ps with
    arena := addChild ps.arena f.id f.node (.element (some htmlNs) nm) (attrsOfPairs attrs),
    openElements := ps.openElements ++ [c] }
  let st' : PState := { st1 with activeFormattingElements := ps.activeFormattingElements ++ [some c] }
  have hfr1 : FramesOK st1.arena (fs ++ [withChild f c]) (newFrame c f.id nm (attrsOfPairs attrs)) :=
    h.frames.push (.element (some htmlNs) nm) (attrsOfPairs attrs)
  have he : IsElem st1 c nm := ⟨_, hfr1.2.1, rfl⟩
  -- the other formatting elements, before and after the insertion
  have ho0 : OtherNames (resetFor ps) (fmtIdsRev fs f) nm :=
    otherNames_of_frames hno (resetFor ps) fs f hr.frames (fun g hg => ⟨g, mem_of_mem_drop_append hg, rfl, rfl⟩)
  have ho1 : OtherNames st1 (fmtIdsRev fs f) nm := by
    refine otherNames_of_frames hno st1 _ _ hfr1 ?_
    intro g hg
    rcases List.mem_append.1 hg with hg1 | hg1
    · exact ⟨g, by simp [List.mem_of_mem_drop hg1], rfl, rfl⟩
    · have : g = f := by simpa using hg1
      subst this
      exact ⟨withChild g c, by simp, rfl, rfl⟩
  have hafe1 : st1.activeFormattingElements.reverse = (fmtIdsRev fs f).map some := by
    show ps.activeFormattingElements.reverse = _
    rw [h.afe, fmtList_reverse]
  -- `addFormattingElement`
  have hadd : (InBody_addFormattingElement (.startTag d)).run (resetFor ps) = .ok ((), st') := by
    unfold InBody_addFormattingElement insertElementTok
    have e3 : (Token.startTag d).tag "InBodyPhase.addFormattingElement" = .ok d := rfl
    simp only [run_bind, liftExcept_run _ _ _ e3, monadLift_run _ _ _ e3, ok_bind]
    rw [insertElement_run (resetFor ps) d f.id f.node rfl rfl hr.ift hr.last hr.topNode]
    have hl1 : st1.openElements.getLast? = some c := by
      show (ps.openElements ++ [c]).getLast? = _; simp
    show (do
      let p ← (openLast "InBodyPhase.addFormattingElement").run st1
      _) = _
    simp only [openLast_run st1 _ c hl1, ok_bind, run_bind, afe_run, hafe1, fmtScan_none st1 c nm he _ [] ho1,
      List.length_nil]
    have hpa : ∀ s, (pyAssert (decide (0 ≤ 3)) s).run st1 = .ok ((), st1) := fun _ => rfl
    simp only [hpa, ok_bind]
    have h03 : ((0 : Nat) == 3) = false := rfl
    simp only [h03, Bool.false_eq_true, ↓reduceIte, run_pure, ok_bind]
    unfold afeAppend
    simp only [run_bind, afe_run, ok_bind, hafe1, afeAppendScan_none st1 c nm he _ ho1, run_pure]
    rfl
  have hcall : (callOf (mkRec 48) .inBody (.startTag d)).run (resetFor ps) = .ok (none, st') := by
    show (runProcess (mkRec 47) .inBody "processStartTag" (.startTag d)).run (resetFor ps) = _
    rw [runProcess_inBody_S]
    unfold Phase_processStartTag
    have e1 : (Token.startTag d).tag "Phase.processStartTag" = .ok d := rfl
    simp only [run_bind, liftExcept_run _ _ _ e1, monadLift_run _ _ _ e1, ok_bind]
    rcases (fmtName_facts hf).1 with hs | ⟨hna, hs⟩
    · have e2 : lookupHandler Gen.startTagHandlers "startTagHandler" .inBody d.name =
        .ok "InBodyPhase.startTagFormatting" := hs
      simp only [liftExcept_run _ _ _ e2, monadLift_run _ _ _ e2, ok_bind, runTag_InBody_startTagFormatting]
      unfold InBody_startTagFormatting
      simp only [run_bind, hr.reconstruct, ok_bind, hadd, run_pure]
    · have e2 : lookupHandler Gen.startTagHandlers "startTagHandler" .inBody d.name = .ok "InBodyPhase.startTagA" := hs
      simp only [liftExcept_run _ _ _ e2, monadLift_run _ _ _ e2, ok_bind, runTag_InBody_startTagA]
      unfold InBody_startTagA elementInActiveFormattingElements
      have hafe0 : (resetFor ps).activeFormattingElements.reverse = (fmtIdsRev fs f).map some := hafe1
      have hloop := elementInAfe_none (resetFor ps) (lit "a") (fmtIdsRev fs f) (by rw [← hna]; exact ho0)
      simp only [run_bind, afe_run, ok_bind, hafe0, hloop, run_pure, hr.reconstruct, hadd]
  refine ⟨st', ?_, ?_⟩
  · exact step_of_call ps st' (.startTag nm attrs false) (.startTag d) f.id f.node fnm .inBody rfl
      (fun d' hd' => by cases hd'; rfl) h.phase h.last h.topNode hfk hcall
  · refine ⟨h.phase, ?_, ?_, h.ift, h.errs, h.dropNl, h.docId, hfr1, ⟨nm, rfl⟩, by simp⟩
    · show ps.openElements ++ [ps.arena.nodes.size] = _
      rw [h.opens]
      cases fs with
      | nil => exact absurd rfl h.fsne
      | cons e rest => simp [withChild, newFrame]
    · rw [h.afe_push, hf]
      rfl

/-! ### the end tag of a formatting element that is the current node -/

theorem PrefixOK.lt_of_mem {a : Arena} : ∀ {fs : List Frame} {nxt : Nat}, PrefixOK a fs nxt → ∀ e ∈ fs, e.id < nxt
  | [], _, _, e, he => by simp at he
  | f :: rest, nxt, h, e, he => by
    rcases List.mem_cons.1 he with rfl | he
    · exact PrefixOK.head_lt h
    · exact PrefixOK.lt_of_mem h.2.2.2 e he

theorem listIndex_go_append {α : Type} [BEq α] [LawfulBEq α] (x : α) : ∀ (l : List α) (i : Nat), x ∉ l →
    listIndex.go x (l ++ [x]) i = some (i + l.length)
  | [], i, _ => by simp [listIndex.go]
  | y :: l, i, h => by
    have hy : (y == x) = false := by
      simp only [beq_eq_false_iff_ne, ne_eq]
      intro hh; exact h (by simp [hh])
    have := listIndex_go_append x l (i + 1) (fun hm => h (by simp [hm]))
    simp only [List.cons_append, listIndex.go, hy, Bool.false_eq_true, ↓reduceIte, this, List.length_cons]
    congr 1; omega

theorem erase_append_singleton {α : Type} [BEq α] [LawfulBEq α] (x : α) : ∀ (l : List α), x ∉ l → (l ++ [x]).erase x = l
  | [], _ => by simp
  | y :: l, h => by
    have hy : (y == x) = false := by
      simp only [beq_eq_false_iff_ne, ne_eq]
      intro hh; exact h (by simp [hh])
    simp only [List.cons_append, List.erase_cons, hy, Bool.false_eq_true, ↓reduceIte]
    rw [erase_append_singleton x l (fun hm => h (by simp [hm]))]

theorem step_endTagFormatting {ps fs p g} (h : BodyInv ps (fs ++ [p]) g) (nm : Str) (hfs : fs ≠ [])
    (hg : g.node.kind = .element (some htmlNs) nm) (hpk : ∃ pn, p.node.kind = .element (some htmlNs) pn)
    (hf : fmtName nm = true) :
    ∃ ps', TB.step cfg0 ps (.endTag nm [] false) = .ok (ps', none) ∧
      BodyInv ps' fs { p with kids := p.kids ++ [g.tree] } := by
  have hr := resetFor_BodyInv h
  let d : TagData := { name := nm, attrs := attrsOfPairs [], selfClosing := false, orig := true }
  let p1 : Frame := { p with kids := p.kids ++ [g.tree] }
  let st' : PState := { resetFor ps with openElements := ps.openElements.dropLast, activeFormattingElements := fmtList fs p1 }
  obtain ⟨_, hend, hnsp, _, _, _⟩ := fmtName_facts hf
  -- the stack and the list of active formatting elements end in the current node, which occurs nowhere else in them
  have hlt : ∀ e ∈ fs ++ [p], e.id < g.id := PrefixOK.lt_of_mem h.frames.1
  let ids : List NodeId := ((fs ++ [p]).drop 1).map (·.id)
  have hopen : (resetFor ps).openElements = ids ++ [g.id] := by
    show ps.openElements = _
    rw [h.opens]; simp [ids]
  have hnotin : g.id ∉ ids := by
    intro hm
    simp only [ids, List.mem_map] at hm
    obtain ⟨e, he, hid⟩ := hm
    have := hlt e (List.mem_of_mem_drop he)
    omega
  have hafe : (resetFor ps).activeFormattingElements = fmtList fs p1 ++ [some g.id] := by
    have := h.afe_pop hfs (p.kids ++ [g.tree])
    rw [isFmt_of_kind hg, hf] at this
    exact this
  have hnotin2 : some g.id ∉ fmtList fs p1 := by
    intro hm
    simp only [fmtList, List.mem_map, List.mem_filter] at hm
    obtain ⟨e, ⟨he, _⟩, hid⟩ := hm
    have he' : e.id < g.id := by
      rcases List.mem_append.1 he with h1 | h1
      · exact hlt e (List.mem_append_left _ (List.mem_of_mem_drop h1))
      · have : e = p1 := by simpa using h1
        subst this
        exact hlt p (by simp)
    have : e.id = g.id := by simpa using hid
    omega
  have hcall : (callOf (mkRec 48) .inBody (.endTag d)).run (resetFor ps) = .ok (none, st') := by
    show (runProcess (mkRec 47) .inBody "processEndTag" (.endTag d)).run (resetFor ps) = _
    rw [runProcess_inBody_E]
    unfold Phase_processEndTag
    have e1 : (Token.endTag d).tag "Phase.processEndTag" = .ok d := rfl
    simp only [run_bind, liftExcept_run _ _ _ e1, monadLift_run _ _ _ e1, ok_bind]
    have e2 : lookupHandler Gen.endTagHandlers "endTagHandler" .inBody d.name = .ok "InBodyPhase.endTagFormatting" := hend
    simp only [liftExcept_run _ _ _ e2, monadLift_run _ _ _ e2, ok_bind, runTag_InBody_endTagFormatting]
    unfold InBody_endTagFormatting
    have hout : (InBody_endTagFormatting_outer (.endTag d) (7 + 1)).run (resetFor ps) = .ok ((), st') := by
      unfold InBody_endTagFormatting_outer
      have e3 : (Token.endTag d).tag "InBodyPhase.endTagFormatting" = .ok d := rfl
      have hdn : d.name = nm := rfl
      -- step 4: the formatting element is the last entry, the current node
      have hfe : (elementInActiveFormattingElements nm).run (resetFor ps) = .ok (some g.id, resetFor ps) := by
        unfold elementInActiveFormattingElements
        simp only [run_bind, afe_run, ok_bind, hafe, List.reverse_append, List.reverse_cons, List.reverse_nil,
          List.nil_append, List.cons_append]
        unfold elementInActiveFormattingElements.loop
        simp only [run_bind, nodeName_run (resetFor ps) g.id g.node _ nm hr.topNode hg, ok_bind, beq_self_eq_true,
          ↓reduceIte, run_pure]
      have hio : (inOpen g.id).run (resetFor ps) = .ok (true, resetFor ps) := by
        unfold inOpen
        simp only [run_bind, openElems_run, ok_bind, hopen]
        simp
      have hsc : (elementInScope nm).run (resetFor ps) = .ok (true, resetFor ps) :=
        elementInScope_top hr nm hg none (Or.inl rfl)
      have hoi : (openIndex g.id "InBodyPhase.endTagFormatting").run (resetFor ps) = .ok (ids.length, resetFor ps) := by
        unfold openIndex listIndex
        simp only [run_bind, openElems_run, ok_bind, hopen, listIndex_go_append g.id ids 0 hnotin, Nat.zero_add]
        rfl
      have hfb : (InBody_endTagFormatting_outer.findBlock ((resetFor ps).openElements.drop ids.length)).run (resetFor ps) =
          .ok (none, resetFor ps) := by
        rw [hopen]
        simp only [List.drop_left']
        unfold InBody_endTagFormatting_outer.findBlock
        simp only [run_bind, nameTuple_run (resetFor ps) g.id g.node nm hr.topNode hg, ok_bind, hnsp, Bool.false_eq_true,
          ↓reduceIte]
        rfl
      simp only [run_bind, liftExcept_run _ _ _ e3, monadLift_run _ _ _ e3, ok_bind, hdn, hfe,
        nodeName_run (resetFor ps) g.id g.node _ nm hr.topNode hg, hio, hsc, ↓reduceIte, run_pure, Bool.not_true,
        Bool.and_false, Bool.false_eq_true, Bool.not_false, openLast_run (resetFor ps) _ g.id hr.last, bne_self_eq_false,
        hoi, openElems_run, hfb]
      -- step 6: no furthest block
      unfold popUntil
      simp only [run_bind, openElems_run, ok_bind]
      unfold popUntilLoop
      simp only [run_bind, openPop_run (resetFor ps) _ g.id hr.last, ok_bind, run_pure, beq_self_eq_true, ↓reduceIte]
      unfold afeRemove
      have hc : ((fmtList fs p1 ++ [some g.id]).contains (some g.id)) = true := by simp
      simp only [run_bind, afe_run, ok_bind, hafe, hc, ↓reduceIte, erase_append_singleton (some g.id) _ hnotin2]
      rfl
    simp only [run_bind, hout, ok_bind, run_pure]
  refine ⟨st', step_of_call ps st' (.endTag nm [] false) (.endTag d) g.id g.node nm .inBody rfl
      (fun d' hd' => by cases hd') h.phase h.last h.topNode hg hcall, ?_⟩
  refine ⟨h.phase, ?_, rfl, h.ift, h.errs, h.dropNl, h.docId, h.frames.pop (Or.inl ⟨_, _, hg⟩), hpk, hfs⟩
  show ps.openElements.dropLast = _
  rw [h.opens]
  cases fs with
  | nil => exact absurd rfl hfs
  | cons e rest => simp [List.dropLast_append_of_ne_nil]

/-! ### the grammar's context, on the frames -/

/-- the open formatting elements have names in `fm` -/
def FmtCtx (fs : List Frame) (f : Frame) (fm : List Str) : Prop :=
  ∀ g ∈ fs.drop 1 ++ [f], isFmt g = true → ∃ gn ∈ fm, g.node.kind = .element (some htmlNs) gn

theorem FmtCtx.same {fs : List Frame} {f f1 : Frame} {fm : List Str} (h : FmtCtx fs f fm)
    (hk : f1.node.kind = f.node.kind) : FmtCtx fs f1 fm := by
  intro g hg hf
  rcases List.mem_append.1 hg with hg1 | hg1
  · exact h g (List.mem_append_left _ hg1) hf
  · have : g = f1 := by simpa using hg1
    subst this
    obtain ⟨gn, h1, h2⟩ := h f (by simp) (by rw [← isFmt_congr hk]; exact hf)
    exact ⟨gn, h1, hk.trans h2⟩

theorem FmtCtx.push {fs : List Frame} {f : Frame} {fm : List Str} (h : FmtCtx fs f fm) (hfs : fs ≠ []) (f1 g : Frame)
    (hk : f1.node.kind = f.node.kind) (fm1 : List Str) (hsub : ∀ x ∈ fm, x ∈ fm1)
    (hg : isFmt g = true → ∃ gn ∈ fm1, g.node.kind = .element (some htmlNs) gn) : FmtCtx (fs ++ [f1]) g fm1 := by
  have hd : (fs ++ [f1]).drop 1 = fs.drop 1 ++ [f1] := by
    cases fs with
    | nil => exact absurd rfl hfs
    | cons e rest => simp
  intro e he hf
  rw [hd] at he
  rcases List.mem_append.1 he with he1 | he1
  · obtain ⟨gn, h1, h2⟩ := (h.same hk) e he1 hf
    exact ⟨gn, hsub gn h1, h2⟩
  · have : e = g := by simpa using he1
    subst this
    exact hg hf

theorem FmtCtx.noFmtNamed {fs : List Frame} {f : Frame} {fm : List Str} (h : FmtCtx fs f fm) {nm : Str}
    (hnm : nm ∉ fm) : NoFmtNamed fs f nm := by
  intro g hg hf
  obtain ⟨gn, h1, h2⟩ := h g hg hf
  exact ⟨gn, h2, fun he => hnm (he ▸ h1)⟩

end H5.Props.C07b
