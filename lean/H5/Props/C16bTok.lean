/-
  Property C16b, tokenizer part — the tokenizer model never fails with the Python exception `ParseError`
  (`PyErr.parseError`; only the tree builder raises it, in strict mode).  Not to be confused with the
  `ParseError` *tokens* (`TTok.parseError`) that the tokenizer queues.

    * `step_no_parseError`     one `self.state()` call
    * `next_no_parseError`     one `next()` on the token generator
    * `tokenizeAll_no_parseError` the batch interface

  Method (`H5.Props.C16bTokCore`): the class `PP x` (`x` is `.ok _` or an error other than `parseError`) with
  instances for `pure` / `bind` / `ite` / every other error constructor, one instance per helper and per state
  method, all derived by the tactic `pp_auto`.
-/
import H5.Props.C16bTokStatesA
import H5.Props.C16bTokStatesB
set_option linter.unusedSimpArgs false
set_option linter.unusedVariables false
namespace H5.Props.C16b
open H5 H5.Gen H5.Model H5.Model.Tokenizer

/-- `self.state()`: the 67-way dispatch -/
instance PP_step (s : St) : PP (step s) := by
  unfold step
  split <;> infer_instance

instance PP_nextFuel (fuel : Nat) (s : St) : PP (nextFuel fuel s) := by
  induction fuel generalizing s with
  | zero => unfold nextFuel; pp_auto
  | succ n ih => unfold nextFuel; pp_auto

instance PP_next (s : St) : PP (Tokenizer.next s) := by unfold Tokenizer.next; pp_auto

instance PP_tokenize (fuel : Nat) (s : St) : PP (tokenize fuel s) := by
  induction fuel generalizing s with
  | zero => unfold tokenize; pp_auto
  | succ n ih => unfold tokenize; pp_auto

instance PP_tokenizeAll (st lst i c) : PP (tokenizeAll st lst i c) := by unfold tokenizeAll; pp_auto

/-- one `self.state()` call never raises `ParseError` -/
theorem step_no_parseError (s : St) (c : Str) : step s ≠ .error (.parseError c) :=
  PostP_ne (PP_step s).out c

/-- pulling one token never raises `ParseError` -/
theorem nextFuel_no_parseError (fuel : Nat) (s : St) (c : Str) : nextFuel fuel s ≠ .error (.parseError c) :=
  PostP_ne (PP_nextFuel fuel s).out c

theorem next_no_parseError (s : St) (c : Str) : Tokenizer.next s ≠ .error (.parseError c) :=
  PostP_ne (PP_next s).out c

/-- the batch interface never raises `ParseError` -/
theorem tokenizeAll_no_parseError (st : State) (lst : Option Str) (i : Str) (cd : Bool) (c : Str) :
    tokenizeAll st lst i cd ≠ .error (.parseError c) :=
  PostP_ne (PP_tokenizeAll st lst i cd).out c

/-- non-vacuity: the statements speak about an error the type does contain, and the tokenizer does fail with
other exceptions (here `TypeError`: an attribute state entered without a current token) -/
example : (Except.error (.parseError []) : Except PyErr (Bool × St)) ≠ .error (.typeError "x") := by
  intro h; cases h
example : ∃ e, step (St.init .attributeNameState none false [97]) = .error e := ⟨_, rfl⟩

end H5.Props.C16b
