/-
  C01b — exact evaluation (`m.run s = .ok (a, s')`) of the primitives of the tree-construction SPECIFICATION
  (H5.Spec.TreeConstruction) on the states of the covered documents.
-/
import H5.Props.C01bFrames
set_option linter.unusedSimpArgs false
set_option linter.unusedVariables false
namespace H5.Props.C01b
open H5 H5.Spec.TC

theorem run_bind {α β : Type} (m : M α) (f : α → M β) (s : St) :
    (m >>= f).run s = (m.run s >>= fun p => (f p.1).run p.2) := rfl

theorem run_pure {α : Type} (a : α) (s : St) : (pure a : M α).run s = .ok (a, s) := rfl
theorem get_run (s : St) : (get : M St).run s = .ok (s, s) := rfl
theorem set_run (s s' : St) : (set s' : M Unit).run s = .ok ((), s') := rfl
theorem modify_run (s : St) (f : St → St) : (modify f : M Unit).run s = .ok ((), f s) := rfl

theorem getNode_run (s : St) (i : Nat) (n : Node) (h : s.arena[i]? = some n) : (getNode i).run s = .ok (n, s) := by
  unfold getNode
  simp only [run_bind, get_run, ok_bind, h]
  rfl

theorem modifyNode_run (s : St) (i : Nat) (f : Node → Node) :
    (modifyNode i f).run s = .ok ((), { s with arena := s.arena.modify i f }) := rfl

theorem newNode_run (s : St) (k : Kind) :
    (newNode k).run s = .ok (s.arena.size, { s with arena := s.arena.push { kind := k } }) := rfl

theorem etypeOf_run (s : St) (i : Nat) (n : Node) (ns nm attrs) (h : s.arena[i]? = some n)
    (hk : n.kind = .element ns nm attrs) : (etypeOf i).run s = .ok (some (ns, nm), s) := by
  unfold etypeOf
  simp only [run_bind, getNode_run s i n h, ok_bind, hk]
  rfl

theorem isHtml_run (s : St) (i : Nat) (n : Node) (ns nm attrs) (name : Str) (hd : s.dev = {}) (h : s.arena[i]? = some n)
    (hk : n.kind = .element ns nm attrs) : (isHtml i name).run s = .ok (some (ns, nm) == some (NS.html, name), s) := by
  unfold isHtml
  have : s.dev.nameOnly = false := by rw [hd]
  simp only [run_bind, get_run, ok_bind, this, Bool.false_eq_true, ↓reduceIte, etypeOf_run s i n ns nm attrs h hk]
  rfl

theorem isHtmlAmong_run (s : St) (i : Nat) (n : Node) (nm attrs) (names : List Str) (h : s.arena[i]? = some n)
    (hk : n.kind = .element .html nm attrs) : (isHtmlAmong i names).run s = .ok (among nm names, s) := by
  unfold isHtmlAmong
  simp only [run_bind, etypeOf_run s i n _ nm attrs h hk, ok_bind]
  rfl

theorem currentNode_run (s : St) (c : Nat) (rest : List Nat) (h : s.stack = c :: rest) :
    currentNode.run s = .ok (c, s) := by
  unfold currentNode
  simp only [run_bind, get_run, ok_bind, h]
  rfl

theorem currentNode?_run (s : St) : currentNode?.run s = .ok (s.stack.head?, s) := rfl

theorem push_run (s : St) (n : Nat) : (push n).run s = .ok ((), { s with stack := n :: s.stack }) := rfl
theorem pop_run (s : St) : pop.run s = .ok ((), { s with stack := s.stack.tail }) := rfl

theorem currentIs_run (s : St) (c : Nat) (rest : List Nat) (n : Node) (nm attrs) (name : Str) (hd : s.dev = {})
    (hs : s.stack = c :: rest) (h : s.arena[c]? = some n) (hk : n.kind = .element .html nm attrs) :
    (currentIs name).run s = .ok (nm == name, s) := by
  unfold currentIs
  simp only [run_bind, currentNode?_run, ok_bind, hs, List.head?_cons, isHtml_run s c n _ nm attrs name hd h hk]
  have : (some (NS.html, nm) == some (NS.html, name)) = (nm == name) := by
    show (NS.html == NS.html && nm == name) = (nm == name)
    rfl
  rw [this]

theorem currentIsAmong_run (s : St) (c : Nat) (rest : List Nat) (n : Node) (nm attrs) (names : List Str)
    (hs : s.stack = c :: rest) (h : s.arena[c]? = some n) (hk : n.kind = .element .html nm attrs) :
    (currentIsAmong names).run s = .ok (among nm names, s) := by
  unfold currentIsAmong
  simp only [run_bind, currentNode?_run, ok_bind, hs, List.head?_cons, isHtmlAmong_run s c n nm attrs names h hk]

/-- DOM "remove" of a node without parent -/
theorem detach_run_none (s : St) (i : Nat) (n : Node) (h : s.arena[i]? = some n) (hp : n.parent = none) :
    (detach i).run s = .ok ((), s) := by
  unfold detach
  simp only [run_bind, getNode_run s i n h, ok_bind, hp]
  rfl

/-- append a freshly allocated node (index `size`, kind `k`) to node `p` -/
theorem append_new_run (s : St) (p : Nat) (k : Kind) (hp : p < s.arena.size) :
    (insertNode p none s.arena.size).run { s with arena := s.arena.push { kind := k } } =
      .ok ((), { s with arena := addChild s.arena p k }) := by
  unfold insertNode
  have hnew : ({ s with arena := s.arena.push { kind := k } } : St).arena[s.arena.size]? = some { kind := k } := by
    simp
  rw [run_bind, detach_run_none _ _ _ hnew rfl]
  simp only [ok_bind, run_bind, modifyNode_run]
  rfl

/-- "the appropriate place for inserting a node": no override, no foster parenting, the current node is not a template -/
theorem appropriatePlace_run (s : St) (c : Nat) (rest : List Nat) (n : Node) (hs : s.stack = c :: rest)
    (hf : s.fosterParenting = false) (h : s.arena[c]? = some n) (hc : n.content = none)
    (hk : ∃ nm at_, n.kind = .element .html nm at_) :
    (appropriatePlace none).run s = .ok ({ parent := c, before := none }, s) := by
  obtain ⟨nm, at_, hk⟩ := hk
  unfold appropriatePlace
  simp only [run_bind, currentNode_run s c rest hs, ok_bind, get_run, hf, Bool.false_and, Bool.false_eq_true, ↓reduceIte,
    run_pure, getNode_run s c n h, hc, isHtmlAmong_run s c n nm at_ _ h hk]

theorem createElement_run (s : St) (ns : NS) (name : Str) (attrs : List Attr)
    (hnt : (ns == .html && name == lit "template") = false) :
    (createElement ns name attrs).run s =
      .ok (s.arena.size, { s with arena := s.arena.push { kind := .element ns name attrs } }) := by
  unfold createElement
  simp only [run_bind, newNode_run, ok_bind, hnt, Bool.false_eq_true, ↓reduceIte, run_pure]

/-- "insert an HTML element" under the current node -/
theorem insertHtmlElement_run (s : St) (c : Nat) (rest : List Nat) (n : Node) (name : Str) (attrs : List (Str × Str))
    (hs : s.stack = c :: rest) (hf : s.fosterParenting = false) (h : s.arena[c]? = some n) (hc : n.content = none)
    (hk : ∃ nm at_, n.kind = .element .html nm at_) (hnt : (name == lit "template") = false) :
    (insertHtmlElement name attrs).run s =
      .ok (s.arena.size, { s with arena := addChild s.arena c (.element .html name (plainAttrs attrs)),
                                  stack := s.arena.size :: s.stack }) := by
  have hlt : c < s.arena.size := (Array.getElem?_eq_some_iff.1 h).1
  unfold insertHtmlElement insertForeignElement
  simp only [run_bind, appropriatePlace_run s c rest n hs hf h hc hk, ok_bind]
  obtain ⟨nm, at_, hk⟩ := hk
  rw [createElement_run s .html name (plainAttrs attrs) (by simp [hnt])]
  simp only [ok_bind]
  have hpar : ({ s with arena := s.arena.push { kind := .element .html name (plainAttrs attrs) } } : St).arena[c]? = some n := by
    show (s.arena.push _)[c]? = some n
    rw [Array.getElem?_push, if_neg (Nat.ne_of_lt hlt)]; exact h
  simp only [run_bind, getNode_run _ c n hpar, ok_bind, hk, run_pure, ↓reduceIte]
  rw [append_new_run s c _ hlt]
  simp only [ok_bind, push_run, run_pure]

/-- "insert a character": the last child of the current node is not a Text node -/
theorem insertChar_run_new (s : St) (c : Nat) (rest : List Nat) (n : Node) (ch : Nat) (hd : s.dev = {})
    (hs : s.stack = c :: rest) (hf : s.fosterParenting = false) (h : s.arena[c]? = some n) (hc : n.content = none)
    (hk : ∃ nm at_, n.kind = .element .html nm at_)
    (hlast : ∀ t, n.children.getLast? = some t → ∃ tn, s.arena[t]? = some tn ∧ ∀ d, tn.kind ≠ .text d) :
    (insertChar ch).run s = .ok ((), { s with arena := addChild s.arena c (.text [ch]) }) := by
  have hlt : c < s.arena.size := (Array.getElem?_eq_some_iff.1 h).1
  have hcr : s.dev.charsRunUnit = false := by rw [hd]
  unfold insertChar
  simp only [run_bind, get_run, ok_bind, hcr, Bool.false_and, Bool.false_eq_true, ↓reduceIte,
    appropriatePlace_run s c rest n hs hf h hc hk, getNode_run s c n h]
  obtain ⟨nm, at_, hk⟩ := hk
  simp only [hk]
  cases hl : n.children.getLast? with
  | none =>
    simp only [run_pure, ok_bind, Bool.not_false, ↓reduceIte, run_bind, newNode_run]
    rw [append_new_run s c _ hlt]
  | some t =>
    obtain ⟨tn, ht, hnt⟩ := hlast t hl
    dsimp only
    rw [run_bind, run_bind, getNode_run s t tn ht]
    simp only [ok_bind]
    cases hkd : tn.kind with
    | text d => exact absurd hkd (hnt d)
    | _ =>
      simp only [run_pure, ok_bind, Bool.not_false, ↓reduceIte, run_bind, newNode_run]
      rw [append_new_run s c _ hlt]

/-- "insert a character": the last child of the current node is a Text node -/
theorem insertChar_run_append (s : St) (c : Nat) (rest : List Nat) (n : Node) (ch : Nat) (t : Nat) (tn : Node) (d : Str)
    (hd : s.dev = {}) (hs : s.stack = c :: rest) (hf : s.fosterParenting = false) (h : s.arena[c]? = some n)
    (hc : n.content = none) (hk : ∃ nm at_, n.kind = .element .html nm at_)
    (hlast : n.children.getLast? = some t) (ht : s.arena[t]? = some tn) (htk : tn.kind = .text d) :
    (insertChar ch).run s =
      .ok ((), { s with arena := s.arena.modify t fun n => { n with kind := .text (d ++ [ch]) } }) := by
  have hcr : s.dev.charsRunUnit = false := by rw [hd]
  unfold insertChar
  simp only [run_bind, get_run, ok_bind, hcr, Bool.false_and, Bool.false_eq_true, ↓reduceIte,
    appropriatePlace_run s c rest n hs hf h hc hk, getNode_run s c n h]
  obtain ⟨nm, at_, hk⟩ := hk
  simp only [hk, hlast]
  rw [run_bind, run_bind, getNode_run s t tn ht]
  simp only [ok_bind, htk, run_bind, modifyNode_run, run_pure, Bool.not_true, Bool.false_eq_true, ↓reduceIte]

/-- "insert a comment" at the appropriate place -/
theorem insertComment_run (s : St) (c : Nat) (rest : List Nat) (n : Node) (data : Str)
    (hs : s.stack = c :: rest) (hf : s.fosterParenting = false) (h : s.arena[c]? = some n) (hc : n.content = none)
    (hk : ∃ nm at_, n.kind = .element .html nm at_) :
    (insertComment data none).run s = .ok ((), { s with arena := addChild s.arena c (.comment data) }) := by
  have hlt : c < s.arena.size := (Array.getElem?_eq_some_iff.1 h).1
  unfold insertComment
  simp only [run_bind, appropriatePlace_run s c rest n hs hf h hc hk, ok_bind, newNode_run]
  rw [append_new_run s c _ hlt]

end H5.Props.C01b
