/-
  C03f — a larger computed family of end tags (`famE2`): as `famE` of C03e, with the handlers that imply an element and
  hand the token back to a phase of smaller rank (`BeforeHtmlPhase.processEndTag`, `BeforeHeadPhase.endTagImplyHead`,
  `InHeadPhase.endTagHtmlBodyBr`, `InHeadNoscriptPhase.endTagBr`, `AfterHeadPhase.endTagHtmlBodyBr`) among the allowed
  ones: `</br>`, `</head>`, `</body>` join the family.  Part 1.
-/
import H5.Props.C03fStartTotal
set_option linter.unusedSimpArgs false
set_option linter.unusedVariables false
namespace H5.Props.C03f
open H5 H5.Model H5.Model.TB H5.Model.Dom
open H5.Props.C02c (NF Post Post_bind Post_mono Post_pure Post_ok Post_error Post_throw Post_ite
  NF_typeError NF_keyError NF_indexError NF_assertFail NF_valueError NF_lookupError)
open H5.Props.C03b H5.Props.C03c H5.Props.C03d H5.Props.C03e

theorem K_BeforeHtml_processEndTag (tok : Token) (st : PState) :
    Tr (BeforeHtml_processEndTag tok) st (fun a st' => a ≠ none → st'.phase = some .beforeHead) := by
  unfold BeforeHtml_processEndTag BeforeHtml_insertHtmlElement setPhase
  refine Tr_fr_skip _ _ _ _ ?_
  intro d st0 _
  split
  · refine Tr_fr_skip _ _ _ _ ?_
    intro _ st1 _
    simp only [Tr_pure]
    intro h; exact absurd rfl h
  · simp only [bind_assoc]
    refine Tr_fr_skip _ _ _ _ ?_
    intro _ st1 _
    simp only [Tr_bind, Tr_modify, Tr_pure]
    intro _; trivial

theorem K_BeforeHead_endTagImplyHead (tok : Token) (st : PState) :
    Tr (BeforeHead_endTagImplyHead tok) st (fun _ st' => st'.phase = some .inHead) := by
  have := K_BeforeHead_startTagOther tok st
  unfold BeforeHead_startTagOther at this
  unfold BeforeHead_endTagImplyHead
  exact this

theorem K_InHead_endTagHtmlBodyBr (tok : Token) (st : PState) :
    Tr (InHead_endTagHtmlBodyBr tok) st (fun _ st' => st'.phase = some .afterHead) := by
  have := K_InHead_startTagOther tok st
  unfold InHead_startTagOther at this
  unfold InHead_endTagHtmlBodyBr
  exact this

theorem K_AfterHead_endTagHtmlBodyBr (tok : Token) (st : PState) :
    Tr (AfterHead_endTagHtmlBodyBr tok) st (fun _ st' => st'.phase = some .inBody) := by
  have := K_AfterHead_startTagOther tok st
  unfold AfterHead_startTagOther at this
  unfold AfterHead_endTagHtmlBodyBr
  exact this

theorem K_InHeadNoscript_endTagBr (tok : Token) (st : PState) :
    Tr (InHeadNoscript_endTagBr tok) st (fun _ st' => st'.phase = some .inHead) := by
  unfold InHeadNoscript_endTagBr InHeadNoscript_anythingElse InHeadNoscript_endTagNoscript setPhase
  simp only [bind_assoc]
  refine Tr_fr_skip _ _ _ _ ?_
  intro _ stt _
  refine Tr_fr_skip _ _ _ _ ?_
  intro _ st0 _
  refine Tr_fr_skip _ _ _ _ ?_
  intro _ st1 _
  refine Tr_fr_skip _ _ _ _ ?_
  intro _ st2 _
  simp only [Tr_bind, C03c.Tr_pyAssert, Tr_modify, Tr_pure]
  intro _; trivial

/-- the bounds of C03d, and those of the five handlers above -/
def retBoundE2 (q : String) : Option Nat :=
  if q = "BeforeHtmlPhase.processEndTag" then some 6
  else if q = "BeforeHeadPhase.endTagImplyHead" then some 4
  else if q = "InHeadPhase.endTagHtmlBodyBr" then some 3
  else if q = "InHeadNoscriptPhase.endTagBr" then some 4
  else if q = "AfterHeadPhase.endTagHtmlBodyBr" then some 0
  else retBoundE q

def allowedE2 : List String := allowedE ++
  ["BeforeHeadPhase.endTagImplyHead", "InHeadPhase.endTagHtmlBodyBr", "InHeadNoscriptPhase.endTagBr",
   "AfterHeadPhase.endTagHtmlBodyBr"]

def okE2 (ph : Phase) (nm : Str) : Bool :=
  match lookupHandler Gen.endTagHandlers "endTagHandler" ph nm with
  | .ok h => allowedE2.contains h && (!nestedPh ph || rnTag.contains h) &&
      (match retBoundE2 h with | some k => decide (k < psi (some ph)) | none => true)
  | .error _ => true

/-- **the family** -/
def famE2 : List Str := keysE.eraseDups.filter (fun nm => Phase.all.all (fun ph => okE2 ph nm))

theorem famE2_ok {nm : Str} (h : famE2.contains nm = true) : ∀ ph, okE2 ph nm = true := by
  have hm : nm ∈ famE2 := by simpa using h
  unfold famE2 at hm
  have := (List.mem_filter.1 hm).2
  simp only [List.all_eq_true] at this
  exact fun ph => this ph (Phase.mem_all ph)

def inFamE2 : Token → Bool
  | .endTag d => famE2.contains d.name
  | _ => false

theorem inFamE2_name {tok : Token} (h : inFamE2 tok = true) : famE2.contains (tokName tok) = true := by
  cases tok <;> first | (simpa [inFamE2, tokName] using h) | cases h

class RecRNEG (r : Rec) : Prop where
  E : ∀ ph tok, ph ∈ [Phase.inBody, .inTable, .inSelect] → inFamE2 tok = true → RN (r.processEndTag ph tok)

set_option hygiene false in
macro "rke2_close" : tactic => `(tactic| first
  | exact RetLe_none _ _ _
  | exact RetLe_some (k := 7) (Tr_mono (K_Initial_processEndTag _ _) (fun _ _ h _ => le_of_phase h (by decide))) (by decide)
  | exact RetLe_some (k := 6) (Tr_mono (K_BeforeHtml_processEndTag _ _) (fun _ _ h ha => le_of_phase (h ha) (by decide))) (by decide)
  | exact RetLe_some (k := 4) (Tr_mono (K_BeforeHead_endTagImplyHead _ _) (fun _ _ h _ => le_of_phase h (by decide))) (by decide)
  | exact RetLe_some (k := 3) (Tr_mono (K_InHead_endTagHtmlBodyBr _ _) (fun _ _ h _ => le_of_phase h (by decide))) (by decide)
  | exact RetLe_some (k := 4) (Tr_mono (K_InHeadNoscript_endTagBr _ _) (fun _ _ h _ => le_of_phase h (by decide))) (by decide)
  | exact RetLe_some (k := 0) (Tr_mono (K_AfterHead_endTagHtmlBodyBr _ _) (fun _ _ h _ => le_of_phase h (by decide))) (by decide)
  | exact RetLe_some (k := 0) (Tr_mono (K_AfterBody_endTagOther _ _) (fun _ _ h _ => le_of_phase h (by decide))) (by decide)
  | exact RetLe_some (k := 0) (Tr_mono (K_AfterAfterBody_processEndTag _ _) (fun _ _ h _ => le_of_phase h (by decide))) (by decide)
  | exact RetLe_some (k := 0) (Tr_mono (K_InColumnGroup_endTagOther _ _) (fun _ _ h ha => le_of_phase (h ha) (by decide))) (by decide)
  | exact RetLe_some (k := 8) (Tr_mono (K_InTableText_processEndTag hr hn _ _ hi (hreg rfl)) (fun _ _ h _ => h)) (by decide)
  | exact absurd hq (by decide))

set_option maxHeartbeats 8000000 in
theorem tagEG_rank {r : Rec} [hrn : RecRN r] [hre : RecRNEG r] (q : String) (hq : q ∈ allowedE2) (tok : Token)
    (ho : inFamE2 tok = true) (st : PState) : RetLe (runTagHandler r q tok) st (retBoundE2 q) := by
  haveI h1 : RN (InCaption_endTagOther r tok) := by
    unfold InCaption_endTagOther; exact RecRNEG.E _ _ (by simp) ho
  haveI h2 : RN (InCell_endTagOther r tok) := by
    unfold InCell_endTagOther; exact RecRNEG.E _ _ (by simp) ho
  haveI h3 : RN (InRow_endTagOther r tok) := by
    unfold InRow_endTagOther; exact RecRNEG.E _ _ (by simp) ho
  haveI h4 : RN (InTableBody_endTagOther r tok) := by
    unfold InTableBody_endTagOther; exact RecRNEG.E _ _ (by simp) ho
  haveI h5 : RN (InSelectInTable_endTagOther r tok) := by
    unfold InSelectInTable_endTagOther; exact RecRNEG.E _ _ (by simp) ho
  have hr : True := trivial
  have hn : True := trivial
  have hi : True := trivial
  have hreg : q = "InTableTextPhase.processEndTag" → True := fun _ => trivial
  delta runTagHandler
  delta runTagHandler.match_1
  repeat (refine RetLe_dite _ _ _ _ (fun heq => ?_) (fun _ => ?_); (· subst heq; dsimp only [Eq.ndrec_symm]; rke2_close))
  exact RetLe_none _ _ _

end H5.Props.C03f
