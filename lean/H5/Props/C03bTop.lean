/-
  C03 fuel part, levels 3 (partial) and the tree-builder entry points.

  * `eofLoop_total`     : the EOF loop of `mainLoop` (fuel `len(phases) + 2 = 25`) never runs out of fuel: every
                          reprocessing round appends a phase that the `assert` guarantees to be new, and there
                          are only 24 values of `Option Phase`.
  * `reprocessLoop_trx` : the `while new_token is not None` loop preserves `PhInv` and can only fail with the fuel
                          error of its OWN site `"HTMLParser.mainLoop:reprocess"` (see C03bReprocess for why that
                          site cannot be excluded state-by-state).
  * `step_ok / finish_ok / init_ok` : the same for `TB.step`, `TB.finish`, `TB.init`.
-/
import H5.Props.C03bDepth
set_option linter.unusedSimpArgs false
set_option linter.unusedVariables false
namespace H5.Props.C03b
open H5 H5.Model H5.Model.TB H5.Model.Dom
open H5.Props.C02c (NF Post Post_bind Post_mono Post_pure Post_ok Post_error Post_throw Post_ite
  NF_typeError NF_keyError NF_indexError NF_assertFail NF_valueError NF_lookupError)

def reprocessSite : String := "HTMLParser.mainLoop:reprocess"

/-- the error is not a fuel error, except possibly the one of the reprocess loop -/
def NFx (e : PyErr) : Prop := ∀ site, e = .outOfFuel site → site = reprocessSite

theorem NFx_of_NF {e : PyErr} (h : NF e) : NFx e := fun site he => absurd he (h site)

/-- `Post` with the weaker error condition `NFx` -/
def PostX {α : Type} (x : Except PyErr α) (P : α → Prop) : Prop :=
  match x with
  | .ok a => P a
  | .error e => NFx e

theorem PostX_of_Post {α : Type} {x : Except PyErr α} {P : α → Prop} (h : Post x P) : PostX x P := by
  cases x with
  | ok a => exact h
  | error e => exact NFx_of_NF h

theorem PostX_bind {α β : Type} (x : Except PyErr α) (f : α → Except PyErr β) (P : β → Prop) :
    PostX (x >>= f) P ↔ PostX x (fun a => PostX (f a) P) := by
  cases x <;> rfl

theorem PostX_mono {α : Type} {x : Except PyErr α} {Q P : α → Prop} (h : PostX x Q) (hq : ∀ a, Q a → P a) :
    PostX x P := by
  cases x with
  | ok a => exact hq a h
  | error e => exact h

def TrX {α : Type} (m : M α) (st : PState) (Q : α → PState → Prop) : Prop :=
  PostX (m.run st) (fun r => Q r.1 r.2)

theorem TrX_of_Tr {α : Type} {m : M α} {st : PState} {Q : α → PState → Prop} (h : Tr m st Q) : TrX m st Q :=
  PostX_of_Post h

theorem TrX_bind {α β : Type} (m : M α) (f : α → M β) (st : PState) (Q : β → PState → Prop) :
    TrX (m >>= f) st Q ↔ TrX m st (fun a st' => TrX (f a) st' Q) := by
  simp only [TrX, StateT.run_bind, PostX_bind]

theorem TrX_mono {α : Type} {m : M α} {st : PState} {Q P : α → PState → Prop} (h : TrX m st Q)
    (hq : ∀ a st', Q a st' → P a st') : TrX m st P :=
  PostX_mono h (fun r hr => hq r.1 r.2 hr)

theorem TrX_pure {α : Type} (a : α) (st : PState) (Q : α → PState → Prop) :
    TrX (pure a : M α) st Q ↔ Q a st := Iff.rfl

/-! ### `mainLoop`: one token -/

instance RO_useCurrentPhase (tok) : RO (useCurrentPhase tok) := by unfold useCurrentPhase; hb_auto

theorem reprocessLoop_trx {n : Nat} (hn : depthBound ≤ n) :
    ∀ fuel tok st, PhInv st → TrX (reprocessLoop (mkRec n) fuel tok) st (fun _ st' => PhInv st') := by
  intro fuel
  induction fuel with
  | zero =>
    intro tok st hi
    unfold reprocessLoop
    intro site he
    cases he
    rfl
  | succ fuel ih =>
    intro tok st hi
    unfold reprocessLoop
    simp only [TrX_bind]
    refine TrX_mono (TrX_of_Tr ((RO_useCurrentPhase tok).out st)) ?_
    intro own st1 hst1
    rw [hst1]
    have hphase : Tr (if own = true then curPhase "HTMLParser.mainLoop" else pure Phase.inForeignContent) st
        (fun _ st' => st' = st) := by
      split
      · exact (RO_curPhase _).out st
      · rfl
    refine TrX_mono (TrX_of_Tr hphase) ?_
    intro phase st2 hst2
    rw [hst2]
    have hall := mkRec_total hn phase tok
    refine TrX_mono (TrX_of_Tr (Q := fun _ st' => PhInv st') ?_) ?_
    · split
      · exact hall.2.2.1.out st hi
      · exact hall.2.2.2.1.out st hi
      · exact hall.1.out st hi
      · exact hall.2.1.out st hi
      · exact hall.2.2.2.2.1.out st hi
      · exact hall.2.2.2.2.2.1.out st hi
    intro new_token st3 hi3
    split
    · exact hi3
    · exact ih _ st3 hi3

/-- `mainLoop`, one token: `PhInv` is preserved; the only possible fuel error is the one of the reprocess loop -/
theorem stepM_trx (t : TTok) (st : PState) (hd : depthBound ≤ st.cfg.dispatchDepth) (hi : PhInv st) :
    TrX (stepM t) st (fun _ st' => PhInv st') := by
  unfold stepM
  simp only [TrX_bind]
  refine TrX_mono (TrX_of_Tr (Q := fun _ st' => PhInv st' ∧ st'.cfg = st.cfg) ?_) ?_
  · simp only [Tr_modify]
    refine ⟨⟨hi.1, hi.2.1, hi.2.2⟩, ?_⟩
    first | rfl | trivial
  intro _ st1 ⟨hi1, hc1⟩
  split
  · exact TrX_of_Tr ((Pv_of_Fr (parseErrorS _ _)).out st1 hi1)
  · split
    · exact hi1
    · rename_i tok htok
      simp only [TrX_bind]
      refine TrX_mono (TrX_of_Tr (Q := fun c st' => st' = st1 ∧ c = st1.cfg) ?_) ?_
      · exact ⟨rfl, rfl⟩
      rintro cfg st2 ⟨hst2, hcfg⟩
      rw [hst2, hcfg]
      refine TrX_mono (reprocessLoop_trx (by rw [hc1]; exact hd) _ tok st1 hi1) ?_
      intro _ st3 hi3
      refine TrX_of_Tr ?_
      have : ∀ (m : M Unit), Pv m → Tr m st3 (fun _ st' => PhInv st') := fun m h => h.out st3 hi3
      apply this
      hb_auto

theorem step_ok (cfg : Cfg) (st : PState) (t : TTok) (hd : depthBound ≤ cfg.dispatchDepth) (hi : PhInv st) :
    PostX (TB.step cfg st t) (fun r => PhInv r.1) := by
  unfold TB.step
  have := stepM_trx t { st with cfg := cfg } hd hi
  unfold TrX at this
  cases h : (stepM t).run { st with cfg := cfg } with
  | ok r => rw [h] at this; exact this
  | error e => rw [h] at this; exact this

/-! ### the EOF loop -/

instance : LawfulBEq Phase where
  eq_of_beq {a b} h := by cases a <;> cases b <;> first | rfl | cases h
  rfl {a} := by cases a <;> rfl

def allOptPhases : List (Option Phase) := none :: Phase.all.map some

theorem optPhase_mem (p : Option Phase) : p ∈ allOptPhases := by
  cases p with
  | none => simp [allOptPhases]
  | some p => simp [allOptPhases, Phase.mem_all p]

theorem nodup_optPhase_length {l : List (Option Phase)} (h : l.Nodup) : l.length ≤ 24 :=
  List.Nodup.length_le_of_subset h (l₂ := allOptPhases) (fun p _ => optPhase_mem p)

theorem Tr_pyAssert (c : Bool) (site : String) (st : PState) (Q : Unit → PState → Prop) :
    Tr (pyAssert c site) st Q ↔ (c = true → Q () st) := by
  unfold pyAssert
  cases c <;> simp [Tr_pure, Tr_throw, NF_assertFail]

/-- loop invariant of the EOF loop: the phases seen so far, with the current one, are pairwise distinct -/
theorem eofLoop_tr {n : Nat} (hn : depthBound ≤ n) :
    ∀ fuel phases st, PhInv st → (phases ++ [st.phase]).Nodup → 24 ≤ phases.length + fuel →
      Tr (eofLoop (mkRec n) fuel phases) st (fun _ _ => True) := by
  intro fuel
  induction fuel with
  | zero =>
    intro phases st hi hnd hlen
    have := nodup_optPhase_length hnd
    simp at this
    omega
  | succ fuel ih =>
    intro phases st hi hnd hlen
    unfold eofLoop
    simp only [Tr_bind, Tr_getPhase, Tr_curPhase]
    intro p hp
    refine Tr_mono ((mkRec_total hn p (.comment [])).2.2.2.2.2.2.out st hi) ?_
    intro reprocess st1 hi1
    split
    · simp only [Tr_bind, Tr_getPhase, Tr_pyAssert]
      intro hc
      refine ih _ st1 hi1 ?_ (by simp; omega)
      rw [List.nodup_append]
      refine ⟨hnd, by simp, ?_⟩
      intro a ha b hb
      simp only [List.mem_singleton] at hb
      subst hb
      intro hab
      subst hab
      simp only [Bool.not_eq_eq_eq_not, Bool.not_true] at hc
      have := List.contains_iff_mem.2 ha
      rw [this] at hc
      cases hc
    · trivial

/-- **level 3, EOF part** (`eofLoop_total`): `TB.finish` never runs out of fuel -/
theorem finish_ok (cfg : Cfg) (st : PState) (hd : depthBound ≤ cfg.dispatchDepth) (hi : PhInv st) :
    Post (TB.finish cfg st) (fun _ => True) := by
  unfold TB.finish
  have := eofLoop_tr hd (Phase.all.length + 2) [] { st with cfg := cfg } hi (by simp) (by decide)
  unfold Tr at this
  cases h : (eofLoop (mkRec cfg.dispatchDepth) (Phase.all.length + 2) []).run { st with cfg := cfg } with
  | ok r => trivial
  | error e => rw [h] at this; exact this

theorem eofLoop_total (cfg : Cfg) (st : PState) (hd : depthBound ≤ cfg.dispatchDepth) (hi : PhInv st)
    (site : String) : TB.finish cfg st ≠ .error (.outOfFuel site) := by
  intro he
  have := finish_ok cfg st hd hi
  rw [he] at this
  exact this site rfl

/-! ### `reset()` -/

theorem init_ok (cfg : Cfg) : Post (TB.init cfg) PhInv := by
  unfold TB.init
  dsimp only
  have hpv : Pv (do setPhase .beforeHtml; BeforeHtml_insertHtmlElement; resetInsertionMode : M Unit) := by
    hb_auto
  have key : ∀ st0 : PState, PhInv st0 →
      Post (match (do setPhase .beforeHtml; BeforeHtml_insertHtmlElement; resetInsertionMode : M Unit).run st0 with
        | .ok (_, st) => Except.ok { st with tokSwitch := none }
        | .error e => .error e) PhInv := by
    intro st0 hi0
    have := hpv.out st0 hi0
    unfold Tr at this
    split
    · rename_i r st' h
      rw [h] at this
      exact ⟨this.1, this.2.1, this.2.2⟩
    · rename_i e h
      rw [h] at this
      exact this
  split
  · exact key _ ⟨by simp, by simp, by simp⟩
  · exact ⟨by simp, by simp, by simp⟩

end H5.Props.C03b
