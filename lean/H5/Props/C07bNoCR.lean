/-
  C07 identity — no CR in the serializer's output on a covered document, so `HTMLInputStream`'s newline
  normalisation (the first thing the parser does) is the identity on it.
-/
import H5.Props.C07bSer
set_option linter.unusedSimpArgs false
set_option linter.unusedVariables false
namespace H5.Props.C07b
open H5 H5.Model H5.Model.Dom H5.Spec
open H5.Props.C08c (tagNameOK startTagOK valueOK startTagText endTagText commentText tokOK tokText commentOK)
open H5.Model.Serializer (escape)

def noCR (s : Str) : Bool := s.all fun c => c != 13

theorem noCR_append (a b : Str) : noCR (a ++ b) = (noCR a && noCR b) := by simp [noCR]

theorem noCR_replaceChar (s : Str) (o : Nat) (n : Str) (hs : noCR s = true) (hn : noCR n = true) :
    noCR (s.replaceChar o n) = true := by
  simp only [noCR, Str.replaceChar, List.all_flatMap, List.all_eq_true] at *
  intro c hc
  by_cases h : c = o
  · simp only [h, if_true]; exact hn
  · simp only [h, if_false, List.mem_singleton, forall_eq]; exact hs c hc

theorem noCR_escape (d : Str) (h : noCR d = true) : noCR (escape d) = true := by
  unfold escape
  exact noCR_replaceChar _ _ _ (noCR_replaceChar _ _ _ (noCR_replaceChar _ _ _ h (by decide)) (by decide)) (by decide)

theorem noCR_of_valueOK {d : Str} (h : valueOK d = true) : noCR d = true := by
  simp only [valueOK, noCR, List.all_eq_true] at *
  intro c hc
  have := h c hc
  simp at this ⊢
  exact this.2

theorem noCR_tagName {nm : Str} (h : tagNameOK nm = true) : noCR nm = true := by
  cases nm with
  | nil => rfl
  | cons c r =>
    simp only [tagNameOK, Bool.and_eq_true, List.all_eq_true] at h
    simp only [noCR, List.all_cons, Bool.and_eq_true, List.all_eq_true]
    constructor
    · have := h.1; simp [Spec.Tokenizer.isASCIILowerAlpha] at this ⊢; omega
    · intro x hx
      have h13 := h.2 x hx
      simp [C08c.tagNameChar] at h13
      simp [h13]

theorem noCR_attrName {nm : Str} (h : C08c.attrNameOK nm = true) : noCR nm = true := by
  simp only [C08c.attrNameOK, Bool.and_eq_true, List.all_eq_true] at h
  simp only [noCR, List.all_eq_true]
  intro x hx
  have h13 := h.2 x hx
  simp [C08c.attrNameChar] at h13
  simp [h13]

theorem noCR_quoted (nm v : Str) (q : Nat) (hq : q = 34 ∨ q = 39) (hn : noCR nm = true) (hv : noCR v = true) :
    noCR ([32] ++ nm ++ [61] ++ [q] ++
      (if q = 39 then v.replaceChar 39 (lit "&#39;") else v.replaceChar 34 (lit "&quot;")) ++ [q]) = true := by
  rcases hq with rfl | rfl
  · simp only [noCR_append, Bool.and_eq_true]
    exact ⟨⟨⟨⟨⟨by decide, hn⟩, by decide⟩, by decide⟩, noCR_replaceChar _ _ _ hv (by decide)⟩, by decide⟩
  · simp only [noCR_append, Bool.and_eq_true]
    exact ⟨⟨⟨⟨⟨by decide, hn⟩, by decide⟩, by decide⟩, noCR_replaceChar _ _ _ hv (by decide)⟩, by decide⟩

theorem bestQuote_cases (v : Str) :
    (if (List.elem 39 v && !List.elem 34 v) = true then 34 else
      if (List.elem 34 v && !List.elem 39 v) = true then 39 else 34 : Nat) = 34 ∨
    (if (List.elem 39 v && !List.elem 34 v) = true then 34 else
      if (List.elem 34 v && !List.elem 39 v) = true then 39 else 34 : Nat) = 39 := by
  split
  · exact Or.inl rfl
  · split
    · exact Or.inr rfl
    · exact Or.inl rfl

theorem noCR_attrOut (tag : Str) (a : Attr) (h : C08c.attrOK {} tag a = true) :
    noCR (Serializer.attrOut {} tag a).1 = true := by
  simp only [C08c.attrOK, Bool.and_eq_true] at h
  have hn := noCR_attrName h.1.1
  have hv := noCR_of_valueOK h.1.2
  have hv1 : noCR (a.value.replaceChar 38 (lit "&amp;")) = true := noCR_replaceChar _ _ _ hv (by decide)
  unfold Serializer.attrOut
  simp only [Bool.false_eq_true, if_false, if_true]
  have A := noCR_quoted _ _ _ (bestQuote_cases (a.value.replaceChar 38 (lit "&amp;"))) hn hv1
  have B : noCR ([32] ++ a.name ++ [61] ++ a.value.replaceChar 38 (lit "&amp;")) = true := by
    simp only [noCR_append, Bool.and_eq_true]
    exact ⟨⟨⟨by decide, hn⟩, by decide⟩, hv1⟩
  have C : noCR ([32] ++ a.name) = true := by
    simp only [noCR_append, Bool.and_eq_true]
    exact ⟨by decide, hn⟩
  first | exact A | exact B | exact C | (split <;> first | exact A | exact B | exact C | (split <;> first | exact A | exact B | exact C | (split <;> first | exact A | exact B | exact C | (split <;> first | exact A | exact B | exact C))))

theorem noCR_startTag (nm : Str) (attrs : List Attr) (h : startTagOK {} nm attrs = true) :
    noCR (startTagText {} nm attrs) = true := by
  simp only [startTagOK, Bool.and_eq_true, List.all_eq_true] at h
  unfold startTagText
  simp only [noCR_append, Bool.and_eq_true]
  refine ⟨⟨⟨⟨by decide, noCR_tagName h.1.1⟩, ?_⟩, ?_⟩, by decide⟩
  · simp only [C08c.attrsText, noCR, List.all_flatMap, List.all_eq_true]
    intro a ha
    have := noCR_attrOut nm a (h.1.2 a ha)
    simpa [noCR, List.all_eq_true] using this
  · simp [C08c.solidusText, noCR]

theorem noCR_endTag (nm : Str) (h : tagNameOK nm = true) : noCR (endTagText nm) = true := by
  simp only [endTagText, noCR_append, Bool.and_eq_true]
  exact ⟨⟨by decide, noCR_tagName h⟩, by decide⟩

mutual
theorem noCR_node (x : Ctx) : ∀ (u : Tree), okNode commentOKm x u = true → noCR (serNode u) = true
  | .text d, hu => by
    simp only [okNode, Bool.and_eq_true] at hu
    exact noCR_escape d (noCR_of_valueOK hu.2)
  | .comment d, hu => by
    have h := commentOK_of_m hu
    simp only [commentOK, Bool.and_eq_true] at h
    simp only [serNode, commentText, noCR_append, Bool.and_eq_true]
    exact ⟨⟨by decide, noCR_of_valueOK h.1.1.1⟩, by decide⟩
  | .elem ns nm attrs cs, hu => by
    simp only [okNode, Bool.and_eq_true, beq_iff_eq] at hu
    obtain ⟨⟨⟨hns, hplain⟩, hst⟩, hbody⟩ := hu
    have hnameOK : tagNameOK nm = true := by
      simp only [startTagOK, Bool.and_eq_true] at hst
      exact hst.1.1
    simp only [serNode]
    split
    · exact noCR_startTag nm attrs hst
    · rename_i hnv
      have hv' : voidName nm = false := by
        cases hh : voidName nm with
        | false => rfl
        | true => exact absurd (voidName_void hh) hnv
      simp only [hv', Bool.false_eq_true, if_false] at hbody
      cases hc : catOf nm with
      | none => simp [hc] at hbody
      | some c =>
        simp only [hc, Bool.and_eq_true] at hbody
        simp only [noCR_append, Bool.and_eq_true]
        exact ⟨⟨noCR_startTag nm attrs hst, noCR_forest (x.inner c nm) cs hbody.2⟩, noCR_endTag nm hnameOK⟩
  | .doc _, hu => by simp [okNode] at hu
  | .frag _, hu => by simp [okNode] at hu
  | .doctype _ _ _, hu => by simp [okNode] at hu
theorem noCR_forest (x : Ctx) : ∀ (cs : List Tree), okForest commentOKm x cs = true → noCR (serForest cs) = true
  | [], _ => rfl
  | u :: rest, h => by
    simp only [okForest, Bool.and_eq_true] at h
    simp only [serForest, noCR_append, Bool.and_eq_true]
    exact ⟨noCR_node x u h.1.1, noCR_forest x rest h.2⟩
end

theorem noCR_head : ∀ (hd : List Tree), headOK hd = true → noCR (serForest hd) = true
  | [], _ => rfl
  | [.elem ns nm attrs cs], hok => by
    simp only [headOK, Bool.and_eq_true, beq_iff_eq, List.isEmpty_iff] at hok
    obtain ⟨⟨⟨hns, hnm⟩, hattrs⟩, hcs⟩ := hok
    subst hns hnm hattrs
    have hnv : Gen.voidElements.elem sTitle = false := by decide
    cases cs with
    | nil => decide
    | cons c crest =>
      cases c with
      | text d =>
        cases crest with
        | cons _ _ => simp at hcs
        | nil =>
          simp only [Bool.and_eq_true] at hcs
          simp only [serForest, serNode, hnv, Bool.false_eq_true, if_false, List.append_nil, noCR_append, Bool.and_eq_true]
          exact ⟨⟨by decide, noCR_escape d (noCR_of_valueOK hcs.2)⟩, by decide⟩
      | _ => simp at hcs
  | _ :: _ :: _, hok => by simp [headOK] at hok
  | [.doc _], hok => by simp [headOK] at hok
  | [.frag _], hok => by simp [headOK] at hok
  | [.doctype _ _ _], hok => by simp [headOK] at hok
  | [.text _], hok => by simp [headOK] at hok
  | [.comment _], hok => by simp [headOK] at hok

theorem noCR_doc (hd cs : List Tree) (hhd : headOK hd = true) (hcs : okForest commentOKm {} cs = true) :
    noCR (serDoc hd cs) = true := by
  simp only [serDoc, noCR_append, Bool.and_eq_true]
  exact ⟨by decide, by decide, by decide, noCR_head hd hhd, by decide, by decide, noCR_forest {} cs hcs, by decide,
    by decide, rfl⟩

theorem replaceSub_go_noCR (n : Str) : ∀ (fuel : Nat) (s : Str), noCR s = true →
    Str.replaceSub.go [13, 10] n s fuel = s
  | 0, s, _ => rfl
  | fuel + 1, [], _ => rfl
  | fuel + 1, c :: rest, h => by
    simp only [noCR, List.all_cons, Bool.and_eq_true, bne_iff_ne, ne_eq] at h
    unfold Str.replaceSub.go
    simp only []
    have : ¬ ([13, 10] ≠ [] ∧ List.isPrefixOf [13, 10] (c :: rest) = true) := by
      intro hh
      have := hh.2
      simp [List.isPrefixOf] at this
      exact h.1 this.1.symm
    rw [if_neg this, replaceSub_go_noCR n fuel rest h.2]

/-- `HTMLInputStream`'s newline normalisation does nothing on a text without CR -/
theorem normalise_noCR (s : Str) (h : noCR s = true) : (s.replaceSub [13, 10] [10]).replaceChar 13 [10] = s := by
  unfold Str.replaceSub
  rw [replaceSub_go_noCR _ _ _ h]
  unfold Str.replaceChar
  induction s with
  | nil => rfl
  | cons c r ih =>
    simp only [noCR, List.all_cons, Bool.and_eq_true, bne_iff_ne, ne_eq] at h
    simp only [List.flatMap_cons, h.1, if_false]
    rw [ih h.2]
    rfl

end H5.Props.C07b
