/-
  C03d — termination of the reprocess loop of `mainLoop` (level R4 of C03c), PARTIAL: proved for every token that is not
  a tag (characters, space characters, comments, doctypes; `nonTag`), in every state reachable by parsing.

  * C03dRet (generated, tools/c03d/gen_rn.py): 142 of the 218 handlers never hand their token back (`RN`); the 76 others
    are listed in tools/c03d/returning.txt — 10 of them for non-tag tokens, 66 for start / end tags.
  * C03dRank: the rank `psi` of the phase register; the 10 handlers that hand a non-tag token back leave a register of
    smaller rank (`K_*`); `plain_rank` / `runProcess_rank` through the dispatcher, with the static check `rank_static`
    (by kernel evaluation over the generated method tables).
  * C03dRound: `round_rank`, `reprocessLoop_nonTag`, `reprocess_total_partial`, `step_total_nonTag`.
  * C03dTag / C03dTagRound / C03dTagTotal: the same for the "OTHER" START TAGS (`otherS`: the name is not a key of any
    start tag dispatch table and not a breakout element of foreign content, `keysS`): they reach the default handler of
    every phase (`dflt_of_other`, static check `keysS_items`); `round_rankS`, `reprocess_total_partial_easy`,
    `step_total_easy` (everything but end tags and the start tags named in `keysS`).

  * C03dEnd / C03dEndForeign / C03dEndRound / C03dEndTotal: the same for the "OTHER" END TAGS (`otherE`: the name is not
    a key of any end tag dispatch table, `keysE`); in `InForeignContentPhase` such a tag is consumed or handed to the
    method of the phase register (`foreign_loop_rank`, by `RecDecE`); `reprocess_total_partial_easy2`,
    `step_total_easy2` (every tokenizer token but the start tags named in `keysS` and the end tags named in `keysE`).

  What remains for `reprocess_total`: the start tags named in `keysS` (109 names) and the end tags named in `keysE` (74 names) —
  the other tag handlers of returning.txt.  The
  register alone does not decrease there (`inTable <td> → inTableBody → inRow` pushes, `inRow <caption> → inTableBody →
  inTable` pops, `</table>`, `<select>`-family and `resetInsertionMode` go to any phase): `len(openElements) + 2·ψ(register,
  token class)` is the candidate, and the nested dispatches (`InRowPhase.startTagOther → InTablePhase.processStartTag →
  startTagCol`, …) run handlers with a register that is not their own phase, so the rank table must be indexed by the
  caller's register.  `Dom.toTree` (the other open fuel site) needs acyclicity of the parent/child links of the arena —
  an invariant of `appendChild` / `insertBefore` / `reparentChildren` (a node is never inserted under one of its
  descendants), which `Inv.str` (about the stack only) does not give.
-/
import H5.Props.C03dEndTotal

namespace H5.Props.C03d
open H5 H5.Model H5.Model.TB H5.Props.C03b H5.Props.C03c

/-- a round of the reprocess loop that hands a non-tag token back decreases the rank of the phase register -/
theorem C03d_round_rank {n : Nat} (hn : depthBound ≤ n) (tok : Token) (hk : nonTag tok = true) (st : PState)
    (hi : C03c.Inv st) :
    Tr (reprocessRound (mkRec n) tok) st (fun a st' => a = some tok → psi st'.phase < psi st.phase) :=
  round_rank hn tok hk st hi

/-- **`reprocess_total_partial`** -/
theorem C03d_reprocess_total_partial (cfg : Cfg) (hd : depthBound ≤ cfg.dispatchDepth) {st : PState}
    (h : Reach cfg st) (tok : Token) (hk : nonTag tok = true) (fuel : Nat) (hf : 10 ≤ fuel) (site : String) :
    (reprocessLoop (mkRec cfg.dispatchDepth) fuel tok).run st ≠ .error (.outOfFuel site) :=
  reprocess_total_partial cfg hd h tok hk fuel hf site

/-- one tokenizer token that is not a tag through the tree builder: no exhausted-fuel error of any site -/
theorem C03d_step_total_nonTag (cfg : Cfg) (hd : depthBound ≤ cfg.dispatchDepth) (hf : 10 ≤ cfg.reprocessFuel)
    {st : PState} (h : Reach cfg st) (t : TTok) (hk : nonTagT t = true) (site : String) :
    TB.step cfg st t ≠ .error (.outOfFuel site) :=
  step_total_nonTag cfg hd hf h t hk site

/-- non-tag tokens and "other" start tags -/
theorem C03d_reprocess_total_partial_easy (cfg : Cfg) (hd : depthBound ≤ cfg.dispatchDepth) {st : PState}
    (h : Reach cfg st) (tok : Token) (he : easyTok tok = true) (hNs : NsNone tok) (fuel : Nat) (hf : 10 ≤ fuel)
    (site : String) :
    (reprocessLoop (mkRec cfg.dispatchDepth) fuel tok).run st ≠ .error (.outOfFuel site) :=
  reprocess_total_partial_easy cfg hd h tok he hNs fuel hf site

/-- one tokenizer token other than an end tag or a start tag named in `keysS`: no exhausted-fuel error of any site -/
theorem C03d_step_total_easy (cfg : Cfg) (hd : depthBound ≤ cfg.dispatchDepth) (hf : 10 ≤ cfg.reprocessFuel)
    {st : PState} (h : Reach cfg st) (t : TTok) (hk : easyT t = true) (site : String) :
    TB.step cfg st t ≠ .error (.outOfFuel site) :=
  step_total_easy cfg hd hf h t hk site

/-- non-tag tokens, "other" start tags and "other" end tags -/
theorem C03d_reprocess_total_partial_easy2 (cfg : Cfg) (hd : depthBound ≤ cfg.dispatchDepth) {st : PState}
    (h : Reach cfg st) (tok : Token) (he : easyTok2 tok = true) (hNs : NsNone tok) (fuel : Nat) (hf : 10 ≤ fuel)
    (site : String) :
    (reprocessLoop (mkRec cfg.dispatchDepth) fuel tok).run st ≠ .error (.outOfFuel site) :=
  reprocess_total_partial_easy2 cfg hd h tok he hNs fuel hf site

/-- one tokenizer token other than a start tag named in `keysS` or an end tag named in `keysE`: no exhausted-fuel
error of any site -/
theorem C03d_step_total_easy2 (cfg : Cfg) (hd : depthBound ≤ cfg.dispatchDepth) (hf : 10 ≤ cfg.reprocessFuel)
    {st : PState} (h : Reach cfg st) (t : TTok) (hk : easyT2 t = true) (site : String) :
    TB.step cfg st t ≠ .error (.outOfFuel site) :=
  step_total_easy2 cfg hd hf h t hk site

end H5.Props.C03d
