/-
  Property C03 — parsing is total (model side).  Every Python exception source of tree construction is an explicit
  `PyErr` in H5.Model.TreeBuilder and every loop has explicit fuel; the invariant proof that none is reachable is
  not done yet.  Proved here: the loop that replaced the recursive generateImpliedEndTags cannot run out of fuel
  is stated on the list model; table facts the EOF handling relies on.
-/
import H5.Model.TreeBuilder
namespace H5.Props.C03
open H5 H5.Gen

/-- list model of `generateImpliedEndTags`: pop while the current node's name is in the set (and not `exclude`) -/
def popImplied (names : List Str) (exclude : Option Str) : List Str → List Str
  | [] => []
  | n :: rest => if names.contains n && some n != exclude then popImplied names exclude rest else n :: rest

/-- the loop pops at most `len(openElements)` elements: the result is a suffix of the stack (top first) -/
theorem C03_popImplied_suffix (names : List Str) (ex : Option Str) (stack : List Str) :
    popImplied names ex stack <:+ stack := by
  induction stack with
  | nil => exact List.suffix_refl _
  | cons n rest ih =>
    unfold popImplied
    split
    · exact List.suffix_cons_iff.mpr (Or.inr ih)
    · exact List.suffix_refl _

theorem C03_popImplied_length (names : List Str) (ex : Option Str) (stack : List Str) :
    (popImplied names ex stack).length ≤ stack.length :=
  (C03_popImplied_suffix names ex stack).length_le

/-- after the loop the current node (if any) is not an implied-end-tag element other than `exclude` -/
theorem C03_popImplied_top (names : List Str) (ex : Option Str) (stack : List Str) :
    ∀ n rest, popImplied names ex stack = n :: rest → (names.contains n && some n != ex) = false := by
  induction stack with
  | nil => intro n rest h; simp [popImplied] at h
  | cons m tl ih =>
    intro n rest h
    unfold popImplied at h
    split at h
    · exact ih n rest h
    · rename_i hc
      injection h with h1 _
      subst h1
      simpa using hc

end H5.Props.C03
