/-
  Property C03b (parser fuel), tokenizer part — per-state lemmas (text, tag-open and RCDATA/RAWTEXT/script-data states).
  Each lemma: a call of the state method from a state of weight `w` with `n` characters left and `q` queued tokens
  either stops, fails with an error that is not `outOfFuel`, or leaves
  `8·|input'| + 3·w state' + |queue'| ≤ 8·n + 3·w + q`: the call pays for the tokens it queues.
-/
import H5.Props.C03bTokHelpers
set_option linter.unusedSimpArgs false
namespace H5.Props.C03b
open H5 H5.Gen H5.Model H5.Model.Tokenizer
open H5.Props.C02c

theorem dataState_pay (s : St) (hs : s.state = .dataState) :
    Post (dataState s) (Pay s.input.length (w s.state) s.tokenQueue.length) := by
  state_pay dataState

theorem entityDataState_pay (s : St) (hs : s.state = .entityDataState) :
    Post (entityDataState s) (Pay s.input.length (w s.state) s.tokenQueue.length) := by
  state_pay entityDataState

theorem rcdataState_pay (s : St) (hs : s.state = .rcdataState) :
    Post (rcdataState s) (Pay s.input.length (w s.state) s.tokenQueue.length) := by
  state_pay rcdataState

theorem characterReferenceInRcdata_pay (s : St) (hs : s.state = .characterReferenceInRcdata) :
    Post (characterReferenceInRcdata s) (Pay s.input.length (w s.state) s.tokenQueue.length) := by
  state_pay characterReferenceInRcdata

theorem rawtextState_pay (s : St) (hs : s.state = .rawtextState) :
    Post (rawtextState s) (Pay s.input.length (w s.state) s.tokenQueue.length) := by
  state_pay rawtextState

theorem scriptDataState_pay (s : St) (hs : s.state = .scriptDataState) :
    Post (scriptDataState s) (Pay s.input.length (w s.state) s.tokenQueue.length) := by
  state_pay scriptDataState

theorem plaintextState_pay (s : St) (hs : s.state = .plaintextState) :
    Post (plaintextState s) (Pay s.input.length (w s.state) s.tokenQueue.length) := by
  state_pay plaintextState

theorem tagOpenState_pay (s : St) (hs : s.state = .tagOpenState) :
    Post (tagOpenState s) (Pay s.input.length (w s.state) s.tokenQueue.length) := by
  state_pay tagOpenState

theorem closeTagOpenState_pay (s : St) (hs : s.state = .closeTagOpenState) :
    Post (closeTagOpenState s) (Pay s.input.length (w s.state) s.tokenQueue.length) := by
  state_pay closeTagOpenState

theorem tagNameState_pay (s : St) (hs : s.state = .tagNameState) :
    Post (tagNameState s) (Pay s.input.length (w s.state) s.tokenQueue.length) := by
  state_pay tagNameState

theorem rcdataLessThanSignState_pay (s : St) (hs : s.state = .rcdataLessThanSignState) :
    Post (rcdataLessThanSignState s) (Pay s.input.length (w s.state) s.tokenQueue.length) := by
  state_pay rcdataLessThanSignState

theorem rcdataEndTagOpenState_pay (s : St) (hs : s.state = .rcdataEndTagOpenState) :
    Post (rcdataEndTagOpenState s) (Pay s.input.length (w s.state) s.tokenQueue.length) := by
  state_pay rcdataEndTagOpenState

theorem rcdataEndTagNameState_pay (s : St) (hs : s.state = .rcdataEndTagNameState) :
    Post (rcdataEndTagNameState s) (Pay s.input.length (w s.state) s.tokenQueue.length) := by
  state_pay rcdataEndTagNameState

theorem rawtextLessThanSignState_pay (s : St) (hs : s.state = .rawtextLessThanSignState) :
    Post (rawtextLessThanSignState s) (Pay s.input.length (w s.state) s.tokenQueue.length) := by
  state_pay rawtextLessThanSignState

theorem rawtextEndTagOpenState_pay (s : St) (hs : s.state = .rawtextEndTagOpenState) :
    Post (rawtextEndTagOpenState s) (Pay s.input.length (w s.state) s.tokenQueue.length) := by
  state_pay rawtextEndTagOpenState

theorem rawtextEndTagNameState_pay (s : St) (hs : s.state = .rawtextEndTagNameState) :
    Post (rawtextEndTagNameState s) (Pay s.input.length (w s.state) s.tokenQueue.length) := by
  state_pay rawtextEndTagNameState

theorem scriptDataLessThanSignState_pay (s : St) (hs : s.state = .scriptDataLessThanSignState) :
    Post (scriptDataLessThanSignState s) (Pay s.input.length (w s.state) s.tokenQueue.length) := by
  state_pay scriptDataLessThanSignState

theorem scriptDataEndTagOpenState_pay (s : St) (hs : s.state = .scriptDataEndTagOpenState) :
    Post (scriptDataEndTagOpenState s) (Pay s.input.length (w s.state) s.tokenQueue.length) := by
  state_pay scriptDataEndTagOpenState

theorem scriptDataEndTagNameState_pay (s : St) (hs : s.state = .scriptDataEndTagNameState) :
    Post (scriptDataEndTagNameState s) (Pay s.input.length (w s.state) s.tokenQueue.length) := by
  state_pay scriptDataEndTagNameState

theorem scriptDataEscapeStartState_pay (s : St) (hs : s.state = .scriptDataEscapeStartState) :
    Post (scriptDataEscapeStartState s) (Pay s.input.length (w s.state) s.tokenQueue.length) := by
  state_pay scriptDataEscapeStartState

theorem scriptDataEscapeStartDashState_pay (s : St) (hs : s.state = .scriptDataEscapeStartDashState) :
    Post (scriptDataEscapeStartDashState s) (Pay s.input.length (w s.state) s.tokenQueue.length) := by
  state_pay scriptDataEscapeStartDashState

theorem scriptDataEscapedState_pay (s : St) (hs : s.state = .scriptDataEscapedState) :
    Post (scriptDataEscapedState s) (Pay s.input.length (w s.state) s.tokenQueue.length) := by
  state_pay scriptDataEscapedState

end H5.Props.C03b
