/-
  C03c — `mkRec_inv : RecInv (mkRec n) n`: the nested dispatcher preserves `Inv` at every entry point, from the states
  the entry point can be entered in.
-/
import H5.Props.C03cGraph
set_option linter.unusedSimpArgs false
set_option linter.unusedVariables false
namespace H5.Props.C03c
open H5 H5.Model H5.Model.TB H5.Model.Dom
open H5.Props.C02c (NF Post Post_bind Post_mono Post_pure Post_ok Post_error Post_throw Post_ite
  NF_typeError NF_keyError NF_indexError NF_assertFail NF_valueError NF_lookupError)
open H5.Props.C03b

/-! ### `Phase.processStartTag` / `Phase.processEndTag` -/

theorem reqs_S {n : Nat} (ph : Phase) (tok : Token) (d : TagData) (h : String)
    (hd : tok.tag "Phase.processStartTag" = .ok d)
    (hl : lookupHandler Gen.startTagHandlers "startTagHandler" ph d.name = .ok h) (hneed : needS ph tok ≤ n) :
    ∀ q ∈ reqsOf h, q.holds tok n := by
  intro q hq
  have hname := tag_tokName hd
  refine holds_of_boundS ?_ hneed
  by_cases hleaf : leafInBody.contains d.name = true
  · have hm : d.name ∈ leafInBody := by simpa using hleaf
    have := graphS_exact ph (Phase.mem_all ph) d.name hm h (lookup_exact hl) q hq
    simpa only [isHtml, hname, hleaf] using this
  · have hleaf' : leafInBody.contains d.name = false := by simpa using hleaf
    have hne : (d.name == nmHtml) = false := by
      cases he : d.name == nmHtml with
      | false => rfl
      | true =>
        have : d.name = nmHtml := by simpa using he
        rw [this] at hleaf'
        exact absurd hleaf' (by decide)
    have := graphS_other ph (Phase.mem_all ph) h (lookup_other leafInBody hl hleaf') q hq
    simpa only [isHtml, hname, hleaf', hne] using this

theorem reqs_E {n : Nat} (ph : Phase) (tok : Token) (d : TagData) (h : String)
    (hd : tok.tag "Phase.processEndTag" = .ok d)
    (hl : lookupHandler Gen.endTagHandlers "endTagHandler" ph d.name = .ok h) (hneed : needE ph tok ≤ n) :
    ∀ q ∈ reqsOf h, q.holds tok n := by
  intro q hq
  have hname := tag_tokName hd
  refine holds_of_boundE ?_ hneed
  by_cases hcap : (d.name == nmCaption) = true
  · have hdn : d.name = nmCaption := by simpa using hcap
    rw [hdn] at hl
    have := graphE_exact ph (Phase.mem_all ph) h (lookup_exact hl) q hq
    simpa only [isCaption, hname, hcap] using this
  · have hcap' : (d.name == nmCaption) = false := by simpa using hcap
    have hex : [nmCaption].contains d.name = false := by
      simp only [List.contains_cons, List.contains_nil, Bool.or_false]
      exact hcap'
    have := graphE_other ph (Phase.mem_all ph) h (lookup_other [nmCaption] hl hex) q hq
    simpa only [isCaption, hname, hcap'] using this

theorem nil_contains_false (nm : Str) : ([] : List Str).contains nm = false := rfl

theorem T_Phase_processStartTag {r : Rec} {n : Nat} (hr : RecInv r n) (ph : Phase) (tok : Token)
    (hneed : needS ph tok ≤ n) (hNs : NsNone tok) (st : PState) (hi : Inv st) (k : PreK)
    (hk : ∀ h, lookupHandler Gen.startTagHandlers "startTagHandler" ph (tokName tok) = .ok h → k.le (hkOf h) = true)
    (hp : k.holds st) :
    Tr (Phase_processStartTag r ph tok) st (fun _ st' => Inv st') := by
  unfold Phase_processStartTag
  simp only [Tr_bind, Tr_monadLift, Tr_lift]
  refine Post_cases ?_
  intro d hd
  refine Post_cases ?_
  intro h hl
  refine runTagHandler_inv hr tok h (reqs_S ph tok d h hd hl hneed) st hi hNs ?_ ?_ ?_
  · intro k' hk'
    have := hk h (by rw [tag_tokName hd]; exact hl)
    rw [hk'] at this
    exact PreK.holds_of_le this hp
  · have := facts_of_lookup_S hl
    rw [← tag_tokName hd] at this
    exact this
  · intro he
    subst he
    exact absurd (lookup_other [] hl (nil_contains_false _)) (gCE_S ph (Phase.mem_all ph))

theorem T_Phase_processEndTag {r : Rec} {n : Nat} (hr : RecInv r n) (ph : Phase) (tok : Token)
    (hneed : needE ph tok ≤ n) (hNs : NsNone tok) (st : PState) (hi : Inv st) (k : PreK)
    (hk : ∀ h, lookupHandler Gen.endTagHandlers "endTagHandler" ph (tokName tok) = .ok h → k.le (hkOf h) = true)
    (hp : k.holds st) (hce : CE ph tok st) :
    Tr (Phase_processEndTag r ph tok) st (fun _ st' => Inv st') := by
  unfold Phase_processEndTag
  simp only [Tr_bind, Tr_monadLift, Tr_lift]
  refine Post_cases ?_
  intro d hd
  refine Post_cases ?_
  intro h hl
  refine runTagHandler_inv hr tok h (reqs_E ph tok d h hd hl hneed) st hi hNs ?_ ?_ ?_
  · intro k' hk'
    have := hk h (by rw [tag_tokName hd]; exact hl)
    rw [hk'] at this
    exact PreK.holds_of_le this hp
  · have := facts_of_lookup_E hl
    rw [← tag_tokName hd] at this
    exact this
  · intro he hpn
    subst he
    exact hce (gCE_E ph (Phase.mem_all ph) (lookup_other [] hl (nil_contains_false _))) hpn

/-! ### `phases[ph].<method>(token)` -/

theorem plainK_spec {ph : Phase} {m q : String} (hm : m ∈ methods7) (hq : resolveMethod ph m = .ok q)
    (h1 : q ≠ "Phase.processStartTag") (h2 : q ≠ "Phase.processEndTag") (h3 : q ≠ "InBodyPhase.<slot>") :
    (entryK ph).le (hkOf q) = true ∧ factsOf q = [] ∧ q ≠ "InBodyPhase.endTagOther" := by
  have := gK_plain ph (Phase.mem_all ph) m hm
  unfold plainK at this
  rw [hq] at this
  simp only [Bool.or_eq_true, beq_iff_eq, Bool.and_eq_true, List.isEmpty_iff, bne_iff_ne, ne_eq] at this
  rcases this with ((h | h) | h) | h
  · exact absurd h h1
  · exact absurd h h2
  · exact absurd h h3
  · exact ⟨h.1.1, h.1.2, h.2⟩

theorem T_runProcess_plain_aux {r : Rec} {n : Nat} (hr : RecInv r n) (ph : Phase) (m q : String) (tok : Token)
    (hm : m ∈ methods7) (hq : resolveMethod ph m = .ok q)
    (h1 : q ≠ "Phase.processStartTag") (h2 : q ≠ "Phase.processEndTag") (h3 : q ≠ "InBodyPhase.<slot>")
    (hb : ∀ req ∈ reqsOf q, req.holds tok n) (hNs : NsNone tok) (st : PState) (hi : Inv st)
    (hp : (entryK ph).holds st) :
    Tr (runProcessPlain r q tok) st (fun _ st' => Inv st') := by
  obtain ⟨hk, hn, hne⟩ := plainK_spec hm hq h1 h2 h3
  refine runProcessPlain_inv hr tok q hb st hi hNs ?_ ?_ ?_
  · intro k' hk'
    rw [hk'] at hk
    exact PreK.holds_of_le hk hp
  · intro f hf; rw [hn] at hf; cases hf
  · intro he; exact absurd he hne

/-- the slot `InBodyPhase.processSpaceCharacters` -/
theorem T_slot {ph : Phase} {m : String} (hm : m ∈ methods7) (hq : resolveMethod ph m = .ok "InBodyPhase.<slot>")
    (tok : Token) (hNs : NsNone tok) (st : PState) (hi : Inv st) (hp : (entryK ph).holds st) :
    Tr (if m == "processSpaceCharacters" then InBody_processSpaceCharacters tok
      else throw (PyErr.lookupError ("no-model-for-slot:" ++ m)) : M (Option Token)) st (fun _ st' => Inv st') := by
  have hn : NT st := PreK.holds_of_le (b := .nt) (gK_slot ph (Phase.mem_all ph) m hm hq) hp
  haveI : Fct (NsNone tok) := ⟨hNs⟩
  split
  · exact Tr_of_Pk _ inferInstance st hi hn
  · exact NF_lookupError _

theorem T_runProcess_S {r : Rec} {n : Nat} (hr : RecInv r n) (ph : Phase) (tok : Token)
    (hneed : needS ph tok ≤ n) (hNs : NsNone tok) (st : PState) (hi : Inv st) (hp : (entryK ph).holds st) :
    Tr (runProcess r ph "processStartTag" tok) st (fun _ st' => Inv st') := by
  unfold runProcess
  simp only [Tr_bind, Tr_monadLift, Tr_lift]
  refine Post_cases ?_
  intro q hq
  obtain ⟨g1, g2, g3⟩ := resolve_generic ph (Phase.mem_all ph)
  obtain ⟨p1, p2, p3, p4, p5, p6, p7⟩ := graphPlain ph (Phase.mem_all ph)
  split
  · exact T_Phase_processStartTag hr ph tok hneed hNs st hi (entryK ph)
      (fun h hl => gK_S ph (Phase.mem_all ph) h (lookup_other [] hl (nil_contains_false _))) hp
  · exact absurd hq g1
  · exact T_slot (by simp [methods7]) hq tok hNs st hi hp
  · rename_i h1 h2 h3
    exact T_runProcess_plain_aux hr ph _ q tok (by simp [methods7]) hq h1 h2 h3
      (plain_holds p1 hq (Nat.le_trans (minS_le_needS ph tok) hneed)) hNs st hi hp

theorem T_runProcess_E {r : Rec} {n : Nat} (hr : RecInv r n) (ph : Phase) (tok : Token)
    (hneed : needE ph tok ≤ n) (hNs : NsNone tok) (st : PState) (hi : Inv st) (hp : (entryK ph).holds st)
    (hce : CE ph tok st) :
    Tr (runProcess r ph "processEndTag" tok) st (fun _ st' => Inv st') := by
  unfold runProcess
  simp only [Tr_bind, Tr_monadLift, Tr_lift]
  refine Post_cases ?_
  intro q hq
  obtain ⟨g1, g2, g3⟩ := resolve_generic ph (Phase.mem_all ph)
  obtain ⟨p1, p2, p3, p4, p5, p6, p7⟩ := graphPlain ph (Phase.mem_all ph)
  split
  · exact absurd hq g2
  · exact T_Phase_processEndTag hr ph tok hneed hNs st hi (entryK ph)
      (fun h hl => gK_E ph (Phase.mem_all ph) h (lookup_other [] hl (nil_contains_false _))) hp hce
  · exact T_slot (by simp [methods7]) hq tok hNs st hi hp
  · rename_i h1 h2 h3
    exact T_runProcess_plain_aux hr ph _ q tok (by simp [methods7]) hq h1 h2 h3
      (plain_holds p2 hq (Nat.le_trans (minE_le_needE ph tok) hneed)) hNs st hi hp

theorem T_runProcess_plain {r : Rec} {n : Nat} (hr : RecInv r n) (ph : Phase) (m : String) (tok : Token) (b : Nat)
    (hm : m ∈ ["processCharacters", "processSpaceCharacters", "processComment", "processDoctype"])
    (hpl : plainOK ph m b = true) (hb : b ≤ n) (hNs : NsNone tok) (st : PState) (hi : Inv st)
    (hp : (entryK ph).holds st) :
    Tr (runProcess r ph m tok) st (fun _ st' => Inv st') := by
  have hm7 : m ∈ methods7 := by
    simp only [List.mem_cons, List.not_mem_nil, or_false] at hm; rcases hm with h | h | h | h <;> simp [methods7, h]
  unfold runProcess
  simp only [Tr_bind, Tr_monadLift, Tr_lift]
  refine Post_cases ?_
  intro q hq
  obtain ⟨g1, g2, g3⟩ := resolve_generic ph (Phase.mem_all ph)
  split
  · exact absurd hq (g3 m hm).1
  · exact absurd hq (g3 m hm).2
  · exact T_slot hm7 hq tok hNs st hi hp
  · rename_i h1 h2 h3
    exact T_runProcess_plain_aux hr ph m q tok hm7 hq h1 h2 h3 (plain_holds hpl hq hb) hNs st hi hp

theorem T_runProcessEOF {r : Rec} {n : Nat} (hr : RecInv r n) (ph : Phase) (hneed : needEOF ph ≤ n)
    (st : PState) (hi : Inv st) (hp : (entryK ph).holds st) :
    Tr (runProcessEOF r ph) st (fun _ st' => Inv st') := by
  unfold runProcessEOF
  simp only [Tr_bind, Tr_monadLift, Tr_lift]
  refine Post_cases ?_
  intro q hq
  obtain ⟨p1, p2, p3, p4, p5, p6, p7⟩ := graphPlain ph (Phase.mem_all ph)
  have := gK_eof ph (Phase.mem_all ph)
  unfold eofK at this
  rw [hq] at this
  simp only [Bool.and_eq_true, List.isEmpty_iff, bne_iff_ne, ne_eq] at this
  refine runEOF_inv hr (.comment []) q (plain_holds p7 hq hneed) st hi trivial ?_ ?_ ?_
  · intro k' hk'
    have h1 := this.1.1
    rw [hk'] at h1
    exact PreK.holds_of_le h1 hp
  · intro f hf; rw [this.1.2] at hf; cases hf
  · intro he; exact absurd he this.2

/-! ### the special entries -/

/-- unfolding `phases[ph].processStartTag` when it is the generic `Phase.processStartTag` -/
theorem runProcess_S_generic (r : Rec) (ph : Phase) (tok : Token)
    (hq : resolveMethod ph "processStartTag" = .ok "Phase.processStartTag") (st : PState) (Q : Option Token → PState → Prop)
    (h : Tr (Phase_processStartTag r ph tok) st Q) : Tr (runProcess r ph "processStartTag" tok) st Q := by
  unfold runProcess
  simp only [Tr_bind, Tr_monadLift, Tr_lift]
  rw [hq]
  exact h

theorem runProcess_E_generic (r : Rec) (ph : Phase) (tok : Token)
    (hq : resolveMethod ph "processEndTag" = .ok "Phase.processEndTag") (st : PState) (Q : Option Token → PState → Prop)
    (h : Tr (Phase_processEndTag r ph tok) st Q) : Tr (runProcess r ph "processEndTag" tok) st Q := by
  unfold runProcess
  simp only [Tr_bind, Tr_monadLift, Tr_lift]
  rw [hq]
  exact h

/-- a start tag of `headLeaf` handed to `InHeadPhase` -/
theorem T_runProcess_SheadLeaf {r : Rec} {n : Nat} (hr : RecInv r n) (tok : Token)
    (hnm : headLeaf.contains (tokName tok) = true) (hneed : needS .inHead tok ≤ n) (hNs : NsNone tok) (st : PState)
    (hi : Inv st) (hp : NTp st.phase) :
    Tr (runProcess r .inHead "processStartTag" tok) st (fun _ st' => Inv st') := by
  refine runProcess_S_generic r .inHead tok gRes_S_inHead st _ ?_
  refine T_Phase_processStartTag hr .inHead tok hneed hNs st hi .ntp ?_ hp
  intro h hl
  exact (gK_headLeaf _ (by simpa using hnm) h (lookup_exact hl)).1

/-- … from `AfterHeadPhase.startTagFromHead` -/
theorem T_runProcess_SfromHead {r : Rec} {n : Nat} (hr : RecInv r n) (tok : Token)
    (hnm : headLeaf.contains (tokName tok) = true) (hNs : NsNone tok) (st : PState) (old : List NodeId) (hd : NodeId)
    (hfh : FHpre st old hd) :
    Tr (runProcess r .inHead "processStartTag" tok) st (fun _ st' => FHpost st' old hd) := by
  refine runProcess_S_generic r .inHead tok gRes_S_inHead st _ ?_
  unfold Phase_processStartTag
  simp only [Tr_bind, Tr_monadLift, Tr_lift]
  refine Post_cases ?_
  intro d hdd
  refine Post_cases ?_
  intro h hl
  have hn := tag_tokName hdd
  have g := gK_headLeaf d.name (by rw [← hn]; simpa using hnm) h (lookup_exact hl)
  refine runTagHandler_fh hr tok h st old hd hfh hNs g.2.2.1 ?_
  rw [hn]; exact g.2.1

/-- `<html>` handed to `InBodyPhase` -/
theorem T_runProcess_Shtml {r : Rec} {n : Nat} (hr : RecInv r n) (tok : Token) (hnm : tokName tok = nmHtml)
    (hneed : needS .inBody tok ≤ n) (hNs : NsNone tok) (st : PState) (hi : Inv st) :
    Tr (runProcess r .inBody "processStartTag" tok) st (fun _ st' => Inv st') := by
  refine runProcess_S_generic r .inBody tok gRes_S_inBody st _ ?_
  refine T_Phase_processStartTag hr .inBody tok hneed hNs st hi .any ?_ trivial
  intro h hl
  rw [hnm] at hl
  rw [(gK_html h (lookup_exact hl)).1]; rfl

theorem T_runProcess_plainAny {r : Rec} {n : Nat} (hr : RecInv r n) (ph : Phase) (m q : String) (tok : Token)
    (hq : resolveMethod ph m = .ok q) (hk : hkOf q = .any) (hf : factsOf q = [])
    (hb : ∀ req ∈ reqsOf q, req.holds tok n) (hNs : NsNone tok) (st : PState) (hi : Inv st)
    (h1 : q ≠ "Phase.processStartTag") (h2 : q ≠ "Phase.processEndTag") (h3 : q ≠ "InBodyPhase.<slot>")
    (h4 : q ≠ "InBodyPhase.endTagOther") :
    Tr (runProcess r ph m tok) st (fun _ st' => Inv st') := by
  unfold runProcess
  simp only [Tr_bind, Tr_monadLift, Tr_lift]
  rw [hq]
  simp only [Post_ok]
  have key : Tr (runProcessPlain r q tok) st (fun _ st' => Inv st') := by
    refine runProcessPlain_inv hr tok q hb st hi hNs ?_ ?_ ?_
    · intro k' hk'; rw [hk] at hk'; subst hk'; trivial
    · intro f hf'; rw [hf] at hf'; cases hf'
    · intro he; exact absurd he h4
  first
  | exact key
  | (split
     · rename_i h; exact absurd h h1
     · rename_i h; exact absurd h h2
     · rename_i h; exact absurd h h3
     · exact key)

theorem T_runProcess_CmHead {r : Rec} {n : Nat} (hr : RecInv r n) (tok : Token) (hneed : needCm .inHead ≤ n)
    (hNs : NsNone tok) (st : PState) (hi : Inv st) :
    Tr (runProcess r .inHead "processComment" tok) st (fun _ st' => Inv st') := by
  obtain ⟨g1, g2, g3⟩ := gK_cmHead
  exact T_runProcess_plainAny hr .inHead _ _ tok g1 g2 g3
    (plain_holds (graphPlain .inHead (Phase.mem_all _)).2.2.2.2.1 g1 hneed) hNs st hi (by decide) (by decide)
    (by decide) (by decide)

theorem T_runProcess_SpHead {r : Rec} {n : Nat} (hr : RecInv r n) (tok : Token) (hneed : needSp .inHead ≤ n)
    (hNs : NsNone tok) (st : PState) (hi : Inv st) :
    Tr (runProcess r .inHead "processSpaceCharacters" tok) st (fun _ st' => Inv st') := by
  obtain ⟨g1, g2, g3⟩ := gK_spHead
  exact T_runProcess_plainAny hr .inHead _ _ tok g1 g2 g3
    (plain_holds (graphPlain .inHead (Phase.mem_all _)).2.2.2.1 g1 hneed) hNs st hi (by decide) (by decide)
    (by decide) (by decide)

theorem runPlain_InBody_processCharacters (r : Rec) (tok : Token) :
    runProcessPlain r "InBodyPhase.processCharacters" tok = InBody_processCharacters tok := by
  delta runProcessPlain
  delta runProcessPlain.match_1
  repeat (first | rw [dif_pos rfl] | rw [dif_neg (by decide)])

theorem runProcess_inBody_Ch (r : Rec) (tok : Token) :
    runProcess r .inBody "processCharacters" tok = InBody_processCharacters tok := by
  unfold runProcess
  rw [gK_chBody]
  show (match "InBodyPhase.processCharacters" with
    | "Phase.processStartTag" => Phase_processStartTag r .inBody tok
    | "Phase.processEndTag" => Phase_processEndTag r .inBody tok
    | "InBodyPhase.<slot>" =>
      if "processCharacters" == "processSpaceCharacters" then InBody_processSpaceCharacters tok
      else throw (PyErr.lookupError ("no-model-for-slot:" ++ "processCharacters"))
    | _ => runProcessPlain r "InBodyPhase.processCharacters" tok) = _
  rw [← runPlain_InBody_processCharacters r tok]
  split
  · rename_i h; exact absurd h (by decide)
  · rename_i h; exact absurd h (by decide)
  · rename_i h; exact absurd h (by decide)
  · rfl

theorem T_runProcess_ChBody (r : Rec) (tok : Token) (st : PState) (hs : ST st) :
    Tr (runProcess r .inBody "processCharacters" tok) st (fun _ st' => KPpost st st' ∧ Grown st st') := by
  rw [runProcess_inBody_Ch]
  exact T_InBody_processCharacters_grown tok st hs

/-! ### the entries that stay in the ordinary phases -/

theorem T_Phase_processEndTag_pn {r : Rec} {n : Nat} (hr : RecInv r n) (ph : Phase) (tok : Token)
    (hneed : needE ph tok ≤ n) (hNs : NsNone tok) (st : PState) (hi : Inv st) (hn : NT st)
    (hpn : ∀ h, lookupHandler Gen.endTagHandlers "endTagHandler" ph (tokName tok) = .ok h →
      h ∈ pnList ∧ ∀ f ∈ factsPn h, f.ok (tokName tok) = true) (hce : CE ph tok st) :
    Tr (Phase_processEndTag r ph tok) st (fun _ st' => Inv st' ∧ NT st') := by
  unfold Phase_processEndTag
  simp only [Tr_bind, Tr_monadLift, Tr_lift]
  refine Post_cases ?_
  intro d hd
  refine Post_cases ?_
  intro h hl
  have g := hpn h (by rw [tag_tokName hd]; exact hl)
  refine runTagHandler_pn hr tok h (reqs_E ph tok d h hd hl hneed) st hi hn hNs g.1 g.2 ?_
  intro he hp
  subst he
  exact hce (gCE_E ph (Phase.mem_all ph) (lookup_other [] hl (nil_contains_false _))) hp

theorem T_Phase_processStartTag_pn {r : Rec} {n : Nat} (hr : RecInv r n) (ph : Phase) (tok : Token)
    (hneed : needS ph tok ≤ n) (hNs : NsNone tok) (st : PState) (hi : Inv st) (hn : NT st)
    (hpn : ∀ h, lookupHandler Gen.startTagHandlers "startTagHandler" ph (tokName tok) = .ok h →
      h ∈ pnList ∧ ∀ f ∈ factsPn h, f.ok (tokName tok) = true) :
    Tr (Phase_processStartTag r ph tok) st (fun _ st' => Inv st' ∧ NT st') := by
  unfold Phase_processStartTag
  simp only [Tr_bind, Tr_monadLift, Tr_lift]
  refine Post_cases ?_
  intro d hd
  refine Post_cases ?_
  intro h hl
  have g := hpn h (by rw [tag_tokName hd]; exact hl)
  refine runTagHandler_pn hr tok h (reqs_S ph tok d h hd hl hneed) st hi hn hNs g.1 g.2 ?_
  intro he
  subst he
  exact absurd (lookup_other [] hl (nil_contains_false _)) (gCE_S ph (Phase.mem_all ph))

/-- the implied end tags `li`, `dd`, `dt`, `p`, `option` in the current (ordinary) phase -/
theorem T_runProcess_EnCur {r : Rec} {n : Nat} (hr : RecInv r n) (ph : Phase) (tok : Token)
    (himp : impliedNames.contains (tokName tok) = true) (hneed : needE ph tok ≤ n) (hNs : NsNone tok) (st : PState)
    (hi : Inv st) (hn : NT st) (hph : st.phase = some ph) :
    Tr (runProcess r ph "processEndTag" tok) st (fun _ st' => Inv st' ∧ NT st') := by
  have hok := gPn_enCur ph (Phase.mem_all ph) (ntPhase_of_NT hn hph)
  obtain ⟨p1, p2, p3, p4, p5, p6, p7⟩ := graphPlain ph (Phase.mem_all ph)
  unfold runProcess
  simp only [Tr_bind, Tr_monadLift, Tr_lift]
  refine Post_cases ?_
  intro q hq
  unfold enCurOK at hok
  rw [hq] at hok
  dsimp only at hok
  by_cases hqe : q = "Phase.processEndTag"
  · subst hqe
    rw [if_pos (beq_self_eq_true _)] at hok
    show Tr (Phase_processEndTag r ph tok) st _
    refine T_Phase_processEndTag_pn hr ph tok hneed hNs st hi hn ?_ (CE_of_phase hph)
    intro h hl
    have h1 := List.all_eq_true.1 hok (tokName tok) (by simpa using himp)
    have h2 := List.all_eq_true.1 h1 h (lookup_exact hl)
    simp only [Bool.and_eq_true, List.contains_eq_mem, decide_eq_true_eq, List.all_eq_true] at h2
    exact ⟨h2.1, h2.2⟩
  · rw [if_neg (by simpa using hqe)] at hok
    simp only [Bool.and_eq_true, List.contains_eq_mem, decide_eq_true_eq, List.isEmpty_iff, bne_iff_ne, ne_eq] at hok
    obtain ⟨⟨⟨⟨hm, hf⟩, hne⟩, hns⟩, hsl⟩ := hok
    split
    · rename_i h; exact absurd rfl hns
    · rename_i h; exact absurd rfl hqe
    · rename_i h; exact absurd rfl hsl
    · refine runProcessPlain_pn hr tok q (plain_holds p2 hq (Nat.le_trans (minE_le_needE ph tok) hneed)) st hi hn hNs
        hm ?_ ?_
      · intro f hf'; rw [hf] at hf'; cases hf'
      · intro he; exact absurd he hne

/-- … handed on to `InTablePhase` -/
theorem T_runProcess_EnTable {r : Rec} {n : Nat} (hr : RecInv r n) (tok : Token)
    (himp : impliedNames.contains (tokName tok) = true) (hneed : needE .inTable tok ≤ n) (hNs : NsNone tok) :
    Pn (runProcess r .inTable "processEndTag" tok) := ⟨fun st hi hn => by
  have hok := gPn_enCur .inTable (Phase.mem_all _) (by decide)
  have hq : resolveMethod .inTable "processEndTag" = .ok "Phase.processEndTag" := by decide
  refine runProcess_E_generic r .inTable tok hq st _ ?_
  unfold enCurOK at hok
  rw [hq] at hok
  dsimp only at hok
  rw [if_pos (beq_self_eq_true _)] at hok
  refine T_Phase_processEndTag_pn hr .inTable tok hneed hNs st hi hn ?_ (CE_of_ne (by decide))
  intro h hl
  have h1 := List.all_eq_true.1 hok (tokName tok) (by simpa using himp)
  have h2 := List.all_eq_true.1 h1 h (lookup_exact hl)
  simp only [Bool.and_eq_true, List.contains_eq_mem, decide_eq_true_eq, List.all_eq_true] at h2
  exact ⟨h2.1, h2.2⟩⟩

theorem Pn_runProcess_SnBody {r : Rec} {n : Nat} (hr : RecInv r n) (tok : Token)
    (hleaf : leafInBody.contains (tokName tok) = true) (hneed : needS .inBody tok ≤ n) (hNs : NsNone tok) :
    Pn (runProcess r .inBody "processStartTag" tok) := ⟨fun st hi hn => by
  refine runProcess_S_generic r .inBody tok gRes_S_inBody st _ ?_
  refine T_Phase_processStartTag_pn hr .inBody tok hneed hNs st hi hn ?_
  intro h hl
  have g := gPn_snBody (tokName tok) (by simpa using hleaf) h (lookup_exact hl)
  exact ⟨g.1, g.2.1⟩⟩

theorem Pn_runProcess_EnBody {r : Rec} {n : Nat} (hr : RecInv r n) (tok : Token) (hneed : needE .inBody tok ≤ n)
    (hNs : NsNone tok) (hpn : notPN tok) : Pn (runProcess r .inBody "processEndTag" tok) := ⟨fun st hi hn => by
  refine runProcess_E_generic r .inBody tok gRes_E_inBody st _ ?_
  refine T_Phase_processEndTag_pn hr .inBody tok hneed hNs st hi hn ?_ (CE_of_notPN hpn)
  intro h hl
  have g := gPn_enBody h (lookup_other [] hl (nil_contains_false _))
  refine ⟨g.1, ?_⟩
  rw [g.2]
  exact facts_of_lookup_E hl⟩

/-- **the induction**: `mkRec n` serves every entry point of rank `< n`, from the states it can be entered in -/
theorem mkRec_inv : ∀ n, RecInv (mkRec n) n
  | 0 =>
    { S := fun _ _ h => absurd h (Nat.not_lt_zero _)
      E := fun _ _ h => absurd h (Nat.not_lt_zero _)
      Ch := fun _ _ h => absurd h (Nat.not_lt_zero _)
      Sp := fun _ _ h => absurd h (Nat.not_lt_zero _)
      Cm := fun _ _ h => absurd h (Nat.not_lt_zero _)
      D := fun _ _ h => absurd h (Nat.not_lt_zero _)
      EOF := fun _ h => absurd h (Nat.not_lt_zero _)
      SheadLeaf := fun _ _ h => absurd h (Nat.not_lt_zero _)
      SfromHead := fun _ _ h => absurd h (Nat.not_lt_zero _)
      Shtml := fun _ _ h => absurd h (Nat.not_lt_zero _)
      CmHead := fun _ h => absurd h (Nat.not_lt_zero _)
      SpHead := fun _ h => absurd h (Nat.not_lt_zero _)
      EnCur := fun _ _ _ h => absurd h (Nat.not_lt_zero _)
      EnTable := fun _ _ h => absurd h (Nat.not_lt_zero _)
      ChBody := fun _ h => absurd h (Nat.not_lt_zero _)
      SnBody := fun _ _ h => absurd h (Nat.not_lt_zero _)
      EnBody := fun _ h => absurd h (Nat.not_lt_zero _) }
  | n + 1 =>
    have hr := mkRec_inv n
    { S := fun ph tok h hns st hi hp => T_runProcess_S hr ph tok (Nat.le_of_lt_succ h) hns st hi hp
      E := fun ph tok h hns st hi hp hce => T_runProcess_E hr ph tok (Nat.le_of_lt_succ h) hns st hi hp hce
      Ch := fun ph tok h hns st hi hp => T_runProcess_plain hr ph _ tok (needCh ph) (by simp)
        (graphPlain ph (Phase.mem_all ph)).2.2.1 (Nat.le_of_lt_succ h) hns st hi hp
      Sp := fun ph tok h hns st hi hp => T_runProcess_plain hr ph _ tok (needSp ph) (by simp)
        (graphPlain ph (Phase.mem_all ph)).2.2.2.1 (Nat.le_of_lt_succ h) hns st hi hp
      Cm := fun ph tok h hns st hi hp => T_runProcess_plain hr ph _ tok (needCm ph) (by simp)
        (graphPlain ph (Phase.mem_all ph)).2.2.2.2.1 (Nat.le_of_lt_succ h) hns st hi hp
      D := fun ph tok h hns st hi hp => T_runProcess_plain hr ph _ tok 0 (by simp)
        (graphPlain ph (Phase.mem_all ph)).2.2.2.2.2.1 (Nat.zero_le _) hns st hi hp
      EOF := fun ph h st hi hp => T_runProcessEOF hr ph (Nat.le_of_lt_succ h) st hi hp
      SheadLeaf := fun tok hnm h hns st hi hp => T_runProcess_SheadLeaf hr tok hnm (Nat.le_of_lt_succ h) hns st hi hp
      SfromHead := fun tok hnm h hns st old hd hfh => T_runProcess_SfromHead hr tok hnm hns st old hd hfh
      Shtml := fun tok hnm h hns st hi => T_runProcess_Shtml hr tok hnm (Nat.le_of_lt_succ h) hns st hi
      CmHead := fun tok h hns st hi => T_runProcess_CmHead hr tok (Nat.le_of_lt_succ h) hns st hi
      SpHead := fun tok h hns st hi => T_runProcess_SpHead hr tok (Nat.le_of_lt_succ h) hns st hi
      EnCur := fun ph tok himp h hns st hi hn hph =>
        T_runProcess_EnCur hr ph tok himp (Nat.le_of_lt_succ h) hns st hi hn hph
      EnTable := fun tok himp h hns => T_runProcess_EnTable hr tok himp (Nat.le_of_lt_succ h) hns
      ChBody := fun tok _ st hs => T_runProcess_ChBody _ tok st hs
      SnBody := fun tok hl h hns => Pn_runProcess_SnBody hr tok hl (Nat.le_of_lt_succ h) hns
      EnBody := fun tok h hns hpn => Pn_runProcess_EnBody hr tok (Nat.le_of_lt_succ h) hns hpn }

end H5.Props.C03c
