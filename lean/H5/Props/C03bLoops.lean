/-
  C03 fuel part, level 1 — the fuelled helper loops of the tree-construction model never exhaust the fuel
  that the model passes:

    generateImpliedEndTagsAux   (fuel  len(openElements) + 2,  needs len + 1)
    reconstructLoop             (fuel  len(afe) + 1,           needs len(afe) - i + 1)
    popUntilLoop / popWhileLoop (fuel  len(openElements) + 1)
    InForeignContent_popTo      (fuel  len(openElements) + 1)
    InForeignContent_processEndTag_loop (fuel 2·len + 2, needs nodeIndex + len + 2)

  Each `*_tr` lemma is the loop invariant (fuel bound in terms of the current state); the `*_fuel` theorems are
  the statements "with the fuel the model passes, `outOfFuel` is not returned".
-/
import H5.Props.C03bPrim
set_option linter.unusedSimpArgs false
set_option linter.unusedVariables false
namespace H5.Props.C03b
open H5 H5.Model H5.Model.TB H5.Model.Dom
open H5.Props.C02c (NF Post Post_bind Post_mono Post_pure Post_ok Post_error Post_throw Post_ite
  NF_typeError NF_keyError NF_indexError NF_assertFail NF_valueError NF_lookupError)

/-! ### exact evaluation of the stack primitives -/

theorem Tr_openElems (st : PState) (Q : List NodeId → PState → Prop) :
    Tr openElems st Q ↔ Q st.openElements st := Iff.rfl
theorem Tr_afe (st : PState) (Q : List (Option NodeId) → PState → Prop) :
    Tr afe st Q ↔ Q st.activeFormattingElements st := Iff.rfl
theorem Tr_getPhase (st : PState) (Q : Option Phase → PState → Prop) :
    Tr getPhase st Q ↔ Q st.phase st := Iff.rfl
theorem Tr_getCfg (st : PState) (Q : Cfg → PState → Prop) : Tr getCfg st Q ↔ Q st.cfg st := Iff.rfl
theorem Tr_setOpen (l) (st : PState) (Q : PUnit → PState → Prop) :
    Tr (setOpen l) st Q ↔ Q ⟨⟩ { st with openElements := l } := Iff.rfl
theorem Tr_setAfe (l) (st : PState) (Q : PUnit → PState → Prop) :
    Tr (setAfe l) st Q ↔ Q ⟨⟩ { st with activeFormattingElements := l } := Iff.rfl
theorem Tr_setPhase (p) (st : PState) (Q : PUnit → PState → Prop) :
    Tr (setPhase p) st Q ↔ Q ⟨⟩ { st with phase := some p } := Iff.rfl
theorem Tr_setPhaseO (p) (st : PState) (Q : PUnit → PState → Prop) :
    Tr (setPhaseO p) st Q ↔ Q ⟨⟩ { st with phase := p } := Iff.rfl

theorem Tr_openLast (site) (st : PState) (Q : NodeId → PState → Prop) :
    Tr (openLast site) st Q ↔ ∀ x, st.openElements.getLast? = some x → Q x st := by
  unfold openLast
  simp only [Tr_bind, Tr_openElems]
  split
  · rename_i x h; simp [h, Tr_pure]
  · rename_i h; simp [h, Tr_throw, NF_indexError]

theorem Tr_openPop (site) (st : PState) (Q : NodeId → PState → Prop) :
    Tr (openPop site) st Q ↔
      ∀ x, st.openElements.getLast? = some x → Q x { st with openElements := st.openElements.dropLast } := by
  unfold openPop
  simp only [Tr_bind, Tr_openElems]
  split
  · rename_i x h; simp [h, Tr_pure, Tr_bind, Tr_map, Tr_setOpen]
  · rename_i h; simp [h, Tr_throw, NF_indexError]

theorem Tr_curPhase (site) (st : PState) (Q : Phase → PState → Prop) :
    Tr (curPhase site) st Q ↔ ∀ p, st.phase = some p → Q p st := by
  unfold curPhase
  simp only [Tr_bind, Tr_getPhase]
  split
  · rename_i x h; simp [h, Tr_pure]
  · rename_i h; simp [h, Tr_throw, NF_attributeError]

/-- use of a read-only specification inside a `Tr` derivation -/
theorem Tr_RO_bind {α β : Type} (m : M α) [h : RO m] (f : α → M β) (st : PState) (Q : β → PState → Prop)
    (hf : ∀ a, Tr (f a) st Q) : Tr (m >>= f) st Q :=
  (Tr_bind ..).2 (Tr_mono (h.out st) (fun a st' e => by subst e; exact hf a))

theorem Tr_RO {α : Type} (m : M α) [h : RO m] (st : PState) (Q : α → PState → Prop)
    (hf : ∀ a, Q a st) : Tr m st Q :=
  Tr_mono (h.out st) (fun a st' e => by subst e; exact hf a)

theorem getLast?_length_pos {α : Type} {l : List α} {x : α} (h : l.getLast? = some x) : 0 < l.length := by
  cases l with
  | nil => simp at h
  | cons a r => simp

/-! ### `generateImpliedEndTags` -/

/-- the effect of a pop loop: the phase registers, the arena, … are untouched, a proper or improper prefix of the
stack remains -/
def Popped (st st' : PState) : Prop :=
  ∃ k, k ≤ st.openElements.length ∧ st' = { st with openElements := st.openElements.take k }

theorem Popped.refl (st : PState) : Popped st st := ⟨st.openElements.length, Nat.le_refl _, by simp⟩

theorem Popped.F {st st' : PState} (h : Popped st st') : F st' = F st := by
  obtain ⟨k, _, rfl⟩ := h; rfl

theorem Popped.length_le {st st' : PState} (h : Popped st st') :
    st'.openElements.length ≤ st.openElements.length := by
  obtain ⟨k, hk, rfl⟩ := h; simp; omega

theorem Popped.trans {a b c : PState} (h1 : Popped a b) (h2 : Popped b c) : Popped a c := by
  obtain ⟨k, hk, rfl⟩ := h1
  obtain ⟨j, hj, rfl⟩ := h2
  refine ⟨min j k, ?_, ?_⟩
  · simp at hj ⊢; omega
  · simp [List.take_take]

theorem Popped.dropLast (st : PState) : Popped st { st with openElements := st.openElements.dropLast } :=
  ⟨st.openElements.length - 1, by omega, by simp [List.dropLast_eq_take]⟩

theorem generateImpliedEndTagsAux_tr (exclude : Option Str) :
    ∀ fuel st, st.openElements.length + 1 ≤ fuel →
      Tr (generateImpliedEndTagsAux exclude fuel) st (fun _ st' => Popped st st') := by
  intro fuel
  induction fuel with
  | zero => intro st h; omega
  | succ fuel ih =>
    intro st h
    unfold generateImpliedEndTagsAux
    simp only [Tr_bind, Tr_openLast]
    intro x hx
    apply Tr_RO
    intro name
    split
    · simp only [Tr_bind, Tr_openPop]
      intro y hy
      have hpos := getLast?_length_pos hy
      refine Tr_mono (ih _ ?_) ?_
      · simp; omega
      · intro _ st' hp; exact (Popped.dropLast st).trans hp
    · exact Popped.refl st

theorem generateImpliedEndTags_tr (exclude : Option Str) (st : PState) :
    Tr (generateImpliedEndTags exclude) st (fun _ st' => Popped st st') := by
  unfold generateImpliedEndTags
  simp only [Tr_bind, Tr_openElems]
  exact generateImpliedEndTagsAux_tr exclude _ st (by omega)

instance Fr_generateImpliedEndTags (exclude) : Fr (generateImpliedEndTags exclude) :=
  ⟨fun st => Tr_mono (generateImpliedEndTags_tr exclude st) (fun _ _ h => h.F)⟩

/-- **level 1**: `generateImpliedEndTags` never exhausts its fuel `len(openElements) + 2` -/
theorem generateImpliedEndTags_fuel (exclude : Option Str) (st : PState) (site : String) :
    (generateImpliedEndTags exclude).run st ≠ .error (.outOfFuel site) :=
  Tr_run (generateImpliedEndTags_tr exclude st) site

/-! ### `popUntil` / `popWhile` -/

theorem popUntilLoop_tr (pred : NodeId → M Bool) [hp : ∀ n, RO (pred n)] (site : String) :
    ∀ fuel st, st.openElements.length + 1 ≤ fuel →
      Tr (popUntilLoop pred site fuel) st
        (fun _ st' => Popped st st' ∧ st'.openElements.length < st.openElements.length) := by
  intro fuel
  induction fuel with
  | zero => intro st h; omega
  | succ fuel ih =>
    intro st h
    unfold popUntilLoop
    simp only [Tr_bind, Tr_openPop]
    intro x hx
    have hpos := getLast?_length_pos hx
    apply Tr_RO
    intro b
    split
    · simp only [Tr_pure]
      exact ⟨Popped.dropLast st, by simp; omega⟩
    · refine Tr_mono (ih _ ?_) ?_
      · simp; omega
      · intro _ st' ⟨hp, hl⟩
        exact ⟨(Popped.dropLast st).trans hp, by simp at hl; omega⟩

theorem popUntil_tr (pred : NodeId → M Bool) [hp : ∀ n, RO (pred n)] (site : String) (st : PState) :
    Tr (popUntil pred site) st
      (fun _ st' => Popped st st' ∧ st'.openElements.length < st.openElements.length) := by
  unfold popUntil
  simp only [Tr_bind, Tr_openElems]
  exact popUntilLoop_tr pred site _ st (by omega)

instance Fr_popUntil (pred : NodeId → M Bool) [hp : ∀ n, RO (pred n)] (site) : Fr (popUntil pred site) :=
  ⟨fun st => Tr_mono (popUntil_tr pred site st) (fun _ _ h => h.1.F)⟩

/-- **level 1**: `popUntil` (fuel `len + 1`) with a read-only test never runs out of fuel -/
theorem popUntil_fuel (pred : NodeId → M Bool) [hp : ∀ n, RO (pred n)] (site : String) (st : PState) (s : String) :
    (popUntil pred site).run st ≠ .error (.outOfFuel s) :=
  Tr_run (popUntil_tr pred site st) s

/-- what the `each` callback of `popWhile` may do: anything that keeps the stack and the phase registers -/
class KeepsOpen {α : Type} (m : M α) : Prop where
  out : ∀ st, Tr m st (fun _ st' => st'.openElements = st.openElements ∧ F st' = F st)

instance KeepsOpen_pure {α : Type} (a : α) : KeepsOpen (pure a : M α) := ⟨fun _ => ⟨rfl, rfl⟩⟩
instance KeepsOpen_of_RO {α : Type} (m : M α) [h : RO m] : KeepsOpen m :=
  ⟨fun st => Tr_mono (h.out st) (fun _ _ e => by subst e; exact ⟨rfl, rfl⟩)⟩
instance KeepsOpen_bind {α β : Type} (m : M α) (f : α → M β) [h1 : KeepsOpen m] [h2 : ∀ a, KeepsOpen (f a)] :
    KeepsOpen (m >>= f) :=
  ⟨fun st => (Tr_bind ..).2 (Tr_mono (h1.out st)
    (fun a st' e => Tr_mono ((h2 a).out st') (fun _ _ e' => ⟨e'.1.trans e.1, e'.2.trans e.2⟩)))⟩
theorem KeepsOpen_modify (f : PState → PState) (h : ∀ st, (f st).openElements = st.openElements ∧ F (f st) = F st) :
    KeepsOpen (modify f : M PUnit) := ⟨fun st => h st⟩
instance KeepsOpen_parseError (c v) : KeepsOpen (parseError c v) := by
  unfold parseError
  haveI := KeepsOpen_modify (fun st => { st with errors := st.errors.push (lit c, v.map fun p => (lit p.1, p.2)) })
    (fun _ => ⟨rfl, rfl⟩)
  infer_instance

theorem popWhileLoop_tr (cond : NodeId → M Bool) [hc : ∀ n, RO (cond n)] (each : NodeId → M Unit)
    [he : ∀ n, KeepsOpen (each n)] (site : String) :
    ∀ fuel st, st.openElements.length + 1 ≤ fuel →
      Tr (popWhileLoop cond each site fuel) st
        (fun _ st' => F st' = F st ∧ st'.openElements.length ≤ st.openElements.length) := by
  intro fuel
  induction fuel with
  | zero => intro st h; omega
  | succ fuel ih =>
    intro st h
    unfold popWhileLoop
    simp only [Tr_bind, Tr_openLast]
    intro x hx
    apply Tr_RO
    intro b
    split
    · simp only [Tr_bind]
      refine Tr_mono ((he x).out st) ?_
      intro _ st1 ⟨ho, hf⟩
      simp only [Tr_openPop]
      intro y hy
      have hpos := getLast?_length_pos hy
      have hlen : st1.openElements.length = st.openElements.length := by rw [ho]
      refine Tr_mono (ih _ ?_) ?_
      · simp; omega
      · intro _ st' ⟨hf', hl⟩
        refine ⟨hf'.trans hf, ?_⟩
        simp at hl; omega
    · exact ⟨rfl, Nat.le_refl _⟩

theorem popWhile_tr (cond : NodeId → M Bool) [hc : ∀ n, RO (cond n)] (site : String) (each : NodeId → M Unit)
    [he : ∀ n, KeepsOpen (each n)] (st : PState) :
    Tr (popWhile cond site each) st
      (fun _ st' => F st' = F st ∧ st'.openElements.length ≤ st.openElements.length) := by
  unfold popWhile
  simp only [Tr_bind, Tr_openElems]
  exact popWhileLoop_tr cond each site _ st (by omega)

instance Fr_popWhile (cond : NodeId → M Bool) [hc : ∀ n, RO (cond n)] (site : String) (each : NodeId → M Unit)
    [he : ∀ n, KeepsOpen (each n)] : Fr (popWhile cond site each) :=
  ⟨fun st => Tr_mono (popWhile_tr cond site each st) (fun _ _ h => h.1)⟩

/-- **level 1**: `popWhile` (fuel `len + 1`) never runs out of fuel -/
theorem popWhile_fuel (cond : NodeId → M Bool) [hc : ∀ n, RO (cond n)] (site : String) (each : NodeId → M Unit)
    [he : ∀ n, KeepsOpen (each n)] (st : PState) (s : String) :
    (popWhile cond site each).run st ≠ .error (.outOfFuel s) :=
  Tr_run (popWhile_tr cond site each st) s

/-! ### the pop loop of `InForeignContentPhase.processEndTag` -/

theorem InForeignContent_popTo_tr (node : NodeId) :
    ∀ fuel st, st.openElements.length + 1 ≤ fuel →
      Tr (InForeignContent_popTo node fuel) st
        (fun _ st' => Popped st st' ∧ st'.openElements.length < st.openElements.length) := by
  intro fuel
  induction fuel with
  | zero => intro st h; omega
  | succ fuel ih =>
    intro st h
    unfold InForeignContent_popTo
    simp only [Tr_bind, Tr_openPop]
    intro x hx
    have hpos := getLast?_length_pos hx
    split
    · simp only [Tr_bind, Tr_openElems]
      apply Tr_RO
      intro _
      refine Tr_mono (ih _ ?_) ?_
      · simp; omega
      · intro _ st' ⟨hp, hl⟩
        exact ⟨(Popped.dropLast st).trans hp, by simp at hl; omega⟩
    · simp only [Tr_pure]
      exact ⟨Popped.dropLast st, by simp; omega⟩

end H5.Props.C03b
