/-
  Property C09 — the sanitizer's output contains only allow-listed elements/attributes, no comments,
  no URI-valued attribute whose browser-resolved scheme is outside the allowed protocols, and disallowed
  tags survive only as inert text; `sanitize_css` never returns `url\s*(` in any case (`C09_css_no_url`) and a kept `xlink:href` of
  an `svg_allow_local_href` element is a local reference (`C09_svg_local_href`) — both since the library fixes
  COMMIT_B / COMMIT_A.  All theorems are for EVERY token list and EVERY `Lists` configuration.

  Model: H5.Model.Sanitizer (hand model, tied by ops san / san:css / san:uri / san:scheme / re:*);
  browser side: H5.Spec.Url.browserScheme (URL standard).
-/
import H5.Model.Sanitizer
import H5.Spec.Url
import H5.Proofs.ExceptLemmas
import H5.Proofs.SanCss
namespace H5.Props.C09
set_option linter.unusedSimpArgs false
open H5 H5.Model.Sanitizer H5.Model.Regex

/-! ### traversal lemmas -/

theorem filterE_mem {α} (f : α → Except PyErr Bool) (l l' : List α) (h : filterE f l = .ok l') (a : α) (ha : a ∈ l') :
    a ∈ l ∧ f a = .ok true := by
  induction l generalizing l' with
  | nil => simp [filterE] at h; subst h; simp at ha
  | cons x r ih =>
    simp only [filterE, bind, Except.bind] at h
    cases hx : f x with
    | error e => simp [hx] at h
    | ok b =>
      simp only [hx] at h
      cases hr : filterE f r with
      | error e => simp [hr] at h
      | ok r' =>
        simp only [hr, pure, Except.pure, Except.ok.injEq] at h
        subst h
        cases b with
        | false =>
          simp only [Bool.false_eq_true, if_false] at ha
          have := ih r' hr ha
          exact ⟨List.mem_cons_of_mem _ this.1, this.2⟩
        | true =>
          simp only [if_true, List.mem_cons] at ha
          rcases ha with rfl | ha
          · exact ⟨List.mem_cons_self, hx⟩
          · have := ih r' hr ha
            exact ⟨List.mem_cons_of_mem _ this.1, this.2⟩

theorem mapE_mem {α β} (f : α → Except PyErr β) (l : List α) (l' : List β) (h : mapE f l = .ok l') (b : β) (hb : b ∈ l') :
    ∃ a ∈ l, f a = .ok b := by
  induction l generalizing l' with
  | nil => simp [mapE] at h; subst h; simp at hb
  | cons x r ih =>
    simp only [mapE, bind, Except.bind] at h
    cases hx : f x with
    | error e => simp [hx] at h
    | ok y =>
      simp only [hx] at h
      cases hr : mapE f r with
      | error e => simp [hr] at h
      | ok r' =>
        simp only [hr, pure, Except.pure, Except.ok.injEq] at h
        subst h
        simp only [List.mem_cons] at hb
        rcases hb with rfl | hb
        · exact ⟨x, List.mem_cons_self, hx⟩
        · obtain ⟨a, ha, hfa⟩ := ih r' hr hb
          exact ⟨a, List.mem_cons_of_mem _ ha, hfa⟩


/-! ### `allowed_token`: what can be said about a kept attribute -/

theorem stepSvgRef_key (L : Lists) (a b : Attr)
    (h : (if L.svgAttrValAllowsRef.elem (akey a) then (do
            let v ← sub cl H5.Gen.San.reSvgUrl [32] (unescape a.value)
            pure { a with value := v } : Except PyErr Attr) else pure a) = .ok b) :
    akey b = akey a ∧ (L.svgAttrValAllowsRef.elem (akey a) = false → b = a) := by
  split at h
  · rename_i hk
    simp only [bind, Except.bind] at h
    cases hs : sub cl H5.Gen.San.reSvgUrl [32] (unescape a.value) with
    | error e => simp [hs] at h
    | ok v =>
      simp only [hs, pure, Except.pure, Except.ok.injEq] at h
      subst h
      exact ⟨rfl, fun hf => by rw [hk] at hf; exact absurd hf (by decide)⟩
  · simp only [pure, Except.pure, Except.ok.injEq] at h
    subst h
    exact ⟨rfl, fun _ => rfl⟩

theorem stepStyle_key (L : Lists) (a b : Attr)
    (h : (if akey a = styleKey then (do
            let v ← sanitizeCss L a.value
            pure { a with value := v } : Except PyErr Attr) else pure a) = .ok b) :
    akey b = akey a ∧ (akey a ≠ styleKey → b = a) := by
  split at h
  · rename_i hk
    simp only [bind, Except.bind] at h
    cases hs : sanitizeCss L a.value with
    | error e => simp [hs] at h
    | ok v =>
      simp only [hs, pure, Except.pure, Except.ok.injEq] at h
      subst h
      exact ⟨rfl, fun hf => absurd hk hf⟩
  · simp only [pure, Except.pure, Except.ok.injEq] at h
    subst h
    exact ⟨rfl, fun _ => rfl⟩

/-- the `svg_allow_local_href` rule only ever deletes attributes -/
theorem stepLocalHref_mem (L : Lists) (name : Str) (attrs out : List Attr) (h : stepLocalHref L name attrs = .ok out) :
    ∀ b ∈ out, b ∈ attrs := by
  unfold stepLocalHref at h
  split at h
  · split at h
    · simp only [bind_eq_ok, pure, Except.pure, Except.ok.injEq] at h
      obtain ⟨m, _, rfl⟩ := h
      intro b hb
      split at hb
      · exact (List.mem_filter.1 hb).1
      · exact hb
    · simp only [pure, Except.pure, Except.ok.injEq] at h
      subst h; exact fun b hb => hb
  · simp only [pure, Except.pure, Except.ok.injEq] at h
    subst h; exact fun b hb => hb

/-- every attribute of an allowed token's output stems from an input attribute with the same key that is on
`allowedAttributes`, passed the URI check if it is URI-valued, and is unchanged unless it is a `style`
attribute or on `svgAttrValAllowsRef`. -/
theorem allowedAttrs_mem (L : Lists) (name : Str) (attrs out : List Attr)
    (h : allowedAttrs L name attrs = .ok out) (b : Attr) (hb : b ∈ out) :
    ∃ a ∈ attrs, akey a = akey b ∧ L.allowedAttributes.elem (akey a) = true ∧
      (L.attrValIsUri.elem (akey a) = true → uriKeep L a.value = .ok true) ∧
      (L.svgAttrValAllowsRef.elem (akey a) = false → akey a ≠ styleKey → b = a) := by
  simp only [allowedAttrs, bind_eq_ok] at h
  obtain ⟨l1, h1, l2, h2, l3, h3, h4⟩ := h
  obtain ⟨a3, ha3, hf3⟩ := mapE_mem _ _ _ h4 b hb
  obtain ⟨k3, u3⟩ := stepStyle_key L a3 b hf3
  have ha3 : a3 ∈ l2 := stepLocalHref_mem L name l2 l3 h3 a3 ha3
  obtain ⟨a2, ha2, hf2⟩ := mapE_mem _ _ _ h2 a3 ha3
  obtain ⟨k2, u2⟩ := stepSvgRef_key L a2 a3 hf2
  obtain ⟨ha1, hf1⟩ := filterE_mem _ _ _ h1 a2 ha2
  simp only [stepAllowed, List.mem_filter] at ha1
  refine ⟨a2, ha1.1, by rw [k3, k2], ha1.2, ?_, ?_⟩
  · intro hu
    rw [if_pos hu] at hf1
    exact hf1
  · intro hr hs
    have e32 : a3 = a2 := u2 hr
    have : akey a3 ≠ styleKey := by rw [e32]; exact hs
    rw [u3 this, e32]

/-! #### the `svg_allow_local_href` rule (fires since fix COMMIT_A) -/

/-- what the rule leaves: if the element name is on the list, the `xlink:href` entry of the attribute dict (if
any) has a value on which `re.search(r'^\s*[^#\s].*', v)` found nothing, i.e. `localRef` -/
theorem stepLocalHref_spec (L : Lists) (name : Str) (attrs out : List Attr) (h : stepLocalHref L name attrs = .ok out)
    (hn : nameInKeys name L.svgAllowLocalHref = true) (a : Attr)
    (ha : out.find? (fun a => akey a = xlinkHref) = some a) : localRef a.value = true := by
  unfold stepLocalHref at h
  rw [if_pos hn] at h
  split at h
  next a0 hfind =>
    simp only [bind_eq_ok, pure, Except.pure, Except.ok.injEq] at h
    obtain ⟨m, hm, rfl⟩ := h
    cases m with
    | some m =>
      simp only [Option.isSome_some, if_true] at ha
      have hp := List.find?_some ha
      have hmem := List.mem_of_find?_eq_some ha
      simp only [List.mem_filter, decide_eq_true_eq] at hmem hp
      exact absurd hp hmem.2
    | none =>
      simp only [Option.isSome_none, Bool.false_eq_true, if_false] at ha
      rw [hfind] at ha
      cases ha
      exact localHref_search_none _ hm
  next hfind =>
    simp only [pure, Except.pure, Except.ok.injEq] at h
    subst h
    rw [hfind] at ha
    cases ha

theorem mapE_find {f : Attr → Except PyErr Attr} (k : Key) (l l' : List Attr) (h : mapE f l = .ok l')
    (hf : ∀ a b, f a = .ok b → akey b = akey a ∧ (akey a = k → b = a)) :
    l'.find? (fun a => akey a = k) = l.find? (fun a => akey a = k) := by
  induction l generalizing l' with
  | nil => simp [mapE, pure, Except.pure] at h; subst h; rfl
  | cons x r ih =>
    simp only [mapE, bind_eq_ok, pure, Except.pure, Except.ok.injEq] at h
    obtain ⟨y, hy, r', hr, rfl⟩ := h
    obtain ⟨hk, hsame⟩ := hf x y hy
    simp only [List.find?_cons, hk]
    by_cases hx : akey x = k
    · simp [hx, hsame hx]
    · simp [hx, ih r' hr]

theorem xlinkHref_ne_style : xlinkHref ≠ styleKey := by
  simp [xlinkHref, styleKey]

theorem allowedAttrs_localHref (L : Lists) (name : Str) (attrs out : List Attr)
    (h : allowedAttrs L name attrs = .ok out) (hn : nameInKeys name L.svgAllowLocalHref = true) (a : Attr)
    (ha : out.find? (fun a => akey a = xlinkHref) = some a) : localRef a.value = true := by
  simp only [allowedAttrs, bind_eq_ok] at h
  obtain ⟨l1, _, l2, _, l3, h3, h4⟩ := h
  have := mapE_find xlinkHref l3 out h4 (by
    intro x y hxy
    obtain ⟨k, u⟩ := stepStyle_key L x y hxy
    exact ⟨k, fun e => u (by rw [e]; exact xlinkHref_ne_style)⟩)
  rw [this] at ha
  exact stepLocalHref_spec L name l2 l3 h3 hn a ha

/-! #### attribute dicts: distinct keys stay distinct (used by `C09_svg_local_href_all`) -/

theorem filterE_sublist {α} (f : α → Except PyErr Bool) (l l' : List α) (h : filterE f l = .ok l') : l'.Sublist l := by
  induction l generalizing l' with
  | nil => simp [filterE, pure, Except.pure] at h; subst h; exact List.Sublist.refl _
  | cons x r ih =>
    simp only [filterE, bind_eq_ok, pure, Except.pure, Except.ok.injEq] at h
    obtain ⟨b, _, r', hr, rfl⟩ := h
    cases b with
    | false => exact (ih r' hr).cons x
    | true => exact (ih r' hr).cons_cons x

theorem mapE_keys {f : Attr → Except PyErr Attr} (l l' : List Attr) (h : mapE f l = .ok l')
    (hf : ∀ a b, f a = .ok b → akey b = akey a) : l'.map akey = l.map akey := by
  induction l generalizing l' with
  | nil => simp [mapE, pure, Except.pure] at h; subst h; rfl
  | cons x r ih =>
    simp only [mapE, bind_eq_ok, pure, Except.pure, Except.ok.injEq] at h
    obtain ⟨y, hy, r', hr, rfl⟩ := h
    simp [hf x y hy, ih r' hr]

theorem stepLocalHref_sublist (L : Lists) (name : Str) (attrs out : List Attr) (h : stepLocalHref L name attrs = .ok out) :
    out.Sublist attrs := by
  unfold stepLocalHref at h
  split at h
  · split at h
    · simp only [bind_eq_ok, pure, Except.pure, Except.ok.injEq] at h
      obtain ⟨m, _, rfl⟩ := h
      split
      · exact List.filter_sublist
      · exact List.Sublist.refl _
    · simp only [pure, Except.pure, Except.ok.injEq] at h
      subst h; exact List.Sublist.refl _
  · simp only [pure, Except.pure, Except.ok.injEq] at h
    subst h; exact List.Sublist.refl _

/-- `allowed_token` only deletes entries of the attribute dict and rewrites values: the keys of the result are a
sub-sequence of the keys of the input -/
theorem allowedAttrs_keys (L : Lists) (name : Str) (attrs out : List Attr) (h : allowedAttrs L name attrs = .ok out) :
    (out.map akey).Sublist (attrs.map akey) := by
  simp only [allowedAttrs, bind_eq_ok] at h
  obtain ⟨l1, h1, l2, h2, l3, h3, h4⟩ := h
  have e4 := mapE_keys l3 out h4 (fun a b hab => (stepStyle_key L a b hab).1)
  have e2 := mapE_keys l1 l2 h2 (fun a b hab => (stepSvgRef_key L a b hab).1)
  have s3 := (stepLocalHref_sublist L name l2 l3 h3).map akey
  have s1 := ((filterE_sublist _ _ _ h1).trans (List.filter_sublist (l := attrs))).map akey
  rw [e4]
  rw [e2] at s3
  exact s3.trans s1

theorem find_of_nodup (k : Key) (l : List Attr) (hnd : (l.map akey).Nodup) (a : Attr) (ha : a ∈ l) (hk : akey a = k) :
    l.find? (fun a => akey a = k) = some a := by
  induction l with
  | nil => simp at ha
  | cons x r ih =>
    simp only [List.map_cons, List.nodup_cons] at hnd
    simp only [List.mem_cons] at ha
    rcases ha with rfl | ha
    · simp [List.find?_cons, hk]
    · have hx : akey x ≠ k := by
        intro e
        exact hnd.1 (by rw [e, ← hk]; exact List.mem_map_of_mem ha)
      simp only [List.find?_cons, hx, decide_false]
      exact ih hnd.2 ha

/-! ### tokens -/

def tagKey : Tok → Option Key
  | .startTag ns n _ | .endTag ns n | .emptyTag ns n _ => some (ns, n)
  | _ => none

def tokAttrs : Tok → List Attr
  | .startTag _ _ a | .emptyTag _ _ a => a
  | _ => []

def isComment : Tok → Bool
  | .comment _ => true
  | _ => false

/-- the element gate as a predicate on a token -/
def tagAllowed (L : Lists) (t : Tok) : Bool :=
  match tagKey t with
  | some (ns, n) => elementAllowed L ns n
  | none => false

theorem allowedToken_spec (L : Lists) (t t' : Tok) (h : allowedToken L t = .ok t') (ht : t.isTag = true) :
    t'.isTag = true ∧ tagKey t' = tagKey t ∧ t'.typeName = t.typeName ∧
    ∀ b ∈ tokAttrs t', ∃ a ∈ tokAttrs t, akey a = akey b ∧ L.allowedAttributes.elem (akey a) = true ∧
      (L.attrValIsUri.elem (akey a) = true → uriKeep L a.value = .ok true) ∧
      (L.svgAttrValAllowsRef.elem (akey a) = false → akey a ≠ styleKey → b = a) := by
  cases t with
  | startTag ns name attrs =>
    simp only [allowedToken, bind_eq_ok, pure, Except.pure, Except.ok.injEq] at h
    obtain ⟨out, ho, rfl⟩ := h
    exact ⟨rfl, rfl, rfl, fun b hb => allowedAttrs_mem L name attrs out ho b hb⟩
  | emptyTag ns name attrs =>
    simp only [allowedToken, bind_eq_ok, pure, Except.pure, Except.ok.injEq] at h
    obtain ⟨out, ho, rfl⟩ := h
    exact ⟨rfl, rfl, rfl, fun b hb => allowedAttrs_mem L name attrs out ho b hb⟩
  | endTag ns name =>
    simp only [allowedToken, Except.ok.injEq] at h
    subst h
    exact ⟨rfl, rfl, rfl, fun b hb => by simp [tokAttrs] at hb⟩
  | _ => simp [Tok.isTag] at ht

theorem closeSelf_head (sc : Bool) (xs : Str) : ∃ d, closeSelf sc (60 :: (xs ++ [62])) = 60 :: d := by
  cases sc with
  | false => exact ⟨xs ++ [62], rfl⟩
  | true =>
    refine ⟨xs ++ [47, 62], ?_⟩
    have : (60 :: (xs ++ [62])).dropLast = 60 :: xs := by
      rw [show 60 :: (xs ++ [62]) = (60 :: xs) ++ [62] from rfl, List.dropLast_concat]
    simp [closeSelf, this]

/-- `disallowed_token` yields one Characters token whose text starts with `<` -/
theorem disallowedToken_spec (sc : Bool) (t t' : Tok) (h : disallowedToken sc t = .ok t') :
    ∃ d, t' = .chars (60 :: d) := by
  cases t with
  | endTag ns name =>
    simp only [disallowedToken, Except.ok.injEq] at h
    obtain ⟨d, hd⟩ := closeSelf_head sc (47 :: name)
    exact ⟨d, by rw [← h]; simpa using hd⟩
  | startTag ns name attrs =>
    simp only [disallowedToken, bind_eq_ok, pure, Except.pure, Except.ok.injEq] at h
    obtain ⟨parts, _, rfl⟩ := h
    obtain ⟨d, hd⟩ := closeSelf_head sc (name ++ parts.flatten)
    exact ⟨d, by simpa using hd⟩
  | emptyTag ns name attrs =>
    simp only [disallowedToken, bind_eq_ok, pure, Except.pure, Except.ok.injEq] at h
    obtain ⟨parts, _, rfl⟩ := h
    obtain ⟨d, hd⟩ := closeSelf_head sc (name ++ parts.flatten)
    exact ⟨d, by simpa using hd⟩
  | _ => simp [disallowedToken] at h

/-- the four outcomes of `sanitize_token` -/
theorem sanitizeToken_cases (L : Lists) (sc : Bool) (t : Tok) (r : Option Tok) (h : sanitizeToken L sc t = .ok r) :
    (t.isTag = true ∧ tagAllowed L t = true ∧ ∃ t', r = some t' ∧ allowedToken L t = .ok t') ∨
    (t.isTag = true ∧ tagAllowed L t = false ∧ ∃ d, r = some (.chars (60 :: d))) ∨
    (isComment t = true ∧ r = none) ∨
    (t.isTag = false ∧ isComment t = false ∧ r = some t) := by
  have tag : ∀ ns name, tagKey t = some (ns, name) → t.isTag = true →
      (if elementAllowed L ns name then (allowedToken L t).map some else (disallowedToken sc t).map some) = .ok r →
      (t.isTag = true ∧ tagAllowed L t = true ∧ ∃ t', r = some t' ∧ allowedToken L t = .ok t') ∨
      (t.isTag = true ∧ tagAllowed L t = false ∧ ∃ d, r = some (.chars (60 :: d))) := by
    intro ns name hk ht h
    by_cases he : elementAllowed L ns name = true
    · rw [if_pos he] at h
      left
      cases ha : allowedToken L t with
      | error e => simp [ha, Except.map] at h
      | ok t' =>
        simp only [ha, Except.map, Except.ok.injEq] at h
        exact ⟨ht, by simp [tagAllowed, hk, he], t', h.symm, rfl⟩
    · rw [if_neg he] at h
      right
      cases hd : disallowedToken sc t with
      | error e => simp [hd, Except.map] at h
      | ok t' =>
        simp only [hd, Except.map, Except.ok.injEq] at h
        obtain ⟨d, rfl⟩ := disallowedToken_spec sc t t' hd
        exact ⟨ht, by simp [tagAllowed, hk, he], d, h.symm⟩
  cases t with
  | startTag ns name attrs =>
    rcases tag ns name rfl rfl h with x | x
    · exact Or.inl x
    · exact Or.inr (Or.inl x)
  | emptyTag ns name attrs =>
    rcases tag ns name rfl rfl h with x | x
    · exact Or.inl x
    · exact Or.inr (Or.inl x)
  | endTag ns name =>
    rcases tag ns name rfl rfl h with x | x
    · exact Or.inl x
    · exact Or.inr (Or.inl x)
  | comment s =>
    simp only [sanitizeToken, Except.ok.injEq] at h
    exact Or.inr (Or.inr (Or.inl ⟨rfl, h.symm⟩))
  | doctype n p s =>
    simp only [sanitizeToken, Except.ok.injEq] at h
    exact Or.inr (Or.inr (Or.inr ⟨rfl, rfl, h.symm⟩))
  | chars s =>
    simp only [sanitizeToken, Except.ok.injEq] at h
    exact Or.inr (Or.inr (Or.inr ⟨rfl, rfl, h.symm⟩))
  | space s =>
    simp only [sanitizeToken, Except.ok.injEq] at h
    exact Or.inr (Or.inr (Or.inr ⟨rfl, rfl, h.symm⟩))
  | entity s =>
    simp only [sanitizeToken, Except.ok.injEq] at h
    exact Or.inr (Or.inr (Or.inr ⟨rfl, rfl, h.symm⟩))
  | serr s =>
    simp only [sanitizeToken, Except.ok.injEq] at h
    exact Or.inr (Or.inr (Or.inr ⟨rfl, rfl, h.symm⟩))

/-- `Filter.__iter__` = `sanitize_token` on each token in order, `None` results dropped -/
theorem filterSC_spec (L : Lists) (ts : List (Tok × Bool)) (out : List Tok) :
    filterSC L ts = .ok out ↔
      ∃ rs, mapE (fun p => sanitizeToken L p.2 p.1) ts = .ok rs ∧ out = rs.filterMap id := by
  induction ts generalizing out with
  | nil => simp [filterSC, mapE, eq_comm]
  | cons p rest ih =>
    obtain ⟨t, sc⟩ := p
    simp only [filterSC, mapE, bind_eq_ok, pure, Except.pure, Except.ok.injEq]
    constructor
    · rintro ⟨r, hr, rs, hrs, rfl⟩
      obtain ⟨rs', hm, rfl⟩ := (ih rs).1 hrs
      refine ⟨r :: rs', ⟨r, hr, rs', hm, rfl⟩, ?_⟩
      cases r <;> simp
    · rintro ⟨rs, ⟨r, hr, rs', hm, rfl⟩, rfl⟩
      refine ⟨r, hr, rs'.filterMap id, (ih _).2 ⟨rs', hm, rfl⟩, ?_⟩
      cases r <;> simp

theorem filterSC_mem (L : Lists) (ts : List (Tok × Bool)) (out : List Tok) (h : filterSC L ts = .ok out)
    (t : Tok) (ht : t ∈ out) : ∃ p ∈ ts, sanitizeToken L p.2 p.1 = .ok (some t) := by
  obtain ⟨rs, hm, rfl⟩ := (filterSC_spec L ts out).1 h
  simp only [List.mem_filterMap, id] at ht
  obtain ⟨r, hr, rfl⟩ := ht
  obtain ⟨p, hp, hs⟩ := mapE_mem _ _ _ hm _ hr
  exact ⟨p, hp, hs⟩

/-! ### the allow-list clauses -/

/-- **C09 (elements).** every tag token of the output has an allowed `(namespace, name)`
(with the "namespace None counts as HTML" rule of `elementAllowed`). -/
theorem C09_elements (L : Lists) (ts : List (Tok × Bool)) (out : List Tok) (h : filterSC L ts = .ok out)
    (t : Tok) (ht : t ∈ out) (htag : t.isTag = true) : tagAllowed L t = true := by
  obtain ⟨p, _, hs⟩ := filterSC_mem L ts out h t ht
  rcases sanitizeToken_cases L p.2 p.1 _ hs with ⟨hti, ha, t', e, hat⟩ | ⟨_, _, d, e⟩ | ⟨_, e⟩ | ⟨hnt, _, e⟩
  · cases e
    obtain ⟨_, hk, _⟩ := allowedToken_spec L p.1 t hat hti
    simpa [tagAllowed, hk] using ha
  · cases e; simp [Tok.isTag] at htag
  · cases e
  · cases e; rw [hnt] at htag; cases htag

/-- **C09 (no comments).** -/
theorem C09_no_comments (L : Lists) (ts : List (Tok × Bool)) (out : List Tok) (h : filterSC L ts = .ok out)
    (t : Tok) (ht : t ∈ out) : isComment t = false := by
  obtain ⟨p, _, hs⟩ := filterSC_mem L ts out h t ht
  rcases sanitizeToken_cases L p.2 p.1 _ hs with ⟨hti, _, t', e, hat⟩ | ⟨_, _, d, e⟩ | ⟨_, e⟩ | ⟨_, hc, e⟩
  · cases e
    obtain ⟨ht', _, _⟩ := allowedToken_spec L p.1 t hat hti
    cases t <;> simp_all [Tok.isTag, isComment]
  · cases e; rfl
  · cases e
  · cases e; exact hc

/-- **C09 (attributes).** every attribute key of an output tag is on `allowedAttributes`. -/
theorem C09_attrs (L : Lists) (ts : List (Tok × Bool)) (out : List Tok) (h : filterSC L ts = .ok out)
    (t : Tok) (ht : t ∈ out) (b : Attr) (hb : b ∈ tokAttrs t) : akey b ∈ L.allowedAttributes := by
  obtain ⟨p, _, hs⟩ := filterSC_mem L ts out h t ht
  rcases sanitizeToken_cases L p.2 p.1 _ hs with ⟨hti, _, t', e, hat⟩ | ⟨_, _, d, e⟩ | ⟨_, e⟩ | ⟨hnt, _, e⟩
  · cases e
    obtain ⟨_, _, _, hattrs⟩ := allowedToken_spec L p.1 t hat hti
    obtain ⟨a, _, hk, hal, _⟩ := hattrs b hb
    rw [← hk]
    exact List.mem_of_elem_eq_true hal
  · cases e; simp [tokAttrs] at hb
  · cases e
  · cases e
    cases hp : p.1 <;> simp_all [Tok.isTag, tokAttrs]

/-- **C09 (inert).** a disallowed tag becomes exactly one `Characters` token whose data starts with `<`;
an allowed tag stays a tag of the same type, namespace and name; a comment is dropped; every other token
passes unchanged.  (`filterSC_spec`: the output is these per-token results in order.) -/
theorem C09_inert (L : Lists) (sc : Bool) (t : Tok) (r : Option Tok) (h : sanitizeToken L sc t = .ok r) :
    (t.isTag = true → tagAllowed L t = false → ∃ d, r = some (.chars (60 :: d))) ∧
    (t.isTag = true → tagAllowed L t = true →
      ∃ t', r = some t' ∧ t'.typeName = t.typeName ∧ tagKey t' = tagKey t) ∧
    (isComment t = true → r = none) ∧
    (t.isTag = false → isComment t = false → r = some t) := by
  have excl : t.isTag = true → isComment t = true → False := by
    intro h1 h2; cases t <;> simp_all [Tok.isTag, isComment]
  rcases sanitizeToken_cases L sc t r h with ⟨hti, ha, t', e, hat⟩ | ⟨hti, ha, d, e⟩ | ⟨hc, e⟩ | ⟨hnt, hc, e⟩
  · obtain ⟨_, hk, hty, _⟩ := allowedToken_spec L t t' hat hti
    refine ⟨?_, ?_, ?_, ?_⟩
    · intro _ hf; rw [ha] at hf; cases hf
    · intro _ _; exact ⟨t', e, hty, hk⟩
    · intro hc; exact (excl hti hc).elim
    · intro hf; rw [hti] at hf; cases hf
  · refine ⟨?_, ?_, ?_, ?_⟩
    · intro _ _; exact ⟨d, e⟩
    · intro _ hf; rw [ha] at hf; cases hf
    · intro hc; exact (excl hti hc).elim
    · intro hf; rw [hti] at hf; cases hf
  · refine ⟨?_, ?_, ?_, ?_⟩
    · intro ht; exact (excl ht hc).elim
    · intro ht; exact (excl ht hc).elim
    · intro _; exact e
    · intro _ hf; rw [hc] at hf; cases hf
  · refine ⟨?_, ?_, ?_, ?_⟩
    · intro ht; rw [hnt] at ht; cases ht
    · intro ht; rw [hnt] at ht; cases ht
    · intro hf; rw [hc] at hf; cases hf
    · intro _ _; exact e


/-! ### the URI clause: what a browser resolves as the scheme is what the sanitizer checks -/

section Uri
open H5.Spec.Url

/-! #### spec side: shape of a value with a browser-visible scheme -/

theorem tabnl_le (c : Nat) (h : isTabOrNewline c = true) : c ≤ 32 := by
  simp [isTabOrNewline] at h; omega

theorem tabnl_not_scheme (c : Nat) (h : isTabOrNewline c = true) : isSchemeCp c = false := by
  simp [isTabOrNewline] at h
  rcases h with (rfl | rfl) | rfl <;> decide

theorem c0_not_scheme (c : Nat) (h : c ≤ 32) : isSchemeCp c = false := by
  simp [isSchemeCp, isAlpha]; omega

theorem alpha_scheme (c : Nat) (h : isAlpha c = true) : isSchemeCp c = true := by
  simp [isSchemeCp, h]

theorem stripTrailing_prefix (w : Str) : ∃ trail, w = stripTrailing w ++ trail := by
  induction w with
  | nil => exact ⟨[], rfl⟩
  | cons c r ih =>
    obtain ⟨tr, htr⟩ := ih
    simp only [stripTrailing]
    cases hs : stripTrailing r with
    | nil =>
      simp only
      split
      · exact ⟨c :: r, rfl⟩
      · exact ⟨r, rfl⟩
    | cons x xs =>
      refine ⟨tr, ?_⟩
      rw [hs] at htr
      simp only [List.cons_append]
      rw [← List.cons_append, ← htr]

theorem dropWhile_decomp (p : Nat → Bool) (l : Str) : ∃ lead, l = lead ++ l.dropWhile p ∧ ∀ c ∈ lead, p c = true := by
  induction l with
  | nil => exact ⟨[], rfl, by simp⟩
  | cons c r ih =>
    obtain ⟨lead, h1, h2⟩ := ih
    by_cases hc : p c = true
    · refine ⟨c :: lead, ?_, ?_⟩
      · simp only [List.dropWhile_cons, hc, if_true, List.cons_append]; rw [← h1]
      · intro x hx
        simp only [List.mem_cons] at hx
        rcases hx with rfl | hx
        · exact hc
        · exact h2 x hx
    · exact ⟨[], by simp [List.dropWhile_cons, hc], by simp⟩

def ntn (c : Nat) : Bool := !isTabOrNewline c

theorem schemeState_decomp (l s : Str) (h : schemeState (l.filter ntn) = some s) :
    ∃ pre tail, l = pre ++ 58 :: tail ∧ (∀ c ∈ pre, isTabOrNewline c = true ∨ isSchemeCp c = true) ∧
      s = (pre.filter isSchemeCp).map toLower := by
  induction l generalizing s with
  | nil => simp [schemeState] at h
  | cons c r ih =>
    by_cases ht : isTabOrNewline c = true
    · have hf : (c :: r).filter ntn = r.filter ntn := by simp [List.filter_cons, ntn, ht]
      rw [hf] at h
      obtain ⟨pre, tail, e, hp, hs⟩ := ih s h
      refine ⟨c :: pre, tail, by rw [e]; rfl, ?_, ?_⟩
      · intro x hx
        simp only [List.mem_cons] at hx
        rcases hx with rfl | hx
        · exact Or.inl ht
        · exact hp x hx
      · simp [List.filter_cons, tabnl_not_scheme c ht, hs]
    · have hf : (c :: r).filter ntn = c :: r.filter ntn := by simp [List.filter_cons, ntn, ht]
      rw [hf] at h
      simp only [schemeState] at h
      by_cases h58 : c = 58
      · subst h58
        simp only [if_true, Option.some.injEq] at h
        exact ⟨[], r, rfl, by simp, by simp [← h]⟩
      · rw [if_neg h58] at h
        by_cases hsc : isSchemeCp c = true
        · rw [if_pos hsc] at h
          cases hr : schemeState (r.filter ntn) with
          | none => simp [hr] at h
          | some s' =>
            simp only [hr, Option.map_some, Option.some.injEq] at h
            obtain ⟨pre, tail, e, hp, hs⟩ := ih s' hr
            refine ⟨c :: pre, tail, by rw [e]; rfl, ?_, ?_⟩
            · intro x hx
              simp only [List.mem_cons] at hx
              rcases hx with rfl | hx
              · exact Or.inr hsc
              · exact hp x hx
            · simp [List.filter_cons, hsc, ← h, hs]
        · rw [if_neg hsc] at h; cases h

theorem schemeStart_decomp (l s : Str) (h : schemeStart (l.filter ntn) = some s) :
    ∃ pre tail, l = pre ++ 58 :: tail ∧ (∀ c ∈ pre, isTabOrNewline c = true ∨ isSchemeCp c = true) ∧
      s = (pre.filter isSchemeCp).map toLower ∧ ∃ c0 r0, pre.filter isSchemeCp = c0 :: r0 ∧ isAlpha c0 = true := by
  induction l generalizing s with
  | nil => simp [schemeStart] at h
  | cons c r ih =>
    by_cases ht : isTabOrNewline c = true
    · have hf : (c :: r).filter ntn = r.filter ntn := by simp [List.filter_cons, ntn, ht]
      rw [hf] at h
      obtain ⟨pre, tail, e, hp, hs, c0, r0, hc0, ha0⟩ := ih s h
      refine ⟨c :: pre, tail, by rw [e]; rfl, ?_, ?_, c0, r0, ?_, ha0⟩
      · intro x hx
        simp only [List.mem_cons] at hx
        rcases hx with rfl | hx
        · exact Or.inl ht
        · exact hp x hx
      · simp [List.filter_cons, tabnl_not_scheme c ht, hs]
      · simp [List.filter_cons, tabnl_not_scheme c ht, hc0]
    · have hf : (c :: r).filter ntn = c :: r.filter ntn := by simp [List.filter_cons, ntn, ht]
      rw [hf] at h
      simp only [schemeStart] at h
      by_cases ha : isAlpha c = true
      · rw [if_pos ha] at h
        cases hr : schemeState (r.filter ntn) with
        | none => simp [hr] at h
        | some s' =>
          simp only [hr, Option.map_some, Option.some.injEq] at h
          obtain ⟨pre, tail, e, hp, hs⟩ := schemeState_decomp r s' hr
          have hsc := alpha_scheme c ha
          refine ⟨c :: pre, tail, by rw [e]; rfl, ?_, ?_, c, pre.filter isSchemeCp, ?_, ha⟩
          · intro x hx
            simp only [List.mem_cons] at hx
            rcases hx with rfl | hx
            · exact Or.inr hsc
            · exact hp x hx
          · simp [List.filter_cons, hsc, ← h, hs]
          · simp [List.filter_cons, hsc]
      · rw [if_neg ha] at h; cases h

/-- **shape of a value in which a browser sees the scheme `s`**: everything before the first relevant `:` is
C0-control-or-space or a scheme character, and the scheme characters, lower-cased, spell `s`. -/
theorem browserScheme_decomp (v s : Str) (h : browserScheme v = some s) :
    ∃ pre tail, v = pre ++ 58 :: tail ∧ (∀ c ∈ pre, c ≤ 32 ∨ isSchemeCp c = true) ∧
      s = (pre.filter isSchemeCp).map toLower ∧ ∃ c0 r0, pre.filter isSchemeCp = c0 :: r0 ∧ isAlpha c0 = true := by
  unfold browserScheme at h
  obtain ⟨lead, hl, hlead⟩ := dropWhile_decomp isC0OrSpace v
  obtain ⟨trail, htr⟩ := stripTrailing_prefix (stripLeading v)
  obtain ⟨pre, tail, e, hp, hs, c0, r0, hc0, ha0⟩ := schemeStart_decomp _ s h
  have hleadf : lead.filter isSchemeCp = [] := by
    rw [List.filter_eq_nil_iff]
    intro a ha
    have := hlead a ha
    simp only [isC0OrSpace, decide_eq_true_eq] at this
    simp [c0_not_scheme a this]
  refine ⟨lead ++ pre, tail ++ trail, ?_, ?_, ?_, c0, r0, ?_, ha0⟩
  · rw [hl]
    show lead ++ stripLeading v = _
    rw [htr, e]
    simp
  · intro c hc
    simp only [List.mem_append] at hc
    rcases hc with hc | hc
    · left
      have := hlead c hc
      simpa [isC0OrSpace] using this
    · rcases hp c hc with h1 | h1
      · exact Or.inl (tabnl_le c h1)
      · exact Or.inr h1
  · rw [List.filter_append, hleadf, List.nil_append]; exact hs
  · rw [List.filter_append, hleadf, List.nil_append]; exact hc0


/-! #### table facts (decided on the extracted range list, lifted to all characters) -/

theorem scheme_lt (c : Nat) (h : isSchemeChar c = true) : 32 < c ∧ c < 123 := by
  simp [isSchemeChar, isAsciiAlpha, isAsciiDigit] at h; omega

/-- TableOK: everything a browser strips or ignores around/inside a scheme is in the strip class -/
theorem strip_c0 (c : Nat) (h : c ≤ 32) : inRanges H5.Gen.San.uriStripClass c = true := by
  have key : ∀ c < 33, inRanges H5.Gen.San.uriStripClass c = true := by decide
  exact key c (by omega)

/-- TableOK: no scheme character (nor `:`) is in the strip class -/
theorem strip_scheme (c : Nat) (h : isSchemeChar c = true) : inRanges H5.Gen.San.uriStripClass c = false := by
  have key : ∀ c < 123, isSchemeChar c = true → inRanges H5.Gen.San.uriStripClass c = false := by decide
  exact key c (scheme_lt c h).2 h

theorem strip_colon : inRanges H5.Gen.San.uriStripClass 58 = false := by decide

theorem spec_scheme_eq (c : Nat) : isSchemeCp c = isSchemeChar c := by
  simp [isSchemeCp, isSchemeChar, isAlpha, isAsciiAlpha, isAsciiDigit]

theorem spec_alpha_eq (c : Nat) : isAlpha c = isAsciiAlpha c := by
  simp [isAlpha, isAsciiAlpha]

theorem spec_lower_eq (c : Nat) : toLower c = asciiLowerChar c := rfl

/-! #### model side -/

theorem go_keeps_prefix (o' new pre tail : Str) (hp : 38 ∉ pre) : ∀ fuel, pre.length + 1 ≤ fuel →
    ∃ t', Str.replaceSub.go (38 :: o') new (pre ++ 58 :: tail) fuel = pre ++ 58 :: t' := by
  induction pre with
  | nil =>
    intro fuel hf
    obtain ⟨f, rfl⟩ : ∃ f, fuel = f + 1 := ⟨fuel - 1, by omega⟩
    exact ⟨Str.replaceSub.go (38 :: o') new tail f, by simp [Str.replaceSub.go]⟩
  | cons c pr ih =>
    intro fuel hf
    obtain ⟨f, rfl⟩ : ∃ f, fuel = f + 1 := ⟨fuel - 1, by simp at hf; omega⟩
    simp only [List.mem_cons, not_or] at hp
    obtain ⟨t', ht⟩ := ih hp.2 f (by simp at hf; omega)
    refine ⟨t', ?_⟩
    have hc : ¬ (38 = c) := hp.1
    simp [Str.replaceSub.go, hc, ht]

theorem replaceSub_keeps_prefix (o' new pre tail : Str) (hp : 38 ∉ pre) :
    ∃ t', Str.replaceSub (pre ++ 58 :: tail) (38 :: o') new = pre ++ 58 :: t' := by
  unfold Str.replaceSub
  exact go_keeps_prefix o' new pre tail hp _ (by simp)

/-- `unescape` only touches substrings that start with `&` -/
theorem unescape_keeps_prefix (pre tail : Str) (hp : 38 ∉ pre) : ∃ t', unescape (pre ++ 58 :: tail) = pre ++ 58 :: t' := by
  unfold unescape
  obtain ⟨t1, h1⟩ := replaceSub_keeps_prefix [108, 116, 59] [60] pre tail hp
  obtain ⟨t2, h2⟩ := replaceSub_keeps_prefix [103, 116, 59] [62] pre t1 hp
  obtain ⟨t3, h3⟩ := replaceSub_keeps_prefix [97, 109, 112, 59] [38] pre t2 hp
  exact ⟨t3, by rw [h1, h2, h3]⟩

theorem lowerGo_ascii (p rest : Str) (hp : ∀ c ∈ p, c < 128) : ∀ pc, ∃ pc', lowerGo pc (p ++ rest) = p.map asciiLowerChar ++ lowerGo pc' rest := by
  induction p with
  | nil => intro pc; exact ⟨pc, rfl⟩
  | cons c r ih =>
    intro pc
    have hc : c < 128 := hp c List.mem_cons_self
    have hne : ¬ c = 931 := by omega
    obtain ⟨pc', h⟩ := ih (fun x hx => hp x (List.mem_cons_of_mem _ hx)) (if caseIgnorable c then pc else casedNotIgnorable c)
    refine ⟨pc', ?_⟩
    simp only [List.cons_append, lowerGo, hne, if_false, lowerChar, hc, if_true, h, List.map_cons]
    rfl

theorem lower_scheme (c : Nat) (h : isSchemeChar c = true) :
    isSchemeChar (asciiLowerChar c) = true ∧ asciiLowerChar (asciiLowerChar c) = asciiLowerChar c ∧
    (isAsciiAlpha c = true → isAsciiAlpha (asciiLowerChar c) = true) := by
  have key : ∀ c < 123, isSchemeChar c = true → isSchemeChar (asciiLowerChar c) = true ∧
      asciiLowerChar (asciiLowerChar c) = asciiLowerChar c ∧
      (isAsciiAlpha c = true → isAsciiAlpha (asciiLowerChar c) = true) := by decide
  exact key c (scheme_lt c h).2 h

/-- the value handed to `urlparse` starts with the lower-cased scheme characters and the colon -/
theorem cleanUri_shape (pre tail : Str) (hpre : ∀ c ∈ pre, c ≤ 32 ∨ isSchemeChar c = true) :
    ∃ t, cleanUri (pre ++ 58 :: tail) = (pre.filter isSchemeChar).map asciiLowerChar ++ 58 :: t := by
  have h38 : 38 ∉ pre := by
    intro hm
    rcases hpre 38 hm with h | h
    · omega
    · revert h; decide
  obtain ⟨t1, h1⟩ := unescape_keeps_prefix pre tail h38
  have hfil : pre.filter (fun c => !inRanges H5.Gen.San.uriStripClass c) = pre.filter isSchemeChar := by
    apply List.filter_congr
    intro c hc
    rcases hpre c hc with h | h
    · have : isSchemeChar c = false := by
        have := c0_not_scheme c h; rwa [spec_scheme_eq] at this
      simp [strip_c0 c h, this]
    · simp [strip_scheme c h, h]
  have hp128 : ∀ c ∈ pre.filter isSchemeChar, c < 128 := by
    intro c hc
    have := (List.mem_filter.1 hc).2
    have := scheme_lt c this
    omega
  obtain ⟨pc', h3⟩ := lowerGo_ascii (pre.filter isSchemeChar) (58 :: t1.filter (fun c => !inRanges H5.Gen.San.uriStripClass c)) hp128 false
  have h58 : ∀ pc r, lowerGo pc (58 :: r) = 58 :: lowerGo (if caseIgnorable 58 then pc else casedNotIgnorable 58) r := by
    intro pc r
    simp [lowerGo, lowerChar, asciiLowerChar]
  refine ⟨(lowerGo (if caseIgnorable 58 then pc' else casedNotIgnorable 58)
      (t1.filter (fun c => !inRanges H5.Gen.San.uriStripClass c))).filter (· ≠ 0xFFFD), ?_⟩
  unfold cleanUri pyLower
  rw [h1, List.filter_append, hfil, List.filter_cons, strip_colon]
  simp only [Bool.not_false, if_true]
  rw [h3, h58, List.filter_append, List.filter_cons]
  have hkeep : ((pre.filter isSchemeChar).map asciiLowerChar).filter (· ≠ 0xFFFD) = (pre.filter isSchemeChar).map asciiLowerChar := by
    rw [List.filter_eq_self]
    intro c hc
    obtain ⟨x, hx, rfl⟩ := List.mem_map.1 hc
    have hs := (List.mem_filter.1 hx).2
    have := scheme_lt _ (lower_scheme x hs).1
    simp; omega
  rw [hkeep]
  simp

theorem takeWhile_stop (q : Nat → Bool) (p : Str) (x : Nat) (t : Str) (hp : ∀ c ∈ p, q c = true) (hx : q x = false) :
    (p ++ x :: t).takeWhile q = p := by
  induction p with
  | nil => simp [List.takeWhile_cons, hx]
  | cons c r ih =>
    simp only [List.cons_append, List.takeWhile_cons, hp c List.mem_cons_self, if_true]
    rw [ih (fun y hy => hp y (List.mem_cons_of_mem _ hy))]

/-- `urlsplit`'s scheme step finds exactly that prefix -/
theorem splitScheme_shape (c0 : Nat) (r0 t : Str) (halpha : isAsciiAlpha c0 = true)
    (hall : ∀ c ∈ c0 :: r0, isSchemeChar c = true) (hlow : ∀ c ∈ c0 :: r0, asciiLowerChar c = c) :
    (splitScheme (urlPrep ((c0 :: r0) ++ 58 :: t))).1 = c0 :: r0 := by
  have hgt : ∀ c ∈ c0 :: r0, 32 < c := fun c hc => (scheme_lt c (hall c hc)).1
  have hprep : urlPrep ((c0 :: r0) ++ 58 :: t) = (c0 :: r0) ++ 58 :: t.filter (fun c => c ≠ 9 && c ≠ 13 && c ≠ 10) := by
    have h0 := hgt c0 List.mem_cons_self
    have hd : ((c0 :: r0) ++ 58 :: t).dropWhile (· ≤ 32) = (c0 :: r0) ++ 58 :: t := by
      simp [List.dropWhile_cons]; omega
    unfold urlPrep
    have hk : (c0 :: r0).filter (fun c => c ≠ 9 && c ≠ 13 && c ≠ 10) = c0 :: r0 := by
      rw [List.filter_eq_self]
      intro c hc
      have := hgt c hc
      simp; omega
    rw [hd, List.filter_append, hk, List.filter_cons]
    simp
  rw [hprep]
  have htw : ((c0 :: r0) ++ 58 :: t.filter (fun c => c ≠ 9 && c ≠ 13 && c ≠ 10)).takeWhile (· ≠ 58) = c0 :: r0 := by
    apply takeWhile_stop
    · intro c hc
      have hs := hall c hc
      have : c ≠ 58 := by
        intro e; subst e; revert hs; decide
      simp [this]
    · simp
  unfold splitScheme
  simp only [htw]
  have hlen : (c0 :: r0).length < ((c0 :: r0) ++ 58 :: t.filter (fun c => c ≠ 9 && c ≠ 13 && c ≠ 10)).length := by
    simp
  have hallb : (c0 :: r0).all isSchemeChar = true := List.all_eq_true.2 hall
  have hmap : (c0 :: r0).map asciiLowerChar = c0 :: r0 := by
    rw [List.map_congr_left hlow, List.map_id']
  simp only [decide_eq_true hlen, halpha, hallb, Bool.and_self, if_true, hmap]

theorem urlsplit_scheme (x : Str) (u : SplitResult) (h : urlsplit x = .ok u) : u.scheme = (splitScheme (urlPrep x)).1 := by
  unfold urlsplit at h
  generalize splitScheme (urlPrep x) = sp at h
  obtain ⟨scheme, url⟩ := sp
  simp only at h
  repeat' split at h
  all_goals first | (injection h with h; subst h; rfl) | (cases h)


/-- the `data:` sub-clause as the sanitizer decides it: the extracted `data_content_type` regexp matches the
path `urlsplit` finds in the cleaned value and its `content_type` group is on the allow-list.  (The oracle of
tools/props/C09.py decides the browser-side reading — MIME type of the fetch standard's data: URL processor —
on the real code; see the recorded findings `data-content-type-kept:*`.) -/
def dataContentTypeOk (L : Lists) (v : Str) : Prop :=
  ∃ u m ct, urlsplit (cleanUri v) = .ok u ∧ matchAt cl H5.Gen.San.reDataContentType u.path = .ok (some m) ∧
    m.group 1 = some ct ∧ ct ∈ L.allowedContentTypes

/-- the clause of the statement for one attribute value -/
def UriClause (L : Lists) (v : Str) : Prop :=
  browserScheme v = none ∨
    ∃ s, browserScheme v = some s ∧ s ∈ L.allowedProtocols ∧ (s = dataScheme → dataContentTypeOk L v)

/-- **key lemma.** whatever scheme a browser resolves in `v`, `urlparse` finds the same scheme in the cleaned value
(or raises `ValueError`, which deletes the attribute). -/
theorem modelScheme_of_browserScheme (v s : Str) (hb : browserScheme v = some s) :
    s ≠ [] ∧ ∀ u, urlsplit (cleanUri v) = .ok u → u.scheme = s := by
  obtain ⟨pre, tail, rfl, hpre, hs, c0, r0, hc0, ha0⟩ := browserScheme_decomp v s hb
  have hpre' : ∀ c ∈ pre, c ≤ 32 ∨ isSchemeChar c = true := by
    intro c hc
    rcases hpre c hc with h | h
    · exact Or.inl h
    · right; rwa [spec_scheme_eq] at h
  have hfeq : pre.filter isSchemeCp = pre.filter isSchemeChar := List.filter_congr (fun c _ => spec_scheme_eq c)
  rw [hfeq] at hs hc0
  obtain ⟨t, hclean⟩ := cleanUri_shape pre tail hpre'
  rw [hc0] at hclean hs
  have hmem : ∀ c ∈ c0 :: r0, isSchemeChar c = true := by
    intro c hc
    rw [← hc0] at hc
    exact (List.mem_filter.1 hc).2
  have hs' : s = asciiLowerChar c0 :: r0.map asciiLowerChar := by
    rw [hs]; simp [List.map_cons, spec_lower_eq]
  refine ⟨by rw [hs']; simp, ?_⟩
  intro u hu
  rw [urlsplit_scheme _ u hu, hclean, hs']
  have := splitScheme_shape (asciiLowerChar c0) (r0.map asciiLowerChar) t
    ((lower_scheme c0 (hmem c0 List.mem_cons_self)).2.2 (by rw [← spec_alpha_eq]; exact ha0))
    (by
      intro c hc
      rw [← List.map_cons] at hc
      obtain ⟨x, hx, rfl⟩ := List.mem_map.1 hc
      exact (lower_scheme x (hmem x hx)).1)
    (by
      intro c hc
      rw [← List.map_cons] at hc
      obtain ⟨x, hx, rfl⟩ := List.mem_map.1 hc
      exact (lower_scheme x (hmem x hx)).2.1)
  simpa using this

/-- a URI-valued attribute that `allowed_token` keeps satisfies the clause -/
theorem uriKeep_sound (L : Lists) (v : Str) (hk : uriKeep L v = .ok true) : UriClause L v := by
  cases hb : browserScheme v with
  | none => exact Or.inl hb
  | some s =>
    right
    obtain ⟨hne, hsch⟩ := modelScheme_of_browserScheme v s hb
    refine ⟨s, hb, ?_⟩
    unfold uriKeep at hk
    cases hu : urlsplit (cleanUri v) with
    | error e =>
      rw [hu] at hk
      cases e <;> simp at hk
    | ok u =>
      rw [hu] at hk
      have hus := hsch u hu
      have hemp : u.scheme.isEmpty = false := by
        rw [hus]; cases s with
        | nil => exact absurd rfl hne
        | cons _ _ => rfl
      simp only [hemp, Bool.false_eq_true, if_false] at hk
      cases hel : L.allowedProtocols.elem u.scheme with
      | false =>
        simp only [hel, Bool.not_false, if_true] at hk
        cases hk
      | true =>
        simp only [hel, Bool.not_true, Bool.false_eq_true, if_false] at hk
        have hin : s ∈ L.allowedProtocols := by rw [← hus]; exact List.mem_of_elem_eq_true hel
        by_cases hd : u.scheme = dataScheme
        · rw [if_pos hd] at hk
          simp only [bind_eq_ok] at hk
          obtain ⟨m, hm, hk⟩ := hk
          cases m with
          | none => simp [pure, Except.pure] at hk
          | some m =>
            cases hg : m.group 1 with
            | none => simp [hg, pure, Except.pure] at hk
            | some ct =>
              simp only [hg, pure, Except.pure, Except.ok.injEq] at hk
              exact ⟨hin, fun _ => ⟨u, m, ct, hu, hm, hg, List.mem_of_elem_eq_true hk⟩⟩
        · rw [hus] at hd
          exact ⟨hin, fun e => absurd e hd⟩

theorem urlsplit_error (x : Str) (e : PyErr) (h : urlsplit x = .error e) : ∃ site, e = .valueError site := by
  unfold urlsplit at h
  generalize splitScheme (urlPrep x) = sp at h
  obtain ⟨scheme, url⟩ := sp
  simp only at h
  repeat' split at h
  all_goals first | (injection h with h; exact ⟨_, h.symm⟩) | (cases h)

/-- since fix 1347e6e (`if … elif`) the URI check deletes an attribute at most once: it never raises `KeyError`,
for any configuration (the only error the model can produce here is the regex engine's OutOfFuel). -/
theorem uriKeep_no_keyError (L : Lists) (v : Str) (site : String) : uriKeep L v ≠ .error (.keyError site) := by
  intro h
  unfold uriKeep at h
  cases hu : urlsplit (cleanUri v) with
  | error e =>
    obtain ⟨s, rfl⟩ := urlsplit_error _ e hu
    rw [hu] at h
    simp at h
  | ok u =>
    rw [hu] at h
    simp only at h
    split at h
    · cases h
    · split at h
      · cases h
      · split at h
        · cases hm : matchAt cl H5.Gen.San.reDataContentType u.path with
          | error e' =>
            rw [hm] at h
            simp only [bind, Except.bind, Except.error.injEq] at h
            obtain ⟨s, hs⟩ := matchAt_error _ _ _ _ hm
            rw [hs] at h; cases h
          | ok m =>
            rw [hm] at h
            simp only [bind, Except.bind, pure, Except.pure] at h
            cases h
        · cases h

/-- **C09 (URI), at the time of the check.** every attribute of an output tag stems from an input attribute with
the same key; if the key is on `attrValIsUri`, the value that was checked satisfies the clause — for every
configuration. -/
theorem C09_uri_checked (L : Lists) (ts : List (Tok × Bool)) (out : List Tok) (h : filterSC L ts = .ok out)
    (t : Tok) (ht : t ∈ out) (b : Attr) (hb : b ∈ tokAttrs t) (huri : L.attrValIsUri.elem (akey b) = true) :
    ∃ v, UriClause L v ∧ (L.svgAttrValAllowsRef.elem (akey b) = false → akey b ≠ styleKey → b.value = v) := by
  obtain ⟨p, _, hs⟩ := filterSC_mem L ts out h t ht
  rcases sanitizeToken_cases L p.2 p.1 _ hs with ⟨hti, _, t', e, hat⟩ | ⟨_, _, d, e⟩ | ⟨_, e⟩ | ⟨hnt, _, e⟩
  · cases e
    obtain ⟨_, _, _, hattrs⟩ := allowedToken_spec L p.1 t hat hti
    obtain ⟨a, _, hk, _, hchk, hsame⟩ := hattrs b hb
    rw [← hk] at huri
    refine ⟨a.value, uriKeep_sound L a.value (hchk huri), ?_⟩
    intro h1 h2
    rw [← hk] at h1 h2
    rw [hsame h1 h2]
  · cases e; simp [tokAttrs] at hb
  · cases e
  · cases e
    cases hp : p.1 <;> simp_all [Tok.isTag, tokAttrs]

/-- **C09 (URI).** in the output, a kept attribute on `attrValIsUri` (that is not also rewritten afterwards, i.e.
not on `svgAttrValAllowsRef` and not `style`) has a value in which a browser resolves either no scheme or an
allowed protocol (and, for `data`, an allowed content type as `dataContentTypeOk` reads it). -/
theorem C09_uri (L : Lists) (ts : List (Tok × Bool)) (out : List Tok) (h : filterSC L ts = .ok out)
    (t : Tok) (ht : t ∈ out) (b : Attr) (hb : b ∈ tokAttrs t) (huri : L.attrValIsUri.elem (akey b) = true)
    (hnr : L.svgAttrValAllowsRef.elem (akey b) = false) (hns : akey b ≠ styleKey) : UriClause L b.value := by
  obtain ⟨v, hc, hv⟩ := C09_uri_checked L ts out h t ht b hb huri
  rw [hv hnr hns]; exact hc

/-- TableOK: with the default lists no URI-valued attribute is rewritten after the check -/
theorem default_uri_not_rewritten : ∀ k ∈ defaultLists.attrValIsUri,
    defaultLists.svgAttrValAllowsRef.elem k = false ∧ k ≠ styleKey := by decide +kernel

/-- **C09 (URI), default lists**: no side condition. -/
theorem C09_uri_default (ts : List (Tok × Bool)) (out : List Tok) (h : filterSC defaultLists ts = .ok out)
    (t : Tok) (ht : t ∈ out) (b : Attr) (hb : b ∈ tokAttrs t) (huri : defaultLists.attrValIsUri.elem (akey b) = true) :
    UriClause defaultLists b.value := by
  obtain ⟨h1, h2⟩ := default_uri_not_rewritten (akey b) (List.mem_of_elem_eq_true huri)
  exact C09_uri defaultLists ts out h t ht b hb huri h1 h2

end Uri

/-! ### the CSS clause -/

theorem allE_all {α} (f : α → Except PyErr Bool) (l : List α) (h : allE f l = .ok true) : ∀ x ∈ l, f x = .ok true := by
  induction l with
  | nil => simp
  | cons a r ih =>
    simp only [allE, bind_eq_ok] at h
    obtain ⟨b, hb, h⟩ := h
    cases b with
    | false => simp [pure, Except.pure] at h
    | true =>
      simp only [if_true] at h
      intro x hx
      simp only [List.mem_cons] at hx
      rcases hx with rfl | hx
      · exact hb
      · exact ih h x hx

/-- the three ways a declaration `prop: value;` is let through -/
def DeclAllowed (L : Lists) (prop value : Str) : Prop :=
  pyLower prop ∈ L.allowedCssProperties ∨
  (pyLower (prop.takeWhile (· ≠ 45)) ∈ H5.Gen.San.cssShorthand ∧
    ∀ kw ∈ pySplit value, kw ∈ L.allowedCssKeywords ∨ ∃ m, matchAt cl H5.Gen.San.reKeyword kw = .ok (some m)) ∨
  pyLower prop ∈ L.allowedSvgProperties

theorem declKeep_sound (L : Lists) (prop value : Str) (h : declKeep L prop value = .ok true) : DeclAllowed L prop value := by
  unfold declKeep at h
  split at h
  · rename_i h1; exact Or.inl (List.mem_of_elem_eq_true h1)
  · split at h
    · rename_i h2
      refine Or.inr (Or.inl ⟨List.mem_of_elem_eq_true h2, ?_⟩)
      intro kw hkw
      have := allE_all _ _ h kw hkw
      split at this
      · rename_i h3; exact Or.inl (List.mem_of_elem_eq_true h3)
      · simp only [bind_eq_ok, pure, Except.pure, Except.ok.injEq] at this
        obtain ⟨m, hm, hs⟩ := this
        cases m with
        | none => simp at hs
        | some m => exact Or.inr ⟨m, hm⟩
    · simp only [Except.ok.injEq] at h
      exact Or.inr (Or.inr (List.mem_of_elem_eq_true h))

/-- **C09 (CSS properties).** whatever `sanitize_css` returns is a `' '`-joined list of `prop: value;` items, each with
a non-empty value and an allowed property — or a shorthand property (`background|border|margin|padding[-…]`) all
of whose whitespace-separated keywords are allowed keywords or match the colour/length pattern — for every
configuration. -/
theorem C09_css_props (L : Lists) (style out : Str) (h : sanitizeCss L style = .ok out) :
    ∃ decls : List (Str × Str), out = joinSp (decls.map fmtDecl) ∧
      ∀ pv ∈ decls, pv.2 ≠ [] ∧ DeclAllowed L pv.1 pv.2 := by
  simp only [sanitizeCss, bind_eq_ok] at h
  obtain ⟨style', _, h⟩ := h
  obtain ⟨g, _, h⟩ := h
  cases g with
  | some _ =>
    simp only [pure, Except.pure, Except.ok.injEq] at h
    exact ⟨[], by simp [← h, joinSp], by simp⟩
  | none =>
  simp only [bind_eq_ok] at h
  obtain ⟨m1, _, h⟩ := h
  cases m1 with
  | none =>
    simp only [pure, Except.pure, Except.ok.injEq] at h
    exact ⟨[], by simp [← h, joinSp], by simp⟩
  | some _ =>
    simp only [bind_eq_ok] at h
    obtain ⟨m2, _, h⟩ := h
    cases m2 with
    | none =>
      simp only [pure, Except.pure, Except.ok.injEq] at h
      exact ⟨[], by simp [← h, joinSp], by simp⟩
    | some _ =>
      simp only [bind_eq_ok, pure, Except.pure, Except.ok.injEq] at h
      obtain ⟨decls, _, kept, hk, rfl⟩ := h
      refine ⟨kept, rfl, ?_⟩
      intro pv hpv
      obtain ⟨_, hf⟩ := filterE_mem _ _ _ hk pv hpv
      split at hf
      · cases hf
      · rename_i hne
        refine ⟨?_, declKeep_sound L pv.1 pv.2 hf⟩
        intro e; rw [e] at hne; exact hne rfl

/-! #### the clause "never url()": regression examples of the three defects repaired by COMMIT_B (the remover is
now `url\s*\([^)]*\)\s*` with IGNORECASE), the general theorem `C09_css_no_url` is below -/

/-- `sanitize_css("color: URL(1)") = ""` (was `"color: URL(1);"`: the remover was case-sensitive) -/
theorem C09_css_url_uppercase_witness :
    sanitizeCss defaultLists [99, 111, 108, 111, 114, 58, 32, 85, 82, 76, 40, 49, 41] = .ok [] := by decide +kernel

/-- `sanitize_css("color: url( 1 2 )") = ""` (was kept: the remover needed a space-free argument) -/
theorem C09_css_url_spaces_witness :
    sanitizeCss defaultLists [99, 111, 108, 111, 114, 58, 32, 117, 114, 108, 40, 32, 49, 32, 50, 32, 41] = .ok [] := by decide +kernel

/-- `sanitize_css("color: url( )") = ""` (was kept: the remover needed a non-empty argument) -/
theorem C09_css_url_empty_witness :
    sanitizeCss defaultLists [99, 111, 108, 111, 114, 58, 32, 117, 114, 108, 40, 32, 41] = .ok [] := by decide +kernel

/-- the lower-case, space-free form is removed as before (and the declaration with it) -/
theorem C09_css_url_removed_example :
    sanitizeCss defaultLists [99, 111, 108, 111, 114, 58, 32, 117, 114, 108, 40, 49, 41] = .ok [] := by decide +kernel

/-- an unterminated `url(` is not removed but stopped by the gauntlet: `sanitize_css("color: url(1") = ""` -/
theorem C09_css_url_unterminated_example :
    sanitizeCss defaultLists [99, 111, 108, 111, 114, 58, 32, 117, 114, 108, 40, 49] = .ok [] := by decide +kernel

/-! #### findings of the URI clause, as evaluations of the model -/

/-- non-vacuity of `C09_uri`: an obfuscated `jAv<TAB>ascript:` value has the browser scheme `javascript` … -/
theorem browserScheme_example : H5.Spec.Url.browserScheme [32, 106, 65, 118, 9, 97, 115, 99, 114, 105, 112, 116, 58, 97, 108, 101, 114, 116, 40, 49, 41] = some [106, 97, 118, 97, 115, 99, 114, 105, 112, 116] := by decide +kernel

/-- … and is deleted -/
theorem uriKeep_example : uriKeep defaultLists [32, 106, 65, 118, 9, 97, 115, 99, 114, 105, 112, 116, 58, 97, 108, 101, 114, 116, 40, 49, 41] = .ok false := by decide +kernel

/-- custom lists (regression of finding C09-keyerror-data-protocol, fixed in 1347e6e): with `data` missing from
`allowed_protocols`, a `data:` URL is simply deleted. -/
theorem C09_data_not_allowed_example :
    uriKeep { defaultLists with allowedProtocols := [[104, 116, 116, 112]] } [100, 97, 116, 97, 58, 120] = .ok false := by
  decide +kernel

/-- the strip class also deletes characters INSIDE the data: content type that a browser keeps (here a backtick):
the value is kept although its MIME type as a browser reads it is ``image/p`ng`` -/
theorem C09_data_backtick_witness : uriKeep defaultLists [100, 97, 116, 97, 58, 105, 109, 97, 103, 101, 47, 112, 96, 110, 103, 44, 120] = .ok true := by decide +kernel

/-! #### the semantic replacement of "never url()": parentheses only ever enclose digits, commas and white space -/

/-- what `re.findall` hands to the loop of `sanitize_css`: property names without `(` and values that are maximal
`[^:;]` runs of the (url-stripped) style -/
theorem findall2_decls (s : Str) (decls : List (Str × Str)) (h : findall2 cl H5.Gen.San.reDecl s = .ok decls) :
    ∀ pv ∈ decls, 40 ∉ pv.1 ∧ ∃ a rest, s = a ++ pv.2 ++ rest ∧ (rest = [] ∨ ∃ c r, rest = c :: r ∧ declN c = false) := by
  simp only [findall2, bind_eq_ok, pure, Except.pure, Except.ok.injEq] at h
  obtain ⟨⟨ms, tail⟩, hm, rfl⟩ := h
  intro pv hpv
  obtain ⟨pm, hpm, rfl⟩ := List.mem_map.1 hpv
  obtain ⟨a, t, adv, sk, e, hatt⟩ := allMatches_sound cl _ s ms tail hm pm hpm
  obtain ⟨h40, x, et, _, hrest⟩ := decl_attempt _ _ adv sk t pm.2 hatt
  exact ⟨h40, a ++ x, pm.2.rest, by rw [e, et]; simp, hrest⟩

theorem joinSp_parenOk (l : List Str) (h : ∀ x ∈ l, ParenOk x) : ParenOk (joinSp l) := by
  induction l with
  | nil => exact parenOk_of_free [] (by simp)
  | cons x r ih =>
    cases r with
    | nil => exact h x List.mem_cons_self
    | cons y r' =>
      simp only [joinSp]
      apply parenOk_append
      · apply parenOk_append
        · exact h x List.mem_cons_self
        · exact parenOk_of_free [32] (by decide)
      · exact ih (fun z hz => h z (List.mem_cons_of_mem _ hz))

/-- **C09 (CSS parentheses).** in whatever `sanitize_css` returns, every `(` is followed only by characters of
`[\d,\s]` (Unicode digits, commas, white space) up to a `)` — for every input and every configuration.  So the text
that survives as `url(…)`/`URL(…)`/`expression(…)` can only carry digits, commas and white space as its argument. -/
theorem C09_css_parens (L : Lists) (style out : Str) (h : sanitizeCss L style = .ok out) : ParenOk out := by
  simp only [sanitizeCss, bind_eq_ok] at h
  obtain ⟨style', _, h⟩ := h
  obtain ⟨g, _, h⟩ := h
  cases g with
  | some _ =>
    simp only [pure, Except.pure, Except.ok.injEq] at h
    subst h; exact parenOk_of_free [] (by simp)
  | none =>
  simp only [bind_eq_ok] at h
  obtain ⟨m1, hm1, h⟩ := h
  cases m1 with
  | none =>
    simp only [pure, Except.pure, Except.ok.injEq] at h
    subst h; exact parenOk_of_free [] (by simp)
  | some m1 =>
    have hs : ParenOk style' := gauntlet1_parenOk style' m1 hm1
    simp only [bind_eq_ok] at h
    obtain ⟨m2, _, h⟩ := h
    cases m2 with
    | none =>
      simp only [pure, Except.pure, Except.ok.injEq] at h
      subst h; exact parenOk_of_free [] (by simp)
    | some _ =>
      simp only [bind_eq_ok, pure, Except.pure, Except.ok.injEq] at h
      obtain ⟨decls, hd, kept, hk, rfl⟩ := h
      apply joinSp_parenOk
      intro x hx
      obtain ⟨pv, hpv, rfl⟩ := List.mem_map.1 hx
      obtain ⟨hmem, _⟩ := filterE_mem _ _ _ hk pv hpv
      obtain ⟨h40, a, rest, e, hrest⟩ := findall2_decls style' decls hd pv hmem
      have hv : ParenOk pv.2 := parenOk_infix style' a pv.2 rest hs e hrest
      unfold fmtDecl
      apply parenOk_append
      · apply parenOk_append
        · apply parenOk_append
          · exact parenOk_of_free _ h40
          · exact parenOk_of_free [58, 32] (by decide)
        · exact hv
      · exact parenOk_of_free [59] (by decide)

/-- non-vacuity: `ParenOk` rejects a parenthesis around anything else, e.g. `(a)` -/
example : ¬ ParenOk [40, 97, 41] := by
  intro h
  obtain ⟨mid, rest, e, hm⟩ := h [] [97, 41] rfl
  cases mid with
  | nil => simp at e
  | cons c m' =>
    simp only [List.cons_append, List.cons.injEq] at e
    have := hm c List.mem_cons_self
    rw [← e.1] at this
    revert this
    decide +kernel

/-! #### "never url()" (since fix COMMIT_B) -/

theorem fmtDecl_urlFreeS (pv : Str × Str) (y : Str) (h40 : 40 ∉ pv.1) (hv : UrlFreeS pv.2) (hy : UrlFreeS y) :
    UrlFreeS (fmtDecl pv ++ y) := by
  have e : fmtDecl pv ++ y = pv.1 ++ 58 :: (32 :: (pv.2 ++ 59 :: y)) := by simp [fmtDecl]
  rw [e]
  refine urlFreeS_sep _ _ 58 (urlFreeS_of_no_paren _ h40) ?_ (by decide) (by decide +kernel)
  refine urlFreeS_cons 32 _ (by unfold isU; omega) ?_
  exact urlFreeS_sep _ _ 59 hv hy (by decide) (by decide +kernel)

theorem joinSp_urlFreeS (l : List (Str × Str)) (h : ∀ pv ∈ l, 40 ∉ pv.1 ∧ UrlFreeS pv.2) : UrlFreeS (joinSp (l.map fmtDecl)) := by
  induction l with
  | nil => exact urlFreeS_nil
  | cons x r ih =>
    have hx := h x List.mem_cons_self
    cases r with
    | nil =>
      have := fmtDecl_urlFreeS x [] hx.1 hx.2 urlFreeS_nil
      simpa [joinSp] using this
    | cons y r' =>
      have e : joinSp ((x :: y :: r').map fmtDecl) = fmtDecl x ++ 32 :: joinSp ((y :: r').map fmtDecl) := by simp [joinSp]
      rw [e]
      exact fmtDecl_urlFreeS x _ hx.1 hx.2
        (urlFreeS_cons 32 _ (by unfold isU; omega) (ih (fun z hz => h z (List.mem_cons_of_mem _ hz))))

/-- **C09 (CSS: never `url(`).** whatever `sanitize_css` returns contains no `url` (in any letter case) followed by
zero or more characters of Python's `\s` class and `(`: no suffix of the result starts with `[uU][rR][lL]\s*\(` — for
every input and every configuration.  (Python's IGNORECASE folds nothing else onto `u`, `r`, `l`: the generator
evaluates the compiled items on every code point.)  Proof: the guard `if re.search(r'url\s*\(', style, re.I): return ''`
cannot miss an occurrence (`run_complete`/`searchAux_none`: a search that reports nothing has refuted every exact match
at every position), a declaration value is a piece of the guarded text, and gluing `prop: value;` items with `' '`
creates no new occurrence (every value is preceded by `: ` and followed by `;`). -/
theorem C09_css_no_url (L : Lists) (style out : Str) (h : sanitizeCss L style = .ok out) :
    ∀ a t, out = a ++ t → urlOpenS t = false := by
  have key : UrlFreeS out := by
    simp only [sanitizeCss, bind_eq_ok] at h
    obtain ⟨style', _, h⟩ := h
    obtain ⟨g, hg, h⟩ := h
    cases g with
    | some _ =>
      simp only [pure, Except.pure, Except.ok.injEq] at h
      subst h; exact urlFreeS_nil
    | none =>
      have hs : UrlFreeS style' := guard_urlFreeS style' hg
      simp only [bind_eq_ok] at h
      obtain ⟨m1, _, h⟩ := h
      cases m1 with
      | none =>
        simp only [pure, Except.pure, Except.ok.injEq] at h
        subst h; exact urlFreeS_nil
      | some m1 =>
        simp only [bind_eq_ok] at h
        obtain ⟨m2, _, h⟩ := h
        cases m2 with
        | none =>
          simp only [pure, Except.pure, Except.ok.injEq] at h
          subst h; exact urlFreeS_nil
        | some _ =>
          simp only [bind_eq_ok, pure, Except.pure, Except.ok.injEq] at h
          obtain ⟨decls, hd, kept, hk, rfl⟩ := h
          apply joinSp_urlFreeS
          intro pv hpv
          obtain ⟨hmem, _⟩ := filterE_mem _ _ _ hk pv hpv
          obtain ⟨h40, a, rest, e, _⟩ := findall2_decls style' decls hd pv hmem
          exact ⟨h40, urlFreeS_infix style' a pv.2 rest hs e⟩
  intro a t e
  cases ho : urlOpenS t with
  | false => rfl
  | true =>
    obtain ⟨u, r, l, ws, t', rfl, hu, hr, hl, hws⟩ := urlOpenS_decomp t ho
    exact (key a u r l ws t' e hu hr hl hws).elim

/-- regression of the interim finding of the first form of COMMIT_B (remover without the guard): the single pass of
`sub` glued the text around a removed `url(…)` with one space, `sanitize_css("color: urlurl(1)(2)")` was
`"color: url (2);"`; with the guard it is `""` -/
theorem C09_css_url_spaced_witness :
    sanitizeCss defaultLists [99, 111, 108, 111, 114, 58, 32, 117, 114, 108, 117, 114, 108, 40, 49, 41, 40, 50, 41] = .ok [] := by
  decide +kernel

/-- the remover alone (first step of `sanitize_css`) does leave `url (2)` on that input: the guard is what stops it -/
theorem C09_css_url_spaced_remover_example :
    sub cl H5.Gen.San.reCssUrl [32] [117, 114, 108, 117, 114, 108, 40, 49, 41, 40, 50, 41] = .ok [117, 114, 108, 32, 40, 50, 41] := by
  decide +kernel

/-- non-vacuity of the statement's predicate: `UrL(`, `url \n(` are hits, `url x(` is not -/
example : urlOpenS [85, 114, 76, 40, 49, 41] = true ∧ urlOpenS [117, 114, 108, 32, 10, 40] = true ∧
    urlOpenS [117, 114, 108, 32, 120, 40] = false := by decide +kernel

/-! #### the `svg_allow_local_href` clause (since fix COMMIT_A) -/

/-- where the attributes of an output tag come from: `allowed_token` on the attributes of an input token with
the same name (or the tag has no attributes: an EndTag) -/
theorem out_tag_origin (L : Lists) (ts : List (Tok × Bool)) (out : List Tok) (h : filterSC L ts = .ok out)
    (t : Tok) (ht : t ∈ out) (ns : Option Str) (name : Str) (hk : tagKey t = some (ns, name)) :
    (∃ p ∈ ts, allowedAttrs L name (tokAttrs p.1) = .ok (tokAttrs t)) ∨ tokAttrs t = [] := by
  obtain ⟨p, hpm, hs⟩ := filterSC_mem L ts out h t ht
  rcases sanitizeToken_cases L p.2 p.1 _ hs with ⟨hti, _, t', e, hat⟩ | ⟨_, _, d, e⟩ | ⟨_, e⟩ | ⟨hnt, _, e⟩
  · cases e
    cases hp : p.1 with
    | startTag ns0 name0 attrs =>
      rw [hp] at hat
      simp only [allowedToken, bind_eq_ok, pure, Except.pure, Except.ok.injEq] at hat
      obtain ⟨o, ho, rfl⟩ := hat
      simp only [tagKey, Option.some.injEq, Prod.mk.injEq] at hk
      obtain ⟨_, rfl⟩ := hk
      exact Or.inl ⟨p, hpm, by rw [hp]; exact ho⟩
    | emptyTag ns0 name0 attrs =>
      rw [hp] at hat
      simp only [allowedToken, bind_eq_ok, pure, Except.pure, Except.ok.injEq] at hat
      obtain ⟨o, ho, rfl⟩ := hat
      simp only [tagKey, Option.some.injEq, Prod.mk.injEq] at hk
      obtain ⟨_, rfl⟩ := hk
      exact Or.inl ⟨p, hpm, by rw [hp]; exact ho⟩
    | endTag ns0 name0 =>
      rw [hp] at hat
      simp only [allowedToken, Except.ok.injEq] at hat
      subst hat
      exact Or.inr rfl
    | _ => rw [hp] at hti; simp [Tok.isTag] at hti
  · cases e; simp [tagKey] at hk
  · cases e
  · cases e
    cases hp : p.1 <;> simp_all [Tok.isTag, tagKey]

/-- **C09 (SVG local references).** in an output tag whose name is on `svg_allow_local_href` (the code tests
`(None, name)`, whatever the token's namespace), the `xlink:href` entry of the attribute dict — if there is one —
has a value that is a local reference in exactly the sense of the code's `re.search(r'^\s*[^#\s].*', v)` finding
nothing: after the leading white space (Python's Unicode `\s`, which includes the newlines) the value is over (empty
or all-white-space value) or continues with `#`.  For every token list and every configuration.
(`find?` is the dict lookup `attrs[(xlink, 'href')]`; `C09_svg_local_href_all` is the form "every such attribute" for
attribute lists with distinct keys.) -/
theorem C09_svg_local_href (L : Lists) (ts : List (Tok × Bool)) (out : List Tok) (h : filterSC L ts = .ok out)
    (t : Tok) (ht : t ∈ out) (ns : Option Str) (name : Str) (hk : tagKey t = some (ns, name))
    (hn : (none, name) ∈ L.svgAllowLocalHref) (a : Attr)
    (ha : (tokAttrs t).find? (fun a => akey a = xlinkHref) = some a) : localRef a.value = true := by
  have hn' : nameInKeys name L.svgAllowLocalHref = true := List.elem_eq_true_of_mem hn
  rcases out_tag_origin L ts out h t ht ns name hk with ⟨p, _, ho⟩ | hnil
  · exact allowedAttrs_localHref L name _ _ ho hn' a ha
  · rw [hnil] at ha; cases ha

/-- the same for EVERY `xlink:href` attribute of the output tag, when the attributes of each input token have
pairwise distinct keys (they are the items of a Python dict) -/
theorem C09_svg_local_href_all (L : Lists) (ts : List (Tok × Bool)) (out : List Tok) (h : filterSC L ts = .ok out)
    (hdict : ∀ p ∈ ts, ((tokAttrs p.1).map akey).Nodup)
    (t : Tok) (ht : t ∈ out) (ns : Option Str) (name : Str) (hk : tagKey t = some (ns, name))
    (hn : (none, name) ∈ L.svgAllowLocalHref) (a : Attr) (ha : a ∈ tokAttrs t) (hx : akey a = xlinkHref) :
    localRef a.value = true := by
  have hn' : nameInKeys name L.svgAllowLocalHref = true := List.elem_eq_true_of_mem hn
  rcases out_tag_origin L ts out h t ht ns name hk with ⟨p, hp, ho⟩ | hnil
  · have hnd : ((tokAttrs t).map akey).Nodup := (allowedAttrs_keys L name _ _ ho).nodup (hdict p hp)
    exact allowedAttrs_localHref L name _ _ ho hn' a (find_of_nodup xlinkHref _ hnd a ha hx)
  · rw [hnil] at ha; cases ha

/-- **what the test means**, for every value: `re.search(r'^\s*[^#\s].*', v)` finds something iff `v` is NOT a local
reference (`localRef v = false`: some first non-white-space character exists and is not `#`) -/
theorem C09_svg_local_href_exact (v : Str) (o : Option Match) (h : search cl H5.Gen.San.reLocalHref v = .ok o) :
    o.isSome = !localRef v := localHref_search_iff v o h

/-- exactness of `localRef`: the code's test finds something exactly when the value is NOT a local reference, e.g.
`"http://e/x#a"`, `" x"`, `"\nx"` are deleted; `""`, `"  "`, `"#a"`, `"\n #a"` are kept (model evaluations) -/
theorem C09_svg_local_href_examples :
    (search cl H5.Gen.San.reLocalHref [104, 116, 116, 112, 58, 47, 47, 101, 47, 120, 35, 97]).map Option.isSome = .ok true ∧
    (search cl H5.Gen.San.reLocalHref [32, 120]).map Option.isSome = .ok true ∧
    (search cl H5.Gen.San.reLocalHref [10, 120]).map Option.isSome = .ok true ∧
    (search cl H5.Gen.San.reLocalHref []).map Option.isSome = .ok false ∧
    (search cl H5.Gen.San.reLocalHref [32, 32]).map Option.isSome = .ok false ∧
    (search cl H5.Gen.San.reLocalHref [35, 97]).map Option.isSome = .ok false ∧
    (search cl H5.Gen.San.reLocalHref [10, 32, 35, 97]).map Option.isSome = .ok false ∧
    localRef [104, 116, 116, 112, 58, 47, 47, 101, 47, 120, 35, 97] = false ∧ localRef [10, 120] = false ∧
    localRef [] = true ∧ localRef [32, 32] = true ∧ localRef [10, 32, 35, 97] = true := by decide +kernel

/-- regression of finding C09-svg-local-href-dead (fixed in COMMIT_A): `<use xlink:href="http://e/x#a">` (SVG) loses
the attribute, `xlink:href="#a"` keeps it -/
theorem C09_svg_nonlocal_href_witness :
    allowedAttrs defaultLists [117, 115, 101] [⟨some H5.Gen.San.xlinkNs, [104, 114, 101, 102], [104, 116, 116, 112, 58, 47, 47, 101, 47, 120, 35, 97]⟩] = .ok [] ∧
    allowedAttrs defaultLists [117, 115, 101] [⟨some H5.Gen.San.xlinkNs, [104, 114, 101, 102], [35, 97]⟩]
      = .ok [⟨some H5.Gen.San.xlinkNs, [104, 114, 101, 102], [35, 97]⟩] := by decide +kernel

end H5.Props.C09
