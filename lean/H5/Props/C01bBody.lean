/-
  C01b — the SPECIFICATION on the tokens of covered body content: induction over the grammar.
-/
import H5.Props.C01bText
set_option linter.unusedSimpArgs false
set_option linter.unusedVariables false
namespace H5.Props.C01b
open H5 H5.Spec.TC
open H5.Props.C07b (fmtName fmtNames catOf voidName Cat okNode okForest G0 headOK docTree commentOKm htmlNs sHtml sHead
  sBody sTitle isText Ctx ordinaryName blockName headingName itemName sP attrsPlain)
open H5.Props.C08c (valueOK startTagOK)

/-- the frame is the same open node -/
def Same (f f' : SFrame) : Prop := f'.id = f.id ∧ f'.node.kind = f.node.kind

theorem Same.refl (f : SFrame) : Same f f := ⟨rfl, rfl⟩
theorem Same.trans {a b c : SFrame} (h1 : Same a b) (h2 : Same b c) : Same a c :=
  ⟨h2.1.trans h1.1, h2.2.trans h1.2⟩

theorem valueOK_ne0 {d : Str} (h : valueOK d = true) : ∀ c ∈ d, c ≠ 0 := H5.Props.C08c.valueOK_ne0 h

theorem valueOK_append {a b : Str} (h : valueOK (a ++ b) = true) : valueOK a = true ∧ valueOK b = true := by
  simp only [valueOK, List.all_append, Bool.and_eq_true] at h
  exact h

theorem tokRun_chars_of (d : Str) (s s' : St)
    (h : (forIn (d.map Token.char) PUnit.unit (fun tk _ => do processToken tk; pure (ForInStep.yield PUnit.unit)) : M PUnit).run s
      = .ok (PUnit.unit, s')) : (tokRun (.chars d)).run s = .ok ((), s') := by
  unfold tokRun
  simp only [ofTTok, Bool.false_eq_true, ↓reduceIte, run_bind, h, ok_bind, run_pure]

theorem tokRun_space_of (d : Str) (s s' : St)
    (h : (forIn (d.map Token.char) PUnit.unit (fun tk _ => do processToken tk; pure (ForInStep.yield PUnit.unit)) : M PUnit).run s
      = .ok (PUnit.unit, s')) : (tokRun (.space d)).run s = .ok ((), s') := by
  unfold tokRun
  simp only [ofTTok, run_bind, h, ok_bind, run_pure]

/-- the tokens of a text node (or of the rest of one) -/
theorem textToks_run {m : Mode} (Q : St → Prop) (hQr : ∀ s, Q s → Q { s with tokSwitch := none })
    (step : ∀ {s fs f} (c : Nat), c ≠ 0 → SInv m s fs f → Q s →
      ∃ s', (processToken (.char c)).run s = .ok ((), s') ∧ SInv m s' fs (f.withChar s.arena.size c) ∧ Q s') :
    ∀ {d : Str} {ts : List TTok}, TextToks d ts → valueOK d = true → ∀ {s fs f}, SInv m s fs f → Q s →
      ∃ s' f', Reach s ts s' ∧ SInv m s' fs f' ∧ Q s' ∧ Same f f' ∧ f'.kids = f.kids ∧
        f'.txt = some (f.txt.getD [] ++ d) := by
  intro d ts htt
  induction htt with
  | @one d tok hd htok =>
    intro hok s fs f h hq
    obtain ⟨s1, hs1, hi1, hq1⟩ := chars_run Q step d (valueOK_ne0 hok) h.resetSwitch (hQr s hq)
    have hf := withText_facts s.arena.size d f hd
    refine ⟨s1, _, Reach.single ?_, hi1, hq1, ⟨hf.1, hf.2.1⟩, hf.2.2.1, hf.2.2.2⟩
    rcases htok with rfl | rfl
    · exact tokRun_chars_of _ _ _ hs1
    · exact tokRun_space_of _ _ _ hs1
  | @cons d1 d2 tok rest hd htok _ ih =>
    intro hok s fs f h hq
    have hok12 := valueOK_append hok
    obtain ⟨s1, hs1, hi1, hq1⟩ := chars_run Q step d1 (valueOK_ne0 hok12.1) h.resetSwitch (hQr s hq)
    have hf := withText_facts s.arena.size d1 f hd
    have hr1 : Reach s [tok] s1 := by
      refine Reach.single ?_
      rcases htok with rfl | rfl
      · exact tokRun_chars_of _ _ _ hs1
      · exact tokRun_space_of _ _ _ hs1
    obtain ⟨s2, f2, hr2, hi2, hq2, hsame2, hk2, ht2⟩ := ih hok12.2 hi1 hq1
    refine ⟨s2, f2, hr1.trans hr2, hi2, hq2, Same.trans ⟨hf.1, hf.2.1⟩ hsame2, hk2.trans hf.2.2.1, ?_⟩
    rw [ht2, hf.2.2.2]
    simp

/-- in the "in body" insertion mode -/
theorem textToks_body {d : Str} {ts : List TTok} (htt : TextToks d ts) (hok : valueOK d = true) {s fs f}
    (h : SInv .inBody s fs f) :
    ∃ s' f', Reach s ts s' ∧ SInv .inBody s' fs f' ∧ Same f f' ∧ f'.kids = f.kids ∧ f'.txt = some (f.txt.getD [] ++ d) := by
  obtain ⟨s', f', h1, h2, _, h4, h5, h6⟩ := textToks_run (fun _ => True) (fun _ _ => trivial)
    (fun c h0 h _ => by obtain ⟨s', a, b⟩ := step_body_char h c h0; exact ⟨s', a, b, trivial⟩) htt hok h trivial
  exact ⟨s', f', h1, h2, h4, h5, h6⟩

/-! ### what the grammar's context says about the open elements -/

/-- the relation between C07b's grammar context and the specification's stack -/
structure CtxS (x : Ctx) (fs : List SFrame) (f : SFrame) : Prop where
  noP : x.inP = false → NoneNamed fs f (lit "p")
  fm : ∀ g ∈ opens fs f, ∀ nm attrs, g.node.kind = .element .html nm attrs → fmtName nm = true → nm ∈ x.fm
  parent : ∃ attrs, f.node.kind = .element .html x.parent attrs

theorem NoneNamed.same {fs f f' name} (h : NoneNamed fs f name) (hs : Same f f') : NoneNamed fs f' name := by
  intro g hg
  rcases List.mem_append.1 hg with hg | hg
  · exact h g (List.mem_append_left _ hg)
  · simp at hg; subst hg; rw [hs.2]; exact h f (mem_opens_top fs f)

theorem CtxS.same {x fs f f'} (h : CtxS x fs f) (hs : Same f f') : CtxS x fs f' where
  noP := fun hi => (h.noP hi).same hs
  fm := by
    intro g hg nm attrs hk hf
    rcases List.mem_append.1 hg with hg | hg
    · exact h.fm g (List.mem_append_left _ hg) nm attrs hk hf
    · simp at hg; subst hg; rw [hs.2] at hk; exact h.fm f (mem_opens_top fs f) nm attrs hk hf
  parent := by rw [hs.2]; exact h.parent

/-- no entry of the list of active formatting elements has a name outside the context's list -/
theorem CtxS.afe_names {x fs f} {m s} (hc : CtxS x fs f) (h : SInv m s fs f) {nm : Str} (hn : x.fm.contains nm = false) :
    ∀ e ∈ s.afe, ∀ i n a, e = .elem i n a → n ≠ nm := by
  intro e he i n a hea
  rw [h.afe] at he
  obtain ⟨g, hg, hge⟩ := mem_afeOf he
  obtain ⟨gn, ga, hgk⟩ := h.kinds g hg
  unfold afeEntry at hge
  rw [hgk] at hge
  by_cases hf : fmtName gn = true
  · simp only [hf, if_true, Option.some.injEq] at hge
    rw [hea] at hge
    cases hge
    have := hc.fm g hg n ga hgk hf
    intro heq
    subst heq
    have : x.fm.contains n = true := by simpa using this
    rw [this] at hn
    cases hn
  · simp [hf] at hge

/-! ### from html5lib's category of a name to the specification's -/

/-- what the specification knows about a container name of category `c` -/
def CatS : Cat → Str → Prop
  | .ordinary, nm => among nm specStartNames = false ∧ among nm specEndNames = false
  | .block, nm => among nm specBlock = true
  | .para, nm => nm = lit "p"
  | .fmt, nm => fmtName nm = true
  | .heading, nm => among nm specHeadings = true
  | .item, nm => among nm specItems = true

theorem headings_eq : Gen.headingElements = specHeadings := by decide +kernel

theorem cat_spec {nm : Str} {c : Cat} (hc : catOf nm = some c) (hv : voidName nm = false) (ha : specAgrees nm = true) :
    CatS c nm := by
  have ha' := ha
  unfold specAgrees at ha'
  rw [hv] at ha'
  simp only [Bool.false_eq_true, ↓reduceIte, hc] at ha'
  unfold catOf at hc
  split at hc
  · cases hc
    simp only [specOrdinary, Bool.and_eq_true, Bool.not_eq_true'] at ha'
    exact ha'
  · split at hc
    · cases hc; exact ha'
    · split at hc
      · rename_i hp
        cases hc
        show nm = lit "p"
        have : nm = sP := by simpa using hp
        rw [this]; rfl
      · split at hc
        · rename_i hf; cases hc; exact hf
        · split at hc
          · rename_i hh
            cases hc
            show among nm specHeadings = true
            simpa [headingName, headings_eq, among] using hh
          · split at hc
            · rename_i hi
              cases hc
              show among nm specItems = true
              simp only [itemName, Bool.or_eq_true, beq_iff_eq] at hi
              rcases hi with (rfl | rfl) | rfl <;> decide +kernel
            · cases hc

theorem fmtNames_split : fmtNames = lit "a" :: specFmtB := by decide +kernel

theorem CatS.not_fmt {c : Cat} {nm : Str} (h : CatS c nm) (hc : c ≠ .fmt) : fmtName nm = false := by
  cases c with
  | ordinary => exact fmtName_false_of_ordinary h.1
  | block =>
    have := among_disjoint (L := fmtNames) h (by decide +kernel)
    simpa [fmtName, among] using this
  | para => have : nm = lit "p" := h; subst this; decide +kernel
  | fmt => exact absurd rfl hc
  | heading =>
    have := among_disjoint (L := fmtNames) h (by decide +kernel)
    simpa [fmtName, among] using this
  | item =>
    have := among_disjoint (L := fmtNames) h (by decide +kernel)
    simpa [fmtName, among] using this

theorem CatS.not_p {c : Cat} {nm : Str} (h : CatS c nm) (hc : c ≠ .para) : nm ≠ lit "p" := by
  intro hp
  subst hp
  cases c with
  | ordinary => have := h.1; revert this; decide +kernel
  | block => revert h; show among (lit "p") specBlock = true → False; decide +kernel
  | para => exact absurd rfl hc
  | fmt => revert h; show fmtName (lit "p") = true → False; decide +kernel
  | heading => revert h; show among (lit "p") specHeadings = true → False; decide +kernel
  | item => revert h; show among (lit "p") specItems = true → False; decide +kernel

/-- the start tag of a container element of category `c`, allowed by the context -/
theorem cat_start {x : Ctx} {c : Cat} {nm : Str} (hcs : CatS c nm) (hal : x.allowed c nm = true) {s fs f}
    (h : SInv .inBody s fs f) (hctx : CtxS x fs f) (pairs : List (Str × Str)) :
    ∃ s', (processToken (.startTag nm pairs false)).run s = .ok ((), s') ∧
      SInv .inBody s' (fs ++ [f.withChild s.arena.size]) (newFrame s.arena.size f.id nm (plainAttrs pairs)) := by
  cases c with
  | ordinary => exact step_start_ordinary h nm pairs hcs.1
  | block =>
    have hi : x.inP = false := by simpa [Ctx.allowed] using hal
    exact step_start_block h nm pairs (among_sub (K := specBlock) hcs (by decide +kernel)) (hctx.noP hi)
  | para =>
    have hi : x.inP = false := by simpa [Ctx.allowed] using hal
    have : nm = lit "p" := hcs
    subst this
    exact step_start_block h _ pairs (by decide +kernel) (hctx.noP hi)
  | fmt =>
    have hn : x.fm.contains nm = false := by simpa [Ctx.allowed] using hal
    have hno := hctx.afe_names h hn
    have hf : fmtName nm = true := hcs
    have hm : nm ∈ fmtNames := by simpa [fmtName] using hf
    rw [fmtNames_split] at hm
    rcases List.mem_cons.1 hm with rfl | hm
    · exact step_start_a h pairs hno
    · exact step_start_fmt h nm pairs (by simpa [among] using hm) hno
  | heading =>
    simp only [Ctx.allowed, Bool.and_eq_true, Bool.not_eq_true'] at hal
    obtain ⟨pattrs, hpk⟩ := hctx.parent
    refine step_start_heading h nm pairs hcs (hctx.noP hal.1) x.parent pattrs hpk ?_
    rw [← headings_eq]
    simpa [among] using hal.2
  | item =>
    simp only [Ctx.allowed, Bool.and_eq_true, Bool.not_eq_true'] at hal
    obtain ⟨pattrs, hpk⟩ := hctx.parent
    have hpar : x.parent = lit "ul" ∨ x.parent = lit "ol" ∨ x.parent = lit "dl" := by
      have := hal.2
      split at this
      · simp only [Bool.or_eq_true, beq_iff_eq] at this
        rcases this with h1 | h1
        · exact Or.inl h1
        · exact Or.inr (Or.inl h1)
      · exact Or.inr (Or.inr (by simpa using this))
    refine step_start_item h nm pairs hcs (hctx.noP hal.1) x.parent pattrs hpk ?_ ?_ ?_
    · rcases hpar with h1 | h1 | h1 <;> rw [h1] <;> decide +kernel
    · rcases hpar with h1 | h1 | h1 <;> rw [h1] <;> decide +kernel
    · rcases hpar with h1 | h1 | h1 <;> rw [h1] <;> decide +kernel

/-- the end tag of the current node, a container element of category `c` -/
theorem cat_end {c : Cat} {nm : Str} (hcs : CatS c nm) {s fs p g} (h : SInv .inBody s (fs ++ [p]) g) (hfs : fs ≠ [])
    (gattrs : List Attr) (hk : g.node.kind = .element .html nm gattrs) :
    ∃ s', (processToken (.endTag nm)).run s = .ok ((), s') ∧ SInv .inBody s' fs (p.withDone g) := by
  cases c with
  | ordinary => exact step_end_ordinary h hfs nm gattrs hk hcs.2 (fmtName_false_of_ordinary hcs.1)
  | block => exact step_end_block h hfs nm gattrs hk hcs
  | para =>
    have : nm = lit "p" := hcs
    subst this
    exact step_end_p h hfs gattrs hk
  | fmt => exact step_end_fmt h hfs nm gattrs hk hcs
  | heading => exact step_end_heading h hfs nm gattrs hk hcs
  | item => exact step_end_item h hfs nm gattrs hk hcs

theorem kindType_newFrame (id parent : Nat) (nm : Str) (attrs : List Attr) :
    (newFrame id parent nm attrs).node.kind = .element .html nm attrs := rfl

/-- the context of the children of a freshly opened element -/
theorem CtxS.inner {x : Ctx} {c : Cat} {nm : Str} (hcs : CatS c nm) (hal : x.allowed c nm = true) {fs f}
    (hctx : CtxS x fs f) (hfs : fs ≠ []) (size : Nat) (attrs : List Attr) :
    CtxS (x.inner c nm) (fs ++ [f.withChild size]) (newFrame size f.id nm attrs) := by
  have hop : opens (fs ++ [f.withChild size]) (newFrame size f.id nm attrs) =
      opens fs (f.withChild size) ++ [newFrame size f.id nm attrs] := opens_snoc _ _ _ hfs
  have hsame : Same f (f.withChild size) := ⟨rfl, rfl⟩
  have hctx' := hctx.same hsame
  have hnoP : x.inP = false → c ≠ .para → NoneNamed (fs ++ [f.withChild size]) (newFrame size f.id nm attrs) (lit "p") := by
    intro hi hc g hg
    rw [hop] at hg
    rcases List.mem_append.1 hg with hg | hg
    · exact hctx'.noP hi g hg
    · simp at hg; subst hg
      rw [kindType_newFrame]
      intro heq
      have : nm = lit "p" := by
        simp only [kindType, Option.some.injEq, Prod.mk.injEq] at heq
        exact heq.2
      exact hcs.not_p hc this
  have hfm : ∀ (l : List Str), (∀ y ∈ x.fm, y ∈ l) → (fmtName nm = true → nm ∈ l) →
      ∀ g ∈ opens (fs ++ [f.withChild size]) (newFrame size f.id nm attrs), ∀ n a,
        g.node.kind = .element .html n a → fmtName n = true → n ∈ l := by
    intro l hl hnew g hg n a hk hf
    rw [hop] at hg
    rcases List.mem_append.1 hg with hg | hg
    · exact hl n (hctx'.fm g hg n a hk hf)
    · simp at hg; subst hg
      rw [kindType_newFrame] at hk
      cases hk
      exact hnew hf
  cases c with
  | ordinary =>
    exact ⟨fun hi => hnoP hi (by simp), hfm x.fm (fun y hy => hy) (fun hf => by rw [hcs.not_fmt (by simp)] at hf; cases hf),
      ⟨attrs, rfl⟩⟩
  | block =>
    have hi : x.inP = false := by simpa [Ctx.allowed] using hal
    exact ⟨fun _ => hnoP hi (by simp), hfm x.fm (fun y hy => hy) (fun hf => by rw [hcs.not_fmt (by simp)] at hf; cases hf),
      ⟨attrs, rfl⟩⟩
  | para =>
    exact ⟨fun hi => by simp [Ctx.inner] at hi,
      hfm x.fm (fun y hy => hy) (fun hf => by rw [hcs.not_fmt (by simp)] at hf; cases hf), ⟨attrs, rfl⟩⟩
  | fmt =>
    exact ⟨fun hi => hnoP hi (by simp), hfm (nm :: x.fm) (fun y hy => List.mem_cons_of_mem _ hy)
      (fun _ => List.mem_cons_self ..), ⟨attrs, rfl⟩⟩
  | heading =>
    exact ⟨fun hi => hnoP hi (by simp), hfm x.fm (fun y hy => hy) (fun hf => by rw [hcs.not_fmt (by simp)] at hf; cases hf),
      ⟨attrs, rfl⟩⟩
  | item =>
    have hi : x.inP = false := by
      simp only [Ctx.allowed, Bool.and_eq_true, Bool.not_eq_true'] at hal; exact hal.1
    exact ⟨fun _ => hnoP hi (by simp), hfm x.fm (fun y hy => hy) (fun hf => by rw [hcs.not_fmt (by simp)] at hf; cases hf),
      ⟨attrs, rfl⟩⟩

end H5.Props.C01b
