/-
  C03d — the reprocess loop for the "other" end tags: end tags whose name is not a key of any end tag dispatch table
  (nor one of `head`, `body`, `html`, `br`).  Part 1: the default handlers.
-/
import H5.Props.C03dTagTotal
set_option linter.unusedSimpArgs false
set_option linter.unusedVariables false
namespace H5.Props.C03d
open H5 H5.Model H5.Model.TB H5.Model.Dom
open H5.Props.C02c (NF Post Post_bind Post_mono Post_pure Post_ok Post_error Post_throw Post_ite
  NF_typeError NF_keyError NF_indexError NF_assertFail NF_valueError NF_lookupError)
open H5.Props.C03b H5.Props.C03c

/-- the names with an end tag handler of their own in some phase -/
def keysE : List Str :=
  (Gen.endTagHandlers.flatMap (fun c => c.2.1.map (·.1))) ++ Gen.Lit.BeforeHtmlPhase_processEndTag_0

/-- an end tag that every phase hands to its default handler -/
def otherE : Token → Bool
  | .endTag d => !keysE.contains d.name
  | _ => false

theorem otherE_name {tok : Token} (h : otherE tok = true) : keysE.contains (tokName tok) = false := by
  cases tok <;> first | (simpa [otherE, tokName] using h) | cases h

theorem K_Initial_processEndTag (tok : Token) (st : PState) :
    Tr (Initial_processEndTag tok) st (fun _ st' => st'.phase = some .beforeHtml) := by
  unfold Initial_processEndTag Initial_anythingElse setPhase
  refine Tr_fr_skip _ _ _ _ ?_
  intro _ st0 _
  refine Tr_fr_skip _ _ _ _ ?_
  intro _ st1 _
  simp only [Tr_bind, Tr_modify, Tr_pure]

theorem K_AfterBody_endTagOther (tok : Token) (st : PState) :
    Tr (AfterBody_endTagOther tok) st (fun _ st' => st'.phase = some .inBody) := by
  unfold AfterBody_endTagOther setPhase
  refine Tr_fr_skip _ _ _ _ ?_
  intro _ st0 _
  refine Tr_fr_skip _ _ _ _ ?_
  intro _ st1 _
  simp only [Tr_bind, Tr_modify, Tr_pure]

theorem K_AfterAfterBody_processEndTag (tok : Token) (st : PState) :
    Tr (AfterAfterBody_processEndTag tok) st (fun _ st' => st'.phase = some .inBody) := by
  unfold AfterAfterBody_processEndTag setPhase
  refine Tr_fr_skip _ _ _ _ ?_
  intro _ st0 _
  refine Tr_fr_skip _ _ _ _ ?_
  intro _ st1 _
  simp only [Tr_bind, Tr_modify, Tr_pure]

theorem K_InColumnGroup_endTagOther (tok : Token) (st : PState) :
    Tr (InColumnGroup_endTagOther tok) st (fun a st' => a ≠ none → st'.phase = some .inTable) := by
  have := K_InColumnGroup_processCharacters tok st
  unfold InColumnGroup_processCharacters at this
  unfold InColumnGroup_endTagOther
  exact this

theorem K_InTableText_processEndTag {r : Rec} {n : Nat} (hr : RecInv r n) (hn : 0 < n) (tok : Token) (st : PState)
    (hi : C03c.Inv st) (hp : st.phase = some .inTableText) :
    Tr (InTableText_processEndTag r tok) st (fun _ st' => psi st'.phase ≤ 8) := by
  have := K_InTableText_processComment hr hn tok st hi hp
  unfold InTableText_processComment at this
  unfold InTableText_processEndTag
  exact this

theorem RN_BeforeHtml_processEndTag_other (tok : Token) (ho : otherE tok = true) :
    RN (BeforeHtml_processEndTag tok) := by
  have hk := otherE_name ho
  unfold BeforeHtml_processEndTag
  refine RN_liftE_bind _ _ ?_
  intro d hd
  have hn : d.name = tokName tok := tag_name hd
  have hb : Gen.Lit.BeforeHtmlPhase_processEndTag_0.contains d.name = false := by
    rw [hn]
    cases hc : Gen.Lit.BeforeHtmlPhase_processEndTag_0.contains (tokName tok) with
    | false => rfl
    | true =>
      have : keysE.contains (tokName tok) = true := by
        unfold keysE
        simp only [List.contains_eq_mem, List.mem_append, decide_eq_true_eq] at hc ⊢
        exact Or.inr hc
      rw [this] at hk; cases hk
  rw [if_pos (by rw [hb]; rfl)]
  rn_auto

/-- the nested `processEndTag` dispatches that never hand an "other" end tag back -/
class RecRNE (r : Rec) : Prop where
  E : ∀ ph tok, ph ∈ [Phase.inBody, .inTable, .inSelect] → otherE tok = true → RN (r.processEndTag ph tok)

/-- the default end tag handlers -/
def dfltE : List String :=
  ["BeforeHeadPhase.endTagOther", "InHeadPhase.endTagOther", "InHeadNoscriptPhase.endTagOther",
   "AfterHeadPhase.endTagOther", "InBodyPhase.endTagOther", "TextPhase.endTagOther", "InTablePhase.endTagOther",
   "InCaptionPhase.endTagOther", "InColumnGroupPhase.endTagOther", "InTableBodyPhase.endTagOther",
   "InRowPhase.endTagOther", "InCellPhase.endTagOther", "InSelectPhase.endTagOther",
   "InSelectInTablePhase.endTagOther", "AfterBodyPhase.endTagOther", "InFramesetPhase.endTagOther",
   "AfterFramesetPhase.endTagOther"]

def retBoundE (q : String) : Option Nat :=
  if q = "InitialPhase.processEndTag" then some 7
  else if q = "InColumnGroupPhase.endTagOther" then some 0
  else if q = "AfterBodyPhase.endTagOther" then some 0
  else if q = "AfterAfterBodyPhase.processEndTag" then some 0
  else if q = "InTableTextPhase.processEndTag" then some 8
  else none

set_option hygiene false in
macro "rke_close" : tactic => `(tactic| first
  | exact RetLe_none _ _ _
  | exact RetLe_some (k := 7) (Tr_mono (K_Initial_processEndTag _ _) (fun _ _ h _ => le_of_phase h (by decide))) (by decide)
  | exact RetLe_some (k := 0) (Tr_mono (K_AfterBody_endTagOther _ _) (fun _ _ h _ => le_of_phase h (by decide))) (by decide)
  | exact RetLe_some (k := 0) (Tr_mono (K_AfterAfterBody_processEndTag _ _) (fun _ _ h _ => le_of_phase h (by decide))) (by decide)
  | exact RetLe_some (k := 0) (Tr_mono (K_InColumnGroup_endTagOther _ _) (fun _ _ h ha => le_of_phase (h ha) (by decide))) (by decide)
  | exact RetLe_some (k := 8) (Tr_mono (K_InTableText_processEndTag hr hn _ _ hi (hreg rfl)) (fun _ _ h _ => h)) (by decide)
  | exact absurd hq (by decide))

set_option maxHeartbeats 8000000 in
theorem tagE_rank {r : Rec} [hrn : RecRN r] [hre : RecRNE r] (q : String) (hq : q ∈ dfltE) (tok : Token)
    (ho : otherE tok = true) (st : PState) : RetLe (runTagHandler r q tok) st (retBoundE q) := by
  haveI h1 : RN (InCaption_endTagOther r tok) := by
    unfold InCaption_endTagOther; exact RecRNE.E _ _ (by simp) ho
  haveI h2 : RN (InCell_endTagOther r tok) := by
    unfold InCell_endTagOther; exact RecRNE.E _ _ (by simp) ho
  haveI h3 : RN (InRow_endTagOther r tok) := by
    unfold InRow_endTagOther; exact RecRNE.E _ _ (by simp) ho
  haveI h4 : RN (InTableBody_endTagOther r tok) := by
    unfold InTableBody_endTagOther; exact RecRNE.E _ _ (by simp) ho
  haveI h5 : RN (InSelectInTable_endTagOther r tok) := by
    unfold InSelectInTable_endTagOther; exact RecRNE.E _ _ (by simp) ho
  have hr : True := trivial
  have hn : True := trivial
  have hi : True := trivial
  have hreg : q = "InTableTextPhase.processEndTag" → True := fun _ => trivial
  delta runTagHandler
  delta runTagHandler.match_1
  repeat (refine RetLe_dite _ _ _ _ (fun heq => ?_) (fun _ => ?_); (· subst heq; dsimp only [Eq.ndrec_symm]; rke_close))
  exact RetLe_none _ _ _

end H5.Props.C03d
