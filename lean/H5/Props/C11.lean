/-
  Property C11 — tree walkers emit a well-formed stream that reproduces the tree.
  Model: H5.Model.Walker (hand model of NonRecursiveTreeWalker.__iter__ / TreeWalker.text over a zipper cursor;
  tied by op `walk` on trees read from real minidom / ElementTree objects).  Spec: H5.Spec.walkRec.
-/
import H5.Model.Walker
import H5.Spec.Walk
namespace H5.Props.C11
open H5 H5.Model.Walker H5.Spec

/-- what is still to be emitted after the focus' subtree is finished -/
def after : List Frame → List Tok
  | [] => []
  | fr :: up => walkList fr.rights ++ closeToks fr.node ++ after up

def remaining : WState → List Tok
  | .outer c => walkRec c.focus ++ after c.ctx
  | .inner c => closeToks c.focus ++ after c.ctx
  | .done => []

theorem step_remaining (s : WState) : remaining s = (stepW s).1 ++ remaining (stepW s).2 := by
  cases s with
  | done => rfl
  | inner c =>
    obtain ⟨focus, ctx⟩ := c
    cases ctx with
    | nil => simp [stepW, remaining, after]
    | cons fr up =>
      obtain ⟨node, rights⟩ := fr
      cases rights with
      | nil => simp [stepW, remaining, after, walkList]
      | cons sib rest => simp [stepW, remaining, after, walkList]
  | outer c =>
    obtain ⟨focus, ctx⟩ := c
    cases focus with
    | doctype n p s => simp [stepW, remaining, openToks, closeToks, walkRec, children]
    | text s => simp [stepW, remaining, openToks, closeToks, walkRec, children]
    | comment s => simp [stepW, remaining, openToks, closeToks, walkRec, children]
    | doc cs => cases cs <;> simp [stepW, remaining, openToks, closeToks, walkRec, walkList, children, after]
    | frag cs => cases cs <;> simp [stepW, remaining, openToks, closeToks, walkRec, walkList, children, after]
    | elem ns name attrs cs =>
      by_cases hv : isVoid ns name = true
      · cases cs <;> simp [stepW, remaining, openToks, closeToks, walkRec, children, hv]
      · cases cs <;> simp [stepW, remaining, openToks, closeToks, walkRec, walkList, children, hv, after]

/-- partial correctness: whenever the loop finishes, it has emitted exactly the remaining recursive stream -/
theorem run_remaining (fuel : Nat) (s : WState) (out : List Tok) : run fuel s = .ok out → out = remaining s := by
  induction fuel generalizing s out with
  | zero =>
    cases s <;> simp [run, remaining]
  | succ k ih =>
    cases s with
    | done => simp [run, remaining]
    | outer c =>
      simp only [run]
      cases hr : run k (stepW (.outer c)).2 with
      | error e => simp
      | ok rest =>
        intro h
        injection h with h
        rw [step_remaining, ← ih _ _ hr, h]
    | inner c =>
      simp only [run]
      cases hr : run k (stepW (.inner c)).2 with
      | error e => simp
      | ok rest =>
        intro h
        injection h with h
        rw [step_remaining, ← ih _ _ hr, h]

/-! ### termination: an explicit measure that every step decreases -/

def afterM : List Frame → Nat
  | [] => 0
  | fr :: up => 2 * sizeList fr.rights + 1 + afterM up

def measure : WState → Nat
  | .outer c => 2 * size c.focus + afterM c.ctx
  | .inner c => 1 + afterM c.ctx
  | .done => 0

theorem size_pos (t : Tree) : 1 ≤ size t := by cases t <;> simp [size] <;> omega

theorem step_measure (s : WState) (h : s ≠ .done) : measure (stepW s).2 < measure s := by
  cases s with
  | done => exact absurd rfl h
  | inner c =>
    obtain ⟨focus, ctx⟩ := c
    cases ctx with
    | nil => simp [stepW, measure, afterM]
    | cons fr up =>
      obtain ⟨node, rights⟩ := fr
      cases rights with
      | nil => simp [stepW, measure, afterM, sizeList]
      | cons sib rest => simp [stepW, measure, afterM, sizeList]; omega
  | outer c =>
    obtain ⟨focus, ctx⟩ := c
    cases focus with
    | doctype n p s => simp [stepW, measure, openToks, children, size]
    | text s => simp [stepW, measure, openToks, children, size]
    | comment s => simp [stepW, measure, openToks, children, size]
    | doc cs => cases cs <;> simp [stepW, measure, openToks, children, size, sizeList, afterM] <;> omega
    | frag cs => cases cs <;> simp [stepW, measure, openToks, children, size, sizeList, afterM] <;> omega
    | elem ns name attrs cs =>
      by_cases hv : isVoid ns name = true
      · cases cs <;> simp [stepW, measure, openToks, children, size, sizeList, hv] <;> omega
      · cases cs <;> simp [stepW, measure, openToks, children, size, sizeList, hv, afterM] <;> omega

theorem run_total (fuel : Nat) (s : WState) (h : measure s ≤ fuel) : ∃ out, run fuel s = .ok out := by
  induction fuel generalizing s with
  | zero =>
    cases s with
    | done => exact ⟨[], rfl⟩
    | outer c => have := size_pos c.focus; simp [measure] at h; omega
    | inner c => simp [measure] at h
  | succ k ih =>
    cases s with
    | done => exact ⟨[], rfl⟩
    | outer c =>
      have hm := step_measure (.outer c) (by simp)
      obtain ⟨rest, hr⟩ := ih (stepW (.outer c)).2 (by omega)
      exact ⟨(stepW (.outer c)).1 ++ rest, by simp [run, hr]⟩
    | inner c =>
      have hm := step_measure (.inner c) (by simp)
      obtain ⟨rest, hr⟩ := ih (stepW (.inner c)).2 (by omega)
      exact ⟨(stepW (.inner c)).1 ++ rest, by simp [run, hr]⟩

/-- **C11 (the walker reproduces the tree).** for every tree the non-recursive walker terminates and emits
exactly the recursive token stream of the tree. -/
theorem C11_walk (t : Tree) : walk t = .ok (walkRec t) := by
  obtain ⟨out, h⟩ := run_total (2 * size t + 1) (.outer ⟨t, []⟩) (by simp [measure, afterM])
  have := run_remaining _ _ _ h
  simp [remaining, after] at this
  rw [walk, h, this]

end H5.Props.C11
