/-
  C03d — "other" end tags through the dispatcher.
-/
import H5.Props.C03dEndForeign
set_option linter.unusedSimpArgs false
set_option linter.unusedVariables false
namespace H5.Props.C03d
open H5 H5.Model H5.Model.TB H5.Model.Dom
open H5.Props.C02c (NF Post Post_bind Post_mono Post_pure Post_ok Post_error Post_throw Post_ite
  NF_typeError NF_keyError NF_indexError NF_assertFail NF_valueError NF_lookupError)
open H5.Props.C03b H5.Props.C03c

/-- the `processEndTag` methods of the phases without a dispatch table (but `InForeignContentPhase`) -/
def plainE : List String :=
  ["InitialPhase.processEndTag", "BeforeHtmlPhase.processEndTag", "InTableTextPhase.processEndTag",
   "AfterAfterBodyPhase.processEndTag", "AfterAfterFramesetPhase.processEndTag"]

set_option maxHeartbeats 8000000 in
theorem plainE_rank {r : Rec} [hrn : RecRN r] {n : Nat} (hr : RecInv r n) (hn : 0 < n) (q : String) (hq : q ∈ plainE)
    (tok : Token) (ho : otherE tok = true) (st : PState) (hi : C03c.Inv st)
    (hreg : q = "InTableTextPhase.processEndTag" → st.phase = some .inTableText) :
    RetLe (runProcessPlain r q tok) st (retBoundE q) := by
  haveI h1 : RN (BeforeHtml_processEndTag tok) := RN_BeforeHtml_processEndTag_other tok ho
  delta runProcessPlain
  delta runProcessPlain.match_1
  repeat (refine RetLe_dite _ _ _ _ (fun heq => ?_) (fun _ => ?_); (· subst heq; dsimp only [Eq.ndrec_symm]; rke_close))
  exact RetLe_none _ _ _

theorem runPlain_foreignE (r : Rec) (tok : Token) :
    runProcessPlain r "InForeignContentPhase.processEndTag" tok = InForeignContent_processEndTag r tok := by
  delta runProcessPlain
  delta runProcessPlain.match_1
  repeat (first | rw [dif_pos rfl] | rw [dif_neg (by decide)])

theorem keysE_items : ∀ ph ∈ Phase.all, ∀ it ∈ itemsOf Gen.endTagHandlers ph, keysE.contains it.1 = true := by
  decide +kernel

theorem dflt_of_otherE {ph : Phase} {nm : Str} {h : String}
    (hl : lookupHandler Gen.endTagHandlers "endTagHandler" ph nm = .ok h) (hk : keysE.contains nm = false) :
    dfltOf Gen.endTagHandlers ph = some h := by
  rcases lookup_item hl with hi | ⟨hd, _⟩
  · have := keysE_items ph (Phase.mem_all ph) (nm, h) hi
    rw [hk] at this; cases this
  · exact hd

/-- the bound for the default end tag handler of a phase -/
def dfltBoundE (p : Phase) : Option Nat :=
  match dfltOf Gen.endTagHandlers p with | some h => retBoundE h | none => none

theorem phaseE_rank {r : Rec} [hrn : RecRN r] [hre : RecRNE r] (p : Phase) (tok : Token) (ho : otherE tok = true)
    (st : PState) (hd : ∀ h, dfltOf Gen.endTagHandlers p = some h → h ∈ dfltE) :
    RetLe (Phase_processEndTag r p tok) st (dfltBoundE p) := by
  unfold Phase_processEndTag dfltBoundE
  refine RetLe_liftE_bind _ _ _ _ ?_
  intro d hdt
  refine RetLe_liftE_bind _ _ _ _ ?_
  intro h hl
  have hdf := dflt_of_otherE hl (by rw [tag_name hdt]; exact otherE_name ho)
  rw [hdf]
  exact tagE_rank h (hd h hdf) tok ho st

def rankOKE (p : Phase) : Bool :=
  match resolveMethod p "processEndTag" with
  | .ok q =>
    if q = "Phase.processEndTag" then
      (match dfltOf Gen.endTagHandlers p with
       | some h => dfltE.contains h && p != .inForeignContent &&
           (match retBoundE h with | some k => decide (k < psi (some p)) | none => true)
       | none => false)
    else if q = "InForeignContentPhase.processEndTag" then p == .inForeignContent
    else q != "Phase.processStartTag" && q != "InBodyPhase.<slot>" && plainE.contains q &&
      (match retBoundE q with
       | some k => decide (k < psi (some p)) && p != .inForeignContent &&
           (q != "InTableTextPhase.processEndTag" || p == .inTableText)
       | none => true)
  | .error _ => true

theorem rankE_static : ∀ p ∈ Phase.all, rankOKE p = true := by decide +kernel

/-- `phases[p].processEndTag(token)` for an "other" end tag, `p` the phase register or `InForeignContentPhase` -/
theorem runProcessE_rank {r : Rec} [hrn : RecRN r] [hre : RecRNE r] {n : Nat} (hr : RecInv r n) (hn : 0 < n)
    (p : Phase) (hdec : p = .inForeignContent → RecDecE r) (tok : Token) (ho : otherE tok = true) (hNs : NsNone tok) (st : PState)
    (hi : C03c.Inv st) (hreg : p = .inForeignContent ∨ st.phase = some p) :
    ∀ t st', (runProcess r p "processEndTag" tok).run st = .ok (some t, st') → psi st'.phase < psi st.phase := by
  have hs := rankE_static p (Phase.mem_all p)
  unfold rankOKE at hs
  unfold runProcess
  refine run_liftE_bind _ _ _ _ ?_
  intro q hq
  rw [hq] at hs
  dsimp only at hs
  split
  · simp at hs
  · -- the generic method
    rw [if_pos rfl] at hs
    cases hdf : dfltOf Gen.endTagHandlers p with
    | none => rw [hdf] at hs; cases hs
    | some h =>
      rw [hdf] at hs
      simp only [Bool.and_eq_true, List.contains_eq_mem, decide_eq_true_eq, bne_iff_ne, ne_eq] at hs
      obtain ⟨⟨hmem, hnf⟩, hb⟩ := hs
      have := phaseE_rank (r := r) p tok ho st (fun h' hh' => by rw [hdf] at hh'; cases hh'; exact hmem)
      unfold dfltBoundE at this
      rw [hdf] at this
      dsimp only at this
      intro t st' hrun
      obtain ⟨k, hk, hle⟩ := this t st' hrun
      rw [hk] at hb
      have hlt : k < psi (some p) := by simpa using hb
      have hph : st.phase = some p := by
        rcases hreg with h' | h'
        · exact absurd h' hnf
        · exact h'
      rw [hph]; omega
  · simp at hs
  · rename_i h1 h2 h3
    rw [if_neg h2] at hs
    by_cases hfq : q = "InForeignContentPhase.processEndTag"
    · subst hfq
      rw [if_pos rfl] at hs
      have hpf : p = .inForeignContent := by simpa using hs
      rw [runPlain_foreignE]
      exact foreignE_rank (hdec hpf) tok ho hNs st hi
    · rw [if_neg hfq] at hs
      simp only [Bool.and_eq_true, List.contains_eq_mem, decide_eq_true_eq, bne_iff_ne, ne_eq] at hs
      obtain ⟨⟨_, hmem⟩, hb⟩ := hs
      cases hbd : retBoundE q with
      | none =>
        have := plainE_rank hr hn q hmem tok ho st hi (fun he => by rw [he] at hbd; exact absurd hbd (by decide))
        rw [hbd] at this
        intro t st' hrun
        obtain ⟨k, hk, _⟩ := this t st' hrun
        cases hk
      | some k =>
        rw [hbd] at hb
        simp only [Bool.and_eq_true, decide_eq_true_eq, bne_iff_ne, ne_eq, Bool.or_eq_true, beq_iff_eq] at hb
        obtain ⟨⟨hlt, hnf⟩, hitt⟩ := hb
        have hph : st.phase = some p := by
          rcases hreg with h' | h'
          · exact absurd h' hnf
          · exact h'
        have := plainE_rank hr hn q hmem tok ho st hi (fun he => by
          rcases hitt with h' | h'
          · exact absurd he h'
          · rw [hph, h'])
        rw [hbd] at this
        intro t st' hrun
        obtain ⟨k', hk', hle⟩ := this t st' hrun
        cases hk'
        rw [hph]; omega

end H5.Props.C03d
