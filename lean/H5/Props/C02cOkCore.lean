/-
  Property C02 "total", clean corollary — common definitions.

  From the five entry states with an absent or start-tag-shaped `currentToken` the only exception the model
  can raise is the `ValueError` of `int()` on more than 4300 decimal digits (NOTES, bug 1).

  * `VE e`       : `e` is a `valueError`.
  * `OPost x P`  : `x` is `.ok a` with `P a`, or fails with a `valueError`.
  * success lemmas for the character-reference helpers of `H5.Model.CharRef` (all the `IndexError` /
    `KeyError` / `TypeError` sites there are unreachable for a table without the empty key).
-/
import H5.Props.C02cHelpers
set_option linter.unusedSimpArgs false
namespace H5.Props.C02c
open H5 H5.Gen H5.Model H5.Model.Tokenizer

def VE (e : PyErr) : Prop := ∃ m, e = .valueError m

def OPost {α : Type} (x : Except PyErr α) (P : α → Prop) : Prop :=
  match x with
  | .ok a => P a
  | .error e => VE e

theorem OPost_ok {α : Type} (a : α) (P : α → Prop) : OPost (Except.ok a) P ↔ P a := Iff.rfl
theorem OPost_pure {α : Type} (a : α) (P : α → Prop) : OPost (pure a : Except PyErr α) P ↔ P a := Iff.rfl
theorem OPost_error {α : Type} (e : PyErr) (P : α → Prop) : OPost (Except.error e : Except PyErr α) P ↔ VE e :=
  Iff.rfl
theorem OPost_throw {α : Type} (e : PyErr) (P : α → Prop) : OPost (throw e : Except PyErr α) P ↔ VE e :=
  Iff.rfl
theorem OPost_bind {α β : Type} (x : Except PyErr α) (f : α → Except PyErr β) (P : β → Prop) :
    OPost (x >>= f) P ↔ OPost x (fun a => OPost (f a) P) := by
  cases x <;> rfl
theorem OPost_ite {α : Type} (c : Prop) [Decidable c] (a b : Except PyErr α) (P : α → Prop) :
    OPost (if c then a else b) P ↔ (if c then OPost a P else OPost b P) := by
  split <;> rfl
theorem OPost_mono {α : Type} {x : Except PyErr α} {Q P : α → Prop} (h : OPost x Q) (hq : ∀ a, Q a → P a) :
    OPost x P := by
  cases x with
  | ok a => exact hq a h
  | error e => exact h

theorem VE_valueError (m : String) : VE (.valueError m) := ⟨m, rfl⟩
theorem VE_typeError (m : String) : VE (.typeError m) ↔ False := by simp [VE]
theorem VE_keyError (m : String) : VE (.keyError m) ↔ False := by simp [VE]
theorem VE_indexError (m : String) : VE (.indexError m) ↔ False := by simp [VE]
theorem VE_assertFail (m : String) : VE (.assertFail m) ↔ False := by simp [VE]
theorem VE_lookupError (m : String) : VE (.lookupError m) ↔ False := by simp [VE]
theorem VE_outOfFuel (m : String) : VE (.outOfFuel m) ↔ False := by simp [VE]

theorem ok_bind {α β : Type} (a : α) (f : α → Except PyErr β) : (Except.ok a >>= f) = f a := rfl

/-! ### numeric references -/

theorem pyIntDigits_ok (radix : Nat) (s : Str) (acc : Nat) : OPost (pyIntDigits radix s acc) (fun _ => True) := by
  induction s generalizing acc with
  | nil => simp [pyIntDigits, OPost]
  | cons c r ih =>
    simp only [pyIntDigits]
    split
    · split
      · exact ih _
      · exact VE_valueError _
    · exact VE_valueError _

theorem pyInt_ok (s : Str) (radix : Nat) : OPost (pyInt s radix) (fun _ => True) := by
  unfold pyInt
  split
  · exact VE_valueError _
  · split
    · exact VE_valueError _
    · exact pyIntDigits_ok _ _ _

theorem cne_ok_aux (c : Option Nat) (r : List Nat) (x : Except PyErr Nat) (hx : OPost x fun _ => True) :
    OPost (do
      let charAsInt ← x
      if c ≠ some Ch.semi then
          pure
            ((numCharRef charAsInt).fst, (numCharRef charAsInt).snd.toList ++ [perr "numeric-entity-without-semicolon"],
              Stream.unget r c)
        else pure ((numCharRef charAsInt).fst, (numCharRef charAsInt).snd.toList, r))
    fun _ => True := by
  simp only [OPost_bind]
  refine OPost_mono hx ?_
  intro a _
  split <;> trivial

theorem consumeNumberEntity_ok (isHex : Bool) (i : List Nat) :
    OPost (consumeNumberEntity isHex i) (fun _ => True) := by
  unfold consumeNumberEntity
  cases isHex
  · simp only [Bool.false_eq_true, ↓reduceIte]
    generalize consumeDigits digits i = cd
    obtain ⟨cs, c, r⟩ := cd
    split
    · exact cne_ok_aux c r _ trivial
    · exact cne_ok_aux c r _ (pyInt_ok _ _)
  · simp only [↓reduceIte]
    generalize consumeDigits hexDigits i = cd
    obtain ⟨cs, c, r⟩ := cd
    split
    · exact cne_ok_aux c r _ trivial
    · exact cne_ok_aux c r _ (pyInt_ok _ _)

/-! ### named references -/

theorem joinChars_map_some (l : List Nat) : joinChars (l.map some) = .ok l := by
  induction l with
  | nil => rfl
  | cons c r ih => simp only [List.map_cons, joinChars, ih, ok_bind]; rfl

theorem joinChars_concat_some (l : List Nat) (c : Nat) : joinChars (l.map some ++ [some c]) = .ok (l ++ [c]) := by
  rw [← joinChars_map_some (l ++ [c])]; simp

/-- the char stack stays of the shape "real characters, then one character or EOF" -/
theorem extendWhilePrefix_ok (table : List (Str × Str)) (i : List Nat) (l : List Nat) (x : Option Nat) :
    OPost (extendWhilePrefix table i (l.map some ++ [x])) (fun r => ∃ (l' : List Nat) (x' : Option Nat), r.1 = l'.map some ++ [x']) := by
  induction i generalizing l x with
  | nil =>
    unfold extendWhilePrefix
    simp only [List.getLast?_concat]
    cases x with
    | none => exact ⟨l, none, rfl⟩
    | some c =>
      simp only [joinChars_concat_some]
      split
      · exact ⟨l, some c, rfl⟩
      · exact ⟨l ++ [c], none, by simp⟩
  | cons d rest ih =>
    unfold extendWhilePrefix
    simp only [List.getLast?_concat]
    cases x with
    | none => exact ⟨l, none, rfl⟩
    | some c =>
      simp only [joinChars_concat_some]
      split
      · exact ⟨l, some c, rfl⟩
      · have := ih (l ++ [c]) (some d)
        simp only [List.map_append, List.map_cons, List.map_nil] at this
        exact this

/-- `longest_prefix` only raises `KeyError`; a result is a non-empty key of the table that is a prefix -/
theorem longestPrefixFrom_ok (table : List (Str × Str)) (pfx : Str) (n : Nat) (hn : n ≤ pfx.length)
    (hE : hasKey table [] = false) :
    match longestPrefixFrom table pfx n with
    | .ok r => ∃ k, k < pfx.length ∧ r = pfx.take (k + 1) ∧ hasKey table r = true
    | .error e => ∃ m, e = .keyError m := by
  induction n with
  | zero => simp [longestPrefixFrom, hE]
  | succ n ih =>
    simp only [longestPrefixFrom]
    by_cases h : hasKey table (List.take (n + 1) pfx) = true
    · rw [if_pos h]
      exact ⟨n, by omega, rfl, h⟩
    · rw [if_neg h]
      exact ih (by omega)

theorem lookup_of_hasKey (table : List (Str × Str)) (k : Str) (h : hasKey table k = true) :
    ∃ v, table.lookup k = some v := by
  induction table with
  | nil => simp [hasKey] at h
  | cons kv rest ih =>
    obtain ⟨k', v'⟩ := kv
    simp only [hasKey, List.any_cons, Bool.or_eq_true, beq_iff_eq] at h
    simp only [List.lookup]
    by_cases hk : k = k'
    · subst hk; simp
    · have : (k == k') = false := by simp [hk]
      simp only [this]
      apply ih
      rcases h with h | h
      · exact absurd h.symm hk
      · simpa [hasKey] using h

theorem entityValue_ok (table : List (Str × Str)) (k : Str) (h : hasKey table k = true) :
    ∃ v, entityValue table k = .ok v := by
  obtain ⟨v, hv⟩ := lookup_of_hasKey table k h
  exact ⟨v, by simp [entityValue, hv]⟩

theorem consumeNamedEntity_ok (table : List (Str × Str)) (hE : hasKey table [] = false) (fa : Bool) (c0 : Nat)
    (i : List Nat) : OPost (consumeNamedEntity table fa (some c0) i) (fun _ => True) := by
  unfold consumeNamedEntity
  simp only [OPost_bind]
  have h0 := extendWhilePrefix_ok table i [] (some c0)
  simp only [List.map_nil, List.nil_append] at h0
  refine OPost_mono h0 ?_
  rintro ⟨cs, inp⟩ ⟨l, x, hcs⟩
  simp only at hcs
  subst hcs
  simp only [List.dropLast_concat, joinChars_map_some, OPost_ok, ok_bind]
  have hlp := longestPrefixFrom_ok table l l.length (Nat.le_refl _) hE
  unfold longestPrefix
  generalize longestPrefixFrom table l l.length = lp at hlp
  cases lp with
  | error e =>
    obtain ⟨m, rfl⟩ := hlp
    simp only [pure, Except.pure, ok_bind, charStackLast, List.getLast?_concat, List.dropLast_concat,
      joinChars_map_some]
    trivial
  | ok r =>
    obtain ⟨k, hk, rfl, hkey⟩ := hlp
    obtain ⟨v, hv⟩ := entityValue_ok table _ hkey
    have hne : (List.take (k + 1) l).getLast? ≠ none := by
      simp only [ne_eq, List.getLast?_eq_none_iff, List.take_eq_nil_iff]
      intro h; rcases h with h | h
      · omega
      · subst h; simp at hk
    cases hgl : (List.take (k + 1) l).getLast? with
    | none => exact absurd hgl hne
    | some d =>
      have hlen : (List.take (k + 1) l).length = k + 1 := by simp; omega
      have hget : (List.map some l ++ [x])[k + 1]? ≠ none := by
        simp only [ne_eq, List.getElem?_eq_none_iff, List.length_append, List.length_map, List.length_cons,
          List.length_nil]; omega
      simp only [pure, Except.pure, ok_bind, hgl, charStackLast, charStackGet, List.getLast?_concat,
        List.dropLast_concat, joinChars_map_some, hlen, hv, ← List.map_drop]
      cases hg : (List.map some l ++ [x])[k + 1]? with
      | none => exact absurd hg hget
      | some y =>
        repeat' (first | simp only [OPost_bind, OPost_ok, ok_bind, OPost_pure] | split)
        all_goals trivial

theorem entities_no_empty_key : hasKey entities [] = false := by decide +kernel

/-! ### the verification-condition generator, for `OPost` -/

syntax "opost_helper" : tactic
macro_rules | `(tactic| opost_helper) => `(tactic| with_reducible apply OPost_mono (consumeNumberEntity_ok _ _))
macro_rules
  | `(tactic| opost_helper) =>
    `(tactic| with_reducible apply OPost_mono (consumeNamedEntity_ok _ (by assumption) _ _ _))

macro "opost_simp" : tactic => `(tactic| simp only [OPost_bind, OPost_pure, OPost_ok, OPost_error, OPost_throw,
  OPost_ite, ok_bind, VE_typeError, VE_keyError, VE_indexError, VE_assertFail, VE_lookupError, VE_outOfFuel])

macro "opost_loop" : tactic => `(tactic| repeat' (first
   | opost_simp
   | (opost_helper; intro _ _)
   | split ))

theorem charStackLast_two (a b : Option Nat) : charStackLast [a, b] = .ok b := by simp [charStackLast]
theorem charStackLast_three (a b c : Option Nat) : charStackLast [a, b, c] = .ok c := by simp [charStackLast]
theorem joinChars_dropLast_two (a : Nat) (x : Option Nat) : joinChars [some a, x].dropLast = .ok [a] := by
  simp [joinChars, ok_bind]; rfl
theorem joinChars_dropLast_three (a b : Nat) (x : Option Nat) :
    joinChars [some a, some b, x].dropLast = .ok [a, b] := by
  simp [joinChars, ok_bind]; rfl

theorem consumeEntityCore_ok (ac : Option Nat) (fa : Bool) (i : List Nat) :
    OPost (consumeEntityCore ac fa i) (fun _ => True) := by
  unfold consumeEntityCore
  have hE := entities_no_empty_key
  generalize entities = tbl at hE
  rcases i with _ | ⟨c0, _ | ⟨c1, _ | ⟨c2, r⟩⟩⟩
  all_goals simp only [char_nil, char_cons, isIn_none, isIn_some]
  all_goals repeat' (first
    | opost_simp
    | simp only [charStackLast_two, charStackLast_three, joinChars_dropLast_two, joinChars_dropLast_three]
    | (opost_helper; intro _ _)
    | split)
  all_goals try trivial
  all_goals simp_all

end H5.Props.C02c
