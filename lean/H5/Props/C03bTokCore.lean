/-
  Property C03b (parser fuel) — tokenizer part: a potential that also counts QUEUED tokens.

  `Φ s = 8·|s.input| + K·w s.state + |s.tokenQueue|`  (`K = 3`, `w ≤ 2` the weight of `H5.Props.C02c`).

  Every `self.state()` call pays for the tokens it appends to the queue:
  `#new tokens ≤ 8·(characters consumed) + K·(w state − w state')` (`step_phi` in `H5.Props.C03bTok`).

  This file: the predicate `Pay` (the analogue of `C02c.Dec` including the queue) and the strengthened facts about
  the stream helpers that can queue tokens or whose consumption must be related to what is queued:
  `consumeNumberEntity` (≤ 2 errors), `consumeNamedEntity` (≤ 1 error), `consumeEntityCore`
  (`#errors ≤ 1 + consumed`), `cdataLoop` (`|data| ≤ consumed`, needed for the one-error-per-NUL loop).
-/
import H5.Props.C02cHelpers
set_option linter.unusedSimpArgs false
namespace H5.Props.C03b
open H5 H5.Gen H5.Model H5.Model.Tokenizer
open H5.Props.C02c

/-- price of one unit of state weight, in tokens (`K * 2 < 8`) -/
abbrev K : Nat := 3

/-- the potential including the queued tokens -/
def Φ (s : St) : Nat := 8 * s.input.length + K * w s.state + s.tokenQueue.length

/-- what a state call must achieve when it returns `True` from a state of weight `W` with `n` characters left
and `q` tokens queued: the potential (including the queue) has not grown -/
def Pay (n W q : Nat) (r : Bool × St) : Prop :=
  r.1 = true → 8 * r.2.input.length + 3 * w r.2.state + r.2.tokenQueue.length ≤ 8 * n + 3 * W + q

theorem Post_and {α : Type} {x : Except PyErr α} {P Q : α → Prop} (hp : Post x P) (hq : Post x Q) :
    Post x (fun a => P a ∧ Q a) := by
  cases x with
  | ok a => exact ⟨hp, hq⟩
  | error e => exact hp

/-! ### character references: how many parse errors -/

theorem optToList_length {α : Type} (o : Option α) : o.toList.length ≤ 1 := by
  cases o <;> simp

theorem cne_errs (c : Option Nat) (r : List Nat) (x : Except PyErr Nat) (hx : Post x fun _ => True) :
    Post (do
      let charAsInt ← x
      if c ≠ some Ch.semi then
          pure
            ((numCharRef charAsInt).fst, (numCharRef charAsInt).snd.toList ++ [perr "numeric-entity-without-semicolon"],
              Stream.unget r c)
        else pure ((numCharRef charAsInt).fst, (numCharRef charAsInt).snd.toList, r))
    fun r => r.2.1.length ≤ 2 := by
  simp only [Post_bind]
  refine Post_mono hx ?_
  intro a _
  have := optToList_length (numCharRef a).snd
  split <;> simp only [Post_pure, List.length_append, List.length_cons, List.length_nil] <;> omega

/-- a numeric reference queues at most two errors (illegal code point, missing semicolon) -/
theorem consumeNumberEntity_errs (isHex : Bool) (i : List Nat) :
    Post (consumeNumberEntity isHex i) (fun r => r.2.1.length ≤ 2) := by
  unfold consumeNumberEntity
  cases isHex
  · simp only [Bool.false_eq_true, ↓reduceIte]
    generalize hcd : consumeDigits digits i = cd
    obtain ⟨cs, c, r⟩ := cd
    split
    · exact cne_errs c r _ trivial
    · exact cne_errs c r _ (pyInt_post _ _)
  · simp only [↓reduceIte]
    generalize hcd : consumeDigits hexDigits i = cd
    obtain ⟨cs, c, r⟩ := cd
    split
    · exact cne_errs c r _ trivial
    · exact cne_errs c r _ (pyInt_post _ _)

theorem consumeNumberEntity_post2 (isHex : Bool) (i : List Nat) :
    Post (consumeNumberEntity isHex i) (fun r => r.2.1.length ≤ 2 ∧ r.2.2.length ≤ i.length) :=
  Post_and (consumeNumberEntity_errs isHex i) (consumeNumberEntity_post isHex i)

theorem charStackLast_exact (cs : List (Option Nat)) :
    Post (charStackLast cs) (fun c => cs.getLast? = some c) := by
  unfold charStackLast; split
  · assumption
  · exact NF_indexError _

syntax "post_helper2" : tactic
macro_rules | `(tactic| post_helper2) => `(tactic| with_reducible apply Post_mono (joinChars_post _))
macro_rules | `(tactic| post_helper2) => `(tactic| with_reducible apply Post_mono (charStackLast_exact _))
macro_rules | `(tactic| post_helper2) => `(tactic| with_reducible apply Post_mono (charStackGet_post _ _))
macro_rules | `(tactic| post_helper2) => `(tactic| with_reducible apply Post_mono (entityValue_post _ _))
macro_rules | `(tactic| post_helper2) => `(tactic| with_reducible apply Post_mono (consumeNumberEntity_post2 _ _))

/-- push `Post` through binds / ifs / matches, using the strengthened helper specifications -/
macro "post_loop2" : tactic => `(tactic| repeat' (first
   | post_simp
   | (post_helper2; intro _ _)
   | split ))

/-- a named reference queues at most one error -/
theorem consumeNamedEntity_errs (table : List (Str × Str)) (fa : Bool) (c0 : Option Nat) (i : List Nat) :
    Post (consumeNamedEntity table fa c0 i) (fun r => r.2.1.length ≤ 1) := by
  unfold consumeNamedEntity
  simp only [Post_bind]
  refine Post_mono (extendWhilePrefix_post table i [c0]) ?_
  rintro ⟨cs, inp⟩ _
  simp only
  refine Post_mono (joinChars_post _) ?_
  intro pfx _
  have hlp := longestPrefix_post table pfx
  generalize longestPrefix table pfx = lp at hlp
  post_loop2
  all_goals first
    | exact hlp
    | simp

theorem consumeNamedEntity_post2 (table : List (Str × Str)) (fa : Bool) (c0 : Option Nat) (i : List Nat) :
    Post (consumeNamedEntity table fa c0 i)
      (fun r => r.2.1.length ≤ 1 ∧ r.2.2.length ≤ i.length + somes [c0]) :=
  Post_and (consumeNamedEntity_errs table fa c0 i) (consumeNamedEntity_post table fa c0 i)

macro_rules | `(tactic| post_helper2) => `(tactic| with_reducible apply Post_mono (consumeNamedEntity_post2 _ _ _ _))

/-- `consumeEntity` up to its last statement: the number of queued errors is at most one more than the number
of characters consumed (`&1`: one error, nothing consumed; `&#1`: two errors, two characters consumed) -/
theorem consumeEntityCore_post2 (ac : Option Nat) (fa : Bool) (i : List Nat) :
    Post (consumeEntityCore ac fa i)
      (fun r => r.2.1.length + r.2.2.length ≤ i.length + 1 ∧ r.2.2.length ≤ i.length) := by
  unfold consumeEntityCore
  generalize entities = tbl
  rcases i with _ | ⟨c0, _ | ⟨c1, _ | ⟨c2, r⟩⟩⟩
  all_goals simp only [char_nil, char_cons, isIn_none, isIn_some]
  all_goals post_loop2
  all_goals (try subst_vars)
  all_goals (simp only [unget_length, somes, List.length_cons, List.length_nil, isIn_none, isIn_some] at *)
  all_goals first
    | omega
    | (simp_all [somes]; try subst_vars; try (simp_all [somes]); try omega)

/-! ### queue bookkeeping -/

theorem foldl_emit_queue (ts : List TTok) (s : St) :
    (ts.foldl (fun s t => s.emit t) s).tokenQueue.length = s.tokenQueue.length + ts.length := by
  induction ts generalizing s with
  | nil => rfl
  | cons t r ih =>
    rw [List.foldl_cons, ih]
    simp only [St.emit, List.length_append, List.length_cons, List.length_nil]
    omega

theorem foldl_unget_queue (cs : List (Option Nat)) (s : St) :
    (cs.foldl (fun s c => s.unget c) s).tokenQueue = s.tokenQueue := by
  induction cs generalizing s with
  | nil => rfl
  | cons c r ih => rw [List.foldl_cons, ih]; rfl

theorem St_char_queue (s : St) : (s.char).2.tokenQueue = s.tokenQueue := by
  simp [St.char]

/-! ### `cdataLoop`: the characters collected were consumed -/

theorem span_loop_sum {α : Type} (p : α → Bool) (i acc : List α) :
    (List.span.loop p i acc).1.length + (List.span.loop p i acc).2.length = acc.length + i.length := by
  induction i generalizing acc with
  | nil => simp [List.span.loop]
  | cons a r ih =>
    simp only [List.span.loop]
    split
    · rw [ih]; simp only [List.length_cons]; omega
    · simp

theorem charsUntil_sum (i cs : List Nat) (o : Bool) :
    (Stream.charsUntil i cs o).1.length + (Stream.charsUntil i cs o).2.length = i.length := by
  unfold Stream.charsUntil List.span
  have := span_loop_sum (fun c => if o = true then cs.contains c else !cs.contains c) i []
  simpa using this

theorem dropLast_append_two {α : Type} (d : List α) (a b : α) : (d ++ [a, b]).dropLast = d ++ [a] := by
  have : d ++ [a, b] = (d ++ [a]) ++ [b] := by simp
  rw [this, List.dropLast_concat]

theorem cdataLoop_post2 (fuel : Nat) (data : List Str) (i : List Nat) (h : i.length < fuel) :
    Post (cdataLoop fuel data i)
      (fun r => r.1.flatten.length + r.2.length ≤ data.flatten.length + i.length) := by
  induction fuel generalizing data i with
  | zero => omega
  | succ fuel ih =>
    simp only [cdataLoop]
    have l1 := charsUntil_sum i [Ch.rbracket] false
    have l2 := charsUntil_sum (Stream.charsUntil i [Ch.rbracket]).snd [Ch.gt] false
    have l3 := char_length (Stream.charsUntil (Stream.charsUntil i [Ch.rbracket]).snd [Ch.gt]).snd
    generalize (Stream.charsUntil i [Ch.rbracket]) = p1 at *
    obtain ⟨a, i1⟩ := p1
    generalize (Stream.charsUntil i1 [Ch.gt]) = p2 at *
    obtain ⟨b, i2⟩ := p2
    simp only at l1 l2 l3 ⊢
    split
    · simp only [Post_ok, List.flatten_append, List.flatten_cons, List.flatten_nil, List.length_append,
        List.append_nil]
      omega
    · split
      · exact NF_assertFail _
      · split
        · simp only [Post_ok, dropLast_append_two, List.flatten_append, List.flatten_cons, List.flatten_nil,
            List.length_append, List.append_nil, List.length_take]
          omega
        · rename_i hc _ _
          generalize (Stream.char i2) = p at *
          obtain ⟨c, i3⟩ := p
          have : c = some Ch.gt := by
            cases c with
            | none => exact absurd rfl hc
            | some x => simp_all
          subst this
          simp only [somes] at l3
          refine Post_mono (ih _ i3 (by omega)) ?_
          intro r hr
          simp only [List.flatten_append, List.flatten_cons, List.flatten_nil, List.length_append,
            List.append_nil, List.length_cons, List.length_nil] at hr
          omega

end H5.Props.C03b
